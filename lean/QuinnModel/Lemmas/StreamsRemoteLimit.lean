import QuinnModel.Lemmas.StreamsC06Main

/-!
# C06: peer-initiated streams never exceed the advertised count

`next_remote[dir] ≤ max_remote[dir]` in every reachable state: no frame of any type opens (implicitly
or explicitly) more peer-initiated streams than were advertised.  The supporting invariant: every
peer-initiated key of the `send` map lies below `max_remote` (entries are created by
`ensure_remote_streams` only, together with the limit).
-/

namespace QM.Streams
set_option pp.structureInstances false

/-- the keys of the `send` map -/
def skeys (s : State) : List Nat := s.send.map Prod.fst

/-- the remote-stream invariant -/
def RLInv (s : State) : Prop :=
  (∀ d, s.nextRemote.get d ≤ s.maxRemote.get d) ∧
  (∀ k, k ∈ skeys s → sidInitiator k ≠ s.side → sidIndex k < s.maxRemote.get (sidDir k)) ∧
  (∀ d, s.nextReportedRemote.get d ≤ s.nextRemote.get d)

/-- a step that does not touch `next_remote`: same side, limits only grow, every new key of `send` is
    locally initiated or below the (new) limit -/
def Ext (s s' : State) : Prop :=
  s'.side = s.side ∧ (∀ d, s.maxRemote.get d ≤ s'.maxRemote.get d) ∧ s'.nextRemote = s.nextRemote ∧
  (∀ k, k ∈ skeys s' → k ∈ skeys s ∨ sidInitiator k = s.side ∨ sidIndex k < s'.maxRemote.get (sidDir k)) ∧
  s'.nextReportedRemote = s.nextReportedRemote

theorem Ext.refl (s : State) : Ext s s := ⟨rfl, fun _ => Nat.le_refl _, rfl, fun _ h => Or.inl h, rfl⟩

theorem Ext.trans {a b c : State} (h1 : Ext a b) (h2 : Ext b c) : Ext a c := by
  obtain ⟨a1, a2, a3, a4, a5⟩ := h1
  obtain ⟨b1, b2, b3, b4, b5⟩ := h2
  refine ⟨b1.trans a1, fun d => Nat.le_trans (a2 d) (b2 d), b3.trans a3, fun k hk => ?_, b5.trans a5⟩
  rcases b4 k hk with h | h | h
  · rcases a4 k h with h' | h' | h'
    · exact Or.inl h'
    · exact Or.inr (Or.inl h')
    · exact Or.inr (Or.inr (Nat.lt_of_lt_of_le h' (b2 _)))
  · exact Or.inr (Or.inl (h.trans a1))
  · exact Or.inr (Or.inr h)

/-- same scalars, same keys -/
theorem Ext.same {s s' : State} (h1 : s'.side = s.side) (h2 : s'.maxRemote = s.maxRemote)
    (h3 : s'.nextRemote = s.nextRemote) (h5 : s'.nextReportedRemote = s.nextReportedRemote)
    (h4 : skeys s' = skeys s) : Ext s s' :=
  ⟨h1, fun d => by rw [h2]; exact Nat.le_refl _, h3, fun k hk => Or.inl (h4 ▸ hk), h5⟩

/-- same scalars, fewer keys -/
theorem Ext.sub {s s' : State} (h1 : s'.side = s.side) (h2 : s'.maxRemote = s.maxRemote)
    (h3 : s'.nextRemote = s.nextRemote) (h5 : s'.nextReportedRemote = s.nextReportedRemote)
    (h4 : ∀ k, k ∈ skeys s' → k ∈ skeys s) : Ext s s' :=
  ⟨h1, fun d => by rw [h2]; exact Nat.le_refl _, h3, fun k hk => Or.inl (h4 k hk), h5⟩

theorem RLInv.ext {s s' : State} (i : RLInv s) (e : Ext s s') : RLInv s' := by
  obtain ⟨e1, e2, e3, e4, e5⟩ := e
  refine ⟨fun d => by rw [e3]; exact Nat.le_trans (i.1 d) (e2 d), fun k hk hr => ?_,
    fun d => by rw [e3, e5]; exact i.2.2 d⟩
  rw [e1] at hr
  rcases e4 k hk with h | h | h
  · exact Nat.lt_of_lt_of_le (i.2.1 k h hr) (e2 _)
  · exact absurd h hr
  · exact h

/-! ### maps -/

@[simp] theorem Map.keys_set {α} (m : Map α) (k : Nat) (v : α) :
    (m.set k v).map Prod.fst = m.map Prod.fst := by
  induction m with
  | nil => rfl
  | cons hd tl ih =>
    obtain ⟨a, b⟩ := hd
    simp only [Map.set]
    split
    · rename_i h; simp [h]
    · simp [ih]

theorem Map.keys_erase {α} (m : Map α) (k x : Nat) (h : x ∈ (m.erase k).map Prod.fst) :
    x ∈ m.map Prod.fst := by
  induction m with
  | nil => simp [Map.erase] at h
  | cons hd tl ih =>
    obtain ⟨a, b⟩ := hd
    simp only [Map.erase] at h
    split at h
    · exact List.mem_cons_of_mem _ (ih h)
    · simp only [List.map_cons, List.mem_cons] at h ⊢
      rcases h with h | h
      · exact Or.inl h
      · exact Or.inr (ih h)

theorem Map.find_mem {α} (m : Map α) (k : Nat) (v : α) (h : m.find? k = some v) : k ∈ m.map Prod.fst := by
  induction m with
  | nil => simp at h
  | cons hd tl ih =>
    obtain ⟨a, b⟩ := hd
    simp only [Map.find?] at h
    split at h
    · rename_i e; simp [e]
    · exact List.mem_cons_of_mem _ (ih h)

@[simp] theorem skeys_putSend (s : State) (id : Nat) (x : Send) : skeys (s.putSend id x) = skeys s := by
  simp [skeys, State.putSend]

/-- closes `Ext s s'` when `s'` is a record update of `s` that leaves the scalars alone and changes
    `send` only through `set` -/
macro "ext_same" : tactic =>
  `(tactic| exact Ext.same rfl rfl rfl rfl (by simp [skeys, State.putSend]))

/-! ### helpers -/

theorem ext_getOrInsertSend {s s' : State} {id : Nat} {x : Send}
    (h : s.getOrInsertSend id = some (x, s')) : Ext s s' ∧ id ∈ skeys s := by
  unfold State.getOrInsertSend at h
  osplit h
  all_goals
    have hf := ‹Map.find? s.send id = some _›
    rw [← h.2]
    exact ⟨by first | exact Ext.refl _ | ext_same, Map.find_mem _ _ _ hf⟩

theorem skeys_mapInsertIf {c : Bool} {m m' : Map (Option Send)} {id : Nat}
    (h : mapInsertIf c m id = some m') (k : Nat) (hk : k ∈ m'.map Prod.fst) : k = id ∨ k ∈ m.map Prod.fst := by
  unfold mapInsertIf Map.insertNew at h
  split at h
  · split at h
    · contradiction
    · simp only [Option.some.injEq] at h; subst h
      simpa using hk
  · simp only [Option.some.injEq] at h; subst h; exact Or.inr hk

/-- `insert` adds at most the key `id` and touches nothing else -/
theorem insert_keys {s s' : State} {r : Bool} {id : Nat} (h : s.insert r id = some s') :
    s'.side = s.side ∧ s'.maxRemote = s.maxRemote ∧ s'.nextRemote = s.nextRemote ∧
    (∀ k, k ∈ skeys s' → k = id ∨ k ∈ skeys s) ∧ s'.nextReportedRemote = s.nextReportedRemote := by
  unfold State.insert at h
  osplit h
  subst h
  exact ⟨rfl, rfl, rfl, fun k hk => skeys_mapInsertIf ‹mapInsertIf _ s.send _ = some _› k hk, rfl⟩

theorem insertRemoteRange_keys' (n : Nat) : ∀ {s s' : State} {d : Dir} {st i : Nat},
    s.insertRemoteRange d st n i = some s' →
    s'.side = s.side ∧ s'.maxRemote = s.maxRemote ∧ s'.nextRemote = s.nextRemote ∧
    (∀ k, k ∈ skeys s' → k ∈ skeys s ∨ ∃ j, j < st + i + n ∧ k = sidNew s.side.not d j) ∧
    s'.nextReportedRemote = s.nextReportedRemote := by
  induction n with
  | zero => intro s s' d st i h; simp [State.insertRemoteRange] at h; subst h
            exact ⟨rfl, rfl, rfl, fun k hk => Or.inl hk, rfl⟩
  | succ n ih =>
    intro s s' d st i h
    unfold State.insertRemoteRange at h
    split at h
    · simp at h
    · rename_i s1 h1
      obtain ⟨a1, a2, a3, a4, a5⟩ := insert_keys h1
      obtain ⟨b1, b2, b3, b4, b5⟩ := ih h
      refine ⟨b1.trans a1, b2.trans a2, b3.trans a3, fun k hk => ?_, b5.trans a5⟩
      rcases b4 k hk with hk1 | ⟨j, hj, hkj⟩
      · rcases a4 k hk1 with rfl | hk0
        · exact Or.inr ⟨st + i, by omega, rfl⟩
        · exact Or.inl hk0
      · exact Or.inr ⟨j, by omega, by rw [hkj, a1]⟩

theorem two_get_set (t : Two Nat) (d d' : Dir) (v : Nat) :
    (t.set d v).get d' = if d' = d then v else t.get d' := by
  cases d <;> cases d' <;> simp [Two.get, Two.set]

theorem ext_ensureRemoteStreams {s s' : State} {d : Dir} (h : s.ensureRemoteStreams d = some s') :
    Ext s s' := by
  unfold State.ensureRemoteStreams at h
  osplit h
  subst h
  rename_i s1 h1
  obtain ⟨a1, a2, a3, a4, a5⟩ := insertRemoteRange_keys' _ h1
  refine ⟨a1, fun d' => ?_, a3, fun k hk => ?_, a5⟩
  · simp only [two_get_set, a2]
    by_cases hd : d' = d
    · subst hd; simp only [↓reduceIte]; omega
    · simp only [hd, ↓reduceIte]; exact Nat.le_refl _
  · rcases a4 k hk with h0 | ⟨j, hj, rfl⟩
    · exact Or.inl h0
    · right; right
      simp only [sidDir_sidNew, sidIndex_sidNew, two_get_set, a2, ↓reduceIte]
      omega

theorem ext_freeRemote {s s' : State} {id : Nat} {hf : Half} (h : s.freeRemote id hf = some s') :
    Ext s s' := by
  unfold State.freeRemote at h
  osplit h
  all_goals first
    | (subst h; exact Ext.refl _)
    | (have f := ext_ensureRemoteStreams h
       exact Ext.trans (Ext.same rfl rfl rfl rfl rfl) f)

theorem ext_streamFreed {s s' : State} {id : Nat} {hf : Half} (h : s.streamFreed id hf = some s') :
    Ext s s' := by
  unfold State.streamFreed at h
  osplit h
  all_goals
    subst h
    have f := ext_freeRemote ‹State.freeRemote _ _ _ = some _›
    first | exact f | exact f.trans (Ext.same rfl rfl rfl rfl rfl)

theorem ext_queueMaxStreamId {s s' : State} {b : Bool} (h : s.queueMaxStreamId = some (s', b)) :
    Ext s s' := by
  unfold State.queueMaxStreamId at h
  osplit h
  all_goals
    rw [← h.1]
    exact Ext.same rfl rfl rfl rfl rfl

theorem ext_queueMaxIf {s s' : State} {c : Bool} (h : s.queueMaxIf c = some s') : Ext s s' := by
  rcases queueMaxIf_cases h with rfl | ⟨b, hq⟩
  · exact Ext.same rfl rfl rfl rfl rfl
  · exact ext_queueMaxStreamId hq

/-! ### sender-side operations -/

/-- `s'` is reached through `getOrInsertSend` and updates that keep scalars and keys -/
macro "ext_via_send" : tactic =>
  `(tactic| first
      | exact Ext.refl _
      | ext_same
      | (have hg := (ext_getOrInsertSend ‹State.getOrInsertSend _ _ = some _›).1
         first | exact hg | exact Ext.trans hg (by ext_same)))

theorem ext_write {s s' : State} {id n : Nat} {r : Except WriteErr Nat} (h : s.write id n = some (s', r)) :
    Ext s s' := by
  unfold State.write at h
  osplit h
  all_goals
    obtain ⟨rfl, _⟩ := h
    ext_via_send

theorem ext_finish {s s' : State} {id : Nat} {r : Except WriteErr Unit} (h : s.finish id = (s', r)) :
    Ext s s' := by
  unfold State.finish at h
  osplit h
  all_goals
    obtain ⟨rfl, _⟩ := h
    ext_via_send

theorem ext_reset {s s' : State} {id code : Nat} {b : Bool} (h : s.reset id code = some (s', b)) :
    Ext s s' := by
  unfold State.reset at h
  osplit h
  all_goals
    obtain ⟨rfl, _⟩ := h
    ext_via_send

theorem ext_setPriority {s s' : State} {id : Nat} {p : Int} {b : Bool} (h : s.setPriority id p = (s', b)) :
    Ext s s' := by
  unfold State.setPriority at h
  osplit h
  all_goals
    obtain ⟨rfl, _⟩ := h
    ext_via_send

theorem ext_open {s s' : State} {d : Dir} {r : Option Nat} (h : s.open_ d = some (s', r)) : Ext s s' := by
  unfold State.open_ at h
  osplit h
  · obtain ⟨rfl, _⟩ := h; exact Ext.refl _
  · obtain ⟨rfl, _⟩ := h; ext_same
  · obtain ⟨rfl, _⟩ := h
    obtain ⟨a1, a2, a3, a4, a5⟩ := insert_keys ‹State.insert _ _ _ = some _›
    refine ⟨a1, fun d' => by rw [a2]; exact Nat.le_refl _, a3, fun k hk => ?_, a5⟩
    rcases a4 k hk with rfl | h0
    · exact Or.inr (Or.inl (sidInitiator_sidNew _ _ _))
    · exact Or.inl h0

theorem rl_accept (s : State) (d : Dir) (i : RLInv s) : RLInv (s.accept d).1 := by
  unfold State.accept
  split
  · exact i
  · rename_i hne
    have hlt : s.nextReportedRemote.get d < s.nextRemote.get d := by
      have := i.2.2 d; omega
    have key : ∀ d', (s.nextReportedRemote.set d (s.nextReportedRemote.get d + 1)).get d' ≤ s.nextRemote.get d' := by
      intro d'
      simp only [two_get_set]
      split
      · rename_i hd; subst hd; omega
      · exact i.2.2 d'
    dsimp only
    split <;> exact ⟨i.1, i.2.1, key⟩

theorem ext_retransmit {s s' : State} {id a e : Nat} {fin : Bool} (h : s.retransmit id a e fin = some s') :
    Ext s s' := by
  unfold State.retransmit at h
  osplit h
  all_goals
    subst h
    first | exact Ext.refl _ | ext_same

theorem ext_eraseSend (s : State) (id : Nat) : Ext s { s with send := s.send.erase id } :=
  Ext.sub rfl rfl rfl rfl (fun k hk => Map.keys_erase _ _ _ hk)

theorem ext_resetAcked {s s' : State} {id : Nat} (h : s.resetAcked id = some s') : Ext s s' := by
  unfold State.resetAcked at h
  osplit h
  all_goals first
    | (subst h; exact Ext.refl _)
    | (have f := ext_streamFreed h
       exact Ext.trans (ext_eraseSend _ _) f)

theorem ext_receivedAckOf {s s' : State} {id a e : Nat} {fin : Bool}
    (h : s.receivedAckOf id a e fin = some s') : Ext s s' := by
  unfold State.receivedAckOf at h
  osplit h
  all_goals first
    | (subst h; first | exact Ext.refl _ | ext_same)
    | (subst h
       have f := ext_streamFreed ‹State.streamFreed _ _ _ = some _›
       have g : Ext s _ := Ext.trans (by ext_same) (Ext.trans (ext_eraseSend _ id) f)
       exact Ext.trans g (by ext_same))

theorem ext_pollBlocked : ∀ (fuel : Nat) {s s' : State} {e : Option Event},
    s.pollBlocked fuel = some (s', e) → Ext s s' := by
  intro fuel
  induction fuel with
  | zero => intro s s' e h; simp [State.pollBlocked] at h; rw [← h.1]; exact Ext.refl _
  | succ n ih =>
    intro s s' e h
    unfold State.pollBlocked at h
    osplit h
    all_goals first
      | (obtain ⟨rfl, _⟩ := h; first | exact Ext.refl _ | ext_same)
      | (have f := ih h; exact Ext.trans (by ext_same) f)

theorem ext_pollBlockedIf {s s' : State} {c : Bool} {e : Option Event}
    (h : s.pollBlockedIf c = some (s', e)) : Ext s s' := by
  unfold State.pollBlockedIf at h
  osplit h
  · exact ext_pollBlocked _ h
  · obtain ⟨rfl, _⟩ := h; exact Ext.refl _

theorem ext_poll {s s' : State} {e : Option Event} (h : s.poll = some (s', e)) : Ext s s' := by
  unfold State.poll at h
  osplit h
  all_goals first
    | (obtain ⟨rfl, _⟩ := h; first | exact Ext.refl _ | ext_same)
    | (have f := ext_pollBlockedIf ‹State.pollBlockedIf _ _ = some _›
       obtain ⟨rfl, _⟩ := h
       first | exact f | exact Ext.trans f (by ext_same))

theorem ext_writeStreamFrames (maxBuf : Nat) (fair : Bool) : ∀ (fuel : Nat) {s s' : State}
    {bl bl' : Nat} {acc fs : List SentFrame},
    s.writeStreamFrames maxBuf fair fuel bl acc = some (s', bl', fs) → Ext s s' := by
  intro fuel
  induction fuel with
  | zero => intro s s' bl bl' acc fs h; simp [State.writeStreamFrames] at h; rw [← h.1]; exact Ext.refl _
  | succ n ih =>
    intro s s' bl bl' acc fs h
    unfold State.writeStreamFrames at h
    osplit h
    all_goals first
      | (obtain ⟨rfl, _⟩ := h; exact Ext.refl _)
      | (have f := ih h; exact Ext.trans (by ext_same) f)

theorem ext_rtx0Loop (dir : Dir) : ∀ (n : Nat) {s s' : State} {i : Nat},
    s.rtx0Loop dir n i = some s' → Ext s s' := by
  intro n
  induction n with
  | zero => intro s s' i h; simp [State.rtx0Loop] at h; subst h; exact Ext.refl _
  | succ n ih =>
    intro s s' i h
    unfold State.rtx0Loop at h
    osplit h
    all_goals first
      | exact ih h
      | (have f := ih h; exact Ext.trans (by ext_same) f)

theorem ext_retransmitAllFor0rtt {s s' : State} (h : s.retransmitAllFor0rtt = some s') : Ext s s' := by
  unfold State.retransmitAllFor0rtt at h
  osplit h
  exact Ext.trans (ext_rtx0Loop _ _ ‹State.rtx0Loop _ _ _ _ = some _›) (ext_rtx0Loop _ _ h)

theorem skeys_setParamsLoop (side : Side) (v : Nat) : ∀ (n i : Nat) (m : Map (Option Send)),
    (setParamsLoop side v m n i).map Prod.fst = m.map Prod.fst := by
  intro n
  induction n with
  | zero => intro i m; rfl
  | succ n ih =>
    intro i m
    unfold setParamsLoop
    simp only
    rw [ih]
    split <;> simp

theorem ext_setParams (s : State) (p : Params) : Ext s (s.setParams p) := by
  unfold State.setParams State.receivedMaxData
  exact Ext.same rfl rfl rfl rfl (by simp [skeys, skeys_setParamsLoop])

theorem ext_receivedMaxStreams (s : State) (d : Dir) (n : Nat) : Ext s (s.receivedMaxStreams d n).1 := by
  unfold State.receivedMaxStreams
  split
  · exact Ext.refl _
  · split <;> first | exact Ext.refl _ | ext_same

theorem ext_afterUnblock (s : State) (b : Bool) (id : Nat) (x' : Send) (wl : Nat) :
    Ext s (s.afterUnblock b id x' wl) := by
  unfold State.afterUnblock
  split
  · split
    · ext_same
    · split <;> first | exact Ext.refl _ | ext_same
  · exact Ext.refl _

theorem ext_setMaxConcurrent {s s' : State} {d : Dir} {n : Nat} (h : s.setMaxConcurrent d n = some s') :
    Ext s s' := by
  unfold State.setMaxConcurrent at h
  have f := ext_ensureRemoteStreams h
  exact Ext.trans (Ext.same rfl rfl rfl rfl rfl) f

theorem ext_setReceiveWindow (s : State) (n : Nat) : Ext s (s.setReceiveWindow n).1 := by
  unfold State.setReceiveWindow
  split <;> ext_same

/-! ### receiver-side helpers -/

theorem ext_getOrInsertRecv {s s1 : State} {id : Nat} {rs : Recv} (h : s.getOrInsertRecv id = some (rs, s1)) :
    Ext s s1 := by
  unfold State.getOrInsertRecv at h
  osplit h
  all_goals
    rw [← h.2]
    first | exact Ext.refl _ | exact Ext.same rfl rfl rfl rfl rfl

theorem ext_streamRecvFreed {s s' : State} {id : Nat} (h : s.streamRecvFreed id = some s') : Ext s s' :=
  ext_streamFreed h

theorem ext_freeRecvIf {s s' : State} {c : Bool} {id : Nat} (h : s.freeRecvIf c id = some s') : Ext s s' := by
  unfold State.freeRecvIf at h
  osplit h
  · have f := ext_streamRecvFreed h
    exact Ext.trans (Ext.same rfl rfl rfl rfl rfl) f
  · subst h; exact Ext.refl _

theorem ext_freeIf {s s' : State} {c : Bool} {id : Nat} (h : s.freeIf c id = some s') : Ext s s' := by
  unfold State.freeIf at h
  osplit h
  · exact ext_streamRecvFreed h
  · subst h; exact Ext.refl _

theorem ext_applyCredits (s : State) (c : Nat) : Ext s (s.applyCredits c) := by
  unfold State.applyCredits
  split <;> exact Ext.same rfl rfl rfl rfl rfl

theorem ext_addReadCredits {s s' : State} {c : Nat} {t : Bool} (h : s.addReadCredits c = some (s', t)) :
    Ext s s' := by
  unfold State.addReadCredits at h
  osplit h
  all_goals
    obtain ⟨rfl, _⟩ := h
    exact ext_applyCredits s c

theorem ext_creditAndQueue {s s' : State} {c : Nat} {t : Bool} (h : s.creditAndQueue c = some (s', t)) :
    Ext s s' := by
  unfold State.creditAndQueue at h
  osplit h
  all_goals
    have f := ext_addReadCredits ‹State.addReadCredits _ _ = some _›
    obtain ⟨rfl, _⟩ := h
    first | exact f | exact Ext.trans f (Ext.same rfl rfl rfl rfl rfl)

theorem ext_finalizeReadable {s s' : State} {id : Nat} {rs1 : Recv} {freed t0 t : Bool}
    (h : s.finalizeReadable id rs1 freed t0 = some (s', t)) : Ext s s' := by
  unfold State.finalizeReadable at h
  osplit h
  all_goals
    obtain ⟨rfl, _⟩ := h
    first | exact Ext.refl _ | exact Ext.same rfl rfl rfl rfl rfl

theorem ext_queueStopSending (s : State) (c : Bool) (id code : Nat) : Ext s (s.queueStopSending c id code) := by
  unfold State.queueStopSending
  split <;> first | exact Ext.refl _ | exact Ext.same rfl rfl rfl rfl rfl

/-! ### `on_stream_frame` -/

theorem rl_onStreamFrame {s : State} (i : RLInv s) (b : Bool) (id : Nat)
    (hid : sidInitiator id ≠ s.side → sidIndex id < s.maxRemote.get (sidDir id)) :
    RLInv (s.onStreamFrame b id) := by
  unfold State.onStreamFrame
  split
  · split
    · exact i.ext (Ext.same rfl rfl rfl rfl rfl)
    · exact i
  · rename_i hr
    have hlt := hid hr
    dsimp only
    split
    · rename_i hge
      refine ⟨fun d => ?_, i.2.1, fun d => ?_⟩
      · simp only [two_get_set]
        split
        · rename_i hd; subst hd; omega
        · exact i.1 d
      · simp only [two_get_set]
        split
        · rename_i hd; subst hd; have := i.2.2 (sidDir id); omega
        · exact i.2.2 d
    · split
      · exact i.ext (Ext.same rfl rfl rfl rfl rfl)
      · exact i

theorem rl_dataRecvd {a : State} (i : RLInv a) (d : Nat) : RLInv { a with dataRecvd := d } :=
  i.ext (Ext.same rfl rfl rfl rfl rfl)

/-- a frame for stream `id` processed after steps that do not touch `next_remote` -/
theorem rl_frame {s m : State} (i : RLInv s) (e : Ext s m) (b : Bool) (id : Nat)
    (hid : sidInitiator id ≠ s.side → sidIndex id < s.maxRemote.get (sidDir id) ∨ id ∈ skeys s) :
    RLInv (m.onStreamFrame b id) := by
  apply rl_onStreamFrame (i.ext e)
  intro hr
  rw [e.1] at hr
  have : sidIndex id < s.maxRemote.get (sidDir id) := by
    rcases hid hr with h | h
    · exact h
    · exact i.2.1 id h hr
  exact Nat.lt_of_lt_of_le this (e.2.1 _)

theorem validate_ok {s : State} {id : Nat} (h : s.validateReceiveId id = none)
    (hr : sidInitiator id ≠ s.side) : sidIndex id < s.maxRemote.get (sidDir id) := by
  unfold State.validateReceiveId at h
  have : ¬ s.side = sidInitiator id := fun e => hr e.symm
  simp only [this, ↓reduceIte] at h
  split at h
  · contradiction
  · omega

/-! ### frame operations -/

theorem rl_received {s s' : State} {id off len : Nat} {fin : Bool} {r : Except TErr Bool}
    (h : s.received id off len fin = some (s', r)) (i : RLInv s) : RLInv s' := by
  unfold State.received at h
  osplit h
  all_goals
    try (have hg := ext_getOrInsertRecv ‹State.getOrInsertRecv _ _ = some _›)
    try (have hv := validate_ok ‹State.validateReceiveId _ _ = none›)
    obtain ⟨rfl, _⟩ := h
    first
      | exact i
      | exact i.ext hg
      | (refine rl_frame i ?_ _ _ (fun hr => Or.inl (hv hr))
         exact Ext.trans hg (Ext.same rfl rfl rfl rfl rfl))
      | (have f := ext_freeRecvIf ‹State.freeRecvIf _ _ _ = some _›
         have c := ext_creditAndQueue ‹State.creditAndQueue _ _ = some _›
         refine i.ext (Ext.trans (Ext.trans ?_ f) c)
         exact Ext.trans hg (Ext.same rfl rfl rfl rfl rfl))

theorem rl_receivedReset {s s' : State} {id code fo : Nat} {r : Except TErr Bool}
    (h : s.receivedReset id code fo = some (s', r)) (i : RLInv s) : RLInv s' := by
  unfold State.receivedReset at h
  osplit h
  all_goals
    try (have hg := ext_getOrInsertRecv ‹State.getOrInsertRecv _ _ = some _›)
    try (have hv := validate_ok ‹State.validateReceiveId _ _ = none›)
    try (have f := ext_freeRecvIf ‹State.freeRecvIf _ _ _ = some _›)
    try (have c := ext_creditAndQueue ‹State.creditAndQueue _ _ = some _›)
    obtain ⟨rfl, _⟩ := h
    first
      | exact i
      | exact i.ext hg
      | (refine rl_frame i (Ext.trans ?_ f) _ _ (fun hr => Or.inl (hv hr))
         exact Ext.trans hg (Ext.same rfl rfl rfl rfl rfl))
      | (refine RLInv.ext ?_ c
         refine rl_dataRecvd ?_ _
         refine rl_frame i (Ext.trans ?_ f) _ _ (fun hr => Or.inl (hv hr))
         exact Ext.trans hg (Ext.same rfl rfl rfl rfl rfl))

theorem rl_receivedStopSending (s : State) (id code : Nat) (i : RLInv s) :
    RLInv (s.receivedStopSending id code) := by
  unfold State.receivedStopSending
  split
  · exact i
  · rename_i x s1 hg
    obtain ⟨e, hk⟩ := ext_getOrInsertSend hg
    dsimp only
    split
    · exact rl_frame i (Ext.trans e (by ext_same)) _ _ (fun _ => Or.inr hk)
    · exact i.ext e

theorem rl_receivedMaxStreamData {s s' : State} {id n : Nat} {e : Option TErr}
    (h : s.receivedMaxStreamData id n = some (s', e)) (i : RLInv s) : RLInv s' := by
  unfold State.receivedMaxStreamData at h
  osplit h
  · obtain ⟨rfl, _⟩ := h; exact i
  · obtain ⟨rfl, _⟩ := h; exact i
  · obtain ⟨rfl, _⟩ := h
    obtain ⟨e1, hk⟩ := ext_getOrInsertSend ‹State.getOrInsertSend _ _ = some _›
    exact rl_frame i (Ext.trans (Ext.trans e1 (by ext_same)) (ext_afterUnblock _ _ _ _ _)) _ _ (fun _ => Or.inr hk)
  · obtain ⟨rfl, _⟩ := h; exact i
  · obtain ⟨rfl, _⟩ := h
    -- no send half: the stream-limit test is what keeps the frame from opening streams
    have hlim := ‹¬(Gen.maxsdChecksRemoteLimit && decide (sidInitiator id ≠ s.side) &&
      decide (sidIndex id ≥ s.maxRemote.get (sidDir id))) = true›
    simp only [Gen.maxsdChecksRemoteLimit, Bool.true_and, Bool.and_eq_true, decide_eq_true_eq, not_and,
      Nat.not_le, ge_iff_le] at hlim
    exact rl_frame i (Ext.refl _) _ _ (fun hr => Or.inl (hlim hr))

/-! ### receive-side application operations, control frames -/

theorem ext_read {s s' : State} {id budget : Nat} {r : ReadRes} (h : s.read id budget = some (s', r)) :
    Ext s s' := by
  unfold State.read at h
  osplit h
  all_goals
    try (have hg := ext_getOrInsertRecv ‹State.getOrInsertRecv _ _ = some _›)
    try (have f3 := ext_freeIf ‹State.freeIf _ _ _ = some _›)
    try (have f4 := ext_queueMaxStreamId ‹State.queueMaxStreamId _ = some _›)
    try (have f5 := ext_finalizeReadable ‹State.finalizeReadable _ _ _ _ _ = some _›)
    try (have f6 := ext_addReadCredits ‹State.addReadCredits _ _ = some _›)
    obtain ⟨rfl, _⟩ := h
    first
      | exact Ext.refl _
      | exact hg
      | (refine Ext.trans ?_ (Ext.same rfl rfl rfl rfl rfl)
         refine Ext.trans (Ext.trans (Ext.trans (Ext.trans ?_ f3) f4) f5) f6
         exact Ext.trans hg (Ext.same rfl rfl rfl rfl rfl))

theorem ext_stop {s s' : State} {id code : Nat} {b : Bool} (h : s.stop id code = some (s', b)) :
    Ext s s' := by
  unfold State.stop at h
  osplit h
  all_goals
    try (have hg := ext_getOrInsertRecv ‹State.getOrInsertRecv _ _ = some _›)
    try (have f := ext_freeRecvIf ‹State.freeRecvIf _ _ _ = some _›)
    try (have fq := ext_queueMaxIf ‹State.queueMaxIf _ _ = some _›)
    try (have c := ext_creditAndQueue ‹State.creditAndQueue _ _ = some _›)
    obtain ⟨rfl, _⟩ := h
    first
      | exact Ext.refl _
      | exact hg
      | (refine Ext.trans ?_ c
         refine Ext.trans ?_ fq
         refine Ext.trans ?_ f
         refine Ext.trans ?_ (ext_queueStopSending _ _ _ _)
         exact Ext.trans hg (Ext.same rfl rfl rfl rfl rfl))

theorem ext_recvReceivedReset {s s' : State} {id : Nat} {r : Option (Option Nat)}
    (h : s.recvReceivedReset id = some (s', r)) : Ext s s' := by
  unfold State.recvReceivedReset at h
  osplit h
  all_goals first
    | (obtain ⟨rfl, _⟩ := h; exact Ext.refl _)
    | (have hf := ext_streamRecvFreed ‹State.streamRecvFreed _ _ = some _›
       have hq := ext_queueMaxStreamId ‹State.queueMaxStreamId _ = some _›
       obtain ⟨rfl, _⟩ := h
       exact Ext.trans (Ext.trans (Ext.same rfl rfl rfl rfl rfl) hf) hq)

theorem ext_ctrlMsd : ∀ (l : List Nat) {s s' : State} {acc fs : List CtrlFrame},
    s.ctrlMsd l acc = some (s', fs) → Ext s s' := by
  intro l
  induction l with
  | nil => intro s s' acc fs h; simp [State.ctrlMsd] at h; rw [← h.1]; exact Ext.refl _
  | cons id rest ih =>
    intro s s' acc fs h
    unfold State.ctrlMsd at h
    osplit h
    all_goals first
      | exact ih h
      | (have f := ih h; exact Ext.trans (Ext.same rfl rfl rfl rfl rfl) f)

theorem ext_writeControlFrames {s s' : State} {fs : List CtrlFrame}
    (h : s.writeControlFrames = some (s', fs)) : Ext s s' := by
  unfold State.writeControlFrames at h
  dsimp only at h
  split at h
  · contradiction
  · rename_i s3 msd hm
    simp only [Option.some.injEq, Prod.mk.injEq] at h
    rw [← h.1]
    have h3 := ext_ctrlMsd _ hm
    have e0 : Ext s ({ ((({ s with rtx := { s.rtx with resetStream := [], stopSending := [] } }) : State).ctrlMaxData.1) with
        rtx := { ((({ s with rtx := { s.rtx with resetStream := [], stopSending := [] } }) : State).ctrlMaxData.1).rtx with
          maxStreamData := [] } } : State) := by
      unfold State.ctrlMaxData; split <;> exact Ext.same rfl rfl rfl rfl rfl
    have e1 : ∀ (x : State) (d : Dir), Ext x (x.ctrlMaxStreams d).1 := by
      intro x d; unfold State.ctrlMaxStreams; split <;> first | exact Ext.refl _ | exact Ext.same rfl rfl rfl rfl rfl
    have e2 : ∀ (x : State) (d : Dir), Ext x (x.ctrlStreamsBlocked d).1 := by
      intro x d; unfold State.ctrlStreamsBlocked State.ctrlMoveBlocked
      dsimp only; split <;> split <;> first | exact Ext.refl _ | exact Ext.same rfl rfl rfl rfl rfl
    exact Ext.trans (Ext.trans (Ext.trans (Ext.trans (Ext.trans e0 h3) (e1 _ _)) (e1 _ _)) (e2 _ _)) (e2 _ _)

/-! ### every operation, every reachable state -/

theorem rl_new {c : Config} {s0 : State} (h : State.new c = some s0) : RLInv s0 := by
  unfold State.new at h
  osplit h
  obtain ⟨a1, a2, a3, a4, a5⟩ := insertRemoteRange_keys' _ ‹State.insertRemoteRange _ Dir.bi _ _ _ = some _›
  obtain ⟨b1, b2, b3, b4, b5⟩ := insertRemoteRange_keys' _ h
  refine ⟨fun d => ?_, fun k hk _ => ?_, fun d => ?_⟩
  · rw [b3, a3]; cases d <;> exact Nat.zero_le _
  · rw [b2, a2]
    rcases b4 k hk with h1 | ⟨j, hj, rfl⟩
    · rcases a4 k h1 with h0 | ⟨j, hj, rfl⟩
      · simp [skeys] at h0
      · simp only [sidDir_sidNew, sidIndex_sidNew]
        simp only [Two.get] at hj ⊢; omega
    · simp only [sidDir_sidNew, sidIndex_sidNew]
      rw [a2] at hj
      simp only [Two.get] at hj ⊢; omega
  · rw [b5, a5, b3, a3]; exact Nat.le_refl _

theorem rl_step {s s' : State} {o : Op} {out : Out} (h : step s o = some (s', out))
    (hr : o.isRestart = false) (i : RLInv s) : RLInv s' := by
  cases o <;> simp [Op.isRestart] at hr
  case params p => unstep h; rw [← h.1]; exact i.ext (ext_setParams s p)
  case conn c => unstep h; rw [← h.1]; exact i.ext (Ext.same rfl rfl rfl rfl rfl)
  case open_ d => unstep h; obtain ⟨s1, r, h1, h2, _⟩ := h; rw [← h2]; exact i.ext (ext_open h1)
  case accept d => unstep h; rw [← h.1]; exact rl_accept s d i
  case write id n => unstep h; obtain ⟨s1, r, h1, h2, _⟩ := h; rw [← h2]; exact i.ext (ext_write h1)
  case finish id => unstep h; rw [← h.1]; exact i.ext (ext_finish (r := (s.finish id).2) rfl)
  case reset id code => unstep h; obtain ⟨s1, r, h1, h2, _⟩ := h; rw [← h2]; exact i.ext (ext_reset h1)
  case stopped id => unstep h; rw [← h.1]; exact i
  case prio id p => unstep h; rw [← h.1]; exact i.ext (ext_setPriority (b := (s.setPriority id p).2) rfl)
  case stream id off len fin => unstep h; obtain ⟨s1, r, h1, h2, _⟩ := h; rw [← h2]; exact rl_received h1 i
  case rst id code fo => unstep h; obtain ⟨s1, r, h1, h2, _⟩ := h; rw [← h2]; exact rl_receivedReset h1 i
  case stopSending id code => unstep h; rw [← h.1]; exact rl_receivedStopSending s id code i
  case maxData n => unstep h; rw [← h.1]; exact i.ext (Ext.same rfl rfl rfl rfl rfl)
  case maxStreamData id n =>
    unstep h; obtain ⟨s1, e, h1, h2, _⟩ := h; rw [← h2]; exact rl_receivedMaxStreamData h1 i
  case maxStreams d n => unstep h; rw [← h.1]; exact i.ext (ext_receivedMaxStreams s d n)
  case ack id a e fin => unstep h; obtain ⟨s1, h1, h2, _⟩ := h; rw [← h2]; exact i.ext (ext_receivedAckOf h1)
  case lost id a e fin => unstep h; obtain ⟨s1, h1, h2, _⟩ := h; rw [← h2]; exact i.ext (ext_retransmit h1)
  case rstAck id => unstep h; obtain ⟨s1, h1, h2, _⟩ := h; rw [← h2]; exact i.ext (ext_resetAcked h1)
  case read id budget => unstep h; obtain ⟨s1, r, h1, h2, _⟩ := h; rw [← h2]; exact i.ext (ext_read h1)
  case stop id code => unstep h; obtain ⟨s1, r, h1, h2, _⟩ := h; rw [← h2]; exact i.ext (ext_stop h1)
  case recvReset id => unstep h; obtain ⟨s1, r, h1, h2, _⟩ := h; rw [← h2]; exact i.ext (ext_recvReceivedReset h1)
  case poll => unstep h; obtain ⟨s1, e, h1, h2, _⟩ := h; rw [← h2]; exact i.ext (ext_poll h1)
  case transmit mb fair =>
    unstep h; obtain ⟨s1, l, fs, h1, h2, _⟩ := h; rw [← h2]; exact i.ext (ext_writeStreamFrames _ _ _ h1)
  case canSend => unstep h; rw [← h.1]; exact i
  case canFlow id => unstep h; rw [← h.1]; exact i
  case ctrl => unstep h; obtain ⟨s1, fs, h1, h2, _⟩ := h; rw [← h2]; exact i.ext (ext_writeControlFrames h1)
  case queueMaxStreamId => unstep h; obtain ⟨s1, b, h1, h2, _⟩ := h; rw [← h2]; exact i.ext (ext_queueMaxStreamId h1)
  case pendMaxData => unstep h; rw [← h.1]; exact i.ext (Ext.same rfl rfl rfl rfl rfl)
  case pendMaxStreamData id => unstep h; rw [← h.1]; exact i.ext (Ext.same rfl rfl rfl rfl rfl)
  case pendMaxStreamId d => unstep h; rw [← h.1]; exact i.ext (Ext.same rfl rfl rfl rfl rfl)
  case sendWindow n => unstep h; rw [← h.1]; exact i.ext (Ext.same rfl rfl rfl rfl rfl)
  case recvWindow n => unstep h; rw [← h.1]; exact i.ext (ext_setReceiveWindow s n)
  case maxConcurrent d n => unstep h; obtain ⟨s1, h1, h2, _⟩ := h; rw [← h2]; exact i.ext (ext_setMaxConcurrent h1)
  case rtx0 => unstep h; obtain ⟨s1, h1, h2, _⟩ := h; rw [← h2]; exact i.ext (ext_retransmitAllFor0rtt h1)
  case view => unstep h; rw [← h.1]; exact i

/-- **in every reachable state the peer-initiated streams opened so far, and those handed to the
    application, stay within the advertised count** -/
theorem reachR_rl {c : Config} {s : State} {C W : Nat} {U : Prop} (r : ReachR c s C W U) : RLInv s := by
  induction r with
  | init h0 => exact rl_new h0
  | step r hr hs ih => exact rl_step hs hr ih

/-- what `accept` hands out: the next unreported index, which lies below the advertised count -/
theorem accept_some {s s' : State} {d : Dir} {id : Nat} (h : s.accept d = (s', some id)) :
    id = sidNew s.side.not d (s.nextReportedRemote.get d) ∧
    s.nextReportedRemote.get d ≠ s.nextRemote.get d ∧
    s'.nextReportedRemote.get d = s.nextReportedRemote.get d + 1 := by
  unfold State.accept at h
  split at h
  · simp at h
  · rename_i hne
    simp only [Prod.mk.injEq, Option.some.injEq] at h
    refine ⟨h.2.symm, fun e => hne e.symm, ?_⟩
    rw [← h.1]
    split <;> simp [two_get_set]

end QM.Streams
