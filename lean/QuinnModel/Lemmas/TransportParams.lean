import QuinnModel.Lemmas.Parser
import QuinnModel.Wire.TransportParams
/-
Proofs about the transport-parameter model:
 * `read` on arbitrary bytes: the loop terminates within its fuel, every step returns a strictly shorter
   suffix, the reader never panics;
 * semantic validation: what `read` accepts satisfies the inequalities;
 * round trip `read (write p grease order) = p` for the canonical order and for every permutation.
-/
namespace QM.Wire.TP
open QM QM.Wire QM.Wire.P

/-! ### totality -/

theorem Mono.withTake {α} (limit : Nat) (p : P TpErr α) : Mono (withTake limit p) := by
  refine ⟨fun bs a r h => ?_⟩
  unfold TP.withTake at h
  split at h
  · simp only [Except.ok.injEq, Prod.mk.injEq] at h
    obtain ⟨_, rfl⟩ := h
    exact List.drop_suffix _ _
  · simp at h

theorem decodeCid_mono (len : Nat) (cur : Option Bytes) : Mono (decodeCid len cur) := by
  unfold decodeCid; mono_tac

theorem rInt_mono (id len : Nat) (got : List Nat) : Mono (rInt id len got) := by
  unfold rInt; mono_tac

theorem readBody_mono (st : RdState) (id len : Nat) : Mono (readBody st id len) := by
  unfold readBody
  have h1 := fun l c => decodeCid_mono l c
  have h2 := fun a b c => rInt_mono a b c
  have h3 := fun l => Mono.withTake l paRead
  simp only
  repeat' (first
    | exact Mono.pure _
    | exact Mono.fail _
    | exact Mono.getVar _
    | exact Mono.takeN _ _
    | exact h1 _ _
    | exact h2 _ _ _
    | exact h3 _
    | refine Mono.bind ?_ (fun _ => ?_)
    | apply Mono.ite)

theorem readOne_adv (st : RdState) : Adv (readOne st) := by
  unfold readOne
  refine Adv.bind (Adv.getVar _) (fun id => ?_)
  refine Mono.bind (Mono.getVar _) (fun len => ?_)
  refine Mono.bind Mono.remaining (fun rem => ?_)
  exact Mono.ite _ (Mono.fail _) (readBody_mono _ _ _)

/-! #### no `outOfFuel` from a single step, no `panic` at all -/

theorem withTake_never {α} (bad : TpErr) (limit : Nat) {p : P TpErr α} (h : Never bad p) :
    Never bad (withTake limit p) := by
  refine ⟨fun bs hb => ?_⟩
  unfold TP.withTake at hb
  split at hb
  · simp at hb
  · rename_i e he
    simp only [Except.error.injEq] at hb
    subst hb
    exact h.nv _ he

theorem decodeCid_noFuel (len : Nat) (cur : Option Bytes) : Never .outOfFuel (decodeCid len cur) := by
  unfold decodeCid; never_tac

theorem paRead_noFuel : Never .outOfFuel paRead := by
  unfold paRead; never_tac

theorem rInt_noFuel (id len : Nat) (got : List Nat) : Never .outOfFuel (rInt id len got) := by
  unfold rInt; never_tac

theorem readBody_noFuel (st : RdState) (id len : Nat) : Never .outOfFuel (readBody st id len) := by
  unfold readBody
  have h1 := fun l c => decodeCid_noFuel l c
  have h2 := fun a b c => rInt_noFuel a b c
  have h3 := fun l => withTake_never .outOfFuel l paRead_noFuel
  simp only
  repeat' (first
    | exact Never.pure _ _
    | exact Never.fail (by decide)
    | exact Never.getVar (by decide)
    | exact Never.takeN (by decide) _
    | exact h1 _ _
    | exact h2 _ _ _
    | exact h3 _
    | refine Never.bind ?_ (fun _ => ?_)
    | apply Never.ite)

theorem readOne_noFuel (st : RdState) : Never .outOfFuel (readOne st) := by
  unfold readOne
  refine Never.bind (Never.getVar (by decide)) (fun id => ?_)
  refine Never.bind (Never.getVar (by decide)) (fun len => ?_)
  refine Never.bind (Never.remaining _) (fun rem => ?_)
  exact Never.ite _ (Never.fail (by decide)) (readBody_noFuel _ _ _)

theorem decodeCid_noPanic (len : Nat) (cur : Option Bytes) : Never .panic (decodeCid len cur) := by
  refine ⟨fun bs h => ?_⟩
  simp only [decodeCid, bind_apply, remaining_apply, ite_apply', fail_apply, P.takeN] at h
  split at h
  · simp [M] at h
  · rename_i hc
    rw [if_neg (by omega)] at h
    simp at h

theorem paRead_noPanic : Never .panic paRead := by
  unfold paRead
  refine Never.bind (Never.takeN (by decide) _) (fun ip4 => ?_)
  refine Never.bind (Never.getU16 (by decide)) (fun port4 => ?_)
  refine Never.bind (Never.takeN (by decide) _) (fun ip6 => ?_)
  refine Never.bind (Never.getU16 (by decide)) (fun port6 => ?_)
  refine Never.bind (Never.getU8 (by decide)) (fun cidLen => ?_)
  refine Never.guardedTake (by decide) (fun rem => rem < cidLen ∨ cidLen > Gen.wireMaxCidSize % 256) cidLen
    (fun rem h => by omega) (fun cid => ?_)
  refine Never.guardedTake (by decide) (fun rem => rem < 16) Gen.wireResetTokenSize
    (fun rem h => by simp only [Gen.wireResetTokenSize]; omega) (fun token => ?_)
  never_tac

theorem rInt_noPanic (id len : Nat) (got : List Nat) : Never .panic (rInt id len got) := by
  unfold rInt; never_tac

theorem readBody_noPanic (st : RdState) (id len : Nat) :
    NeverIf (fun bs => len ≤ bs.length) .panic (readBody st id len) := by
  unfold readBody
  have h1 := fun l c => decodeCid_noPanic l c
  have h2 := fun a b c => rInt_noPanic a b c
  have h3 := fun l => withTake_never .panic l paRead_noPanic
  -- the two places that rely on the `remaining < len` check at the top of the loop body
  have srt : ∀ (c : Prop) [Decidable c] (k : Bytes → P TpErr RdState), (∀ d, Never .panic (k d)) →
      NeverIf (fun bs => len ≤ bs.length) .panic
        (if len ≠ Gen.tpResetTokenLen ∨ c then fail M else takeN .panic Gen.wireResetTokenSize >>= k) := by
    intro c _ k hk
    refine ⟨fun bs hlen h => ?_⟩
    simp only [ite_apply', fail_apply, bind_apply, P.takeN] at h
    split at h
    · simp [M] at h
    · rename_i hc
      have : len = Gen.tpResetTokenLen := by
        by_cases hh : len = Gen.tpResetTokenLen
        · exact hh
        · exact absurd (Or.inl hh) hc
      rw [if_neg (by simp only [Gen.tpResetTokenLen, Gen.wireResetTokenSize] at *; omega)] at h
      exact (hk _).nv _ h
  have unk : NeverIf (fun bs => len ≤ bs.length) .panic
      (takeN .panic len >>= fun _ => (pure st : P TpErr RdState)) := by
    refine ⟨fun bs hlen h => ?_⟩
    simp only [bind_apply, P.takeN] at h
    rw [if_neg (by omega)] at h
    simp at h
  simp only
  repeat' (first
    | exact unk
    | exact srt _ _ (fun _ => Never.pure _ _)
    | apply NeverIf.ite
    | (apply NeverIf.of_never
       repeat' (first
        | exact Never.pure _ _
        | exact Never.fail (by decide)
        | exact Never.getVar (by decide)
        | exact Never.takeN (by decide) _
        | exact h1 _ _
        | exact h2 _ _ _
        | exact h3 _
        | refine Never.bind ?_ (fun _ => ?_)
        | apply Never.ite)))

theorem readOne_noPanic (st : RdState) : Never .panic (readOne st) := by
  refine ⟨fun bs h => ?_⟩
  simp only [readOne, bind_apply] at h
  split at h
  · rename_i id r1 _
    split at h
    · rename_i len r2 _
      simp only [remaining_apply, ite_apply', fail_apply] at h
      split at h
      · simp [M] at h
      · exact (readBody_noPanic st id len).nv r2 (by omega) h
    · rename_i e he
      simp only [Except.error.injEq] at h; subst h
      exact (Never.getVar (bad := TpErr.panic) (e := M) (by decide)).nv _ he
  · rename_i e he
    simp only [Except.error.injEq] at h; subst h
    exact (Never.getVar (bad := TpErr.panic) (e := M) (by decide)).nv _ he

/-- the loop never runs out of fuel when started with (at least) the length of the input, and never panics -/
theorem readLoop_ok : ∀ (fuel : Nat) (st : RdState) (bs : Bytes), bs.length ≤ fuel →
    readLoop fuel st bs ≠ .error .outOfFuel ∧ readLoop fuel st bs ≠ .error .panic := by
  intro fuel
  induction fuel with
  | zero =>
    intro st bs h
    have : bs = [] := List.eq_nil_of_length_eq_zero (by omega)
    simp [readLoop, this]
  | succ k ih =>
    intro st bs h
    unfold readLoop
    split
    · simp
    · split
      · rename_i e he
        refine ⟨?_, ?_⟩
        · intro hc
          simp only [Except.error.injEq] at hc
          subst hc
          exact (readOne_noFuel st).nv _ he
        · intro hc
          simp only [Except.error.injEq] at hc
          subst hc
          exact (readOne_noPanic st).nv _ he
      · rename_i st' rest hd
        have := ((readOne_adv st).suffix bs st' rest hd).2
        exact ih st' rest (by omega)

/-- `read` on ALL byte strings: a parameter set, `Malformed` or `IllegalValue` — never a panic, and the
    `while` loop terminates -/
theorem read_total (isServer : Bool) (bs : Bytes) :
    (∃ p, read isServer bs = .ok p) ∨ read isServer bs = .error .malformed ∨
      read isServer bs = .error .illegalValue := by
  have h := readLoop_ok bs.length { p := default, got := [] } bs (Nat.le_refl _)
  unfold read
  cases hr : readLoop bs.length { p := default, got := [] } bs with
  | ok st =>
    simp only
    split
    · exact Or.inr (Or.inr rfl)
    · exact Or.inl ⟨_, rfl⟩
  | error e =>
    simp only
    cases e with
    | malformed => exact Or.inr (Or.inl rfl)
    | illegalValue => exact Or.inr (Or.inr rfl)
    | panic => exact absurd hr h.2
    | outOfFuel => exact absurd hr h.1

/-! ### semantic validation -/

theorem read_valid (isServer : Bool) (bs : Bytes) (p : TP) (h : read isServer bs = .ok p) :
    semanticallyInvalid isServer p = false := by
  unfold read at h
  split at h
  · simp at h
  · split at h
    · simp at h
    · rename_i st _ hs
      simp only [Except.ok.injEq] at h
      subst h
      simpa using hs

/-- every accepted parameter set satisfies the validation inequalities -/
theorem read_inequalities (isServer : Bool) (bs : Bytes) (p : TP) (h : read isServer bs = .ok p) :
    p.ackDelayExponent ≤ 20 ∧ p.maxAckDelay < 2^14 ∧ 2 ≤ p.activeConnectionIdLimit ∧
    1200 ≤ p.maxUdpPayloadSize ∧ p.initialMaxStreamsBidi ≤ 2^60 ∧ p.initialMaxStreamsUni ≤ 2^60 ∧
    (∀ m, p.minAckDelay = some m → m ≤ p.maxAckDelay * 1000) ∧
    (isServer = true → p.originalDstCid = none ∧ p.preferredAddress = none ∧ p.retrySrcCid = none ∧
      p.statelessResetToken = none) ∧
    (∀ x, p.preferredAddress = some x → x.cid ≠ []) := by
  have hv := read_valid isServer bs p h
  simp [semanticallyInvalid, Gen.tpMaxAckDelayExponent, Gen.tpMaxAckDelayBoundLog, Gen.tpMinActiveCidLimit,
    Gen.tpMinUdpPayload, Gen.tpMaxStreams, Gen.tpMinAckDelayScale] at hv
  obtain ⟨⟨⟨⟨⟨⟨⟨⟨h1, h2⟩, h3⟩, h4⟩, h5⟩, h6⟩, h7⟩, h8⟩, h9⟩ := hv
  have h3 := of_decide_eq_false h3
  have h4 := of_decide_eq_false h4
  refine ⟨h1, by omega, by omega, by omega, by omega, by omega, ?_, ?_, ?_⟩
  · intro m hm
    rw [hm] at h7
    simp only [decide_eq_false_iff_not] at h7
    omega
  · intro hs
    have := h8 hs
    exact ⟨this.1.1.1, this.1.1.2, this.1.2, this.2⟩
  · intro x hx
    rw [hx] at h9
    simpa using h9


/-! ### round trip -/

attribute [local simp] Gen.tpIdOriginalDestinationConnectionId Gen.tpIdMaxIdleTimeout Gen.tpIdStatelessResetToken
  Gen.tpIdMaxUdpPayloadSize Gen.tpIdInitialMaxData Gen.tpIdInitialMaxStreamDataBidiLocal
  Gen.tpIdInitialMaxStreamDataBidiRemote Gen.tpIdInitialMaxStreamDataUni Gen.tpIdInitialMaxStreamsBidi
  Gen.tpIdInitialMaxStreamsUni Gen.tpIdAckDelayExponent Gen.tpIdMaxAckDelay Gen.tpIdDisableActiveMigration
  Gen.tpIdPreferredAddress Gen.tpIdActiveConnectionIdLimit Gen.tpIdInitialSourceConnectionId
  Gen.tpIdRetrySourceConnectionId Gen.tpIdReservedTransportParameter Gen.tpIdMaxDatagramFrameSize
  Gen.tpIdGreaseQuicBit Gen.tpIdMinAckDelayDraft07

/-- big-step semantics of the `while r.has_remaining()` loop -/
inductive Reads : RdState → Bytes → RdState → Prop
  | nil (st : RdState) : Reads st [] st
  | step {st : RdState} {bs : Bytes} {st1 : RdState} {rest : Bytes} {st' : RdState} :
      bs ≠ [] → readOne st bs = .ok (st1, rest) → Reads st1 rest st' → Reads st bs st'

theorem Reads.readLoop {st : RdState} {bs : Bytes} {st' : RdState} (h : Reads st bs st') :
    ∀ fuel, bs.length ≤ fuel → readLoop fuel st bs = .ok st' := by
  induction h with
  | nil st => intro fuel _; cases fuel <;> simp [TP.readLoop]
  | @step st bs st1 rest st' hne hr _ ih =>
    intro fuel hf
    have hadv := ((readOne_adv st).suffix bs st1 rest hr).2
    cases fuel with
    | zero => exact absurd (List.eq_nil_of_length_eq_zero (by omega)) hne
    | succ k =>
      unfold TP.readLoop
      have : bs.isEmpty = false := by cases bs <;> simp_all
      simp only [this, Bool.false_eq_true, if_false, hr]
      exact ih k (by omega)

/-- `p` restricted to the parameters whose id is in `S`; defaults elsewhere -/
def merge (S : List Nat) (p : TP) : TP where
  maxIdleTimeout := if S.contains Gen.tpIdMaxIdleTimeout then p.maxIdleTimeout else default.maxIdleTimeout
  maxUdpPayloadSize := if S.contains Gen.tpIdMaxUdpPayloadSize then p.maxUdpPayloadSize else default.maxUdpPayloadSize
  initialMaxData := if S.contains Gen.tpIdInitialMaxData then p.initialMaxData else default.initialMaxData
  initialMaxStreamDataBidiLocal := if S.contains Gen.tpIdInitialMaxStreamDataBidiLocal then p.initialMaxStreamDataBidiLocal else default.initialMaxStreamDataBidiLocal
  initialMaxStreamDataBidiRemote := if S.contains Gen.tpIdInitialMaxStreamDataBidiRemote then p.initialMaxStreamDataBidiRemote else default.initialMaxStreamDataBidiRemote
  initialMaxStreamDataUni := if S.contains Gen.tpIdInitialMaxStreamDataUni then p.initialMaxStreamDataUni else default.initialMaxStreamDataUni
  initialMaxStreamsBidi := if S.contains Gen.tpIdInitialMaxStreamsBidi then p.initialMaxStreamsBidi else default.initialMaxStreamsBidi
  initialMaxStreamsUni := if S.contains Gen.tpIdInitialMaxStreamsUni then p.initialMaxStreamsUni else default.initialMaxStreamsUni
  ackDelayExponent := if S.contains Gen.tpIdAckDelayExponent then p.ackDelayExponent else default.ackDelayExponent
  maxAckDelay := if S.contains Gen.tpIdMaxAckDelay then p.maxAckDelay else default.maxAckDelay
  activeConnectionIdLimit := if S.contains Gen.tpIdActiveConnectionIdLimit then p.activeConnectionIdLimit else default.activeConnectionIdLimit
  disableActiveMigration := if S.contains Gen.tpIdDisableActiveMigration then p.disableActiveMigration else false
  maxDatagramFrameSize := if S.contains Gen.tpIdMaxDatagramFrameSize then p.maxDatagramFrameSize else none
  initialSrcCid := if S.contains Gen.tpIdInitialSourceConnectionId then p.initialSrcCid else none
  greaseQuicBit := if S.contains Gen.tpIdGreaseQuicBit then p.greaseQuicBit else false
  minAckDelay := if S.contains Gen.tpIdMinAckDelayDraft07 then p.minAckDelay else none
  originalDstCid := if S.contains Gen.tpIdOriginalDestinationConnectionId then p.originalDstCid else none
  retrySrcCid := if S.contains Gen.tpIdRetrySourceConnectionId then p.retrySrcCid else none
  statelessResetToken := if S.contains Gen.tpIdStatelessResetToken then p.statelessResetToken else none
  preferredAddress := if S.contains Gen.tpIdPreferredAddress then p.preferredAddress else none

theorem merge_nil (p : TP) : merge [] p = default := by simp [merge, default]

theorem merge_full (S : List Nat) (p : TP) (h : ∀ k ∈ Gen.tpSupported, k ∈ S) : merge S p = p := by
  simp only [Gen.tpSupported, List.mem_cons, List.not_mem_nil, or_false] at h
  simp [merge, h]

theorem merge_congr (A B : List Nat) (p : TP) (h : ∀ k, k ∈ A ↔ k ∈ B) : merge A p = merge B p := by
  simp [merge, h]

/-! #### the bytes each parameter contributes -/

def cInt (id v dflt : Nat) : Bytes := if v ≠ dflt then encB id ++ (encB (encB v).length ++ encB v) else []

def cOptInt (id : Nat) (v : Option Nat) : Bytes :=
  match v with
  | some x => encB id ++ (encB (encB x).length ++ encB x)
  | none => []

def cOptCid (id : Nat) (v : Option Bytes) : Bytes :=
  match v with
  | some c => encB id ++ (encB c.length ++ c)
  | none => []

def cFlag (id : Nat) (v : Bool) : Bytes := if v then encB id ++ encB 0 else []

def paBytes (x : PreferredAddress) : Bytes :=
  addrIp 4 x.v4 ++ (beBytes 2 (addrPort x.v4) ++ (addrIp 16 x.v6 ++ (beBytes 2 (addrPort x.v6) ++
    ([x.cid.length % 256] ++ (x.cid ++ x.token)))))

def cReserved (g : Option (Nat × Bytes)) : Bytes :=
  match g with
  | some x => encB x.1 ++ (encB x.2.length ++ x.2)
  | none => []

def chunk (p : TP) (g : Option (Nat × Bytes)) (id : Nat) : Bytes :=
  if id = Gen.tpIdReservedTransportParameter then cReserved g
  else if id = Gen.tpIdStatelessResetToken then
    match p.statelessResetToken with
    | some x => encB id ++ (encB Gen.tpResetTokenWriteLen ++ x)
    | none => []
  else if id = Gen.tpIdDisableActiveMigration then cFlag id p.disableActiveMigration
  else if id = Gen.tpIdMaxDatagramFrameSize then cOptInt id p.maxDatagramFrameSize
  else if id = Gen.tpIdPreferredAddress then
    match p.preferredAddress with
    | some x => encB id ++ (encB (paWireSize x) ++ paBytes x)
    | none => []
  else if id = Gen.tpIdOriginalDestinationConnectionId then cOptCid id p.originalDstCid
  else if id = Gen.tpIdInitialSourceConnectionId then cOptCid id p.initialSrcCid
  else if id = Gen.tpIdRetrySourceConnectionId then cOptCid id p.retrySrcCid
  else if id = Gen.tpIdGreaseQuicBit then cFlag id p.greaseQuicBit
  else if id = Gen.tpIdMinAckDelayDraft07 then cOptInt id p.minAckDelay
  else if id = Gen.tpIdMaxIdleTimeout then cInt id p.maxIdleTimeout Gen.tpDefaultMaxIdleTimeout
  else if id = Gen.tpIdMaxUdpPayloadSize then cInt id p.maxUdpPayloadSize Gen.tpDefaultMaxUdpPayloadSize
  else if id = Gen.tpIdInitialMaxData then cInt id p.initialMaxData Gen.tpDefaultInitialMaxData
  else if id = Gen.tpIdInitialMaxStreamDataBidiLocal then cInt id p.initialMaxStreamDataBidiLocal Gen.tpDefaultInitialMaxStreamDataBidiLocal
  else if id = Gen.tpIdInitialMaxStreamDataBidiRemote then cInt id p.initialMaxStreamDataBidiRemote Gen.tpDefaultInitialMaxStreamDataBidiRemote
  else if id = Gen.tpIdInitialMaxStreamDataUni then cInt id p.initialMaxStreamDataUni Gen.tpDefaultInitialMaxStreamDataUni
  else if id = Gen.tpIdInitialMaxStreamsBidi then cInt id p.initialMaxStreamsBidi Gen.tpDefaultInitialMaxStreamsBidi
  else if id = Gen.tpIdInitialMaxStreamsUni then cInt id p.initialMaxStreamsUni Gen.tpDefaultInitialMaxStreamsUni
  else if id = Gen.tpIdAckDelayExponent then cInt id p.ackDelayExponent Gen.tpDefaultAckDelayExponent
  else if id = Gen.tpIdMaxAckDelay then cInt id p.maxAckDelay Gen.tpDefaultMaxAckDelay
  else if id = Gen.tpIdActiveConnectionIdLimit then cInt id p.activeConnectionIdLimit Gen.tpDefaultActiveConnectionIdLimit
  else []

theorem paWireSize_eq (x : PreferredAddress) (h : x.cid.length ≤ 20) : paWireSize x = 41 + x.cid.length := by
  simp only [paWireSize, Gen.tpPreferredAddrFixed]; omega

theorem wInt_eq (id v dflt : Nat) (b : Bytes) (hid : id < 2^62) (hv : v < 2^62) :
    wInt id v dflt (some b) = some (b ++ cInt id v dflt) := by
  have hl : (encB v).length < 2^62 := by have := (encB_length hv).2; omega
  unfold wInt cInt
  split
  · simp [size_eq_length hv, wVar_some, hid, hv, hl]
  · simp

theorem wOptInt_eq (id : Nat) (v : Option Nat) (b : Bytes) (hid : id < 2^62) (hv : ∀ x, v = some x → x < 2^62) :
    wOptInt id v (some b) = some (b ++ cOptInt id v) := by
  cases v with
  | none => simp [wOptInt, cOptInt]
  | some x =>
    have hx := hv x rfl
    have hl : (encB x).length < 2^62 := by have := (encB_length hx).2; omega
    simp [wOptInt, cOptInt, size_eq_length hx, wVar_some, hid, hx, hl]

theorem wOptCid_eq (id : Nat) (v : Option Bytes) (b : Bytes) (hid : id < 2^62)
    (hv : ∀ c, v = some c → c.length ≤ 20) : wOptCid id v (some b) = some (b ++ cOptCid id v) := by
  cases v with
  | none => simp [wOptCid, cOptCid]
  | some c =>
    have hc : c.length < 2^62 := by have := hv c rfl; omega
    simp [wOptCid, cOptCid, wVar_some, hid, hc]

theorem wFlag_eq (id : Nat) (v : Bool) (b : Bytes) (hid : id < 2^62) :
    wFlag id v (some b) = some (b ++ cFlag id v) := by
  cases v <;> simp [wFlag, cFlag, wVar_some, hid]

theorem writeOne_eq (s : Bool) (p : TP) (g : Option (Nat × Bytes)) (hw : wellFormed s p) (hg : greaseOk g)
    (id : Nat) (hid : id ∈ Gen.tpSupported) (b : Bytes) :
    writeOne p g id (some b) = some (b ++ chunk p g id) := by
  simp only [Gen.tpSupported, List.mem_cons, List.not_mem_nil, or_false] at hid
  rcases hid with rfl | rfl | rfl | rfl | rfl | rfl | rfl | rfl | rfl | rfl | rfl | rfl | rfl | rfl | rfl | rfl |
    rfl | rfl | rfl | rfl | rfl
  · simp [writeOne, chunk, wInt_eq _ _ _ _ _ hw.i0]
  · simp [writeOne, chunk, wInt_eq _ _ _ _ _ hw.i1]
  · simp [writeOne, chunk, wInt_eq _ _ _ _ _ hw.i2]
  · simp [writeOne, chunk, wInt_eq _ _ _ _ _ hw.i3]
  · simp [writeOne, chunk, wInt_eq _ _ _ _ _ hw.i4]
  · simp [writeOne, chunk, wInt_eq _ _ _ _ _ hw.i5]
  · simp [writeOne, chunk, wInt_eq _ _ _ _ _ hw.i6]
  · simp [writeOne, chunk, wInt_eq _ _ _ _ _ hw.i7]
  · simp [writeOne, chunk, wInt_eq _ _ _ _ _ hw.i8]
  · simp [writeOne, chunk, wInt_eq _ _ _ _ _ hw.i9]
  · simp [writeOne, chunk, wInt_eq _ _ _ _ _ hw.i10]
  · -- reserved
    cases g with
    | none => simp [writeOne, chunk, cReserved]
    | some x =>
      obtain ⟨h1, _, h3⟩ := hg x rfl
      simp [writeOne, chunk, cReserved, wVar_some, h1, h3]
  · -- stateless reset token
    cases ht : p.statelessResetToken with
    | none => simp [writeOne, chunk, ht]
    | some t => simp [writeOne, chunk, ht, wVar_some, Gen.tpResetTokenWriteLen]
  · simp [writeOne, chunk, wFlag_eq]
  · simp [writeOne, chunk, wOptInt_eq _ _ _ _ hw.mdfs]
  · -- preferred address
    cases hp : p.preferredAddress with
    | none => simp [writeOne, chunk, hp]
    | some x =>
      have hx := hw.pa x hp
      have hcl := hx.2.2.2.1
      have hsz : paWireSize x < 2^62 := by rw [paWireSize_eq x hcl]; omega
      simp [writeOne, chunk, hp, wVar_some, hsz, paWrite, paBytes]
  · simp [writeOne, chunk, wOptCid_eq _ _ _ _ hw.odcid]
  · simp [writeOne, chunk, wOptCid_eq _ _ _ _ hw.iscid]
  · simp [writeOne, chunk, wOptCid_eq _ _ _ _ hw.rscid]
  · simp [writeOne, chunk, wFlag_eq]
  · simp [writeOne, chunk, wOptInt_eq _ _ _ _ hw.mad]

/-! #### reading back one parameter -/

/-- reading the bytes `c` contributed by parameter `k` moves the reader from "`p` on `S`" to "`p` on `k :: S`" -/
def StepOK (p : TP) (k : Nat) (c : Bytes) : Prop :=
  ∀ (S got : List Nat) (rest : Bytes), k ∉ S → (∀ x ∈ got, x ∈ S) →
    ∃ got', (∀ x ∈ got', x ∈ k :: S) ∧
      ∀ st', Reads ⟨merge (k :: S) p, got'⟩ rest st' → Reads ⟨merge S p, got⟩ (c ++ rest) st'

theorem StepOK.skip {p : TP} {k : Nat} (hm : ∀ S, merge (k :: S) p = merge S p) : StepOK p k [] := by
  intro S got rest _ hgot
  refine ⟨got, fun x hx => List.mem_cons_of_mem _ (hgot x hx), fun st' h => ?_⟩
  rw [List.nil_append, ← hm]; exact h

theorem StepOK.one {p : TP} {k : Nat} {c : Bytes} (hne : c ≠ [])
    (hread : ∀ (S got : List Nat) (rest : Bytes), k ∉ S → (∀ x ∈ got, x ∈ S) →
      ∃ got', (∀ x ∈ got', x ∈ k :: S) ∧
        readOne ⟨merge S p, got⟩ (c ++ rest) = .ok (⟨merge (k :: S) p, got'⟩, rest)) : StepOK p k c := by
  intro S got rest hk hgot
  obtain ⟨got', h1, h2⟩ := hread S got rest hk hgot
  exact ⟨got', h1, fun st' h => Reads.step (by simp [hne]) h2 h⟩

theorem mem_cons_got {k : Nat} {S got : List Nat} (hgot : ∀ x ∈ got, x ∈ S) : ∀ x ∈ k :: got, x ∈ k :: S := by
  intro x hx
  simp only [List.mem_cons] at hx ⊢
  rcases hx with rfl | hx
  · exact Or.inl rfl
  · exact Or.inr (hgot x hx)

theorem mem_got {k : Nat} {S got : List Nat} (hgot : ∀ x ∈ got, x ∈ S) : ∀ x ∈ got, x ∈ k :: S :=
  fun x hx => List.mem_cons_of_mem _ (hgot x hx)

/-- an integer parameter (needs `hv : value < 2^62` in the context) -/
macro "step_int_tac" hv:term:max v:term:max id:term:max dflt:term:max : tactic => `(tactic|
  (have hv := $hv
   unfold cInt
   by_cases hd : $v = $dflt
   · rw [if_neg (by simp [hd])]
     exact StepOK.skip (fun S => by simp [merge, default, hd])
   · rw [if_pos hd]
     have hne := encB_ne_nil (show $id < 2^62 by decide)
     refine StepOK.one (by simp at hne ⊢; simp [hne]) (fun S got rest hk hgot => ?_)
     have hkg : $id ∉ got := fun h => hk (hgot _ h)
     refine ⟨$id :: got, mem_cons_got hgot, ?_⟩
     have hlen : ¬ ((encB $v).length + rest.length < (encB $v).length) := by omega
     have hl2 := (encB_length hv).2
     have hl3 : (encB $v).length < 2^62 := by omega
     simp at hkg hk
     simp [readOne, readBody, rInt, getVar_enc, hv, hl3, hlen, size_eq_length hv, hkg]
     simp [merge, hk]))

theorem step_maxIdleTimeout (s : Bool) (p : TP) (hw : wellFormed s p) :
    StepOK p Gen.tpIdMaxIdleTimeout (cInt Gen.tpIdMaxIdleTimeout p.maxIdleTimeout Gen.tpDefaultMaxIdleTimeout) := by
  have hv' := hw.i0
  step_int_tac hv' (p.maxIdleTimeout) (Gen.tpIdMaxIdleTimeout) (Gen.tpDefaultMaxIdleTimeout)

theorem step_maxUdpPayloadSize (s : Bool) (p : TP) (hw : wellFormed s p) :
    StepOK p Gen.tpIdMaxUdpPayloadSize (cInt Gen.tpIdMaxUdpPayloadSize p.maxUdpPayloadSize Gen.tpDefaultMaxUdpPayloadSize) := by
  have hv' := hw.i1
  step_int_tac hv' (p.maxUdpPayloadSize) (Gen.tpIdMaxUdpPayloadSize) (Gen.tpDefaultMaxUdpPayloadSize)

theorem step_initialMaxData (s : Bool) (p : TP) (hw : wellFormed s p) :
    StepOK p Gen.tpIdInitialMaxData (cInt Gen.tpIdInitialMaxData p.initialMaxData Gen.tpDefaultInitialMaxData) := by
  have hv' := hw.i2
  step_int_tac hv' (p.initialMaxData) (Gen.tpIdInitialMaxData) (Gen.tpDefaultInitialMaxData)

theorem step_initialMaxStreamDataBidiLocal (s : Bool) (p : TP) (hw : wellFormed s p) :
    StepOK p Gen.tpIdInitialMaxStreamDataBidiLocal (cInt Gen.tpIdInitialMaxStreamDataBidiLocal p.initialMaxStreamDataBidiLocal Gen.tpDefaultInitialMaxStreamDataBidiLocal) := by
  have hv' := hw.i3
  step_int_tac hv' (p.initialMaxStreamDataBidiLocal) (Gen.tpIdInitialMaxStreamDataBidiLocal) (Gen.tpDefaultInitialMaxStreamDataBidiLocal)

theorem step_initialMaxStreamDataBidiRemote (s : Bool) (p : TP) (hw : wellFormed s p) :
    StepOK p Gen.tpIdInitialMaxStreamDataBidiRemote (cInt Gen.tpIdInitialMaxStreamDataBidiRemote p.initialMaxStreamDataBidiRemote Gen.tpDefaultInitialMaxStreamDataBidiRemote) := by
  have hv' := hw.i4
  step_int_tac hv' (p.initialMaxStreamDataBidiRemote) (Gen.tpIdInitialMaxStreamDataBidiRemote) (Gen.tpDefaultInitialMaxStreamDataBidiRemote)

theorem step_initialMaxStreamDataUni (s : Bool) (p : TP) (hw : wellFormed s p) :
    StepOK p Gen.tpIdInitialMaxStreamDataUni (cInt Gen.tpIdInitialMaxStreamDataUni p.initialMaxStreamDataUni Gen.tpDefaultInitialMaxStreamDataUni) := by
  have hv' := hw.i5
  step_int_tac hv' (p.initialMaxStreamDataUni) (Gen.tpIdInitialMaxStreamDataUni) (Gen.tpDefaultInitialMaxStreamDataUni)

theorem step_initialMaxStreamsBidi (s : Bool) (p : TP) (hw : wellFormed s p) :
    StepOK p Gen.tpIdInitialMaxStreamsBidi (cInt Gen.tpIdInitialMaxStreamsBidi p.initialMaxStreamsBidi Gen.tpDefaultInitialMaxStreamsBidi) := by
  have hv' := hw.i6
  step_int_tac hv' (p.initialMaxStreamsBidi) (Gen.tpIdInitialMaxStreamsBidi) (Gen.tpDefaultInitialMaxStreamsBidi)

theorem step_initialMaxStreamsUni (s : Bool) (p : TP) (hw : wellFormed s p) :
    StepOK p Gen.tpIdInitialMaxStreamsUni (cInt Gen.tpIdInitialMaxStreamsUni p.initialMaxStreamsUni Gen.tpDefaultInitialMaxStreamsUni) := by
  have hv' := hw.i7
  step_int_tac hv' (p.initialMaxStreamsUni) (Gen.tpIdInitialMaxStreamsUni) (Gen.tpDefaultInitialMaxStreamsUni)

theorem step_ackDelayExponent (s : Bool) (p : TP) (hw : wellFormed s p) :
    StepOK p Gen.tpIdAckDelayExponent (cInt Gen.tpIdAckDelayExponent p.ackDelayExponent Gen.tpDefaultAckDelayExponent) := by
  have hv' := hw.i8
  step_int_tac hv' (p.ackDelayExponent) (Gen.tpIdAckDelayExponent) (Gen.tpDefaultAckDelayExponent)

theorem step_maxAckDelay (s : Bool) (p : TP) (hw : wellFormed s p) :
    StepOK p Gen.tpIdMaxAckDelay (cInt Gen.tpIdMaxAckDelay p.maxAckDelay Gen.tpDefaultMaxAckDelay) := by
  have hv' := hw.i9
  step_int_tac hv' (p.maxAckDelay) (Gen.tpIdMaxAckDelay) (Gen.tpDefaultMaxAckDelay)

theorem step_activeConnectionIdLimit (s : Bool) (p : TP) (hw : wellFormed s p) :
    StepOK p Gen.tpIdActiveConnectionIdLimit (cInt Gen.tpIdActiveConnectionIdLimit p.activeConnectionIdLimit Gen.tpDefaultActiveConnectionIdLimit) := by
  have hv' := hw.i10
  step_int_tac hv' (p.activeConnectionIdLimit) (Gen.tpIdActiveConnectionIdLimit) (Gen.tpDefaultActiveConnectionIdLimit)


/-! ##### flags -/

theorem step_dam (p : TP) : StepOK p Gen.tpIdDisableActiveMigration (cFlag Gen.tpIdDisableActiveMigration p.disableActiveMigration) := by
  unfold cFlag
  cases hv : p.disableActiveMigration
  · simp only [Bool.false_eq_true, if_false]
    exact StepOK.skip (fun S => by simp [merge, hv])
  · simp only [if_true]
    have hne := encB_ne_nil (show Gen.tpIdDisableActiveMigration < 2^62 by decide)
    refine StepOK.one (by simp at hne ⊢; simp [hne]) (fun S got rest hk hgot => ⟨got, mem_got hgot, ?_⟩)
    simp at hk
    simp [readOne, readBody, getVar_enc, merge, hk, hv]

theorem step_gqb (p : TP) : StepOK p Gen.tpIdGreaseQuicBit (cFlag Gen.tpIdGreaseQuicBit p.greaseQuicBit) := by
  unfold cFlag
  cases hv : p.greaseQuicBit
  · simp only [Bool.false_eq_true, if_false]
    exact StepOK.skip (fun S => by simp [merge, hv])
  · simp only [if_true]
    have hne := encB_ne_nil (show Gen.tpIdGreaseQuicBit < 2^62 by decide)
    refine StepOK.one (by simp at hne ⊢; simp [hne]) (fun S got rest hk hgot => ⟨got, mem_got hgot, ?_⟩)
    simp at hk
    simp [readOne, readBody, getVar_enc, merge, hk, hv]

/-! ##### optional integers -/

theorem step_mdfs (p : TP) (hw : ∀ x, p.maxDatagramFrameSize = some x → x < 2^62) :
    StepOK p Gen.tpIdMaxDatagramFrameSize (cOptInt Gen.tpIdMaxDatagramFrameSize p.maxDatagramFrameSize) := by
  unfold cOptInt
  cases hv : p.maxDatagramFrameSize with
  | none => exact StepOK.skip (fun S => by simp [merge, hv])
  | some x =>
    have hx := hw x hv
    have hne := encB_ne_nil (show Gen.tpIdMaxDatagramFrameSize < 2^62 by decide)
    refine StepOK.one (by simp at hne ⊢; simp [hne]) (fun S got rest hk hgot => ⟨got, mem_got hgot, ?_⟩)
    have hl2 := (encB_length hx).2
    have hl3 : (encB x).length < 2^62 := by omega
    have hlen : ¬ ((encB x).length + rest.length < (encB x).length) := by omega
    have hle : ¬ (Gen.tpMaxDatagramLenMax < (encB x).length) := by simp only [Gen.tpMaxDatagramLenMax]; omega
    simp at hk
    simp [readOne, readBody, getVar_enc, hx, hl3, hlen, hle, merge, hk, hv]

theorem step_mad (p : TP) (hw : ∀ x, p.minAckDelay = some x → x < 2^62) :
    StepOK p Gen.tpIdMinAckDelayDraft07 (cOptInt Gen.tpIdMinAckDelayDraft07 p.minAckDelay) := by
  unfold cOptInt
  cases hv : p.minAckDelay with
  | none => exact StepOK.skip (fun S => by simp [merge, hv])
  | some x =>
    have hx := hw x hv
    have hne := encB_ne_nil (show Gen.tpIdMinAckDelayDraft07 < 2^62 by decide)
    refine StepOK.one (by simp at hne ⊢; simp [hne]) (fun S got rest hk hgot => ⟨got, mem_got hgot, ?_⟩)
    have hl2 := (encB_length hx).2
    have hl3 : (encB x).length < 2^62 := by omega
    have hlen : ¬ ((encB x).length + rest.length < (encB x).length) := by omega
    simp at hk
    simp [readOne, readBody, getVar_enc, hx, hl3, hlen, merge, hk, hv]

/-! ##### connection ids -/

theorem decodeCid_append (c rest : Bytes) (h : c.length ≤ 20) :
    decodeCid c.length none (c ++ rest) = .ok (c, rest) := by
  have h1 : ¬ (Gen.wireMaxCidSize < c.length) := by simp only [Gen.wireMaxCidSize]; omega
  have h2 : ¬ (c.length + rest.length < c.length) := by omega
  simp [decodeCid, ite_apply', h1, h2, takeN_append]

theorem step_odcid (p : TP) (hw : ∀ c, p.originalDstCid = some c → c.length ≤ 20) :
    StepOK p Gen.tpIdOriginalDestinationConnectionId
      (cOptCid Gen.tpIdOriginalDestinationConnectionId p.originalDstCid) := by
  unfold cOptCid
  cases hv : p.originalDstCid with
  | none => exact StepOK.skip (fun S => by simp [merge, hv])
  | some c =>
    have hc := hw c hv
    have hne := encB_ne_nil (show Gen.tpIdOriginalDestinationConnectionId < 2^62 by decide)
    refine StepOK.one (by simp at hne ⊢; simp [hne]) (fun S got rest hk hgot => ⟨got, mem_got hgot, ?_⟩)
    have hl3 : c.length < 2^62 := by omega
    have hlen : ¬ (c.length + rest.length < c.length) := by omega
    simp at hk
    simp [readOne, readBody, getVar_enc, hl3, hlen, merge, hk, hv, decodeCid_append c rest hc]

theorem step_iscid (p : TP) (hw : ∀ c, p.initialSrcCid = some c → c.length ≤ 20) :
    StepOK p Gen.tpIdInitialSourceConnectionId
      (cOptCid Gen.tpIdInitialSourceConnectionId p.initialSrcCid) := by
  unfold cOptCid
  cases hv : p.initialSrcCid with
  | none => exact StepOK.skip (fun S => by simp [merge, hv])
  | some c =>
    have hc := hw c hv
    have hne := encB_ne_nil (show Gen.tpIdInitialSourceConnectionId < 2^62 by decide)
    refine StepOK.one (by simp at hne ⊢; simp [hne]) (fun S got rest hk hgot => ⟨got, mem_got hgot, ?_⟩)
    have hl3 : c.length < 2^62 := by omega
    have hlen : ¬ (c.length + rest.length < c.length) := by omega
    simp at hk
    simp [readOne, readBody, getVar_enc, hl3, hlen, merge, hk, hv, decodeCid_append c rest hc]

theorem step_rscid (p : TP) (hw : ∀ c, p.retrySrcCid = some c → c.length ≤ 20) :
    StepOK p Gen.tpIdRetrySourceConnectionId
      (cOptCid Gen.tpIdRetrySourceConnectionId p.retrySrcCid) := by
  unfold cOptCid
  cases hv : p.retrySrcCid with
  | none => exact StepOK.skip (fun S => by simp [merge, hv])
  | some c =>
    have hc := hw c hv
    have hne := encB_ne_nil (show Gen.tpIdRetrySourceConnectionId < 2^62 by decide)
    refine StepOK.one (by simp at hne ⊢; simp [hne]) (fun S got rest hk hgot => ⟨got, mem_got hgot, ?_⟩)
    have hl3 : c.length < 2^62 := by omega
    have hlen : ¬ (c.length + rest.length < c.length) := by omega
    simp at hk
    simp [readOne, readBody, getVar_enc, hl3, hlen, merge, hk, hv, decodeCid_append c rest hc]

/-! ##### stateless reset token -/

theorem step_srt (p : TP) (hw : ∀ t, p.statelessResetToken = some t → t.length = 16) :
    StepOK p Gen.tpIdStatelessResetToken
      (match p.statelessResetToken with
        | some x => encB Gen.tpIdStatelessResetToken ++ (encB Gen.tpResetTokenWriteLen ++ x)
        | none => []) := by
  cases hv : p.statelessResetToken with
  | none => exact StepOK.skip (fun S => by simp [merge, hv])
  | some t =>
    have ht := hw t hv
    have hne := encB_ne_nil (show Gen.tpIdStatelessResetToken < 2^62 by decide)
    refine StepOK.one (by simp at hne ⊢; simp [hne]) (fun S got rest hk hgot => ⟨got, mem_got hgot, ?_⟩)
    have hlen : ¬ (t.length + rest.length < 16) := by omega
    have htk := takeN_append' TpErr.panic 16 t rest ht
    simp at hk
    simp [readOne, readBody, getVar_enc, hlen, merge, hk, hv, Gen.tpResetTokenWriteLen, Gen.tpResetTokenLen,
      Gen.wireResetTokenSize, htk]

/-! ##### preferred address -/

theorem withTake_exact {α} (p : P TpErr α) (d rest : Bytes) (a : α) (h : p d = .ok (a, [])) :
    withTake d.length p (d ++ rest) = .ok (a, rest) := by
  simp [TP.withTake, List.take_left' rfl, h]

theorem zeros_unspecified (n : Nat) : isUnspecified (zeros n) = true := by
  simp [isUnspecified, zeros]

theorem addrIp_length (n : Nat) (a : Option (Bytes × Nat)) (h : ∀ x, a = some x → addrOk n x) :
    (addrIp n a).length = n := by
  cases a with
  | none => simp [addrIp, zeros]
  | some x => exact (h x rfl).1

theorem addrPort_lt (n : Nat) (a : Option (Bytes × Nat)) (h : ∀ x, a = some x → addrOk n x) :
    addrPort a < 2^16 := by
  cases a with
  | none => simp [addrPort]
  | some x => exact (h x rfl).2.1

theorem addr_back (n : Nat) (a : Option (Bytes × Nat)) (h : ∀ x, a = some x → addrOk n x) :
    (if isUnspecified (addrIp n a) = true ∧ addrPort a = 0 then none else some (addrIp n a, addrPort a)) = a := by
  cases a with
  | none => simp [addrIp, addrPort, zeros_unspecified]
  | some x =>
    have := (h x rfl).2.2
    show (if isUnspecified x.1 = true ∧ x.2 = 0 then none else some (x.1, x.2)) = some x
    rw [if_neg this]

theorem paBytes_length (x : PreferredAddress) (h : paOk x) : (paBytes x).length = 41 + x.cid.length := by
  have h4 := addrIp_length 4 x.v4 h.1
  have h6 := addrIp_length 16 x.v6 h.2.1
  have ht := h.2.2.2.2
  simp [paBytes, h4, h6, ht, PacketNumber.beBytes_length]
  omega

theorem paRead_paBytes (x : PreferredAddress) (h : paOk x) : paRead (paBytes x) = .ok (x, []) := by
  have h4 := addrIp_length 4 x.v4 h.1
  have h6 := addrIp_length 16 x.v6 h.2.1
  have p4 := addrPort_lt 4 x.v4 h.1
  have p6 := addrPort_lt 16 x.v6 h.2.1
  have b4 := addr_back 4 x.v4 h.1
  have b6 := addr_back 16 x.v6 h.2.1
  have hc := h.2.2.2.1
  have ht := h.2.2.2.2
  have hm : x.cid.length % 256 = x.cid.length := by omega
  have hsome : ¬ (x.v4.isNone = true ∧ x.v6.isNone = true) := by
    intro hn
    rcases h.2.2.1 with h1 | h1
    · exact h1 (by simpa using hn.1)
    · exact h1 (by simpa using hn.2)
  have hg1 : ¬ (x.cid.length + x.token.length < x.cid.length ∨ x.cid.length > Gen.wireMaxCidSize % 256) := by
    simp only [Gen.wireMaxCidSize]; omega
  have hg2 : ¬ (x.token.length < 16) := by omega
  have t1 := takeN_append' TpErr.malformed 4 (addrIp 4 x.v4)
    (beBytes 2 (addrPort x.v4) ++ (addrIp 16 x.v6 ++ (beBytes 2 (addrPort x.v6) ++
      ([x.cid.length % 256] ++ (x.cid ++ x.token))))) h4
  have t2 := takeN_append' TpErr.malformed 16 (addrIp 16 x.v6)
    (beBytes 2 (addrPort x.v6) ++ ([x.cid.length % 256] ++ (x.cid ++ x.token))) h6
  have t3 := takeN_append' TpErr.panic x.cid.length x.cid x.token rfl
  have t4 : takeN TpErr.panic Gen.wireResetTokenSize x.token = .ok (x.token, []) := by
    have := takeN_append' TpErr.panic Gen.wireResetTokenSize x.token [] (by simpa [Gen.wireResetTokenSize] using ht)
    simpa using this
  unfold paRead paBytes
  rw [bind_ok t1, bind_ok (getU16_be _ p4 _), bind_ok t2, bind_ok (getU16_be _ p6 _)]
  simp only [List.cons_append, List.nil_append, bind_ok (getU8_cons _ _ _), hm, bind_apply, remaining_apply,
    List.length_append, ite_apply', if_neg hg1, t3, if_neg hg2, t4, b4, b6, if_neg hsome, fail_apply, pure_apply]

theorem step_pa (p : TP) (hw : ∀ x, p.preferredAddress = some x → paOk x) :
    StepOK p Gen.tpIdPreferredAddress
      (match p.preferredAddress with
        | some x => encB Gen.tpIdPreferredAddress ++ (encB (paWireSize x) ++ paBytes x)
        | none => []) := by
  cases hv : p.preferredAddress with
  | none => exact StepOK.skip (fun S => by simp [merge, hv])
  | some x =>
    have hx := hw x hv
    have hsz := paWireSize_eq x hx.2.2.2.1
    have hcl := hx.2.2.2.1
    have hl := paBytes_length x hx
    have hne := encB_ne_nil (show Gen.tpIdPreferredAddress < 2^62 by decide)
    refine StepOK.one (by simp at hne ⊢; simp [hne]) (fun S got rest hk hgot => ⟨got, mem_got hgot, ?_⟩)
    have hs62 : 41 + x.cid.length < 2^62 := by omega
    have hlen : ¬ ((paBytes x).length + rest.length < 41 + x.cid.length) := by omega
    have hwt := withTake_exact paRead (paBytes x) rest x (paRead_paBytes x hx)
    rw [hl] at hwt
    simp at hk
    simp [readOne, readBody, getVar_enc, hsz, hs62, hlen, merge, hk, hv, hwt]

/-! ##### the reserved (grease) parameter -/

theorem step_reserved (p : TP) (g : Option (Nat × Bytes)) (hg : greaseOk g) :
    StepOK p Gen.tpIdReservedTransportParameter (cReserved g) := by
  unfold cReserved
  have hm : ∀ S, merge (Gen.tpIdReservedTransportParameter :: S) p = merge S p := fun S => by simp [merge]
  cases g with
  | none => exact StepOK.skip hm
  | some x =>
    obtain ⟨h1, h2, h3⟩ := hg x rfl
    have hne := encB_ne_nil h1
    refine StepOK.one (by simp [hne]) (fun S got rest hk hgot => ⟨got, mem_got hgot, ?_⟩)
    have hlen : ¬ (x.2.length + rest.length < x.2.length) := by omega
    have e0 : x.1 ≠ 0 := by omega
    have e1 : x.1 ≠ 1 := by omega
    have e2 : x.1 ≠ 2 := by omega
    have e3 : x.1 ≠ 3 := by omega
    have e4 : x.1 ≠ 4 := by omega
    have e5 : x.1 ≠ 5 := by omega
    have e6 : x.1 ≠ 6 := by omega
    have e7 : x.1 ≠ 7 := by omega
    have e8 : x.1 ≠ 8 := by omega
    have e9 : x.1 ≠ 9 := by omega
    have e10 : x.1 ≠ 10 := by omega
    have e11 : x.1 ≠ 11 := by omega
    have e12 : x.1 ≠ 12 := by omega
    have e13 : x.1 ≠ 13 := by omega
    have e14 : x.1 ≠ 14 := by omega
    have e15 : x.1 ≠ 15 := by omega
    have e16 : x.1 ≠ 16 := by omega
    have e32 : x.1 ≠ 32 := by omega
    have eg : x.1 ≠ 10930 := by omega
    have em : x.1 ≠ 4278509083 := by omega
    rw [hm]
    simp [readOne, readBody, getVar_enc, h1, h3, hlen, takeN_append, e0, e1, e2, e3, e4, e5, e6, e7, e8, e9, e10,
      e11, e12, e13, e14, e15, e16, e32, eg, em]

/-! #### all parameters, any order -/

theorem step_all (s : Bool) (p : TP) (g : Option (Nat × Bytes)) (hw : wellFormed s p) (hg : greaseOk g)
    (k : Nat) (hk : k ∈ Gen.tpSupported) : StepOK p k (chunk p g k) := by
  simp only [Gen.tpSupported, List.mem_cons, List.not_mem_nil, or_false] at hk
  rcases hk with rfl | rfl | rfl | rfl | rfl | rfl | rfl | rfl | rfl | rfl | rfl | rfl | rfl | rfl | rfl | rfl |
    rfl | rfl | rfl | rfl | rfl
  · simpa [chunk] using step_maxIdleTimeout s p hw
  · simpa [chunk] using step_maxUdpPayloadSize s p hw
  · simpa [chunk] using step_initialMaxData s p hw
  · simpa [chunk] using step_initialMaxStreamDataBidiLocal s p hw
  · simpa [chunk] using step_initialMaxStreamDataBidiRemote s p hw
  · simpa [chunk] using step_initialMaxStreamDataUni s p hw
  · simpa [chunk] using step_initialMaxStreamsBidi s p hw
  · simpa [chunk] using step_initialMaxStreamsUni s p hw
  · simpa [chunk] using step_ackDelayExponent s p hw
  · simpa [chunk] using step_maxAckDelay s p hw
  · simpa [chunk] using step_activeConnectionIdLimit s p hw
  · simpa [chunk] using step_reserved p g hg
  · simpa [chunk] using step_srt p hw.srt
  · simpa [chunk] using step_dam p
  · simpa [chunk] using step_mdfs p hw.mdfs
  · simpa [chunk] using step_pa p hw.pa
  · simpa [chunk] using step_odcid p hw.odcid
  · simpa [chunk] using step_iscid p hw.iscid
  · simpa [chunk] using step_rscid p hw.rscid
  · simpa [chunk] using step_gqb p
  · simpa [chunk] using step_mad p hw.mad

def chunks (p : TP) (g : Option (Nat × Bytes)) : List Nat → Bytes
  | [] => []
  | k :: ks => chunk p g k ++ chunks p g ks

theorem reads_chunks (p : TP) (g : Option (Nat × Bytes)) (ids : List Nat) :
    ids.Nodup → (∀ k ∈ ids, StepOK p k (chunk p g k)) → ∀ (S got : List Nat), (∀ k ∈ ids, k ∉ S) →
    (∀ x ∈ got, x ∈ S) → ∃ got', Reads ⟨merge S p, got⟩ (chunks p g ids) ⟨merge (ids.reverse ++ S) p, got'⟩ := by
  induction ids with
  | nil => intro _ _ S got _ _; exact ⟨got, by simpa [chunks] using Reads.nil _⟩
  | cons k ks ih =>
    intro hnd hstep S got hdis hgot
    have hnd' := List.nodup_cons.mp hnd
    obtain ⟨got1, hg1, himp⟩ := hstep k (List.mem_cons_self) S got (chunks p g ks) (hdis k (List.mem_cons_self)) hgot
    obtain ⟨got2, hr⟩ := ih hnd'.2 (fun k' hk' => hstep k' (List.mem_cons_of_mem _ hk')) (k :: S) got1
      (fun k' hk' hmem => by
        simp only [List.mem_cons] at hmem
        rcases hmem with rfl | hmem
        · exact hnd'.1 hk'
        · exact hdis k' (List.mem_cons_of_mem _ hk') hmem) hg1
    refine ⟨got2, ?_⟩
    have : (k :: ks).reverse ++ S = ks.reverse ++ (k :: S) := by simp
    rw [this]
    exact himp _ hr

/-- `write` produces the concatenation of the parameters' bytes, in the order given -/
theorem writeLoop_eq (s : Bool) (p : TP) (g : Option (Nat × Bytes)) (hw : wellFormed s p) (hg : greaseOk g)
    (order : List Nat) : (∀ i ∈ order, i < Gen.tpSupportedLen) → ∀ b : Bytes,
    writeLoop p g order (some b) = some (b ++ chunks p g (order.filterMap (Gen.tpSupported[·]?))) := by
  induction order with
  | nil => intro _ b; simp [writeLoop, chunks]
  | cons i is ih =>
    intro hlt b
    have hi : i < Gen.tpSupported.length := by
      have := hlt i (List.mem_cons_self); simpa [Gen.tpSupportedLen, Gen.tpSupported] using this
    have hget : Gen.tpSupported[i]? = some Gen.tpSupported[i] := List.getElem?_eq_getElem hi
    simp only [writeLoop, hget, List.filterMap_cons, chunks]
    rw [writeOne_eq s p g hw hg _ (List.getElem_mem hi) b, ih (fun j hj => hlt j (List.mem_cons_of_mem _ hj))]
    simp

theorem roundtrip_perm (s : Bool) (p : TP) (g : Option (Nat × Bytes)) (hw : wellFormed s p) (hg : greaseOk g)
    (order : List Nat) (hperm : order.Perm canonicalOrder) :
    ∃ e, write p g order = some e ∧ read s e = .ok p := by
  have hlt : ∀ i ∈ order, i < Gen.tpSupportedLen := fun i hi => by
    have := (hperm.mem_iff).mp hi
    simpa [canonicalOrder] using this
  have hids : (order.filterMap (Gen.tpSupported[·]?)).Perm Gen.tpSupported := by
    have h1 := hperm.filterMap (Gen.tpSupported[·]?)
    have h2 : canonicalOrder.filterMap (Gen.tpSupported[·]?) = Gen.tpSupported := by decide
    rwa [h2] at h1
  have hnd : (order.filterMap (Gen.tpSupported[·]?)).Nodup := (hids.nodup_iff).mpr (by decide)
  refine ⟨chunks p g (order.filterMap (Gen.tpSupported[·]?)), ?_, ?_⟩
  · have := writeLoop_eq s p g hw hg order hlt []
    simpa [write] using this
  · obtain ⟨got', hr⟩ := reads_chunks p g _ hnd
      (fun k hk => step_all s p g hw hg k ((hids.mem_iff).mp hk)) [] [] (fun _ _ h => by simp at h)
      (fun _ h => by simp at h)
    rw [merge_nil] at hr
    have hfull : merge ((order.filterMap (Gen.tpSupported[·]?)).reverse ++ []) p = p :=
      merge_full _ p (fun k hk => by simpa using (hids.mem_iff).mpr hk)
    rw [hfull] at hr
    unfold read
    rw [hr.readLoop _ (Nat.le_refl _)]
    simp [hw.sem]

end QM.Wire.TP
