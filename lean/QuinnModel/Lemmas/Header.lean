import QuinnModel.Lemmas.Parser
import QuinnModel.Wire.Header
/-
Proofs about long-form connection ids and plaintext packet headers.
-/
namespace QM.Wire
open QM QM.Wire QM.Wire.P

/-! ### connection ids -/
namespace Cid

theorem encodeLong_some (cid b : Bytes) : encodeLong cid (some b) = some (b ++ (cid.length % 256 :: cid)) := by
  simp [encodeLong]

theorem decodeLong_append {ε} (e p : ε) (cid r : Bytes) (h : cid.length ≤ 20) :
    decodeLong e p ((cid.length % 256 :: cid) ++ r) = .ok (cid, r) := by
  have hm : cid.length % 256 = cid.length := by omega
  have h1 : ¬ (cid.length > Gen.wireMaxCidSize ∨ cid.length + r.length < cid.length) := by
    simp only [Gen.wireMaxCidSize]; omega
  simp [decodeLong, hm, ite_apply', h1, takeN_append]

/-- `decode_long (encode_long cid ++ r) = (cid, r)` -/
theorem roundtrip {ε} (e p : ε) (cid r : Bytes) (h : cid.length ≤ 20) :
    ∃ enc, encodeLong cid (some []) = some enc ∧ decodeLong e p (enc ++ r) = .ok (cid, r) :=
  ⟨_, encodeLong_some cid [], by simpa using decodeLong_append e p cid r h⟩

theorem decodeLong_adv {ε} (e p : ε) : Adv (decodeLong e p) := by
  unfold decodeLong
  refine Adv.bind (Adv.getU8 _) (fun _ => ?_)
  mono_tac

theorem decodeLong_mono {ε} (e p : ε) : Mono (decodeLong e p) := (decodeLong_adv e p).mono

/-- the unchecked copy of `from_buf` is covered by the `remaining < len` test in front of it -/
theorem decodeLong_noPanic {ε} {e p : ε} (h : e ≠ p) : Never p (decodeLong e p) := by
  unfold decodeLong
  refine Never.bind (Never.getU8 h) (fun len => ?_)
  refine ⟨fun bs hb => ?_⟩
  simp only [bind_apply, remaining_apply, ite_apply', fail_apply, P.takeN] at hb
  split at hb
  · simp only [Except.error.injEq] at hb; exact h hb
  · rw [if_neg (by omega)] at hb
    simp at hb

end Cid

/-! ### headers: the decoder on arbitrary bytes -/
namespace Header

theorem decodeHeader_mono (total lc : Nat) (sup : List Nat) (g : Bool) : Mono (decodeHeader total lc sup g) := by
  unfold decodeHeader
  have h1 := Cid.decodeLong_mono HdrErr.malformedCid HdrErr.panic
  simp only
  repeat' (first
    | exact Mono.pure _
    | exact Mono.fail _
    | exact Mono.getVar _
    | exact Mono.getU8 _
    | exact Mono.getU32 _
    | exact Mono.takeN _ _
    | exact Mono.remaining
    | exact h1
    | refine Mono.bind ?_ (fun _ => ?_)
    | apply Mono.ite)

theorem decodeHeader_adv (total lc : Nat) (sup : List Nat) (g : Bool) : Adv (decodeHeader total lc sup g) := by
  unfold decodeHeader
  refine Adv.bind (Adv.getU8 _) (fun first => ?_)
  have := decodeHeader_mono total lc sup g
  have h1 := Cid.decodeLong_mono HdrErr.malformedCid HdrErr.panic
  simp only
  repeat' (first
    | exact Mono.pure _
    | exact Mono.fail _
    | exact Mono.getVar _
    | exact Mono.getU8 _
    | exact Mono.getU32 _
    | exact Mono.takeN _ _
    | exact Mono.remaining
    | exact h1
    | refine Mono.bind ?_ (fun _ => ?_)
    | apply Mono.ite)

theorem longTypeOf_lt (first : Nat) : longTypeOf first < 4 := by
  unfold longTypeOf
  simp only [Gen.hdrTypeMask, Gen.hdrTypeShift, Nat.shiftRight_eq_div_pow]
  have := @Nat.and_le_right first 48
  omega

/-- the four arms of `LongHeaderType::from_byte` cover every byte: `unreachable!()` is unreachable -/
theorem never_dispatch {α} (ty : Nat) (h : ty < 4) {A B C D : P HdrErr α}
    (hA : Never .panic A) (hB : Never .panic B) (hC : Never .panic C) (hD : Never .panic D) :
    Never .panic (if ty = Gen.hdrTypeDecInitial then A else if ty = Gen.hdrTypeDecZeroRtt then B
      else if ty = Gen.hdrTypeDecHandshake then C else if ty = Gen.hdrTypeDecRetry then D
      else fail .panic) := by
  simp only [Gen.hdrTypeDecInitial, Gen.hdrTypeDecZeroRtt, Gen.hdrTypeDecHandshake, Gen.hdrTypeDecRetry]
  have : ty = 0 ∨ ty = 1 ∨ ty = 2 ∨ ty = 3 := by omega
  rcases this with rfl | rfl | rfl | rfl <;> simpa

theorem decodeHeader_noPanic (total lc : Nat) (sup : List Nat) (g : Bool) :
    Never .panic (decodeHeader total lc sup g) := by
  unfold decodeHeader
  have h1 := Cid.decodeLong_noPanic (e := HdrErr.malformedCid) (p := HdrErr.panic) (by decide)
  refine Never.bind (Never.getU8 (by decide)) (fun first => ?_)
  apply Never.ite
  · exact Never.fail (by decide)
  apply Never.ite
  · exact Never.guardedTake (by decide) (fun rem => rem < lc) lc (fun rem h => by omega)
      (fun dst => Never.pure _ _)
  refine Never.bind (Never.getU32 (by decide)) (fun version => ?_)
  refine Never.bind h1 (fun dst => ?_)
  refine Never.bind h1 (fun src => ?_)
  apply Never.ite
  · exact Never.pure _ _
  apply Never.ite
  · exact Never.fail (by intro h; cases h)
  refine never_dispatch _ (longTypeOf_lt first) ?_ ?_ ?_ ?_
  · refine Never.bind (Never.getVar (by decide)) (fun tokenLen => ?_)
    refine Never.bind (Never.remaining _) (fun atToken => ?_)
    exact Never.guardedTake (bad := HdrErr.panic) (e := HdrErr.tokenOutOfBounds) (by decide)
      (fun rem => tokenLen > rem) tokenLen (fun rem h => by omega)
      (fun _ => Never.bind (Never.getVar (e := U) (by decide)) (fun _ => Never.pure _ _))
  · exact Never.bind (Never.getVar (by decide)) (fun _ => Never.pure _ _)
  · exact Never.bind (Never.getVar (by decide)) (fun _ => Never.pure _ _)
  · exact Never.pure _ _

theorem partialDecode_noPanic (bytes : Bytes) (lc : Nat) (sup : List Nat) (g : Bool) :
    partialDecodeNew bytes lc sup g ≠ .error .panic := by
  unfold partialDecodeNew
  split
  · rename_i e he
    intro hc
    simp only [Except.error.injEq] at hc
    subst hc
    exact (decodeHeader_noPanic _ _ _ _).nv _ he
  · simp only
    split
    · simp
    · split <;> simp

/-- `PartialDecode::new` on ALL inputs: the packet and the remainder partition the datagram exactly, the
    cursor is inside the packet, and a remainder is reported only when it is non-empty
    (`partial_decode_len_sum`: the assertion of the `packet` fuzz target) -/
theorem partialDecode_split (bytes : Bytes) (lc : Nat) (sup : List Nat) (g : Bool) (pd : PartialDecode)
    (h : partialDecodeNew bytes lc sup g = .ok pd) :
    pd.packet ++ (match pd.rest with | some r => r | none => []) = bytes ∧
    pd.pos ≤ pd.packet.length ∧ 1 ≤ pd.pos ∧ (∀ r, pd.rest = some r → r ≠ []) := by
  unfold partialDecodeNew at h
  split at h
  · simp at h
  · rename_i hdr rem hd
    have hadv := (decodeHeader_adv bytes.length lc sup g).suffix bytes hdr rem hd
    have hle := hadv.1.length_le
    simp only at h
    generalize hpl : packetLenOf hdr (bytes.length - rem.length) bytes.length = packetLen at h
    by_cases h1 : bytes.length = packetLen
    · rw [if_pos h1] at h
      simp only [Except.ok.injEq] at h
      subst h
      simp only [List.append_nil, true_and]
      exact ⟨by omega, by omega, by simp⟩
    · rw [if_neg h1] at h
      by_cases h2 : bytes.length < packetLen
      · rw [if_pos h2] at h; simp at h
      · rw [if_neg h2] at h
        simp only [Except.ok.injEq] at h
        subst h
        simp only [List.take_append_drop, true_and]
        have hge : bytes.length - rem.length ≤ packetLen := by
          unfold packetLenOf at hpl
          cases hp : hdr.payloadLen <;> simp only [hp] at hpl <;> omega
        refine ⟨?_, by omega, ?_⟩
        · rw [List.length_take]; omega
        · intro r hr
          simp only [Option.some.injEq] at hr
          subst hr
          intro hnil
          have := congrArg List.length hnil
          rw [List.length_drop] at this
          simp only [List.length_nil] at this
          omega

/-! ### round trip and coalescing -/

theorem or_tag (len : Nat) (h : len < 2^14) : (len % 65536) ||| 16384 = 16384 + len := by
  have h1 : len % 65536 = len := by omega
  rw [h1, Nat.or_comm]
  have := Nat.two_pow_add_eq_or_of_lt (i := 14) h 1
  simpa using this.symm

/-- the patched length field reads back as the length (always in the 2-byte varint form) -/
theorem getVar_len16 {ε} (e : ε) (len : Nat) (h : len < 2^14) (r : Bytes) :
    getVar e (beBytes 2 ((len % 65536) ||| 16384) ++ r) = .ok (len, r) := by
  rw [or_tag len h]
  simp only [beBytes, P.getVar, VarInt.decode, List.cons_append, List.nil_append]
  have t : (16384 + len) / 256 ^ 1 % 256 / 64 = 1 := by simp; omega
  simp [t, beVal]
  omega

/-- `PartialEncode::finish` on header = `A ++ [0,0] ++ pn`, followed by the payload -/
theorem finishPlain_long (A pnb payload : Bytes) (pnLen : Nat) (hp : pnb.length = pnLen)
    (h4 : 4 ≤ pnLen + payload.length) (h14 : pnLen + payload.length < 2^14) :
    finishPlain (A ++ (beBytes 2 0 ++ pnb)).length (some (pnLen, true)) ((A ++ (beBytes 2 0 ++ pnb)) ++ payload) =
      some (A ++ (beBytes 2 (((pnLen + payload.length) % 65536) ||| 16384) ++ (pnb ++ payload))) := by
  have hb : (beBytes 2 0).length = 2 := PacketNumber.beBytes_length 2 0
  have hb' : ∀ x, (beBytes 2 x).length = 2 := fun x => PacketNumber.beBytes_length 2 x
  have hlen : (A ++ (beBytes 2 0 ++ pnb)).length = A.length + 2 + pnLen := by
    simp only [List.length_append, hb, hp]; omega
  have htot : ((A ++ (beBytes 2 0 ++ pnb)) ++ payload).length = A.length + 2 + pnLen + payload.length := by
    simp only [List.length_append, hb, hp]; omega
  have hpos : A.length + 2 + pnLen - pnLen = A.length + 2 := by omega
  have htake : ((A ++ (beBytes 2 0 ++ pnb)) ++ payload).take (A.length + 2 - 2) = A := by
    have : A.length + 2 - 2 = A.length := by omega
    rw [this, List.append_assoc, List.take_left' rfl]
  have hdrop : ((A ++ (beBytes 2 0 ++ pnb)) ++ payload).drop (A.length + 2) = pnb ++ payload := by
    have e1 : (A ++ (beBytes 2 0 ++ pnb)) ++ payload = (A ++ beBytes 2 0) ++ (pnb ++ payload) := by
      simp only [List.append_assoc]
    rw [e1, List.drop_left' (by simp only [List.length_append, hb])]
  have hl : A.length + 2 + pnLen + payload.length - (A.length + 2 + pnLen) + pnLen = pnLen + payload.length := by
    omega
  have c0 : ¬ (A.length + 2 + pnLen < pnLen) := by omega
  have c1 : ¬ (A.length + 2 + pnLen + payload.length < A.length + 2 + pnLen) := by omega
  have c2 : ¬ ¬ (pnLen + payload.length < 2 ^ 14) := by omega
  have c3 : ¬ (A.length + 2 < 2 ∨ A.length + 2 + pnLen + payload.length < A.length + 2) := by omega
  unfold finishPlain
  simp only [hlen, htot, hpos, hl, Gen.hdrLenBoundLog, Gen.hdrLenTag]
  rw [if_neg c0, if_pos True.intro, if_neg c1, if_neg c2, if_neg c3, htake, hdrop]
  simp only [List.append_assoc]
  rw [if_pos (by simp only [List.length_append, hb', hp]; omega)]

def validPnLen (n : Nat) : Prop := n = 1 ∨ n = 2 ∨ n = 3 ∨ n = 4

/-- the bytes of a long header in front of the length field -/
def longPrefix (first version : Nat) (dst src : Bytes) : Bytes :=
  (first % 256) :: (beBytes 4 version ++ ((dst.length % 256 :: dst) ++ (src.length % 256 :: src)))

theorem longPrefix_length (first version : Nat) (dst src : Bytes) :
    (longPrefix first version dst src).length = 7 + dst.length + src.length := by
  simp [longPrefix, PacketNumber.beBytes_length]; omega

/-- what `ProtectedHeader::decode` does with the common part of a long header of a supported version -/
theorem decode_longPrefix (sup : List Nat) (g : Bool) (first version : Nat) (dst src tail : Bytes)
    (hf : first < 256) (hfix : first &&& Gen.hdrFixedBit ≠ 0) (hlong : first &&& Gen.hdrLongHeaderForm ≠ 0)
    (hd : dst.length ≤ 20) (hs : src.length ≤ 20) (hv : version < 2^32) (hv0 : version ≠ 0)
    (hsup : version ∈ sup) {α} (k : Bytes → Bytes → P HdrErr α) :
    (do
      let first ← getU8 U
      if !g ∧ first &&& Gen.hdrFixedBit = 0 then fail .fixedBitUnset
      else if first &&& Gen.hdrLongHeaderForm = 0 then fail .panic
      else do
        let version' ← getU32 U
        let dst' ← Cid.decodeLong .malformedCid .panic
        let src' ← Cid.decodeLong .malformedCid .panic
        if version' = 0 then fail .panic
        else if ¬ version' ∈ sup then fail (.unsupportedVersion src' dst' version')
        else k dst' src' : P HdrErr α) (longPrefix first version dst src ++ tail) = k dst src tail := by
  have hm : first % 256 = first := by omega
  unfold longPrefix
  simp only [List.cons_append, List.append_assoc, hm]
  rw [bind_ok (getU8_cons _ _ _), ite_apply', if_neg (by simp [hfix]), ite_apply', if_neg hlong,
    bind_ok (getU32_be _ hv _)]
  have e1 := Cid.decodeLong_append HdrErr.malformedCid HdrErr.panic dst
    ((src.length % 256 :: src) ++ tail) hd
  have e2 := Cid.decodeLong_append HdrErr.malformedCid HdrErr.panic src tail hs
  simp only [List.cons_append] at e1 e2
  rw [bind_ok e1, bind_ok e2, ite_apply', if_neg hv0, ite_apply', if_neg (by simpa using hsup)]

def longTypeDec : LongType → Nat
  | .handshake => Gen.hdrTypeDecHandshake
  | .zeroRtt => Gen.hdrTypeDecZeroRtt

/-- first byte of a Handshake / 0-RTT header -/
def longFirstByte (ty : LongType) (pl : Nat) : Nat := longFirst (longTypeBits ty) ||| pnTag (pl, 0)

theorem longFirstByte_facts (ty : LongType) (pl : Nat) (hp : validPnLen pl) :
    longFirstByte ty pl < 256 ∧ longFirstByte ty pl &&& Gen.hdrFixedBit ≠ 0 ∧
    longFirstByte ty pl &&& Gen.hdrLongHeaderForm ≠ 0 ∧ longTypeOf (longFirstByte ty pl) = longTypeDec ty := by
  rcases hp with rfl | rfl | rfl | rfl <;> cases ty <;> decide

theorem encode_long (ty : LongType) (dst src : Bytes) (pl pv version : Nat) :
    encode (.long ty dst src (pl, pv) version) =
      some { bytes := longPrefix (longFirstByte ty pl) version dst src ++ (beBytes 2 0 ++ beBytes pl pv),
             pn := some (pl, true) } := by
  simp [encode, Cid.encodeLong, longPrefix, PacketNumber.encode, longFirstByte, pnTag]

/-- Handshake / 0-RTT: the packet that goes on the wire (identity protection) -/
def longPacket (ty : LongType) (dst src : Bytes) (pl pv version : Nat) (payload : Bytes) : Bytes :=
  longPrefix (longFirstByte ty pl) version dst src ++
    (beBytes 2 (((pl + payload.length) % 65536) ||| 16384) ++ (beBytes pl pv ++ payload))

theorem packet_long (ty : LongType) (dst src payload : Bytes) (pl pv version : Nat)
    (h4 : 4 ≤ pl + payload.length) (h14 : pl + payload.length < 2^14) :
    packet (.long ty dst src (pl, pv) version) payload = some (longPacket ty dst src pl pv version payload) := by
  unfold packet
  rw [encode_long]
  exact finishPlain_long _ _ payload pl (PacketNumber.beBytes_length pl pv) h4 h14

theorem longPacket_length (ty : LongType) (dst src payload : Bytes) (pl pv version : Nat) :
    (longPacket ty dst src pl pv version payload).length = 9 + dst.length + src.length + pl + payload.length := by
  simp only [longPacket, List.length_append, longPrefix_length, PacketNumber.beBytes_length]
  omega

/-- header round trip + coalesce_split for Handshake / 0-RTT packets: decoding the packet followed by any
    second packet `p2` yields the written version / cids, the payload length, the cursor in front of the
    packet number, exactly the packet's bytes, and exactly `p2` as remainder -/
theorem long_coalesce (ty : LongType) (dst src payload p2 : Bytes) (pl pv version lc : Nat) (sup : List Nat) (g : Bool)
    (hp : validPnLen pl) (hd : dst.length ≤ 20) (hs : src.length ≤ 20) (hv : version < 2^32) (hv0 : version ≠ 0)
    (hsup : version ∈ sup) (h14 : pl + payload.length < 2^14) :
    partialDecodeNew (longPacket ty dst src pl pv version payload ++ p2) lc sup g =
      .ok { header := .long ty dst src (pl + payload.length) version,
            pos := 9 + dst.length + src.length,
            packet := longPacket ty dst src pl pv version payload,
            rest := if p2 = [] then none else some p2 } := by
  obtain ⟨hf, hfix, hlong, hty⟩ := longFirstByte_facts ty pl hp
  have hdec : decodeHeader (longPacket ty dst src pl pv version payload ++ p2).length lc sup g
      (longPacket ty dst src pl pv version payload ++ p2) =
      .ok (.long ty dst src (pl + payload.length) version, beBytes pl pv ++ (payload ++ p2)) := by
    have hm : longFirstByte ty pl % 256 = longFirstByte ty pl := by omega
    have e1 := Cid.decodeLong_append HdrErr.malformedCid HdrErr.panic dst
      ((src.length % 256 :: src) ++ (beBytes 2 (((pl + payload.length) % 65536) ||| 16384) ++
        (beBytes pl pv ++ (payload ++ p2)))) hd
    have e2 := Cid.decodeLong_append HdrErr.malformedCid HdrErr.panic src
      (beBytes 2 (((pl + payload.length) % 65536) ||| 16384) ++ (beBytes pl pv ++ (payload ++ p2))) hs
    simp only [List.cons_append] at e1 e2
    unfold decodeHeader longPacket longPrefix
    simp only [List.cons_append, List.append_assoc, hm]
    rw [bind_ok (getU8_cons _ _ _), ite_apply', if_neg (by simp [hfix]), ite_apply', if_neg hlong,
      bind_ok (getU32_be _ hv _), bind_ok e1, bind_ok e2, ite_apply', if_neg hv0, ite_apply',
      if_neg (by simpa using hsup)]
    simp only [hty]
    cases ty
    · simp [longTypeDec, Gen.hdrTypeDecInitial, Gen.hdrTypeDecZeroRtt, Gen.hdrTypeDecHandshake,
        getVar_len16 _ _ h14]
    · simp [longTypeDec, Gen.hdrTypeDecInitial, Gen.hdrTypeDecZeroRtt, Gen.hdrTypeDecHandshake,
        getVar_len16 _ _ h14]
  have hlen := longPacket_length ty dst src payload pl pv version
  have hpn := PacketNumber.beBytes_length pl pv
  unfold partialDecodeNew
  rw [hdec]
  simp only [packetLenOf, PHeader.payloadLen, List.length_append, hlen, hpn]
  have hpos : 9 + dst.length + src.length + pl + payload.length + p2.length - (pl + (payload.length + p2.length))
      = 9 + dst.length + src.length := by omega
  rw [hpos]
  by_cases hp2 : p2 = []
  · subst hp2
    simp only [List.length_nil, Nat.add_zero, List.append_nil, if_true]
    rw [if_pos (by omega)]
  · have hpos2 : 0 < p2.length := List.length_pos_iff.mpr hp2
    rw [if_neg (by omega), if_neg (by omega), if_neg hp2]
    have hk : 9 + dst.length + src.length + (pl + payload.length) =
        (longPacket ty dst src pl pv version payload).length := by rw [hlen]; omega
    rw [hk, List.take_left' rfl, List.drop_left' rfl]

/-! #### Initial -/

def initialFirstByte (pl : Nat) : Nat := longFirst Gen.hdrTypeEncInitial ||| pnTag (pl, 0)

theorem initialFirstByte_facts (pl : Nat) (hp : validPnLen pl) :
    initialFirstByte pl < 256 ∧ initialFirstByte pl &&& Gen.hdrFixedBit ≠ 0 ∧
    initialFirstByte pl &&& Gen.hdrLongHeaderForm ≠ 0 ∧ longTypeOf (initialFirstByte pl) = Gen.hdrTypeDecInitial := by
  rcases hp with rfl | rfl | rfl | rfl <;> decide

/-- everything in front of the length field of an Initial header -/
def initialPrefix (dst src token : Bytes) (pl version : Nat) : Bytes :=
  longPrefix (initialFirstByte pl) version dst src ++ (encB token.length ++ token)

theorem initialPrefix_length (dst src token : Bytes) (pl version : Nat) :
    (initialPrefix dst src token pl version).length =
      7 + dst.length + src.length + (encB token.length).length + token.length := by
  simp only [initialPrefix, List.length_append, longPrefix_length]; omega

theorem encode_initial (dst src token : Bytes) (pl pv version : Nat) (ht : token.length < 2^62) :
    encode (.initial dst src token (pl, pv) version) =
      some { bytes := initialPrefix dst src token pl version ++ (beBytes 2 0 ++ beBytes pl pv),
             pn := some (pl, true) } := by
  simp [encode, Cid.encodeLong, initialPrefix, longPrefix, PacketNumber.encode, initialFirstByte, pnTag,
    wVar_some ht]

def initialPacket (dst src token : Bytes) (pl pv version : Nat) (payload : Bytes) : Bytes :=
  initialPrefix dst src token pl version ++
    (beBytes 2 (((pl + payload.length) % 65536) ||| 16384) ++ (beBytes pl pv ++ payload))

theorem packet_initial (dst src token payload : Bytes) (pl pv version : Nat) (ht : token.length < 2^62)
    (h4 : 4 ≤ pl + payload.length) (h14 : pl + payload.length < 2^14) :
    packet (.initial dst src token (pl, pv) version) payload =
      some (initialPacket dst src token pl pv version payload) := by
  unfold packet
  rw [encode_initial _ _ _ _ _ _ ht]
  exact finishPlain_long _ _ payload pl (PacketNumber.beBytes_length pl pv) h4 h14

theorem initialPacket_length (dst src token payload : Bytes) (pl pv version : Nat) :
    (initialPacket dst src token pl pv version payload).length =
      7 + dst.length + src.length + (encB token.length).length + token.length + 2 + pl + payload.length := by
  simp only [initialPacket, List.length_append, initialPrefix_length, PacketNumber.beBytes_length]
  omega

/-- header round trip + coalesce_split for Initial packets (token position and length included) -/
theorem initial_coalesce (dst src token payload p2 : Bytes) (pl pv version lc : Nat) (sup : List Nat) (g : Bool)
    (hp : validPnLen pl) (hd : dst.length ≤ 20) (hs : src.length ≤ 20) (ht : token.length < 2^62)
    (hv : version < 2^32) (hv0 : version ≠ 0) (hsup : version ∈ sup) (h14 : pl + payload.length < 2^14) :
    partialDecodeNew (initialPacket dst src token pl pv version payload ++ p2) lc sup g =
      .ok { header := .initial dst src (7 + dst.length + src.length + (encB token.length).length) token.length
              (pl + payload.length) version,
            pos := 7 + dst.length + src.length + (encB token.length).length + token.length + 2,
            packet := initialPacket dst src token pl pv version payload,
            rest := if p2 = [] then none else some p2 } := by
  obtain ⟨hf, hfix, hlong, hty⟩ := initialFirstByte_facts pl hp
  have hlen := initialPacket_length dst src token payload pl pv version
  have hpn := PacketNumber.beBytes_length pl pv
  have hb2 : ∀ x, (beBytes 2 x).length = 2 := fun x => PacketNumber.beBytes_length 2 x
  have harith : (initialPacket dst src token pl pv version payload ++ p2).length -
      (token ++ (beBytes 2 (((pl + payload.length) % 65536) ||| 16384) ++ (beBytes pl pv ++ (payload ++ p2)))).length
      = 7 + dst.length + src.length + (encB token.length).length := by
    simp only [List.length_append, hlen, hb2, hpn]; omega
  have hdec : decodeHeader (initialPacket dst src token pl pv version payload ++ p2).length lc sup g
      (initialPacket dst src token pl pv version payload ++ p2) =
      .ok (.initial dst src (7 + dst.length + src.length + (encB token.length).length) token.length
        (pl + payload.length) version, beBytes pl pv ++ (payload ++ p2)) := by
    have hm : initialFirstByte pl % 256 = initialFirstByte pl := by omega
    have e1 := Cid.decodeLong_append HdrErr.malformedCid HdrErr.panic dst
      ((src.length % 256 :: src) ++ (encB token.length ++ (token ++
        (beBytes 2 (((pl + payload.length) % 65536) ||| 16384) ++ (beBytes pl pv ++ (payload ++ p2)))))) hd
    have e2 := Cid.decodeLong_append HdrErr.malformedCid HdrErr.panic src
      (encB token.length ++ (token ++
        (beBytes 2 (((pl + payload.length) % 65536) ||| 16384) ++ (beBytes pl pv ++ (payload ++ p2))))) hs
    simp only [List.cons_append] at e1 e2
    rw [← harith]
    generalize (initialPacket dst src token pl pv version payload ++ p2).length = total
    unfold decodeHeader initialPacket initialPrefix longPrefix
    simp only [List.cons_append, List.append_assoc, hm]
    rw [bind_ok (getU8_cons _ _ _), ite_apply', if_neg (by simp [hfix]), ite_apply', if_neg hlong,
      bind_ok (getU32_be _ hv _), bind_ok e1, bind_ok e2, ite_apply', if_neg hv0, ite_apply',
      if_neg (by simpa using hsup)]
    simp only [hty, if_true]
    rw [bind_ok (getVar_enc _ ht _)]
    have hgt : ¬ (token.length > (token ++ (beBytes 2 (((pl + payload.length) % 65536) ||| 16384) ++
        (beBytes pl pv ++ (payload ++ p2)))).length) := by
      simp only [List.length_append]; omega
    simp only [bind_apply, remaining_apply, ite_apply', if_neg hgt, takeN_append, getVar_len16 _ _ h14,
      pure_apply]
  unfold partialDecodeNew
  rw [hdec]
  simp only [packetLenOf, PHeader.payloadLen, List.length_append, hlen, hpn]
  have hpos : 7 + dst.length + src.length + (encB token.length).length + token.length + 2 + pl + payload.length
      + p2.length - (pl + (payload.length + p2.length))
      = 7 + dst.length + src.length + (encB token.length).length + token.length + 2 := by omega
  rw [hpos]
  by_cases hp2 : p2 = []
  · subst hp2
    simp only [List.length_nil, Nat.add_zero, List.append_nil, if_true]
    rw [if_pos (by omega)]
  · have hpos2 : 0 < p2.length := List.length_pos_iff.mpr hp2
    rw [if_neg (by omega), if_neg (by omega), if_neg hp2]
    have hk : 7 + dst.length + src.length + (encB token.length).length + token.length + 2 + (pl + payload.length) =
        (initialPacket dst src token pl pv version payload).length := by rw [hlen]; omega
    rw [hk, List.take_left' rfl, List.drop_left' rfl]

/-! #### Retry, Version Negotiation, Short: no length field, the packet is the rest of the datagram -/

theorem retryFirst_facts : longFirst Gen.hdrTypeEncRetry < 256 ∧ longFirst Gen.hdrTypeEncRetry &&& Gen.hdrFixedBit ≠ 0 ∧
    longFirst Gen.hdrTypeEncRetry &&& Gen.hdrLongHeaderForm ≠ 0 ∧
    longTypeOf (longFirst Gen.hdrTypeEncRetry) = Gen.hdrTypeDecRetry := by decide

theorem encode_retry (dst src : Bytes) (version : Nat) :
    encode (.retry dst src version) =
      some { bytes := longPrefix (longFirst Gen.hdrTypeEncRetry) version dst src, pn := none } := by
  simp [encode, Cid.encodeLong, longPrefix]

theorem retry_roundtrip (dst src tail : Bytes) (version lc : Nat) (sup : List Nat) (g : Bool)
    (hd : dst.length ≤ 20) (hs : src.length ≤ 20) (hv : version < 2^32) (hv0 : version ≠ 0) (hsup : version ∈ sup) :
    partialDecodeNew (longPrefix (longFirst Gen.hdrTypeEncRetry) version dst src ++ tail) lc sup g =
      .ok { header := .retry dst src version, pos := 7 + dst.length + src.length,
            packet := longPrefix (longFirst Gen.hdrTypeEncRetry) version dst src ++ tail, rest := none } := by
  obtain ⟨hf, hfix, hlong, hty⟩ := retryFirst_facts
  have hdec : decodeHeader (longPrefix (longFirst Gen.hdrTypeEncRetry) version dst src ++ tail).length lc sup g
      (longPrefix (longFirst Gen.hdrTypeEncRetry) version dst src ++ tail) = .ok (.retry dst src version, tail) := by
    have hm : longFirst Gen.hdrTypeEncRetry % 256 = longFirst Gen.hdrTypeEncRetry := by omega
    have e1 := Cid.decodeLong_append HdrErr.malformedCid HdrErr.panic dst ((src.length % 256 :: src) ++ tail) hd
    have e2 := Cid.decodeLong_append HdrErr.malformedCid HdrErr.panic src tail hs
    simp only [List.cons_append] at e1 e2
    unfold decodeHeader longPrefix
    simp only [List.cons_append, List.append_assoc, hm]
    rw [bind_ok (getU8_cons _ _ _), ite_apply', if_neg (by simp [hfix]), ite_apply', if_neg hlong,
      bind_ok (getU32_be _ hv _), bind_ok e1, bind_ok e2, ite_apply', if_neg hv0, ite_apply',
      if_neg (by simpa using hsup)]
    simp [hty, Gen.hdrTypeDecInitial, Gen.hdrTypeDecZeroRtt, Gen.hdrTypeDecHandshake, Gen.hdrTypeDecRetry]
  unfold partialDecodeNew
  rw [hdec]
  simp only [packetLenOf, PHeader.payloadLen, if_true, List.length_append, longPrefix_length]
  congr 2
  omega

theorem vn_facts : ∀ r, r < 128 → (128 ||| r) < 256 ∧ (128 ||| r) &&& Gen.hdrLongHeaderForm ≠ 0 ∧
    (128 ||| r) &&& (255 - Gen.hdrLongHeaderForm) = r ∧
    ((128 ||| r) &&& Gen.hdrFixedBit = 0 ↔ r &&& 64 = 0) := by decide

theorem encode_vn (random : Nat) (dst src : Bytes) :
    encode (.versionNegotiate random dst src) =
      some { bytes := longPrefix (128 ||| random) 0 dst src, pn := none } := by
  simp [encode, Cid.encodeLong, longPrefix]

theorem vn_roundtrip (random : Nat) (dst src tail : Bytes) (lc : Nat) (sup : List Nat) (g : Bool)
    (hr : random < 128) (hfix : g = true ∨ random &&& 64 ≠ 0) (hd : dst.length ≤ 20) (hs : src.length ≤ 20) :
    partialDecodeNew (longPrefix (128 ||| random) 0 dst src ++ tail) lc sup g =
      .ok { header := .versionNegotiate random dst src, pos := 7 + dst.length + src.length,
            packet := longPrefix (128 ||| random) 0 dst src ++ tail, rest := none } := by
  obtain ⟨hf, hlong, hrnd, hfx⟩ := vn_facts random hr
  have hdec : decodeHeader (longPrefix (128 ||| random) 0 dst src ++ tail).length lc sup g
      (longPrefix (128 ||| random) 0 dst src ++ tail) = .ok (.versionNegotiate random dst src, tail) := by
    have hm : (128 ||| random) % 256 = 128 ||| random := by omega
    have e1 := Cid.decodeLong_append HdrErr.malformedCid HdrErr.panic dst ((src.length % 256 :: src) ++ tail) hd
    have e2 := Cid.decodeLong_append HdrErr.malformedCid HdrErr.panic src tail hs
    simp only [List.cons_append] at e1 e2
    have hnf : ¬ ((!g) = true ∧ (128 ||| random) &&& Gen.hdrFixedBit = 0) := by
      rintro ⟨h1, h2⟩
      rcases hfix with h | h
      · simp [h] at h1
      · exact h (hfx.mp h2)
    unfold decodeHeader longPrefix
    simp only [List.cons_append, List.append_assoc, hm]
    rw [bind_ok (getU8_cons _ _ _), ite_apply', if_neg hnf, ite_apply', if_neg hlong,
      bind_ok (getU32_be _ (by decide : 0 < 2^32) _), bind_ok e1, bind_ok e2, ite_apply', if_pos rfl, hrnd]
    rfl
  unfold partialDecodeNew
  rw [hdec]
  simp only [packetLenOf, PHeader.payloadLen, if_true, List.length_append, longPrefix_length]
  congr 2
  omega

def shortFirstByte (spin keyPhase : Bool) (pl : Nat) : Nat :=
  Gen.hdrFixedBit ||| (if keyPhase then Gen.hdrKeyPhaseBit else 0) ||| (if spin then Gen.hdrSpinBit else 0)
    ||| pnTag (pl, 0)

theorem shortFirstByte_facts (spin keyPhase : Bool) (pl : Nat) (hp : validPnLen pl) :
    shortFirstByte spin keyPhase pl < 256 ∧ shortFirstByte spin keyPhase pl &&& Gen.hdrFixedBit ≠ 0 ∧
    shortFirstByte spin keyPhase pl &&& Gen.hdrLongHeaderForm = 0 ∧
    (decide (shortFirstByte spin keyPhase pl &&& Gen.hdrSpinBit ≠ 0) = spin) := by
  rcases hp with rfl | rfl | rfl | rfl <;> cases spin <;> cases keyPhase <;> decide

theorem encode_short (spin keyPhase : Bool) (dst : Bytes) (pl pv : Nat) :
    encode (.short spin keyPhase dst (pl, pv)) =
      some { bytes := (shortFirstByte spin keyPhase pl % 256) :: (dst ++ beBytes pl pv), pn := some (pl, false) } := by
  simp [encode, shortFirstByte, PacketNumber.encode, pnTag]

/-- a short header is recovered when the parser's connection-id length is the one that was written;
    the packet extends to the end of the datagram -/
theorem short_roundtrip (spin keyPhase : Bool) (dst tail : Bytes) (pl : Nat) (sup : List Nat) (g : Bool)
    (hp : validPnLen pl) :
    partialDecodeNew ((shortFirstByte spin keyPhase pl % 256) :: (dst ++ tail)) dst.length sup g =
      .ok { header := .short spin dst, pos := 1 + dst.length,
            packet := (shortFirstByte spin keyPhase pl % 256) :: (dst ++ tail), rest := none } := by
  obtain ⟨hf, hfix, hshort, hspin⟩ := shortFirstByte_facts spin keyPhase pl hp
  have hm : shortFirstByte spin keyPhase pl % 256 = shortFirstByte spin keyPhase pl := by omega
  have hdec : decodeHeader ((shortFirstByte spin keyPhase pl % 256) :: (dst ++ tail)).length dst.length sup g
      ((shortFirstByte spin keyPhase pl % 256) :: (dst ++ tail)) = .ok (.short spin dst, tail) := by
    have hrem : ¬ ((dst ++ tail).length < dst.length) := by simp only [List.length_append]; omega
    unfold decodeHeader
    rw [hm, bind_ok (getU8_cons _ _ _), ite_apply', if_neg (by simp [hfix]), ite_apply', if_pos hshort]
    simp only [bind_apply, remaining_apply, ite_apply', if_neg hrem, takeN_append, pure_apply, hspin]
  unfold partialDecodeNew
  rw [hdec]
  simp only [packetLenOf, PHeader.payloadLen, if_true, List.length_cons, List.length_append]
  congr 2
  omega

end Header
end QM.Wire
