import QuinnModel.Data.SendBuffer
import QuinnModel.Lemmas.RangeSet
/-
`SendBuffer` together with the multiset `F` of STREAM frames in flight (what `SentPacket.stream_frames`
holds) and two ghost variables: `w`, every byte the application wrote, and `ackd`, the frames
acknowledged so far. `step` is the interface `Connection`/`StreamsState` offers to the buffer:
a frame is acknowledged or declared lost only while it is in flight, and each once.
-/
namespace QM.SendBuffer
open QM QM.RangeSet

structure Sys where
  sb : SendBuffer
  F : List (Nat × Nat)
  w : Bytes
  ackd : List (Nat × Nat)

def Sys.init : Sys := ⟨{}, [], [], []⟩

inductive Op where
  | write (d : Bytes)
  | poll (maxLen : Nat)
  | ack (r : Nat × Nat)
  | lose (r : Nat × Nat)
  | zeroRtt

/-- one call; `none` = the call is not enabled (frame not in flight, 0-RTT rejection after acks/losses)
    or the buffer panics (`poll_transmit` with `max_len < 16`, offsets beyond 2^64) -/
def step (s : Sys) : Op → Option Sys
  | .write d => match write s.sb d with
    | some sb => some { s with sb := sb, w := s.w ++ d }
    | none => none
  | .poll n => match pollTransmit s.sb n with
    | some (sb, r, _) => some { s with sb := sb, F := r :: s.F }
    | none => none
  | .ack r =>
    if r ∈ s.F then
      match ack s.sb r.1 r.2 with
      | some sb => some { s with sb := sb, F := s.F.erase r, ackd := r :: s.ackd }
      | none => none
    else none
  | .lose r =>
    if r ∈ s.F then
      match retransmit s.sb r.1 r.2 with
      | some sb => some { s with sb := sb, F := s.F.erase r }
      | none => none
    else none
  | .zeroRtt =>
    if s.sb.acks = [] ∧ s.sb.retransmits = [] then
      match retransmitAllFor0rtt s.sb with
      | some sb => some { s with sb := sb, F := [] }
      | none => none
    else none

def run : Sys → List Op → Option Sys
  | s, [] => some s
  | s, op :: ops => match step s op with
    | some s' => run s' ops
    | none => none

/-- first offset still buffered: `offset - unacked_len` -/
def base (sb : SendBuffer) : Nat := sb.offset - sb.unackedLen

def disj (r q : Nat × Nat) : Prop := ∀ x, ¬ (r.1 ≤ x ∧ x < r.2 ∧ q.1 ≤ x ∧ x < q.2)

theorem disj_symm {r q : Nat × Nat} (h : disj r q) : disj q r := by
  intro x hx; exact h x ⟨hx.2.2.1, hx.2.2.2, hx.1, hx.2.1⟩

structure Inv (s : Sys) : Prop where
  wlen : s.w.length = s.sb.offset
  off_lt : s.sb.offset < U64
  ul_le : s.sb.unackedLen ≤ s.sb.offset
  segs : s.sb.segs.flatten = s.w.drop (base s.sb)
  base_le : base s.sb ≤ s.sb.unsent
  unsent_le : s.sb.unsent ≤ s.sb.offset
  wfA : WF s.sb.acks
  wfQ : WF s.sb.retransmits
  boundA : ∀ p ∈ s.sb.acks, base s.sb < p.1 ∧ p.2 ≤ s.sb.unsent
  boundQ : ∀ p ∈ s.sb.retransmits, base s.sb ≤ p.1 ∧ p.2 ≤ s.sb.unsent
  boundF : ∀ r ∈ s.F, r.1 ≤ r.2 ∧ r.2 ≤ s.sb.unsent ∧ (r.1 < r.2 → base s.sb ≤ r.1)
  dAQ : ∀ x, mem x s.sb.acks → ¬ mem x s.sb.retransmits
  dAF : ∀ x, mem x s.sb.acks → ¬ mem x s.F
  dQF : ∀ x, mem x s.sb.retransmits → ¬ mem x s.F
  dFF : s.F.Pairwise disj
  cover : ∀ x, base s.sb ≤ x → x < s.sb.unsent →
    mem x s.sb.acks ∨ mem x s.sb.retransmits ∨ mem x s.F
  ackedIff : ∀ x, (x < base s.sb ∨ mem x s.sb.acks) ↔ mem x s.ackd

/-! ### in-flight frames -/

theorem F_erase (F : List (Nat × Nat)) (r : Nat × Nat) (hr : r ∈ F) (hd : F.Pairwise disj) :
    (F.erase r).Pairwise disj ∧ (∀ q ∈ F.erase r, disj r q) ∧
    (∀ x, mem x F ↔ (r.1 ≤ x ∧ x < r.2) ∨ mem x (F.erase r)) := by
  have hp := List.perm_cons_erase hr
  have hd' : (r :: F.erase r).Pairwise disj := (List.Perm.pairwise_iff (fun h => disj_symm h) hp).mp hd
  have h2 := List.pairwise_cons.mp hd'
  refine ⟨h2.2, h2.1, ?_⟩
  intro x
  rw [← mem_cons]
  unfold mem
  constructor
  · rintro ⟨p, hp1, hp2⟩; exact ⟨p, (hp.mem_iff).mp hp1, hp2⟩
  · rintro ⟨p, hp1, hp2⟩; exact ⟨p, (hp.mem_iff).mpr hp1, hp2⟩

/-! ### segments -/

theorem advance_spec (segs : List Bytes) : ∀ (n : Nat), n ≤ segs.flatten.length →
    ∃ segs', advance segs n = some segs' ∧ segs'.flatten = segs.flatten.drop n := by
  induction segs with
  | nil =>
    intro n hn
    simp only [List.flatten_nil, List.length_nil] at hn
    have : n = 0 := by omega
    subst this
    exact ⟨[], by simp [advance], by simp⟩
  | cons f t ih =>
    intro n hn
    simp only [List.flatten_cons, List.length_append] at hn
    unfold advance
    by_cases h0 : n = 0
    · subst h0; exact ⟨f :: t, by simp, by simp⟩
    · rw [if_neg h0]
      by_cases hf : f.length ≤ n
      · rw [if_pos hf]
        obtain ⟨segs', h1, h2⟩ := ih (n - f.length) (by omega)
        refine ⟨segs', h1, ?_⟩
        rw [h2, List.flatten_cons, List.drop_append]
        rw [List.drop_eq_nil_of_le hf, List.nil_append]
      · rw [if_neg hf]
        refine ⟨f.drop n :: t, rfl, ?_⟩
        rw [List.flatten_cons, List.flatten_cons, List.drop_append_of_le_length (by omega)]

/-- `get` returns a non-empty prefix of the requested bytes when the range starts inside the buffer -/
theorem getLoop_spec (segs : List Bytes) : ∀ (so a b : Nat), so ≤ a → a < so + segs.flatten.length → a < b →
    ∃ k, 0 < k ∧ k ≤ b - a ∧ getLoop segs so a b = some ((segs.flatten.drop (a - so)).take k) := by
  induction segs with
  | nil => intro so a b h1 h2 _; simp at h2; omega
  | cons seg t ih =>
    intro so a b h1 h2 h3
    simp only [List.flatten_cons, List.length_append] at h2
    unfold getLoop
    by_cases hin : so ≤ a ∧ a < so + seg.length
    · rw [if_pos hin]
      have e1 : ¬ b < so := by omega
      have e2 : ¬ a - so > Nat.min (b - so) seg.length := by
        simp only [Nat.min_def]; split <;> omega
      rw [if_neg e1, if_neg e2]
      refine ⟨Nat.min (b - so) seg.length - (a - so), ?_, ?_, ?_⟩
      · simp only [Nat.min_def]; split <;> omega
      · simp only [Nat.min_def]; split <;> omega
      · rw [List.flatten_cons, List.drop_append_of_le_length (by omega)]
        rw [List.take_append_of_le_length]
        rw [List.length_drop]
        simp only [Nat.min_def]; split <;> omega
    · rw [if_neg hin]
      have hge : so + seg.length ≤ a := by omega
      obtain ⟨k, k1, k2, k3⟩ := ih (so + seg.length) a b hge (by omega) h3
      refine ⟨k, k1, k2, ?_⟩
      have hd : List.drop (a - so) seg = [] := List.drop_eq_nil_of_le (by omega)
      have : a - so - seg.length = a - (so + seg.length) := by omega
      rw [k3, List.flatten_cons, List.drop_append, hd, List.nil_append, this]

/-! ### the `while self.acks.min() == Some(base)` loop -/

theorem ackLoop_spec (acks : RS) (segs : List Bytes) (ul off : Nat) (w : Bytes)
    (hw : WF acks) (hul : ul ≤ off) (hwl : w.length = off)
    (hsegs : segs.flatten = w.drop (off - ul))
    (hb : ∀ p ∈ acks, off - ul ≤ p.1 ∧ p.2 ≤ off) :
    ∃ acks2 segs2 ul2, ackLoop acks segs ul off = some (acks2, segs2, ul2) ∧
      ul2 ≤ ul ∧ segs2.flatten = w.drop (off - ul2) ∧ WF acks2 ∧
      (∀ p ∈ acks2, off - ul2 < p.1 ∧ p ∈ acks) ∧
      (∀ x, (x < off - ul2 ∨ mem x acks2) ↔ (x < off - ul ∨ mem x acks)) ∧
      (off - ul2 = off - ul ∨ ∃ p ∈ acks, off - ul2 = p.2) := by
  cases acks with
  | nil =>
    exact ⟨[], segs, ul, rfl, Nat.le_refl _, hsegs, WF_nil, by simp, fun x => Iff.rfl, Or.inl rfl⟩
  | cons q t =>
    obtain ⟨a, b⟩ := q
    have hab : a < b := hw.head_lt
    have hsep := hw.head_sep
    have hq := hb (a, b) List.mem_cons_self
    simp only at hq
    unfold ackLoop
    have e0 : ¬ ul > off := by omega
    rw [if_neg e0]
    by_cases ha : a = off - ul
    · rw [if_pos ha]
      have e1 : ¬ b < a := by omega
      have e2 : ¬ b - a > ul := by omega
      rw [if_neg e1, if_neg e2]
      have hlen : segs.flatten.length = ul := by rw [hsegs, List.length_drop]; omega
      obtain ⟨segs', h1, h2⟩ := advance_spec segs (b - a) (by omega)
      rw [h1]
      simp only
      have hb' : off - (ul - (b - a)) = b := by omega
      have hseg' : segs'.flatten = w.drop b := by
        rw [h2, hsegs, List.drop_drop]; congr 1; omega
      -- the remaining ranges start strictly after `b`
      have hstop : ackLoop t segs' (ul - (b - a)) off = some (t, segs', ul - (b - a)) := by
        cases t with
        | nil => rfl
        | cons q2 t2 =>
          obtain ⟨c, d⟩ := q2
          have hc : b < c := hsep (c, d) List.mem_cons_self
          unfold ackLoop
          have f0 : ¬ ul - (b - a) > off := by omega
          have f1 : ¬ c = off - (ul - (b - a)) := by omega
          rw [if_neg f0, if_neg f1]
      refine ⟨t, segs', ul - (b - a), hstop, by omega, by rw [hb']; exact hseg', hw.tail, ?_, ?_, ?_⟩
      · intro p hp
        have := hsep p hp
        simp only at this
        exact ⟨by omega, List.mem_cons_of_mem _ hp⟩
      · intro x
        rw [mem_cons, hb']
        simp only
        constructor
        · rintro (h | h)
          · by_cases hx : x < off - ul
            · exact Or.inl hx
            · exact Or.inr (Or.inl (by omega))
          · exact Or.inr (Or.inr h)
        · rintro (h | h | h)
          · exact Or.inl (by omega)
          · exact Or.inl (by omega)
          · exact Or.inr h
      · exact Or.inr ⟨(a, b), List.mem_cons_self, by simp only; omega⟩
    · rw [if_neg ha]
      refine ⟨(a, b) :: t, segs, ul, rfl, Nat.le_refl _, hsegs, hw, ?_, fun x => Iff.rfl, Or.inl rfl⟩
      intro p hp
      refine ⟨?_, hp⟩
      rcases List.mem_cons.mp hp with e | e
      · subst e; simp only; omega
      · have := hsep p e; simp only at this; omega

/-! ### every enabled call preserves the invariant -/

theorem inv_init : Inv Sys.init := by
  refine ⟨rfl, by decide, Nat.le_refl _, rfl, Nat.le_refl _, Nat.le_refl _, WF_nil, WF_nil, ?_, ?_, ?_, ?_, ?_, ?_,
    List.Pairwise.nil, ?_, ?_⟩
  · intro p hp; simp [Sys.init] at hp
  · intro p hp; simp [Sys.init] at hp
  · intro p hp; simp [Sys.init] at hp
  · intro x hx; exact absurd hx (mem_nil x)
  · intro x hx; exact absurd hx (mem_nil x)
  · intro x hx; exact absurd hx (mem_nil x)
  · intro x h1 h2; simp [Sys.init] at h2
  · intro x
    constructor
    · rintro (h | h)
      · simp [Sys.init, base] at h
      · exact absurd h (mem_nil x)
    · intro h; exact absurd h (mem_nil x)

theorem write_fields (s sb : SendBuffer) (d : Bytes) (h : write s d = some sb) :
    sb.segs = s.segs ++ [d] ∧ sb.unackedLen = s.unackedLen + d.length ∧
    sb.offset = s.offset + d.length ∧ sb.unsent = s.unsent ∧ sb.acks = s.acks ∧
    sb.retransmits = s.retransmits ∧ s.offset + d.length < U64 := by
  unfold write at h
  split at h
  · cases h
  · cases h
    refine ⟨rfl, rfl, rfl, rfl, rfl, rfl, by omega⟩

theorem inv_write (s : Sys) (h : Inv s) (d : Bytes) (sb : SendBuffer) (hw : write s.sb d = some sb) :
    Inv { s with sb := sb, w := s.w ++ d } := by
  obtain ⟨wlen, off_lt, ul_le, segs, base_le, unsent_le, wfA, wfQ, boundA, boundQ, boundF, dAQ, dAF, dQF,
    dFF, cover, ackedIff⟩ := h
  obtain ⟨e1, e2, e3, e4, e5, e6, e7⟩ := write_fields s.sb sb d hw
  have hb : base sb = base s.sb := by simp only [base, e2, e3]; omega
  refine ⟨?_, ?_, ?_, ?_, ?_, ?_, ?_, ?_, ?_, ?_, ?_, ?_, ?_, ?_, dFF, ?_, ?_⟩
  · simp only [List.length_append, e3]; omega
  · simp only [e3]; exact e7
  · simp only [e2, e3]; omega
  · simp only [hb, e1, List.flatten_append, List.flatten_cons, List.flatten_nil, List.append_nil]
    rw [segs, List.drop_append_of_le_length]
    simp only [base]; omega
  · simp only [hb, e4]; exact base_le
  · simp only [e3, e4]; omega
  · simp only [e5]; exact wfA
  · simp only [e6]; exact wfQ
  · simp only [hb, e4, e5]; exact boundA
  · simp only [hb, e4, e6]; exact boundQ
  · simp only [hb, e4]; exact boundF
  · simp only [e5, e6]; exact dAQ
  · simp only [e5]; exact dAF
  · simp only [e6]; exact dQF
  · simp only [hb, e4, e5, e6]; exact cover
  · simp only [hb, e5]; exact ackedIff

theorem mem_F_cons (x : Nat) (r : Nat × Nat) (F : List (Nat × Nat)) :
    mem x (r :: F) ↔ (r.1 ≤ x ∧ x < r.2) ∨ mem x F := mem_cons x r F

/-- `poll_transmit`, retransmission branch: the least lost range `a..b` is (partly) sent again -/
theorem inv_poll_retx (s : Sys) (h : Inv s) (a b e : Nat) (t : RS)
    (hQ : s.sb.retransmits = (a, b) :: t) (hae : a ≤ e) (heb : e ≤ b) :
    Inv ⟨{ s.sb with retransmits := if e ≠ b then (RangeSet.insert t e b).1 else t },
         (a, e) :: s.F, s.w, s.ackd⟩ := by
  obtain ⟨wlen, off_lt, ul_le, segs, base_le, unsent_le, wfA, wfQ, boundA, boundQ, boundF, dAQ, dAF, dQF,
    dFF, cover, ackedIff⟩ := h
  rw [hQ] at wfQ boundQ dAQ dQF cover
  have hab : a < b := wfQ.head_lt
  have hsep := wfQ.head_sep
  have wft : WF t := wfQ.tail
  have hbq := boundQ (a, b) List.mem_cons_self
  simp only at hbq
  have hbt : ∀ p ∈ t, base s.sb ≤ p.1 ∧ p.2 ≤ s.sb.unsent := fun p hp => boundQ p (List.mem_cons_of_mem _ hp)
  -- the new queue
  have m1 : ∀ x, mem x (if e ≠ b then (RangeSet.insert t e b).1 else t) ↔ mem x t ∨ (e ≤ x ∧ x < b) := by
    intro x
    by_cases heq : e ≠ b
    · rw [if_pos heq]; exact insert_mem t e b x wft
    · rw [if_neg heq]
      constructor
      · exact Or.inl
      · rintro (h | h)
        · exact h
        · omega
  have m2 : ∀ x, mem x ((a, b) :: t) ↔ (a ≤ x ∧ x < b) ∨ mem x t := fun x => mem_cons x (a, b) t
  have mt : ∀ x, mem x t → b < x := by
    rintro x ⟨p, hp, h1, h2⟩
    have := hsep p hp
    simp only at this; omega
  refine ⟨wlen, off_lt, ul_le, segs, base_le, unsent_le, wfA, ?_, boundA, ?_, ?_, ?_, ?_, ?_, ?_, ?_, ackedIff⟩
  · show WF (if e ≠ b then (RangeSet.insert t e b).1 else t)
    by_cases heq : e ≠ b
    · rw [if_pos heq]; exact insert_WF t e b wft
    · rw [if_neg heq]; exact wft
  · show ∀ p ∈ (if e ≠ b then (RangeSet.insert t e b).1 else t), base s.sb ≤ p.1 ∧ p.2 ≤ s.sb.unsent
    by_cases heq : e ≠ b
    · rw [if_pos heq]; exact insert_bounds t e b _ _ wft hbt (by omega) (by omega)
    · rw [if_neg heq]; exact hbt
  · intro r hr
    rcases List.mem_cons.mp hr with e1 | e1
    · subst e1
      show a ≤ e ∧ e ≤ s.sb.unsent ∧ (a < e → base s.sb ≤ a)
      omega
    · exact boundF r e1
  · intro x hx hq
    rcases (m1 x).mp hq with h1 | h1
    · exact dAQ x hx ((m2 x).mpr (Or.inr h1))
    · exact dAQ x hx ((m2 x).mpr (Or.inl (by omega)))
  · intro x hx hf
    rcases (mem_F_cons x (a, e) s.F).mp hf with h1 | h1
    · simp only at h1; exact dAQ x hx ((m2 x).mpr (Or.inl (by omega)))
    · exact dAF x hx h1
  · intro x hq hf
    have hq' : mem x ((a, b) :: t) := by
      rcases (m1 x).mp hq with h1 | h1
      · exact (m2 x).mpr (Or.inr h1)
      · exact (m2 x).mpr (Or.inl (by omega))
    rcases (mem_F_cons x (a, e) s.F).mp hf with h1 | h1
    · simp only at h1
      rcases (m1 x).mp hq with h2 | h2
      · have := mt x h2; omega
      · omega
    · exact dQF x hq' h1
  · refine List.pairwise_cons.mpr ⟨?_, dFF⟩
    intro q hq x hx
    simp only at hx
    exact dQF x ((m2 x).mpr (Or.inl (by omega))) ⟨q, hq, hx.2.2.1, hx.2.2.2⟩
  · intro x hx1 hx2
    rcases cover x hx1 hx2 with h1 | h1 | h1
    · exact Or.inl h1
    · rcases (m2 x).mp h1 with h2 | h2
      · by_cases hxe : x < e
        · exact Or.inr (Or.inr ((mem_F_cons x (a, e) s.F).mpr (Or.inl (by simp only; omega))))
        · exact Or.inr (Or.inl ((m1 x).mpr (Or.inr (by omega))))
      · exact Or.inr (Or.inl ((m1 x).mpr (Or.inl h2)))
    · exact Or.inr (Or.inr ((mem_F_cons x (a, e) s.F).mpr (Or.inr h1)))

/-- `poll_transmit`, fresh data -/
theorem inv_poll_fresh (s : Sys) (h : Inv s) (e : Nat)
    (hQ : s.sb.retransmits = []) (hue : s.sb.unsent ≤ e) (heo : e ≤ s.sb.offset) :
    Inv ⟨{ s.sb with unsent := e }, (s.sb.unsent, e) :: s.F, s.w, s.ackd⟩ := by
  obtain ⟨wlen, off_lt, ul_le, segs, base_le, unsent_le, wfA, wfQ, boundA, boundQ, boundF, dAQ, dAF, dQF,
    dFF, cover, ackedIff⟩ := h
  have hb : base { s.sb with unsent := e } = base s.sb := rfl
  refine ⟨wlen, off_lt, ul_le, segs, ?_, heo, wfA, wfQ, ?_, ?_, ?_, dAQ, ?_, ?_, ?_, ?_, ackedIff⟩
  · show base s.sb ≤ e; omega
  · intro p hp; have := boundA p hp; exact ⟨this.1, by show p.2 ≤ e; omega⟩
  · intro p hp; have := boundQ p hp; exact ⟨this.1, by show p.2 ≤ e; omega⟩
  · intro r hr
    rcases List.mem_cons.mp hr with e1 | e1
    · subst e1; exact ⟨hue, Nat.le_refl _, fun _ => base_le⟩
    · have := boundF r e1; exact ⟨this.1, by show r.2 ≤ e; omega, this.2.2⟩
  · intro x hx hf
    rcases (mem_F_cons x (s.sb.unsent, e) s.F).mp hf with h1 | h1
    · obtain ⟨p, hp, hp1, hp2⟩ := hx
      have := boundA p hp
      simp only at h1; omega
    · exact dAF x hx h1
  · intro x hx hf
    rw [show ({ s.sb with unsent := e } : SendBuffer).retransmits = s.sb.retransmits from rfl, hQ] at hx
    exact absurd hx (mem_nil x)
  · refine List.pairwise_cons.mpr ⟨?_, dFF⟩
    intro q hq x hx
    have := boundF q hq
    simp only at hx; omega
  · intro x hx1 hx2
    by_cases hxu : x < s.sb.unsent
    · rcases cover x hx1 hxu with h1 | h1 | h1
      · exact Or.inl h1
      · exact Or.inr (Or.inl h1)
      · exact Or.inr (Or.inr ((mem_F_cons x _ s.F).mpr (Or.inr h1)))
    · refine Or.inr (Or.inr ((mem_F_cons x _ s.F).mpr (Or.inl ?_)))
      simp only
      exact ⟨by omega, hx2⟩

/-- `ack` of a frame in flight -/
theorem inv_ack (s : Sys) (h : Inv s) (r : Nat × Nat) (hr : r ∈ s.F) (sb : SendBuffer)
    (hw : ack s.sb r.1 r.2 = some sb) :
    Inv ⟨sb, s.F.erase r, s.w, r :: s.ackd⟩ := by
  obtain ⟨wlen, off_lt, ul_le, segs, base_le, unsent_le, wfA, wfQ, boundA, boundQ, boundF, dAQ, dAF, dQF,
    dFF, cover, ackedIff⟩ := h
  obtain ⟨a, b⟩ := r
  have hbr := boundF (a, b) hr
  simp only at hbr
  obtain ⟨dFF', hdr, mF⟩ := F_erase s.F (a, b) hr dFF
  simp only at mF
  have hba : ∀ p ∈ s.sb.acks, base s.sb ≤ p.1 ∧ p.2 ≤ s.sb.unsent :=
    fun p hp => ⟨Nat.le_of_lt (boundA p hp).1, (boundA p hp).2⟩
  -- the set after `self.acks.insert(range)`
  have hacks1 : ∃ acks1, (RangeSet.insert s.sb.acks (max (base s.sb) a) (max (base s.sb) b)).1 = acks1 ∧
      WF acks1 ∧ (∀ p ∈ acks1, base s.sb ≤ p.1 ∧ p.2 ≤ s.sb.unsent) ∧
      (∀ x, mem x acks1 ↔ mem x s.sb.acks ∨ (a ≤ x ∧ x < b)) := by
    refine ⟨_, rfl, insert_WF _ _ _ wfA, ?_, ?_⟩
    · exact insert_bounds _ _ _ _ _ wfA hba (Nat.le_max_left _ _) (by simp only [Nat.max_def]; split <;> omega)
    · intro x
      rw [insert_mem _ _ _ x wfA]
      simp only [Nat.max_def]
      constructor
      · rintro (h1 | h1)
        · exact Or.inl h1
        · right; split at h1 <;> split at h1 <;> omega
      · rintro (h1 | h1)
        · exact Or.inl h1
        · right; split <;> split <;> omega
  obtain ⟨acks1, hA1, wf1, b1, m1⟩ := hacks1
  obtain ⟨acks2, segs2, ul2, hloop, hul2, hsegs2, wf2, b2, miff, hbase2⟩ :=
    ackLoop_spec acks1 s.sb.segs s.sb.unackedLen s.sb.offset s.w wf1 ul_le wlen segs
      (fun p hp => ⟨(b1 p hp).1, by have := (b1 p hp).2; omega⟩)
  have hsb : sb = { s.sb with acks := acks2, segs := segs2, unackedLen := ul2 } := by
    unfold ack at hw
    rw [if_neg (by omega)] at hw
    simp only at hw
    change (match ackLoop (RangeSet.insert s.sb.acks (max (base s.sb) a) (max (base s.sb) b)).1
      s.sb.segs s.sb.unackedLen s.sb.offset with
      | none => none
      | some (acks2, segs2, ul2) => some { s.sb with acks := acks2, segs := segs2, unackedLen := ul2 }) = some sb at hw
    rw [hA1, hloop] at hw
    simp only at hw
    cases hw
    rfl
  subst hsb
  have hbase : base s.sb = s.sb.offset - s.sb.unackedLen := rfl
  have hb2 : ∀ x, x < s.sb.offset - ul2 → x < base s.sb ∨ mem x acks1 := by
    intro x hx
    have := (miff x).mp (Or.inl hx)
    rw [hbase]; exact this
  have hge : base s.sb ≤ s.sb.offset - ul2 := by rw [hbase]; omega
  have hle : s.sb.offset - ul2 ≤ s.sb.unsent := by
    rcases hbase2 with e | ⟨p, hp, e⟩
    · rw [e, ← hbase]; exact base_le
    · rw [e]; exact (b1 p hp).2
  -- an offset that is queued or in flight elsewhere is not below the new base
  have notlow : ∀ x, base s.sb ≤ x → ¬ mem x s.sb.acks → ¬ (a ≤ x ∧ x < b) → s.sb.offset - ul2 ≤ x := by
    intro x h1 h2 h3
    by_cases hx : x < s.sb.offset - ul2
    · rcases hb2 x hx with h4 | h4
      · omega
      · rcases (m1 x).mp h4 with h5 | h5
        · exact absurd h5 h2
        · exact absurd h5 h3
    · omega
  have acks2_sub : ∀ x, mem x acks2 → mem x s.sb.acks ∨ (a ≤ x ∧ x < b) := by
    intro x hx
    have h1 := (miff x).mp (Or.inr hx)
    obtain ⟨p, hp, hp1, hp2⟩ := hx
    have := (b2 p hp).1
    rcases h1 with h1 | h1
    · omega
    · exact (m1 x).mp h1
  refine ⟨wlen, off_lt, ?_, ?_, ?_, unsent_le, wf2, wfQ, ?_, ?_, ?_, ?_, ?_, ?_, dFF', ?_, ?_⟩
  · show ul2 ≤ s.sb.offset; omega
  · exact hsegs2
  · exact hle
  · intro p hp
    exact ⟨(b2 p hp).1, (b1 p (b2 p hp).2).2⟩
  · intro p hp
    refine ⟨?_, (boundQ p hp).2⟩
    have hlt := wfQ.2 p hp
    have hm : mem p.1 s.sb.retransmits := ⟨p, hp, Nat.le_refl _, hlt⟩
    apply notlow p.1 (boundQ p hp).1
    · intro hc; exact dAQ _ hc hm
    · intro hc; exact dQF _ hm ⟨(a, b), hr, hc.1, hc.2⟩
  · intro q hq
    have hqF : q ∈ s.F := List.mem_of_mem_erase hq
    have hbq := boundF q hqF
    refine ⟨hbq.1, hbq.2.1, ?_⟩
    intro hlt
    have hm : mem q.1 s.F := ⟨q, hqF, Nat.le_refl _, hlt⟩
    apply notlow q.1 (hbq.2.2 hlt)
    · intro hc; exact dAF _ hc hm
    · intro hc; exact hdr q hq q.1 ⟨hc.1, hc.2, Nat.le_refl _, hlt⟩
  · intro x hx hq
    rcases acks2_sub x hx with h1 | h1
    · exact dAQ x h1 hq
    · exact dQF x hq ⟨(a, b), hr, h1.1, h1.2⟩
  · intro x hx hf
    rcases acks2_sub x hx with h1 | h1
    · exact dAF x h1 ((mF x).mpr (Or.inr hf))
    · obtain ⟨q, hq, hq1, hq2⟩ := hf
      exact hdr q hq x ⟨h1.1, h1.2, hq1, hq2⟩
  · intro x hq hf
    exact dQF x hq ((mF x).mpr (Or.inr hf))
  · intro x hx1 hx2
    have toA2 : mem x acks1 → mem x acks2 := by
      intro h1
      rcases (miff x).mpr (Or.inr h1) with h2 | h2
      · have : s.sb.offset - ul2 ≤ x := hx1
        omega
      · exact h2
    rcases cover x (Nat.le_trans hge hx1) hx2 with h1 | h1 | h1
    · exact Or.inl (toA2 ((m1 x).mpr (Or.inl h1)))
    · exact Or.inr (Or.inl h1)
    · rcases (mF x).mp h1 with h2 | h2
      · exact Or.inl (toA2 ((m1 x).mpr (Or.inr h2)))
      · exact Or.inr (Or.inr h2)
  · intro x
    show (x < s.sb.offset - ul2 ∨ mem x acks2) ↔ mem x ((a, b) :: s.ackd)
    rw [miff x, mem_cons, ← ackedIff x, ← hbase]
    constructor
    · rintro (h1 | h1)
      · exact Or.inr (Or.inl h1)
      · rcases (m1 x).mp h1 with h2 | h2
        · exact Or.inr (Or.inr h2)
        · exact Or.inl h2
    · rintro (h1 | h1 | h1)
      · exact Or.inr ((m1 x).mpr (Or.inr h1))
      · exact Or.inl h1
      · exact Or.inr ((m1 x).mpr (Or.inl h1))

/-- `retransmit` of a frame in flight (declared lost) -/
theorem inv_lose (s : Sys) (h : Inv s) (r : Nat × Nat) (hr : r ∈ s.F) (sb : SendBuffer)
    (hw : retransmit s.sb r.1 r.2 = some sb) :
    Inv ⟨sb, s.F.erase r, s.w, s.ackd⟩ := by
  obtain ⟨wlen, off_lt, ul_le, segs, base_le, unsent_le, wfA, wfQ, boundA, boundQ, boundF, dAQ, dAF, dQF,
    dFF, cover, ackedIff⟩ := h
  obtain ⟨a, b⟩ := r
  have hbr := boundF (a, b) hr
  simp only at hbr
  obtain ⟨dFF', hdr, mF⟩ := F_erase s.F (a, b) hr dFF
  simp only at mF
  have hsb : sb = { s.sb with retransmits := (RangeSet.insert s.sb.retransmits a b).1 } := by
    unfold retransmit at hw
    rw [if_neg (by simp only; omega)] at hw
    cases hw; rfl
  subst hsb
  have m1 : ∀ x, mem x (RangeSet.insert s.sb.retransmits a b).1 ↔ mem x s.sb.retransmits ∨ (a ≤ x ∧ x < b) :=
    fun x => insert_mem _ _ _ x wfQ
  refine ⟨wlen, off_lt, ul_le, segs, base_le, unsent_le, wfA, insert_WF _ _ _ wfQ, boundA, ?_, ?_, ?_, ?_, ?_,
    dFF', ?_, ackedIff⟩
  · show ∀ p ∈ (RangeSet.insert s.sb.retransmits a b).1, base s.sb ≤ p.1 ∧ p.2 ≤ s.sb.unsent
    by_cases hab : a < b
    · exact insert_bounds _ _ _ _ _ wfQ boundQ (hbr.2.2 hab) hbr.2.1
    · rw [insert_empty _ _ _ (by omega)]; exact boundQ
  · intro q hq
    exact boundF q (List.mem_of_mem_erase hq)
  · intro x hx hq
    rcases (m1 x).mp hq with h1 | h1
    · exact dAQ x hx h1
    · exact dAF x hx ⟨(a, b), hr, h1.1, h1.2⟩
  · intro x hx hf
    exact dAF x hx ((mF x).mpr (Or.inr hf))
  · intro x hq hf
    rcases (m1 x).mp hq with h1 | h1
    · exact dQF x h1 ((mF x).mpr (Or.inr hf))
    · obtain ⟨q, hq, hq1, hq2⟩ := hf
      exact hdr q hq x ⟨h1.1, h1.2, hq1, hq2⟩
  · intro x hx1 hx2
    rcases cover x hx1 hx2 with h1 | h1 | h1
    · exact Or.inl h1
    · exact Or.inr (Or.inl ((m1 x).mpr (Or.inl h1)))
    · rcases (mF x).mp h1 with h2 | h2
      · exact Or.inr (Or.inl ((m1 x).mpr (Or.inr h2)))
      · exact Or.inr (Or.inr h2)

/-- `retransmit_all_for_0rtt` when nothing was acknowledged or declared lost yet; the frames in
    flight are forgotten (the 0-RTT packets are discarded by the peer) -/
theorem inv_zeroRtt (s : Sys) (h : Inv s) (hA : s.sb.acks = []) (hQ : s.sb.retransmits = [])
    (sb : SendBuffer) (hw : retransmitAllFor0rtt s.sb = some sb) :
    Inv ⟨sb, [], s.w, s.ackd⟩ := by
  obtain ⟨wlen, off_lt, ul_le, segs, base_le, unsent_le, wfA, wfQ, boundA, boundQ, boundF, dAQ, dAF, dQF,
    dFF, cover, ackedIff⟩ := h
  unfold retransmitAllFor0rtt at hw
  split at hw
  · cases hw
  · rename_i heq
    cases hw
    have hb0 : base s.sb = 0 := by simp only [base]; omega
    refine ⟨wlen, off_lt, ul_le, segs, ?_, Nat.zero_le _, wfA, wfQ, ?_, ?_, ?_, dAQ, ?_, ?_, List.Pairwise.nil,
      ?_, ackedIff⟩
    · show base s.sb ≤ 0; omega
    · intro p hp; rw [hA] at hp; simp at hp
    · intro p hp; rw [hQ] at hp; simp at hp
    · intro r hr; simp at hr
    · intro x _ hf; exact absurd hf (mem_nil x)
    · intro x _ hf; exact absurd hf (mem_nil x)
    · intro x _ hx2; exact absurd hx2 (Nat.not_lt_zero x)

theorem step_inv (s s' : Sys) (op : Op) (h : Inv s) (hs : step s op = some s') : Inv s' := by
  cases op with
  | write d =>
    simp only [step] at hs
    split at hs
    · rename_i sb hw; cases hs; exact inv_write s h d sb hw
    · cases hs
  | poll n =>
    simp only [step] at hs
    split at hs
    · rename_i sb r enc hp
      cases hs
      unfold pollTransmit at hp
      split at hp
      · cases hp
      · split at hp
        · rename_i a b t hpop
          have hQ : s.sb.retransmits = (a, b) :: t := by
            cases hq : s.sb.retransmits with
            | nil => rw [hq] at hpop; simp [popMin] at hpop
            | cons q t' => rw [hq] at hpop; simp only [popMin, Option.some.injEq, Prod.mk.injEq] at hpop; rw [hpop.1, hpop.2]
          split at hp
          · cases hp
          · rename_i m enc' hbud
            cases hp
            have hab : a < b := by have := h.wfQ; rw [hQ] at this; exact this.head_lt
            have hoff : b ≤ s.sb.offset := by
              have := h.boundQ (a, b) (by rw [hQ]; exact List.mem_cons_self)
              have := h.unsent_le
              simp only at *; omega
            have hlt := h.off_lt
            have hae : a ≤ Nat.min b (satAdd m a) := by
              simp only [satAdd, Nat.min_def, U64] at *; split <;> split <;> omega
            exact inv_poll_retx s h a b _ t hQ hae (Nat.min_le_left _ _)
        · rename_i hpop
          have hQ : s.sb.retransmits = [] := by
            cases hq : s.sb.retransmits with
            | nil => rfl
            | cons q t' => rw [hq] at hpop; simp [popMin] at hpop
          split at hp
          · cases hp
          · rename_i m enc' hbud
            cases hp
            have hlt := h.off_lt
            have hul := h.unsent_le
            have hue : s.sb.unsent ≤ Nat.min s.sb.offset (satAdd m s.sb.unsent) := by
              simp only [satAdd, Nat.min_def, U64] at *; split <;> split <;> omega
            exact inv_poll_fresh s h _ hQ hue (Nat.min_le_left _ _)
    · cases hs
  | ack r =>
    simp only [step] at hs
    split at hs
    · rename_i hr
      split at hs
      · rename_i sb hw; cases hs; exact inv_ack s h r hr sb hw
      · cases hs
    · cases hs
  | lose r =>
    simp only [step] at hs
    split at hs
    · rename_i hr
      split at hs
      · rename_i sb hw; cases hs; exact inv_lose s h r hr sb hw
      · cases hs
    · cases hs
  | zeroRtt =>
    simp only [step] at hs
    split at hs
    · rename_i hc
      split at hs
      · rename_i sb hw; cases hs; exact inv_zeroRtt s h hc.1 hc.2 sb hw
      · cases hs
    · cases hs

theorem run_inv (ops : List Op) : ∀ (s s' : Sys), Inv s → run s ops = some s' → Inv s' := by
  induction ops with
  | nil => intro s s' h hr; simp only [run] at hr; cases hr; exact h
  | cons op ops ih =>
    intro s s' h hr
    simp only [run] at hr
    split at hr
    · rename_i s1 hs; exact ih s1 s' (step_inv s s1 op h hs) hr
    · cases hr

/-! ### consequences -/

/-- acknowledged: below the buffered part or recorded in `acks` -/
def acked (sb : SendBuffer) (x : Nat) : Prop := x < base sb ∨ mem x sb.acks

/-- the four classes of DESIGN 5.1 partition `[0, offset)` -/
theorem partition (s : Sys) (h : Inv s) (x : Nat) (hx : x < s.sb.offset) :
    (acked s.sb x ∨ mem x s.sb.retransmits ∨ mem x s.F ∨ s.sb.unsent ≤ x) ∧
    ¬ (acked s.sb x ∧ mem x s.sb.retransmits) ∧ ¬ (acked s.sb x ∧ mem x s.F) ∧
    ¬ (acked s.sb x ∧ s.sb.unsent ≤ x) ∧ ¬ (mem x s.sb.retransmits ∧ mem x s.F) ∧
    ¬ (mem x s.sb.retransmits ∧ s.sb.unsent ≤ x) ∧ ¬ (mem x s.F ∧ s.sb.unsent ≤ x) := by
  have hbl := h.base_le
  refine ⟨?_, ?_, ?_, ?_, ?_, ?_, ?_⟩
  · by_cases h1 : x < base s.sb
    · exact Or.inl (Or.inl h1)
    · by_cases h2 : s.sb.unsent ≤ x
      · exact Or.inr (Or.inr (Or.inr h2))
      · rcases h.cover x (by omega) (by omega) with h3 | h3 | h3
        · exact Or.inl (Or.inr h3)
        · exact Or.inr (Or.inl h3)
        · exact Or.inr (Or.inr (Or.inl h3))
  · rintro ⟨h1 | h1, h2⟩
    · obtain ⟨p, hp, hp1, hp2⟩ := h2
      have := h.boundQ p hp; omega
    · exact h.dAQ x h1 h2
  · rintro ⟨h1 | h1, h2⟩
    · obtain ⟨p, hp, hp1, hp2⟩ := h2
      have := h.boundF p hp; omega
    · exact h.dAF x h1 h2
  · rintro ⟨h1 | h1, h2⟩
    · omega
    · obtain ⟨p, hp, hp1, hp2⟩ := h1
      have := h.boundA p hp; omega
  · rintro ⟨h1, h2⟩; exact h.dQF x h1 h2
  · rintro ⟨h1, h2⟩
    obtain ⟨p, hp, hp1, hp2⟩ := h1
    have := h.boundQ p hp; omega
  · rintro ⟨h1, h2⟩
    obtain ⟨p, hp, hp1, hp2⟩ := h1
    have := h.boundF p hp; omega

/-- `get` returns a non-empty prefix of exactly the bytes written at `a..b` -/
theorem get_spec (s : Sys) (h : Inv s) (a b : Nat) (h1 : base s.sb ≤ a) (h2 : a < b) (h3 : a < s.sb.offset) :
    ∃ k, 0 < k ∧ k ≤ b - a ∧ get s.sb a b = some ((s.w.drop a).take k) := by
  have hul := h.ul_le
  have hlen : s.sb.segs.flatten.length = s.sb.unackedLen := by
    rw [h.segs, List.length_drop, h.wlen]; simp only [base]; omega
  obtain ⟨k, k1, k2, k3⟩ := getLoop_spec s.sb.segs (base s.sb) a b h1 (by rw [hlen]; simp only [base]; omega) h2
  refine ⟨k, k1, k2, ?_⟩
  unfold get
  rw [if_neg (by omega)]
  have : s.sb.offset - s.sb.unackedLen = base s.sb := rfl
  rw [this, k3, h.segs, List.drop_drop]
  have : base s.sb + (a - base s.sb) = a := by omega
  rw [this]

/-- the copy loop of `StreamsState::write_stream_frames`:
    `while offsets.start != offsets.end { let data = get(offsets.clone()); offsets.start += data.len(); buf.put_slice(data) }`
    with an explicit bound on the number of iterations; `none` = bound exceeded or `get` panicked -/
def copyLoop (sb : SendBuffer) : Nat → Nat → Nat → Option Bytes
  | 0, a, b => if a = b then some [] else none
  | f + 1, a, b =>
    if a = b then some []
    else match get sb a b with
      | none => none
      | some d => match copyLoop sb f (a + d.length) b with
        | none => none
        | some r => some (d ++ r)

theorem copyLoop_spec (s : Sys) (h : Inv s) (b : Nat) (hb : b ≤ s.sb.offset) :
    ∀ (f a : Nat), base s.sb ≤ a → a ≤ b → b - a ≤ f →
      copyLoop s.sb f a b = some ((s.w.drop a).take (b - a)) := by
  intro f
  induction f with
  | zero =>
    intro a _ h2 h3
    have : a = b := by omega
    subst this
    simp [copyLoop]
  | succ f ih =>
    intro a h1 h2 h3
    unfold copyLoop
    by_cases hab : a = b
    · subst hab; simp
    · rw [if_neg hab]
      obtain ⟨k, k1, k2, k3⟩ := get_spec s h a b h1 (by omega) (by omega)
      rw [k3]
      have hwl := h.wlen
      have hk : ((s.w.drop a).take k).length = k := by
        rw [List.length_take, List.length_drop]; omega
      simp only [hk]
      rw [ih (a + k) (by omega) (by omega) (by omega)]
      simp only [Option.some.injEq]
      have e : b - a = k + (b - (a + k)) := by omega
      rw [e, List.take_add, List.drop_drop]

theorem size_le (x sz : Nat) (h : VarInt.size x = some sz) : 1 ≤ sz ∧ sz ≤ 8 := by
  unfold VarInt.size at h
  split at h
  · cases h; omega
  · split at h
    · cases h; omega
    · split at h
      · cases h; omega
      · split at h
        · cases h; omega
        · cases h

theorem budget_spec (n start limit m : Nat) (enc : Bool) (hn : Gen.sbufMinMaxLen ≤ n)
    (h : budget n start limit = some (m, enc)) : start ≤ limit ∧ (17 ≤ n → 1 ≤ m) := by
  unfold budget at h
  simp only [Gen.sbufMinMaxLen, Gen.sbufLenReserve] at *
  by_cases h0 : start ≠ 0
  · rw [if_pos h0] at h
    cases hs : VarInt.size start with
    | none => rw [hs] at h; simp at h
    | some sz =>
      rw [hs] at h
      have := size_le start sz hs
      simp only [Option.map_some] at h
      split at h
      · cases h
      · split at h
        · simp only [Option.some.injEq, Prod.mk.injEq] at h; omega
        · simp only [Option.some.injEq, Prod.mk.injEq] at h; omega
  · rw [if_neg h0] at h
    simp only at h
    split at h
    · cases h
    · split at h
      · simp only [Option.some.injEq, Prod.mk.injEq] at h; omega
      · simp only [Option.some.injEq, Prod.mk.injEq] at h; omega

/-- what `poll_transmit` returns in a state satisfying the invariant -/
theorem poll_spec (s : Sys) (h : Inv s) (n : Nat) (sb : SendBuffer) (r : Nat × Nat) (enc : Bool)
    (hp : pollTransmit s.sb n = some (sb, r, enc)) :
    base s.sb ≤ r.1 ∧ r.1 ≤ r.2 ∧ r.2 ≤ s.sb.offset ∧ (∀ x, r.1 ≤ x → x < r.2 → ¬ acked s.sb x) ∧
    (17 ≤ n → hasUnsentData s.sb = true → r.1 < r.2) := by
  have hlt := h.off_lt
  have hul := h.unsent_le
  have hbl := h.base_le
  unfold pollTransmit at hp
  split at hp
  · cases hp
  · rename_i hn
    split at hp
    · rename_i a b t hpop
      have hQ : s.sb.retransmits = (a, b) :: t := by
        cases hq : s.sb.retransmits with
        | nil => rw [hq] at hpop; simp [popMin] at hpop
        | cons q t' =>
          rw [hq] at hpop
          simp only [popMin, Option.some.injEq, Prod.mk.injEq] at hpop; rw [hpop.1, hpop.2]
      split at hp
      · cases hp
      · rename_i m enc' hbud
        cases hp
        have hab : a < b := by have := h.wfQ; rw [hQ] at this; exact this.head_lt
        have hbq := h.boundQ (a, b) (by rw [hQ]; exact List.mem_cons_self)
        simp only at hbq
        have hm := budget_spec n a b m enc (by omega) hbud
        have hmem : ∀ x, a ≤ x → x < b → mem x s.sb.retransmits :=
          fun x h1 h2 => ⟨(a, b), by rw [hQ]; exact List.mem_cons_self, h1, h2⟩
        refine ⟨hbq.1, ?_, ?_, ?_, ?_⟩
        · simp only [satAdd, Nat.min_def, U64] at *; split <;> split <;> omega
        · have : Nat.min b (satAdd m a) ≤ b := Nat.min_le_left _ _
          show Nat.min b (satAdd m a) ≤ s.sb.offset; omega
        · intro x h1 h2 hac
          have h2' : x < b := Nat.lt_of_lt_of_le h2 (Nat.min_le_left _ _)
          rcases hac with h3 | h3
          · omega
          · exact h.dAQ x h3 (hmem x h1 h2')
        · intro h17 _
          have := hm.2 h17
          simp only [satAdd, Nat.min_def, U64] at *; split <;> split <;> omega
    · rename_i hpop
      have hQ : s.sb.retransmits = [] := by
        cases hq : s.sb.retransmits with
        | nil => rfl
        | cons q t' => rw [hq] at hpop; simp [popMin] at hpop
      split at hp
      · cases hp
      · rename_i m enc' hbud
        cases hp
        have hm := budget_spec n s.sb.unsent s.sb.offset m enc (by omega) hbud
        refine ⟨hbl, ?_, Nat.min_le_left _ _, ?_, ?_⟩
        · simp only [satAdd, Nat.min_def, U64] at *; split <;> split <;> omega
        · intro x h1 _ hac
          rcases hac with h3 | h3
          · simp only at h1; omega
          · obtain ⟨p, hp, hp1, hp2⟩ := h3
            have := h.boundA p hp
            simp only at h1; omega
        · intro h17 hu
          have := hm.2 h17
          have hne : s.sb.unsent ≠ s.sb.offset := by
            simp only [hasUnsentData, hQ, List.isEmpty_nil, Bool.not_true, Bool.or_false, bne_iff_ne, ne_eq] at hu
            exact hu
          simp only [satAdd, Nat.min_def, U64] at *; split <;> split <;> omega

/-- `is_fully_acked` exactly when every written byte was acknowledged -/
theorem fully_acked_iff (s : Sys) (h : Inv s) :
    isFullyAcked s.sb = true ↔ ∀ x, x < s.sb.offset → acked s.sb x := by
  have hul := h.ul_le
  simp only [isFullyAcked, beq_iff_eq]
  constructor
  · intro h0 x hx
    left; simp only [base]; omega
  · intro hall
    by_cases h0 : s.sb.unackedLen = 0
    · exact h0
    · have hb : base s.sb < s.sb.offset := by simp only [base]; omega
      rcases hall (base s.sb) hb with h1 | h1
      · omega
      · obtain ⟨p, hp, hp1, hp2⟩ := h1
        have := h.boundA p hp; omega

/-! ### the calls `Connection` makes never panic -/

theorem total_le (s : RS) : ∀ (lo hi : Nat), WF s → (∀ p ∈ s, lo ≤ p.1 ∧ p.2 ≤ hi) →
    ∃ t, RangeSet.total s = some t ∧ t ≤ hi - lo := by
  induction s with
  | nil => intro lo hi _ _; exact ⟨0, rfl, Nat.zero_le _⟩
  | cons q t ih =>
    obtain ⟨a, b⟩ := q
    intro lo hi hw hb
    have hab : a < b := hw.head_lt
    have hq := hb (a, b) List.mem_cons_self
    simp only at hq
    obtain ⟨n, hn1, hn2⟩ := ih b hi hw.tail (by
      intro p hp
      have := hw.head_sep p hp
      have := hb p (List.mem_cons_of_mem _ hp)
      simp only at *; omega)
    refine ⟨n + (b - a), ?_, by omega⟩
    simp only [RangeSet.total, if_neg (show ¬ b < a by omega), hn1, Option.map_some]

/-- `unacked()` does not underflow -/
theorem unacked_total (s : Sys) (h : Inv s) : ∃ n, unacked s.sb = some n ∧ n ≤ s.sb.unackedLen := by
  have hul := h.ul_le
  have hus := h.unsent_le
  obtain ⟨t, ht1, ht2⟩ := total_le s.sb.acks (base s.sb) s.sb.offset h.wfA (by
    intro p hp; have := h.boundA p hp; omega)
  have : t ≤ s.sb.unackedLen := by simp only [base] at ht2; omega
  refine ⟨s.sb.unackedLen - t, ?_, by omega⟩
  simp only [unacked, ht1, if_neg (show ¬ t > s.sb.unackedLen by omega)]

/-- acknowledging or losing a frame in flight never panics -/
theorem ack_lose_total (s : Sys) (h : Inv s) (r : Nat × Nat) (hr : r ∈ s.F) :
    (∃ sb, ack s.sb r.1 r.2 = some sb) ∧ (∃ sb, retransmit s.sb r.1 r.2 = some sb) := by
  obtain ⟨a, b⟩ := r
  have hbr := h.boundF (a, b) hr
  simp only at hbr
  constructor
  · have hba : ∀ p ∈ s.sb.acks, base s.sb ≤ p.1 ∧ p.2 ≤ s.sb.unsent :=
      fun p hp => ⟨Nat.le_of_lt (h.boundA p hp).1, (h.boundA p hp).2⟩
    have hbl := h.base_le
    have hus := h.unsent_le
    have b1 := insert_bounds s.sb.acks (max (base s.sb) a) (max (base s.sb) b) (base s.sb) s.sb.unsent h.wfA hba
      (Nat.le_max_left _ _) (by simp only [Nat.max_def]; split <;> omega)
    obtain ⟨acks2, segs2, ul2, hloop, _⟩ :=
      ackLoop_spec _ s.sb.segs s.sb.unackedLen s.sb.offset s.w (insert_WF _ _ _ h.wfA) h.ul_le h.wlen h.segs
        (fun p hp => ⟨(b1 p hp).1, by have := (b1 p hp).2; omega⟩)
    refine ⟨{ s.sb with acks := acks2, segs := segs2, unackedLen := ul2 }, ?_⟩
    unfold ack
    rw [if_neg (by have := h.ul_le; omega)]
    simp only
    change (match ackLoop (RangeSet.insert s.sb.acks (max (base s.sb) a) (max (base s.sb) b)).1
      s.sb.segs s.sb.unackedLen s.sb.offset with
      | none => none
      | some (acks2, segs2, ul2) => some { s.sb with acks := acks2, segs := segs2, unackedLen := ul2 }) = _
    rw [hloop]
  · refine ⟨{ s.sb with retransmits := (RangeSet.insert s.sb.retransmits a b).1 }, ?_⟩
    unfold retransmit
    rw [if_neg (by simp only; omega)]

/-- `poll_transmit` does not panic when offered at least 16 bytes, as long as stream offsets stay
    below 2^62 (enforced by flow control) -/
theorem poll_total (s : Sys) (h : Inv s) (n : Nat) (hn : 16 ≤ n) (ho : s.sb.offset < 2^62) :
    ∃ sb r enc, pollTransmit s.sb n = some (sb, r, enc) := by
  have hsz : ∀ x, x < 2^62 → ∃ sz, VarInt.size x = some sz := by
    intro x hx
    unfold VarInt.size
    have e8 : x < Gen.varintSizeT8 := hx
    by_cases h1 : x < Gen.varintSizeT1
    · exact ⟨1, by rw [if_pos h1]⟩
    · by_cases h2 : x < Gen.varintSizeT2
      · exact ⟨2, by rw [if_neg h1, if_pos h2]⟩
      · by_cases h3 : x < Gen.varintSizeT4
        · exact ⟨4, by rw [if_neg h1, if_neg h2, if_pos h3]⟩
        · exact ⟨8, by rw [if_neg h1, if_neg h2, if_neg h3, if_pos e8]⟩
  have hbud : ∀ start limit, start ≤ limit → start < 2^62 → ∃ m enc, budget n start limit = some (m, enc) := by
    intro start limit hle hlt
    unfold budget
    by_cases h0 : start ≠ 0
    · rw [if_pos h0]
      obtain ⟨sz, hs⟩ := hsz start hlt
      rw [hs]
      simp only [Option.map_some]
      rw [if_neg (by omega)]
      split
      · exact ⟨_, _, rfl⟩
      · exact ⟨_, _, rfl⟩
    · rw [if_neg h0]
      simp only
      rw [if_neg (by omega)]
      split
      · exact ⟨_, _, rfl⟩
      · exact ⟨_, _, rfl⟩
  have hus := h.unsent_le
  unfold pollTransmit
  rw [if_neg (by simp only [Gen.sbufMinMaxLen]; omega)]
  cases hq : s.sb.retransmits with
  | nil =>
    simp only [popMin]
    obtain ⟨m, enc, hb⟩ := hbud s.sb.unsent s.sb.offset hus (by omega)
    rw [hb]
    exact ⟨_, _, _, rfl⟩
  | cons q t =>
    obtain ⟨a, b⟩ := q
    simp only [popMin]
    have hw := h.wfQ
    rw [hq] at hw
    have hbq := h.boundQ (a, b) (by rw [hq]; exact List.mem_cons_self)
    simp only at hbq
    have hab : a < b := hw.head_lt
    obtain ⟨m, enc, hb⟩ := hbud a b (Nat.le_of_lt hab) (by omega)
    rw [hb]
    exact ⟨_, _, _, rfl⟩

/-- `step` without the guard of the 0-RTT reset -/
def stepU (s : Sys) : Op → Option Sys
  | .zeroRtt => match retransmitAllFor0rtt s.sb with
    | some sb => some { s with sb := sb, F := [] }
    | none => none
  | op => step s op

def runU : Sys → List Op → Option Sys
  | s, [] => some s
  | s, op :: ops => match stepU s op with
    | some s' => runU s' ops
    | none => none

/-- two frames, the second acknowledged, then a 0-RTT reset -/
def zeroRttOps : List Op :=
  [.write (List.replicate 10 0), .poll 16, .poll 16, .ack (8, 10), .zeroRtt]

theorem zeroRttOps_eval :
    (runU Sys.init zeroRttOps).map (fun s => (s.sb.acks, s.sb.unsent, s.sb.offset)) = some ([(8, 10)], 0, 10) := by
  decide

/-- without its guard (`acks` and `retransmits` empty, which `Connection` guarantees because 0-RTT
    packets cannot be acknowledged or declared lost before the rejection is known) a 0-RTT reset
    marks acknowledged data as unsent: the partition is lost -/
def zeroRttWitness : Option SendBuffer :=
  match write init (List.replicate 10 0) with
  | none => none
  | some s1 => match pollTransmit s1 16 with
    | none => none
    | some (s2, _, _) => match pollTransmit s2 16 with
      | none => none
      | some (s3, _, _) => match ack s3 8 10 with
        | none => none
        | some s4 => retransmitAllFor0rtt s4

theorem zeroRttWitness_eval :
    zeroRttWitness.map (fun s => (s.acks, s.unsent, s.offset)) = some ([(8, 10)], 0, 10) := by decide

end QM.SendBuffer
