import QuinnModel.Conn.LossTimer
namespace QM.LossTimer

theorem optMin_isSome_left (a b : Option Nat) (h : a.isSome = true) : (optMin a b).isSome = true := by
  cases a <;> cases b <;> simp_all [optMin]

theorem optMin_isSome_right (a b : Option Nat) (h : b.isSome = true) : (optMin a b).isSome = true := by
  cases a <;> cases b <;> simp_all [optMin]

theorem spacePto_isSome (sp : SpaceL) (d : Nat) (h1 : sp.hasInFlight = true) (h2 : sp.lastAckEliciting.isSome = true) :
    (spacePto sp d).isSome = true := by
  cases hl : sp.lastAckEliciting <;> simp_all [spacePto]

/-- PTO covers every eligible space with ack-eliciting data in flight -/
theorem ptoTime_isSome_of_covered (s : S) (now : Nat) (h : covered s) : (ptoTime s now).isSome = true := by
  unfold ptoTime
  simp only
  by_cases h0 : s.inFlightAckEliciting = 0
  · simp [h0]
  · simp only [h0, if_false]
    rcases h with ⟨a, b⟩ | ⟨a, b⟩ | ⟨hh, a, b⟩
    · have := spacePto_isSome s.sp0 (s.ptoBase * backoff s) a b
      have h01 := optMin_isSome_left _ (spacePto s.sp1 (s.ptoBase * backoff s)) this
      split
      · split
        · exact h01
        · exact optMin_isSome_left _ _ h01
      · exact h01
    · have := spacePto_isSome s.sp1 (s.ptoBase * backoff s) a b
      have h01 := optMin_isSome_right (spacePto s.sp0 (s.ptoBase * backoff s)) _ this
      split
      · split
        · exact h01
        · exact optMin_isSome_left _ _ h01
      · exact h01
    · simp only [a, if_true, hh, Bool.false_eq_true, if_false]
      exact optMin_isSome_right _ _ (spacePto_isSome s.sp2 _ a b)

/-- no unarmed timer: on an open connection that is not anti-amplification blocked, data in flight in a space
    the PTO may cover implies the loss-detection timer is set by `set_loss_detection_timer` -/
theorem setTimer_armed (s : S) (now : Nat) (old : Option Nat) (hc : s.closed = false) (ha : s.ampBlocked = false)
    (hae : 0 < s.inFlightAckEliciting) (h : covered s) : (setTimer s now old).isSome = true := by
  unfold setTimer
  simp only [hc, Bool.false_eq_true, if_false, ha]
  cases lossTime s with
  | some t => rfl
  | none =>
    have : ¬ (s.inFlightAckEliciting = 0 ∧ s.peerCompleted = true) := by omega
    simp only [this, if_false]
    exact ptoTime_isSome_of_covered s now h

/-- anti-deadlock: a client whose peer may still be blocked by the anti-amplification limit arms the timer
    although nothing is in flight -/
theorem setTimer_anti_deadlock (s : S) (now : Nat) (old : Option Nat) (hc : s.closed = false) (ha : s.ampBlocked = false)
    (h0 : s.inFlightAckEliciting = 0) (hp : s.peerCompleted = false) : (setTimer s now old).isSome = true := by
  unfold setTimer
  simp only [hc, Bool.false_eq_true, if_false, ha]
  cases lossTime s with
  | some t => rfl
  | none => simp [h0, hp, ptoTime]

/-- the only way the timer is cleared on an open, unblocked connection with ack-eliciting data in flight is that
    no eligible space carries it: all of it sits in the Data space while still handshaking (0-RTT) -/
theorem setTimer_none_cause (s : S) (now : Nat) (old : Option Nat) (hc : s.closed = false) (ha : s.ampBlocked = false)
    (hae : 0 < s.inFlightAckEliciting) (hn : setTimer s now old = none) : ¬ covered s := by
  intro hcov
  have := setTimer_armed s now old hc ha hae hcov
  rw [hn] at this
  simp at this

end QM.LossTimer
