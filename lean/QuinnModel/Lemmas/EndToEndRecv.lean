import QuinnModel.Lemmas.EndToEndSend
/-
C01 end to end: the receiver's events preserve the invariant.
-/
namespace QM.E2E
open QM QM.RangeSet
open QM.Assembler (stream delivered)

set_option pp.structureInstances false

/-! ### facts about `Assembler.step` that the component proofs did not need -/

theorem insert_end_le (s : Assembler.Asm) (off : Nat) (bytes : Bytes) (alloc : Nat) (tm : Bool) :
    (Assembler.insert s off bytes alloc tm).1.end_ ≤ Nat.max s.end_ (off + bytes.length) := by
  have hmax : s.end_ ≤ Nat.max s.end_ (off + bytes.length) := by
    simp only [Nat.max_def]; split <;> omega
  have hfin : ∀ (a : Assembler.Asm) (o : Nat) (b : Bytes), (Assembler.finishInsert a o b tm).1.end_ = a.end_ := by
    intro a o b; unfold Assembler.finishInsert; split
    · rfl
    · split
      · rfl
      · split <;> rfl
  have hdup : ∀ (dups : List (Nat × Nat)) (a : Assembler.Asm) (o : Nat) (b : Bytes) (a' : Assembler.Asm) (o' : Nat)
      (b' : Bytes), Assembler.dupLoop dups a o b = some (a', o', b') → a'.end_ = a.end_ := by
    intro dups
    induction dups with
    | nil => intro a o b a' o' b' h; simp only [Assembler.dupLoop, Option.some.injEq, Prod.mk.injEq] at h; rw [← h.1]
    | cons d t ih =>
      obtain ⟨ds, de⟩ := d
      intro a o b a' o' b' h
      unfold Assembler.dupLoop at h
      split at h
      · split at h
        · cases h
        · split at h
          · cases h
          · split at h
            · cases h
            · have := ih _ _ _ _ _ _ h; exact this
      · split at h
        · cases h
        · split at h
          · cases h
          · exact ih _ _ _ _ _ _ h
  unfold Assembler.insert
  split
  · exact hmax
  · split
    · exact hmax
    · split
      · exact Nat.le_refl _
      · split
        · split
          · exact hmax
          · rename_i s1 off1 bytes1 hd
            have := hdup _ _ _ _ _ _ _ hd
            rw [hfin, this]
            exact Nat.le_refl _
        · split
          · split
            · exact Nat.le_refl _
            · rw [hfin]; exact Nat.le_refl _
          · rw [hfin]; exact Nat.le_refl _

theorem asm_step_insert {s s' : Assembler.Sys} {off : Nat} {bytes : Bytes} {alloc : Nat} {tm : Bool}
    (h : Assembler.step s (.insert off bytes alloc tm) = some s') :
    s'.out = s.out ∧ s'.chunks = s.chunks ∧ s'.a.end_ ≤ Nat.max s.a.end_ (off + bytes.length) := by
  have hle := insert_end_le s.a off bytes alloc tm
  simp only [Assembler.step] at h
  split at h
  all_goals first
    | (rename_i a' hins; cases h; rw [hins] at hle; exact ⟨rfl, rfl, hle⟩)
    | cases h

theorem asm_step_clear {s s' : Assembler.Sys} (h : Assembler.step s .clear = some s') :
    s'.out = s.out ∧ s'.chunks = s.chunks ∧ s'.a.end_ = s.a.end_ ∧ s'.a.bytesRead = s.a.bytesRead := by
  simp only [Assembler.step] at h
  cases h; exact ⟨rfl, rfl, rfl, rfl⟩

theorem asm_step_ensure {s s' : Assembler.Sys} {ordered : Bool} (h : Assembler.step s (.ensure ordered) = some s') :
    s'.out = s.out ∧ s'.chunks = s.chunks ∧ s'.a.end_ = s.a.end_ := by
  simp only [Assembler.step] at h
  cases h; exact ⟨rfl, rfl, Assembler.ensure_end _ _⟩

/-- a read leaves `end` alone, only adds to the chunks handed out, and extends `out` only in ordered mode -/
theorem asm_step_read {g : Nat → Nat} {s s' : Assembler.Sys} {max : Nat} {ordered : Bool} {obs : Assembler.Obs}
    (ho : Assembler.InvO g s) (h : Assembler.step s (.read max ordered obs) = some s') :
    s'.a.end_ = s.a.end_ ∧ (∃ l, s'.chunks = l ++ s.chunks) ∧ (s'.out = s.out ∨ s'.a.unordered = false) := by
  simp only [Assembler.step] at h
  split at h
  · rename_i a1 he
    cases h
    have := Assembler.ensure_end s.a ordered
    rw [he] at this
    exact ⟨this, ⟨[], rfl⟩, Or.inl rfl⟩
  · rename_i a1 he
    have e1 := Assembler.ensure_end s.a ordered
    rw [he] at e1
    have hend : ∀ a2 ro, Assembler.read a1 max ordered obs = (a2, ro) → a2.end_ = s.a.end_ := by
      intro a2 ro hr
      have := Assembler.read_end a1 max ordered obs
      rw [hr] at this
      exact this.trans e1
    split at h
    · rename_i a2 hr
      cases h; exact ⟨hend _ _ hr, ⟨[], rfl⟩, Or.inl rfl⟩
    · rename_i a2 off bytes hr
      cases h
      refine ⟨hend _ _ hr, ⟨[(ordered, off, bytes)], rfl⟩, ?_⟩
      cases ordered with
      | false => exact Or.inl rfl
      | true =>
        right
        obtain ⟨s1, s2, s3, s4, s5, s6, s7, s8⟩ := Assembler.ensure_spec s.a true ho.wfc
        rw [he] at s1 s2 s6
        have hu : a1.unordered = false := by simpa using s6 rfl
        have hc : Assembler.Cons g a1.data := by rw [s1]; exact ho.cons
        obtain ⟨r1, r2, r3, _⟩ := Assembler.read_ordered_spec g a1 a2 max obs _ hr hc s2
        show a2.unordered = false
        rw [r2]; exact hu
    · cases h

theorem bytesRead_le_end {s : Assembler.Sys} (hx : Assembler.InvX s) (hb : Assembler.InvB s) :
    s.a.bytesRead ≤ s.a.end_ := by
  rw [hb.sumEq]
  exact Assembler.lenSum_le _ _ hx.px hb.delB

theorem mem_delivered_mono {s s' : Assembler.Sys} (h : ∃ l, s'.chunks = l ++ s.chunks) (x : Nat)
    (hx : mem x (delivered s)) : mem x (delivered s') := by
  obtain ⟨l, hl⟩ := h
  obtain ⟨p, hp, hpx⟩ := hx
  refine ⟨p, ?_, hpx⟩
  unfold Assembler.delivered at *
  rw [hl, List.map_append]
  exact List.mem_append_right _ hp

/-- pairwise disjoint ranges inside `[0, N)` of total length `N` cover `[0, N)` -/
theorem cover_of_full (l : List (Nat × Nat)) (N : Nat) (hd : l.Pairwise Assembler.disj)
    (hb : ∀ r ∈ l, r.1 < r.2 → r.2 ≤ N) (hs : Assembler.lenSum l = N) (x : Nat) (hx : x < N) : mem x l := by
  apply Classical.byContradiction
  intro hn
  have hd' : ((x, x + 1) :: l).Pairwise Assembler.disj := by
    refine List.pairwise_cons.mpr ⟨?_, hd⟩
    intro q hq y hy
    apply hn
    have : y = x := by simp only at hy; omega
    subst this
    exact ⟨q, hq, hy.2.2.1, hy.2.2.2⟩
  have hb' : ∀ r ∈ (x, x + 1) :: l, r.1 < r.2 → r.2 ≤ N := by
    intro r hr hlt
    rcases List.mem_cons.mp hr with rfl | hr
    · simp only; omega
    · exact hb r hr hlt
  have := Assembler.lenSum_le _ N hd' hb'
  simp only [Assembler.lenSum, List.map_cons, List.sum_cons] at this hs
  omega

/-! ### facts about `Recv` -/

open QM.Streams in
theorem ingest_state {r r' : Recv} {offset len received maxData nb : Nat} {fin cl : Bool}
    (h : r.ingest offset len fin received maxData = some (.ok (nb, cl, r'))) :
    r'.state = r.state ∨ (∃ sz, r.state = .recv sz ∧ r'.state = .recv (some (offset + len)) ∧ fin = true) := by
  unfold Recv.ingest Recv.ingestTail at h
  osplit h
  all_goals
    obtain ⟨_, _, rfl⟩ := h
    first
      | exact Or.inl rfl
      | (have hst := ‹r.state = _›; exact Or.inl (by simp only; exact hst.symm))
      | (have hst := ‹r.state = _›; right; exact ⟨_, hst, rfl, by simp_all⟩)

open QM.Streams in
theorem recv_state_of_final {r : Recv} {fo : Nat} (h : r.finalOffset = some fo) (hr : r.isReceiving = true) :
    r.state = .recv (some fo) := by
  unfold Recv.finalOffset at h
  unfold Recv.isReceiving at hr
  split at h
  · rename_i sz hs; rw [hs, h]
  · rename_i sz c hs; rw [hs] at hr; cases hr

/-! ### the receiver's events -/

/-- rebuild the receiver invariant after the receiver moved -/
theorem RInv.build {g : Nat → Nat} {s x : St} (i : RInv g s)
    (hsys : x.sys = s.sys) (hfa : x.finishedAt = s.finishedAt) (har : x.appReset = s.appReset)
    (aO : Assembler.InvO g x.asm) (aX : Assembler.InvX x.asm) (aB : Assembler.InvB x.asm)
    (hend : x.rv.end_ ≤ s.sys.w.length) (hmono : s.rv.end_ ≤ x.rv.end_)
    (haend : x.asm.a.end_ ≤ x.rv.end_)
    (hout : x.asm.out = s.asm.out ∨ x.asm.a.unordered = false)
    (hfl : ∀ fo, x.rv.finalOffset = some fo → x.rv.end_ ≤ fo)
    (hsz : ∀ fo, x.rv.state = .recv (some fo) → s.finishedAt = some fo)
    (hrs : ∀ fo c, x.rv.state = .resetRecvd fo c → s.appReset = some c ∧ fo = s.sys.w.length)
    (hch : ∃ l, x.asm.chunks = l ++ s.asm.chunks)
    (heos : x.eos = true → s.eos = true ∨ ∃ n, s.finishedAt = some n ∧ ∀ y, y < n → mem y (delivered x.asm))
    (hsaw : ∀ c, x.sawReset = some c → s.sawReset = some c ∨ s.appReset = some c) : RInv g x := by
  refine ⟨aO, aX, aB, by rw [hsys]; exact hend, haend, ?_, hfl, by rw [hfa]; exact hsz,
    by rw [har, hsys]; exact hrs, ?_, ?_⟩
  · rcases hout with h | h
    · rw [h]; exact Nat.le_trans i.out_le hmono
    · rw [aO.out_len h]; exact Nat.le_trans (bytesRead_le_end aX aB) haend
  · intro he
    rw [hfa]
    rcases heos he with h | h
    · obtain ⟨n, h1, h2⟩ := i.eos_ok h
      exact ⟨n, h1, fun y hy => mem_delivered_mono hch y (h2 y hy)⟩
    · exact h
  · intro c hc
    rw [har]
    rcases hsaw c hc with h | h
    · exact i.saw_ok c h
    · exact h

theorem ginv_got {s x : St} {f : Frame} (i : GInv s) (hf : f ∈ s.net) (h1 : x.net = s.net)
    (h2 : x.got = f :: s.got) (h3 : x.sys = s.sys) : GInv x :=
  i.mono (fun q hq => h1 ▸ hq)
    (fun q hq => by rw [h2] at hq; rcases List.mem_cons.mp hq with rfl | hq
                    · exact Or.inr (h1 ▸ hf)
                    · exact Or.inl hq)
    (fun q hq => by rw [h2]; exact List.mem_cons_of_mem _ hq) (fun r hr => Or.inl (h3 ▸ hr))

theorem inv_deliver {g : Nat → Nat} {s s' : St} {f : Frame} {received maxData alloc : Nat} {tm : Bool}
    (i : Inv g s) (h : deliver s f received maxData alloc tm = some s') : Inv g s' := by
  unfold deliver at h
  split at h
  · cases h
  · rename_i hnet
    have hin : f ∈ s.net := Classical.byContradiction hnet
    have hsame : ∀ (x : St), x.sys = s.sys → x.half = s.half → x.live = s.live → x.resetCode = s.resetCode →
        x.T = s.T → x.net = s.net → x.finishedAt = s.finishedAt → x.appReset = s.appReset → x.rv = s.rv →
        x.asm = s.asm → x.eos = s.eos → x.sawReset = s.sawReset → x.got = f :: s.got → Inv g x := by
      intro x x1 x2 x3 x4 x5 x6 x7 x8 x9 x10 x11 x12 x13
      exact ⟨i.S.receiver x1 x2 x3 x4 x5 x6 x7 x8, ginv_got i.G hin x6 x13 x1,
        i.R.sender i.S x9 x10 x11 x12 (by rw [x1]; exact Nat.le_refl _) (fun _ => by rw [x1])
          (fun n hn => by rw [x7]; exact hn) (fun c hc => by rw [x8]; exact hc)⟩
    split at h
    · cases h; exact hsame _ rfl rfl rfl rfl rfl rfl rfl rfl rfl rfl rfl rfl rfl
    · split at h
      · -- STREAM
        rename_i off bytes fin
        obtain ⟨b1, b2, b3⟩ := i.S.netS off bytes fin hin
        split at h
        · cases h; exact hsame _ rfl rfl rfl rfl rfl rfl rfl rfl rfl rfl rfl rfl rfl
        · rename_i hrecv
          have hrecv : s.rv.isReceiving = true := by
            cases hh : s.rv.isReceiving with
            | true => rfl
            | false => simp [hh] at hrecv
          split at h
          · cases h
          · cases h; exact i
          · rename_i nb closed rv' hing
            have hstate := ingest_state hing
            have hfo := Streams.ingest_finalOffset hing
            rcases Streams.ingest_cases hing with ⟨_, he⟩ | ⟨_, _, he⟩ | ⟨_, _, _, he⟩ |
              ⟨_, hnc, _, _, r'', he, e1, _, _, _, _⟩
            · cases he
            · cases he
            · cases he
            · simp only [Except.ok.injEq, Prod.mk.injEq] at he
              obtain ⟨_, _, rfl⟩ := he
              have hmax : rv'.end_ = max s.rv.end_ (off + bytes.length) := e1
              have hre := i.R.rv_end
              have hfl : ∀ fo, rv'.finalOffset = some fo → rv'.end_ ≤ fo := by
                intro fo hf
                rcases hfo fo hf with ⟨rfl, hfin⟩ | hold
                · have : ¬ (off + bytes.length < s.rv.end_) := fun hlt => hnc (Or.inr ⟨hfin, hlt⟩)
                  omega
                · have h1 := i.R.fin_le fo hold
                  have : ¬ (off + bytes.length > fo) := fun hgt => hnc (Or.inl ⟨fo, hold, Or.inl hgt⟩)
                  omega
              have hsz : ∀ fo, rv'.state = .recv (some fo) → s.finishedAt = some fo := by
                intro fo hst
                have hf : rv'.finalOffset = some fo := by simp [Streams.Recv.finalOffset, hst]
                rcases hfo fo hf with ⟨rfl, hfin⟩ | hold
                · exact b3 hfin
                · exact i.R.rv_size fo (recv_state_of_final hold hrecv)
              have hrs : ∀ fo c, rv'.state = .resetRecvd fo c → s.appReset = some c ∧ fo = s.sys.w.length := by
                intro fo c hst
                rcases hstate with h1 | ⟨sz, _, h2, _⟩
                · exact i.R.rv_reset fo c (h1 ▸ hst)
                · rw [h2] at hst; cases hst
              split at h
              · cases h
                exact ⟨i.S.receiver rfl rfl rfl rfl rfl rfl rfl rfl, ginv_got i.G hin rfl rfl rfl,
                  i.R.build rfl rfl rfl i.R.asmO i.R.asmX i.R.asmB (by show rv'.end_ ≤ _; omega)
                    (by show _ ≤ rv'.end_; omega) (by show s.asm.a.end_ ≤ rv'.end_; have := i.R.aend; omega) (Or.inl rfl)
                    hfl hsz hrs ⟨[], rfl⟩ (fun he => Or.inl he) (fun c hc => Or.inl hc)⟩
              · split at h
                · cases h
                · rename_i asm' hst
                  cases h
                  obtain ⟨c1, c2, c3⟩ := asm_step_insert hst
                  have hop : (Assembler.Op.insert off bytes alloc tm).consistent g := b1
                  exact ⟨i.S.receiver rfl rfl rfl rfl rfl rfl rfl rfl, ginv_got i.G hin rfl rfl rfl,
                    i.R.build rfl rfl rfl (Assembler.step_invO g _ _ _ i.R.asmO hop hst)
                      (Assembler.step_invX g _ _ _ i.R.asmO i.R.asmX hop hst)
                      (Assembler.step_invB g _ _ _ i.R.asmO i.R.asmX i.R.asmB hop hst)
                      (by show rv'.end_ ≤ _; omega) (by show _ ≤ rv'.end_; omega)
                      (by show asm'.a.end_ ≤ rv'.end_
                          have := i.R.aend; simp only [Streams.natMax_eq] at c3; omega)
                      (Or.inl c1) hfl hsz hrs ⟨[], by simpa using c2⟩ (fun he => Or.inl he)
                      (fun c hc => Or.inl hc)⟩
      · -- RESET_STREAM
        rename_i code fs
        obtain ⟨b1, b2⟩ := i.S.netR code fs hin
        split at h
        · cases h
        · cases h; exact i
        · cases h; exact hsame _ rfl rfl rfl rfl rfl rfl rfl rfl rfl rfl rfl rfl rfl
        · rename_i rv' hres
          rcases Streams.reset_cases hres with ⟨_, _, _, he⟩ | ⟨_, _, he⟩ | ⟨_, _, he⟩ | ⟨hse, _, _, hr⟩
          · cases he
          · cases he
          · cases he
          · rcases hr with ⟨_, _, _, he⟩ | ⟨sz, hsz, he⟩
            · simp only [Except.ok.injEq, Prod.mk.injEq] at he; cases he.1
            · simp only [Except.ok.injEq, Prod.mk.injEq, true_and] at he
              subst he
              split at h
              · cases h
              · rename_i asm' hst
                cases h
                obtain ⟨c1, c2, c3, c4⟩ := asm_step_clear hst
                have hop : (Assembler.Op.clear).consistent g := trivial
                refine ⟨i.S.receiver rfl rfl rfl rfl rfl rfl rfl rfl, ginv_got i.G hin rfl rfl rfl,
                  i.R.build rfl rfl rfl (Assembler.step_invO g _ _ _ i.R.asmO hop hst)
                    (Assembler.step_invX g _ _ _ i.R.asmO i.R.asmX hop hst)
                    (Assembler.step_invB g _ _ _ i.R.asmO i.R.asmX i.R.asmB hop hst)
                    i.R.rv_end (Nat.le_refl _) (by show asm'.a.end_ ≤ s.rv.end_; rw [c3]; exact i.R.aend)
                    (Or.inl c1) ?_ ?_ ?_ ⟨[], by simpa using c2⟩ (fun he => Or.inl he) (fun c hc => Or.inl hc)⟩
                · intro fo hf
                  simp only [Streams.Recv.finalOffset, Option.some.injEq] at hf
                  subst hf
                  show s.rv.end_ ≤ fs
                  unfold Streams.Recv.resetSizeErr at hse
                  split at hse
                  · rename_i fo hfo
                    split at hse
                    · cases hse
                    · rename_i hne
                      have := i.R.fin_le fo hfo
                      simp only [ne_eq, Decidable.not_not] at hne
                      omega
                  · split at hse
                    · cases hse
                    · omega
                · intro fo hst; cases hst
                · intro fo c hst
                  simp only [Streams.RecvState.resetRecvd.injEq] at hst
                  obtain ⟨rfl, rfl⟩ := hst
                  exact ⟨b1, b2⟩

open QM.Streams in
theorem readEnd_cases {v : Recv} {e : ReadEnd} {b : Bool} (h : v.readEnd 0 1 = some (e, b)) :
    (∃ sz code, v.state = .resetRecvd sz code ∧ e = .reset code) ∨
    (v.state = .recv (some v.end_) ∧ v.assembler.bytesRead = v.end_ ∧ e = .fin) ∨ e = .blocked := by
  unfold Recv.readEnd at h
  simp only [Nat.zero_ne_one, if_false, if_true] at h
  split at h
  · rename_i sz code hst
    simp only [Option.some.injEq, Prod.mk.injEq] at h
    exact Or.inl ⟨sz, code, hst, h.1.symm⟩
  · rename_i size hst
    split at h
    · rename_i hc
      simp only [Bool.and_eq_true, decide_eq_true_eq] at hc
      simp only [Option.some.injEq, Prod.mk.injEq] at h
      exact Or.inr (Or.inl ⟨by rw [hst, hc.1], hc.2, h.1.symm⟩)
    · simp only [Option.some.injEq, Prod.mk.injEq] at h
      exact Or.inr (Or.inr h.1.symm)

open QM.Streams in
theorem stop_spec {v v' : Recv} {cr : Nat} {ss : Bool} (h : v.stop = some (some (cr, ss, v'))) :
    v'.state = v.state ∧ v'.end_ = v.end_ := by
  unfold Recv.stop at h
  split at h
  · cases h
  · split at h
    · cases h
    · simp only [Option.some.injEq, Prod.mk.injEq] at h
      obtain ⟨_, _, rfl⟩ := h
      exact ⟨rfl, rfl⟩

/-- the receive half itself did not change, the assembler made a step that keeps `end` -/
theorem inv_asm_step {g : Nat → Nat} {s x : St} {asm' : Assembler.Sys} {op : Assembler.Op} (i : Inv g s)
    (hop : op.consistent g) (hst : Assembler.step s.asm op = some asm')
    (c1 : asm'.a.end_ = s.asm.a.end_) (c2 : ∃ l, asm'.chunks = l ++ s.asm.chunks)
    (c3 : asm'.out = s.asm.out ∨ asm'.a.unordered = false)
    (x1 : x.sys = s.sys) (x2 : x.half = s.half) (x3 : x.live = s.live) (x4 : x.resetCode = s.resetCode)
    (x5 : x.T = s.T) (x6 : x.net = s.net) (x7 : x.finishedAt = s.finishedAt) (x8 : x.appReset = s.appReset)
    (x9 : x.rv.state = s.rv.state) (x9' : x.rv.end_ = s.rv.end_) (x10 : x.asm = asm') (x11 : x.got = s.got)
    (heos : x.eos = true → s.eos = true ∨ ∃ n, s.finishedAt = some n ∧ ∀ y, y < n → mem y (delivered asm'))
    (hsaw : ∀ c, x.sawReset = some c → s.sawReset = some c ∨ s.appReset = some c) : Inv g x := by
  have hfo : x.rv.finalOffset = s.rv.finalOffset := by simp only [Streams.Recv.finalOffset, x9]
  refine ⟨i.S.receiver x1 x2 x3 x4 x5 x6 x7 x8, ⟨by rw [x11, x6]; exact i.G.got_net, by rw [x1, x11]; exact i.G.ackd_got⟩,
    i.R.build x1 x7 x8 (x10 ▸ Assembler.step_invO g _ _ _ i.R.asmO hop hst)
      (x10 ▸ Assembler.step_invX g _ _ _ i.R.asmO i.R.asmX hop hst)
      (x10 ▸ Assembler.step_invB g _ _ _ i.R.asmO i.R.asmX i.R.asmB hop hst)
      (by rw [x9']; exact i.R.rv_end) (by rw [x9']; exact Nat.le_refl _)
      (by rw [x10, x9', c1]; exact i.R.aend) (by rw [x10]; exact c3)
      (by rw [hfo, x9']; exact i.R.fin_le) (by rw [x9]; exact i.R.rv_size) (by rw [x9]; exact i.R.rv_reset)
      (by rw [x10]; exact c2) (by rw [x10]; exact heos) hsaw⟩

theorem inv_read {g : Nat → Nat} {s s' : St} {max : Nat} {ordered : Bool} {obs : Assembler.Obs}
    (i : Inv g s) (h : read s max ordered obs = some s') : Inv g s' := by
  unfold read at h
  split at h
  · cases h; exact i
  · split at h
    · cases h; exact i
    · split at h
      · cases h
      · rename_i asm' hst
        have hop : (Assembler.Op.read max ordered obs).consistent g := trivial
        obtain ⟨c1, c2, c3⟩ := asm_step_read i.R.asmO hst
        have aX := Assembler.step_invX g _ _ _ i.R.asmO i.R.asmX hop hst
        have aB := Assembler.step_invB g _ _ _ i.R.asmO i.R.asmX i.R.asmB hop hst
        split at h
        · cases h
          exact inv_asm_step i hop hst c1 c2 c3 rfl rfl rfl rfl rfl rfl rfl rfl rfl rfl rfl rfl
            (fun he => Or.inl he) (fun c hc => Or.inl hc)
        · split at h
          · cases h
          · rename_i code b hre
            cases h
            refine inv_asm_step i hop hst c1 c2 c3 rfl rfl rfl rfl rfl rfl rfl rfl rfl rfl rfl rfl
              (fun he => Or.inl he) ?_
            intro c hc
            simp only [Option.some.injEq] at hc
            subst hc
            rcases readEnd_cases hre with ⟨sz, code', hs, he⟩ | ⟨_, _, he⟩ | he
            · simp only [Streams.ReadEnd.reset.injEq] at he
              subst he
              exact Or.inr (i.R.rv_reset sz _ hs).1
            · cases he
            · cases he
          · rename_i b hre
            cases h
            refine inv_asm_step i hop hst c1 c2 c3 rfl rfl rfl rfl rfl rfl rfl rfl rfl rfl rfl rfl
              ?_ (fun c hc => Or.inl hc)
            intro _
            right
            rcases readEnd_cases hre with ⟨_, _, _, he⟩ | ⟨hs, hbr, _⟩ | he
            · cases he
            · have hs' : s.rv.state = .recv (some s.rv.end_) := hs
              have hbr' : asm'.a.bytesRead = s.rv.end_ := hbr
              refine ⟨s.rv.end_, i.R.rv_size _ hs', ?_⟩
              intro y hy
              refine cover_of_full _ s.rv.end_ aX.px ?_ (aB.sumEq.symm.trans hbr') y hy
              intro r hr hlt
              have := aB.delB r hr hlt
              have := i.R.aend
              omega
            · cases he
          · cases h
            exact inv_asm_step i hop hst c1 c2 c3 rfl rfl rfl rfl rfl rfl rfl rfl rfl rfl rfl rfl
              (fun he => Or.inl he) (fun c hc => Or.inl hc)

theorem inv_openRead {g : Nat → Nat} {s s' : St} {ordered : Bool} (i : Inv g s)
    (h : openRead s ordered = some s') : Inv g s' := by
  unfold openRead at h
  split at h
  · cases h; exact i
  · split at h
    · cases h; exact i
    · split at h
      · cases h
      · rename_i asm' hst
        cases h
        obtain ⟨c1, c2, c3⟩ := asm_step_ensure hst
        exact inv_asm_step i (op := .ensure ordered) trivial hst c3 ⟨[], by simpa using c2⟩ (Or.inl c1)
          rfl rfl rfl rfl rfl rfl rfl rfl rfl rfl rfl rfl (fun he => Or.inl he) (fun c hc => Or.inl hc)

theorem inv_stop {g : Nat → Nat} {s s' : St} {code : Nat} (i : Inv g s) (h : stop s code = some s') :
    Inv g s' := by
  unfold stop at h
  split at h
  · cases h; exact i
  · split at h
    · cases h
    · cases h; exact i
    · rename_i cr ss rv' hsp
      obtain ⟨p1, p2⟩ := stop_spec hsp
      split at h
      · cases h
      · rename_i asm' hst
        cases h
        obtain ⟨c1, c2, c3, c4⟩ := asm_step_clear hst
        exact inv_asm_step i (op := .clear) trivial hst c3 ⟨[], by simpa using c2⟩ (Or.inl c1)
          rfl rfl rfl rfl rfl rfl rfl rfl p1 p2 rfl rfl (fun he => Or.inl he) (fun c hc => Or.inl hc)

end QM.E2E
