import QuinnModel.Lemmas.EndToEnd
/-
C01 end to end: the sender's events preserve the invariant.
-/
namespace QM.E2E
open QM QM.RangeSet
open QM.Assembler (stream delivered)

set_option pp.structureInstances false

theorem send_write_ok {h h' : Streams.Send} {n limit k : Nat} (hw : h.write n limit = some (.ok (k, h'))) :
    h.state = .ready := by
  unfold Streams.Send.write at hw
  split at hw
  · cases hw
  · rename_i hn
    simp only [Streams.Send.isWritable, Bool.not_eq_true] at hn
    simpa using hn

theorem inv_write {g : Nat → Nat} {s s' : St} {d : Bytes} {limit : Nat} (i : Inv g s)
    (h : write s d limit = some s') (hp : Pre g s'.sys.w) : Inv g s' := by
  unfold write at h
  split at h
  · cases h; exact i
  · split at h
    · cases h
    · cases h; exact i
    · rename_i k hx hw
      have hready := send_write_ok hw
      have hnone := i.S.ready hready
      split at h
      · cases h
      · rename_i sys' hs
        cases h
        obtain ⟨w1, w2, w3⟩ := sys_write hs
        have hlen : s.sys.w.length ≤ sys'.w.length := by rw [w1]; simp
        refine ⟨⟨SendBuffer.step_inv _ _ _ i.S.sb hs, hp, rfl, i.S.ready, ?_, i.S.ds_fin, i.S.rs, i.S.rcode, ?_, ?_, ?_⟩,
          i.G.mono (fun f hf => hf) (fun f hf => Or.inl hf) (fun f hf => hf) (fun r hr => Or.inl (w3 ▸ hr)),
          i.R.sender i.S rfl rfl rfl rfl hlen (fun hne => absurd hready hne) (fun n hn => hn) (fun c hc => hc)⟩
        · intro n hn; rw [hnone.1] at hn; cases hn
        · intro off bytes fin hf
          obtain ⟨b1, b2, b3⟩ := i.S.netS off bytes fin hf
          exact ⟨b1, Nat.le_trans b2 hlen, b3⟩
        · intro c fs hf
          have := (i.S.netR c fs hf).1
          rw [hnone.2] at this; cases this
        · intro _ hst
          have : s.half.state = .dataSent false := hst
          rw [hready] at this; cases this

theorem send_finish_ok {h h' : Streams.Send} (hf : h.finish = .ok h') :
    h.state = .ready ∧ h' = { h with state := .dataSent false, finPending := true } := by
  unfold Streams.Send.finish at hf
  split at hf
  · cases hf
  · split at hf
    · rename_i hr; cases hf; exact ⟨hr, rfl⟩
    · cases hf

theorem inv_finish {g : Nat → Nat} {s s' : St} (i : Inv g s) (h : finish s = some s') : Inv g s' := by
  unfold finish at h
  split at h
  · cases h; exact i
  · split at h
    · cases h; exact i
    · rename_i h' hf
      obtain ⟨hready, rfl⟩ := send_finish_ok hf
      have hnone := i.S.ready hready
      cases h
      refine ⟨⟨i.S.sb, i.S.wg, i.S.pend, ?_, ?_, ?_, ?_, i.S.rcode, ?_, i.S.netR, ?_⟩,
        i.G.mono (fun f hf => hf) (fun f hf => Or.inl hf) (fun f hf => hf) (fun r hr => Or.inl hr),
        i.R.sender i.S rfl rfl rfl rfl (Nat.le_refl _) (fun _ => rfl)
          (fun n hn => by rw [hnone.1] at hn; cases hn) (fun c hc => hc)⟩
      · intro hst; cases hst
      · intro n hn
        simp only [Option.some.injEq] at hn
        exact ⟨by rw [← hn]; exact i.S.sb.wlen.symm, by intro hst; cases hst⟩
      · intro _ hn; cases hn
      · constructor
        · intro hne; exact absurd hnone.2 hne
        · intro hst; cases hst
      · intro off bytes fin hf
        obtain ⟨b1, b2, b3⟩ := i.S.netS off bytes fin hf
        refine ⟨b1, b2, ?_⟩
        intro hfin; have := b3 hfin; rw [hnone.1] at this; cases this
      · intro _ _; exact Or.inl rfl

theorem send_reset_state {h : Streams.Send} : h.reset = { h with state := .resetSent } := by
  unfold Streams.Send.reset
  split
  · rfl
  · rfl
  · rename_i hr; cases h; simp only at hr; subst hr; rfl

theorem inv_reset {g : Nat → Nat} {s s' : St} {code : Nat} (i : Inv g s) (h : reset s code = some s') :
    Inv g s' := by
  unfold reset at h
  split at h
  · cases h; exact i
  · split at h
    · cases h; exact i
    · rename_i hns
      have hnone : s.appReset = none := by
        cases ha : s.appReset with
        | none => rfl
        | some c => exact absurd (i.S.rs.mp (by rw [ha]; simp)) hns
      cases h
      rw [send_reset_state]
      refine ⟨⟨i.S.sb, i.S.wg, i.S.pend, ?_, ?_, ?_, ?_, rfl, i.S.netS, ?_, ?_⟩,
        i.G.mono (fun f hf => hf) (fun f hf => Or.inl hf) (fun f hf => hf) (fun r hr => Or.inl hr),
        i.R.sender i.S rfl rfl rfl rfl (Nat.le_refl _) (fun _ => rfl) (fun n hn => hn)
          (fun c hc => by rw [hnone] at hc; cases hc)⟩
      · intro hst; cases hst
      · intro n hn; exact ⟨(i.S.fin_at n hn).1, by intro hst; cases hst⟩
      · intro hd; cases hd
      · exact ⟨fun _ => rfl, fun _ => by simp⟩
      · intro c fs hf
        have := (i.S.netR c fs hf).1
        rw [hnone] at this; cases this
      · intro _ hst; cases hst

/-- the half changed only in fields the invariant does not look at -/
theorem inv_half {g : Nat → Nat} {s : St} {h' : Streams.Send} (i : Inv g s) (h1 : h'.state = s.half.state)
    (h2 : h'.pending = s.half.pending) (h3 : h'.finPending = s.half.finPending) :
    Inv g { s with half := h' } := by
  refine ⟨⟨i.S.sb, i.S.wg, h2.trans i.S.pend, ?_, ?_, ?_, ?_, i.S.rcode, i.S.netS, i.S.netR, ?_⟩,
    i.G.mono (fun f hf => hf) (fun f hf => Or.inl hf) (fun f hf => hf) (fun r hr => Or.inl hr),
    i.R.sender i.S rfl rfl rfl rfl (Nat.le_refl _) (fun _ => rfl) (fun n hn => hn) (fun c hc => hc)⟩
  · show h'.state = .ready → _; rw [h1]; exact i.S.ready
  · intro n hn; show _ ∧ h'.state ≠ .ready; rw [h1]; exact i.S.fin_at n hn
  · show isDataSent h'.state = true → _; rw [h1]; exact i.S.ds_fin
  · show _ ↔ h'.state = .resetSent; rw [h1]; exact i.S.rs
  · show _ → h'.state = .dataSent false → h'.finPending = true ∨ _; rw [h1, h3]; exact i.S.finLive

theorem inv_maxStreamData {g : Nat → Nat} {s s' : St} {v : Nat} (i : Inv g s)
    (h : maxStreamData s v = some s') : Inv g s' := by
  unfold maxStreamData at h
  split at h
  · cases h; exact i
  · cases h
    apply inv_half i <;> (unfold Streams.Send.increaseMaxData; split <;> rfl)

theorem inv_stopSending {g : Nat → Nat} {s s' : St} (i : Inv g s) (h : stopSending s = some s') :
    Inv g s' := by
  unfold stopSending at h
  split at h
  · cases h
  · split at h
    · cases h; exact i
    · cases h
      apply inv_half i <;> (unfold Streams.Send.tryStop; split <;> rfl)

theorem inv_transmitReset {g : Nat → Nat} {s s' : St} (i : Inv g s) (h : transmitReset s = some s') :
    Inv g s' := by
  unfold transmitReset at h
  split at h
  · cases h
  · split at h
    · cases h
    · rename_i c hc
      cases h
      refine ⟨⟨i.S.sb, i.S.wg, i.S.pend, i.S.ready, i.S.fin_at, i.S.ds_fin, i.S.rs, i.S.rcode, ?_, ?_, i.S.finLive⟩,
        i.G.mono (fun f hf => List.mem_cons_of_mem _ hf) (fun f hf => Or.inl hf) (fun f hf => hf)
          (fun r hr => Or.inl hr),
        i.R.sender i.S rfl rfl rfl rfl (Nat.le_refl _) (fun _ => rfl) (fun n hn => hn) (fun c hc => hc)⟩
      · intro off bytes fin hf
        rcases List.mem_cons.mp hf with hf | hf
        · cases hf
        · exact i.S.netS off bytes fin hf
      · intro c' fs hf
        rcases List.mem_cons.mp hf with hf | hf
        · simp only [Frame.reset.injEq] at hf
          obtain ⟨rfl, rfl⟩ := hf
          refine ⟨by rw [← i.S.rcode]; exact hc, ?_⟩
          show s.half.pending.offset = _
          rw [i.S.pend]; exact i.S.sb.wlen.symm
        · exact i.S.netR c' fs hf

theorem inv_ackReset {g : Nat → Nat} {s s' : St} (i : Inv g s) (h : ackReset s = some s') : Inv g s' := by
  unfold ackReset at h
  split at h
  · cases h
  · split at h
    · cases h
      refine ⟨⟨i.S.sb, i.S.wg, i.S.pend, i.S.ready, i.S.fin_at, i.S.ds_fin, i.S.rs, i.S.rcode, i.S.netS, i.S.netR, ?_⟩,
        i.G.mono (fun f hf => hf) (fun f hf => Or.inl hf) (fun f hf => hf) (fun r hr => Or.inl hr),
        i.R.sender i.S rfl rfl rfl rfl (Nat.le_refl _) (fun _ => rfl) (fun n hn => hn) (fun c hc => hc)⟩
      intro hl; cases hl
    · cases h; exact i

/-- the copy loop of `write_stream_frames` returns exactly the written bytes of the polled range -/
theorem copy_polled {sys : SendBuffer.Sys} (hi : SendBuffer.Inv sys) {r : Nat × Nat} (hr : r ∈ sys.F) :
    SendBuffer.copyLoop sys.sb (r.2 - r.1) r.1 r.2 = some ((sys.w.drop r.1).take (r.2 - r.1)) ∧
    r.1 ≤ r.2 ∧ r.2 ≤ sys.w.length := by
  have hb := hi.boundF r hr
  have hu := hi.unsent_le
  have hw := hi.wlen
  refine ⟨?_, hb.1, by omega⟩
  by_cases hne : r.1 < r.2
  · exact SendBuffer.copyLoop_spec sys hi r.2 (by omega) (r.2 - r.1) r.1 (hb.2.2 hne) hb.1 (Nat.le_refl _)
  · have : r.1 = r.2 := by omega
    rw [this, Nat.sub_self]; simp [SendBuffer.copyLoop]

theorem inv_transmit {g : Nat → Nat} {s s' : St} {n : Nat} (i : Inv g s) (h : transmit s n = some s') :
    Inv g s' := by
  unfold transmit at h
  split at h
  · cases h
  · split at h
    · cases h
    · rename_i sb' r enc hp
      have hstep := sys_poll hp
      have hi' := SendBuffer.step_inv _ _ _ i.S.sb hstep
      obtain ⟨c1, c2, c3⟩ := copy_polled hi' (r := r) List.mem_cons_self
      split at h
      · cases h
      · rename_i bytes hc
        have hc' : SendBuffer.copyLoop sb' (r.2 - r.1) r.1 r.2 = some ((s.sys.w.drop r.1).take (r.2 - r.1)) := c1
        rw [hc'] at hc
        have hb : bytes = (s.sys.w.drop r.1).take (r.2 - r.1) := (Option.some.inj hc).symm
        have hwl : s.sys.w.length = s.sys.sb.offset := i.S.sb.wlen
        have c3' : r.2 ≤ s.sys.w.length := c3
        have hlen : bytes.length = r.2 - r.1 := by
          rw [hb, List.length_take, List.length_drop]; omega
        cases h
        refine ⟨⟨hi', i.S.wg, rfl, i.S.ready, i.S.fin_at, i.S.ds_fin, i.S.rs, i.S.rcode, ?_, ?_, ?_⟩,
          i.G.mono (fun f hf => List.mem_cons_of_mem _ hf) (fun f hf => Or.inl hf) (fun f hf => hf)
            (fun r hr => Or.inl hr),
          i.R.sender i.S rfl rfl rfl rfl (Nat.le_refl _) (fun _ => rfl) (fun n hn => hn) (fun c hc => hc)⟩
        · intro off b fin hf
          rcases List.mem_cons.mp hf with hf | hf
          · simp only [Frame.stream.injEq] at hf
            obtain ⟨h1, h2, h3⟩ := hf
            rw [h1, h2, h3]
            refine ⟨?_, by show r.1 + bytes.length ≤ s.sys.w.length; omega, ?_⟩
            · rw [hlen, i.S.wg.sub r.1 (r.2 - r.1) (by omega)]; exact hb
            · intro hfin
              simp only [Bool.and_eq_true, beq_iff_eq] at hfin
              have ho := (poll_offset hp).1
              cases hfa : s.finishedAt with
              | none => exact absurd hfa (i.S.ds_fin hfin.2)
              | some m =>
                have := (i.S.fin_at m hfa).1
                show some m = some (r.1 + bytes.length)
                congr 1; omega
          · exact i.S.netS off b fin hf
        · intro c fs hf
          rcases List.mem_cons.mp hf with hf | hf
          · cases hf
          · exact i.S.netR c fs hf
        · intro hl hst
          show (if (r.2 == sb'.offset && isDataSent s.half.state) = true then false else s.half.finPending) = true ∨ _
          by_cases hfin : (r.2 == sb'.offset && isDataSent s.half.state) = true
          · right; exact ⟨(r.1, r.2, r.2 == sb'.offset && isDataSent s.half.state), List.mem_cons_self, hfin⟩
          · rw [if_neg hfin]
            rcases i.S.finLive hl hst with h1 | ⟨t, ht, h2⟩
            · exact Or.inl h1
            · exact Or.inr ⟨t, List.mem_cons_of_mem _ ht, h2⟩

theorem gotStream_spec {s : St} {a e : Nat} {fin : Bool} (h : s.gotStream a e fin = true) :
    ∃ bytes, Frame.stream a bytes fin ∈ s.got ∧ bytes.length = e - a := by
  unfold St.gotStream at h
  obtain ⟨f, hf, hm⟩ := List.any_eq_true.mp h
  cases f with
  | stream o b f' =>
    simp only [Bool.and_eq_true, beq_iff_eq] at hm
    obtain ⟨⟨rfl, h2⟩, rfl⟩ := hm
    exact ⟨b, hf, h2⟩
  | reset c fs => cases hm

/-- only the list of frames in flight shrank, on a half that is gone or reset -/
theorem inv_eraseT {g : Nat → Nat} {s : St} {t : Nat × Nat × Bool} (i : Inv g s)
    (hd : s.live = true → s.half.state = .dataSent false → False) : Inv g { s with T := s.T.erase t } := by
  refine ⟨⟨i.S.sb, i.S.wg, i.S.pend, i.S.ready, i.S.fin_at, i.S.ds_fin, i.S.rs, i.S.rcode, i.S.netS, i.S.netR, ?_⟩,
    i.G.mono (fun f hf => hf) (fun f hf => Or.inl hf) (fun f hf => hf) (fun r hr => Or.inl hr),
    i.R.sender i.S rfl rfl rfl rfl (Nat.le_refl _) (fun _ => rfl) (fun n hn => hn) (fun c hc => hc)⟩
  intro hl hst; exact absurd (hd hl hst) id

theorem inv_ack {g : Nat → Nat} {s s' : St} {a e : Nat} {fin : Bool} (i : Inv g s)
    (h : ack s a e fin = some s') : Inv g s' := by
  unfold ack at h
  split at h
  · cases h
  · rename_i hen
    have hgot : s.gotStream a e fin = true := by
      cases hg : s.gotStream a e fin with
      | true => rfl
      | false => exact absurd (Or.inr (Or.inr hg)) hen
    obtain ⟨gb, hgb, hgl⟩ := gotStream_spec hgot
    split at h
    · rename_i hdead
      cases h
      apply inv_eraseT i
      intro hl hst
      simp only [hl, Bool.not_true, Bool.false_or, Streams.Send.isReset, hst] at hdead
      cases hdead
    · rename_i hlive
      have hl : s.live = true := by
        cases hh : s.live with
        | true => rfl
        | false => simp [hh] at hlive
      split at h
      · cases h
      · rename_i sys' hs
        obtain ⟨w1, w2, w3⟩ := sys_ack hs
        have hi' := SendBuffer.step_inv _ _ _ i.S.sb hs
        have hG : ∀ (x : St), x.net = s.net → x.got = s.got → x.sys = sys' → GInv x := by
          intro x x1 x2 x3
          refine ⟨by rw [x1, x2]; exact i.G.got_net, ?_⟩
          rw [x3, w2, x2]
          intro r hr
          rcases List.mem_cons.mp hr with rfl | hr
          · exact ⟨gb, fin, hgb, hgl⟩
          · exact i.G.ackd_got r hr
        have hR : ∀ (x : St), x.rv = s.rv → x.asm = s.asm → x.eos = s.eos → x.sawReset = s.sawReset →
            x.sys = sys' → x.finishedAt = s.finishedAt → x.appReset = s.appReset → RInv g x := by
          intro x x1 x2 x3 x4 x5 x6 x7
          exact i.R.sender i.S x1 x2 x3 x4 (by rw [x5, w1]; exact Nat.le_refl _) (fun _ => by rw [x5, w1])
            (fun n hn => by rw [x6]; exact hn) (fun c hc => by rw [x7]; exact hc)
        split at h
        · rename_i fa hst
          cases h
          have hnr : s.appReset = none := by
            cases ha : s.appReset with
            | none => rfl
            | some c => have := i.S.rs.mp (by rw [ha]; simp); rw [hst] at this; cases this
          refine ⟨⟨hi', by show Pre g sys'.w; rw [w1]; exact i.S.wg, rfl, ?_, ?_, ?_, ?_, i.S.rcode, ?_, ?_, ?_⟩,
            hG _ rfl rfl rfl, hR _ rfl rfl rfl rfl rfl rfl rfl⟩
          · intro hh; cases hh
          · intro n hn
            exact ⟨by show n = sys'.w.length; rw [w1]; exact (i.S.fin_at n hn).1, by intro hh; cases hh⟩
          · intro _; exact i.S.ds_fin (by rw [hst]; rfl)
          · constructor
            · intro hne; exact absurd hnr hne
            · intro hh; cases hh
          · intro off b f hf
            obtain ⟨b1, b2, b3⟩ := i.S.netS off b f hf
            exact ⟨b1, by show _ ≤ sys'.w.length; rw [w1]; exact b2, b3⟩
          · intro c fs hf
            obtain ⟨b1, b2⟩ := i.S.netR c fs hf
            exact ⟨b1, by show _ = sys'.w.length; rw [w1]; exact b2⟩
          · intro _ hst'
            have hff : (fa || fin) = false := by
              have : Streams.SendState.dataSent (fa || fin) = .dataSent false := hst'
              simpa using this
            simp only [Bool.or_eq_false_iff] at hff
            obtain ⟨rfl, rfl⟩ := hff
            rcases i.S.finLive hl hst with h1 | ⟨t, ht, h2⟩
            · exact Or.inl h1
            · refine Or.inr ⟨t, (List.mem_erase_of_ne ?_).mpr ht, h2⟩
              intro heq; rw [heq] at h2; cases h2
        · rename_i hnd
          cases h
          refine ⟨⟨hi', by show Pre g sys'.w; rw [w1]; exact i.S.wg, rfl, i.S.ready, ?_, i.S.ds_fin, i.S.rs,
            i.S.rcode, ?_, ?_, ?_⟩, hG _ rfl rfl rfl, hR _ rfl rfl rfl rfl rfl rfl rfl⟩
          · intro n hn
            exact ⟨by show n = sys'.w.length; rw [w1]; exact (i.S.fin_at n hn).1, (i.S.fin_at n hn).2⟩
          · intro off b f hf
            obtain ⟨b1, b2, b3⟩ := i.S.netS off b f hf
            exact ⟨b1, by show _ ≤ sys'.w.length; rw [w1]; exact b2, b3⟩
          · intro c fs hf
            obtain ⟨b1, b2⟩ := i.S.netR c fs hf
            exact ⟨b1, by show _ = sys'.w.length; rw [w1]; exact b2⟩
          · intro _ hst'
            exact absurd hst' (hnd false)

theorem inv_lose {g : Nat → Nat} {s s' : St} {a e : Nat} {fin : Bool} (i : Inv g s)
    (h : lose s a e fin = some s') : Inv g s' := by
  unfold lose at h
  split at h
  · cases h
  · split at h
    · rename_i hdead
      cases h
      apply inv_eraseT i
      intro hl _
      simp [hl] at hdead
    · rename_i hlive
      have hl : s.live = true := by
        cases hh : s.live with
        | true => rfl
        | false => simp [hh] at hlive
      split at h
      · cases h
      · rename_i sys' hs
        obtain ⟨w1, w2, w3⟩ := sys_lose hs
        have hi' := SendBuffer.step_inv _ _ _ i.S.sb hs
        cases h
        refine ⟨⟨hi', by show Pre g sys'.w; rw [w1]; exact i.S.wg, rfl, i.S.ready, ?_, i.S.ds_fin, i.S.rs,
          i.S.rcode, ?_, ?_, ?_⟩, ⟨i.G.got_net, ?_⟩,
          i.R.sender i.S rfl rfl rfl rfl (by show _ ≤ sys'.w.length; rw [w1]; exact Nat.le_refl _)
            (fun _ => by show sys'.w.length = _; rw [w1]) (fun n hn => hn) (fun c hc => hc)⟩
        · intro n hn
          exact ⟨by show n = sys'.w.length; rw [w1]; exact (i.S.fin_at n hn).1, (i.S.fin_at n hn).2⟩
        · intro off b f hf
          obtain ⟨b1, b2, b3⟩ := i.S.netS off b f hf
          exact ⟨b1, by show _ ≤ sys'.w.length; rw [w1]; exact b2, b3⟩
        · intro c fs hf
          obtain ⟨b1, b2⟩ := i.S.netR c fs hf
          exact ⟨b1, by show _ = sys'.w.length; rw [w1]; exact b2⟩
        · intro _ hst
          show (s.half.finPending || fin) = true ∨ _
          rcases i.S.finLive hl hst with h1 | ⟨t, ht, h2⟩
          · left; rw [h1]; rfl
          · by_cases heq : t = (a, e, fin)
            · left; rw [heq] at h2; simp only at h2; rw [h2]; simp
            · exact Or.inr ⟨t, (List.mem_erase_of_ne heq).mpr ht, h2⟩
        · show ∀ r ∈ sys'.ackd, _
          rw [w2]; exact i.G.ackd_got

end QM.E2E
