import QuinnModel.Lemmas.Index
/-
Zero-length connection IDs: the address-tuple tables.  `ConnectionIndex::insert_conn` overwrites the entry of
a key (`HashMap::insert`), `ConnectionIndex::remove` drops an entry only if it still belongs to the connection
being removed.  Hence: the entry of a key always belongs to the most recent connection established on it
and stays until that connection drains or a newer one claims the key (`in_entry_stable`,
`out_entry_stable`, in IndexStable); draining one connection never touches another's entries (`drained_lookups`); and as
long as no two simultaneously live connections of the same side use the same key — one hash-map slot
cannot serve two connections — every live connection is registered (`tinv_run`).
-/
namespace QM.Index

/-- the connections (side, tuple) and (side', tuple') use the same slot of the same tuple table -/
def SameKey (side : Side) (a : FourTuple) (side' : Side) (a' : FourTuple) : Prop :=
  side' = side ∧ ((side = .server ∧ a' = a) ∨ (side = .client ∧ a'.remote = a.remote))

instance (side : Side) (a : FourTuple) (side' : Side) (a' : FourTuple) : Decidable (SameKey side a side' a') := by
  unfold SameKey; exact inferInstance

def Conflict (m m' : Meta) : Prop := SameKey m.side m.addresses m'.side m'.addresses

/-- zero-length CIDs: every live connection is registered under its address tuple -/
def TupleComplete (s : State) : Prop :=
  ∀ h m, s.conns.get h = some m →
    (m.side = .server → alookup m.addresses s.index.inRemotes = some h) ∧
    (m.side = .client → alookup m.addresses.remote s.index.outRemotes = some h)

structure TInv (s : State) : Prop where
  complete : s.cidLen = 0 → TupleComplete s

/-- the step changed neither the CID length, nor the tuple tables, nor the side / addresses of any live
    connection, nor which handles are live -/
structure Frame (s s' : State) : Prop where
  cidLen : s'.cidLen = s.cidLen
  inR : s'.index.inRemotes = s.index.inRemotes
  outR : s'.index.outRemotes = s.index.outRemotes
  fwd : ∀ h m', s'.conns.get h = some m' →
    ∃ m, s.conns.get h = some m ∧ m.side = m'.side ∧ m.addresses = m'.addresses

theorem Frame.refl (s : State) : Frame s s := ⟨rfl, rfl, rfl, fun _ m h => ⟨m, h, rfl, rfl⟩⟩

theorem Frame.trans {a b c : State} (h1 : Frame a b) (h2 : Frame b c) : Frame a c := by
  refine ⟨h2.cidLen.trans h1.cidLen, h2.inR.trans h1.inR, h2.outR.trans h1.outR, ?_⟩
  intro h m' hm'
  obtain ⟨m1, g1, g2, g3⟩ := h2.fwd h m' hm'
  obtain ⟨m0, k1, k2, k3⟩ := h1.fwd h m1 g1
  exact ⟨m0, k1, k2.trans g2, k3.trans g3⟩

theorem tinv_frame {s s' : State} (ht : TInv s) (hf : Frame s s') : TInv s' := by
  constructor
  intro h0 h m g
  obtain ⟨m0, k1, k2, k3⟩ := hf.fwd h m g
  have := ht.complete (by rw [← hf.cidLen]; exact h0) h m0 k1
  rw [hf.inR, hf.outR, ← k2, ← k3]; exact this

theorem frame_set {s : State} {ch : Nat} {m m' : Meta} (hm : s.conns.get ch = some m)
    (hside : m'.side = m.side) (haddr : m'.addresses = m.addresses) (ix : Index)
    (hi : ix.inRemotes = s.index.inRemotes) (ho : ix.outRemotes = s.index.outRemotes) :
    Frame s { s with conns := s.conns.set ch m', index := ix } := by
  refine ⟨rfl, hi, ho, ?_⟩
  intro h mm hmm
  by_cases hh : h = ch
  · subst hh
    rw [Slab.get_set_self m' (Slab.get_lt hm)] at hmm
    cases hmm
    exact ⟨m, hm, hside.symm, haddr.symm⟩
  · rw [Slab.get_set_ne m' hh] at hmm
    exact ⟨mm, hmm, rfl, rfl⟩

theorem frame_newCid {s s1 : State} {ch : Nat} {cands c1 : List Cid} {id : Cid}
    (h : newCid s ch cands = some (id, s1, c1)) : Frame s s1 := by
  rcases newCid_spec h with ⟨-, -, rfl⟩ | ⟨-, -, -, rfl⟩
  · exact Frame.refl _
  · exact ⟨rfl, rfl, rfl, fun _ m h => ⟨m, h, rfl, rfl⟩⟩

theorem frame_sendNewIdentifiers {ch : Nat} (n : Nat) : ∀ {s s' : State} {cands c' : List Cid}
    {ids : List (Nat × Cid)}, sendNewIdentifiers s ch n cands = some (s', ids, c') → Frame s s' := by
  induction n with
  | zero =>
    intro s s' cands c' ids h
    simp only [sendNewIdentifiers, Option.some.injEq, Prod.mk.injEq] at h
    obtain ⟨rfl, -, -⟩ := h; exact Frame.refl _
  | succ n ih =>
    intro s s' cands c' ids h
    unfold sendNewIdentifiers at h
    split at h
    · simp at h
    · rename_i id s1 c1 hnew
      split at h
      · simp at h
      · rename_i m hm
        dsimp only at h
        split at h
        · simp at h
        · rename_i s2 ids2 c2 hrec
          simp only [Option.some.injEq, Prod.mk.injEq] at h
          obtain ⟨rfl, -, -⟩ := h
          refine (frame_newCid hnew).trans (Frame.trans ?_ (ih hrec))
          refine frame_set hm ?_ ?_ _ ?_ ?_ <;> rfl

theorem frame_resetToken {s s' : State} {ch : Nat} {remote : Addr} {token : Token}
    (h : evResetToken s ch remote token = some s') : Frame s s' := by
  unfold evResetToken at h
  split at h
  · simp at h
  · rename_i m hm
    simp only [Option.some.injEq] at h; subst h
    refine frame_set hm ?_ ?_ _ ?_ ?_ <;> rfl

theorem frame_retire {s s' : State} {ch seq : Nat} {allow : Bool} {cands : List Cid}
    {r : Option (List (Nat × Cid))} (h : evRetire s ch seq allow cands = some (s', r)) : Frame s s' := by
  unfold evRetire at h
  split at h
  · simp at h
  · rename_i m hm
    split at h
    · simp only [Option.some.injEq, Prod.mk.injEq] at h; obtain ⟨rfl, -⟩ := h; exact Frame.refl _
    · rename_i cid hcid
      have f1 : Frame s { s with conns := s.conns.set ch { m with locCids := aerase seq m.locCids },
                                 index := s.index.retire cid } := by
        refine frame_set hm ?_ ?_ _ ?_ ?_ <;> rfl
      dsimp only at h
      split at h
      · split at h
        · simp at h
        · rename_i s2 ids c2 hsend
          simp only [Option.some.injEq, Prod.mk.injEq] at h; obtain ⟨rfl, -⟩ := h
          exact f1.trans (frame_sendNewIdentifiers 1 hsend)
      · simp only [Option.some.injEq, Prod.mk.injEq] at h; obtain ⟨rfl, -⟩ := h
        exact f1

theorem frame_firstPacket {s s' : State} {a : FourTuple} {dcid : Cid} {data : Bytes} {r : FirstResult}
    (h : firstPacket s a dcid data = some (s', r)) : Frame s s' := by
  unfold firstPacket at h
  split at h
  · simp only [Option.some.injEq, Prod.mk.injEq] at h; obtain ⟨rfl, -⟩ := h; exact Frame.refl _
  · split at h
    · simp at h
    · simp only [Option.some.injEq, Prod.mk.injEq] at h; obtain ⟨rfl, -⟩ := h
      refine ⟨rfl, ?_, ?_, fun _ m h => ⟨m, h, rfl, rfl⟩⟩ <;>
        (unfold Index.insertInitialIncoming; split <;> rfl)

theorem frame_removeInitial {s : State} {d : Cid} {ix : Index} {inc : Slab Pending}
    (h : s.index.removeInitial d = some ix) : Frame s { s with incoming := inc, index := ix } := by
  obtain ⟨-, e2, e3, -, -⟩ := removeInitial_spec h
  exact ⟨rfl, e2, e3, fun _ m h => ⟨m, h, rfl, rfl⟩⟩

theorem frame_cleanUp {s s' : State} {idx : Nat} (h : cleanUpIncoming s idx = some s') : Frame s s' := by
  unfold cleanUpIncoming at h
  split at h
  · simp at h
  · split at h
    · simp at h
    · rename_i ix hri
      split at h
      · simp at h
      · simp only [Option.some.injEq] at h; subst h
        exact frame_removeInitial hri

/-- a connection is added in slot `ch` (`add_connection` + `insert_conn`) and no live connection uses its key -/
theorem tinv_add {s s2 : State} {ch : Nat} {mN : Meta} {loc : Cid} {ix : Index}
    (ht : TInv s) (a2 : s.conns.get ch = none) (a3 : s2.conns.get ch = some mN)
    (a4 : ∀ k, k ≠ ch → s2.conns.get k = s.conns.get k) (hc : s2.cidLen = s.cidLen)
    (hloc : s.cidLen = 0 → loc = [])
    (hix : ix.inRemotes = s.index.inRemotes ∧ ix.outRemotes = s.index.outRemotes)
    (hin : s2.index.inRemotes = (ix.insertConn mN.addresses loc ch mN.side).inRemotes)
    (hout : s2.index.outRemotes = (ix.insertConn mN.addresses loc ch mN.side).outRemotes)
    (hno : s.cidLen = 0 → ∀ h m, s.conns.get h = some m → ¬ Conflict mN m) : TInv s2 := by
  constructor
  intro h0
  rw [hc] at h0
  have tc := ht.complete h0
  have hn := hno h0
  have hl := hloc h0
  subst hl
  simp only [Index.insertConn, List.length_nil, if_true] at hin hout
  intro h m g
  by_cases e1 : h = ch
  · subst e1
    rw [a3] at g; cases g
    cases hside : mN.side with
    | server =>
      simp only [hside] at hin hout
      rw [hin]; simp [alookup_ainsert]
    | client =>
      simp only [hside] at hin hout
      rw [hout]; simp [alookup_ainsert]
  · rw [a4 h e1] at g
    have tcm := tc h m g
    have hcf := hn h m g
    unfold Conflict SameKey at hcf
    cases hside : mN.side with
    | server =>
      simp only [hside] at hin hout hcf
      rw [hin, hout, hix.1, hix.2]
      refine ⟨fun hs => ?_, tcm.2⟩
      rw [alookup_ainsert]
      have : ¬ mN.addresses = m.addresses := fun e => hcf ⟨hs, Or.inl (by simp [e])⟩
      simp [this, tcm.1 hs]
    | client =>
      simp only [hside] at hin hout hcf
      rw [hin, hout, hix.1, hix.2]
      refine ⟨tcm.1, fun hs => ?_⟩
      rw [alookup_ainsert]
      have : ¬ mN.addresses.remote = m.addresses.remote := fun e => hcf ⟨hs, Or.inr (by simp [e])⟩
      simp [this, tcm.2 hs]

/-- `EndpointEvent::Drained`: the other connections stay registered, unconditionally -/
theorem tinv_drained {s s' : State} {ch : Nat} (ht : TInv s) (h : evDrained s ch = some s') : TInv s' := by
  unfold evDrained at h
  split at h
  · rename_i conn conns htr
    split at h
    · simp at h
    · rename_i ix' hrem
      simp only [Option.some.injEq] at h; subst h
      obtain ⟨g0, g1, g2⟩ := Slab.tryRemove_some htr
      obtain ⟨-, -, r3, r4, -⟩ := remove_spec hrem
      constructor
      intro h0 h m g
      simp only [] at g h0 ⊢
      have e1 : h ≠ ch := by intro e; subst e; rw [g1] at g; cases g
      rw [g2 h e1] at g
      have tc := ht.complete h0 h m g
      rw [r3, r4]
      refine ⟨fun hs => ?_, fun hs => ?_⟩
      · have := tc.1 hs
        have hne : ¬ (some h = some ch) := by simpa using e1
        simp [this, hne]
      · have := tc.2 hs
        have hne : ¬ (some h = some ch) := by simpa using e1
        simp [this, hne]
  · simp only [Option.some.injEq] at h; subst h; exact ht

theorem newCid_same {s s1 : State} {ch : Nat} {cands c1 : List Cid} {id : Cid}
    (h : newCid s ch cands = some (id, s1, c1)) :
    s1.conns = s.conns ∧ s1.incoming = s.incoming ∧ s1.cidLen = s.cidLen ∧ s1.prefAddr = s.prefAddr ∧
    s1.index.inRemotes = s.index.inRemotes ∧ s1.index.outRemotes = s.index.outRemotes ∧
    (s.cidLen = 0 → id = []) := by
  rcases newCid_spec h with ⟨rfl, -, rfl⟩ | ⟨-, h0, -, rfl⟩
  · exact ⟨rfl, rfl, rfl, rfl, rfl, rfl, fun _ => rfl⟩
  · exact ⟨rfl, rfl, rfl, rfl, rfl, rfl, fun e => absurd e h0⟩

/-- the call adds no connection whose tuple-table key is in use by a live connection of the same side
    (only matters for zero-length CIDs): one hash-map slot cannot route two connections -/
def AddsDisjoint (s : State) : Op → Prop
  | .connect remote _ _ _ => s.cidLen = 0 → ∀ h m, s.conns.get h = some m →
      ¬ SameKey .client ⟨remote, none⟩ m.side m.addresses
  | .accept idx _ _ => s.cidLen = 0 → ∀ p, s.incoming.get idx = some p → ∀ h m, s.conns.get h = some m →
      ¬ SameKey .server p.addresses m.side m.addresses
  | _ => True

theorem frame_retire_index {s : State} (c : Cid) : Frame s { s with index := s.index.retire c } :=
  ⟨rfl, rfl, rfl, fun _ m h => ⟨m, h, rfl, rfl⟩⟩

theorem tinv_connect {s s' : State} {remote : Addr} {initCid : Cid} {tls : Bool} {cands : List Cid}
    {res : ConnectResult} (ht : TInv s) (hd : AddsDisjoint s (.connect remote initCid tls cands))
    (h : connect s remote initCid tls cands = some (s', res)) : TInv s' := by
  unfold connect at h
  split at h
  · simp only [Option.some.injEq, Prod.mk.injEq] at h; obtain ⟨rfl, -⟩ := h; exact ht
  · split at h
    · simp only [Option.some.injEq, Prod.mk.injEq] at h; obtain ⟨rfl, -⟩ := h; exact ht
    · dsimp only at h
      split at h
      · simp at h
      · rename_i loc s1 c1 hnew
        have ht1 := tinv_frame ht (frame_newCid hnew)
        obtain ⟨n1, n2, n3, n4, n5, n6, n7⟩ := newCid_same hnew
        split at h
        · simp only [Option.some.injEq, Prod.mk.injEq] at h; obtain ⟨rfl, -⟩ := h
          exact tinv_frame ht1 (frame_retire_index loc)
        · split at h
          · simp at h
          · rename_i s2 hadd
            simp only [Option.some.injEq, Prod.mk.injEq] at h; obtain ⟨rfl, -⟩ := h
            obtain ⟨a1, a2, a3, a4, a5, a6, a7, a8⟩ := addConnection_spec hadd
            obtain ⟨f1, f2, f3, f4, f5, f6⟩ := newMeta_fields initCid loc ⟨remote, none⟩ .client none
            generalize newMeta initCid loc ⟨remote, none⟩ .client none = mN at a3 f1 f2 f3 f4 f5 f6
            refine tinv_add (ix := s1.index) (loc := loc) ht1 a2 a3 a4 a6 (by rw [n3]; exact n7) ⟨rfl, rfl⟩
              (by rw [a8, f2, f3]) (by rw [a8, f2, f3]) ?_
            intro h0 h m g
            rw [n3] at h0; rw [n1] at g
            unfold Conflict; rw [f2, f3]
            exact hd h0 h m g

theorem insertInitial_tuples (ix : Index) (d : Cid) (ch : Nat) :
    (ix.insertInitial d ch).inRemotes = ix.inRemotes ∧ (ix.insertInitial d ch).outRemotes = ix.outRemotes := by
  unfold Index.insertInitial; split <;> exact ⟨rfl, rfl⟩

theorem tinv_accept {s s' : State} {idx : Nat} {mode : AcceptMode} {cands : List Cid} {r : AcceptResult}
    (ht : TInv s) (hd : AddsDisjoint s (.accept idx mode cands))
    (h : accept s idx mode cands = some (s', r)) : TInv s' := by
  unfold accept at h
  split at h
  · simp at h
  · rename_i p inc hrem
    have hp : s.incoming.get idx = some p := (Slab.remove_spec hrem).1
    have hfail : ∀ r0 : AcceptResult,
        (match ({ s with incoming := inc } : State).index.removeInitial p.dcid with
          | none => none
          | some ix => some ({ ({ s with incoming := inc } : State) with index := ix }, r0)) = some (s', r) →
        TInv s' := by
      intro r0 hf
      split at hf
      · simp at hf
      · rename_i ix hri
        simp only [Option.some.injEq, Prod.mk.injEq] at hf; obtain ⟨rfl, -⟩ := hf
        exact tinv_frame ht (frame_removeInitial hri)
    dsimp only at h
    split at h
    · exact hfail _ h
    · split at h
      · split at h
        · simp at h
        · exact hfail _ h
      · split at h
        · exact hfail _ h
        · split at h
          · simp at h
          · rename_i loc s1 c1 hnew
            obtain ⟨n1, n2, n3, n4, n5, n6, n7⟩ := newCid_same hnew
            simp only [] at n1 n2 n3 n4 n5 n6 n7
            split at h
            · simp at h
            · rename_i pref s2 c2 hp2
              have h12 : Frame s1 s2 ∧ s2.conns = s1.conns ∧ s2.cidLen = s1.cidLen ∧
                  s2.index.inRemotes = s1.index.inRemotes ∧ s2.index.outRemotes = s1.index.outRemotes := by
                split at hp2
                · split at hp2
                  · simp at hp2
                  · rename_i cid s2' c2' hn2
                    simp only [Option.some.injEq, Prod.mk.injEq] at hp2
                    obtain ⟨-, rfl, -⟩ := hp2
                    obtain ⟨k1, k2, k3, k4, k5, k6, k7⟩ := newCid_same hn2
                    exact ⟨frame_newCid hn2, k1, k3, k5, k6⟩
                · simp only [Option.some.injEq, Prod.mk.injEq] at hp2
                  obtain ⟨-, rfl, -⟩ := hp2
                  exact ⟨Frame.refl _, rfl, rfl, rfl, rfl⟩
              obtain ⟨fr12, q1, q2, q3, q4⟩ := h12
              have f00 : Frame s { s with incoming := inc } := ⟨rfl, rfl, rfl, fun _ m h => ⟨m, h, rfl, rfl⟩⟩
              have f02 : Frame s s2 := Frame.trans (Frame.trans f00 (frame_newCid hnew)) fr12
              have ht2 := tinv_frame ht f02
              split at h
              · simp at h
              · rename_i s3 hadd
                obtain ⟨a1, a2, a3, a4, a5, a6, a7, a8⟩ := addConnection_spec hadd
                obtain ⟨f1, f2, f3, f4, f5, f6⟩ := newMeta_fields p.dcid loc p.addresses .server pref
                generalize newMeta p.dcid loc p.addresses .server pref = mN at a3 f1 f2 f3 f4 f5 f6
                have ht4 : TInv { s3 with index := s3.index.insertInitial p.dcid s.conns.vacantKey } := by
                  refine tinv_add (ix := s2.index) (loc := loc) ht2 a2 a3 a4 a6 ?_ ⟨rfl, rfl⟩ ?_ ?_ ?_
                  · intro h0; apply n7; rw [← n3, ← q2]; exact h0
                  · show (s3.index.insertInitial _ _).inRemotes = _
                    rw [(insertInitial_tuples _ _ _).1, a8, f2, f3]
                  · show (s3.index.insertInitial _ _).outRemotes = _
                    rw [(insertInitial_tuples _ _ _).2, a8, f2, f3]
                  · intro h0 h m g
                    rw [q2, n3] at h0; rw [q1, n1] at g
                    unfold Conflict; rw [f2, f3]
                    exact hd h0 p hp h m g
                split at h
                · split at h
                  · rename_i s5 _ hdr _
                    simp only [Option.some.injEq, Prod.mk.injEq] at h; obtain ⟨rfl, -⟩ := h
                    exact tinv_drained ht4 hdr
                  · simp at h
                · simp only [Option.some.injEq, Prod.mk.injEq] at h; obtain ⟨rfl, -⟩ := h
                  exact ht4

/-- the tuple invariant is preserved by every call that adds no conflicting connection -/
theorem tinv_step {s s' : State} {op : Op} (ht : TInv s) (hd : AddsDisjoint s op)
    (h : step s op = some s') : TInv s' := by
  cases op with
  | connect r i t c =>
    simp only [step, Option.map_eq_some_iff] at h
    obtain ⟨⟨s1, res⟩, h1, rfl⟩ := h
    exact tinv_connect ht hd h1
  | first a d b =>
    simp only [step, Option.map_eq_some_iff] at h
    obtain ⟨⟨s1, res⟩, h1, rfl⟩ := h
    exact tinv_frame ht (frame_firstPacket h1)
  | accept i m c =>
    simp only [step, Option.map_eq_some_iff] at h
    obtain ⟨⟨s1, res⟩, h1, rfl⟩ := h
    exact tinv_accept ht hd h1
  | cleanUp i => exact tinv_frame ht (frame_cleanUp h)
  | refuse i c =>
    simp only [step, refuse] at h
    split at h
    · simp at h
    · rename_i s1 h1
      split at h
      · simp at h
      · simp only [Option.some.injEq] at h; subst h
        exact tinv_frame ht (frame_cleanUp h1)
  | event ch c ev =>
    simp only [step, Option.map_eq_some_iff] at h
    obtain ⟨⟨s1, res⟩, h1, rfl⟩ := h
    cases ev with
    | needIdentifiers n =>
      simp only [handleEvent] at h1
      split at h1
      · simp at h1
      · rename_i s2 ids c2 hsend
        simp only [Option.some.injEq, Prod.mk.injEq] at h1; obtain ⟨rfl, -⟩ := h1
        exact tinv_frame ht (frame_sendNewIdentifiers n hsend)
    | resetToken remote token =>
      simp only [handleEvent, Option.map_eq_some_iff] at h1
      obtain ⟨s2, h2, h3⟩ := h1
      simp only [Prod.mk.injEq] at h3; obtain ⟨rfl, -⟩ := h3
      exact tinv_frame ht (frame_resetToken h2)
    | retireConnectionId seq allow => exact tinv_frame ht (frame_retire h1)
    | drained =>
      simp only [handleEvent, Option.map_eq_some_iff] at h1
      obtain ⟨s2, h2, h3⟩ := h1
      simp only [Prod.mk.injEq] at h3; obtain ⟨rfl, -⟩ := h3
      exact tinv_drained ht h2

theorem tinv_init (n : Nat) (b : Bool) : TInv (init n b) := by
  constructor
  intro _ h m g; simp [init, Slab.get, Slab.empty] at g

theorem tinv_run {cidLen : Nat} {pref : Bool} {ops : List Op} {s : State}
    (hal : Along AddsDisjoint (init cidLen pref) ops) (hr : run cidLen pref ops = some s) : TInv s :=
  inv_runFrom (fun _ _ _ ht hd h => tinv_step ht hd h) (tinv_init cidLen pref) hal hr

/-! ### the CID length is a constant of the endpoint -/

theorem cidLen_drained {s s' : State} {ch : Nat} (h : evDrained s ch = some s') : s'.cidLen = s.cidLen := by
  unfold evDrained at h
  split at h
  · split at h
    · simp at h
    · simp only [Option.some.injEq] at h; subst h; rfl
  · simp only [Option.some.injEq] at h; subst h; rfl

theorem cidLen_connect {s s' : State} {remote : Addr} {initCid : Cid} {tls : Bool} {cands : List Cid}
    {res : ConnectResult} (h : connect s remote initCid tls cands = some (s', res)) :
    s'.cidLen = s.cidLen := by
  unfold connect at h
  split at h
  · simp only [Option.some.injEq, Prod.mk.injEq] at h; obtain ⟨rfl, -⟩ := h; rfl
  · split at h
    · simp only [Option.some.injEq, Prod.mk.injEq] at h; obtain ⟨rfl, -⟩ := h; rfl
    · dsimp only at h
      split at h
      · simp at h
      · rename_i loc s1 c1 hnew
        have n3 := (newCid_same hnew).2.2.1
        split at h
        · simp only [Option.some.injEq, Prod.mk.injEq] at h; obtain ⟨rfl, -⟩ := h; exact n3
        · split at h
          · simp at h
          · rename_i s2 hadd
            simp only [Option.some.injEq, Prod.mk.injEq] at h; obtain ⟨rfl, -⟩ := h
            exact (addConnection_spec hadd).2.2.2.2.2.1.trans n3

theorem cidLen_accept {s s' : State} {idx : Nat} {mode : AcceptMode} {cands : List Cid} {r : AcceptResult}
    (h : accept s idx mode cands = some (s', r)) : s'.cidLen = s.cidLen := by
  unfold accept at h
  split at h
  · simp at h
  · rename_i p inc hrem
    have hfail : ∀ r0 : AcceptResult,
        (match ({ s with incoming := inc } : State).index.removeInitial p.dcid with
          | none => none
          | some ix => some ({ ({ s with incoming := inc } : State) with index := ix }, r0)) = some (s', r) →
        s'.cidLen = s.cidLen := by
      intro r0 hf
      split at hf
      · simp at hf
      · simp only [Option.some.injEq, Prod.mk.injEq] at hf; obtain ⟨rfl, -⟩ := hf; rfl
    dsimp only at h
    split at h
    · exact hfail _ h
    · split at h
      · split at h
        · simp at h
        · exact hfail _ h
      · split at h
        · exact hfail _ h
        · split at h
          · simp at h
          · rename_i loc s1 c1 hnew
            have n3 := (newCid_same hnew).2.2.1
            simp only [] at n3
            split at h
            · simp at h
            · rename_i pref s2 c2 hp2
              have q2 : s2.cidLen = s1.cidLen := by
                split at hp2
                · split at hp2
                  · simp at hp2
                  · rename_i cid s2' c2' hn2
                    simp only [Option.some.injEq, Prod.mk.injEq] at hp2
                    obtain ⟨-, rfl, -⟩ := hp2
                    exact (newCid_same hn2).2.2.1
                · simp only [Option.some.injEq, Prod.mk.injEq] at hp2
                  obtain ⟨-, rfl, -⟩ := hp2; rfl
              split at h
              · simp at h
              · rename_i s3 hadd
                have a6 := (addConnection_spec hadd).2.2.2.2.2.1
                split at h
                · split at h
                  · rename_i s5 _ hdr _
                    simp only [Option.some.injEq, Prod.mk.injEq] at h; obtain ⟨rfl, -⟩ := h
                    rw [cidLen_drained hdr]; exact a6.trans (q2.trans n3)
                  · simp at h
                · simp only [Option.some.injEq, Prod.mk.injEq] at h; obtain ⟨rfl, -⟩ := h
                  exact a6.trans (q2.trans n3)

theorem cidLen_step {s s' : State} {op : Op} (h : step s op = some s') : s'.cidLen = s.cidLen := by
  cases op with
  | connect r i t c =>
    simp only [step, Option.map_eq_some_iff] at h
    obtain ⟨⟨s1, res⟩, h1, rfl⟩ := h
    exact cidLen_connect h1
  | first a d b =>
    simp only [step, Option.map_eq_some_iff] at h
    obtain ⟨⟨s1, res⟩, h1, rfl⟩ := h
    exact (frame_firstPacket h1).cidLen
  | accept i m c =>
    simp only [step, Option.map_eq_some_iff] at h
    obtain ⟨⟨s1, res⟩, h1, rfl⟩ := h
    exact cidLen_accept h1
  | cleanUp i => exact (frame_cleanUp h).cidLen
  | refuse i c =>
    simp only [step, refuse] at h
    split at h
    · simp at h
    · rename_i s1 h1
      split at h
      · simp at h
      · simp only [Option.some.injEq] at h; subst h
        exact (frame_cleanUp h1).cidLen
  | event ch c ev =>
    simp only [step, Option.map_eq_some_iff] at h
    obtain ⟨⟨s1, res⟩, h1, rfl⟩ := h
    cases ev with
    | needIdentifiers n =>
      simp only [handleEvent] at h1
      split at h1
      · simp at h1
      · rename_i s2 ids c2 hsend
        simp only [Option.some.injEq, Prod.mk.injEq] at h1; obtain ⟨rfl, -⟩ := h1
        exact (frame_sendNewIdentifiers n hsend).cidLen
    | resetToken remote token =>
      simp only [handleEvent, Option.map_eq_some_iff] at h1
      obtain ⟨s2, h2, h3⟩ := h1
      simp only [Prod.mk.injEq] at h3; obtain ⟨rfl, -⟩ := h3
      exact (frame_resetToken h2).cidLen
    | retireConnectionId seq allow => exact (frame_retire h1).cidLen
    | drained =>
      simp only [handleEvent, Option.map_eq_some_iff] at h1
      obtain ⟨s2, h2, h3⟩ := h1
      simp only [Prod.mk.injEq] at h3; obtain ⟨rfl, -⟩ := h3
      exact cidLen_drained h2

theorem cidLen_run {cidLen : Nat} {pref : Bool} {ops : List Op} {s : State}
    (hr : run cidLen pref ops = some s) : s.cidLen = cidLen := by
  have : ∀ (ops : List Op) (s0 : State), runFrom s0 ops = some s → s.cidLen = s0.cidLen := by
    intro ops
    induction ops with
    | nil => intro s0 h; simp only [runFrom, Option.some.injEq] at h; subst h; rfl
    | cons op ops ih =>
      intro s0 h
      unfold runFrom at h
      split at h
      · simp at h
      · rename_i s1 hs1
        exact (ih s1 h).trans (cidLen_step hs1)
  exact this ops _ hr

/-- `Drained` never trips the `debug_assert!` of `remove_initial`: a live incoming connection's initial
    DCID is always registered -/
theorem drained_ne_none {s : State} (hs : Sound s) {ch : Nat} : evDrained s ch ≠ none := by
  unfold evDrained
  split
  · rename_i conn conns htr
    have g0 := (Slab.tryRemove_some htr).1
    have : s.index.remove ch conn ≠ none := by
      unfold Index.remove
      split
      · rename_i hri
        split at hri
        · rename_i hsv
          unfold Index.removeInitial at hri
          split at hri
          · simp at hri
          · rename_i hne
            have := hs.conn_init ch conn g0 hsv (by simpa using hne)
            rw [this] at hri; simp at hri
        · simp at hri
      · simp
    split
    · rename_i hnone; exact absurd hnone this
    · simp
  · simp

/-! ### discharging the side conditions on concrete histories -/

/-- with non-empty CIDs the tuple tables are not used: every history is admissible in that respect -/
theorem along_addsDisjoint_of_cidLen {ops : List Op} {s : State} (h : s.cidLen ≠ 0) :
    Along AddsDisjoint s ops := by
  induction ops generalizing s with
  | nil => trivial
  | cons op ops ih =>
    refine ⟨?_, ?_⟩
    · cases op <;> first | trivial | (intro h0; exact absurd h0 h)
    · split
      · rename_i s' hs'; exact ih (by rw [cidLen_step hs']; exact h)
      · trivial

theorem along_cons {P : State → Op → Prop} {s s' : State} {op : Op} {ops : List Op}
    (hs : step s op = some s') (hp : P s op) (hrest : Along P s' ops) : Along P s (op :: ops) := by
  refine ⟨hp, ?_⟩
  rw [hs]; exact hrest

end QM.Index
