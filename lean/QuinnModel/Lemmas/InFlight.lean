import QuinnModel.Recovery.InFlight
import QuinnModel.Lemmas.SentPackets
/-
Loss accounting: every sent packet is resolved exactly once (acknowledged, lost, or abandoned), and the
path's `InFlight` counters are exactly the totals over the packets still tracked.
-/
namespace QM.InFlight
open QM.SentPackets

def tot (f : Pkt → Nat) (l : List Pkt) : Nat := (l.map f).sum

@[simp] theorem tot_nil (f : Pkt → Nat) : tot f [] = 0 := rfl
@[simp] theorem tot_cons (f : Pkt → Nat) (x : Pkt) (l : List Pkt) : tot f (x :: l) = f x + tot f l := by
  simp [tot]
@[simp] theorem tot_append (f : Pkt → Nat) (a b : List Pkt) : tot f (a ++ b) = tot f a + tot f b := by
  simp [tot, List.sum_append]

/-- total of `f` over a ledger column -/
def ltot (f : Sp → Pkt → Nat) (l : List (Sp × Pkt)) : Nat := (l.map (fun e => f e.1 e.2)).sum

@[simp] theorem ltot_nil (f : Sp → Pkt → Nat) : ltot f [] = 0 := rfl
@[simp] theorem ltot_cons (f : Sp → Pkt → Nat) (x : Sp × Pkt) (l : List (Sp × Pkt)) :
    ltot f (x :: l) = f x.1 x.2 + ltot f l := by simp [ltot]
@[simp] theorem ltot_append (f : Sp → Pkt → Nat) (a b : List (Sp × Pkt)) :
    ltot f (a ++ b) = ltot f a + ltot f b := by simp [ltot, List.sum_append]
theorem ltot_map (f : Sp → Pkt → Nat) (i : Sp) (l : List Pkt) :
    ltot f (l.map (fun p => (i, p))) = tot (f i) l := by
  simp [ltot, tot, Function.comp_def]

/-- total of `f` over the packets still tracked in the three spaces -/
def outs (st : State) (f : Sp → Pkt → Nat) : Nat :=
  tot (f .initial) (values st.s0.ring) + tot (f .handshake) (values st.s1.ring)
    + tot (f .data) (values st.s2.ring)

def outsExcept (st : State) (i : Sp) (f : Sp → Pkt → Nat) : Nat :=
  match i with
  | .initial => tot (f .handshake) (values st.s1.ring) + tot (f .data) (values st.s2.ring)
  | .handshake => tot (f .initial) (values st.s0.ring) + tot (f .data) (values st.s2.ring)
  | .data => tot (f .initial) (values st.s0.ring) + tot (f .handshake) (values st.s1.ring)

theorem outs_split (st : State) (i : Sp) (f : Sp → Pkt → Nat) :
    outs st f = outsExcept st i f + tot (f i) (values (st.space i).ring) := by
  cases i <;> simp only [outs, outsExcept, State.space] <;> omega

theorem outsExcept_congr (st st' : State) (i : Sp) (f : Sp → Pkt → Nat)
    (h : ∀ j, j ≠ i → st'.space j = st.space j) : outsExcept st' i f = outsExcept st i f := by
  cases i
  · have h1 := h .handshake (by decide); have h2 := h .data (by decide)
    simp only [State.space] at h1 h2; simp only [outsExcept, h1, h2]
  · have h1 := h .initial (by decide); have h2 := h .data (by decide)
    simp only [State.space] at h1 h2; simp only [outsExcept, h1, h2]
  · have h1 := h .initial (by decide); have h2 := h .handshake (by decide)
    simp only [State.space] at h1 h2; simp only [outsExcept, h1, h2]

@[simp] theorem space_setSpace (st : State) (i : Sp) (x : Space) : (st.setSpace i x).space i = x := by
  cases i <;> rfl

theorem space_setSpace_ne (st : State) (i j : Sp) (x : Space) (h : j ≠ i) :
    (st.setSpace i x).space j = st.space j := by
  cases i <;> cases j <;> first | rfl | exact absurd rfl h

@[simp] theorem setSpace_inFlight (st : State) (i : Sp) (x : Space) : (st.setSpace i x).inFlight = st.inFlight := by
  cases i <;> rfl
@[simp] theorem setSpace_gen (st : State) (i : Sp) (x : Space) : (st.setSpace i x).gen = st.gen := by
  cases i <;> rfl

/-- bytes / count that `remove_in_flight` takes off the counters for `p` on a path of generation `g` -/
def onPath (g : Nat) (p : Pkt) : Bool := decide (p.gen = g)

theorem counters_remove_spec (c : Counters) (v : Pkt) (c' : Counters) (res : R Unit)
    (h : c.remove v = (c', res)) :
    match res with
    | .panic => c.bytes < v.size ∨ c.ae < aeN v
    | .ok _ => c'.bytes + v.size = c.bytes ∧ c'.ae + aeN v = c.ae := by
  unfold Counters.remove at h
  dsimp only at h
  by_cases h1 : c.bytes < v.size
  · rw [if_pos h1] at h; cases h; left; exact h1
  · rw [if_neg h1] at h
    by_cases h2 : c.ae < aeN v
    · rw [if_pos h2] at h; cases h; right; exact h2
    · rw [if_neg h2] at h; cases h; simp only; omega

theorem removeInFlight_spec (st : State) (v : Pkt) (st' : State) (res : R Bool)
    (h : st.removeInFlight v = (st', res)) :
    (∀ j, st'.space j = st.space j) ∧ st'.gen = st.gen ∧
    match res with
    | .panic => v.gen = st.gen ∧ (st.inFlight.bytes < v.size ∨ st.inFlight.ae < aeN v)
    | .ok b => b = onPath st.gen v ∧
        st'.inFlight.bytes + (if onPath st.gen v then v.size else 0) = st.inFlight.bytes ∧
        st'.inFlight.ae + (if onPath st.gen v then aeN v else 0) = st.inFlight.ae := by
  unfold State.removeInFlight at h
  split at h
  · rename_i hg
    cases h
    refine ⟨fun _ => rfl, rfl, ?_⟩
    simp [onPath, hg]
  · rename_i hg
    have hg' : v.gen = st.gen := by simpa using hg
    cases hc : st.inFlight.remove v with
    | mk c rr =>
      have hs := counters_remove_spec _ _ _ _ hc
      rw [hc] at h
      cases rr with
      | panic =>
        simp only at h; cases h
        exact ⟨fun j => by cases j <;> rfl, rfl, hg', hs⟩
      | ok u =>
        simp only at h; cases h
        refine ⟨fun j => by cases j <;> rfl, rfl, ?_⟩
        simp only [onPath, hg', decide_true, if_true]
        exact ⟨trivial, hs⟩


theorem counters_insert_spec (c : Counters) (v : Pkt) (c' : Counters) (res : R Unit)
    (h : c.insert v = (c', res)) :
    match res with
    | .panic => c.bytes + v.size ≥ 2^64 ∨ c.ae + aeN v ≥ 2^64
    | .ok _ => c'.bytes = c.bytes + v.size ∧ c'.ae = c.ae + aeN v
        ∧ c.bytes + v.size < 2^64 ∧ c.ae + aeN v < 2^64 := by
  unfold Counters.insert at h
  dsimp only at h
  by_cases h1 : c.bytes + v.size ≥ 2^64
  · rw [if_pos h1] at h; cases h; left; exact h1
  · rw [if_neg h1] at h
    by_cases h2 : c.ae + aeN v ≥ 2^64
    · rw [if_pos h2] at h; cases h; right; exact h2
    · rw [if_neg h2] at h; cases h; exact ⟨rfl, rfl, by omega, by omega⟩

def rmB (g : Nat) (p : Pkt) : Nat := if onPath g p then p.size else 0
def rmA (g : Nat) (p : Pkt) : Nat := if onPath g p then aeN p else 0

def optB (g : Nat) : Option Pkt → Nat
  | none => 0
  | some p => rmB g p
def optA (g : Nat) : Option Pkt → Nat
  | none => 0
  | some p => rmA g p

/-- `PathData::sent`, successful: which `PacketSpace::sent` call it made and what it did to the counters -/
theorem sent_frame (st : State) (i : Sp) (pn : Nat) (v : Pkt) (st' : State) (fg : Option Pkt)
    (h : st.sent i pn v = (st', .ok fg)) :
    (∀ j, j ≠ i → st'.space j = st.space j) ∧ st'.gen = st.gen ∧
    (st.space i).sent pn v = (st'.space i, .ok fg) ∧
    st.inFlight.bytes + v.size < 2^64 ∧ st.inFlight.ae + aeN v < 2^64 ∧
    st'.inFlight.bytes + optB st.gen fg = st.inFlight.bytes + v.size ∧
    st'.inFlight.ae + optA st.gen fg = st.inFlight.ae + aeN v := by
  unfold State.sent at h
  cases hc : st.inFlight.insert v with
  | mk c rr =>
    have hcs := counters_insert_spec _ _ _ _ hc
    rw [hc] at h
    cases rr with
    | panic => simp only at h; cases h
    | ok u =>
      simp only at h hcs
      have hsp : ({ st with inFlight := c } : State).space i = st.space i := by cases i <;> rfl
      rw [hsp] at h
      cases hs : (st.space i).sent pn v with
      | mk sp r2 =>
        rw [hs] at h
        cases r2 with
        | panic => simp only at h; cases h
        | ok x =>
          cases x with
          | none =>
            simp only at h; cases h
            refine ⟨fun j hj => ?_, by simp, by simp, by omega, by omega, ?_, ?_⟩
            · rw [space_setSpace_ne _ _ _ _ hj]; cases j <;> rfl
            · simp [optB]; omega
            · simp [optA]; omega
          | some p =>
            simp only at h
            cases hr : (({ st with inFlight := c } : State).setSpace i sp).removeInFlight p with
            | mk st2 r3 =>
              have hrs := removeInFlight_spec _ _ _ _ hr
              rw [hr] at h
              cases r3 with
              | panic => simp only at h; cases h
              | ok b =>
                simp only at h; cases h
                obtain ⟨hsp2, hg2, _, hb, ha⟩ := hrs
                simp only [setSpace_gen, setSpace_inFlight] at hg2 hb ha
                refine ⟨fun j hj => ?_, hg2, ?_, by omega, by omega, ?_, ?_⟩
                · rw [hsp2 j, space_setSpace_ne _ _ _ _ hj]; cases j <;> rfl
                · rw [hsp2 i, space_setSpace]
                · simp only [optB, rmB]; omega
                · simp only [optA, rmA]; omega

/-- `take` + `remove_in_flight`, successful -/
theorem resolve_frame (st : State) (i : Sp) (pn : Nat) (st' : State) (x : Option (Pkt × Bool))
    (h : st.resolve i pn = (st', .ok x)) :
    (∀ j, j ≠ i → st'.space j = st.space j) ∧ st'.gen = st.gen ∧
    (st.space i).take pn = (st'.space i, .ok (x.map Prod.fst)) ∧
    st'.inFlight.bytes + optB st.gen (x.map Prod.fst) = st.inFlight.bytes ∧
    st'.inFlight.ae + optA st.gen (x.map Prod.fst) = st.inFlight.ae := by
  unfold State.resolve at h
  cases hs : (st.space i).take pn with
  | mk sp r2 =>
    rw [hs] at h
    cases r2 with
    | panic => simp only at h; cases h
    | ok y =>
      cases y with
      | none =>
        simp only at h; cases h
        refine ⟨fun j hj => space_setSpace_ne _ _ _ _ hj, by simp, by simp, by simp [optB], by simp [optA]⟩
      | some v =>
        simp only at h
        cases hr : (st.setSpace i sp).removeInFlight v with
        | mk st2 r3 =>
          have hrs := removeInFlight_spec _ _ _ _ hr
          rw [hr] at h
          cases r3 with
          | panic => simp only at h; cases h
          | ok b =>
            simp only at h; cases h
            obtain ⟨hsp2, hg2, _, hb, ha⟩ := hrs
            simp only [setSpace_gen, setSpace_inFlight] at hg2 hb ha
            refine ⟨fun j hj => ?_, hg2, ?_, ?_, ?_⟩
            · rw [hsp2 j, space_setSpace_ne _ _ _ _ hj]
            · rw [hsp2 i, space_setSpace]; rfl
            · simp only [Option.map, optB, rmB]; omega
            · simp only [Option.map, optA, rmA]; omega

theorem removeAll_spec (vs : List Pkt) (st st' : State) (h : st.removeAll vs = (st', .ok ())) :
    (∀ j, st'.space j = st.space j) ∧ st'.gen = st.gen ∧
    st'.inFlight.bytes + tot (rmB st.gen) vs = st.inFlight.bytes ∧
    st'.inFlight.ae + tot (rmA st.gen) vs = st.inFlight.ae := by
  induction vs generalizing st with
  | nil => unfold State.removeAll at h; cases h; simp
  | cons v t ih =>
    unfold State.removeAll at h
    cases hr : st.removeInFlight v with
    | mk st2 r3 =>
      have hrs := removeInFlight_spec _ _ _ _ hr
      rw [hr] at h
      cases r3 with
      | panic => simp only at h; cases h
      | ok b =>
        simp only at h
        obtain ⟨h1, h2, h3, h4⟩ := ih st2 h
        obtain ⟨hsp2, hg2, _, hb, ha⟩ := hrs
        refine ⟨fun j => by rw [h1 j, hsp2 j], by rw [h2, hg2], ?_, ?_⟩
        · rw [hg2] at h3; simp only [tot_cons, rmB]; omega
        · rw [hg2] at h4; simp only [tot_cons, rmA]; omega

/-- `mem::take(sent_packets)` + `remove_in_flight` of every packet, successful -/
theorem discard_frame (st : State) (i : Sp) (st' : State) (vs : List Pkt)
    (h : st.discard i = (st', .ok vs)) :
    (∀ j, j ≠ i → st'.space j = st.space j) ∧ st'.gen = st.gen ∧
    vs = values (st.space i).ring ∧ st'.space i = { st.space i with ring := {} } ∧
    st'.inFlight.bytes + tot (rmB st.gen) vs = st.inFlight.bytes ∧
    st'.inFlight.ae + tot (rmA st.gen) vs = st.inFlight.ae := by
  unfold State.discard at h
  dsimp only at h
  cases hr : (st.setSpace i { st.space i with ring := {} }).removeAll (values (st.space i).ring) with
  | mk st2 r3 =>
    rw [hr] at h
    cases r3 with
    | panic => simp only at h; cases h
    | ok u =>
      simp only at h; cases h
      obtain ⟨h1, h2, h3, h4⟩ := removeAll_spec _ _ _ hr
      simp only [setSpace_gen, setSpace_inFlight] at h2 h3 h4
      refine ⟨fun j hj => by rw [h1 j, space_setSpace_ne _ _ _ _ hj], h2, rfl, by rw [h1 i, space_setSpace], h3, h4⟩


/-! ### histories -/

/-- the events that change what is tracked (an ACK frame / a loss-detection pass is a list of `ack` / `lost`;
    forgetting the non-ack-eliciting tail happens inside `sent`) -/
inductive Op where
  | sent (i : Sp) (pn size : Nat) (ae : Bool) (gen : Nat)
  | ack (i : Sp) (pn : Nat)
  | lost (i : Sp) (pn : Nat)
  | discard (i : Sp)
deriving Repr, DecidableEq

/-- ledger kept next to the model state: what was handed to `PathData::sent` and how each packet left -/
structure Ledger where
  sent : List (Sp × Pkt) := []
  acked : List (Sp × Pkt) := []
  lost : List (Sp × Pkt) := []
  abandoned : List (Sp × Pkt) := []      -- discarded with its space, or forgotten (non-ack-eliciting tail)
  panicked : Bool := false
deriving Repr

structure G where
  st : State := {}
  lg : Ledger := {}

def G.step (g : G) : Op → G
  | .sent i pn size ae gen =>
    match g.st.sent i pn ⟨pn, size, ae, gen⟩ with
    | (st', .panic) => ⟨st', { g.lg with panicked := true }⟩
    | (st', .ok fg) => ⟨st', { g.lg with sent := (i, ⟨pn, size, ae, gen⟩) :: g.lg.sent,
                                           abandoned := fg.toList.map (fun p => (i, p)) ++ g.lg.abandoned }⟩
  | .ack i pn =>
    match g.st.resolve i pn with
    | (st', .panic) => ⟨st', { g.lg with panicked := true }⟩
    | (st', .ok none) => ⟨st', g.lg⟩
    | (st', .ok (some (v, _))) => ⟨st', { g.lg with acked := (i, v) :: g.lg.acked }⟩
  | .lost i pn =>
    match g.st.resolve i pn with
    | (st', .panic) => ⟨st', { g.lg with panicked := true }⟩
    | (st', .ok none) => ⟨st', g.lg⟩
    | (st', .ok (some (v, _))) => ⟨st', { g.lg with lost := (i, v) :: g.lg.lost }⟩
  | .discard i =>
    match g.st.discard i with
    | (st', .panic) => ⟨st', { g.lg with panicked := true }⟩
    | (st', .ok vs) => ⟨st', { g.lg with abandoned := vs.map (fun p => (i, p)) ++ g.lg.abandoned }⟩

def G.run (g : G) (ops : List Op) : G := ops.foldl G.step g

theorem step_panicked_mono (g : G) (op : Op) (h : (g.step op).lg.panicked = false) : g.lg.panicked = false := by
  cases op <;> simp only [G.step] at h <;> (split at h <;> first | exact h | cases h)

/-- every packet handed to `sent` is in exactly one of: acked, lost, abandoned, still tracked — for every
    way `f` of weighing packets (bytes, ack-eliciting count, "is it this packet", …) -/
def Balanced (g : G) : Prop :=
  ∀ f : Sp → Pkt → Nat,
    ltot f g.lg.sent = ltot f g.lg.acked + ltot f g.lg.lost + ltot f g.lg.abandoned + outs g.st f

theorem balanced_init : Balanced {} := by intro f; simp [outs, values]

theorem step_balanced (g : G) (op : Op) (hb : Balanced g) (hp : (g.step op).lg.panicked = false) :
    Balanced (g.step op) := by
  have hp0 := step_panicked_mono g op hp
  intro f
  have hbf := hb f
  cases op with
  | sent i pn size ae gen =>
    simp only [G.step] at hp ⊢
    cases hs : g.st.sent i pn ⟨pn, size, ae, gen⟩ with
    | mk st' r =>
      rw [hs] at hp
      cases r with
      | panic => simp at hp
      | ok fg =>
        simp only
        obtain ⟨hoth, _, hsp, _⟩ := sent_frame _ _ _ _ _ _ hs
        have hspec := sent_spec _ _ _ _ _ hsp
        rw [outs_split st' i f, outsExcept_congr _ _ _ _ hoth]
        rw [outs_split g.st i f] at hbf
        cases fg with
        | none =>
          simp only at hspec
          simp only [hspec, ltot_cons, Option.toList, List.map_nil, List.nil_append, tot_append, tot_cons, tot_nil]
          omega
        | some p =>
          obtain ⟨a, b, h1, h2, _⟩ := hspec
          rw [h1] at hbf
          simp only [h2, ltot_cons, Option.toList, List.map_cons, List.map_nil, List.cons_append, List.nil_append,
            tot_append, tot_cons, tot_nil] at hbf ⊢
          omega
  | ack i pn =>
    simp only [G.step] at hp ⊢
    cases hs : g.st.resolve i pn with
    | mk st' r =>
      rw [hs] at hp
      cases r with
      | panic => simp at hp
      | ok x =>
        obtain ⟨hoth, _, hsp, _⟩ := resolve_frame _ _ _ _ _ hs
        have hspec := take_spec _ _ _ _ hsp
        rw [outs_split g.st i f] at hbf
        cases x with
        | none =>
          simp only [Option.map] at hspec ⊢
          rw [outs_split st' i f, outsExcept_congr _ _ _ _ hoth, hspec]; exact hbf
        | some vb =>
          obtain ⟨v, b⟩ := vb
          simp only [Option.map] at hspec ⊢
          obtain ⟨⟨a, c, h1, h2⟩, _⟩ := hspec
          rw [outs_split st' i f, outsExcept_congr _ _ _ _ hoth]
          rw [h1] at hbf
          simp only [h2, ltot_cons, tot_append, tot_cons] at hbf ⊢
          omega
  | lost i pn =>
    simp only [G.step] at hp ⊢
    cases hs : g.st.resolve i pn with
    | mk st' r =>
      rw [hs] at hp
      cases r with
      | panic => simp at hp
      | ok x =>
        obtain ⟨hoth, _, hsp, _⟩ := resolve_frame _ _ _ _ _ hs
        have hspec := take_spec _ _ _ _ hsp
        rw [outs_split g.st i f] at hbf
        cases x with
        | none =>
          simp only [Option.map] at hspec ⊢
          rw [outs_split st' i f, outsExcept_congr _ _ _ _ hoth, hspec]; exact hbf
        | some vb =>
          obtain ⟨v, b⟩ := vb
          simp only [Option.map] at hspec ⊢
          obtain ⟨⟨a, c, h1, h2⟩, _⟩ := hspec
          rw [outs_split st' i f, outsExcept_congr _ _ _ _ hoth]
          rw [h1] at hbf
          simp only [h2, ltot_cons, tot_append, tot_cons] at hbf ⊢
          omega
  | discard i =>
    simp only [G.step] at hp ⊢
    cases hs : g.st.discard i with
    | mk st' r =>
      rw [hs] at hp
      cases r with
      | panic => simp at hp
      | ok vs =>
        simp only
        obtain ⟨hoth, _, hvs, hsp, _⟩ := discard_frame _ _ _ _ hs
        rw [outs_split st' i f, outsExcept_congr _ _ _ _ hoth, hsp]
        rw [outs_split g.st i f, ← hvs] at hbf
        simp only [ltot_append, ltot_map, values, List.filterMap_nil, tot_nil] at hbf ⊢
        omega

theorem run_panicked_mono (ops : List Op) (g : G) (h : (g.run ops).lg.panicked = false) :
    g.lg.panicked = false := by
  induction ops generalizing g with
  | nil => exact h
  | cons op t ih => exact step_panicked_mono g op (ih (g.step op) h)

theorem run_balanced (ops : List Op) (g : G) (hb : Balanced g) (hp : (g.run ops).lg.panicked = false) :
    Balanced (g.run ops) := by
  induction ops generalizing g with
  | nil => exact hb
  | cons op t ih =>
    have h1 : (g.step op).lg.panicked = false := run_panicked_mono t (g.step op) hp
    exact ih (g.step op) (step_balanced g op hb h1) hp


/-! ### the counters are the totals over what is still tracked -/

def Op.genOK (g0 : Nat) : Op → Prop
  | .sent _ _ _ _ gen => gen = g0
  | _ => True

def szF : Sp → Pkt → Nat := fun _ p => p.size
def aeF : Sp → Pkt → Nat := fun _ p => aeN p

structure Tracks (st : State) : Prop where
  gens : ∀ j, ∀ p ∈ values (st.space j).ring, p.gen = st.gen
  bytes : st.inFlight.bytes = outs st szF
  ae : st.inFlight.ae = outs st aeF

theorem tracks_init : Tracks {} := by
  refine ⟨?_, rfl, rfl⟩
  intro j p hp; cases j <;> simp [State.space, values] at hp

theorem tot_congr (f h : Pkt → Nat) (l : List Pkt) (hh : ∀ p ∈ l, f p = h p) : tot f l = tot h l := by
  induction l with
  | nil => rfl
  | cons x t ih =>
    simp only [tot_cons]
    rw [hh x (by simp), ih (fun p hp => hh p (by simp [hp]))]

theorem step_tracks (g : G) (op : Op) (ht : Tracks g.st) (hop : op.genOK g.st.gen)
    (hp : (g.step op).lg.panicked = false) : Tracks (g.step op).st := by
  obtain ⟨hg, hb, ha⟩ := ht
  cases op with
  | sent i pn size ae gen =>
    simp only [Op.genOK] at hop
    simp only [G.step] at hp ⊢
    cases hs : g.st.sent i pn ⟨pn, size, ae, gen⟩ with
    | mk st' r =>
      rw [hs] at hp
      cases r with
      | panic => simp at hp
      | ok fg =>
        simp only
        obtain ⟨hoth, hgen, hsp, _, _, hcb, hca⟩ := sent_frame _ _ _ _ _ _ hs
        have hspec := sent_spec _ _ _ _ _ hsp
        rw [outs_split g.st i szF] at hb
        rw [outs_split g.st i aeF] at ha
        cases fg with
        | none =>
          simp only at hspec
          refine ⟨?_, ?_, ?_⟩
          · intro j p hpm
            by_cases hj : j = i
            · subst hj
              rw [hspec] at hpm
              simp only [List.mem_append, List.mem_singleton] at hpm
              rcases hpm with hpm | hpm
              · rw [hgen]; exact hg _ _ hpm
              · rw [hgen, hpm]; exact hop
            · rw [hoth j hj] at hpm; rw [hgen]; exact hg _ _ hpm
          · rw [outs_split st' i szF, outsExcept_congr _ _ _ _ hoth, hspec]
            simp only [optB, szF, tot_append, tot_cons, tot_nil] at hcb hb ⊢; omega
          · rw [outs_split st' i aeF, outsExcept_congr _ _ _ _ hoth, hspec]
            simp only [optA, aeF, tot_append, tot_cons, tot_nil] at hca ha ⊢; omega
        | some p =>
          obtain ⟨a, b, h1, h2, _⟩ := hspec
          have hpg : p.gen = g.st.gen := hg i p (by rw [h1]; simp)
          refine ⟨?_, ?_, ?_⟩
          · intro j q hqm
            by_cases hj : j = i
            · subst hj
              rw [h2] at hqm
              simp only [List.mem_append, List.mem_singleton] at hqm
              rcases hqm with (hqm | hqm) | hqm
              · rw [hgen]; exact hg _ _ (by rw [h1]; simp [hqm])
              · rw [hgen]; exact hg _ _ (by rw [h1]; simp [hqm])
              · rw [hgen, hqm]; exact hop
            · rw [hoth j hj] at hqm; rw [hgen]; exact hg _ _ hqm
          · rw [outs_split st' i szF, outsExcept_congr _ _ _ _ hoth, h2]
            rw [h1] at hb
            simp only [optB, rmB, onPath, hpg, decide_true, if_true, szF, tot_append, tot_cons, tot_nil] at hcb hb ⊢
            omega
          · rw [outs_split st' i aeF, outsExcept_congr _ _ _ _ hoth, h2]
            rw [h1] at ha
            simp only [optA, rmA, onPath, hpg, decide_true, if_true, aeF, tot_append, tot_cons, tot_nil] at hca ha ⊢
            omega
  | ack i pn =>
    simp only [G.step] at hp ⊢
    cases hs : g.st.resolve i pn with
    | mk st' r =>
      rw [hs] at hp
      cases r with
      | panic => simp at hp
      | ok x =>
        obtain ⟨hoth, hgen, hsp, hcb, hca⟩ := resolve_frame _ _ _ _ _ hs
        have hspec := take_spec _ _ _ _ hsp
        rw [outs_split g.st i szF] at hb
        rw [outs_split g.st i aeF] at ha
        cases x with
        | none =>
          simp only [Option.map] at hspec hcb hca ⊢
          refine ⟨?_, ?_, ?_⟩
          · intro j p hpm
            by_cases hj : j = i
            · subst hj; rw [hspec] at hpm; rw [hgen]; exact hg _ _ hpm
            · rw [hoth j hj] at hpm; rw [hgen]; exact hg _ _ hpm
          · rw [outs_split st' i szF, outsExcept_congr _ _ _ _ hoth, hspec]
            simp only [optB] at hcb; omega
          · rw [outs_split st' i aeF, outsExcept_congr _ _ _ _ hoth, hspec]
            simp only [optA] at hca; omega
        | some vb =>
          obtain ⟨v, bb⟩ := vb
          simp only [Option.map] at hspec hcb hca ⊢
          obtain ⟨⟨a, c, h1, h2⟩, _⟩ := hspec
          have hpg : v.gen = g.st.gen := hg i v (by rw [h1]; simp)
          refine ⟨?_, ?_, ?_⟩
          · intro j q hqm
            by_cases hj : j = i
            · subst hj
              rw [h2] at hqm
              simp only [List.mem_append] at hqm
              rw [hgen]; exact hg _ _ (by rw [h1]; rcases hqm with hqm | hqm <;> simp [hqm])
            · rw [hoth j hj] at hqm; rw [hgen]; exact hg _ _ hqm
          · rw [outs_split st' i szF, outsExcept_congr _ _ _ _ hoth, h2]
            rw [h1] at hb
            simp only [optB, rmB, onPath, hpg, decide_true, if_true, szF, tot_append, tot_cons] at hcb hb ⊢
            omega
          · rw [outs_split st' i aeF, outsExcept_congr _ _ _ _ hoth, h2]
            rw [h1] at ha
            simp only [optA, rmA, onPath, hpg, decide_true, if_true, aeF, tot_append, tot_cons] at hca ha ⊢
            omega
  | lost i pn =>
    simp only [G.step] at hp ⊢
    cases hs : g.st.resolve i pn with
    | mk st' r =>
      rw [hs] at hp
      cases r with
      | panic => simp at hp
      | ok x =>
        obtain ⟨hoth, hgen, hsp, hcb, hca⟩ := resolve_frame _ _ _ _ _ hs
        have hspec := take_spec _ _ _ _ hsp
        rw [outs_split g.st i szF] at hb
        rw [outs_split g.st i aeF] at ha
        cases x with
        | none =>
          simp only [Option.map] at hspec hcb hca ⊢
          refine ⟨?_, ?_, ?_⟩
          · intro j p hpm
            by_cases hj : j = i
            · subst hj; rw [hspec] at hpm; rw [hgen]; exact hg _ _ hpm
            · rw [hoth j hj] at hpm; rw [hgen]; exact hg _ _ hpm
          · rw [outs_split st' i szF, outsExcept_congr _ _ _ _ hoth, hspec]
            simp only [optB] at hcb; omega
          · rw [outs_split st' i aeF, outsExcept_congr _ _ _ _ hoth, hspec]
            simp only [optA] at hca; omega
        | some vb =>
          obtain ⟨v, bb⟩ := vb
          simp only [Option.map] at hspec hcb hca ⊢
          obtain ⟨⟨a, c, h1, h2⟩, _⟩ := hspec
          have hpg : v.gen = g.st.gen := hg i v (by rw [h1]; simp)
          refine ⟨?_, ?_, ?_⟩
          · intro j q hqm
            by_cases hj : j = i
            · subst hj
              rw [h2] at hqm
              simp only [List.mem_append] at hqm
              rw [hgen]; exact hg _ _ (by rw [h1]; rcases hqm with hqm | hqm <;> simp [hqm])
            · rw [hoth j hj] at hqm; rw [hgen]; exact hg _ _ hqm
          · rw [outs_split st' i szF, outsExcept_congr _ _ _ _ hoth, h2]
            rw [h1] at hb
            simp only [optB, rmB, onPath, hpg, decide_true, if_true, szF, tot_append, tot_cons] at hcb hb ⊢
            omega
          · rw [outs_split st' i aeF, outsExcept_congr _ _ _ _ hoth, h2]
            rw [h1] at ha
            simp only [optA, rmA, onPath, hpg, decide_true, if_true, aeF, tot_append, tot_cons] at hca ha ⊢
            omega
  | discard i =>
    simp only [G.step] at hp ⊢
    cases hs : g.st.discard i with
    | mk st' r =>
      rw [hs] at hp
      cases r with
      | panic => simp at hp
      | ok vs =>
        simp only
        obtain ⟨hoth, hgen, hvs, hsp, hcb, hca⟩ := discard_frame _ _ _ _ hs
        rw [outs_split g.st i szF, ← hvs] at hb
        rw [outs_split g.st i aeF, ← hvs] at ha
        have hgv : ∀ p ∈ vs, p.gen = g.st.gen := by rw [hvs]; exact hg i
        have e1 : tot (rmB g.st.gen) vs = tot (szF i) vs :=
          tot_congr _ _ _ (fun p hp => by simp [rmB, onPath, hgv p hp, szF])
        have e2 : tot (rmA g.st.gen) vs = tot (aeF i) vs :=
          tot_congr _ _ _ (fun p hp => by simp [rmA, onPath, hgv p hp, aeF])
        refine ⟨?_, ?_, ?_⟩
        · intro j p hpm
          by_cases hj : j = i
          · subst hj; rw [hsp] at hpm; simp [values] at hpm
          · rw [hoth j hj] at hpm; rw [hgen]; exact hg _ _ hpm
        · rw [outs_split st' i szF, outsExcept_congr _ _ _ _ hoth, hsp]
          simp only [values, List.filterMap_nil, tot_nil]; omega
        · rw [outs_split st' i aeF, outsExcept_congr _ _ _ _ hoth, hsp]
          simp only [values, List.filterMap_nil, tot_nil]; omega


/-! ### no counter underflows, no unwrap fails: the per-space invariant -/

def MAXT : Nat := Gen.maxUnackedNonAckElicitingTail

/-- non-ack-eliciting tracked packets above `largest_ack_eliciting_sent` -/
def inTail (la : Nat) (e : Nat × Pkt) : Bool := !e.2.ae && decide (e.1 > la)

def cntTail (la : Nat) (es : List (Nat × Pkt)) : Nat := es.countP (inTail la)

/-- `n` = one more than the largest packet number ever sent in the space (0 = nothing sent yet);
    `dead` = the space was emptied by `mem::take` while its tail counter was above the limit and no
    ack-eliciting packet has been sent since -/
structure SpaceInv (s : Space) (n : Nat) (dead : Bool) : Prop where
  wf : RingWF s.ring
  below : ∀ e ∈ entries s.ring, e.1 < n
  la : n = 0 ∨ s.largestAe < n
  laSmall : s.largestAe < 2^62
  tailNonAe : ∀ e ∈ entries s.ring, e.1 > s.largestAe → e.2.ae = false
  fresh : n = 0 → s.tail = 0 ∧ entries s.ring = [] ∧ s.largestAe = 0 ∧ dead = false
  ringEnd : s.ring.offset + s.ring.slots.length ≤ n
  tail : (dead = true ∧ entries s.ring = []) ∨
         (dead = false ∧ ∃ extra, extra ≤ MAXT ∧ s.tail = cntTail s.largestAe (entries s.ring) + extra)

theorem spaceInv_init : SpaceInv {} 0 false := by
  refine ⟨ringWF_default, ?_, Or.inl rfl, by decide, ?_, ?_, by simp, ?_⟩
  · intro e he; simp [entries, entriesFrom] at he
  · intro e he; simp [entries, entriesFrom] at he
  · intro _; simp [entries, entriesFrom]
  · right; exact ⟨rfl, 0, Nat.zero_le _, by simp [cntTail, entries, entriesFrom]⟩

theorem cntTail_append (la : Nat) (a b : List (Nat × Pkt)) :
    cntTail la (a ++ b) = cntTail la a + cntTail la b := by simp [cntTail, List.countP_append]

@[simp] theorem cntTail_nil (la : Nat) : cntTail la [] = 0 := rfl

theorem cntTail_cons (la : Nat) (x : Nat × Pkt) (b : List (Nat × Pkt)) :
    cntTail la (x :: b) = cntTail la b + (if inTail la x then 1 else 0) := by
  simp [cntTail, List.countP_cons]

/-- `PacketSpace::take` never panics and keeps the invariant -/
theorem take_inv (s : Space) (n : Nat) (dead : Bool) (hi : SpaceInv s n dead) (pn : Nat) :
    (s.take pn).2 ≠ .panic ∧ SpaceInv (s.take pn).1 n dead := by
  have hnp := remove_no_panic s.ring pn hi.wf
  have hwf := ringWF_remove s.ring pn hi.wf
  have hend := remove_end s.ring pn
  have her := entries_remove s.ring pn
  unfold Space.take
  cases hres : remove s.ring pn with
  | mk ring rr =>
    rw [hres] at hnp hwf hend her
    simp only at hnp hwf hend her
    cases rr with
    | panic => exact absurd rfl hnp
    | ok x =>
      cases x with
      | none =>
        simp only at her ⊢
        refine ⟨by simp, ?_⟩
        have : ({ s with ring := ring } : Space) = s := by rw [her.1]
        rw [this]; exact hi
      | some v =>
        simp only at her ⊢
        obtain ⟨a, b, h1, h2⟩ := her
        have hsub : ∀ e ∈ entries ring, e ∈ entries s.ring := by
          intro e he; rw [h2] at he; rw [h1]
          simp only [List.mem_append, List.mem_cons] at he ⊢
          rcases he with he | he
          · left; exact he
          · right; right; exact he
        have hne : entries s.ring ≠ [] := by rw [h1]; simp
        have hn0 : n ≠ 0 := fun h0 => hne (hi.fresh h0).2.1
        have hcnt : cntTail s.largestAe (entries s.ring)
            = cntTail s.largestAe (entries ring) + (if inTail s.largestAe (pn, v) then 1 else 0) := by
          rw [h1, h2, cntTail_append, cntTail_append, cntTail_cons]; omega
        have hdead : dead = false ∧ ∃ extra, extra ≤ MAXT ∧ s.tail = cntTail s.largestAe (entries s.ring) + extra := by
          rcases hi.tail with ⟨_, he⟩ | h
          · exact absurd he hne
          · exact h
        obtain ⟨hd, extra, hex, htl⟩ := hdead
        by_cases hc : (!v.ae && decide (pn > s.largestAe)) = true
        · have hin : inTail s.largestAe (pn, v) = true := hc
          rw [hin] at hcnt
          simp only [hc, if_true]
          have ht0 : s.tail ≠ 0 := by simp only [if_true] at hcnt; omega
          simp only [ht0, if_false]
          refine ⟨by simp, hwf, fun e he => hi.below e (hsub e he), hi.la, hi.laSmall,
            fun e he => hi.tailNonAe e (hsub e he), fun h0 => absurd h0 hn0, hend ▸ hi.ringEnd, ?_⟩
          right
          refine ⟨hd, extra, hex, ?_⟩
          simp only [if_true] at hcnt
          simp only; omega
        · have hin : inTail s.largestAe (pn, v) = false := by
            simpa [inTail] using hc
          rw [hin] at hcnt
          simp only [hc, Bool.false_eq_true, if_false]
          refine ⟨by simp, hwf, fun e he => hi.below e (hsub e he), hi.la, hi.laSmall,
            fun e he => hi.tailNonAe e (hsub e he), fun h0 => absurd h0 hn0, hend ▸ hi.ringEnd, ?_⟩
          right
          refine ⟨hd, extra, hex, ?_⟩
          simp only [Bool.false_eq_true, if_false] at hcnt
          show s.tail = cntTail s.largestAe (entries ring) + extra
          omega


theorem maxt_pos : 1 ≤ MAXT := by unfold MAXT Gen.maxUnackedNonAckElicitingTail; omega

theorem ins_ok (s : Space) (pn : Nat) (v : Pkt) (fg : Option Pkt)
    (h : s.ring.offset + s.ring.slots.length ≤ pn) (hw : RingWF s.ring) :
    (Space.ins s pn v fg).2 = .ok fg ∧
    entries (Space.ins s pn v fg).1.ring = entries s.ring ++ [(pn, v)] ∧
    (Space.ins s pn v fg).1.tail = s.tail ∧ (Space.ins s pn v fg).1.largestAe = s.largestAe ∧
    RingWF (Space.ins s pn v fg).1.ring ∧
    (Space.ins s pn v fg).1.ring.offset + (Space.ins s pn v fg).1.ring.slots.length = pn + 1 := by
  have hok := insert_ok_of s.ring pn v (Or.inr h)
  have he := entries_insert s.ring pn v hok
  have hwf := ringWF_insert s.ring pn v hw hok
  have hend := (insert_end s.ring pn v hok).2
  unfold Space.ins
  cases hres : insert s.ring pn v with
  | mk ring rr =>
    rw [hres] at hok he hwf hend
    simp only at hok he hwf hend
    subst hok
    exact ⟨rfl, he, rfl, rfl, hwf, hend⟩

theorem cntTail_eq_zero (la : Nat) (es : List (Nat × Pkt)) (h : ∀ e ∈ es, e.1 ≤ la) : cntTail la es = 0 := by
  unfold cntTail
  rw [List.countP_eq_zero]
  intro e he
  have := h e he
  simp only [inTail, Bool.and_eq_true, Bool.not_eq_true', decide_eq_true_eq, not_and]
  intro _; omega

/-- `PacketSpace::sent` with the caller's guarantees (increasing 62-bit packet numbers; no non-ack-eliciting
    packet in a space that was emptied with an overflowed tail counter) never panics and keeps the invariant -/
theorem sent_inv (s : Space) (n : Nat) (dead : Bool) (hi : SpaceInv s n dead) (pn : Nat) (v : Pkt)
    (hpn : n ≤ pn) (hsmall : pn < 2^62) (hdead : v.ae = false → dead = false) :
    (s.sent pn v).2 ≠ .panic ∧ SpaceInv (s.sent pn v).1 (pn + 1) (if v.ae then false else dead) := by
  have hend := hi.ringEnd
  unfold Space.sent
  by_cases hae : v.ae = true
  · -- ack-eliciting: tail := 0, largest_ack_eliciting_sent := pn
    simp only [hae, if_true]
    obtain ⟨h1, h2, h3, h4, h5, h6⟩ := ins_ok { s with tail := 0, largestAe := pn } pn v none (by simp only; omega) hi.wf
    simp only at h2 h3 h4
    refine ⟨by rw [h1]; simp, h5, ?_, Or.inr (by rw [h4]; omega), by rw [h4]; exact hsmall, ?_, fun h0 => by omega,
      by omega, ?_⟩
    · intro e he; rw [h2] at he
      simp only [List.mem_append, List.mem_singleton] at he
      rcases he with he | he
      · have := hi.below e he; omega
      · rw [he]; simp
    · intro e he hgt; rw [h2] at he; rw [h4] at hgt
      simp only [List.mem_append, List.mem_singleton] at he
      rcases he with he | he
      · have := hi.below e he; omega
      · rw [he] at hgt; simp at hgt
    · right
      refine ⟨rfl, 0, Nat.zero_le _, ?_⟩
      rw [h3, h4, h2, cntTail_eq_zero]
      intro e he
      simp only [List.mem_append, List.mem_singleton] at he
      rcases he with he | he
      · have := hi.below e he; omega
      · rw [he]; simp
  · have hae' : v.ae = false := by simpa using hae
    have hd := hdead hae'
    subst hd
    have htl : ∃ extra, extra ≤ MAXT ∧ s.tail = cntTail s.largestAe (entries s.ring) + extra := by
      rcases hi.tail with ⟨h, _⟩ | ⟨_, h⟩
      · cases h
      · exact h
    obtain ⟨extra, hex, htl⟩ := htl
    simp only [hae, Bool.false_eq_true, if_false]
    by_cases ht : s.tail > Gen.maxUnackedNonAckElicitingTail
    · -- the tail overflowed: forget the oldest packet above largest_ack_eliciting_sent
      simp only [ht, if_true]
      have hcpos : 0 < cntTail s.largestAe (entries s.ring) := by unfold MAXT at hex; omega
      obtain ⟨e0, he0, hin0⟩ := List.countP_pos_iff.1 hcpos
      have hgt0 : e0.1 > s.largestAe := by
        simp only [inTail, Bool.and_eq_true, decide_eq_true_eq] at hin0; exact hin0.2
      have hn0 : n ≠ 0 := fun h0 => by rw [(hi.fresh h0).2.1] at he0; cases he0
      have hla : s.largestAe < n := by rcases hi.la with h | h; exact absurd h hn0; exact h
      have hrange := range_eq_filter s.ring (.excl s.largestAe) .unb
        (by simp only [Bound.small, U64MAX]; have := hi.laSmall; omega) trivial
      rw [hrange]
      cases hf : (entries s.ring).filter (fun e => (Bound.excl s.largestAe).lowerOk e.1 && Bound.unb.upperOk e.1) with
      | nil =>
        exfalso
        have : e0 ∈ (entries s.ring).filter (fun e => (Bound.excl s.largestAe).lowerOk e.1 && Bound.unb.upperOk e.1) := by
          rw [List.mem_filter]; exact ⟨he0, by simp [Bound.lowerOk, Bound.upperOk, hgt0]⟩
        rw [hf] at this; cases this
      | cons x rest =>
        obtain ⟨opn, p0⟩ := x
        simp only
        have hmem : (opn, p0) ∈ (entries s.ring).filter (fun e => (Bound.excl s.largestAe).lowerOk e.1 && Bound.unb.upperOk e.1) := by
          rw [hf]; simp
        rw [List.mem_filter] at hmem
        obtain ⟨hmE, hcond⟩ := hmem
        have hogt : opn > s.largestAe := by
          simpa [Bound.lowerOk, Bound.upperOk] using hcond
        have hp0 : p0.ae = false := hi.tailNonAe (opn, p0) hmE hogt
        have hrem2 := remove_some_of_mem s.ring opn p0 hi.wf hmE
        have her := entries_remove s.ring opn
        have hwf1 := ringWF_remove s.ring opn hi.wf
        have hend1 := remove_end s.ring opn
        cases hres : remove s.ring opn with
        | mk ring1 rr =>
          rw [hres] at hrem2 her hwf1 hend1
          simp only at hrem2 her hwf1 hend1
          subst hrem2
          simp only at her
          obtain ⟨a, b, hE, hE1⟩ := her
          simp only [hp0, Bool.false_eq_true, if_false]
          obtain ⟨h1, h2, h3, h4, h5, h6⟩ := ins_ok { s with ring := ring1 } pn v (some p0) (by simp only; omega) hwf1
          simp only at h2 h3 h4
          have hsub : ∀ e ∈ entries ring1, e ∈ entries s.ring := by
            intro e he; rw [hE1] at he; rw [hE]
            simp only [List.mem_append, List.mem_cons] at he ⊢
            rcases he with he | he
            · left; exact he
            · right; right; exact he
          refine ⟨by rw [h1]; simp, h5, ?_, Or.inr (by rw [h4]; omega), by rw [h4]; exact hi.laSmall, ?_,
            fun h0 => by omega, by omega, ?_⟩
          · intro e he; rw [h2] at he
            simp only [List.mem_append, List.mem_singleton] at he
            rcases he with he | he
            · have := hi.below e (hsub e he); omega
            · rw [he]; simp
          · intro e he hgt; rw [h2] at he
            simp only [List.mem_append, List.mem_singleton] at he
            rcases he with he | he
            · rw [h4] at hgt; exact hi.tailNonAe e (hsub e he) hgt
            · rw [he]; exact hae'
          · right
            refine ⟨rfl, extra, hex, ?_⟩
            rw [h3, h4, h2, hE1]
            rw [hE] at htl
            have hin1 : inTail s.largestAe (opn, p0) = true := by simp [inTail, hp0, hogt]
            have hin2 : inTail s.largestAe (pn, v) = true := by
              simp only [inTail, hae', Bool.not_false, Bool.true_and, decide_eq_true_eq]; omega
            simp only [cntTail_append, cntTail_cons, cntTail_nil, hin1, hin2, if_true] at htl ⊢
            omega
    · simp only [ht, if_false]
      obtain ⟨h1, h2, h3, h4, h5, h6⟩ := ins_ok { s with tail := s.tail + 1 } pn v none (by simp only; omega) hi.wf
      simp only at h2 h3 h4
      have hla : s.largestAe < pn + 1 := by
        rcases hi.la with h | h
        · rw [(hi.fresh h).2.2.1]; omega
        · omega
      refine ⟨by rw [h1]; simp, h5, ?_, Or.inr (by rw [h4]; exact hla), by rw [h4]; exact hi.laSmall, ?_,
        fun h0 => by omega, by omega, ?_⟩
      · intro e he; rw [h2] at he
        simp only [List.mem_append, List.mem_singleton] at he
        rcases he with he | he
        · have := hi.below e he; omega
        · rw [he]; simp
      · intro e he hgt; rw [h2] at he
        simp only [List.mem_append, List.mem_singleton] at he
        rcases he with he | he
        · rw [h4] at hgt; exact hi.tailNonAe e he hgt
        · rw [he]; exact hae'
      · right
        rw [h3, h4, h2]
        by_cases hgt : pn > s.largestAe
        · refine ⟨rfl, extra, hex, ?_⟩
          have hin2 : inTail s.largestAe (pn, v) = true := by
            simp only [inTail, hae', Bool.not_false, Bool.true_and, decide_eq_true_eq]; exact hgt
          simp only [cntTail_append, cntTail_cons, cntTail_nil, hin2, if_true]
          omega
        · -- only possible for the very first packet of the space: number 0, nothing ack-eliciting sent yet
          have hn0 : n = 0 := by
            rcases hi.la with h | h
            · exact h
            · omega
          obtain ⟨ht0, hE0, _, _⟩ := hi.fresh hn0
          have hin2 : inTail s.largestAe (pn, v) = false := by
            simp only [inTail, hae', Bool.not_false, Bool.true_and, decide_eq_false_iff_not]; exact hgt
          refine ⟨rfl, 1, maxt_pos, ?_⟩
          rw [hE0, ht0]
          simp only [List.nil_append, cntTail_cons, cntTail_nil, hin2]
          simp


theorem discard_inv (s : Space) (n : Nat) (dead : Bool) (hi : SpaceInv s n dead) :
    SpaceInv { s with ring := {} } n (dead || decide (s.tail > MAXT)) := by
  refine ⟨ringWF_default, ?_, hi.la, hi.laSmall, ?_, ?_, by simp, ?_⟩
  · intro e he; simp [entries, entriesFrom] at he
  · intro e he; simp [entries, entriesFrom] at he
  · intro h0
    obtain ⟨h1, _, h3, h4⟩ := hi.fresh h0
    refine ⟨h1, by simp [entries, entriesFrom], h3, ?_⟩
    simp only [h4, Bool.false_or, decide_eq_false_iff_not]
    show ¬ s.tail > MAXT
    omega
  · by_cases hd : (dead || decide (s.tail > MAXT)) = true
    · left; exact ⟨hd, by simp [entries, entriesFrom]⟩
    · right
      have hd' : (dead || decide (s.tail > MAXT)) = false := by simpa using hd
      simp only [Bool.or_eq_false_iff, decide_eq_false_iff_not] at hd'
      refine ⟨by simp [hd'.1, hd'.2], s.tail, by omega, ?_⟩
      simp [entries, entriesFrom]

/-! ### discipline of the caller and the main invariant -/

/-- what `Connection` guarantees but the components do not check:
    `next i` = one more than the largest packet number used in space `i`, `dead i` see `SpaceInv` -/
structure D where
  next : Sp → Nat := fun _ => 0
  dead : Sp → Bool := fun _ => false

def upd {α : Type} (f : Sp → α) (i : Sp) (x : α) : Sp → α := fun j => if j = i then x else f j

@[simp] theorem upd_same {α : Type} (f : Sp → α) (i : Sp) (x : α) : upd f i x i = x := by simp [upd]
theorem upd_ne {α : Type} (f : Sp → α) (i j : Sp) (x : α) (h : j ≠ i) : upd f i x j = f j := by simp [upd, h]

def D.step (d : D) (g : G) : Op → D
  | .sent i pn _ ae _ => { next := upd d.next i (pn + 1), dead := upd d.dead i (if ae then false else d.dead i) }
  | .discard i => { d with dead := upd d.dead i (d.dead i || decide ((g.st.space i).tail > MAXT)) }
  | _ => d

/-- caller discipline for one event: packets carry the path's generation; packet numbers of a space
    increase and are below 2^62; no non-ack-eliciting packet is sent in a space that was emptied
    (Retry / 0-RTT rejection / discard) while its non-ack-eliciting tail counter was above the limit;
    fewer than 2^64 bytes / packets were ever sent -/
def Disc (g : G) (d : D) : Op → Prop
  | .sent i pn size ae gen =>
    gen = g.st.gen ∧ d.next i ≤ pn ∧ pn < 2^62 ∧ (ae = false → d.dead i = false) ∧
    ltot szF g.lg.sent + size < 2^64 ∧ ltot aeF g.lg.sent + (if ae then 1 else 0) < 2^64
  | _ => True

def Disciplined : G → D → List Op → Prop
  | _, _, [] => True
  | g, d, op :: t => Disc g d op ∧ Disciplined (g.step op) (d.step g op) t

structure NP (g : G) (d : D) : Prop where
  ok : g.lg.panicked = false
  bal : Balanced g
  trk : Tracks g.st
  sp : ∀ i, SpaceInv (g.st.space i) (d.next i) (d.dead i)

theorem np_init : NP {} {} := ⟨rfl, balanced_init, tracks_init, fun i => by cases i <;> exact spaceInv_init⟩

theorem tot_mem_le (f : Pkt → Nat) (l : List Pkt) (p : Pkt) (h : p ∈ l) : f p ≤ tot f l := by
  induction l with
  | nil => cases h
  | cons x t ih =>
    simp only [tot_cons]
    rcases List.mem_cons.1 h with h | h
    · subst h; omega
    · have := ih h; omega

theorem removeInFlight_no_panic (st : State) (v : Pkt) (hb : v.size ≤ st.inFlight.bytes)
    (ha : aeN v ≤ st.inFlight.ae) : (st.removeInFlight v).2 ≠ .panic := by
  intro hp
  cases hr : st.removeInFlight v with
  | mk st' r =>
    have := removeInFlight_spec _ _ _ _ hr
    rw [hr] at hp; simp only at hp; subst hp
    obtain ⟨_, _, _, h⟩ := this
    omega

theorem removeAll_no_panic (vs : List Pkt) (st : State) (hg : ∀ p ∈ vs, p.gen = st.gen)
    (hb : tot (fun p => p.size) vs ≤ st.inFlight.bytes) (ha : tot aeN vs ≤ st.inFlight.ae) :
    (st.removeAll vs).2 ≠ .panic := by
  induction vs generalizing st with
  | nil => simp [State.removeAll]
  | cons v t ih =>
    unfold State.removeAll
    simp only [tot_cons] at hb ha
    have hnp := removeInFlight_no_panic st v (by omega) (by omega)
    cases hr : st.removeInFlight v with
    | mk st2 r =>
      have hs := removeInFlight_spec _ _ _ _ hr
      rw [hr] at hnp
      cases r with
      | panic => exact absurd rfl hnp
      | ok b =>
        simp only
        obtain ⟨_, hg2, _, hb2, ha2⟩ := hs
        have hvg : v.gen = st.gen := hg v (by simp)
        simp only [onPath, hvg, decide_true, if_true] at hb2 ha2
        exact ih st2 (fun p hp => by rw [hg2]; exact hg p (by simp [hp])) (by omega) (by omega)

theorem outs_ge (st : State) (i : Sp) (f : Sp → Pkt → Nat) (p : Pkt) (h : p ∈ values (st.space i).ring) :
    f i p ≤ outs st f := by
  rw [outs_split st i f]
  have := tot_mem_le (f i) _ p h
  omega

theorem step_np (g : G) (d : D) (op : Op) (hn : NP g d) (hd : Disc g d op) : NP (g.step op) (d.step g op) := by
  obtain ⟨hok, hbal, htrk, hsp⟩ := hn
  -- first: the step does not panic
  have hstep : (g.step op).lg.panicked = false ∧ ∀ i, SpaceInv ((g.step op).st.space i) ((d.step g op).next i) ((d.step g op).dead i) := by
    cases op with
    | sent i pn size ae gen =>
      obtain ⟨hgen, hpn, hsm, hdd, hob, hoa⟩ := hd
      have hbs := hbal szF
      have hba := hbal aeF
      have hinv := sent_inv _ _ _ (hsp i) pn ⟨pn, size, ae, gen⟩ hpn hsm hdd
      simp only [G.step, D.step]
      unfold State.sent
      cases hc : g.st.inFlight.insert ⟨pn, size, ae, gen⟩ with
      | mk c rr =>
        have hcs := counters_insert_spec _ _ _ _ hc
        cases rr with
        | panic =>
          exfalso
          simp only [aeN] at hcs
          have h1 := htrk.bytes; have h2 := htrk.ae
          rcases hcs with hcs | hcs <;> omega
        | ok u =>
          simp only at hcs ⊢
          have hspc : ({ g.st with inFlight := c } : State).space i = g.st.space i := by cases i <;> rfl
          rw [hspc]
          cases hs : (g.st.space i).sent pn ⟨pn, size, ae, gen⟩ with
          | mk sp r2 =>
            rw [hs] at hinv
            simp only at hinv
            have hspec := sent_spec _ _ _ _ _ hs
            cases r2 with
            | panic => exact absurd rfl hinv.1
            | ok x =>
              have hsi : ∀ (stx : State), (∀ j, stx.space j = (({ g.st with inFlight := c } : State).setSpace i sp).space j) →
                  ∀ j, SpaceInv (stx.space j) (upd d.next i (pn + 1) j) (upd d.dead i (if ae = true then false else d.dead i) j) := by
                intro stx hx j
                rw [hx j]
                by_cases hj : j = i
                · subst hj; simp only [space_setSpace, upd_same]; exact hinv.2
                · rw [space_setSpace_ne _ _ _ _ hj, upd_ne _ _ _ _ hj, upd_ne _ _ _ _ hj]
                  have : ({ g.st with inFlight := c } : State).space j = g.st.space j := by cases j <;> rfl
                  rw [this]; exact hsp j
              cases x with
              | none =>
                simp only
                exact ⟨hok, hsi _ (fun _ => rfl)⟩
              | some p =>
                simp only at hspec ⊢
                obtain ⟨a, b, h1, _, _⟩ := hspec
                have hpm : p ∈ values (g.st.space i).ring := by rw [h1]; simp
                have hpg : p.gen = g.st.gen := htrk.gens i p hpm
                have hpb := outs_ge g.st i szF p hpm
                have hpa := outs_ge g.st i aeF p hpm
                have hnp := removeInFlight_no_panic (({ g.st with inFlight := c } : State).setSpace i sp) p
                  (by simp only [setSpace_inFlight, szF] at hpb ⊢; have := htrk.bytes; omega)
                  (by simp only [setSpace_inFlight, aeF] at hpa ⊢; have := htrk.ae; omega)
                cases hr : (({ g.st with inFlight := c } : State).setSpace i sp).removeInFlight p with
                | mk st2 r3 =>
                  rw [hr] at hnp
                  have hrs := removeInFlight_spec _ _ _ _ hr
                  cases r3 with
                  | panic => exact absurd rfl hnp
                  | ok bb =>
                    simp only
                    exact ⟨hok, hsi _ hrs.1⟩
    | ack i pn =>
      simp only [G.step, D.step]
      have hinv := take_inv _ _ _ (hsp i) pn
      unfold State.resolve
      cases hs : (g.st.space i).take pn with
      | mk sp r2 =>
        rw [hs] at hinv
        simp only at hinv
        have hspec := take_spec _ _ _ _ hs
        have hsi : ∀ (stx : State), (∀ j, stx.space j = (g.st.setSpace i sp).space j) →
            ∀ j, SpaceInv (stx.space j) (d.next j) (d.dead j) := by
          intro stx hx j
          rw [hx j]
          by_cases hj : j = i
          · subst hj; simp only [space_setSpace]; exact hinv.2
          · rw [space_setSpace_ne _ _ _ _ hj]; exact hsp j
        cases r2 with
        | panic => exact absurd rfl hinv.1
        | ok x =>
          cases x with
          | none => simp only; exact ⟨hok, hsi _ (fun _ => rfl)⟩
          | some v =>
            simp only at hspec ⊢
            obtain ⟨⟨a, b, h1, _⟩, _⟩ := hspec
            have hpm : v ∈ values (g.st.space i).ring := by rw [h1]; simp
            have hpb := outs_ge g.st i szF v hpm
            have hpa := outs_ge g.st i aeF v hpm
            have hnp := removeInFlight_no_panic (g.st.setSpace i sp) v
              (by simp only [setSpace_inFlight, szF] at hpb ⊢; have := htrk.bytes; omega)
              (by simp only [setSpace_inFlight, aeF] at hpa ⊢; have := htrk.ae; omega)
            cases hr : (g.st.setSpace i sp).removeInFlight v with
            | mk st2 r3 =>
              rw [hr] at hnp
              have hrs := removeInFlight_spec _ _ _ _ hr
              cases r3 with
              | panic => exact absurd rfl hnp
              | ok bb => simp only; exact ⟨hok, hsi _ hrs.1⟩
    | lost i pn =>
      simp only [G.step, D.step]
      have hinv := take_inv _ _ _ (hsp i) pn
      unfold State.resolve
      cases hs : (g.st.space i).take pn with
      | mk sp r2 =>
        rw [hs] at hinv
        simp only at hinv
        have hspec := take_spec _ _ _ _ hs
        have hsi : ∀ (stx : State), (∀ j, stx.space j = (g.st.setSpace i sp).space j) →
            ∀ j, SpaceInv (stx.space j) (d.next j) (d.dead j) := by
          intro stx hx j
          rw [hx j]
          by_cases hj : j = i
          · subst hj; simp only [space_setSpace]; exact hinv.2
          · rw [space_setSpace_ne _ _ _ _ hj]; exact hsp j
        cases r2 with
        | panic => exact absurd rfl hinv.1
        | ok x =>
          cases x with
          | none => simp only; exact ⟨hok, hsi _ (fun _ => rfl)⟩
          | some v =>
            simp only at hspec ⊢
            obtain ⟨⟨a, b, h1, _⟩, _⟩ := hspec
            have hpm : v ∈ values (g.st.space i).ring := by rw [h1]; simp
            have hpb := outs_ge g.st i szF v hpm
            have hpa := outs_ge g.st i aeF v hpm
            have hnp := removeInFlight_no_panic (g.st.setSpace i sp) v
              (by simp only [setSpace_inFlight, szF] at hpb ⊢; have := htrk.bytes; omega)
              (by simp only [setSpace_inFlight, aeF] at hpa ⊢; have := htrk.ae; omega)
            cases hr : (g.st.setSpace i sp).removeInFlight v with
            | mk st2 r3 =>
              rw [hr] at hnp
              have hrs := removeInFlight_spec _ _ _ _ hr
              cases r3 with
              | panic => exact absurd rfl hnp
              | ok bb => simp only; exact ⟨hok, hsi _ hrs.1⟩
    | discard i =>
      simp only [G.step, D.step]
      unfold State.discard
      dsimp only
      have hb1 := htrk.bytes; have ha1 := htrk.ae
      rw [outs_split g.st i szF] at hb1
      rw [outs_split g.st i aeF] at ha1
      have hnp := removeAll_no_panic (values (g.st.space i).ring)
        (g.st.setSpace i { g.st.space i with ring := {} })
        (fun p hp => by rw [setSpace_gen]; exact htrk.gens i p hp)
        (by rw [setSpace_inFlight]; show tot (szF i) _ ≤ _; omega)
        (by rw [setSpace_inFlight]; show tot (aeF i) _ ≤ _; omega)
      cases hr : (g.st.setSpace i { g.st.space i with ring := {} }).removeAll (values (g.st.space i).ring) with
      | mk st2 r3 =>
        rw [hr] at hnp
        cases r3 with
        | panic => exact absurd rfl hnp
        | ok u =>
          simp only
          refine ⟨hok, ?_⟩
          obtain ⟨hx, _⟩ := removeAll_spec _ _ _ hr
          intro j
          rw [hx j]
          by_cases hj : j = i
          · subst hj; simp only [space_setSpace, upd_same]; exact discard_inv _ _ _ (hsp j)
          · rw [space_setSpace_ne _ _ _ _ hj, upd_ne _ _ _ _ hj]; exact hsp j
  have hgen : op.genOK g.st.gen := by
    cases op <;> simp only [Op.genOK]
    exact hd.1
  exact ⟨hstep.1, step_balanced g op hbal hstep.1, step_tracks g op htrk hgen hstep.1, hstep.2⟩

theorem run_np (ops : List Op) (g : G) (d : D) (hn : NP g d) (hd : Disciplined g d ops) :
    ∃ d', NP (g.run ops) d' := by
  induction ops generalizing g d with
  | nil => exact ⟨d, hn⟩
  | cons op t ih => exact ih (g.step op) (d.step g op) (step_np g d op hn hd.1) hd.2


/-! ### corollaries over whole histories -/

/-- every packet handed to `PathData::sent` carries the generation of the path (what
    `PacketBuilder::finish_and_track` does) -/
def GenDisc : G → List Op → Prop
  | _, [] => True
  | g, op :: t => op.genOK g.st.gen ∧ GenDisc (g.step op) t

theorem run_tracks (ops : List Op) (g : G) (ht : Tracks g.st) (hg : GenDisc g ops)
    (hp : (g.run ops).lg.panicked = false) : Tracks (g.run ops).st := by
  induction ops generalizing g with
  | nil => exact ht
  | cons op t ih =>
    have h1 : (g.step op).lg.panicked = false := run_panicked_mono t (g.step op) hp
    exact ih (g.step op) (step_tracks g op ht hg.1 h1) hg.2 hp

theorem disciplined_genDisc (ops : List Op) (g : G) (d : D) (h : Disciplined g d ops) : GenDisc g ops := by
  induction ops generalizing g d with
  | nil => trivial
  | cons op t ih =>
    refine ⟨?_, ih _ _ h.2⟩
    cases op <;> simp only [Op.genOK]
    exact h.1.1

/-- the packets still tracked, tagged with their space -/
def outstanding (st : State) : List (Sp × Pkt) :=
  (values st.s0.ring).map (fun p => (Sp.initial, p)) ++ (values st.s1.ring).map (fun p => (Sp.handshake, p))
    ++ (values st.s2.ring).map (fun p => (Sp.data, p))

theorem ltot_outstanding (st : State) (f : Sp → Pkt → Nat) : ltot f (outstanding st) = outs st f := by
  simp only [outstanding, ltot_append, ltot_map, outs]

def ind (k : Sp × Pkt) : Sp → Pkt → Nat := fun i p => if (i, p) = k then 1 else 0

theorem ltot_ind (k : Sp × Pkt) (l : List (Sp × Pkt)) : ltot (ind k) l = l.count k := by
  induction l with
  | nil => rfl
  | cons x t ih =>
    rw [ltot_cons, ih, List.count_cons]
    simp only [ind]
    by_cases h : x = k
    · subst h; simp; omega
    · have : ¬ (x.1, x.2) = k := h
      simp [this]

/-- packet numbers handed to `sent` are fresh -/
structure Fresh (g : G) (d : D) : Prop where
  below : ∀ e ∈ g.lg.sent, e.2.tag < d.next e.1
  nodup : g.lg.sent.Nodup

theorem step_fresh (g : G) (d : D) (op : Op) (hf : Fresh g d) (hd : Disc g d op) :
    Fresh (g.step op) (d.step g op) := by
  obtain ⟨hb, hn⟩ := hf
  cases op with
  | sent i pn size ae gen =>
    simp only [G.step, D.step]
    have hlt : ∀ e ∈ g.lg.sent, e.2.tag < upd d.next i (pn + 1) e.1 := by
      intro e he
      have := hb e he
      by_cases hj : e.1 = i
      · rw [hj, upd_same]; rw [hj] at this; have := hd.2.1; omega
      · rw [upd_ne _ _ _ _ hj]; exact this
    cases hs : g.st.sent i pn ⟨pn, size, ae, gen⟩ with
    | mk st' r =>
      cases r with
      | panic => exact ⟨hlt, hn⟩
      | ok fg =>
        simp only
        refine ⟨?_, ?_⟩
        · intro e he
          rcases List.mem_cons.1 he with he | he
          · subst he; simp
          · exact hlt e he
        · rw [List.nodup_cons]
          refine ⟨?_, hn⟩
          intro hm
          have := hb _ hm
          have := hd.2.1
          simp only at *
          omega
  | ack i pn =>
    simp only [G.step, D.step]
    cases hs : g.st.resolve i pn with
    | mk st' r =>
      cases r with
      | panic => exact ⟨hb, hn⟩
      | ok x =>
        cases x with
        | none => exact ⟨hb, hn⟩
        | some vb => obtain ⟨v, b⟩ := vb; exact ⟨hb, hn⟩
  | lost i pn =>
    simp only [G.step, D.step]
    cases hs : g.st.resolve i pn with
    | mk st' r =>
      cases r with
      | panic => exact ⟨hb, hn⟩
      | ok x =>
        cases x with
        | none => exact ⟨hb, hn⟩
        | some vb => obtain ⟨v, b⟩ := vb; exact ⟨hb, hn⟩
  | discard i =>
    simp only [G.step, D.step]
    cases hs : g.st.discard i with
    | mk st' r =>
      cases r with
      | panic => exact ⟨hb, hn⟩
      | ok vs => exact ⟨hb, hn⟩

theorem run_fresh (ops : List Op) (g : G) (d : D) (hf : Fresh g d) (hd : Disciplined g d ops) :
    (g.run ops).lg.sent.Nodup := by
  induction ops generalizing g d with
  | nil => exact hf.nodup
  | cons op t ih => exact ih (g.step op) (d.step g op) (step_fresh g d op hf hd.1) hd.2


theorem fresh_init : Fresh {} {} := ⟨(by intro e he; cases he), List.nodup_nil⟩

theorem remove_then_get_none' (r : Ring) (pn : Nat) (h : (remove r pn).2 ≠ .panic) :
    get (remove r pn).1 pn = none := by
  rw [get_eq_abs, (abs_remove r pn h).2 pn]; simp

theorem ledger_balances' (ops : List Op) (hp : ((G.run {} ops).lg.panicked = false)) (f : Sp → Pkt → Nat) :
    ltot f (G.run {} ops).lg.sent = ltot f (G.run {} ops).lg.acked + ltot f (G.run {} ops).lg.lost
      + ltot f (G.run {} ops).lg.abandoned + ltot f (outstanding (G.run {} ops).st) := by
  rw [ltot_outstanding]
  exact run_balanced ops {} balanced_init hp f

theorem conservation' (ops : List Op) (hg : GenDisc {} ops) (hp : (G.run {} ops).lg.panicked = false) :
    ltot szF (G.run {} ops).lg.sent = ltot szF (G.run {} ops).lg.acked + ltot szF (G.run {} ops).lg.lost
        + ltot szF (G.run {} ops).lg.abandoned + (G.run {} ops).st.inFlight.bytes ∧
    ltot aeF (G.run {} ops).lg.sent = ltot aeF (G.run {} ops).lg.acked + ltot aeF (G.run {} ops).lg.lost
        + ltot aeF (G.run {} ops).lg.abandoned + (G.run {} ops).st.inFlight.ae := by
  have ht := run_tracks ops {} tracks_init hg hp
  have hb := run_balanced ops {} balanced_init hp
  exact ⟨by rw [ht.bytes]; exact hb szF, by rw [ht.ae]; exact hb aeF⟩

theorem no_panic' (ops : List Op) (hd : Disciplined {} {} ops) : (G.run {} ops).lg.panicked = false := by
  obtain ⟨d', hn⟩ := run_np ops {} {} np_init hd
  exact hn.ok

theorem resolved_once' (ops : List Op) (hd : Disciplined {} {} ops) (k : Sp × Pkt) :
    (G.run {} ops).lg.sent.Nodup ∧
    (G.run {} ops).lg.acked.count k + (G.run {} ops).lg.lost.count k + (G.run {} ops).lg.abandoned.count k
      + (outstanding (G.run {} ops).st).count k = (G.run {} ops).lg.sent.count k ∧
    (G.run {} ops).lg.sent.count k ≤ 1 := by
  have hp := no_panic' ops hd
  have hn : (G.run {} ops).lg.sent.Nodup := run_fresh ops {} {} fresh_init hd
  have hb := ledger_balances' ops hp (ind k)
  simp only [ltot_ind] at hb
  exact ⟨hn, hb.symm, List.nodup_iff_count.1 hn k⟩

theorem zero_when_resolved' (ops : List Op) (hg : GenDisc {} ops)
    (hp : (G.run {} ops).lg.panicked = false) (hall : outstanding (G.run {} ops).st = []) :
    (G.run {} ops).st.inFlight.bytes = 0 ∧ (G.run {} ops).st.inFlight.ae = 0 := by
  have ht := run_tracks ops {} tracks_init hg hp
  have h1 := ltot_outstanding (G.run {} ops).st szF
  have h2 := ltot_outstanding (G.run {} ops).st aeF
  rw [hall] at h1 h2
  simp only [ltot_nil] at h1 h2
  exact ⟨by rw [ht.bytes, ← h1], by rw [ht.ae, ← h2]⟩

end QM.InFlight
