import QuinnModel.Lemmas.StreamsC05Ops
/-
C17 — 0-RTT at the stream layer: what `zero_rtt_rejected` resets, and that
`retransmit_all_for_0rtt` leaves nothing unsent.
-/
namespace QM.Streams
set_option pp.structureInstances false

theorem sidNew_inj {sd sd' : Side} {d d' : Dir} {i j : Nat} (h : sidNew sd d i = sidNew sd' d' j) :
    sd = sd' ∧ d = d' ∧ i = j := by
  cases sd <;> cases sd' <;> cases d <;> cases d' <;>
    simp [sidNew, Side.toNat, Dir.toNat] at h ⊢ <;> omega

/-! ### zero_rtt_rejected -/

theorem zeroRttDir_scalars {s s' : State} {d : Dir} (h : s.zeroRttDir d = some s') :
    s'.maxData = s.maxData ∧ s'.unackedData = s.unackedData ∧ s'.side = s.side ∧
    s'.next = s.next.set d 0 ∧ s'.max = s.max ∧
    s'.initialMaxStreamDataUni = s.initialMaxStreamDataUni ∧
    s'.initialMaxStreamDataBidiLocal = s.initialMaxStreamDataBidiLocal ∧
    s'.initialMaxStreamDataBidiRemote = s.initialMaxStreamDataBidiRemote := by
  unfold State.zeroRttDir at h
  osplit h
  all_goals (rw [← h]; exact ⟨rfl, rfl, rfl, rfl, rfl, rfl, rfl, rfl⟩)

/-- what `zero_rtt_rejected` does to the sender's scalars: nothing sent in 0-RTT is outstanding and
    the remembered connection credit is void -/
theorem zeroRttRejected_scalars {s s' : State} (h : s.zeroRttRejected = some s') :
    s'.maxData = 0 ∧ s'.unackedData = 0 ∧ s'.dataSent = 0 ∧
    s'.next = ⟨0, 0⟩ ∧ s'.sendStreams = 0 ∧ s'.connectionBlocked = [] ∧
    s'.streamsBlocked = ⟨false, false⟩ ∧ s'.side = s.side := by
  unfold State.zeroRttRejected at h
  osplit h
  have h1 := zeroRttDir_scalars ‹State.zeroRttDir s Dir.bi = some _›
  have h2 := zeroRttDir_scalars ‹State.zeroRttDir _ Dir.uni = some _›
  rw [← h]
  refine ⟨rfl, rfl, rfl, ?_, rfl, rfl, rfl, h2.2.2.1.trans h1.2.2.1⟩
  simp only
  rw [h2.2.2.2.1, h1.2.2.2.1]
  rfl

/-- the removal loop: the ids `i … i+n-1` of this side and direction are gone afterwards, everything
    else in the send map is untouched -/
theorem zeroRttLoop_send (side : Side) (dir : Dir) : ∀ (n : Nat) (send send' : Map (Option Send))
    (recv recv' : Map (Option Recv)) (i : Nat),
    zeroRttLoop side dir send recv n i = some (send', recv') →
    (∀ j, i ≤ j → j < i + n → send'.find? (sidNew side dir j) = none) ∧
    (∀ k, (∀ j, i ≤ j → j < i + n → k ≠ sidNew side dir j) → send'.find? k = send.find? k) := by
  intro n
  induction n with
  | zero =>
    intro send send' recv recv' i h
    simp only [zeroRttLoop, Option.some.injEq, Prod.mk.injEq] at h
    obtain ⟨rfl, rfl⟩ := h
    exact ⟨fun j h1 h2 => by omega, fun k _ => rfl⟩
  | succ n ih =>
    intro send send' recv recv' i h
    unfold zeroRttLoop at h
    dsimp only at h
    split at h
    · contradiction
    · split at h
      · split at h
        · contradiction
        · obtain ⟨h1, h2⟩ := ih _ _ _ _ _ h
          constructor
          · intro j hj1 hj2
            by_cases hji : j = i
            · subst hji
              rw [h2 _ (fun j' hj1' _ hc => by have := (sidNew_inj hc).2.2; omega)]
              exact Map.find?_erase_self _ _
            · exact h1 j (by omega) (by omega)
          · intro k hk
            rw [h2 k (fun j hj1 hj2 => hk j (by omega) (by omega))]
            exact Map.find?_erase_ne _ _ _ (hk i (Nat.le_refl _) (by omega))
      · obtain ⟨h1, h2⟩ := ih _ _ _ _ _ h
        constructor
        · intro j hj1 hj2
          by_cases hji : j = i
          · subst hji
            rw [h2 _ (fun j' hj1' _ hc => by have := (sidNew_inj hc).2.2; omega)]
            exact Map.find?_erase_self _ _
          · exact h1 j (by omega) (by omega)
        · intro k hk
          rw [h2 k (fun j hj1 hj2 => hk j (by omega) (by omega))]
          exact Map.find?_erase_ne _ _ _ (hk i (Nat.le_refl _) (by omega))

theorem zeroRttDir_send {s s' : State} {d : Dir} (h : s.zeroRttDir d = some s') :
    (∀ j, j < s.next.get d → s'.send.find? (sidNew s.side d j) = none) ∧
    (∀ k, (∀ j, j < s.next.get d → k ≠ sidNew s.side d j) → s'.send.find? k = s.send.find? k) := by
  unfold State.zeroRttDir at h
  osplit h
  all_goals
    have hl := zeroRttLoop_send _ _ _ _ _ _ _ _ ‹zeroRttLoop _ _ _ _ _ _ = some _›
    rw [← h]
    exact ⟨fun j hj => hl.1 j (Nat.zero_le _) (by omega),
      fun k hk => hl.2 k (fun j _ hj => hk j (by omega))⟩

/-- after `zero_rtt_rejected` none of the streams this side had opened is left in the send map -/
theorem zeroRttRejected_no_local {s s' : State} (h : s.zeroRttRejected = some s') (d : Dir) (j : Nat)
    (hj : j < s.next.get d) : s'.send.find? (sidNew s.side d j) = none := by
  unfold State.zeroRttRejected at h
  osplit h
  have h1 := ‹State.zeroRttDir s Dir.bi = some _›
  have h2 := ‹State.zeroRttDir _ Dir.uni = some _›
  rename_i s1 _ _ s2 _
  have sc1 := zeroRttDir_scalars h1
  obtain ⟨a1, b1⟩ := zeroRttDir_send h1
  obtain ⟨a2, b2⟩ := zeroRttDir_send h2
  rw [← h]
  simp only
  cases d with
  | bi =>
    rw [b2 _ (fun j' _ hc => by rw [sc1.2.2.1] at hc; have := (sidNew_inj hc).2.1; contradiction)]
    exact a1 j hj
  | uni =>
    rw [sc1.2.2.1] at a2
    apply a2 j
    rw [sc1.2.2.2.1]
    simpa [Two.get, Two.set] using hj

/-! ### retransmit_all_for_0rtt -/

/-- what `retransmit_all_for_0rtt` leaves behind for a stream: every byte that is not acknowledged is
    scheduled again from offset 0 (or nothing is outstanding), and the FIN of a finished stream whose
    FIN is not acknowledged is queued again -/
def Resent (x : Send) : Prop :=
  ((x.pending.isFullyAcked && !x.finPending) = false → x.pending.unsent = 0) ∧
  (x.state = .dataSent false → x.finPending = true)

/-- one direction of `retransmit_all_for_0rtt`: every stream in the range ends up `Resent` -/
theorem rtx0Loop_unsent (dir : Dir) : ∀ (n : Nat) {s s' : State} {i : Nat},
    s.rtx0Loop dir n i = some s' →
    (∀ j x', i ≤ j → j < i + n → s'.send.find? (sidNew .client dir j) = some (some x') → Resent x') ∧
    (∀ k x', (∀ j, i ≤ j → j < i + n → k ≠ sidNew .client dir j) →
      s'.send.find? k = some (some x') → s.send.find? k = some (some x')) := by
  intro n
  induction n with
  | zero =>
    intro s s' i h
    simp only [State.rtx0Loop, Option.some.injEq] at h; subst h
    exact ⟨fun j x' h1 h2 => by omega, fun k x' _ hk => hk⟩
  | succ n ih =>
    intro s s' i h
    unfold State.rtx0Loop at h
    dsimp only at h
    -- what the step did to the map
    have key : ∀ (s1 : State), s1.rtx0Loop dir n (i + 1) = some s' →
        (∀ x1, s1.send.find? (sidNew .client dir i) = some (some x1) → Resent x1) →
        (∀ k x1, k ≠ sidNew .client dir i → s1.send.find? k = some (some x1) → s.send.find? k = some (some x1)) →
        (∀ j x', i ≤ j → j < i + (n + 1) → s'.send.find? (sidNew .client dir j) = some (some x') → Resent x') ∧
        (∀ k x', (∀ j, i ≤ j → j < i + (n + 1) → k ≠ sidNew .client dir j) →
          s'.send.find? k = some (some x') → s.send.find? k = some (some x')) := by
      intro s1 hrec hcur hoth
      obtain ⟨h1, h2⟩ := ih hrec
      constructor
      · intro j x' hj1 hj2 hf
        by_cases hji : j = i
        · subst hji
          have := h2 _ x' (fun j' hj1' _ hc => by have := (sidNew_inj hc).2.2; omega) hf
          exact hcur x' this
        · exact h1 j x' (by omega) (by omega) hf
      · intro k x' hk hf
        have := h2 k x' (fun j hj1 hj2 => hk j (by omega) (by omega)) hf
        exact hoth k x' (hk i (Nat.le_refl _) (by omega)) this
    split at h
    · rename_i x hx
      split at h
      · rename_i hskip
        refine key s h ?_ (fun k x1 _ hk => hk)
        intro x1 hx1
        rw [hx] at hx1; simp only [Option.some.injEq] at hx1; subst hx1
        -- skipped: fully acknowledged, no FIN pending, and not a finished stream with an unacknowledged FIN
        simp only [Bool.and_eq_true, Bool.not_eq_eq_eq_not, Bool.not_true] at hskip
        refine ⟨fun hna => by simp [hskip.1.1, hskip.1.2] at hna, fun hst => ?_⟩
        have : x.rtx0Finished = true := by unfold Send.rtx0Finished; simp [Gen.rtx0RequeuesFin, hst]
        rw [this] at hskip; exact absurd hskip.2 (by simp)
      · split at h
        · contradiction
        · rename_i p hp
          refine key _ h ?_ ?_
          · intro x1 hx1
            simp only [State.putSend] at hx1
            rw [Map.find?_set_self _ _ _ _ hx] at hx1
            simp only [Option.some.injEq] at hx1; subst hx1
            refine ⟨fun _ => ?_, fun hst => ?_⟩
            · unfold SendBuf.retransmitAllFor0rtt at hp
              split at hp
              · simp only [Option.some.injEq] at hp; rw [← hp]
              · contradiction
            · have : x.rtx0Finished = true := by
                unfold Send.rtx0Finished; simp only [Gen.rtx0RequeuesFin, Bool.true_and]; simpa using hst
              simp [this]
          · intro k x1 hk hf
            simp only [State.putSend] at hf
            rw [Map.find?_set_ne _ _ _ _ hk] at hf; exact hf
    · rename_i hnone
      refine key s h ?_ (fun k x1 _ hk => hk)
      intro x1 hx1
      exact absurd hx1 (hnone x1)

/-- after `retransmit_all_for_0rtt` every stream the client opened is `Resent`: all unacknowledged
    data is scheduled again from offset 0 and the FIN of every finished stream is queued again -/
theorem rtx0_resent {s s' : State} (h : s.retransmitAllFor0rtt = some s') (d : Dir) (j : Nat)
    (hj : j < s.next.get d) (x' : Send) (hf : s'.send.find? (sidNew .client d j) = some (some x')) :
    Resent x' := by
  unfold State.retransmitAllFor0rtt at h
  osplit h
  have h1 := ‹State.rtx0Loop s Dir.bi _ _ = some _›
  rename_i s1 _
  obtain ⟨a1, b1⟩ := rtx0Loop_unsent _ _ h1
  obtain ⟨a2, b2⟩ := rtx0Loop_unsent _ _ h
  have hnext : s1.next = s.next := by
    have := (frame_rtx0Loop _ _ h1).v.core
    exact congrArg Core.next this
  cases d with
  | uni => exact a2 j x' (Nat.zero_le _) (by rw [hnext]; omega) hf
  | bi =>
    -- the second loop does not touch bidirectional ids
    have hf1 := b2 _ x' (fun j' _ _ hc => by have := (sidNew_inj hc).2.1; contradiction) hf
    exact a1 j x' (Nat.zero_le _) (by omega) hf1

theorem rtx0_nothing_unsent {s s' : State} (h : s.retransmitAllFor0rtt = some s') (d : Dir) (j : Nat)
    (hj : j < s.next.get d) (x' : Send) (hf : s'.send.find? (sidNew .client d j) = some (some x'))
    (hna : (x'.pending.isFullyAcked && !x'.finPending) = false) : x'.pending.unsent = 0 :=
  (rtx0_resent h d j hj x' hf).1 hna

/-! ### the sender-visible projection -/

/-- what an application and the peer can observe of the sender side: stream numbering, stream and
    connection credit, queues (map contents are covered by `zeroRttRejected_no_local`) -/
structure Proj where
  next : Two Nat
  max : Two Nat
  sendStreams : Nat
  dataSent : Nat
  unackedData : Nat
  maxData : Nat
  connectionBlocked : List Nat
  streamsBlocked : Two Bool
  pendingStreams : List PStream
  pendingNext : Option PStream
  initialMaxStreamDataUni : Nat
  initialMaxStreamDataBidiLocal : Nat
  initialMaxStreamDataBidiRemote : Nat
deriving DecidableEq

def State.proj (s : State) : Proj :=
  ⟨s.next, s.max, s.sendStreams, s.dataSent, s.unackedData, s.maxData, s.connectionBlocked,
   s.streamsBlocked, s.pending.streams, s.pending.next, s.initialMaxStreamDataUni, s.initialMaxStreamDataBidiLocal,
   s.initialMaxStreamDataBidiRemote⟩

theorem insert_only_maps {s s' : State} {r : Bool} {id : Nat} (h : s.insert r id = some s') :
    s' = { s with send := s'.send, recv := s'.recv } := by
  unfold State.insert at h
  osplit h
  rw [← h]

theorem insertRemoteRange_only_maps (n : Nat) : ∀ {s s' : State} {d : Dir} {st i : Nat},
    s.insertRemoteRange d st n i = some s' → s' = { s with send := s'.send, recv := s'.recv } := by
  induction n with
  | zero => intro s s' d st i h; simp [State.insertRemoteRange] at h; subst h; rfl
  | succ n ih =>
    intro s s' d st i h
    unfold State.insertRemoteRange at h
    split at h
    · simp at h
    · rename_i s1 h1
      have e1 := insert_only_maps h1
      have e2 := ih h
      rw [e2, e1]

/-- the projection of a fresh state after `set_params p` -/
theorem fresh_proj {c : Config} {s0 : State} (h : State.new c = some s0) (p : Params) :
    (s0.setParams p).proj =
      ⟨⟨0, 0⟩, ⟨p.initialMaxStreamsBidi, p.initialMaxStreamsUni⟩, 0, 0, 0, p.initialMaxData, [],
       ⟨false, false⟩, [], none,
       p.initialMaxStreamDataUni, p.initialMaxStreamDataBidiLocal, p.initialMaxStreamDataBidiRemote⟩ := by
  unfold State.new at h
  osplit h
  have e1 := insertRemoteRange_only_maps _ ‹State.insertRemoteRange _ Dir.bi _ _ _ = some _›
  have e2 := insertRemoteRange_only_maps _ h
  rw [e2, e1]
  simp only [State.proj, State.setParams, State.receivedMaxData, natMax_eq, Nat.zero_max]

/-- the projection after `zero_rtt_rejected` and `set_params p` is the fresh one -/
theorem rejected_proj {s s1 : State} (h : s.zeroRttRejected = some s1) (p : Params) :
    (s1.setParams p).proj =
      ⟨⟨0, 0⟩, ⟨p.initialMaxStreamsBidi, p.initialMaxStreamsUni⟩, 0, 0, 0, p.initialMaxData, [],
       ⟨false, false⟩, [], none,
       p.initialMaxStreamDataUni, p.initialMaxStreamDataBidiLocal, p.initialMaxStreamDataBidiRemote⟩ := by
  obtain ⟨z1, z2, z3, z4, z5, z6, z7, _⟩ := zeroRttRejected_scalars h
  have zp : s1.pending.streams = [] ∧ s1.pending.next = none := by
    unfold State.zeroRttRejected at h
    osplit h
    rw [← h]; exact ⟨rfl, rfl⟩
  simp only [State.proj, State.setParams, State.receivedMaxData, z1, z2, z3, z4, z5, z6, z7, zp.1, zp.2,
    natMax_eq, Nat.zero_max]

end QM.Streams
