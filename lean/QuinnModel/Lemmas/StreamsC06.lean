import QuinnModel.Lemmas.StreamsBasic
/-
C06 — the receiver enforces its own limits: the decision of `Recv::ingest` / `Recv::reset` /
`validate_receive_id` as a table, and "no delivery after an error".
-/
namespace QM.Streams
set_option pp.structureInstances false

/-- the final-size conflict of a STREAM frame ending at `end_` -/
def Recv.finalSizeConflict (r : Recv) (end_ : Nat) (fin : Bool) : Prop :=
  (∃ fo, r.finalOffset = some fo ∧ (end_ > fo ∨ (fin = true ∧ end_ ≠ fo))) ∨
  (fin = true ∧ end_ < r.end_)

theorem creditConsumedBy_cases {r : Recv} {offset received maxData : Nat} {res : Except TErr Nat}
    (h : r.creditConsumedBy offset received maxData = some res) :
    (offset > r.sentMaxStreamData ∧ res = .error (.flowControl "")) ∨
    (offset ≤ r.sentMaxStreamData ∧ received + (offset - r.end_) > maxData ∧ res = .error (.flowControl "")) ∨
    (offset ≤ r.sentMaxStreamData ∧ received + (offset - r.end_) ≤ maxData ∧ res = .ok (offset - r.end_)) := by
  unfold Recv.creditConsumedBy at h
  simp only [Gen.creditOverStream, Gen.creditOverConn, Gen.creditNewBytes, addU] at h
  by_cases h1 : offset > r.sentMaxStreamData
  · simp only [h1, decide_true, ↓reduceIte, Option.some.injEq] at h
    exact Or.inl ⟨h1, h.symm⟩
  · simp only [h1, decide_false, Bool.false_eq_true, ↓reduceIte] at h
    by_cases h0 : received + (offset - r.end_) < 2 ^ 64
    · simp only [h0, ↓reduceIte] at h
      by_cases h2 : received + (offset - r.end_) > maxData
      · simp only [h2, decide_true, ↓reduceIte, Option.some.injEq] at h
        exact Or.inr (Or.inl ⟨by omega, h2, h.symm⟩)
      · simp only [h2, decide_false, Bool.false_eq_true, ↓reduceIte, Option.some.injEq] at h
        exact Or.inr (Or.inr ⟨by omega, by omega, h.symm⟩)
    · simp only [h0, ↓reduceIte] at h
      by_cases hg : (Gen.creditOverflowIsError && decide (maxData < 2 ^ 64)) = true
      · simp only [hg, ↓reduceIte, Option.some.injEq] at h
        have hm : maxData < 2 ^ 64 := by
          simp only [Bool.and_eq_true, decide_eq_true_eq] at hg; exact hg.2
        exact Or.inr (Or.inl ⟨by omega, by omega, h.symm⟩)
      · simp [hg] at h

theorem finalSizeErr_iff (r : Recv) (end_ : Nat) (fin : Bool) :
    r.finalSizeErr end_ fin = true ↔ r.finalSizeConflict end_ fin := by
  unfold Recv.finalSizeErr Recv.finalSizeConflict
  simp only [Gen.ingestFinBelowEndIsError, Bool.true_and]
  cases hfo : r.finalOffset with
  | none => simp
  | some fo => simp

theorem ingestTail_cases {r : Recv} {offset len received maxData : Nat} {fin : Bool}
    {res : Except TErr (Nat × Bool × Recv)} (h : r.ingestTail offset len fin received maxData = some res) :
    ((offset + len > r.sentMaxStreamData ∨ received + (offset + len - r.end_) > maxData) ∧
      res = .error (.flowControl "")) ∨
    (offset + len ≤ r.sentMaxStreamData ∧ received + (offset + len - r.end_) ≤ maxData ∧
      ∃ r', res = .ok (offset + len - r.end_, fin && r.stopped, r') ∧
        r'.end_ = Nat.max r.end_ (offset + len) ∧ r'.sentMaxStreamData = r.sentMaxStreamData ∧
        r'.stopped = r.stopped ∧ r'.assembler.bytesRead = r.assembler.bytesRead ∧
        r'.assembler = (if !r.stopped then r.assembler.insert offset len else r.assembler)) := by
  unfold Recv.ingestTail at h
  dsimp only at h
  split at h
  · contradiction
  · rename_i e hcc
    simp only [Option.some.injEq] at h
    rcases creditConsumedBy_cases hcc with ⟨hh, he⟩ | ⟨_, hh, he⟩ | ⟨_, _, he⟩
    · left; exact ⟨Or.inl hh, by rw [← h, ← (Except.error.inj he)]⟩
    · left; exact ⟨Or.inr hh, by rw [← h, ← (Except.error.inj he)]⟩
    · contradiction
  · rename_i nb hcc
    simp only [Option.some.injEq] at h
    rcases creditConsumedBy_cases hcc with ⟨_, he⟩ | ⟨_, _, he⟩ | ⟨h3, h4, he⟩
    · contradiction
    · contradiction
    · right
      have := Except.ok.inj he; subst this
      refine ⟨h3, h4, _, h.symm, rfl, rfl, rfl, ?_, rfl⟩
      simp only
      split <;> simp [Asm.insert]

/-- decision table of `Recv::ingest` -/
theorem ingest_cases {r : Recv} {offset len received maxData : Nat} {fin : Bool}
    {res : Except TErr (Nat × Bool × Recv)} (h : r.ingest offset len fin received maxData = some res) :
    (offset + len ≥ 2 ^ 62 ∧ res = .error (.flowControl "maximum stream offset too large")) ∨
    (offset + len < 2 ^ 62 ∧ r.finalSizeConflict (offset + len) fin ∧ res = .error (.finalSize "")) ∨
    (offset + len < 2 ^ 62 ∧ ¬ r.finalSizeConflict (offset + len) fin ∧
      (offset + len > r.sentMaxStreamData ∨ received + (offset + len - r.end_) > maxData) ∧
      res = .error (.flowControl "")) ∨
    (offset + len < 2 ^ 62 ∧ ¬ r.finalSizeConflict (offset + len) fin ∧
      offset + len ≤ r.sentMaxStreamData ∧ received + (offset + len - r.end_) ≤ maxData ∧
      ∃ r', res = .ok (offset + len - r.end_, fin && r.stopped, r') ∧
        r'.end_ = Nat.max r.end_ (offset + len) ∧ r'.sentMaxStreamData = r.sentMaxStreamData ∧
        r'.stopped = r.stopped ∧ r'.assembler.bytesRead = r.assembler.bytesRead ∧
        r'.assembler = (if !r.stopped then r.assembler.insert offset len else r.assembler)) := by
  unfold Recv.ingest at h
  simp only [Gen.ingestEndBound] at h
  by_cases h1 : offset + len ≥ 2 ^ 62
  · simp only [h1, ↓reduceIte, Option.some.injEq] at h; exact Or.inl ⟨h1, h.symm⟩
  · simp only [h1, ↓reduceIte] at h
    have hlt : offset + len < 2 ^ 62 := by omega
    right
    by_cases hc : r.finalSizeErr (offset + len) fin = true
    · simp only [hc, ↓reduceIte, Option.some.injEq] at h
      exact Or.inl ⟨hlt, (finalSizeErr_iff _ _ _).mp hc, h.symm⟩
    · simp only [hc, Bool.false_eq_true, ↓reduceIte] at h
      have hnc : ¬ r.finalSizeConflict (offset + len) fin := fun hh => hc ((finalSizeErr_iff _ _ _).mpr hh)
      right
      rcases ingestTail_cases h with ⟨h3, he⟩ | ⟨h3, h4, he⟩
      · exact Or.inl ⟨hlt, hnc, h3, he⟩
      · exact Or.inr ⟨hlt, hnc, h3, h4, he⟩

/-- decision table of `Recv::reset` -/
theorem reset_cases {r : Recv} {code finalOffset received maxData : Nat}
    {res : Except TErr (Bool × Recv)} (h : r.reset code finalOffset received maxData = some res) :
    (∃ fo, r.finalOffset = some fo ∧ fo ≠ finalOffset ∧ res = .error (.finalSize "inconsistent value")) ∨
    (r.finalOffset = none ∧ r.end_ > finalOffset ∧ res = .error (.finalSize "lower than high water mark")) ∨
    (r.resetSizeErr finalOffset = none ∧
      (r.isReceiving = true ∧ (finalOffset > r.sentMaxStreamData ∨ received + (finalOffset - r.end_) > maxData)) ∧
      res = .error (.flowControl "")) ∨
    (r.resetSizeErr finalOffset = none ∧ (r.isReceiving = true → finalOffset ≤ r.sentMaxStreamData) ∧
      (r.isReceiving = true → received + (finalOffset - r.end_) ≤ maxData) ∧
      ((∃ sz c, r.state = .resetRecvd sz c ∧ res = .ok (false, r)) ∨
       (∃ sz, r.state = .recv sz ∧
          res = .ok (true, { r with state := .resetRecvd finalOffset code, assembler := r.assembler.clear })))) := by
  unfold Recv.reset at h
  cases hse : r.resetSizeErr finalOffset with
  | some e =>
    simp only [hse, Option.some.injEq] at h
    unfold Recv.resetSizeErr at hse
    cases hfo : r.finalOffset with
    | none =>
      simp only [hfo] at hse
      split at hse
      · simp only [Option.some.injEq] at hse
        exact Or.inr (Or.inl ⟨rfl, ‹_›, by rw [← h, ← hse]⟩)
      · contradiction
    | some fo =>
      simp only [hfo] at hse
      split at hse
      · simp only [Option.some.injEq] at hse
        exact Or.inl ⟨fo, rfl, ‹_›, by rw [← h, ← hse]⟩
      · contradiction
  | none =>
    simp only [hse] at h
    right; right
    unfold Recv.resetTail at h
    simp only [Gen.resetDuplicateBeforeCredit, Bool.true_and] at h
    split at h
    · -- already reset: a no-op before any flow-control test
      rename_i hnr
      have hnr' : r.isReceiving = false := by simpa using hnr
      simp only [Option.some.injEq] at h
      right
      refine ⟨rfl, fun hx => by rw [hnr'] at hx; contradiction, fun hx => by rw [hnr'] at hx; contradiction, ?_⟩
      unfold Recv.isReceiving at hnr'
      split at hnr'
      · contradiction
      · rename_i sz c hst; exact Or.inl ⟨sz, c, hst, h.symm⟩
    rename_i hrc
    have hrc' : r.isReceiving = true := by simpa using hrc
    split at h
    · contradiction
    · rename_i e hcc
      simp only [Option.some.injEq] at h
      rcases creditConsumedBy_cases hcc with ⟨hh, he⟩ | ⟨_, hh, he⟩ | ⟨_, _, he⟩
      · left; exact ⟨rfl, ⟨hrc', Or.inl hh⟩, by rw [← h, ← (Except.error.inj he)]⟩
      · left; exact ⟨rfl, ⟨hrc', Or.inr hh⟩, by rw [← h, ← (Except.error.inj he)]⟩
      · contradiction
    · rename_i nb hcc
      rcases creditConsumedBy_cases hcc with ⟨_, he⟩ | ⟨_, _, he⟩ | ⟨h3, h4, _⟩
      · contradiction
      · contradiction
      · right
        refine ⟨rfl, fun _ => h3, fun _ => h4, ?_⟩
        split at h
        · rename_i sz c hst
          simp only [Option.some.injEq] at h
          exact Or.inl ⟨sz, c, hst, h.symm⟩
        · rename_i sz hst
          simp only [Option.some.injEq] at h
          exact Or.inr ⟨sz, hst, h.symm⟩

end QM.Streams
