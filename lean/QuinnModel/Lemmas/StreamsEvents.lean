import QuinnModel.Lemmas.StreamsC11
/-
Event bookkeeping: `fsw s` = the queued `Finished` / `Stopped` events.  Every helper and every
operation other than ACK processing, STOP_SENDING and `poll` leaves it unchanged.
(The lemmas below mirror Lemmas/StreamsRecvFrame.lean.)
-/
namespace QM.Streams
set_option pp.structureInstances false

def isFinStop : Event → Bool
  | .finished _ | .stopped _ _ => true
  | _ => false

/-- the queued Finished / Stopped events, in order -/
def State.fsw (s : State) : List Event := s.events.filter isFinStop

theorem fsw_of_events {s s' : State} (h : s'.events = s.events) : s'.fsw = s.fsw := by
  simp only [State.fsw, h]

theorem fsw_insert {s s' : State} {r : Bool} {id : Nat} (h : s.insert r id = some s') : s'.fsw = s.fsw := by
  unfold State.insert at h
  osplit h
  subst h
  rfl

theorem fsw_insertRemoteRange (n : Nat) : ∀ {s s' : State} {d : Dir} {st i : Nat},
    s.insertRemoteRange d st n i = some s' → s'.fsw = s.fsw := by
  induction n with
  | zero => intro s s' d st i h; simp [State.insertRemoteRange] at h; subst h; rfl
  | succ n ih =>
    intro s s' d st i h
    unfold State.insertRemoteRange at h
    split at h
    · simp at h
    · rename_i s1 h1
      exact (ih h).trans (fsw_insert h1)

theorem fsw_ensureRemoteStreams {s s' : State} {d : Dir} (h : s.ensureRemoteStreams d = some s') :
    s'.fsw = s.fsw := by
  unfold State.ensureRemoteStreams at h
  osplit h
  subst h
  via fsw_insertRemoteRange _ ‹State.insertRemoteRange _ _ _ _ _ = some _›

theorem fsw_onStreamFrame (s : State) (b : Bool) (id : Nat) : (s.onStreamFrame b id).fsw = s.fsw := by
  unfold State.onStreamFrame
  split
  · split
    · simp [State.fsw, List.filter_append, isFinStop]
    · rfl
  · dsimp only
    split
    · rfl
    · split
      · simp [State.fsw, List.filter_append, isFinStop]
      · rfl

theorem fsw_freeRemote {s s' : State} {id : Nat} {hf : Half} (h : s.freeRemote id hf = some s') :
    s'.fsw = s.fsw := by
  unfold State.freeRemote at h
  osplit h
  all_goals first
    | (subst h; rfl)
    | via fsw_ensureRemoteStreams h

theorem fsw_streamFreed {s s' : State} {id : Nat} {hf : Half} (h : s.streamFreed id hf = some s') :
    s'.fsw = s.fsw := by
  unfold State.streamFreed at h
  osplit h
  all_goals
    subst h
    via fsw_freeRemote ‹State.freeRemote _ _ _ = some _›

theorem fsw_getOrInsertSend {s s' : State} {id : Nat} {x : Send}
    (h : s.getOrInsertSend id = some (x, s')) : s'.fsw = s.fsw := by
  unfold State.getOrInsertSend at h
  osplit h
  all_goals
    rw [← h.2]
    try rfl

theorem fsw_queueMaxStreamId {s s' : State} {b : Bool} (h : s.queueMaxStreamId = some (s', b)) :
    s'.fsw = s.fsw := by
  unfold State.queueMaxStreamId at h
  osplit h
  all_goals
    rw [← h.1]
    try rfl

theorem fsw_queueMaxIf {s s' : State} {c : Bool} (h : s.queueMaxIf c = some s') : s'.fsw = s.fsw := by
  rcases queueMaxIf_cases h with rfl | ⟨b, hq⟩
  · rfl
  · exact fsw_queueMaxStreamId hq

/-! ### sender-side operations -/

theorem fsw_write {s s' : State} {id n : Nat} {r : Except WriteErr Nat} (h : s.write id n = some (s', r)) :
    s'.fsw = s.fsw := by
  unfold State.write at h
  osplit h
  all_goals
    obtain ⟨rfl, _⟩ := h
    first
      | rfl
      | (have hg := fsw_getOrInsertSend ‹State.getOrInsertSend _ _ = some _›; exact hg)

theorem fsw_finish {s s' : State} {id : Nat} {r : Except WriteErr Unit} (h : s.finish id = (s', r)) :
    s'.fsw = s.fsw := by
  unfold State.finish at h
  osplit h
  all_goals
    obtain ⟨rfl, _⟩ := h
    first
      | rfl
      | (have hg := fsw_getOrInsertSend ‹State.getOrInsertSend _ _ = some _›; exact hg)

theorem fsw_reset {s s' : State} {id code : Nat} {b : Bool} (h : s.reset id code = some (s', b)) :
    s'.fsw = s.fsw := by
  unfold State.reset at h
  osplit h
  all_goals
    obtain ⟨rfl, _⟩ := h
    first
      | rfl
      | (have hg := fsw_getOrInsertSend ‹State.getOrInsertSend _ _ = some _›; exact hg)

theorem fsw_setPriority {s s' : State} {id : Nat} {p : Int} {b : Bool} (h : s.setPriority id p = (s', b)) :
    s'.fsw = s.fsw := by
  unfold State.setPriority at h
  osplit h
  all_goals
    obtain ⟨rfl, _⟩ := h
    first
      | rfl
      | (have hg := fsw_getOrInsertSend ‹State.getOrInsertSend _ _ = some _›; exact hg)

/-- STOP_SENDING: a `Stopped` event is queued exactly when the half had no stop reason yet, which is
    then recorded -/
theorem fsw_receivedStopSending (s : State) (id code : Nat) :
    (s.receivedStopSending id code).fsw = s.fsw ∨
    ((s.receivedStopSending id code).fsw = s.fsw ++ [.stopped id code] ∧
      (∃ c', absSend s id = .ready c' ∨ absSend s id = .dataSent c' ∨ absSend s id = .resetSent c') ∧
      expectedStopped (absSend s id) = some none ∧
      expectedStopped (absSend (s.receivedStopSending id code) id) = some (some code)) := by
  unfold State.receivedStopSending
  split
  · exact Or.inl rfl
  · rename_i x s1 h1
    have hg := fsw_getOrInsertSend h1
    obtain ⟨_, hx1, _⟩ := getOrInsertSend_spec h1
    have habs := absSend_getOrInsert h1
    cases hsr : x.stopReason with
    | none =>
      right
      simp only [Send.tryStop, hsr, ↓reduceIte]
      refine ⟨?_, ?_, ?_, ?_⟩
      · rw [fsw_onStreamFrame]
        simp only [State.fsw, State.putSend, List.filter_append] at hg ⊢
        rw [hg]; simp [isFinStop]
      · rw [habs]; unfold SendHalf.ofSend; rw [hsr]
        cases x.state
        · exact ⟨none, Or.inl rfl⟩
        · exact ⟨none, Or.inr (Or.inl rfl)⟩
        · exact ⟨none, Or.inr (Or.inr rfl)⟩
      · rw [habs]; unfold SendHalf.ofSend; rw [hsr]; cases x.state <;> rfl
      · have e1 : absSend (({ (s1.putSend id { x with stopReason := some code }) with
            events := s1.events ++ [Event.stopped id code] } : State).onStreamFrame false id) id =
            absSend (s1.putSend id { x with stopReason := some code }) id := by
          unfold absSend
          have : (({ (s1.putSend id { x with stopReason := some code }) with
            events := s1.events ++ [Event.stopped id code] } : State).onStreamFrame false id).send =
            (s1.putSend id { x with stopReason := some code }).send := by
            grind [State.onStreamFrame]
          rw [this]
        rw [e1, absSend_putSend hx1]
        unfold SendHalf.ofSend; cases x.state <;> rfl
    | some c =>
      left
      simp only [Send.tryStop, hsr, Bool.false_eq_true, ↓reduceIte]
      exact hg

theorem fsw_resetAcked {s s' : State} {id : Nat} (h : s.resetAcked id = some s') : s'.fsw = s.fsw := by
  unfold State.resetAcked at h
  osplit h
  all_goals first
    | (subst h; rfl)
    | via fsw_streamFreed h

/-- what `Send::ack` reports as "finished": the application had finished the stream, the FIN is
    acknowledged and no unacknowledged byte is left -/
theorem Send.ack_done {x x' : Send} {a e : Nat} {fin : Bool} (h : x.ack a e fin = some (x', true)) :
    (∃ fa, x.state = .dataSent fa ∧ (fa || fin) = true) ∧ x'.state = .dataSent true ∧
    x'.pending.unackedLen = 0 := by
  unfold Send.ack at h
  split at h
  · contradiction
  · rename_i p hp
    split at h
    · rename_i fa hst
      simp only [Option.some.injEq, Prod.mk.injEq, Bool.and_eq_true] at h
      obtain ⟨rfl, h1, h2⟩ := h
      refine ⟨⟨fa, hst, h1⟩, by simp only [h1], ?_⟩
      simpa [SendBuf.isFullyAcked] using h2
    · simp at h

/-- ACK of a STREAM frame: a `Finished` event is queued exactly when that completes a finished
    stream, whose state is then dropped -/
theorem fsw_receivedAckOf {s s' : State} {id a e : Nat} {fin : Bool}
    (h : s.receivedAckOf id a e fin = some s') :
    s'.fsw = s.fsw ∨
    (s'.fsw = s.fsw ++ [.finished id] ∧ s'.cv id = none ∧
      ∃ x x', s.send.find? id = some (some x) ∧ x.ack a e fin = some (x', true)) := by
  unfold State.receivedAckOf at h
  osplit h
  all_goals first
    | (subst h; exact Or.inl rfl)
    | (have hx := ‹Map.find? s.send id = some (some _)›
       have ha := ‹Send.ack _ _ _ _ = some _›
       have hf := ‹State.streamFreed _ _ _ = some _›
       have hd := ‹¬(!_) = true›
       simp only [Bool.not_eq_true'] at hd
       have hd2 := Bool.of_not_eq_false hd
       rw [hd2] at ha
       right
       have e1 := fsw_streamFreed hf
       have v1 := vw_streamFreed hf
       subst h
       refine ⟨?_, ?_, _, _, hx, ha⟩
       · simp only [State.fsw, List.filter_append] at e1 ⊢
         rw [e1]; simp [isFinStop, State.putSend]
       · have : ∀ (t : State) (ev : List Event), ({ t with events := ev } : State).cv id = t.cv id := fun _ _ => rfl
         rw [this]
         have := congrFun (congrArg SView.cv v1) id
         simp only [State.vw] at this
         rw [this]
         simp only [State.cv, Map.find?_erase_self])

theorem fsw_retransmit {s s' : State} {id a e : Nat} {fin : Bool}
    (h : s.retransmit id a e fin = some s') : s'.fsw = s.fsw := by
  unfold State.retransmit at h
  osplit h
  all_goals (subst h; rfl)

theorem fsw_rtx0Loop (dir : Dir) : ∀ (n : Nat) {s s' : State} {i : Nat},
    s.rtx0Loop dir n i = some s' → s'.fsw = s.fsw := by
  intro n
  induction n with
  | zero => intro s s' i h; simp [State.rtx0Loop] at h; subst h; rfl
  | succ n ih =>
    intro s s' i h
    unfold State.rtx0Loop at h
    osplit h
    all_goals first
      | exact ih h
      | via ih h

theorem fsw_retransmitAllFor0rtt {s s' : State} (h : s.retransmitAllFor0rtt = some s') : s'.fsw = s.fsw := by
  unfold State.retransmitAllFor0rtt at h
  osplit h
  exact (fsw_rtx0Loop _ _ h).trans (fsw_rtx0Loop _ _ ‹State.rtx0Loop _ _ _ _ = some _›)

theorem fsw_pollBlocked : ∀ (fuel : Nat) {s s' : State} {e : Option Event},
    s.pollBlocked fuel = some (s', e) → s'.fsw = s.fsw := by
  intro fuel
  induction fuel with
  | zero => intro s s' e h; simp [State.pollBlocked] at h; rw [← h.1]
  | succ n ih =>
    intro s s' e h
    unfold State.pollBlocked at h
    osplit h
    all_goals first
      | (obtain ⟨rfl, _⟩ := h; rfl)
      | via ih h

/-- `poll` hands at most the oldest queued event to the application -/
theorem fsw_poll {s s' : State} {e : Option Event} (h : s.poll = some (s', e)) :
    s'.fsw = s.fsw ∨ ∃ ev, s.fsw = ev :: s'.fsw := by
  unfold State.poll at h
  osplit h
  all_goals first
    | (obtain ⟨rfl, _⟩ := h; exact Or.inl rfl)
    | (have hp := ‹State.pollBlockedIf _ _ = some _›
       have hpb : ∀ c s1 e1, s.pollBlockedIf c = some (s1, e1) → s1.fsw = s.fsw := by
         intro c s1 e1 hh
         unfold State.pollBlockedIf at hh
         split at hh
         · exact fsw_pollBlocked _ hh
         · simp only [Option.some.injEq, Prod.mk.injEq] at hh; rw [← hh.1]
       have h1 := hpb _ _ _ hp
       obtain ⟨rfl, _⟩ := h
       first
        | exact Or.inl h1
        | (have hev := ‹State.events _ = _ :: _›
           simp only [State.fsw] at h1 ⊢
           rw [← h1, hev]
           simp only [List.filter_cons]
           split
           · exact Or.inr ⟨_, rfl⟩
           · exact Or.inl rfl))

theorem fsw_writeStreamFrames (maxBuf : Nat) (fair : Bool) : ∀ (fuel : Nat) {s s' : State}
    {bl bl' : Nat} {acc fs : List SentFrame},
    s.writeStreamFrames maxBuf fair fuel bl acc = some (s', bl', fs) → s'.fsw = s.fsw := by
  intro fuel
  induction fuel with
  | zero => intro s s' bl bl' acc fs h; simp [State.writeStreamFrames] at h; rw [← h.1]
  | succ n ih =>
    intro s s' bl bl' acc fs h
    unfold State.writeStreamFrames at h
    osplit h
    all_goals first
      | (obtain ⟨rfl, _⟩ := h; rfl)
      | via ih h

theorem fsw_open {s s' : State} {d : Dir} {r : Option Nat} (h : s.open_ d = some (s', r)) :
    s'.fsw = s.fsw := by
  unfold State.open_ at h
  osplit h
  all_goals first
    | (obtain ⟨rfl, _⟩ := h; rfl)
    | (have f := fsw_insert ‹State.insert _ _ _ = some _›
       obtain ⟨rfl, _⟩ := h; exact f)

theorem fsw_accept (s : State) (d : Dir) : (s.accept d).1.fsw = s.fsw := by
  unfold State.accept
  split
  · rfl
  · dsimp only; split <;> rfl

theorem fsw_afterUnblock (s : State) (b : Bool) (id : Nat) (x' : Send) (wl : Nat) :
    (s.afterUnblock b id x' wl).fsw = s.fsw := by
  unfold State.afterUnblock
  split
  · split
    · simp [State.fsw, List.filter_append, isFinStop]
    · split <;> rfl
  · rfl

theorem fsw_receivedMaxStreamData {s s' : State} {id n : Nat} {e : Option TErr}
    (h : s.receivedMaxStreamData id n = some (s', e)) : s'.fsw = s.fsw := by
  unfold State.receivedMaxStreamData at h
  osplit h
  all_goals first
    | (obtain ⟨rfl, _⟩ := h; rfl)
    | (obtain ⟨rfl, _⟩ := h; exact fsw_onStreamFrame _ _ _)
    | (have hg := fsw_getOrInsertSend ‹State.getOrInsertSend _ _ = some _›
       obtain ⟨rfl, _⟩ := h
       exact (fsw_onStreamFrame _ _ _).trans ((fsw_afterUnblock _ _ _ _ _).trans hg))

theorem fsw_receivedMaxStreams (s : State) (d : Dir) (n : Nat) : (s.receivedMaxStreams d n).1.fsw = s.fsw := by
  unfold State.receivedMaxStreams
  split
  · rfl
  · split
    · simp [State.fsw, List.filter_append, isFinStop]
    · rfl

theorem fsw_setParams (s : State) (p : Params) : (s.setParams p).fsw = s.fsw := rfl

theorem fsw_setMaxConcurrent {s s' : State} {d : Dir} {n : Nat} (h : s.setMaxConcurrent d n = some s') :
    s'.fsw = s.fsw := by
  unfold State.setMaxConcurrent at h
  via fsw_ensureRemoteStreams h

/-! ### receiver-side helpers and operations (mirror of Lemmas/StreamsFrame*.lean) -/

theorem fsw_addReadCredits {s s' : State} {c : Nat} {t : Bool}
    (h : s.addReadCredits c = some (s', t)) : s'.fsw = s.fsw := by
  have hs : s' = s.applyCredits c := by
    unfold State.addReadCredits at h
    dsimp only at h
    split at h
    · simp only [Option.some.injEq, Prod.mk.injEq] at h; exact h.1.symm
    · split at h
      · contradiction
      · simp only [Option.some.injEq, Prod.mk.injEq] at h; exact h.1.symm
  rw [hs]; unfold State.applyCredits; split <;> rfl

theorem fsw_creditAndQueue {s s' : State} {c : Nat} {t : Bool}
    (h : s.creditAndQueue c = some (s', t)) : s'.fsw = s.fsw := by
  unfold State.creditAndQueue at h
  osplit h
  all_goals
    obtain ⟨rfl, rfl⟩ := h
    have f := fsw_addReadCredits ‹State.addReadCredits _ _ = some _›
    exact f


theorem fsw_streamRecvFreed {s s' : State} {id : Nat} (h : s.streamRecvFreed id = some s') :
    s'.fsw = s.fsw := fsw_streamFreed h

theorem fsw_freeRecvIf {s s' : State} {c : Bool} {id : Nat} (h : s.freeRecvIf c id = some s') :
    s'.fsw = s.fsw := by
  unfold State.freeRecvIf at h
  osplit h
  all_goals first
    | (subst h; rfl)
    | via fsw_streamRecvFreed h

theorem fsw_freeIf {s s' : State} {c : Bool} {id : Nat} (h : s.freeIf c id = some s') :
    s'.fsw = s.fsw := by
  unfold State.freeIf at h
  osplit h
  all_goals first
    | (subst h; rfl)
    | via fsw_streamRecvFreed h

theorem fsw_getOrInsertRecv {s s' : State} {id : Nat} {r : Recv}
    (h : s.getOrInsertRecv id = some (r, s')) : s'.fsw = s.fsw := by
  unfold State.getOrInsertRecv at h
  osplit h
  all_goals
    rw [← h.2]
    try rfl


theorem fsw_received {s s' : State} {id off len : Nat} {fin : Bool} {r : Except TErr Bool}
    (h : s.received id off len fin = some (s', r)) : s'.fsw = s.fsw := by
  unfold State.received at h
  osplit h
  all_goals obtain ⟨rfl, rfl⟩ := h
  all_goals first
    | rfl
    | (have f1 := fsw_getOrInsertRecv ‹State.getOrInsertRecv _ _ = some _›
       first
        | exact f1
        | exact (fsw_onStreamFrame _ _ _).trans f1
        | (have f2 := fsw_freeRecvIf ‹State.freeRecvIf _ _ _ = some _›
           have f3 := fsw_creditAndQueue ‹State.creditAndQueue _ _ = some _›
           exact f3.trans (f2.trans f1)))

theorem fsw_receivedReset {s s' : State} {id code fo : Nat} {r : Except TErr Bool}
    (h : s.receivedReset id code fo = some (s', r)) : s'.fsw = s.fsw := by
  unfold State.receivedReset at h
  osplit h
  all_goals obtain ⟨rfl, rfl⟩ := h
  all_goals first
    | rfl
    | (have f1 := fsw_getOrInsertRecv ‹State.getOrInsertRecv _ _ = some _›
       first
        | exact f1
        | (have f2 := fsw_freeRecvIf ‹State.freeRecvIf _ _ _ = some _›
           first
            | exact (fsw_onStreamFrame _ _ _).trans (f2.trans f1)
            | (have f3 := fsw_creditAndQueue ‹State.creditAndQueue _ _ = some _›
               exact f3.trans ((fsw_onStreamFrame _ _ _).trans (f2.trans f1)))))

theorem fsw_finalizeReadable {s s' : State} {id : Nat} {rs : Recv} {fr t0 t : Bool}
    (h : s.finalizeReadable id rs fr t0 = some (s', t)) : s'.fsw = s.fsw := by
  unfold State.finalizeReadable at h
  osplit h
  all_goals
    rw [← h.1]
    try rfl

theorem fsw_read {s s' : State} {id budget : Nat} {r : ReadRes}
    (h : s.read id budget = some (s', r)) : s'.fsw = s.fsw := by
  unfold State.read at h
  osplit h
  all_goals obtain ⟨rfl, rfl⟩ := h
  all_goals first
    | rfl
    | (have f1 := fsw_getOrInsertRecv ‹State.getOrInsertRecv _ _ = some _›
       first
        | exact f1
        | (have f2 := fsw_freeIf ‹State.freeIf _ _ _ = some _›
           have f3 := fsw_queueMaxStreamId ‹State.queueMaxStreamId _ = some _›
           have f4 := fsw_finalizeReadable ‹State.finalizeReadable _ _ _ _ _ = some _›
           have f5 := fsw_addReadCredits ‹State.addReadCredits _ _ = some _›
           exact f5.trans (f4.trans (f3.trans (f2.trans f1)))))

theorem fsw_queueStopSending (s : State) (c : Bool) (id code : Nat) :
    (s.queueStopSending c id code).fsw = s.fsw := by
  unfold State.queueStopSending; split <;> rfl

theorem fsw_stop {s s' : State} {id code : Nat} {b : Bool}
    (h : s.stop id code = some (s', b)) : s'.fsw = s.fsw := by
  unfold State.stop at h
  osplit h
  all_goals obtain ⟨rfl, rfl⟩ := h
  all_goals first
    | rfl
    | (have f1 := fsw_getOrInsertRecv ‹State.getOrInsertRecv _ _ = some _›
       first
        | exact f1
        | (have f2 := fsw_freeRecvIf ‹State.freeRecvIf _ _ _ = some _›
           have f2q := fsw_queueMaxIf ‹State.queueMaxIf _ _ = some _›
           have f3 := fsw_creditAndQueue ‹State.creditAndQueue _ _ = some _›
           exact f3.trans (f2q.trans (f2.trans ((fsw_queueStopSending _ _ _ _).trans f1)))))

theorem fsw_recvReceivedReset {s s' : State} {id : Nat} {r : Option (Option Nat)}
    (h : s.recvReceivedReset id = some (s', r)) : s'.fsw = s.fsw := by
  unfold State.recvReceivedReset at h
  osplit h
  all_goals obtain ⟨rfl, rfl⟩ := h
  all_goals first
    | rfl
    | (have f2 := fsw_streamRecvFreed ‹State.streamRecvFreed _ _ = some _›
       have f3 := fsw_queueMaxStreamId ‹State.queueMaxStreamId _ = some _›
       exact f3.trans f2)


theorem fsw_setReceiveWindow (s : State) (n : Nat) : (s.setReceiveWindow n).1.fsw = s.fsw := by
  unfold State.setReceiveWindow
  split <;> rfl


theorem fsw_ctrlMsd : ∀ (l : List Nat) {s s' : State} {acc fs : List CtrlFrame},
    s.ctrlMsd l acc = some (s', fs) → s'.fsw = s.fsw := by
  intro l
  induction l with
  | nil => intro s s' acc fs h; simp [State.ctrlMsd] at h; rw [← h.1]
  | cons id rest ih =>
    intro s s' acc fs h
    unfold State.ctrlMsd at h
    osplit h
    all_goals first
      | exact ih h
      | via ih h

theorem fsw_ctrlMaxData (s : State) : s.ctrlMaxData.1.fsw = s.fsw := by
  unfold State.ctrlMaxData; split <;> rfl

theorem fsw_ctrlMaxStreams (s : State) (d : Dir) : (s.ctrlMaxStreams d).1.fsw = s.fsw := by
  unfold State.ctrlMaxStreams; split <;> rfl

theorem fsw_ctrlMoveBlocked (s : State) (d : Dir) : (s.ctrlMoveBlocked d).fsw = s.fsw := by
  unfold State.ctrlMoveBlocked; split <;> rfl

theorem fsw_ctrlStreamsBlocked (s : State) (d : Dir) : (s.ctrlStreamsBlocked d).1.fsw = s.fsw := by
  unfold State.ctrlStreamsBlocked
  dsimp only
  split
  · exact fsw_ctrlMoveBlocked s d
  · exact fsw_ctrlMoveBlocked s d

theorem fsw_writeControlFrames {s s' : State} {fs : List CtrlFrame}
    (h : s.writeControlFrames = some (s', fs)) : s'.fsw = s.fsw := by
  unfold State.writeControlFrames at h
  dsimp only at h
  split at h
  · contradiction
  · simp only [Option.some.injEq, Prod.mk.injEq] at h
    rw [← h.1]
    have f := fsw_ctrlMsd _ ‹State.ctrlMsd _ _ _ = some _›
    refine (fsw_ctrlStreamsBlocked _ _).trans ((fsw_ctrlStreamsBlocked _ _).trans
      ((fsw_ctrlMaxStreams _ _).trans ((fsw_ctrlMaxStreams _ _).trans (f.trans ?_))))
    exact fsw_ctrlMaxData _


end QM.Streams
