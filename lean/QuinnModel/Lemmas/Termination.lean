import QuinnModel.Conn.Termination
import QuinnModel.Spec.Idle
import QuinnModel.Lemmas.Lifecycle
namespace QM.Life

theorem negotiated_eq_spec (x y : Option Nat) : negotiatedIdle x y = Spec.negotiatedIdle x y := by
  rcases x with _ | (_ | x) <;> rcases y with _ | (_ | y) <;> rfl

theorem idlePeriod_eq_spec (t pto : Nat) : idlePeriod t pto = Spec.idlePeriod t pto := by
  simp [idlePeriod, Spec.idlePeriod, Gen.idlePtoFactor]

theorem closePeriod_eq_spec (pto : Nat) : closePeriod pto = Spec.closingPeriod pto := by
  simp [closePeriod, Spec.closingPeriod, Gen.closePtoFactor]

/-- the idle timer does nothing before its deadline -/
theorem fireIdle_before (l : L) (d t : Nat) (h : l.idleTimer = some d) (ht : t < d) : fireIdle l t = l := by
  obtain ⟨st, err, cf, ct, it, lost, dr, lc⟩ := l
  simp only at h
  subst h
  have : ¬ d ≤ t := by omega
  simp [fireIdle, this]

/-- whoever leaves the open states by a peer's close or a packet error is in the closing regime with the close
    timer `pto3` ahead (or drained at once) -/
theorem closing_after_peer_event (l : L) (ho : l.st.isClosed = false) (hi : Inv l) (e : Ev) (now pto3 : Nat)
    (he : e = .peerClose now pto3 ∨ e = .peerCloseEarly now pto3 ∨ ∃ k sp, e = .pktErr k now pto3 sp) :
    Closing (now + pto3) (step l e) := by
  obtain ⟨st, err, cf, ct, it, lost, dr, lc⟩ := l
  obtain ⟨h1, h2, h3, h4, h5⟩ := hi
  unfold Closing
  rcases he with h | h | ⟨k, sp, h⟩ <;> subst h
  · cases st <;> simp_all [step, St.isClosed, stopTimers, afterPacket]
  · cases st <;> simp_all [step, St.isClosed, stopTimers, afterPacket]
  · cases st <;> cases k <;> cases sp <;> simp_all [step, St.isClosed, stopTimers, afterPacket]

/-- a connection that is closed without having been closed by its own application has its reason reported or
    pending -/
def Reported (l : L) : Prop := l.st.isClosed = true → l.localClose = false → 1 ≤ l.lost + b2n l.error

theorem init_reported : Reported init := by
  simp [Reported, init, St.isClosed]

theorem fireIdle_reported (l : L) (now : Nat) (h : Reported l) : Reported (fireIdle l now) := by
  obtain ⟨st, err, cf, ct, it, lost, dr, lc⟩ := l
  unfold Reported at *
  cases it with
  | none => exact h
  | some t =>
    by_cases ht : t ≤ now
    · simp [fireIdle, ht, stopTimers, St.isClosed, b2n]
    · simp only [fireIdle, ht, if_false]; exact h

theorem fireClose_reported (l : L) (now : Nat) (hc : l.closeTimer.isSome = true → l.st.isClosed = true)
    (h : Reported l) : Reported (fireClose l now) := by
  obtain ⟨st, err, cf, ct, it, lost, dr, lc⟩ := l
  unfold Reported at *
  cases ct with
  | none => exact h
  | some t =>
    by_cases ht : t ≤ now
    · have hcl := hc rfl
      simp only [fireClose, ht, if_true]
      intro _ hl
      exact h hcl hl
    · simp only [fireClose, ht, if_false]; exact h

/-- the close timer is armed only in closed states (part of `Inv`, restated for `fireIdle`'s result) -/
theorem closeTimer_closed (l : L) (hi : Inv l) : l.closeTimer.isSome = true → l.st.isClosed = true := by
  intro hs
  cases hc : l.st.isClosed with
  | true => rfl
  | false => have := hi.openNoCloseTimer hc; simp [this] at hs

theorem step_reported (l : L) (e : Ev) (hi : Inv l) (hd : l.st = .drained → e.isPacket = false) (h : Reported l) :
    Reported (step l e) := by
  cases e with
  | timeout now =>
    simp only [step]
    exact fireClose_reported _ now (closeTimer_closed _ (fireIdle_inv l now hi)) (fireIdle_reported l now h)
  | close now pto3 =>
    obtain ⟨st, err, cf, ct, it, lost, dr, lc⟩ := l
    unfold Reported at *
    cases st <;> simp_all [step, St.isClosed, stopTimers]
  | pktErr k now pto3 sp =>
    obtain ⟨st, err, cf, ct, it, lost, dr, lc⟩ := l
    unfold Reported at *
    cases st <;> cases k <;> cases sp <;> simp_all [step, St.isClosed, stopTimers, afterPacket, b2n]
  | peerClose now pto3 =>
    obtain ⟨st, err, cf, ct, it, lost, dr, lc⟩ := l
    unfold Reported at *
    cases st <;> simp_all [step, St.isClosed, stopTimers, afterPacket, b2n]
  | peerCloseEarly now pto3 =>
    obtain ⟨st, err, cf, ct, it, lost, dr, lc⟩ := l
    unfold Reported at *
    cases st <;> simp_all [step, St.isClosed, stopTimers, afterPacket, b2n]
  | closeFrameWhileClosed =>
    obtain ⟨st, err, cf, ct, it, lost, dr, lc⟩ := l
    unfold Reported at *
    cases st <;> simp_all [step, St.isClosed, stopTimers, afterPacket, b2n]
  | established =>
    obtain ⟨st, err, cf, ct, it, lost, dr, lc⟩ := l
    unfold Reported at *
    cases st <;> simp_all [step, St.isClosed]
  | authed now idle =>
    obtain ⟨st, err, cf, ct, it, lost, dr, lc⟩ := l
    unfold Reported at *
    cases st <;> simp_all [step, St.isClosed]
  | poll =>
    obtain ⟨st, err, cf, ct, it, lost, dr, lc⟩ := l
    unfold Reported at *
    cases st <;> cases err <;> simp_all [step, St.isClosed, b2n] <;> omega
  | pollTransmit =>
    obtain ⟨st, err, cf, ct, it, lost, dr, lc⟩ := l
    unfold Reported at *
    cases st <;> cases cf <;> simp_all [step, St.isClosed]

theorem run_reported (evs : List Ev) : ∀ l, Inv l → WD l evs → Reported l → Reported (run l evs) := by
  induction evs with
  | nil => intro l _ _ h; exact h
  | cons e rest ih =>
    intro l hi hw h
    exact ih _ (step_inv l e hi hw.1) hw.2 (step_reported l e hi hw.1 h)

end QM.Life
