import QuinnModel.Conn.Timers
import QuinnModel.Conn.Lifecycle
namespace QM.Timers

theorem optMin_shift (d : Nat) (a b : Option Nat) :
    optMin (a.map (· + d)) (b.map (· + d)) = (optMin a b).map (· + d) := by
  cases a <;> cases b <;> simp [optMin] <;> omega

theorem nextTimeout_shift (d : Nat) (t : Table) : nextTimeout (shift d t) = (nextTimeout t).map (· + d) := by
  induction t with
  | nil => rfl
  | cons x xs ih =>
    simp only [nextTimeout, shift, List.map_cons, List.foldr_cons] at *
    rw [ih]
    exact optMin_shift d x _

theorem get_shift (d : Nat) (t : Table) (i : Nat) : get (shift d t) i = (get t i).map (· + d) := by
  simp only [get, shift, List.getElem?_map]
  cases t[i]? with
  | none => rfl
  | some o => cases o <;> rfl

theorem isExpired_shift (d : Nat) (t : Table) (i now : Nat) : isExpired (shift d t) i (now + d) = isExpired t i now := by
  simp only [isExpired, get_shift]
  cases get t i with
  | none => rfl
  | some x => simp

theorem set_shift (d : Nat) (t : Table) (i x : Nat) : set (shift d t) i (x + d) = shift d (set t i x) := by
  simp [set, shift, List.map_set]

theorem stop_shift (d : Nat) (t : Table) (i : Nat) : stop (shift d t) i = shift d (stop t i) := by
  simp [stop, shift, List.map_set]

theorem expired_shift (d : Nat) (t : Table) (now : Nat) : expired (shift d t) (now + d) = expired t now := by
  simp only [expired, shift, List.length_map]
  congr 1
  funext i
  have := isExpired_shift d t i now
  simpa [shift] using this

/-- a spurious `handle_timeout`: when no deadline has been reached nothing fires -/
theorem expired_nil_of_future (t : Table) (now : Nat) (h : ∀ i x, get t i = some x → now < x) : expired t now = [] := by
  simp only [expired, List.filter_eq_nil_iff]
  intro i _
  simp only [isExpired]
  cases hg : get t i with
  | none => simp
  | some x => have := h i x hg; simp; omega

end QM.Timers

namespace QM.Life

/-- time translation of the lifecycle state and of an event -/
def shiftL (d : Nat) (l : L) : L :=
  { l with closeTimer := l.closeTimer.map (· + d), idleTimer := l.idleTimer.map (· + d) }

def shiftEv (d : Nat) : Ev → Ev
  | .close now p => .close (now + d) p
  | .pktErr e now p s => .pktErr e (now + d) p s
  | .peerClose now p => .peerClose (now + d) p
  | .peerCloseEarly now p => .peerCloseEarly (now + d) p
  | .authed now idle => .authed (now + d) idle
  | .timeout now => .timeout (now + d)
  | e => e

theorem fireIdle_shift (d : Nat) (l : L) (now : Nat) : fireIdle (shiftL d l) (now + d) = shiftL d (fireIdle l now) := by
  obtain ⟨st, err, cf, ct, it, lost, dr, lc⟩ := l
  cases it with
  | none => rfl
  | some t =>
    by_cases h : t ≤ now
    · have h' : t + d ≤ now + d := by omega
      simp [fireIdle, shiftL, h, h', stopTimers]
    · have h' : ¬ t + d ≤ now + d := by omega
      simp [fireIdle, shiftL, h, h']

theorem fireClose_shift (d : Nat) (l : L) (now : Nat) : fireClose (shiftL d l) (now + d) = shiftL d (fireClose l now) := by
  obtain ⟨st, err, cf, ct, it, lost, dr, lc⟩ := l
  cases ct with
  | none => rfl
  | some t =>
    by_cases h : t ≤ now
    · have h' : t + d ≤ now + d := by omega
      simp [fireClose, shiftL, h, h']
    · have h' : ¬ t + d ≤ now + d := by omega
      simp [fireClose, shiftL, h, h']

/-- shifting every supplied instant by `d` shifts every stored deadline by `d` and changes nothing else -/
theorem step_shift (d : Nat) (l : L) (e : Ev) : step (shiftL d l) (shiftEv d e) = shiftL d (step l e) := by
  cases e with
  | timeout now => simp only [step, shiftEv]; rw [fireIdle_shift, fireClose_shift]
  | close now p =>
    obtain ⟨st, err, cf, ct, it, lost, dr, lc⟩ := l
    cases st <;> simp [step, shiftEv, shiftL, St.isClosed, stopTimers] <;> omega
  | pktErr e now p s =>
    obtain ⟨st, err, cf, ct, it, lost, dr, lc⟩ := l
    cases st <;> cases e <;> cases s <;> simp [step, shiftEv, shiftL, St.isClosed, stopTimers, afterPacket] <;> omega
  | peerClose now p =>
    obtain ⟨st, err, cf, ct, it, lost, dr, lc⟩ := l
    cases st <;> simp [step, shiftEv, shiftL, St.isClosed, stopTimers, afterPacket] <;> omega
  | peerCloseEarly now p =>
    obtain ⟨st, err, cf, ct, it, lost, dr, lc⟩ := l
    cases st <;> simp [step, shiftEv, shiftL, St.isClosed, stopTimers, afterPacket] <;> omega
  | closeFrameWhileClosed =>
    obtain ⟨st, err, cf, ct, it, lost, dr, lc⟩ := l
    cases st <;> simp [step, shiftEv, shiftL, St.isClosed, stopTimers, afterPacket]
  | established =>
    obtain ⟨st, err, cf, ct, it, lost, dr, lc⟩ := l
    cases st <;> simp [step, shiftEv, shiftL]
  | authed now idle =>
    obtain ⟨st, err, cf, ct, it, lost, dr, lc⟩ := l
    cases st <;> simp [step, shiftEv, shiftL, St.isClosed] <;> omega
  | poll =>
    obtain ⟨st, err, cf, ct, it, lost, dr, lc⟩ := l
    cases err <;> simp [step, shiftEv, shiftL]
  | pollTransmit =>
    obtain ⟨st, err, cf, ct, it, lost, dr, lc⟩ := l
    cases st <;> cases cf <;> simp [step, shiftEv, shiftL]

theorem run_shift (d : Nat) (evs : List Ev) : ∀ l, run (shiftL d l) (evs.map (shiftEv d)) = shiftL d (run l evs) := by
  induction evs with
  | nil => intro l; rfl
  | cons e rest ih => intro l; simp only [run, List.map_cons, List.foldl_cons] at *; rw [step_shift]; exact ih _

/-- a spurious timeout (no modelled deadline reached) is a no-op -/
theorem timeout_noop (l : L) (now : Nat) (hc : ∀ t, l.closeTimer = some t → now < t) (hi : ∀ t, l.idleTimer = some t → now < t) :
    step l (.timeout now) = l := by
  obtain ⟨st, err, cf, ct, it, lost, dr, lc⟩ := l
  cases it with
  | none =>
    cases ct with
    | none => simp [step, fireIdle, fireClose]
    | some c =>
      have hc' : ¬ c ≤ now := by have := hc c rfl; omega
      simp [step, fireIdle, fireClose, hc']
  | some i =>
    have hi' : ¬ i ≤ now := by have := hi i rfl; omega
    cases ct with
    | none => simp [step, fireIdle, fireClose, hi']
    | some c =>
      have hc' : ¬ c ≤ now := by have := hc c rfl; omega
      simp [step, fireIdle, fireClose, hi', hc']

/-- one `handle_timeout` at `now` settles the modelled timers: none of them is still ≤ now -/
theorem timeout_settles (l : L) (now : Nat) :
    let l' := step l (.timeout now)
    (∀ t, l'.closeTimer = some t → now < t) ∧ (∀ t, l'.idleTimer = some t → now < t) := by
  obtain ⟨st, err, cf, ct, it, lost, dr, lc⟩ := l
  cases it with
  | none =>
    cases ct with
    | none => simp [step, fireIdle, fireClose]
    | some c => by_cases h : c ≤ now <;> simp [step, fireIdle, fireClose, h] <;> omega
  | some i =>
    by_cases hi : i ≤ now
    · simp [step, fireIdle, fireClose, hi, stopTimers]
    · cases ct with
      | none => simp [step, fireIdle, fireClose, hi]; omega
      | some c => by_cases h : c ≤ now <;> simp [step, fireIdle, fireClose, hi, h] <;> omega

end QM.Life
