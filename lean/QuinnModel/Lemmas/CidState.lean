import QuinnModel.Conn.CidState
/-
Proofs about the CidState model: retirement of any peer-chosen sequence number is total, its error class is
decided exactly, and under the issuing discipline of Endpoint/Connection the number of issued-and-active
CIDs stays within the peer's limit (+1 while a lifetime rotation is pending), with no panic.
-/
namespace QM.CidState
open QM

/-! ### sets as duplicate-free lists -/

theorem setRemove_not_mem (l : List Nat) (x : Nat) (h : x ∉ l) : setRemove l x = l := by
  unfold setRemove
  rw [List.filter_eq_self]
  intro a ha
  simp only [ne_eq, decide_not, Bool.not_eq_eq_eq_not, Bool.not_true, decide_eq_false_iff_not]
  intro hax; subst hax; exact h ha

theorem setRemove_length_mem (l : List Nat) (x : Nat) (hn : l.Nodup) (h : x ∈ l) :
    (setRemove l x).length + 1 = l.length := by
  induction l with
  | nil => simp at h
  | cons a t ih =>
    have hnt : t.Nodup := (List.nodup_cons.mp hn).2
    have hat : a ∉ t := (List.nodup_cons.mp hn).1
    by_cases hax : a = x
    · subst hax
      have : setRemove (a :: t) a = t := by
        unfold setRemove
        rw [List.filter_cons]
        simp only [ne_eq, not_true_eq_false, decide_false, Bool.false_eq_true, if_false]
        exact setRemove_not_mem t a hat
      rw [this]; simp
    · have hxt : x ∈ t := by
        rcases List.mem_cons.mp h with h | h
        · exact absurd h.symm hax
        · exact h
      have : setRemove (a :: t) x = a :: setRemove t x := by
        unfold setRemove
        rw [List.filter_cons]
        simp [hax]
      rw [this]
      simp only [List.length_cons]
      have := ih hnt hxt
      omega

theorem setRemove_sub (l : List Nat) (x : Nat) : ∀ y ∈ setRemove l x, y ∈ l := by
  intro y hy
  unfold setRemove at hy
  exact (List.mem_filter.mp hy).1

theorem setRemove_nodup (l : List Nat) (x : Nat) (h : l.Nodup) : (setRemove l x).Nodup := by
  unfold setRemove
  exact List.Nodup.sublist List.filter_sublist h

/-! ### the invariant -/

structure Inv (s : State) : Prop where
  nodup : s.activeSeq.Nodup
  lt : ∀ x ∈ s.activeSeq, x < s.issued
  ts : ∀ t ∈ s.retireTimestamp, t.sequence < s.issued
  /-- without a CID lifetime nothing is ever scheduled for rotation -/
  nolt : s.cidLifetime = none → s.retireTimestamp = [] ∧ s.prevRetireSeq = s.retireSeq

/-- the bound: within the limit, or one over while the peer still owes a retirement we asked for -/
def K (limit : Nat) (s : State) : Prop :=
  s.activeSeq.length ≤ limit ∨
  (s.activeSeq.length = limit + 1 ∧ anyActive s s.prevRetireSeq s.retireSeq = true)

theorem anyActive_empty_range (s : State) (a : Nat) : anyActive s a a = false := by
  unfold anyActive
  rw [List.any_eq_false]
  intro x _
  simp only [Bool.and_eq_true, decide_eq_true_eq, not_and]
  omega

theorem trackLifetime_spec (s : State) (seq now : Nat) (h : ∀ t ∈ s.retireTimestamp, t.sequence < seq) :
    ∃ s', trackLifetime s seq now = some s' ∧ s'.issued = s.issued ∧ s'.activeSeq = s.activeSeq ∧
      s'.prevRetireSeq = s.prevRetireSeq ∧ s'.retireSeq = s.retireSeq ∧ s'.cidLen = s.cidLen ∧
      s'.cidLifetime = s.cidLifetime ∧ (∀ t ∈ s'.retireTimestamp, t.sequence < seq + 1) ∧
      (s.cidLifetime = none → s'.retireTimestamp = s.retireTimestamp) := by
  unfold trackLifetime
  cases hl : s.cidLifetime with
  | none => exact ⟨s, rfl, rfl, rfl, rfl, rfl, rfl, hl, fun t ht => by have := h t ht; omega, fun _ => rfl⟩
  | some lifetime =>
    simp only
    cases hg : s.retireTimestamp.getLast? with
    | none =>
      refine ⟨_, rfl, rfl, rfl, rfl, rfl, rfl, rfl, ?_, fun h => by simp at h⟩
      intro t ht
      simp only [List.mem_append, List.mem_singleton] at ht
      rcases ht with ht | rfl
      · have := h t ht; omega
      · simp
    | some last =>
      simp only
      have hlast : last ∈ s.retireTimestamp := List.mem_of_getLast? hg
      split
      · have : seq > last.sequence := h last hlast
        simp only [this, if_true]
        refine ⟨_, rfl, rfl, rfl, rfl, rfl, rfl, rfl, ?_, fun h => by simp at h⟩
        intro t ht
        simp only [List.mem_append, List.mem_singleton] at ht
        rcases ht with ht | rfl
        · have := h t ((List.dropLast_sublist _).subset ht); omega
        · simp
      · refine ⟨_, rfl, rfl, rfl, rfl, rfl, rfl, rfl, ?_, fun h => by simp at h⟩
        intro t ht
        simp only [List.mem_append, List.mem_singleton] at ht
        rcases ht with ht | rfl
        · have := h t ht; omega
        · simp

/-- issuing exactly the next sequence number (what `Endpoint::send_new_identifiers(now, ch, 1)` delivers) -/
theorem newCids_one (s : State) (hI : Inv s) (now : Nat) (hov : s.issued + 1 < U64) :
    ∃ s', newCids s [s.issued] now = some s' ∧ Inv s' ∧ s'.issued = s.issued + 1 ∧
      s'.activeSeq = s.activeSeq ++ [s.issued] ∧ s'.prevRetireSeq = s.prevRetireSeq ∧
      s'.retireSeq = s.retireSeq ∧ s'.cidLen = s.cidLen ∧ s'.cidLifetime = s.cidLifetime := by
  unfold newCids
  have hnm : s.issued ∉ s.activeSeq := fun h => by have := hI.lt _ h; omega
  have hov' : ¬ (s.issued + [s.issued].length ≥ U64) := by simp; omega
  simp only [List.getLast?_singleton, hov', if_false, List.foldl_cons, List.foldl_nil]
  have hins : setInsert s.activeSeq s.issued = s.activeSeq ++ [s.issued] := by
    unfold setInsert; simp [hnm]
  rw [hins]
  obtain ⟨s', h, h1, h2, h3, h4, h5, h6, h7, h8⟩ :=
    trackLifetime_spec { s with issued := s.issued + [s.issued].length, activeSeq := s.activeSeq ++ [s.issued] }
      s.issued now (fun t ht => hI.ts t ht)
  refine ⟨s', h, ?_, by rw [h1]; simp, h2, h3, h4, h5, h6⟩
  refine ⟨?_, ?_, ?_, ?_⟩
  · rw [h2]
    simp only
    rw [List.nodup_append]
    refine ⟨hI.nodup, by simp, ?_⟩
    intro a ha b hb
    simp only [List.mem_singleton] at hb
    subst hb
    intro hab; subst hab; exact hnm ha
  · rw [h2, h1]
    intro x hx
    simp only [List.mem_append, List.mem_singleton, List.length_singleton] at hx ⊢
    rcases hx with hx | rfl
    · have := hI.lt x hx; omega
    · omega
  · rw [h1]
    intro t ht
    have := h7 t ht
    simp only [List.length_singleton]; omega
  · intro hl
    rw [h6] at hl
    have := hI.nolt hl
    rw [h8 hl, h3, h4]
    exact this

theorem onCidRetirement_ok (s : State) (hI : Inv s) (seq limit : Nat) (s' : State) (b : Bool)
    (h : onCidRetirement s seq limit = (s', .ok b)) :
    Inv s' ∧ s'.issued = s.issued ∧ s'.activeSeq = setRemove s.activeSeq seq ∧
    s'.prevRetireSeq = s.prevRetireSeq ∧ s'.retireSeq = s.retireSeq ∧ s'.cidLifetime = s.cidLifetime ∧
    b = decide (limit > s'.activeSeq.length) := by
  unfold onCidRetirement at h
  split at h
  · simp at h
  · split at h
    · simp at h
    · simp only [Prod.mk.injEq, RetireOut.ok.injEq] at h
      obtain ⟨rfl, rfl⟩ := h
      refine ⟨⟨setRemove_nodup _ _ hI.nodup, fun x hx => hI.lt x (setRemove_sub _ _ x hx), hI.ts, hI.nolt⟩,
        rfl, rfl, rfl, rfl, rfl, rfl⟩

theorem onCidRetirement_err (s : State) (seq limit : Nat) (s' : State) (c k : Nat)
    (h : onCidRetirement s seq limit = (s', .err c k)) : s' = s ∧ c = Gen.codeProtocolViolation := by
  unfold onCidRetirement at h
  split at h
  · simp only [Prod.mk.injEq, RetireOut.err.injEq] at h
    exact ⟨h.1.symm, h.2.1.symm⟩
  · split at h
    · simp only [Prod.mk.injEq, RetireOut.err.injEq] at h
      exact ⟨h.1.symm, h.2.1.symm⟩
    · simp at h

/-- decision of the error class of RETIRE_CONNECTION_ID -/
theorem onCidRetirement_decision (s : State) (seq limit : Nat) :
    ((∃ k, (onCidRetirement s seq limit).2 = .err Gen.codeProtocolViolation k) ↔ (s.cidLen = 0 ∨ seq > s.issued)) ∧
    ((∃ b, (onCidRetirement s seq limit).2 = .ok b) ↔ ¬ (s.cidLen = 0 ∨ seq > s.issued)) := by
  unfold onCidRetirement
  by_cases h0 : s.cidLen = 0
  · simp [h0, Gen.retireNotInUseCode]
  · by_cases h1 : seq > s.issued
    · simp [h0, h1, Gen.retireUnissued, Gen.retireUnissuedCode]
    · simp [h0, h1, Gen.retireUnissued]

theorem onCidTimeout_spec (s : State) (hI : Inv s) (hov : s.issued < U64) :
    ∃ s' b, onCidTimeout s = some (s', b) ∧ Inv s' ∧ s'.issued = s.issued ∧ s'.activeSeq = s.activeSeq ∧
      s'.cidLifetime = s.cidLifetime ∧
      (anyActive s s.prevRetireSeq s.retireSeq = true →
        s'.prevRetireSeq = s.prevRetireSeq ∧ s'.retireSeq = s.retireSeq ∧ b = false) ∧
      (anyActive s s.prevRetireSeq s.retireSeq = false →
        s'.prevRetireSeq = s.retireSeq ∧ b = anyActive s' s'.prevRetireSeq s'.retireSeq) := by
  unfold onCidTimeout
  cases hts : s.retireTimestamp with
  | nil =>
    simp only
    cases hu : anyActive s s.prevRetireSeq s.retireSeq with
    | true =>
      simp only [Bool.not_true, Bool.false_eq_true, if_false]
      refine ⟨_, _, rfl, hI, rfl, rfl, rfl, fun _ => ⟨rfl, rfl, anyActive_empty_range s _⟩, fun h => by simp at h⟩
    | false =>
      simp only [Bool.not_false, if_true]
      refine ⟨_, _, rfl, ⟨hI.nodup, hI.lt, fun t ht => by simp at ht, fun _ => ⟨rfl, rfl⟩⟩, rfl, rfl, rfl,
        fun h => by simp at h, fun _ => ⟨rfl, rfl⟩⟩
  | cons front rest =>
    simp only
    have hf : front.sequence < s.issued := hI.ts front (by rw [hts]; simp)
    have hov' : ¬ (front.sequence + 1 ≥ U64) := by omega
    simp only [hov', if_false]
    have hrest : ∀ t ∈ rest, t.sequence < s.issued := fun t ht => hI.ts t (by rw [hts]; simp [ht])
    have hnl : s.cidLifetime ≠ none := fun hl => by have := (hI.nolt hl).1; rw [hts] at this; simp at this
    cases hu : anyActive s s.prevRetireSeq s.retireSeq with
    | true =>
      simp only [Bool.not_true, Bool.false_eq_true, if_false]
      refine ⟨_, _, rfl, ⟨hI.nodup, hI.lt, hrest, fun hl => absurd hl hnl⟩, rfl, rfl, rfl,
        fun _ => ⟨rfl, rfl, ?_⟩, fun h => by simp at h⟩
      exact anyActive_empty_range _ _
    | false =>
      simp only [Bool.not_false, if_true]
      refine ⟨_, _, rfl, ⟨hI.nodup, hI.lt, hrest, fun hl => absurd hl hnl⟩, rfl, rfl, rfl,
        fun h => by simp at h, fun _ => ⟨rfl, rfl⟩⟩


/-! ### events in the discipline of `Connection` / `Endpoint` -/

inductive Op where
  /-- RETIRE_CONNECTION_ID with a peer-chosen sequence number (any value), received at `now` -/
  | retire (seq now : Nat)
  /-- `Timer::PushNewCid` expiry at `now` -/
  | timeout (now : Nat)
deriving Repr

/-- one event: the `CidState` call, then `new_cids` with exactly the next sequence number when
    `Endpoint::handle_event` issues one (`RetireConnectionId`: the CID existed and `allow_more_cids`;
    `NeedIdentifiers(now, on_cid_timeout() as u64)`). `none` = panic. A rejected frame leaves the state as is
    (the connection closes). -/
def step (limit : Nat) (s : State) : Op → Option State
  | .retire seq now =>
    match onCidRetirement s seq limit with
    | (s', .err _ _) => some s'
    | (s', .ok allow) => if allow && s.activeSeq.contains seq then newCids s' [s'.issued] now else some s'
  | .timeout now =>
    match onCidTimeout s with
    | none => none
    | some (s', b) => if b then newCids s' [s'.issued] now else some s'

def run (limit : Nat) : State → List Op → Option State
  | s, [] => some s
  | s, op :: ops => match step limit s op with
    | none => none
    | some s' => run limit s' ops

theorem anyActive_append (s s' : State) (a b x : Nat) (h : s'.activeSeq = s.activeSeq ++ [x])
    (ht : anyActive s a b = true) : anyActive s' a b = true := by
  unfold anyActive at *
  rw [h, List.any_append, ht]; rfl

theorem step_spec (limit : Nat) (s : State) (hI : Inv s) (hK : K limit s) (op : Op) (hov : s.issued + 1 < U64) :
    ∃ s', step limit s op = some s' ∧ Inv s' ∧ K limit s' ∧ s'.issued ≤ s.issued + 1 ∧
      s'.cidLifetime = s.cidLifetime := by
  cases op with
  | retire seq now =>
    simp only [step]
    cases hr : onCidRetirement s seq limit with
    | mk s1 out =>
      cases out with
      | err c k =>
        obtain ⟨rfl, _⟩ := onCidRetirement_err s seq limit s1 c k hr
        exact ⟨s1, rfl, hI, hK, by omega, rfl⟩
      | ok allow =>
        obtain ⟨hI1, hi1, ha1, hp1, hr1, hl1, hb⟩ := onCidRetirement_ok s hI seq limit s1 allow hr
        simp only
        by_cases hmem : seq ∈ s.activeSeq
        · have hlen := setRemove_length_mem s.activeSeq seq hI.nodup hmem
          rw [← ha1] at hlen
          have hc : s.activeSeq.contains seq = true := by simpa using hmem
          by_cases hal : allow = true
          · simp only [hal, hc, Bool.and_self, if_true]
            obtain ⟨s2, h2, hI2, hi2, ha2, hp2, hr2, _, hl2⟩ := newCids_one s1 hI1 now (by omega)
            refine ⟨s2, h2, hI2, ?_, by omega, by rw [hl2, hl1]⟩
            left
            rw [ha2, List.length_append, List.length_singleton]
            rw [hal] at hb
            have : limit > s1.activeSeq.length := by simpa using hb.symm
            omega
          · simp only [hal, Bool.false_and, Bool.false_eq_true, if_false]
            refine ⟨s1, rfl, hI1, ?_, by omega, hl1⟩
            left
            have hf : allow = false := by simpa using hal
            rw [hf] at hb
            have : ¬ limit > s1.activeSeq.length := by simpa using hb.symm
            rcases hK with hk | ⟨hk, _⟩ <;> omega
        · have hc : s.activeSeq.contains seq = false := by simpa using hmem
          simp only [hc, Bool.and_false, Bool.false_eq_true, if_false]
          have hsame : s1.activeSeq = s.activeSeq := by rw [ha1]; exact setRemove_not_mem _ _ hmem
          refine ⟨s1, rfl, hI1, ?_, by omega, hl1⟩
          rcases hK with hk | ⟨hk, hw⟩
          · left; rw [hsame]; exact hk
          · right
            refine ⟨by rw [hsame]; exact hk, ?_⟩
            unfold anyActive at *
            rw [hsame, hp1, hr1]; exact hw
  | timeout now =>
    simp only [step]
    obtain ⟨s1, b, h1, hI1, hi1, ha1, hl1, ht, hf⟩ := onCidTimeout_spec s hI (by omega)
    rw [h1]
    simp only
    cases hu : anyActive s s.prevRetireSeq s.retireSeq with
    | true =>
      obtain ⟨hp, hr, hb⟩ := ht hu
      subst hb
      simp only [Bool.false_eq_true, if_false]
      refine ⟨s1, rfl, hI1, ?_, by omega, hl1⟩
      rcases hK with hk | ⟨hk, hw⟩
      · left; rw [ha1]; exact hk
      · right
        refine ⟨by rw [ha1]; exact hk, ?_⟩
        unfold anyActive at *
        rw [ha1, hp, hr]; exact hw
    | false =>
      obtain ⟨hp, hb⟩ := hf hu
      have hk : s.activeSeq.length ≤ limit := by
        rcases hK with hk | ⟨_, hw⟩
        · exact hk
        · rw [hu] at hw; simp at hw
      by_cases hbt : b = true
      · simp only [hbt, if_true]
        obtain ⟨s2, h2, hI2, hi2, ha2, hp2, hr2, _, hl2⟩ := newCids_one s1 hI1 now (by omega)
        refine ⟨s2, h2, hI2, ?_, by omega, by rw [hl2, hl1]⟩
        by_cases hlt : s.activeSeq.length < limit
        · left; rw [ha2, ha1, List.length_append, List.length_singleton]; omega
        · right
          refine ⟨by rw [ha2, ha1, List.length_append, List.length_singleton]; omega, ?_⟩
          rw [hp2, hr2]
          apply anyActive_append s1 s2 _ _ _ ha2
          rw [← hb]; exact hbt
      · simp only [hbt, Bool.false_eq_true, if_false]
        exact ⟨s1, rfl, hI1, Or.inl (by rw [ha1]; exact hk), by omega, hl1⟩

/-- ALL sequences of retirements (any peer-chosen sequence numbers) and timer expiries: no panic, invariant and
    bound kept -/
theorem run_spec (limit : Nat) (ops : List Op) : ∀ (s : State), Inv s → K limit s →
    s.issued + ops.length < U64 →
    ∃ s', run limit s ops = some s' ∧ Inv s' ∧ K limit s' ∧ s'.cidLifetime = s.cidLifetime := by
  induction ops with
  | nil => intro s hI hK _; exact ⟨s, rfl, hI, hK, rfl⟩
  | cons op ops ih =>
    intro s hI hK hov
    simp only [List.length_cons] at hov
    obtain ⟨s1, h1, hI1, hK1, hi1, hl1⟩ := step_spec limit s hI hK op (by omega)
    obtain ⟨s2, h2, hI2, hK2, hl2⟩ := ih s1 hI1 hK1 (by omega)
    exact ⟨s2, by simp only [run, h1, h2], hI2, hK2, by rw [hl2, hl1]⟩

theorem K_bound (limit : Nat) (s : State) (hI : Inv s) (hK : K limit s) :
    s.activeSeq.length ≤ limit + 1 ∧ (s.cidLifetime = none → s.activeSeq.length ≤ limit) := by
  rcases hK with hk | ⟨hk, hw⟩
  · exact ⟨by omega, fun _ => hk⟩
  · refine ⟨by omega, fun hl => ?_⟩
    have := (hI.nolt hl).2
    rw [this, anyActive_empty_range] at hw
    simp at hw

/-! ### `CidState::new` -/

theorem trackAll_spec (now : Nat) : ∀ (n a : Nat) (s : State), (∀ t ∈ s.retireTimestamp, t.sequence < a) →
    ∃ s', trackAll s now (List.range' a n) = some s' ∧ s'.issued = s.issued ∧ s'.activeSeq = s.activeSeq ∧
      s'.prevRetireSeq = s.prevRetireSeq ∧ s'.retireSeq = s.retireSeq ∧ s'.cidLifetime = s.cidLifetime ∧
      s'.cidLen = s.cidLen ∧ (∀ t ∈ s'.retireTimestamp, t.sequence < a + n) ∧
      (s.cidLifetime = none → s'.retireTimestamp = s.retireTimestamp) := by
  intro n
  induction n with
  | zero => intro a s h; exact ⟨s, rfl, rfl, rfl, rfl, rfl, rfl, rfl, by simpa using h, fun _ => rfl⟩
  | succ n ih =>
    intro a s h
    simp only [List.range'_succ, trackAll]
    obtain ⟨s1, h1, e1, e2, e3, e4, e5, e6, e7, e8⟩ := trackLifetime_spec s a now h
    rw [h1]
    simp only
    obtain ⟨s2, h2, f1, f2, f3, f4, f5, fc, f6, f7⟩ := ih (a + 1) s1 e7
    refine ⟨s2, h2, by rw [f1, e1], by rw [f2, e2], by rw [f3, e3], by rw [f4, e4], by rw [f5, e6],
      by rw [fc, e5], ?_, ?_⟩
    · intro t ht; have := f6 t ht; omega
    · intro hl; rw [f7 (by rw [e6]; exact hl), e8 hl]

theorem new_spec (cidLen : Nat) (lifetime : Option Nat) (now issued : Nat) :
    ∃ s, new cidLen lifetime now issued = some s ∧ Inv s ∧ s.activeSeq.length = issued ∧ s.issued = issued ∧
      s.cidLifetime = lifetime ∧ s.cidLen = cidLen := by
  unfold new
  rw [List.range_eq_range']
  obtain ⟨s, h, e1, e2, e3, e4, e5, hcl, e6, e7⟩ :=
    trackAll_spec now issued 0 ⟨[], issued, List.range' 0 issued, 0, 0, cidLen, lifetime⟩ (by simp)
  simp only at e1 e2 e3 e4 e5 e6 e7 hcl
  refine ⟨s, h, ⟨?_, ?_, ?_, ?_⟩, by rw [e2]; simp, e1, e5, hcl⟩
  · rw [e2]; exact List.nodup_range'
  · intro x hx; rw [e2] at hx; rw [e1]; simp [List.mem_range'] at hx; omega
  · intro t ht; rw [e1]; have := e6 t ht; omega
  · intro hl; rw [e5] at hl; exact ⟨by rw [e7 hl], by rw [e3, e4]⟩


/-! ### the first batch (`issue_first_cids` → `NeedIdentifiers(now, n)` → `new_cids`) -/

theorem foldl_setInsert_range' : ∀ (n a : Nat) (acc : List Nat), (∀ x ∈ acc, x < a) →
    (List.range' a n).foldl setInsert acc = acc ++ List.range' a n := by
  intro n
  induction n with
  | zero => intro a acc _; simp
  | succ n ih =>
    intro a acc h
    simp only [List.range'_succ, List.foldl_cons]
    have hna : a ∉ acc := fun hm => by have := h a hm; omega
    have : setInsert acc a = acc ++ [a] := by unfold setInsert; simp [hna]
    rw [this, ih (a + 1) (acc ++ [a])]
    · simp
    · intro x hx
      simp only [List.mem_append, List.mem_singleton] at hx
      rcases hx with hx | rfl
      · have := h x hx; omega
      · omega

theorem newCids_first (s : State) (hI : Inv s) (now n : Nat) (hn : 0 < n) (hov : s.issued + n < U64) :
    ∃ s', newCids s (List.range' s.issued n) now = some s' ∧ Inv s' ∧
      s'.activeSeq.length = s.activeSeq.length + n ∧ s'.issued = s.issued + n ∧
      s'.cidLifetime = s.cidLifetime ∧ s'.prevRetireSeq = s.prevRetireSeq ∧ s'.retireSeq = s.retireSeq := by
  unfold newCids
  have hlast : (List.range' s.issued n).getLast? = some (s.issued + n - 1) := by
    cases n with
    | zero => omega
    | succ m =>
      rw [List.range'_concat, List.getLast?_append]
      simp
  rw [hlast]
  have hov' : ¬ (s.issued + n ≥ U64) := by omega
  simp only [List.length_range', hov', if_false]
  rw [foldl_setInsert_range' n s.issued s.activeSeq hI.lt]
  obtain ⟨s', h, h1, h2, h3, h4, h5, h6, h7, h8⟩ :=
    trackLifetime_spec { s with issued := s.issued + n, activeSeq := s.activeSeq ++ List.range' s.issued n }
      (s.issued + n - 1) now (fun t ht => by have := hI.ts t ht; simp only at ht ⊢; omega)
  refine ⟨s', h, ⟨?_, ?_, ?_, ?_⟩, by rw [h2]; simp, h1, h6, h3, h4⟩
  · rw [h2]
    simp only
    rw [List.nodup_append]
    refine ⟨hI.nodup, List.nodup_range', ?_⟩
    intro a ha b hb hab
    subst hab
    have := hI.lt a ha
    simp [List.mem_range'] at hb
    omega
  · rw [h2, h1]
    intro x hx
    simp only [List.mem_append] at hx ⊢
    rcases hx with hx | hx
    · have := hI.lt x hx; omega
    · simp [List.mem_range'] at hx; omega
  · rw [h1]
    intro t ht
    have := h7 t ht
    simp only; omega
  · intro hl
    rw [h6] at hl
    have := hI.nolt hl
    rw [h8 hl, h3, h4]
    exact this


/-- the test-only `assign_retire_seq` panics unless some CID is active, `v` does not exceed the largest active
    sequence number by more than one, and `v` is not below the current `retire_seq` -/
theorem assignRetireSeq_some_iff (s : State) (v : Nat) :
    (∃ r, assignRetireSeq s v = some r) ↔
      ∃ m, s.activeSeq.max? = some m ∧ m + 1 < U64 ∧ v ≤ m + 1 ∧ s.retireSeq ≤ v := by
  unfold assignRetireSeq
  cases hm : s.activeSeq.max? with
  | none => simp
  | some m =>
    simp only [Option.some.injEq, exists_eq_left']
    by_cases h1 : m + 1 ≥ U64
    · simp only [h1, if_true]
      constructor
      · intro ⟨_, h⟩; simp at h
      · intro ⟨h, _⟩; omega
    · simp only [h1, if_false]
      by_cases h2 : v ≤ m + 1
      · simp only [h2, not_true_eq_false, if_false]
        by_cases h3 : v < s.retireSeq
        · simp only [h3, if_true]
          constructor
          · intro ⟨_, h⟩; simp at h
          · intro ⟨_, _, h⟩; omega
        · simp only [h3, if_false]
          exact ⟨fun _ => ⟨by omega, trivial, by omega⟩, fun _ => ⟨_, rfl⟩⟩
      · simp only [h2, not_false_eq_true, if_true]
        constructor
        · intro ⟨_, h⟩; simp at h
        · intro ⟨_, h, _⟩; exact h.elim

end QM.CidState
