import QuinnModel.Endpoint.CidEcho
/- Proofs for Props/C14_echo.lean (core Lean only). -/
namespace QM.CidEcho
open QM

/-! ### the decision -/

theorem accept_iff (side : Side) (c : Cids) (tp : EchoTP) :
    accept side c tp = true ↔
      tp.initialSrc = some c.origRem ∧
      (side = .client → tp.originalDst = some c.initialDst ∧ tp.retrySrc = c.retrySrc) := by
  have e1 : (some c.origRem = tp.initialSrc) ↔ (tp.initialSrc = some c.origRem) := eq_comm
  have e2 : (some c.initialDst = tp.originalDst) ↔ (tp.originalDst = some c.initialDst) := eq_comm
  have e3 : (c.retrySrc = tp.retrySrc) ↔ (tp.retrySrc = c.retrySrc) := eq_comm
  cases side <;> simp [accept, reject, Gen.cidEchoReject, Side.isClient, e1, e2, e3]

theorem accept_false_of (side : Side) (c : Cids) (tp : EchoTP)
    (h : ¬ (tp.initialSrc = some c.origRem ∧
      (side = .client → tp.originalDst = some c.initialDst ∧ tp.retrySrc = c.retrySrc))) :
    accept side c tp = false := by
  rw [Bool.eq_false_iff]
  exact fun h' => h ((accept_iff side c tp).mp h')

theorem server_accept_iff (c : Cids) (tp : EchoTP) :
    accept .server c tp = true ↔ tp.initialSrc = some c.origRem := by
  rw [accept_iff]; simp

theorem client_accept_iff (c : Cids) (tp : EchoTP) :
    accept .client c tp = true ↔
      tp.initialSrc = some c.origRem ∧ tp.originalDst = some c.initialDst ∧ tp.retrySrc = c.retrySrc := by
  rw [accept_iff]; simp

theorem corruption_rejected (side : Side) (c : Cids) (tp : EchoTP) (f : Field) (v : Option Cid)
    (h : accept side c tp = true) (hc : checkedBy side f = true) (hv : v ≠ tp.get f) :
    accept side c (tp.set f v) = false := by
  apply accept_false_of
  intro h'
  have a := (accept_iff side c tp).mp h
  cases f <;> cases side <;> simp_all [EchoTP.set, EchoTP.get, checkedBy]

theorem recorded_origRem_corruption_rejected (side : Side) (c : Cids) (tp : EchoTP) (v : Cid)
    (h : accept side c tp = true) (hv : v ≠ c.origRem) :
    accept side { c with origRem := v } tp = false := by
  apply accept_false_of
  intro h'
  have a := (accept_iff side c tp).mp h
  simp_all

theorem recorded_initialDst_corruption_rejected (c : Cids) (tp : EchoTP) (v : Cid)
    (h : accept .client c tp = true) (hv : v ≠ c.initialDst) :
    accept .client { c with initialDst := v } tp = false := by
  apply accept_false_of
  intro h'
  have a := (accept_iff .client c tp).mp h
  simp_all

theorem recorded_retrySrc_corruption_rejected (c : Cids) (tp : EchoTP) (v : Option Cid)
    (h : accept .client c tp = true) (hv : v ≠ c.retrySrc) :
    accept .client { c with retrySrc := v } tp = false := by
  apply accept_false_of
  intro h'
  have a := (accept_iff .client c tp).mp h
  simp_all

theorem server_ignores_tp (c : Cids) (tp : EchoTP) (f : Field) (v : Option Cid)
    (hf : checkedBy .server f = false) :
    accept .server c (tp.set f v) = accept .server c tp := by
  rw [Bool.eq_iff_iff, server_accept_iff, server_accept_iff]
  cases f <;> simp_all [EchoTP.set, checkedBy]

theorem server_ignores_recorded (c : Cids) (tp : EchoTP) (d : Cid) (r : Option Cid) :
    accept .server { c with initialDst := d, retrySrc := r } tp = accept .server c tp := by
  rw [Bool.eq_iff_iff, server_accept_iff, server_accept_iff]

/-! ### the Retry test -/

theorem retryDiscarded_iff (a n : Nat) (v : Bool) :
    Gen.retryDiscarded a (n + 16) v = false ↔ a = 0 ∧ v = true ∧ 0 < n := by
  cases v <;> simp [Gen.retryDiscarded] <;> omega

theorem followsRetry_iff (s : Client) (v : Bool) (n : Nat) :
    s.followsRetry v n = true ↔ s.authed = 0 ∧ v = true ∧ 0 < n := by
  unfold Client.followsRetry
  rw [← retryDiscarded_iff]
  cases Gen.retryDiscarded s.authed (n + 16) v <;> simp

theorem step_retry_discarded (s : Client) (scid : Cid) (v : Bool) (n : Nat)
    (h : ¬ (s.authed = 0 ∧ v = true ∧ 0 < n)) : s.step (.retry scid v n) = s := by
  have : Gen.retryDiscarded s.authed (n + 16) v = true := by
    cases hd : Gen.retryDiscarded s.authed (n + 16) v
    · exact absurd ((retryDiscarded_iff _ _ _).mp hd) h
    · rfl
  simp [Client.step, this]

theorem step_retry_followed (s : Client) (scid : Cid) (n : Nat) (h : s.authed = 0) :
    s.step (.retry scid true (n + 1)) =
      { s with authed := 1, retrySrc := some scid, active := scid, remHandshake := scid, remCidSet := false } := by
  have : Gen.retryDiscarded s.authed (n + 1 + 16) true = false :=
    (retryDiscarded_iff _ _ _).mpr ⟨h, rfl, by omega⟩
  rw [h] at this
  simp [Client.step, this, h]

/-! ### bookkeeping invariants -/

theorem step_initialDst (s : Client) (e : Event) : (s.step e).initialDst = s.initialDst := by
  cases e <;> simp only [Client.step] <;> (repeat' split) <;> rfl

theorem run_initialDst (s : Client) (evs : List Event) : (s.run evs).initialDst = s.initialDst := by
  induction evs generalizing s with
  | nil => rfl
  | cons e t ih => simp only [Client.run, List.foldl_cons] at *; rw [ih, step_initialDst]

theorem step_authed_mono (s : Client) (e : Event) : s.authed ≤ (s.step e).authed := by
  cases e <;> simp only [Client.step] <;> (repeat' split) <;> simp

/-- once any server packet was authenticated, a Retry is never followed again -/
theorem step_retrySrc_frozen (s : Client) (e : Event) (ha : 0 < s.authed) :
    (s.step e).retrySrc = s.retrySrc := by
  cases e with
  | retry scid v n => rw [step_retry_discarded]; omega
  | serverInitial scid => simp only [Client.step]; (repeat' split) <;> rfl
  | laterServerPacket scid => simp only [Client.step]; (repeat' split) <;> rfl
  | unauthenticated => rfl

theorem run_retrySrc_frozen (s : Client) (evs : List Event) (ha : 0 < s.authed) :
    (s.run evs).retrySrc = s.retrySrc := by
  induction evs generalizing s with
  | nil => rfl
  | cons e t ih =>
    simp only [Client.run, List.foldl_cons] at *
    rw [ih _ (Nat.lt_of_lt_of_le ha (step_authed_mono s e)), step_retrySrc_frozen s e ha]

/-- after the first server Initial the three CIDs (and the CIDs in use) never change -/
theorem step_frozen (s : Client) (e : Event) (hs : s.remCidSet = true) (ha : 0 < s.authed) :
    (s.step e).cids = s.cids ∧ (s.step e).remCidSet = true ∧ 0 < (s.step e).authed
      ∧ (s.step e).active = s.active ∧ (s.step e).remHandshake = s.remHandshake := by
  cases e with
  | retry scid v n => rw [step_retry_discarded]; exact ⟨rfl, hs, ha, rfl, rfl⟩; omega
  | serverInitial scid =>
    simp only [Client.step, hs]
    (repeat' split) <;> simp_all [Client.cids]
  | laterServerPacket scid =>
    simp only [Client.step]
    (repeat' split) <;> simp_all [Client.cids]
  | unauthenticated => exact ⟨rfl, hs, ha, rfl, rfl⟩

theorem run_frozen (s : Client) (evs : List Event) (hs : s.remCidSet = true) (ha : 0 < s.authed) :
    (s.run evs).cids = s.cids ∧ (s.run evs).active = s.active ∧ (s.run evs).remHandshake = s.remHandshake := by
  induction evs generalizing s with
  | nil => exact ⟨rfl, rfl, rfl⟩
  | cons e t ih =>
    simp only [Client.run, List.foldl_cons] at *
    obtain ⟨h1, h2, h3, h4, h5⟩ := step_frozen s e hs ha
    obtain ⟨i1, i2, i3⟩ := ih _ h2 h3
    exact ⟨i1.trans h1, i2.trans h4, i3.trans h5⟩

/-- relation between the recorded CIDs and the CIDs in use, for every history -/
structure Inv (d0 : Cid) (s : Client) : Prop where
  dst : s.initialDst = d0
  hs : s.remHandshake = s.active
  unset : s.remCidSet = false → s.origRem = d0 ∧ s.active = (match s.retrySrc with | some r => r | none => d0)
  set : s.remCidSet = true → s.origRem = s.active ∧ 0 < s.authed
  retry : s.retrySrc ≠ none → 0 < s.authed

theorem inv_connect (d0 : Cid) : Inv d0 (Client.connect d0) := by
  constructor <;> simp [Client.connect]

theorem inv_step (d0 : Cid) (s : Client) (e : Event) (h : Inv d0 s) : Inv d0 (s.step e) := by
  obtain ⟨h1, h2, h3, h4, h5⟩ := h
  cases e with
  | retry scid v n =>
    by_cases hf : s.authed = 0 ∧ v = true ∧ 0 < n
    · obtain ⟨ha, rfl, hn⟩ := hf
      obtain ⟨m, rfl⟩ : ∃ m, n = m + 1 := ⟨n - 1, by omega⟩
      rw [step_retry_followed s scid m ha]
      have hset : s.remCidSet = false := by
        cases hc : s.remCidSet
        · rfl
        · have := (h4 hc).2; omega
      constructor <;> simp_all
    · rw [step_retry_discarded s scid v n hf]; exact ⟨h1, h2, h3, h4, h5⟩
  | serverInitial scid =>
    simp only [Client.step]
    (repeat' split) <;> constructor <;> simp_all
  | laterServerPacket scid =>
    simp only [Client.step]
    (repeat' split) <;> constructor <;> simp_all <;> omega
  | unauthenticated => exact ⟨h1, h2, h3, h4, h5⟩

theorem inv_run (d0 : Cid) (s : Client) (evs : List Event) (h : Inv d0 s) : Inv d0 (s.run evs) := by
  induction evs generalizing s with
  | nil => exact h
  | cons e t ih => simp only [Client.run, List.foldl_cons] at *; exact ih _ (inv_step d0 s e h)

theorem run_append (s : Client) (a b : List Event) : s.run (a ++ b) = (s.run a).run b := by
  simp [Client.run, List.foldl_append]

/-- a history without a Retry that could be followed leaves `retry_src_cid` unset -/
theorem run_no_retry (s : Client) (evs : List Event) (h0 : s.retrySrc = none)
    (h : ∀ scid n, Event.retry scid true (n + 1) ∉ evs) : (s.run evs).retrySrc = none := by
  induction evs generalizing s with
  | nil => exact h0
  | cons e t ih =>
    simp only [Client.run, List.foldl_cons] at *
    apply ih
    · cases e with
      | retry scid v n =>
        rw [step_retry_discarded]; exact h0
        rintro ⟨_, rfl, hn⟩
        obtain ⟨m, rfl⟩ : ∃ m, n = m + 1 := ⟨n - 1, by omega⟩
        exact h scid m (List.mem_cons_self ..)
      | serverInitial scid => simp only [Client.step]; (repeat' split) <;> exact h0
      | laterServerPacket scid => simp only [Client.step]; (repeat' split) <;> exact h0
      | unauthenticated => exact h0
    · intro scid n hm; exact h scid n (List.mem_cons_of_mem _ hm)

/-! ### honest exchanges, forged Retry -/

theorem honest_client_accepts (x : Exchange) :
    accept .client ((Client.connect x.d0).run x.clientEvents).cids (honestEcho x.serverView) = true := by
  obtain ⟨d0, c, retry, s, post⟩ := x
  cases retry with
  | none =>
    simp only [Exchange.clientEvents, List.nil_append, List.singleton_append, Client.run, List.foldl_cons]
    have hfro := run_frozen ((Client.connect d0).step (.serverInitial s)) post
      (by simp [Client.step, Client.connect]) (by simp [Client.step, Client.connect])
    simp only [Client.run] at hfro
    rw [hfro.1, client_accept_iff]
    simp [Client.step, Client.connect, Client.cids, honestEcho, Exchange.serverView, Exchange.clientBeforeAccept]
  | some rn =>
    obtain ⟨r, n⟩ := rn
    simp only [Exchange.clientEvents, List.cons_append, List.nil_append, Client.run, List.foldl_cons]
    have e1 := step_retry_followed (Client.connect d0) r n rfl
    have hfro := run_frozen (((Client.connect d0).step (.retry r true (n + 1))).step (.serverInitial s)) post
      (by rw [e1]; simp [Client.step, Client.connect]) (by rw [e1]; simp [Client.step, Client.connect])
    simp only [Client.run] at hfro
    rw [hfro.1, client_accept_iff]
    simp only [Exchange.serverView, Exchange.clientBeforeAccept]
    rw [e1]
    simp [Client.step, Client.connect, Client.cids, honestEcho]

theorem honest_server_accepts (x : Exchange) :
    accept .server (serverCids x.serverView) (clientTP x.c) = true := by
  rw [server_accept_iff]; rfl

theorem forged_retry_rejected (s : Client) (h0 : s.authed = 0) (r' : Cid) (n : Nat) (evs : List Event)
    (tp : EchoTP) (h : tp.retrySrc ≠ some r') :
    accept .client ((s.step (.retry r' true (n + 1))).run evs).cids tp = false := by
  apply accept_false_of
  rw [step_retry_followed s r' n h0]
  intro h'
  have := run_retrySrc_frozen { s with authed := 1, retrySrc := some r', active := r', remHandshake := r', remCidSet := false } evs (by simp)
  simp_all [Client.cids]

theorem missed_retry_rejected (d0 : Cid) (evs : List Event)
    (hno : ∀ scid n, Event.retry scid true (n + 1) ∉ evs) (tp : EchoTP) (r : Cid) (h : tp.retrySrc = some r) :
    accept .client ((Client.connect d0).run evs).cids tp = false := by
  apply accept_false_of
  have := run_no_retry (Client.connect d0) evs rfl hno
  intro h'
  simp_all [Client.cids]

theorem accepted_names_used (d0 : Cid) (evs : List Event) (tp : EchoTP)
    (h : accept .client ((Client.connect d0).run evs).cids tp = true) :
    tp.originalDst = some d0 ∧ tp.retrySrc = ((Client.connect d0).run evs).retrySrc ∧
    tp.initialSrc = some ((Client.connect d0).run evs).origRem ∧
    (((Client.connect d0).run evs).remCidSet = true →
      ((Client.connect d0).run evs).origRem = ((Client.connect d0).run evs).active ∧
      ((Client.connect d0).run evs).remHandshake = ((Client.connect d0).run evs).active) := by
  have inv := inv_run d0 _ evs (inv_connect d0)
  have a := (client_accept_iff _ _).mp h
  simp only [Client.cids] at a
  refine ⟨by rw [a.2.1, inv.dst], a.2.2, a.1, fun hs => ⟨(inv.set hs).1, inv.hs⟩⟩

/-- a server packet whose SCID differs from the one fixed by the first Initial is discarded -/
theorem mismatched_scid_discarded (s : Client) (scid : Cid) (hs : s.remCidSet = true) (hne : scid ≠ s.remHandshake) :
    (s.step (.serverInitial scid)).processed = s.processed ∧ (s.step (.laterServerPacket scid)).processed = s.processed := by
  simp [Client.step, hs, hne]

end QM.CidEcho
