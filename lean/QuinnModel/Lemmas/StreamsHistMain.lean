import QuinnModel.Lemmas.StreamsHistOps
/-
C11, whole histories — histories (`Run`, `trace`), the events handed to the application
(`delivered`), the ghost list `Q` of all Finished / Stopped events ever queued, and the invariant `HInv`
that makes the per-step facts of Lemmas/StreamsHistOps.lean statements about ALL histories.
-/
namespace QM.Streams
set_option pp.structureInstances false

/-- one step of a history: the state before, the operation, its result, the state after -/
structure Step where
  pre : State
  op : Op
  out : Out
  post : State

/-- the event the step handed to the application (only `poll` does) -/
def Step.delivered (st : Step) : List Event :=
  match st.out with
  | .event e => [e]
  | _ => []

/-- all events handed to the application, oldest first -/
def delivered (tr : List Step) : List Event := tr.flatMap Step.delivered

/-- the steps of running `ops` from `s`; the history ends where the implementation would panic -/
def trace : State → List Op → List Step
  | _, [] => []
  | s, o :: os =>
    match step s o with
    | none => []
    | some (s', out) => ⟨s, o, out, s'⟩ :: trace s' os

/-- `Run s0 tr s`: `tr` (oldest first) is a history without restart (`new`, `rejected`) from `s0` to `s` -/
inductive Run (s0 : State) : List Step → State → Prop
  | nil : Run s0 [] s0
  | snoc {tr : List Step} {s s' : State} {o : Op} {out : Out} :
      Run s0 tr s → step s o = some (s', out) → o.isRestart = false → Run s0 (tr ++ [⟨s, o, out, s'⟩]) s'

theorem Run.cons {s0 s1 s : State} {o : Op} {out : Out} {tr : List Step} (h0 : step s0 o = some (s1, out))
    (hr : o.isRestart = false) (h : Run s1 tr s) : Run s0 (⟨s0, o, out, s1⟩ :: tr) s := by
  induction h with
  | nil => exact Run.snoc (tr := []) Run.nil h0 hr
  | snoc _ hs hr' ih => exact Run.snoc (tr := _ :: _) ih hs hr'

theorem trace_run : ∀ (ops : List Op) (s0 : State), (∀ o ∈ ops, o.isRestart = false) →
    ∃ s, Run s0 (trace s0 ops) s := by
  intro ops
  induction ops with
  | nil => intro s0 _; exact ⟨s0, Run.nil⟩
  | cons o os ih =>
    intro s0 hno
    unfold trace
    split
    · exact ⟨s0, Run.nil⟩
    · rename_i s1 out hs
      obtain ⟨s, h⟩ := ih s1 (fun o' ho' => hno o' (List.mem_cons_of_mem _ ho'))
      exact ⟨s, Run.cons hs (hno o (List.mem_cons_self ..)) h⟩

theorem delivered_snoc (tr : List Step) (st : Step) : delivered (tr ++ [st]) = delivered tr ++ st.delivered := by
  simp [delivered, List.flatMap_append]

/-! ### `poll` hands out the oldest queued event -/

theorem pollBlocked_out : ∀ (n : Nat) {s s' : State} {e : Event},
    s.pollBlocked n = some (s', some e) → isFinStop e = false := by
  intro n
  induction n with
  | zero => intro s s' e h; simp [State.pollBlocked] at h
  | succ n ih =>
    intro s s' e h
    unfold State.pollBlocked at h
    osplit h
    all_goals first
      | rfl
      | (obtain ⟨_, h2⟩ := h; cases h2; rfl)
      | (obtain ⟨_, h2⟩ := h; cases h2)
      | (obtain ⟨_, h2⟩ := h; rw [← h2]; rfl)
      | exact ih h

theorem poll_q {s s' : State} {e : Option Event} (h : s.poll = some (s', e)) :
    (match e with | some ev => [ev] | none => []).filter isFinStop ++ s'.fsw = s.fsw := by
  unfold State.poll at h
  split at h
  · simp only [Option.some.injEq, Prod.mk.injEq] at h; obtain ⟨rfl, rfl⟩ := h; rfl
  · split at h
    · simp only [Option.some.injEq, Prod.mk.injEq] at h; obtain ⟨rfl, rfl⟩ := h; rfl
    · split at h
      · contradiction
      · rename_i wl _
        have hpb : ∀ s1 e1, s.pollBlockedIf (decide (wl > 0)) = some (s1, e1) →
            s1.fsw = s.fsw ∧ ∀ ev, e1 = some ev → isFinStop ev = false := by
          intro s1 e1 hh
          unfold State.pollBlockedIf at hh
          split at hh
          · refine ⟨fsw_pollBlocked _ hh, fun ev he => ?_⟩
            subst he; exact pollBlocked_out _ hh
          · simp only [Option.some.injEq, Prod.mk.injEq] at hh
            exact ⟨by rw [← hh.1], fun ev he => by rw [← hh.2] at he; cases he⟩
        split at h
        · contradiction
        · rename_i s1 ev hp
          simp only [Option.some.injEq, Prod.mk.injEq] at h; obtain ⟨rfl, rfl⟩ := h
          obtain ⟨a, b⟩ := hpb _ _ hp
          simp [List.filter, b ev rfl, a]
        · rename_i s1 hp
          obtain ⟨a, _⟩ := hpb _ _ hp
          split at h
          · simp only [Option.some.injEq, Prod.mk.injEq] at h; obtain ⟨rfl, rfl⟩ := h; simpa using a
          · rename_i ev rest hev
            simp only [Option.some.injEq, Prod.mk.injEq] at h; obtain ⟨rfl, rfl⟩ := h
            rw [← a]
            simp only [State.fsw, hev, List.filter_cons, List.filter_nil]
            split <;> simp

/-- only `poll` hands out events -/
theorem out_event_poll {s s' : State} {o : Op} {e : Event} (h : step s o = some (s', .event e)) : o = .poll := by
  cases o
  case poll => rfl
  all_goals
    exfalso
    unstep h
    try (revert h; simp; done)
  all_goals first
    | grind
    | (obtain ⟨_, r, _, _, h3⟩ := h
       cases r <;> simp [outT] at h3)

/-- the Finished / Stopped events handed out so far, then those still queued -/
def Q (tr : List Step) (s : State) : List Event := (delivered tr).filter isFinStop ++ s.fsw

/-- how one step extends `Q` -/
theorem step_q {tr : List Step} {s s' : State} {o : Op} {out : Out} (h : step s o = some (s', out))
    (f : Fx s s' o out) :
    Q (tr ++ [⟨s, o, out, s'⟩]) s' = Q tr s ∨
    (∃ id a e fin, o = .ack id a e fin ∧
      (∃ x x', s.send.find? id = some (some x) ∧ x.ack a e fin = some (x', true)) ∧
      s'.hv.sh id = .gone ∧ Q (tr ++ [⟨s, o, out, s'⟩]) s' = Q tr s ++ [.finished id]) ∨
    (∃ id code, o = .stopSending id code ∧ expectedStopped (s.hv.sh id) = some none ∧
      expectedStopped (s'.hv.sh id) = some (some code) ∧
      Q (tr ++ [⟨s, o, out, s'⟩]) s' = Q tr s ++ [.stopped id code]) := by
  have hd : o ≠ .poll → (Step.delivered ⟨s, o, out, s'⟩) = [] := by
    intro hne
    unfold Step.delivered
    split
    · rename_i e he
      simp only at he; subst he
      exact absurd (out_event_poll h) hne
    · rfl
  have hQ : ∀ l, (Step.delivered ⟨s, o, out, s'⟩).filter isFinStop ++ s'.fsw = s.fsw ++ l →
      Q (tr ++ [⟨s, o, out, s'⟩]) s' = Q tr s ++ l := by
    intro l hl
    simp only [Q, delivered_snoc, List.filter_append, List.append_assoc, hl]
  have same : s'.fsw = s.fsw ∨ o = .poll → Q (tr ++ [⟨s, o, out, s'⟩]) s' = Q tr s := by
    intro hq
    have hQ0 := hQ []
    simp only [List.append_nil] at hQ0
    apply hQ0
    by_cases hp : o = .poll
    · subst hp
      unstep h
      obtain ⟨s1, e, h1, h2, h3⟩ := h
      subst h2
      have := poll_q h1
      cases e with
      | none => subst h3; simpa [Step.delivered] using this
      | some ev => subst h3; simpa [Step.delivered] using this
    · rw [hd hp]; simpa using hq.resolve_right hp
  cases f with
  | grow g hq => exact Or.inl (same hq)
  | finish id ho hout g h1 h2 hq => exact Or.inl (same (Or.inl hq))
  | reset id code ho hout g h1 h2 hq => exact Or.inl (same (Or.inl hq))
  | resetAcked id ho rel g h1 h2 hrel hq => exact Or.inl (same (Or.inl hq))
  | recvFreed id ho rel g h1 h2 hrel hq => exact Or.inl (same (Or.inl hq))
  | finished id a e fin ho rel g h1 h2 hq hrel =>
    refine Or.inr (Or.inl ⟨id, a, e, fin, ho, h1, h2, hQ _ ?_⟩)
    rw [hd (by rw [ho]; simp), hq]; rfl
  | stopSending id code ho g h1 h2 h3 hq =>
    refine Or.inr (Or.inr ⟨id, code, ho, h1, h2, hQ _ ?_⟩)
    rw [hd (by rw [ho]; simp), hq]; rfl

/-! ### persistence along one step -/

section persist
variable {s s' : State} {o : Op} {out : Out}

theorem Fx.allocd (f : Fx s s' o out) {id : Nat} (h : s.hv.allocd id) : s'.hv.allocd id := by
  obtain ⟨_, _, _, g, _, _⟩ := f.core
  exact g.allocd h

/-- a sending half that is gone stays gone -/
theorem Fx.gone (f : Fx s s' o out) {id : Nat} (hg : s.hv.sh id = .gone) (ha : s.hv.allocd id) :
    s'.hv.sh id = .gone := by
  obtain ⟨xs, _, _, g, hs, _⟩ := f.core
  by_cases hx : xs = some id
  · exact absurd hg (hs id hx).1
  · rcases g.sh id hx with e | ⟨_, n, _⟩
    · rw [e, hg]
    · exact absurd ha n

/-- a half the peer has stopped stays stopped (or goes away) -/
theorem Fx.stop (f : Fx s s' o out) {id : Nat} (hs0 : expectedStopped (s.hv.sh id) ≠ some none)
    (ha : s.hv.allocd id) : expectedStopped (s'.hv.sh id) ≠ some none := by
  obtain ⟨xs, _, _, g, hs, _⟩ := f.core
  by_cases hx : xs = some id
  · obtain ⟨_, h2⟩ := hs id hx
    rcases h2 with h2 | h2 | h2
    · rw [h2]; simp [expectedStopped]
    · exact absurd h2 hs0
    · rw [h2]; exact hs0
  · rcases g.sh id hx with e | ⟨_, n, _⟩
    · rw [e]; exact hs0
    · exact absurd ha n

/-- a receiving half that is gone stays gone -/
theorem Fx.rgone (f : Fx s s' o out) {id : Nat} (hg : s.hv.rp id = false) (ha : s.hv.allocd id) :
    s'.hv.rp id = false := by
  obtain ⟨_, xr, _, g, _, hr⟩ := f.core
  by_cases hx : xr = some id
  · rw [(hr id hx).1] at hg; cases hg
  · rcases g.rp id hx with e | ⟨_, n, _⟩
    · rw [e, hg]
    · exact absurd ha n

theorem Fx.keysAlloc (f : Fx s s' o out) (ka : KeysAlloc s) : KeysAlloc s' := by
  obtain ⟨xs, xr, _, g, hs, hr⟩ := f.core
  intro id hid
  rcases hid with hid | hid
  · by_cases hx : xs = some id
    · exact g.allocd (ka id (Or.inl (hs id hx).1))
    · rcases g.sh id hx with e | ⟨_, _, a, _⟩
      · exact g.allocd (ka id (Or.inl (by rw [show absSend s id = s.hv.sh id from rfl, ← e]; exact hid)))
      · exact a
  · by_cases hx : xr = some id
    · have := (hr id hx).2
      rw [show s'.recv.contains id = s'.hv.rp id from rfl, this] at hid; cases hid
    · rcases g.rp id hx with e | ⟨_, _, a, _⟩
      · exact g.allocd (ka id (Or.inr (by rw [show s.recv.contains id = s.hv.rp id from rfl, ← e]; exact hid)))
      · exact a

/-- remotely initiated unidirectional streams have no sending half -/
def UniInv (s : State) : Prop := ∀ id, sidDir id = .uni → sidInitiator id ≠ s.side → s.hv.sh id = .gone

theorem Fx.uni (f : Fx s s' o out) (hu : UniInv s) : UniInv s' := by
  obtain ⟨xs, _, _, g, hs, _⟩ := f.core
  intro id hd hr
  have hside : s'.side = s.side := g.side
  rw [hside] at hr
  by_cases hx : xs = some id
  · exact absurd (hu id hd hr) (hs id hx).1
  · rcases g.sh id hx with e | ⟨_, _, _, _, u⟩
    · rw [e]; exact hu id hd hr
    · rcases u with u | u
      · rw [hd] at u; cases u
      · exact absurd u hr

/-- a half becomes DataSent only by a successful `finish` -/
theorem Fx.ds_origin (f : Fx s s' o out) {id : Nat} (h : (s'.hv.sh id).isDS = true) :
    (s.hv.sh id).isDS = true ∨ (o = .finish id ∧ out = .ok) := by
  have other : ∀ {xs xr rel}, Grow xs xr rel s.hv s'.hv → xs ≠ some id → (s.hv.sh id).isDS = true := by
    intro xs xr rel g hx
    rcases g.sh id hx with e | ⟨_, _, _, r, _⟩
    · rw [← e]; exact h
    · rw [r] at h; cases h
  cases f with
  | grow g _ => exact Or.inl (other g (by simp))
  | recvFreed i _ _ g _ _ _ _ => exact Or.inl (other g (by simp))
  | finish i ho hout g h1 h2 _ =>
    by_cases hi : i = id
    · subst hi; exact Or.inr ⟨ho, hout⟩
    · exact Or.inl (other g (by simpa using hi))
  | reset i code ho hout g h1 h2 _ =>
    by_cases hi : i = id
    · subst hi
      rw [h2] at h
      generalize s.hv.sh i = hh at h h1
      cases hh <;> simp [expectedReset, SendHalf.isDS] at h h1 ⊢
    · exact Or.inl (other g (by simpa using hi))
  | stopSending i code ho g h1 h2 h3 _ =>
    by_cases hi : i = id
    · subst hi; left; rw [← h3]; exact h
    · exact Or.inl (other g (by simpa using hi))
  | finished i a e fin ho rel g h1 h2 _ _ =>
    by_cases hi : i = id
    · subst hi; rw [h2] at h; cases h
    · exact Or.inl (other g (by simpa using hi))
  | resetAcked i ho rel g h1 h2 _ _ =>
    by_cases hi : i = id
    · subst hi; rw [h2] at h; cases h
    · exact Or.inl (other g (by simpa using hi))

end persist

/-! ### the history invariant -/

def isStoppedOf (id : Nat) : Event → Bool
  | .stopped i _ => i == id
  | _ => false

/-- the step is a successful `finish(id)` -/
def FinishOk (st : Step) (id : Nat) : Prop := st.op = .finish id ∧ st.out = .ok

/-- the step is the acknowledgement that completes stream `id`: the half exists, and after this
    acknowledgement it is finished, its FIN is acknowledged and no byte is unacknowledged
    (`Send::ack` reports `true`, see `Send.ack_done`) -/
def Completes (st : Step) (id : Nat) : Prop :=
  ∃ a e fin x x', st.op = .ack id a e fin ∧ st.pre.send.find? id = some (some x) ∧
    x.ack a e fin = some (x', true)

structure HInv (tr : List Step) (s : State) : Prop where
  ka : KeysAlloc s
  uni : UniInv s
  finGone : ∀ id, Event.finished id ∈ Q tr s → s.hv.sh id = .gone ∧ s.hv.allocd id
  finOnce : ∀ id, (Q tr s).count (.finished id) ≤ 1
  stp : ∀ id c, Event.stopped id c ∈ Q tr s → s.hv.allocd id ∧ expectedStopped (s.hv.sh id) ≠ some none
  stpOnce : ∀ id, ((Q tr s).filter (isStoppedOf id)).length ≤ 1
  finWit : ∀ id, Event.finished id ∈ Q tr s →
    ∃ l1 st l2, tr = l1 ++ st :: l2 ∧ Completes st id ∧ ∃ st0 ∈ l1, FinishOk st0 id
  dsWit : ∀ id, (s.hv.sh id).isDS = true → ∃ st0 ∈ tr, FinishOk st0 id
  stpWit : ∀ id c, Event.stopped id c ∈ Q tr s → ∃ st ∈ tr, st.op = .stopSending id c

theorem new_fresh {c : Config} {s0 : State} (h : State.new c = some s0) :
    s0.events = [] ∧ KeysAlloc s0 ∧ UniInv s0 ∧ ∀ id, (s0.hv.sh id).isDS = false := by
  unfold State.new at h
  osplit h
  rename_i s1 h1
  have e1 := insertRemoteRange_only_maps _ h1
  have e2 := insertRemoteRange_only_maps _ h
  have hh1 := insertRemoteRange_halves _ h1
  have hh2 := insertRemoteRange_halves _ h
  have hside : s1.side = c.side := by rw [e1]
  have hmr : s1.maxRemote = ⟨c.maxRemoteBi, c.maxRemoteUni⟩ := by rw [e1]
  have A1 : ∀ k, absSend s1 k = .gone ∨
      ((∃ j, j < c.maxRemoteBi ∧ k = sidNew c.side.not .bi j) ∧ absSend s1 k = .ready none) := by
    intro k
    rcases (hh1 k).1 with e | ⟨⟨j, _, hj, hk⟩, _, r, _⟩
    · left; exact e
    · right
      refine ⟨⟨j, ?_, ?_⟩, r⟩
      · simpa [Two.get] using hj
      · simpa using hk
  have A2 : ∀ k, s1.recv.contains k = false ∨ (∃ j, j < c.maxRemoteBi ∧ k = sidNew c.side.not .bi j) := by
    intro k
    rcases (hh1 k).2 with e | ⟨⟨j, _, hj, hk⟩, _, _⟩
    · left; exact e
    · right
      refine ⟨j, ?_, ?_⟩
      · simpa [Two.get] using hj
      · simpa using hk
  have B1 : ∀ k, absSend s0 k = absSend s1 k := by
    intro k
    rcases (hh2 k).1 with e | ⟨_, _, _, u⟩
    · exact e
    · cases u
  have B2 : ∀ k, s0.recv.contains k = s1.recv.contains k ∨
      (∃ j, j < c.maxRemoteUni ∧ k = sidNew c.side.not .uni j) := by
    intro k
    rcases (hh2 k).2 with e | ⟨⟨j, _, hj, hk⟩, _, _⟩
    · left; exact e
    · right
      rw [hmr] at hj; rw [hside] at hk
      refine ⟨j, ?_, ?_⟩
      · simpa [Two.get] using hj
      · simpa using hk
  have key : ∀ k, (absSend s0 k ≠ .gone ∨ s0.recv.contains k = true) →
      (∃ d j, k = sidNew c.side.not d j ∧ j < (Two.mk c.maxRemoteBi c.maxRemoteUni).get d) ∧
      (absSend s0 k = .gone ∨ (absSend s0 k = .ready none ∧ sidDir k = .bi)) := by
    intro k hk
    constructor
    · rcases hk with hk | hk
      · rw [B1] at hk
        rcases A1 k with e | ⟨⟨j, hj, rfl⟩, _⟩
        · exact absurd e hk
        · exact ⟨.bi, j, rfl, hj⟩
      · rcases B2 k with e | ⟨j, hj, rfl⟩
        · rw [e] at hk
          rcases A2 k with e' | ⟨j, hj, rfl⟩
          · rw [e'] at hk; cases hk
          · exact ⟨.bi, j, rfl, hj⟩
        · exact ⟨.uni, j, rfl, hj⟩
    · rw [B1]
      rcases A1 k with e | ⟨⟨j, hj, rfl⟩, r⟩
      · exact Or.inl e
      · exact Or.inr ⟨r, sidDir_sidNew _ _ _⟩
  have hs0 : s0.side = c.side := by rw [e2, hside]
  have hm0 : s0.maxRemote = ⟨c.maxRemoteBi, c.maxRemoteUni⟩ := by rw [e2, hmr]
  refine ⟨by rw [e2, e1], ?_, ?_, ?_⟩
  · intro k hk
    obtain ⟨⟨d, j, rfl, hj⟩, _⟩ := key k hk
    have hne : sidInitiator (sidNew c.side.not d j) ≠ c.side := by
      rw [sidInitiator_sidNew]; cases c.side <;> simp [Side.not]
    simp only [HV.allocd, State.hv, hs0, hm0, hne, ↓reduceIte, sidDir_sidNew, sidIndex_sidNew]
    exact hj
  · intro k hd _
    by_cases hg : absSend s0 k = .gone
    · exact hg
    · rcases (key k (Or.inl hg)).2 with e | ⟨_, e⟩
      · exact e
      · rw [hd] at e; cases e
  · intro k
    by_cases hg : absSend s0 k = .gone
    · simp only [State.hv, hg]; rfl
    · rcases (key k (Or.inl hg)).2 with e | ⟨e, _⟩
      · exact absurd e hg
      · simp only [State.hv, e]; rfl

theorem hinv_init {c : Config} {s0 : State} (h : State.new c = some s0) : HInv [] s0 := by
  obtain ⟨he, ka, hu, hds⟩ := new_fresh h
  have hq : Q [] s0 = [] := by simp [Q, delivered, State.fsw, he]
  refine ⟨ka, hu, ?_, ?_, ?_, ?_, ?_, ?_, ?_⟩
  all_goals try (intros; simp_all; done)

theorem count_append_single {l : List Event} {a b : Event} :
    (l ++ [b]).count a = l.count a + (if b = a then 1 else 0) := by
  rw [List.count_append]
  simp only [List.count_cons, List.count_nil, Nat.zero_add, beq_iff_eq]

theorem hinv_step {tr : List Step} {s s' : State} {o : Op} {out : Out} (i : HInv tr s)
    (h : step s o = some (s', out)) (hr : o.isRestart = false) : HInv (tr ++ [⟨s, o, out, s'⟩]) s' := by
  have f := fx_step i.ka h hr
  have hka := f.keysAlloc i.ka
  have huni := f.uni i.uni
  -- facts that do not depend on how `Q` grew
  have hds : ∀ id, (s'.hv.sh id).isDS = true → ∃ st0 ∈ tr ++ [⟨s, o, out, s'⟩], FinishOk st0 id := by
    intro id hid
    rcases f.ds_origin hid with h0 | ⟨ho, hout⟩
    · obtain ⟨st0, hm, hf⟩ := i.dsWit id h0
      exact ⟨st0, List.mem_append_left _ hm, hf⟩
    · exact ⟨_, List.mem_append_right _ (List.mem_singleton.mpr rfl), ho, hout⟩
  have oldFin : ∀ id, Event.finished id ∈ Q tr s → s'.hv.sh id = .gone ∧ s'.hv.allocd id := by
    intro id hid
    obtain ⟨a, b⟩ := i.finGone id hid
    exact ⟨f.gone a b, f.allocd b⟩
  have oldStp : ∀ id c, Event.stopped id c ∈ Q tr s →
      s'.hv.allocd id ∧ expectedStopped (s'.hv.sh id) ≠ some none := by
    intro id c hid
    obtain ⟨a, b⟩ := i.stp id c hid
    exact ⟨f.allocd a, f.stop b a⟩
  have oldFinWit : ∀ id, Event.finished id ∈ Q tr s →
      ∃ l1 st l2, tr ++ [⟨s, o, out, s'⟩] = l1 ++ st :: l2 ∧ Completes st id ∧ ∃ st0 ∈ l1, FinishOk st0 id := by
    intro id hid
    obtain ⟨l1, st, l2, e, c, w⟩ := i.finWit id hid
    exact ⟨l1, st, l2 ++ [⟨s, o, out, s'⟩], by rw [e]; simp, c, w⟩
  have oldStpWit : ∀ id c, Event.stopped id c ∈ Q tr s →
      ∃ st ∈ tr ++ [⟨s, o, out, s'⟩], st.op = .stopSending id c := by
    intro id c hid
    obtain ⟨st, hm, e⟩ := i.stpWit id c hid
    exact ⟨st, List.mem_append_left _ hm, e⟩
  rcases step_q (tr := tr) h f with hq | ⟨id0, a, e, fin, ho, hx, hg, hq⟩ | ⟨id0, c0, ho, h1, h2, hq⟩
  · exact ⟨hka, huni, by rw [hq]; exact oldFin, by rw [hq]; exact i.finOnce, by rw [hq]; exact oldStp,
      by rw [hq]; exact i.stpOnce, by rw [hq]; exact oldFinWit, hds, by rw [hq]; exact oldStpWit⟩
  · -- `Finished id0` is queued: the half was present, so it had not been reported before
    obtain ⟨x, x', hfx, hack⟩ := hx
    have hpres : s.hv.sh id0 ≠ .gone := by
      simp only [State.hv, absSend, hfx, SendHalf.ofSend]; split <;> simp
    have hnew : Event.finished id0 ∉ Q tr s := fun hm => hpres (i.finGone id0 hm).1
    have hal : s'.hv.allocd id0 := f.allocd (i.ka id0 (Or.inl hpres))
    have hwas : (s.hv.sh id0).isDS = true := by
      obtain ⟨⟨fa, hst, _⟩, _⟩ := Send.ack_done hack
      simp only [State.hv, absSend, hfx, SendHalf.ofSend, hst]; rfl
    refine ⟨hka, huni, ?_, ?_, ?_, ?_, ?_, hds, ?_⟩
    · intro id hid
      rw [hq, List.mem_append, List.mem_singleton] at hid
      rcases hid with hid | hid
      · exact oldFin id hid
      · cases hid; exact ⟨hg, hal⟩
    · intro id
      rw [hq, count_append_single]
      split
      · rename_i he; cases he
        have : (Q tr s).count (.finished id0) = 0 := List.count_eq_zero.mpr hnew
        omega
      · have := i.finOnce id; omega
    · intro id c hid
      rw [hq, List.mem_append, List.mem_singleton] at hid
      rcases hid with hid | hid
      · exact oldStp id c hid
      · cases hid
    · intro id
      rw [hq, List.filter_append]
      simpa [isStoppedOf] using i.stpOnce id
    · intro id hid
      rw [hq, List.mem_append, List.mem_singleton] at hid
      rcases hid with hid | hid
      · exact oldFinWit id hid
      · cases hid
        obtain ⟨st0, hm, hf0⟩ := i.dsWit id0 hwas
        exact ⟨tr, _, [], rfl, ⟨a, e, fin, x, x', ho, hfx, hack⟩, st0, hm, hf0⟩
    · intro id c hid
      rw [hq, List.mem_append, List.mem_singleton] at hid
      rcases hid with hid | hid
      · exact oldStpWit id c hid
      · cases hid
  · -- `Stopped id0 c0` is queued: the half had no stop reason, so no `Stopped` had been reported for it
    have hpres : s.hv.sh id0 ≠ .gone := by
      intro hh; rw [hh] at h1; simp [expectedStopped] at h1
    have hal : s'.hv.allocd id0 := f.allocd (i.ka id0 (Or.inl hpres))
    have hnew : ∀ c, Event.stopped id0 c ∉ Q tr s := fun c hm => (i.stp id0 c hm).2 h1
    refine ⟨hka, huni, ?_, ?_, ?_, ?_, ?_, hds, ?_⟩
    · intro id hid
      rw [hq, List.mem_append, List.mem_singleton] at hid
      rcases hid with hid | hid
      · exact oldFin id hid
      · cases hid
    · intro id
      rw [hq, count_append_single]
      simpa using i.finOnce id
    · intro id c hid
      rw [hq, List.mem_append, List.mem_singleton] at hid
      rcases hid with hid | hid
      · exact oldStp id c hid
      · cases hid; exact ⟨hal, by rw [h2]; simp⟩
    · intro id
      rw [hq, List.filter_append]
      by_cases hid : id0 = id
      · subst hid
        have : (Q tr s).filter (isStoppedOf id0) = [] := by
          rw [List.filter_eq_nil_iff]
          intro ev hev hs
          cases ev <;> simp [isStoppedOf] at hs
          subst hs
          exact hnew _ hev
        rw [this]; simp [isStoppedOf]
      · have : isStoppedOf id (.stopped id0 c0) = false := by simp [isStoppedOf, hid]
        simpa [List.filter, this] using i.stpOnce id
    · intro id hid
      rw [hq, List.mem_append, List.mem_singleton] at hid
      rcases hid with hid | hid
      · exact oldFinWit id hid
      · cases hid
    · intro id c hid
      rw [hq, List.mem_append, List.mem_singleton] at hid
      rcases hid with hid | hid
      · exact oldStpWit id c hid
      · cases hid
        exact ⟨_, List.mem_append_right _ (List.mem_singleton.mpr rfl), ho⟩

theorem run_hinv {c : Config} {s0 s : State} {tr : List Step} (h0 : State.new c = some s0) (r : Run s0 tr s) :
    HInv tr s := by
  induction r with
  | nil => exact hinv_init h0
  | snoc _ hs hr ih => exact hinv_step ih hs hr

/-- Finished / Stopped events handed to the application are among those queued -/
theorem count_delivered_le (tr : List Step) (s : State) (e : Event) (he : isFinStop e = true) :
    (delivered tr).count e ≤ (Q tr s).count e := by
  unfold Q
  rw [List.count_append, List.count_filter he]
  omega

end QM.Streams

namespace QM.Streams
set_option pp.structureInstances false

/-! ### the concurrency slot of a remotely initiated stream -/

/-- both halves of the stream are terminal: neither is in its map any more -/
def dead (v : HV) (id : Nat) : Prop := v.sh id = .gone ∧ v.rp id = false

/-- slot accounting of one step.  `max_remote - allocated_remote_count` is the number of slots released
    so far (streams that no longer count against the concurrency limit).  Either no remotely initiated
    stream changes between alive and dead and that number stays, or exactly one remotely initiated
    stream `id0` that still had a half loses its last half in this step and the number grows by
    exactly one, in the direction of `id0` -/
def SlotStep (s s' : State) : Prop :=
  ((∀ d, s'.maxRemote.get d + s.allocatedRemoteCount.get d = s.maxRemote.get d + s'.allocatedRemoteCount.get d) ∧
    ∀ id, sidInitiator id ≠ s.side → s.hv.allocd id → (dead s'.hv id ↔ dead s.hv id)) ∨
  (∃ id0, sidInitiator id0 ≠ s.side ∧ s.hv.allocd id0 ∧ ¬ dead s.hv id0 ∧ dead s'.hv id0 ∧
    (∀ d, s'.maxRemote.get d + s.allocatedRemoteCount.get d =
      s.maxRemote.get d + s'.allocatedRemoteCount.get d + (if d = sidDir id0 then 1 else 0)) ∧
    ∀ id, id ≠ id0 → sidInitiator id ≠ s.side → s.hv.allocd id → (dead s'.hv id ↔ dead s.hv id))

theorem Grow.same_of_allocd {xs xr rel} {v v' : HV} (g : Grow xs xr rel v v') {id : Nat} (ha : v.allocd id) :
    (xs ≠ some id → v'.sh id = v.sh id) ∧ (xr ≠ some id → v'.rp id = v.rp id) := by
  constructor
  · intro hx
    rcases g.sh id hx with e | ⟨_, n, _⟩
    · exact e
    · exact absurd ha n
  · intro hx
    rcases g.rp id hx with e | ⟨_, n, _⟩
    · exact e
    · exact absurd ha n

theorem dead_iff_of_same {v v' : HV} {id : Nat} (h1 : v'.sh id = v.sh id) (h2 : v'.rp id = v.rp id) :
    dead v' id ↔ dead v id := by
  unfold dead; rw [h1, h2]

theorem slot_step {s s' : State} {o : Op} {out : Out} (ka : KeysAlloc s) (hu : UniInv s)
    (f : Fx s s' o out) : SlotStep s s' := by
  -- a step that only changes the sending half of `i`, which exists before and after
  have keepS : ∀ {i : Nat}, Grow (some i) none rel0 s.hv s'.hv → s.hv.sh i ≠ .gone → s'.hv.sh i ≠ .gone →
      SlotStep s s' := by
    intro i g h1 h2
    refine Or.inl ⟨fun d => by have := g.cnt d; simp only [State.hv, rel0, Nat.add_zero] at this; exact this, fun id _ ha => ?_⟩
    obtain ⟨a, b⟩ := g.same_of_allocd ha
    by_cases hi : i = id
    · subst hi
      unfold dead
      constructor
      · intro hd; exact absurd hd.1 h2
      · intro hd; exact absurd hd.1 h1
    · exact dead_iff_of_same (a (by simpa using hi)) (b (by simp))
  -- a step that drops one half of `i`
  have drop : ∀ {i : Nat} {xs xr : Option Nat} {rel : Dir → Nat} {og : Bool}, Grow xs xr rel s.hv s'.hv →
      (∀ id, id ≠ i → xs ≠ some id ∧ xr ≠ some id) → s.hv.allocd i → ¬ dead s.hv i →
      (og = true → sidInitiator i ≠ s.side → dead s'.hv i) → (og = false → ¬ dead s'.hv i) →
      (sidInitiator i ≠ s.side → sidDir i = .uni → og = true) →
      RelSpec s.hv i og rel → SlotStep s s' := by
    intro i xs xr rel og g hoth hai hnd hdead hlive huni hrel
    have others : ∀ id, id ≠ i → sidInitiator id ≠ s.side → s.hv.allocd id → (dead s'.hv id ↔ dead s.hv id) := by
      intro id hne _ ha
      obtain ⟨a, b⟩ := g.same_of_allocd ha
      exact dead_iff_of_same (a (hoth id hne).1) (b (hoth id hne).2)
    rcases hrel with ⟨hr, hff, rfl⟩ | ⟨hn, rfl⟩
    · have hog : og = true := by
        by_cases hd : sidDir i = .uni
        · exact huni hr hd
        · cases hdi : sidDir i with
          | uni => exact absurd hdi hd
          | bi => rw [hdi] at hff; simpa using hff
      refine Or.inr ⟨i, hr, hai, hnd, hdead hog hr, fun d => ?_, others⟩
      have := g.cnt d
      simp only [State.hv, rel1] at this
      exact this
    · by_cases hr : sidInitiator i ≠ s.side
      · have hog : og = false := by
          cases hog : og with
          | false => rfl
          | true => exact absurd ⟨hr, by rw [hog]; simp⟩ hn
        refine Or.inl ⟨fun d => by have := g.cnt d; simp only [State.hv, rel0, Nat.add_zero] at this; exact this, fun id _ ha => ?_⟩
        by_cases hi : id = i
        · subst hi
          constructor
          · intro hd; exact absurd hd (hlive hog)
          · intro hd; exact absurd hd hnd
        · exact others id hi ‹_› ha
      · refine Or.inl ⟨fun d => by have := g.cnt d; simp only [State.hv, rel0, Nat.add_zero] at this; exact this, fun id hrid ha => ?_⟩
        by_cases hi : id = i
        · subst hi; exact absurd hrid hr
        · exact others id hi hrid ha
  cases f with
  | grow g _ =>
    refine Or.inl ⟨fun d => by have := g.cnt d; simp only [State.hv, rel0, Nat.add_zero] at this; exact this, fun id _ ha => ?_⟩
    obtain ⟨a, b⟩ := Grow.same_of_allocd g ha
    exact dead_iff_of_same (a (by simp)) (b (by simp))
  | finish id ho hout g h1 h2 _ => exact keepS g (by rw [h1]; simp) (by rw [h2]; simp)
  | reset id code ho hout g h1 h2 _ =>
    refine keepS g ?_ ?_
    · intro hh; rw [hh] at h1; simp [expectedReset] at h1
    · rw [h2]
      generalize s.hv.sh id = hh at h1
      cases hh <;> simp [expectedReset] at h1 ⊢
  | stopSending id code ho g h1 h2 _ _ =>
    refine keepS g ?_ ?_
    · intro hh; rw [hh] at h1; simp [expectedStopped] at h1
    · intro hh; rw [hh] at h2; simp [expectedStopped] at h2
  | finished id a e fin ho rel g h1 h2 _ hrel =>
    obtain ⟨x, x', hx, _⟩ := h1
    have hpres : s.hv.sh id ≠ .gone := by
      simp only [State.hv, absSend, hx, SendHalf.ofSend]; split <;> simp
    have hai := ka id (Or.inl hpres)
    have hrp : s'.hv.rp id = s.hv.rp id := (g.same_of_allocd hai).2 (by simp)
    refine drop g (fun k hk => ⟨by simpa using fun hh => hk hh.symm, by simp⟩) hai (fun hd => hpres hd.1) ?_ ?_ ?_ hrel
    · intro hog _; exact ⟨h2, by rw [hrp]; simpa using hog⟩
    · intro hog hd; have := hd.2; rw [hrp] at this; simp [this] at hog
    · intro hr hd; exact absurd (hu id hd hr) hpres
  | resetAcked id ho rel g h1 h2 hrel _ =>
    obtain ⟨c, hc⟩ := h1
    have hpres : s.hv.sh id ≠ .gone := by rw [hc]; simp
    have hai := ka id (Or.inl hpres)
    have hrp : s'.hv.rp id = s.hv.rp id := (g.same_of_allocd hai).2 (by simp)
    refine drop g (fun k hk => ⟨by simpa using fun hh => hk hh.symm, by simp⟩) hai (fun hd => hpres hd.1) ?_ ?_ ?_ hrel
    · intro hog _; exact ⟨h2, by rw [hrp]; simpa using hog⟩
    · intro hog hd; have := hd.2; rw [hrp] at this; simp [this] at hog
    · intro hr hd; exact absurd (hu id hd hr) hpres
  | recvFreed id ho rel g h1 h2 hrel _ =>
    have hai := ka id (Or.inr h1)
    have hsh : s'.hv.sh id = s.hv.sh id := (g.same_of_allocd hai).1 (by simp)
    refine drop g (fun k hk => ⟨by simp, by simpa using fun hh => hk hh.symm⟩) hai
      (fun hd => by rw [hd.2] at h1; cases h1) ?_ ?_ ?_ hrel
    · intro hog _; exact ⟨by rw [hsh]; simpa using hog, h2⟩
    · intro hog hd; have := hd.1; rw [hsh] at this; simp [this] at hog
    · intro hr hd; simpa using hu id hd hr

/-- every step of every history obeys the slot accounting -/
theorem run_slot {c : Config} {s0 s : State} {tr : List Step} (h0 : State.new c = some s0) (r : Run s0 tr s) :
    ∀ st ∈ tr, SlotStep st.pre st.post := by
  induction r with
  | nil => intro st hst; cases hst
  | snoc r' hs hr ih =>
    intro st hst
    rw [List.mem_append, List.mem_singleton] at hst
    rcases hst with hst | rfl
    · exact ih st hst
    · have i := run_hinv h0 r'
      exact slot_step i.ka i.uni (fx_step i.ka hs hr)

/-- `Run` from an arbitrary state that satisfies the key invariant -/
theorem run_keys {s1 s2 : State} {tr : List Step} (r : Run s1 tr s2) (ka : KeysAlloc s1) : KeysAlloc s2 := by
  induction r with
  | nil => exact ka
  | snoc _ hs hr ih => exact (fx_step ih hs hr).keysAlloc ih

/-- a dead stream stays dead: its slot is released once -/
theorem dead_forever {s1 s2 : State} {tr : List Step} (r : Run s1 tr s2) (ka : KeysAlloc s1) {id : Nat}
    (ha : s1.hv.allocd id) (hd : dead s1.hv id) : s2.hv.allocd id ∧ dead s2.hv id := by
  induction r with
  | nil => exact ⟨ha, hd⟩
  | snoc r' hs hr ih =>
    have f := fx_step (run_keys r' ka) hs hr
    exact ⟨f.allocd ih.1, f.gone ih.2.1 ih.1, f.rgone ih.2.2 ih.1⟩

/-! ### the reader's terminal outcome -/

theorem find_of_not_contains {α} {m : Map α} {id : Nat} (h : m.contains id = false) : m.find? id = none := by
  unfold Map.contains at h
  cases hf : m.find? id with
  | none => rfl
  | some v => rw [hf] at h; cases h

/-- every reader operation on a receiving half that is gone reports a closed stream -/
theorem reader_closed {s s' : State} {o : Op} {out : Out} {id : Nat} (h : step s o = some (s', out))
    (hg : s.hv.rp id = false)
    (ho : (∃ b, o = .read id b) ∨ (∃ c, o = .stop id c) ∨ o = .recvReset id) : out = .errClosed := by
  have hf : s.recv.find? id = none := find_of_not_contains hg
  rcases ho with ⟨b, rfl⟩ | ⟨c, rfl⟩ | rfl
  · unstep h
    obtain ⟨s1, r, h1, _, h3⟩ := h
    rw [read_closed hf] at h1
    simp only [Option.some.injEq, Prod.mk.injEq] at h1
    rw [← h3, ← h1.2]
  · unstep h
    obtain ⟨s1, b, h1, _, h3⟩ := h
    unfold State.stop State.getOrInsertRecv at h1
    simp only [hf, Option.some.injEq, Prod.mk.injEq] at h1
    rw [← h3, ← h1.2]; rfl
  · unstep h
    obtain ⟨s1, r, h1, _, h3⟩ := h
    unfold State.recvReceivedReset at h1
    simp only [hf, Option.some.injEq, Prod.mk.injEq] at h1
    rw [← h3, ← h1.2]

theorem readEnd_terminal {rs : Recv} {k b : Nat} {e : ReadEnd} {freed : Bool}
    (h : rs.readEnd k b = some (e, freed)) (ht : e = .fin ∨ ∃ c, e = .reset c) : freed = true := by
  unfold Recv.readEnd at h
  split at h
  · simp only [Option.some.injEq, Prod.mk.injEq] at h
    rcases ht with hh | ⟨c, hh⟩ <;> (rw [← h.1] at hh; contradiction)
  · split at h
    · split at h
      · simp only [Option.some.injEq, Prod.mk.injEq] at h; exact h.2.symm
      · contradiction
    · split at h
      · simp only [Option.some.injEq, Prod.mk.injEq] at h; exact h.2.symm
      · simp only [Option.some.injEq, Prod.mk.injEq] at h
        rcases ht with hh | ⟨c, hh⟩ <;> (rw [← h.1] at hh; contradiction)

/-- a read that ends with end-of-stream or with the reset code removes the receiving half -/
theorem read_terminal_gone {s s' : State} {id budget k : Nat} {e : ReadEnd} {t : Bool} (ka : KeysAlloc s)
    (h : s.read id budget = some (s', .ok k e t)) (ht : e = .fin ∨ ∃ c, e = .reset c) :
    s'.hv.rp id = false ∧ s.hv.rp id = true := by
  unfold State.read at h
  split at h
  · simp at h
  · rename_i rs s1 hg
    have f1 := hv_getOrInsertRecv hg
    obtain ⟨ha, hp⟩ := allocd_of_getOrInsertRecv ka hg
    refine ⟨?_, contains_of_getOrInsertRecv hg⟩
    split at h
    · simp at h
    · dsimp only at h
      split at h
      · contradiction
      · rename_i end_ freed hre
        split at h
        · contradiction
        · rename_i s3 hfree
          split at h
          · contradiction
          · rename_i s4 t0 hq
            split at h
            · contradiction
            · rename_i s5 t01 hfin
              split at h
              · contradiction
              · rename_i s6 t2 harc
                simp only [Option.some.injEq, Prod.mk.injEq, ReadRes.ok.injEq] at h
                obtain ⟨rfl, _, rfl, _⟩ := h
                have hfr := readEnd_terminal hre ht
                subst hfr
                have := hv_finalizeReadable_freed hfin
                subst this
                unfold State.freeIf at hfree
                simp only [↓reduceIte] at hfree
                obtain ⟨g0, _⟩ := site_recv ha hfree
                have f4 := hv_queueMaxStreamId hq
                have f6 := hv_addReadCredits harc
                have e6 : ({ s6 with rtx := { s6.rtx with maxData := s6.rtx.maxData || t2 } } : State).hv = s3.hv :=
                  f6.trans f4
                rw [e6]; exact g0

/-- `received_reset` that reports the code removes the receiving half -/
theorem recvReset_terminal_gone {s s' : State} {id c : Nat} (ka : KeysAlloc s)
    (h : s.recvReceivedReset id = some (s', some (some c))) : s'.hv.rp id = false ∧ s.hv.rp id = true := by
  unfold State.recvReceivedReset at h
  osplit h
  all_goals try (obtain ⟨_, h2⟩ := h; cases h2; done)
  obtain ⟨rfl, _⟩ := h
  have hx := ‹Map.find? s.recv id = some (some _)›
  have hp : s.recv.contains id = true := by simp only [Map.contains, hx]; rfl
  obtain ⟨g0, _⟩ := site_recv (ka id (Or.inr hp)) ‹State.streamRecvFreed _ _ = some _›
  have f3 := hv_queueMaxStreamId ‹State.queueMaxStreamId _ = some _›
  exact ⟨by rw [f3]; exact g0, hp⟩

/-- the step shows the reader its terminal outcome: end of stream, or the sender's reset code -/
def TerminalOutcome (st : Step) (id : Nat) : Prop :=
  (∃ b k t, st.op = .read id b ∧ (st.out = .read k .fin t ∨ ∃ c, st.out = .read k (.reset c) t)) ∨
  (st.op = .recvReset id ∧ ∃ c, st.out = .okOpt (some c))

def ReaderOp (st : Step) (id : Nat) : Prop :=
  (∃ b, st.op = .read id b) ∨ (∃ c, st.op = .stop id c) ∨ st.op = .recvReset id

theorem terminal_gone {s s' : State} {o : Op} {out : Out} {id : Nat} (ka : KeysAlloc s)
    (h : step s o = some (s', out)) (ht : TerminalOutcome ⟨s, o, out, s'⟩ id) :
    s'.hv.rp id = false ∧ s.hv.rp id = true := by
  rcases ht with ⟨b, k, t, ho, hout⟩ | ⟨ho, c, hout⟩
  · simp only at ho hout
    subst ho
    unstep h
    obtain ⟨s1, r, h1, rfl, h3⟩ := h
    cases r with
    | closedStream => rcases hout with hh | ⟨c, hh⟩ <;> (rw [hh] at h3; cases h3)
    | ok k' e' t' =>
      simp only at h3
      rcases hout with hh | ⟨c, hh⟩
      · rw [hh] at h3; cases h3
        exact read_terminal_gone ka h1 (Or.inl rfl)
      · rw [hh] at h3; cases h3
        exact read_terminal_gone ka h1 (Or.inr ⟨c, rfl⟩)
  · simp only at ho hout
    subst ho
    unstep h
    obtain ⟨s1, r, h1, rfl, h3⟩ := h
    rw [hout] at h3
    cases r with
    | none => cases h3
    | some o' =>
      simp only [Out.okOpt.injEq] at h3
      subst h3
      exact recvReset_terminal_gone ka h1

/-- after its terminal outcome every later reader operation on the stream reports a closed stream -/
theorem run_terminal {c : Config} {s0 s : State} {tr : List Step} (h0 : State.new c = some s0) (r : Run s0 tr s)
    {l1 l2 : List Step} {st : Step} {id : Nat} (htr : tr = l1 ++ st :: l2) (ht : TerminalOutcome st id) :
    (∀ st' ∈ l2, ReaderOp st' id → st'.out = .errClosed) ∧ s.hv.rp id = false ∧ s.hv.allocd id := by
  induction r generalizing l2 with
  | nil => cases l1 <;> cases htr
  | @snoc tr' s1 s2 o out r' hs hr ih =>
    have i := run_hinv h0 r'
    have f := fx_step i.ka hs hr
    rcases List.eq_nil_or_concat l2 with rfl | ⟨l2', st2, rfl⟩
    · -- the terminal step is the last one
      have e : tr' = l1 ∧ (⟨s1, o, out, s2⟩ : Step) = st := by
        have := List.append_inj' htr rfl
        exact ⟨this.1, by simpa using this.2⟩
      obtain ⟨rfl, rfl⟩ := e
      obtain ⟨a, b⟩ := terminal_gone i.ka hs ht
      exact ⟨(fun st' hst' => by cases hst'), a, f.allocd (i.ka id (Or.inr b))⟩
    · have e : tr' = l1 ++ st :: l2' ∧ (⟨s1, o, out, s2⟩ : Step) = st2 := by
        have : tr' ++ [(⟨s1, o, out, s2⟩ : Step)] = (l1 ++ st :: l2') ++ [st2] := by
          rw [htr]; simp
        have := List.append_inj' this rfl
        exact ⟨this.1, by simpa using this.2⟩
      obtain ⟨e1, rfl⟩ := e
      obtain ⟨a, b, c'⟩ := ih e1
      refine ⟨fun st' hst' hro => ?_, f.rgone b c', f.allocd c'⟩
      rw [List.concat_eq_append, List.mem_append, List.mem_singleton] at hst'
      rcases hst' with hst' | rfl
      · exact a st' hst' hro
      · exact reader_closed hs b hro

end QM.Streams
