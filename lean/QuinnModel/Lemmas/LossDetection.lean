import QuinnModel.Recovery.LossDetection
namespace QM.LossDetection

theorem natMax_eq (a b : Nat) : Nat.max a b = max a b := rfl

theorem lossDelay_ge (scaledRtt : Nat) : Gen.c12TimerGranularityNs ≤ lossDelay scaledRtt ∧ scaledRtt ≤ lossDelay scaledRtt := by
  simp only [lossDelay, Gen.lossDelayOf, natMax_eq]; omega

/-- exactly when a tracked packet is declared lost -/
theorem declaredLost_iff (now largest thr delay : Nat) (p : Nat × Nat) :
    declaredLost now largest thr delay p = true ↔
      p.1 < largest ∧ (delay ≤ now - p.2 ∨ p.1 + thr ≤ largest) := by
  simp only [declaredLost, Gen.lossCandidate, Gen.lossDecision, Gen.packetTooOld, Bool.and_eq_true, Bool.or_eq_true,
    decide_eq_true_eq, ge_iff_le]

/-- reordering by fewer than `packet_threshold` packets and by less than `loss_delay` is tolerated -/
theorem not_lost_within_thresholds (now largest thr delay : Nat) (p : Nat × Nat)
    (hp : largest < p.1 + thr) (ht : now - p.2 < delay) : declaredLost now largest thr delay p = false := by
  cases h : declaredLost now largest thr delay p with
  | false => rfl
  | true => have := (declaredLost_iff _ _ _ _ _).1 h; omega

theorem detect_nil_of_above (tracked : List (Nat × Nat)) (now largest thr scaledRtt : Nat)
    (h : ∀ p ∈ tracked, largest < p.1) : detect tracked now largest thr scaledRtt = [] := by
  unfold detect
  rw [List.map_eq_nil_iff, List.filter_eq_nil_iff]
  intro p hp hl
  have := (declaredLost_iff _ _ _ _ _).1 hl
  have := h p hp
  omega

/-- nothing below (or at) the largest acknowledged packet stays tracked; numbers in use are below `next` -/
structure Inv (s : S) : Prop where
  above : ∀ l, s.largest = some l → ∀ p ∈ s.tracked, l < p.1
  sent : ∀ l, s.largest = some l → l < s.next
  nolost : s.lost = []

theorem inv_init : Inv {} := ⟨fun _ h => (by cases h), fun _ h => (by cases h), rfl⟩

theorem step_inv (thr : Nat) (s : S) (e : Ev) (hi : Inv s) (hw : wf s e) : Inv (step thr s e) := by
  obtain ⟨ha, hs, hl⟩ := hi
  cases e with
  | send t pn =>
    simp only [wf] at hw
    refine ⟨?_, ?_, hl⟩
    · intro l hl' p hp
      simp only [step, List.mem_append, List.mem_singleton] at hp hl'
      rcases hp with hp | hp
      · exact ha l hl' p hp
      · have := hs l hl'; rw [hp]; show l < pn; omega
    · intro l hl'; simp only [step] at hl' ⊢; have := hs l hl'; omega
  | ack t k sr =>
    simp only [wf] at hw
    have habove : ∀ p ∈ s.tracked.filter (fun p => decide (p.1 > k)),
        (match s.largest with | some l => Nat.max l k | none => k) < p.1 := by
      intro p hp
      rw [List.mem_filter] at hp
      have hk : k < p.1 := by simpa using hp.2
      cases hL : s.largest with
      | none => exact hk
      | some l => have := ha l hL p hp.1; simp only [natMax_eq]; omega
    refine ⟨?_, ?_, ?_⟩
    · intro l hl' p hp
      simp only [step, Option.some.injEq] at hl' hp
      rw [← hl']; exact habove p hp
    · intro l hl'
      simp only [step, Option.some.injEq] at hl' ⊢
      rw [← hl']
      cases hL : s.largest with
      | none => exact hw
      | some l0 => have := hs l0 hL; simp only [natMax_eq]; omega
    · simp only [step]
      have hd := detect_nil_of_above (s.tracked.filter (fun p => decide (p.1 > k))) t _ thr sr habove
      rw [hl, List.nil_append]; exact hd
  | timer t sr =>
    cases hL : s.largest with
    | none =>
      have : step thr s (.timer t sr) = s := by simp only [step, hL]
      rw [this]; exact ⟨ha, hs, hl⟩
    | some l =>
      have : step thr s (.timer t sr) = { s with lost := s.lost ++ detect s.tracked t l thr sr } := by
        simp only [step, hL]
      rw [this]
      refine ⟨ha, hs, ?_⟩
      show s.lost ++ detect s.tracked t l thr sr = []
      rw [hl, detect_nil_of_above _ _ _ _ _ (ha l hL)]; rfl

theorem run_inv (thr : Nat) (evs : List Ev) (s : S) (hi : Inv s) (hw : WF thr s evs) : Inv (run thr s evs) := by
  induction evs generalizing s with
  | nil => exact hi
  | cons e t ih => exact ih (step thr s e) (step_inv thr s e hi hw.1) hw.2

end QM.LossDetection
