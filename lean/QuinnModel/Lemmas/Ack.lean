import QuinnModel.Wire.Ack
import QuinnModel.Lemmas.VarInt
/-
Proofs about the ACK frame model: `scan_ack_blocks` is bounded by its input, everything it accepts is iterated by
`AckIter` without any underflow into exactly `n + 1` descending, disjoint ranges, and `Ack::encode` round-trips.
-/
namespace QM.Ack
open QM

/-- `c` is a self-delimiting code of `v`: decoding consumes exactly `c`, whatever follows -/
def IsCode (v : Nat) (c : Bytes) : Prop := ∀ r, VarInt.decode (c ++ r) = some (v, r)

theorem IsCode.ne_nil {v : Nat} {c : Bytes} (h : IsCode v c) : c ≠ [] := by
  intro hc; subst hc
  have := h []
  simp [VarInt.decode] at this

/-- whatever the decoder accepts is a code followed by the remainder -/
theorem decode_code (bs : Bytes) (v : Nat) (r : Bytes) (hd : VarInt.decode bs = some (v, r)) :
    ∃ c, bs = c ++ r ∧ IsCode v c := by
  unfold VarInt.decode at hd
  match bs, hd with
  | b0 :: rest, hd =>
    simp only at hd
    split at hd
    · rename_i ht
      simp only [Option.some.injEq, Prod.mk.injEq] at hd
      obtain ⟨rfl, rfl⟩ := hd
      refine ⟨[b0], by simp, ?_⟩
      intro r'
      simp [VarInt.decode, ht]
    · split at hd
      · rename_i ht0 ht
        split at hd
        · simp at hd
        · rename_i hlen
          simp only [Option.some.injEq, Prod.mk.injEq] at hd
          obtain ⟨rfl, rfl⟩ := hd
          refine ⟨b0 :: rest.take 1, by rw [List.cons_append, List.take_append_drop], ?_⟩
          intro r'
          have hl : (rest.take 1).length = 1 := by rw [List.length_take]; omega
          have h1 : (List.take 1 rest ++ r').take 1 = List.take 1 rest := by
            rw [List.take_append_of_le_length (by omega), List.take_of_length_le (by omega)]
          have h2 : (List.take 1 rest ++ r').drop 1 = r' := by
            rw [List.drop_append_of_le_length (by omega), List.drop_eq_nil_of_le (by omega)]; rfl
          have h3 : ¬ ((List.take 1 rest ++ r').length < 1) := by rw [List.length_append, hl]; omega
          simp only [VarInt.decode, List.cons_append, ht, h3, h1, h2]; simp
      · split at hd
        · rename_i ht0 ht1 ht
          split at hd
          · simp at hd
          · rename_i hlen
            simp only [Option.some.injEq, Prod.mk.injEq] at hd
            obtain ⟨rfl, rfl⟩ := hd
            refine ⟨b0 :: rest.take 3, by rw [List.cons_append, List.take_append_drop], ?_⟩
            intro r'
            have hl : (rest.take 3).length = 3 := by rw [List.length_take]; omega
            have h1 : (List.take 3 rest ++ r').take 3 = List.take 3 rest := by
              rw [List.take_append_of_le_length (by omega), List.take_of_length_le (by omega)]
            have h2 : (List.take 3 rest ++ r').drop 3 = r' := by
              rw [List.drop_append_of_le_length (by omega), List.drop_eq_nil_of_le (by omega)]; rfl
            have h3 : ¬ ((List.take 3 rest ++ r').length < 3) := by rw [List.length_append, hl]; omega
            simp only [VarInt.decode, List.cons_append, ht, h3, h1, h2]; simp
        · rename_i ht0 ht1 ht2
          split at hd
          · simp at hd
          · rename_i hlen
            simp only [Option.some.injEq, Prod.mk.injEq] at hd
            obtain ⟨rfl, rfl⟩ := hd
            refine ⟨b0 :: rest.take 7, by rw [List.cons_append, List.take_append_drop], ?_⟩
            intro r'
            have hl : (rest.take 7).length = 7 := by rw [List.length_take]; omega
            have h1 : (List.take 7 rest ++ r').take 7 = List.take 7 rest := by
              rw [List.take_append_of_le_length (by omega), List.take_of_length_le (by omega)]
            have h2 : (List.take 7 rest ++ r').drop 7 = r' := by
              rw [List.drop_append_of_le_length (by omega), List.drop_eq_nil_of_le (by omega)]; rfl
            have h3 : ¬ ((List.take 7 rest ++ r').length < 7) := by rw [List.length_append, hl]; omega
            simp only [VarInt.decode, List.cons_append, ht0, ht1, ht2, h3, h1, h2]; simp

/-- the canonical encoding is a code -/
theorem encode_code (x : Nat) (h : x < 2^62) : ∃ e, VarInt.encode x = some e ∧ IsCode x e := by
  obtain ⟨e, he, _⟩ := VarInt.decode_encode x [] h
  refine ⟨e, he, ?_⟩
  intro r
  obtain ⟨e', he', hd⟩ := VarInt.decode_encode x r h
  rw [he] at he'
  simp only [Option.some.injEq] at he'
  subst he'
  exact hd

/-! ### the block list behind a byte string -/

/-- `d` is the concatenation of codes of gap₁, block₁, gap₂, block₂, … -/
def LayoutRest : List (Nat × Nat) → Bytes → Prop
  | [], d => d = []
  | (g, b) :: t, d => ∃ cg cb d', IsCode g cg ∧ IsCode b cb ∧ d = cg ++ (cb ++ d') ∧ LayoutRest t d'

/-- the arithmetic `scan_ack_blocks` checks, starting from `smallest` -/
def ValidRest : Nat → List (Nat × Nat) → Prop
  | _, [] => True
  | s, (g, b) :: t => g + 2 ≤ s ∧ b ≤ s - (g + 2) ∧ ValidRest (s - (g + 2) - b) t

/-- the ranges `AckIter` yields from `largest = L`, current block `b0` and the remaining (gap, block) pairs -/
def rangesFrom : Nat → Nat → List (Nat × Nat) → List (Nat × Nat)
  | L, b0, [] => [(L - b0, L)]
  | L, b0, (g, b) :: t => (L - b0, L) :: rangesFrom (L - b0 - (g + 2)) b t

theorem layoutRest_length : ∀ (gbs : List (Nat × Nat)) (d : Bytes), LayoutRest gbs d → 2 * gbs.length ≤ d.length := by
  intro gbs
  induction gbs with
  | nil => intro d _; simp
  | cons p t ih =>
    intro d h
    obtain ⟨g, b⟩ := p
    obtain ⟨cg, cb, d', hg, hb, rfl, ht⟩ := h
    have := ih d' ht
    have h1 : cg.length ≥ 1 := List.length_pos_iff.mpr hg.ne_nil
    have h2 : cb.length ≥ 1 := List.length_pos_iff.mpr hb.ne_nil
    simp only [List.length_cons, List.length_append]
    omega

/-- what the loop of `scan_ack_blocks` accepts is a laid-out block list satisfying the arithmetic -/
theorem scanLoop_layout : ∀ (n : Nat) (buf : Bytes) (s : Nat) (rest : Bytes), scanLoop n buf s = .ok rest →
    ∃ gbs pre, gbs.length = n ∧ buf = pre ++ rest ∧ LayoutRest gbs pre ∧ ValidRest s gbs := by
  intro n
  induction n with
  | zero =>
    intro buf s rest h
    simp only [scanLoop, Except.ok.injEq] at h
    exact ⟨[], [], rfl, by simp [h], rfl, trivial⟩
  | succ n ih =>
    intro buf s rest h
    unfold scanLoop at h
    cases hd1 : VarInt.decode buf with
    | none => rw [hd1] at h; simp at h
    | some p1 =>
      obtain ⟨gap, buf1⟩ := p1
      rw [hd1] at h
      simp only [Gen.ackGapBias] at h
      by_cases hs1 : s < gap + 2
      · simp [hs1] at h
      · simp only [hs1, if_false] at h
        cases hd2 : VarInt.decode buf1 with
        | none => rw [hd2] at h; simp at h
        | some p2 =>
          obtain ⟨block, buf2⟩ := p2
          rw [hd2] at h
          simp only at h
          by_cases hs2 : s - (gap + 2) < block
          · simp [hs2] at h
          · simp only [hs2, if_false] at h
            obtain ⟨gbs, pre, hl, hb, hlay, hval⟩ := ih buf2 _ rest h
            obtain ⟨cg, hcg, hig⟩ := decode_code buf gap buf1 hd1
            obtain ⟨cb, hcb, hib⟩ := decode_code buf1 block buf2 hd2
            refine ⟨(gap, block) :: gbs, cg ++ (cb ++ pre), by simp [hl], ?_, ?_, ?_⟩
            · rw [hcg, hcb, hb]; simp
            · exact ⟨cg, cb, pre, hig, hib, rfl, hlay⟩
            · exact ⟨by omega, by omega, hval⟩

/-- conversely a laid-out block list satisfying the arithmetic is accepted, consuming exactly its bytes -/
theorem scanLoop_of_layout : ∀ (gbs : List (Nat × Nat)) (pre : Bytes) (s : Nat) (rest : Bytes),
    LayoutRest gbs pre → ValidRest s gbs → scanLoop gbs.length (pre ++ rest) s = .ok rest := by
  intro gbs
  induction gbs with
  | nil => intro pre s rest h _; simp only [LayoutRest] at h; subst h; rfl
  | cons p t ih =>
    intro pre s rest h hv
    obtain ⟨g, b⟩ := p
    obtain ⟨cg, cb, d', hg, hb, rfl, ht⟩ := h
    obtain ⟨v1, v2, v3⟩ := hv
    simp only [List.length_cons, scanLoop, Gen.ackGapBias]
    have e1 : cg ++ (cb ++ d') ++ rest = cg ++ (cb ++ (d' ++ rest)) := by simp
    rw [e1, hg]
    simp only [show ¬ s < g + 2 by omega, if_false]
    rw [hb]
    simp only [show ¬ s - (g + 2) < b by omega, if_false]
    exact ih d' _ rest ht v3

theorem iterNext_last (L b0 : Nat) (c0 : Bytes) (hc : IsCode b0 c0) (hb : b0 ≤ L) :
    iterNext L (c0 ++ []) = .item (L - b0) L L [] := by
  unfold iterNext
  have hne : (c0 ++ []).isEmpty = false := by
    have := hc.ne_nil
    cases c0 with
    | nil => exact absurd rfl this
    | cons a t => rfl
  simp only [hne, Bool.false_eq_true, if_false]
  rw [hc []]
  simp only [getVar, VarInt.decode, List.drop_nil, show ¬ L < b0 by omega, if_false]

theorem iterNext_more (L b0 g : Nat) (c0 cg d : Bytes) (hc : IsCode b0 c0) (hg : IsCode g cg)
    (h : b0 + g + 2 ≤ L) :
    iterNext L (c0 ++ (cg ++ d)) = .item (L - b0) L (L - (b0 + g + 2)) d := by
  unfold iterNext
  have hne : (c0 ++ (cg ++ d)).isEmpty = false := by
    have := hc.ne_nil
    cases c0 with
    | nil => exact absurd rfl this
    | cons a t => rfl
  simp only [hne, Bool.false_eq_true, if_false]
  rw [hc (cg ++ d)]
  simp only [getVar, hg d, Gen.ackGapBias, show ¬ L < b0 + g + 2 by omega, show ¬ L < b0 by omega, if_false]

/-- `AckIter` over a laid-out block list satisfying the arithmetic never underflows and yields `rangesFrom` -/
theorem iterAll_layout : ∀ (gbs : List (Nat × Nat)) (d : Bytes) (L b0 : Nat) (c0 : Bytes) (fuel : Nat),
    LayoutRest gbs d → IsCode b0 c0 → b0 ≤ L → ValidRest (L - b0) gbs → gbs.length + 2 ≤ fuel →
    iterAll fuel L (c0 ++ d) = some (rangesFrom L b0 gbs) := by
  intro gbs
  induction gbs with
  | nil =>
    intro d L b0 c0 fuel hl hc hb _ hf
    simp only [LayoutRest] at hl
    subst hl
    match fuel, hf with
    | f + 2, _ =>
      simp only [iterAll, iterNext_last L b0 c0 hc hb, rangesFrom]
      simp [iterNext]
  | cons p t ih =>
    intro d L b0 c0 fuel hl hc hb hv hf
    obtain ⟨g, b⟩ := p
    obtain ⟨cg, cb, d', hg, hcb, rfl, ht⟩ := hl
    obtain ⟨v1, v2, v3⟩ := hv
    match fuel, hf with
    | f + 1, hf =>
      simp only [List.length_cons] at hf
      simp only [iterAll, iterNext_more L b0 g c0 cg (cb ++ d') hc hg (by omega), rangesFrom]
      have e : L - (b0 + g + 2) = L - b0 - (g + 2) := by omega
      rw [e, ih d' (L - b0 - (g + 2)) b cb f ht hcb v2 v3 (by omega)]

/-- descending and disjoint with at least one missing number between consecutive ranges -/
def Chain : List (Nat × Nat) → Prop
  | [] => True
  | (lo, hi) :: t => lo ≤ hi ∧ (∀ r ∈ t, r.2 + 2 ≤ lo) ∧ Chain t

theorem rangesFrom_le : ∀ (gbs : List (Nat × Nat)) (L b0 : Nat), b0 ≤ L → ValidRest (L - b0) gbs →
    ∀ r ∈ rangesFrom L b0 gbs, r.2 ≤ L := by
  intro gbs
  induction gbs with
  | nil => intro L b0 _ _ r hr; simp only [rangesFrom, List.mem_singleton] at hr; subst hr; exact Nat.le_refl _
  | cons p t ih =>
    intro L b0 hb hv r hr
    obtain ⟨g, b⟩ := p
    obtain ⟨v1, v2, v3⟩ := hv
    simp only [rangesFrom, List.mem_cons] at hr
    rcases hr with rfl | hr
    · exact Nat.le_refl _
    · have := ih (L - b0 - (g + 2)) b v2 v3 r hr
      omega

theorem rangesFrom_chain : ∀ (gbs : List (Nat × Nat)) (L b0 : Nat), b0 ≤ L → ValidRest (L - b0) gbs →
    Chain (rangesFrom L b0 gbs) ∧ (rangesFrom L b0 gbs).length = gbs.length + 1 ∧
    (rangesFrom L b0 gbs).head? = some (L - b0, L) := by
  intro gbs
  induction gbs with
  | nil => intro L b0 hb _; exact ⟨⟨by omega, by simp, trivial⟩, rfl, rfl⟩
  | cons p t ih =>
    intro L b0 hb hv
    obtain ⟨g, b⟩ := p
    obtain ⟨v1, v2, v3⟩ := hv
    obtain ⟨c, l, _⟩ := ih (L - b0 - (g + 2)) b v2 v3
    refine ⟨⟨by omega, ?_, c⟩, by simp [rangesFrom, l], rfl⟩
    intro r hr
    have := rangesFrom_le t (L - b0 - (g + 2)) b v2 v3 r hr
    omega


/-! ### `scan_ack_blocks` accepts ⇒ `AckIter` is safe -/

/-- everything `scan_ack_blocks` accepts: the count of consumed bytes is within the buffer and at least
    `2n + 1`; iterating the consumed prefix never underflows and yields exactly `n + 1` ranges, descending and
    disjoint, the first ending at `largest` -/
theorem scanAckBlocks_spec (buf : Bytes) (largest n k : Nat) (h : scanAckBlocks buf largest n = .ok k) :
    k ≤ buf.length ∧ 2 * n + 1 ≤ k ∧
    ∃ ranges, iterAll (k + 1) largest (buf.take k) = some ranges ∧ ranges.length = n + 1 ∧ Chain ranges ∧
      ranges.head?.map (·.2) = some largest := by
  unfold scanAckBlocks at h
  cases hd : VarInt.decode buf with
  | none => rw [hd] at h; simp at h
  | some p =>
    obtain ⟨first, buf1⟩ := p
    rw [hd] at h
    simp only at h
    by_cases hf : largest < first
    · simp [hf] at h
    · simp only [hf, if_false] at h
      cases hs : scanLoop n buf1 (largest - first) with
      | error e => rw [hs] at h; simp at h
      | ok rest =>
        rw [hs] at h
        simp only [Except.ok.injEq] at h
        obtain ⟨c0, hb, hc⟩ := decode_code buf first buf1 hd
        obtain ⟨gbs, pre, hl, hb1, hlay, hval⟩ := scanLoop_layout n buf1 _ rest hs
        have hc0 : c0.length ≥ 1 := List.length_pos_iff.mpr hc.ne_nil
        have hpre := layoutRest_length gbs pre hlay
        have hk : k = (c0 ++ pre).length := by
          rw [← h, hb, hb1]; simp only [List.length_append]; omega
        have htake : buf.take k = c0 ++ pre := by
          rw [hk, hb, hb1, ← List.append_assoc]
          exact List.take_left' rfl
        have hfirst : first ≤ largest := by omega
        obtain ⟨hchain, hlen, hhead⟩ := rangesFrom_chain gbs largest first hfirst hval
        refine ⟨?_, ?_, rangesFrom largest first gbs, ?_, by rw [hlen, hl], hchain, by rw [hhead]; rfl⟩
        · rw [hk, hb, hb1]; simp only [List.length_append]; omega
        · rw [hk]; simp only [List.length_append]; omega
        · rw [htake]
          apply iterAll_layout gbs pre largest first c0 (k + 1) hlay hc hfirst hval
          rw [hk]; simp only [List.length_append]; omega

/-- more blocks than bytes can hold are never accepted: the loop ends within the input -/
theorem scanAckBlocks_bounded_iterations (buf : Bytes) (largest n : Nat) (hn : buf.length < 2 * n + 1) :
    ∃ e, scanAckBlocks buf largest n = .error e := by
  cases h : scanAckBlocks buf largest n with
  | error e => exact ⟨e, rfl⟩
  | ok k =>
    have := scanAckBlocks_spec buf largest n k h
    omega

theorem decode_rest_le (bs : Bytes) (v : Nat) (r : Bytes) (h : VarInt.decode bs = some (v, r)) :
    r.length < bs.length := by
  obtain ⟨c, hb, hc⟩ := decode_code bs v r h
  have : c.length ≥ 1 := List.length_pos_iff.mpr hc.ne_nil
  rw [hb]; simp only [List.length_append]; omega

/-- the ACK arm of `Iter::try_next`: whenever it produces a frame, the unread rest is a proper part of the input
    and iterating the frame (`Ack::iter`) never underflows, yielding `extra_blocks + 1 ≥ 1` descending disjoint
    ranges whose first ends at `largest` -/
theorem decodeAckBody_spec (ty : Nat) (bs : Bytes) (f : AckFrame) (rest : Bytes)
    (h : decodeAckBody ty bs = .ok (f, rest)) :
    rest.length < bs.length ∧
    ∃ ranges, iterAll (f.additional.length + 1) f.largest f.additional = some ranges ∧ Chain ranges ∧
      ranges.head?.map (·.2) = some f.largest ∧ 1 ≤ ranges.length := by
  unfold decodeAckBody at h
  cases h1 : VarInt.decode bs with
  | none => rw [h1] at h; simp at h
  | some p1 =>
  obtain ⟨largest, b1⟩ := p1
  rw [h1] at h
  simp only at h
  cases h2 : VarInt.decode b1 with
  | none => rw [h2] at h; simp at h
  | some p2 =>
  obtain ⟨delay, b2⟩ := p2
  rw [h2] at h
  simp only at h
  cases h3 : VarInt.decode b2 with
  | none => rw [h3] at h; simp at h
  | some p3 =>
  obtain ⟨extra, b3⟩ := p3
  rw [h3] at h
  simp only at h
  cases hs : scanAckBlocks b3 largest extra with
  | error e => rw [hs] at h; simp at h
  | ok n =>
  rw [hs] at h
  simp only at h
  have l1 := decode_rest_le _ _ _ h1
  have l2 := decode_rest_le _ _ _ h2
  have l3 := decode_rest_le _ _ _ h3
  obtain ⟨hk, hk2, ranges, hit, hlen, hch, hhd⟩ := scanAckBlocks_spec b3 largest extra n hs
  have htl : (b3.take n).length = n := by rw [List.length_take]; omega
  have hdl : (b3.drop n).length ≤ b3.length := by rw [List.length_drop]; omega
  have key : ∀ ecn, ∃ ranges, iterAll ((⟨largest, delay, b3.take n, ecn⟩ : AckFrame).additional.length + 1)
      (⟨largest, delay, b3.take n, ecn⟩ : AckFrame).largest (⟨largest, delay, b3.take n, ecn⟩ : AckFrame).additional
        = some ranges ∧ Chain ranges ∧
      ranges.head?.map (·.2) = some (⟨largest, delay, b3.take n, ecn⟩ : AckFrame).largest ∧ 1 ≤ ranges.length := by
    intro ecn
    refine ⟨ranges, ?_, hch, hhd, by omega⟩
    simp only [htl]; exact hit
  by_cases hty : ty ≠ Gen.frameTypeAckEcn
  · rw [if_pos hty] at h
    simp only [Except.ok.injEq, Prod.mk.injEq] at h
    obtain ⟨rfl, rfl⟩ := h
    exact ⟨by omega, key none⟩
  · rw [if_neg hty] at h
    cases h4 : VarInt.decode (b3.drop n) with
    | none => rw [h4] at h; simp at h
    | some p4 =>
    obtain ⟨e0, b5⟩ := p4
    rw [h4] at h
    simp only at h
    cases h5 : VarInt.decode b5 with
    | none => rw [h5] at h; simp at h
    | some p5 =>
    obtain ⟨e1, b6⟩ := p5
    rw [h5] at h
    simp only at h
    cases h6 : VarInt.decode b6 with
    | none => rw [h6] at h; simp at h
    | some p6 =>
    obtain ⟨e2, b7⟩ := p6
    rw [h6] at h
    simp only [Except.ok.injEq, Prod.mk.injEq] at h
    obtain ⟨rfl, rfl⟩ := h
    have l4 := decode_rest_le _ _ _ h4
    have l5 := decode_rest_le _ _ _ h5
    have l6 := decode_rest_le _ _ _ h6
    exact ⟨by omega, key _⟩


/-! ### `Ack::encode` round trip -/

/-- descending half-open ranges strictly below `prev`, each non-empty and not adjacent to its predecessor
    (what `ArrayRangeSet::iter().rev()` yields after a range starting at `prev`) -/
def CanonDesc : Nat → List (Nat × Nat) → Prop
  | _, [] => True
  | prev, (s, e) :: t => s < e ∧ e < prev ∧ CanonDesc s t

/-- the (gap, block) values `Ack::encode` writes for the ranges after the first -/
def gbsOf : Nat → List (Nat × Nat) → List (Nat × Nat)
  | _, [] => []
  | prev, (s, e) :: t => (prev - e - 1, e - s - 1) :: gbsOf s t

theorem writeVar_code (x : Nat) (h : x < 2^62) : ∃ e, writeVar x = some e ∧ IsCode x e := by
  obtain ⟨e, he, hc⟩ := encode_code x h
  refine ⟨e, ?_, hc⟩
  unfold writeVar VarInt.fromU64
  simp only [Gen.varintFromU64Bound, h, if_true, he]

theorem canonDesc_length : ∀ (rest : List (Nat × Nat)) (prev : Nat), CanonDesc prev rest → rest.length ≤ prev := by
  intro rest
  induction rest with
  | nil => intro prev _; simp
  | cons p t ih =>
    intro prev h
    obtain ⟨s, e⟩ := p
    obtain ⟨h1, h2, h3⟩ := h
    have := ih s h3
    simp only [List.length_cons]; omega

theorem encodeRest_layout : ∀ (rest : List (Nat × Nat)) (prev : Nat), CanonDesc prev rest → prev < 2^62 →
    ∃ bytes, encodeRest prev rest = some bytes ∧ LayoutRest (gbsOf prev rest) bytes := by
  intro rest
  induction rest with
  | nil => intro prev _ _; exact ⟨[], rfl, rfl⟩
  | cons p t ih =>
    intro prev h hp
    obtain ⟨s, e⟩ := p
    obtain ⟨h1, h2, h3⟩ := h
    obtain ⟨cg, hcg, hig⟩ := writeVar_code (prev - e - 1) (by omega)
    obtain ⟨cb, hcb, hib⟩ := writeVar_code (e - s - 1) (by omega)
    obtain ⟨r, hr, hlr⟩ := ih s h3 (by omega)
    refine ⟨cg ++ cb ++ r, ?_, cg, cb, r, hig, hib, by simp, hlr⟩
    simp only [encodeRest, show ¬ e < s by omega, show ¬ prev < e by omega, show ¬ prev - e < 1 by omega,
      show ¬ e - s < 1 by omega, if_false, hcg, hcb, hr]

theorem gbsOf_valid : ∀ (rest : List (Nat × Nat)) (prev : Nat), CanonDesc prev rest → ValidRest prev (gbsOf prev rest) := by
  intro rest
  induction rest with
  | nil => intro prev _; trivial
  | cons p t ih =>
    intro prev h
    obtain ⟨s, e⟩ := p
    obtain ⟨h1, h2, h3⟩ := h
    refine ⟨by omega, by omega, ?_⟩
    have : prev - (prev - e - 1 + 2) - (e - s - 1) = s := by omega
    rw [this]
    exact ih s h3

theorem gbsOf_length : ∀ (rest : List (Nat × Nat)) (prev : Nat), (gbsOf prev rest).length = rest.length := by
  intro rest
  induction rest with
  | nil => intro _; rfl
  | cons p t ih => intro prev; obtain ⟨s, e⟩ := p; simp [gbsOf, ih]

theorem rangesFrom_gbsOf : ∀ (t : List (Nat × Nat)) (s e : Nat), s < e → CanonDesc s t →
    rangesFrom (e - 1) (e - s - 1) (gbsOf s t) = (s, e - 1) :: t.map (fun r => (r.1, r.2 - 1)) := by
  intro t
  induction t with
  | nil =>
    intro s e h _
    simp only [gbsOf, rangesFrom, List.map_nil]
    congr 2; omega
  | cons p t ih =>
    intro s e h hc
    obtain ⟨s', e'⟩ := p
    obtain ⟨h1, h2, h3⟩ := hc
    simp only [gbsOf, rangesFrom, List.map_cons]
    have e1 : e - 1 - (e - s - 1) = s := by omega
    have e2 : s - (s - e' - 1 + 2) = e' - 1 := by omega
    rw [e1, e2, ih s' e' h1 h3]

theorem writeVar_type (isEcn : Bool) :
    writeVar (if isEcn then Gen.frameTypeAckEcn else Gen.frameTypeAck) =
      some [if isEcn then Gen.frameTypeAckEcn else Gen.frameTypeAck] := by
  cases isEcn <;> decide

theorem decode_type (isEcn : Bool) (r : Bytes) :
    VarInt.decode ((if isEcn then Gen.frameTypeAckEcn else Gen.frameTypeAck) :: r) =
      some ((if isEcn then Gen.frameTypeAckEcn else Gen.frameTypeAck), r) := by
  cases isEcn <;> simp [VarInt.decode, Gen.frameTypeAck, Gen.frameTypeAckEcn]

/-- `Ack::encode` of the ranges `(s, e) :: rest` (descending, half-open, canonical) never panics, and decoding its
    output followed by any `tail` returns the same `largest`, `delay`, ECN counts and — through `AckIter` —
    exactly the ranges, leaving `tail` unread -/
theorem encode_decode (delay : Nat) (asc : List (Nat × Nat)) (ecn : Option (Nat × Nat × Nat)) (tail : Bytes)
    (s e : Nat) (rest : List (Nat × Nat)) (hrev : asc.reverse = (s, e) :: rest) (hse : s < e) (he : e ≤ 2^62)
    (hc : CanonDesc s rest) (hd : delay < 2^62)
    (hecn : ∀ a b c, ecn = some (a, b, c) → a < 2^62 ∧ b < 2^62 ∧ c < 2^62) :
    ∃ bytes f, encode delay asc ecn = some bytes ∧ decodeAck (bytes ++ tail) = some (.ok (f, tail)) ∧
      f.largest = e - 1 ∧ f.delay = delay ∧ f.ecn = ecn ∧
      f.ranges = some ((s, e - 1) :: rest.map (fun r => (r.1, r.2 - 1))) := by
  have hlen : asc.length = rest.length + 1 := by
    have := congrArg List.length hrev
    simpa using this
  have hrl := canonDesc_length rest s hc
  obtain ⟨cl, hcl, hil⟩ := writeVar_code (e - 1) (by omega)
  obtain ⟨cd, hcd, hid⟩ := writeVar_code delay hd
  obtain ⟨cn, hcn, hin⟩ := writeVar_code (asc.length - 1) (by omega)
  obtain ⟨cf, hcf, hif⟩ := writeVar_code (e - s - 1) (by omega)
  obtain ⟨cr, hcr, hlay⟩ := encodeRest_layout rest s hc (by omega)
  have hval := gbsOf_valid rest s hc
  have hgl := gbsOf_length rest s
  have hsmall : e - 1 - (e - s - 1) = s := by omega
  -- scanning cf ++ cr ++ X
  have hscan : ∀ X, scanAckBlocks (cf ++ (cr ++ X)) (e - 1) (asc.length - 1) = .ok (cf ++ cr).length := by
    intro X
    unfold scanAckBlocks
    rw [hif (cr ++ X)]
    simp only [show ¬ e - 1 < e - s - 1 by omega, if_false, hsmall]
    have hn : asc.length - 1 = (gbsOf s rest).length := by rw [hgl]; omega
    rw [hn, scanLoop_of_layout (gbsOf s rest) cr s X hlay hval]
    simp only [List.length_append, Except.ok.injEq]; omega
  have htake : ∀ X, (cf ++ (cr ++ X)).take (cf ++ cr).length = cf ++ cr := by
    intro X; rw [← List.append_assoc]; exact List.take_left' rfl
  have hdrop : ∀ X, (cf ++ (cr ++ X)).drop (cf ++ cr).length = X := by
    intro X; rw [← List.append_assoc]; exact List.drop_left' rfl
  have hranges : iterAll ((cf ++ cr).length + 1) (e - 1) (cf ++ cr) =
      some ((s, e - 1) :: rest.map (fun r => (r.1, r.2 - 1))) := by
    rw [iterAll_layout (gbsOf s rest) cr (e - 1) (e - s - 1) cf _ hlay hif (by omega) (by rw [hsmall]; exact hval)]
    · rw [rangesFrom_gbsOf rest s e hse hc]
    · have := layoutRest_length _ _ hlay
      have : cf.length ≥ 1 := List.length_pos_iff.mpr hif.ne_nil
      simp only [List.length_append]; omega
  cases hE : ecn with
  | none =>
    refine ⟨[Gen.frameTypeAck] ++ cl ++ cd ++ cn ++ cf ++ cr, ⟨e - 1, delay, cf ++ cr, none⟩, ?_, ?_, rfl, rfl, rfl, ?_⟩
    · unfold encode
      rw [hrev]
      simp only [show ¬ e < 1 by omega, show ¬ e < s by omega, show ¬ e - s < 1 by omega, if_false,
        Option.isSome_none, Bool.false_eq_true]
      have := writeVar_type false
      simp only [Bool.false_eq_true, if_false] at this
      rw [this, hcl, hcd, hcn, hcf, hcr]
    · unfold decodeAck
      have e0 : [Gen.frameTypeAck] ++ cl ++ cd ++ cn ++ cf ++ cr ++ tail =
          Gen.frameTypeAck :: (cl ++ (cd ++ (cn ++ (cf ++ (cr ++ tail))))) := by simp
      have hdt := decode_type false (cl ++ (cd ++ (cn ++ (cf ++ (cr ++ tail)))))
      simp only [Bool.false_eq_true, if_false] at hdt
      rw [e0, hdt]
      simp only [true_or, if_true, decodeAckBody, hil _, hid _, hin _, hscan tail, htake, hdrop]
      have : Gen.frameTypeAck ≠ Gen.frameTypeAckEcn := by decide
      simp only [this, ne_eq, not_false_eq_true, if_true]
    · exact hranges
  | some t =>
    obtain ⟨a, b, c⟩ := t
    obtain ⟨ha, hb, hcc⟩ := hecn a b c hE
    obtain ⟨ca, hca, hia⟩ := writeVar_code a ha
    obtain ⟨cb, hcb, hib⟩ := writeVar_code b hb
    obtain ⟨cc, hccc, hic⟩ := writeVar_code c hcc
    refine ⟨[Gen.frameTypeAckEcn] ++ cl ++ cd ++ cn ++ cf ++ cr ++ ca ++ cb ++ cc,
      ⟨e - 1, delay, cf ++ cr, some (a, b, c)⟩, ?_, ?_, rfl, rfl, rfl, ?_⟩
    · unfold encode
      rw [hrev]
      simp only [show ¬ e < 1 by omega, show ¬ e < s by omega, show ¬ e - s < 1 by omega, if_false,
        Option.isSome_some, if_true]
      have := writeVar_type true
      simp only [if_true] at this
      rw [this, hcl, hcd, hcn, hcf, hcr]
      simp only [hca, hcb, hccc]
    · unfold decodeAck
      have e0 : [Gen.frameTypeAckEcn] ++ cl ++ cd ++ cn ++ cf ++ cr ++ ca ++ cb ++ cc ++ tail =
          Gen.frameTypeAckEcn :: (cl ++ (cd ++ (cn ++ (cf ++ (cr ++ (ca ++ (cb ++ (cc ++ tail)))))))) := by simp
      have hdt := decode_type true (cl ++ (cd ++ (cn ++ (cf ++ (cr ++ (ca ++ (cb ++ (cc ++ tail))))))))
      simp only [if_true] at hdt
      rw [e0, hdt]
      simp only [or_true, if_true, decodeAckBody, hil _, hid _, hin _, hscan _, htake, hdrop, ne_eq,
        not_true_eq_false, if_false, hia _, hib _, hic _]
    · exact hranges


/-! ### the round trip stated on what `AckIter` yields: descending inclusive ranges -/

/-- content of the `ArrayRangeSet` (ascending, half-open) holding the descending inclusive ranges `ds` -/
def toRangeSet (ds : List (Nat × Nat)) : List (Nat × Nat) := (ds.map (fun r => (r.1, r.2 + 1))).reverse

theorem chain_canon : ∀ (t : List (Nat × Nat)) (lo : Nat), Chain t → (∀ r ∈ t, r.2 + 2 ≤ lo) →
    CanonDesc lo (t.map (fun r => (r.1, r.2 + 1))) := by
  intro t
  induction t with
  | nil => intro lo _ _; trivial
  | cons p t ih =>
    intro lo hc hb
    obtain ⟨lo', hi'⟩ := p
    obtain ⟨c1, c2, c3⟩ := hc
    have := hb (lo', hi') (by simp)
    simp only at this
    exact ⟨by show lo' < hi' + 1; omega, by show hi' + 1 < lo; omega, ih lo' c3 c2⟩

theorem roundtrip_desc (ds : List (Nat × Nat)) (lo hi : Nat) (t : List (Nat × Nat)) (hds : ds = (lo, hi) :: t)
    (hch : Chain ds) (hmax : hi < 2^62) (delay : Nat) (hd : delay < 2^62) (ecn : Option (Nat × Nat × Nat))
    (hecn : ∀ a b c, ecn = some (a, b, c) → a < 2^62 ∧ b < 2^62 ∧ c < 2^62) (tail : Bytes) :
    ∃ bytes f, encode delay (toRangeSet ds) ecn = some bytes ∧ decodeAck (bytes ++ tail) = some (.ok (f, tail)) ∧
      f.largest = hi ∧ f.delay = delay ∧ f.ecn = ecn ∧ f.ranges = some ds := by
  subst hds
  obtain ⟨c1, c2, c3⟩ := hch
  have hrev : (toRangeSet ((lo, hi) :: t)).reverse = (lo, hi + 1) :: t.map (fun r => (r.1, r.2 + 1)) := by
    simp [toRangeSet]
  obtain ⟨bytes, f, h1, h2, h3, h4, h5, h6⟩ := encode_decode delay (toRangeSet ((lo, hi) :: t)) ecn tail lo (hi + 1)
    (t.map (fun r => (r.1, r.2 + 1))) hrev (by omega) (by omega) (chain_canon t lo c3 c2) hd hecn
  refine ⟨bytes, f, h1, h2, by rw [h3]; omega, h4, h5, ?_⟩
  rw [h6]
  have : List.map (fun r => (r.1, r.2 - 1)) (List.map (fun r => (r.1, r.2 + 1)) t) = t := by
    rw [List.map_map]
    have : ((fun r : Nat × Nat => (r.1, r.2 - 1)) ∘ (fun r : Nat × Nat => (r.1, r.2 + 1))) = id := by
      funext r; simp
    rw [this]; simp
  rw [this]
  simp

end QM.Ack
