import QuinnModel.Async.Wake
/-
Proofs about the wake protocol model (C18): one invariant over all interleavings, and its consequences.
-/
namespace QM.Wake

variable (slot : Cond → Bool)

/-! ### registration bookkeeping of `wakeCond` / `wakeConds` -/

theorem reg_iff (s : St) (c : Cond) (t : Task) : s.reg c t = true ↔ (c, t) ∈ s.regs := by
  simp [St.reg]

theorem wakeConds_regs (cs : List Cond) : ∀ (s : St) (r : Cond × Task),
    r ∈ (s.wakeConds cs).regs ↔ r ∈ s.regs ∧ r.1 ∉ cs := by
  induction cs with
  | nil => intro s r; simp [St.wakeConds]
  | cons c cs ih =>
    intro s r
    simp only [St.wakeConds, ih, St.wakeCond, List.mem_filter, bne_iff_ne, ne_eq, List.mem_cons, not_or]
    constructor
    · rintro ⟨⟨h1, h2⟩, h3⟩; exact ⟨h1, h2, h3⟩
    · rintro ⟨h1, h2, h3⟩; exact ⟨⟨h1, h2⟩, h3⟩

theorem wakeConds_woken_mono (cs : List Cond) : ∀ (s : St) (t : Task),
    s.woken t = true → (s.wakeConds cs).woken t = true := by
  induction cs with
  | nil => intro s t h; simpa [St.wakeConds] using h
  | cons c cs ih =>
    intro s t h
    simp only [St.wakeConds]
    apply ih
    simp [St.wakeCond, h]

theorem wakeConds_woken_of_reg (cs : List Cond) : ∀ (s : St) (c : Cond) (t : Task),
    (c, t) ∈ s.regs → c ∈ cs → (s.wakeConds cs).woken t = true := by
  induction cs with
  | nil => intro s c t _ h; simp at h
  | cons c0 cs ih =>
    intro s c t hr hc
    simp only [St.wakeConds]
    by_cases h : c = c0
    · subst h
      apply wakeConds_woken_mono
      simp [St.wakeCond, (reg_iff s c t).2 hr]
    · have hc' : c ∈ cs := by
        rcases List.mem_cons.1 hc with h' | h'
        · exact absurd h' h
        · exact h'
      apply ih _ c t _ hc'
      simp [St.wakeCond, List.mem_filter, hr, h]

theorem wakeConds_same (cs : List Cond) : ∀ (s : St),
    (s.wakeConds cs).holds = s.holds ∧ (s.wakeConds cs).dead = s.dead ∧ (s.wakeConds cs).waiting = s.waiting := by
  induction cs with
  | nil => intro s; simp [St.wakeConds]
  | cons c cs ih =>
    intro s
    simp only [St.wakeConds]
    have := ih (s.wakeCond c)
    simpa [St.wakeCond] using this

theorem wakeConds_left (cs : List Cond) : ∀ (s : St) (t : Task) (c : Cond),
    (s.wakeConds cs).left t c = true ↔ s.left t c = true ∧ c ∉ cs := by
  induction cs with
  | nil => intro s t c; simp [St.wakeConds]
  | cons c0 cs ih =>
    intro s t c
    simp only [St.wakeConds, ih, St.wakeCond, List.mem_cons, not_or]
    by_cases h : c = c0
    · simp [h]
    · simp [h]

/-! ### the invariant -/

structure Inv (s : St) : Prop where
  /-- a task whose last poll returned Pending is either still registered or has been woken since -/
  pendingCovered : ∀ t c, s.waiting t = some c → s.woken t = true ∨ (c, t) ∈ s.regs
  /-- every registration belongs to a task waiting on it, or is a recorded waker-map leftover -/
  regOwned : ∀ t c, (c, t) ∈ s.regs → s.waiting t = some c ∨ (slot c = true ∧ s.left t c = true)
  /-- registrations exist only for conditions that do not hold, on a live connection -/
  regFalse : ∀ t c, (c, t) ∈ s.regs → s.holds c = false ∧ s.dead = false
  /-- the leftover record is exact -/
  leftReg : ∀ t c, s.left t c = true → slot c = true ∧ (c, t) ∈ s.regs

theorem inv_init : Inv slot init := by
  constructor <;> simp [init]

theorem inv_dropFut (s : St) (t : Task) (h : Inv slot s) : Inv slot (s.dropFut slot t) := by
  unfold St.dropFut
  cases hw : s.waiting t with
  | none => simpa using h
  | some c =>
    by_cases hs : slot c = true
    · simp only [hs, ↓reduceIte]
      constructor
      · intro t' c' hw'
        by_cases ht : t' = t
        · subst ht; simp [upd] at hw'
        · simp only [upd, ht, if_false] at hw' ⊢
          exact h.pendingCovered t' c' hw'
      · intro t' c' hr
        by_cases ht : t' = t
        · subst ht
          rcases h.regOwned t' c' hr with h1 | h1
          · right
            rw [hw] at h1
            have : c = c' := by simpa using h1
            subst this
            simp [hs, (reg_iff s c t').2 hr]
          · right
            refine ⟨h1.1, ?_⟩
            by_cases hc : c' = c
            · subst hc; simp [(reg_iff s c' t').2 hr]
            · simp [hc, h1.2]
        · rcases h.regOwned t' c' hr with h1 | h1
          · left; simp [upd, ht, h1]
          · right; simp [ht, h1.1, h1.2]
      · intro t' c' hr; exact h.regFalse t' c' hr
      · intro t' c' hl
        by_cases htc : t' = t ∧ c' = c
        · obtain ⟨h1, h2⟩ := htc
          subst h1; subst h2
          simp only [and_self, if_true] at hl
          exact ⟨hs, (reg_iff s c' t').1 hl⟩
        · simp only [htc, if_false] at hl
          exact h.leftReg t' c' hl
    · simp only [hs, Bool.false_eq_true, ↓reduceIte]
      constructor
      · intro t' c' hw'
        by_cases ht : t' = t
        · subst ht; simp [upd] at hw'
        · simp only [upd, ht, if_false] at hw'
          rcases h.pendingCovered t' c' hw' with h1 | h1
          · left; exact h1
          · right
            simp only [List.mem_filter, h1, true_and, bne_iff_ne, ne_eq, Prod.mk.injEq, not_and]
            intro _; exact ht
      · intro t' c' hr
        simp only [List.mem_filter, bne_iff_ne, ne_eq, Prod.mk.injEq, not_and] at hr
        obtain ⟨hr1, hr2⟩ := hr
        by_cases ht : t' = t
        · subst ht
          rcases h.regOwned t' c' hr1 with h1 | h1
          · rw [hw] at h1
            have : c = c' := by simpa using h1
            exact absurd rfl (hr2 this.symm)
          · right; exact h1
        · rcases h.regOwned t' c' hr1 with h1 | h1
          · left; simp [upd, ht, h1]
          · right; exact h1
      · intro t' c' hr
        simp only [List.mem_filter] at hr
        exact h.regFalse t' c' hr.1
      · intro t' c' hl
        obtain ⟨h1, h2⟩ := h.leftReg t' c' hl
        refine ⟨h1, ?_⟩
        simp only [List.mem_filter, h2, true_and, bne_iff_ne, ne_eq, Prod.mk.injEq, not_and]
        intro hc; subst hc
        simp [h1] at hs

theorem dropFut_waiting_self (s : St) (t : Task) : (s.dropFut slot t).waiting t = none := by
  unfold St.dropFut
  cases hw : s.waiting t with
  | none => simpa using hw
  | some c => by_cases hs : slot c = true <;> simp [hs, upd]

theorem mem_ins (s : St) (c : Cond) (t : Task) (r : Cond × Task) :
    r ∈ (if s.reg c t = true then s.regs else (c, t) :: s.regs) ↔ r = (c, t) ∨ r ∈ s.regs := by
  by_cases h : s.reg c t = true
  · simp only [h, if_true]
    constructor
    · intro h'; exact Or.inr h'
    · rintro (h' | h')
      · subst h'; exact (reg_iff s c t).1 h
      · exact h'
  · simp [h]

/-- the poll proper, once the previous future (if it was a different operation) is gone -/
theorem inv_pollCore (s : St) (t : Task) (c : Cond) (consume : Bool) (h : Inv slot s)
    (hw : s.waiting t = some c ∨ s.waiting t = none) :
    Inv slot (if s.dead || s.holds c then
        ({ s with waiting := upd s.waiting t none, woken := upd s.woken t false,
                  holds := if consume && !s.dead then upd s.holds c false else s.holds } : St)
      else
        { s with regs := if s.reg c t then s.regs else (c, t) :: s.regs,
                 left := fun t' c' => if t' = t ∧ c' = c then false else s.left t' c',
                 waiting := upd s.waiting t (some c), woken := upd s.woken t false }) := by
  by_cases hr : (s.dead || s.holds c) = true
  · simp only [hr, if_true]
    constructor
    · intro t' c' hw'
      by_cases ht : t' = t
      · subst ht; simp [upd] at hw'
      · simp only [upd, ht, if_false] at hw' ⊢
        exact h.pendingCovered t' c' hw'
    · intro t' c' hreg
      have hreg' : (c', t') ∈ s.regs := hreg
      rcases h.regOwned t' c' hreg' with h1 | h1
      · by_cases ht : t' = t
        · subst ht
          have hc : c' = c := by
            rcases hw with hw | hw
            · rw [hw] at h1; simpa using h1.symm
            · rw [hw] at h1; simp at h1
          subst hc
          have := h.regFalse t' c' hreg'
          simp [this.1, this.2] at hr
        · left; simp [upd, ht, h1]
      · right; exact h1
    · intro t' c' hreg
      have hreg' : (c', t') ∈ s.regs := hreg
      have := h.regFalse t' c' hreg'
      refine ⟨?_, this.2⟩
      show (if (consume && !s.dead) = true then upd s.holds c false else s.holds) c' = false
      by_cases hcn : (consume && !s.dead) = true
      · simp only [hcn, if_true, upd]
        by_cases hc : c' = c <;> simp [hc, this.1]
      · simp only [hcn]; simpa using this.1
    · intro t' c' hl; exact h.leftReg t' c' hl
  · have hr' : s.dead = false ∧ s.holds c = false := by
      cases hd : s.dead <;> cases hh : s.holds c <;> simp [hd, hh] at hr ⊢
    simp only [hr, Bool.false_eq_true, if_false]
    constructor
    · intro t' c' hw'
      by_cases ht : t' = t
      · subst ht
        simp only [upd, if_true] at hw'
        have : c = c' := by simpa using hw'
        subst this
        right; exact (mem_ins s c t' _).2 (Or.inl rfl)
      · simp only [upd, ht, if_false] at hw' ⊢
        rcases h.pendingCovered t' c' hw' with h1 | h1
        · left; exact h1
        · right; exact (mem_ins s c t _).2 (Or.inr h1)
    · intro t' c' hreg
      rcases (mem_ins s c t _).1 hreg with h1 | h1
      · have h2 : c' = c ∧ t' = t := by simpa using h1
        left; simp [upd, h2.1, h2.2]
      · by_cases ht : t' = t
        · subst ht
          by_cases hc : c' = c
          · left; simp [upd, hc]
          · rcases h.regOwned t' c' h1 with h2 | h2
            · rcases hw with hw | hw
              · rw [hw] at h2; exact absurd (by simpa using h2.symm) hc
              · rw [hw] at h2; simp at h2
            · right; simp [hc, h2.1, h2.2]
        · rcases h.regOwned t' c' h1 with h2 | h2
          · left; simp [upd, ht, h2]
          · right; simp [ht, h2.1, h2.2]
    · intro t' c' hreg
      rcases (mem_ins s c t _).1 hreg with h1 | h1
      · have h2 : c' = c ∧ t' = t := by simpa using h1
        rw [h2.1]; exact ⟨hr'.2, hr'.1⟩
      · exact h.regFalse t' c' h1
    · intro t' c' hl
      by_cases htc : t' = t ∧ c' = c
      · simp [htc] at hl
      · simp only [htc, if_false] at hl
        obtain ⟨h1, h2⟩ := h.leftReg t' c' hl
        exact ⟨h1, (mem_ins s c t _).2 (Or.inr h2)⟩

theorem inv_poll (s : St) (t : Task) (c : Cond) (consume : Bool) (h : Inv slot s) :
    Inv slot (s.poll slot t c consume).1 := by
  unfold St.poll
  by_cases hw : s.waiting t = some c
  · simp only [hw, if_true]
    have := inv_pollCore slot s t c consume h (Or.inl hw)
    by_cases hr : (s.dead || s.holds c) = true
    · simp only [hr, if_true] at this ⊢; exact this
    · simp only [hr] at this ⊢; exact this
  · simp only [hw, if_false]
    have := inv_pollCore slot (s.dropFut slot t) t c consume (inv_dropFut slot s t h) (Or.inr (dropFut_waiting_self slot s t))
    by_cases hr : ((s.dropFut slot t).dead || (s.dropFut slot t).holds c) = true
    · simp only [hr, if_true] at this ⊢; exact this
    · simp only [hr] at this ⊢; exact this

theorem inv_drive (s : St) (up down : List Cond) (h : Inv slot s) : Inv slot (s.drive up down) := by
  unfold St.drive
  generalize hs1 : ({ s with holds := fun c => if up.contains c then true else if down.contains c then false else s.holds c } : St) = s1
  have e_regs : s1.regs = s.regs := by subst hs1; rfl
  have e_woken : s1.woken = s.woken := by subst hs1; rfl
  have e_left : s1.left = s.left := by subst hs1; rfl
  have e_wait : s1.waiting = s.waiting := by subst hs1; rfl
  have e_dead : s1.dead = s.dead := by subst hs1; rfl
  have e_holds : ∀ c, c ∉ up → s.holds c = false → s1.holds c = false := by
    intro c hc hh; subst hs1
    show (if up.contains c = true then true else if down.contains c = true then false else s.holds c) = false
    have : up.contains c = false := by simpa using hc
    simp only [this, Bool.false_eq_true, if_false]
    by_cases hd : down.contains c = true <;> simp [hh]
  obtain ⟨w1, w2, w3⟩ := wakeConds_same up s1
  constructor
  · intro t c hw
    rw [w3, e_wait] at hw
    by_cases hc : c ∈ up
    · left
      rcases h.pendingCovered t c hw with h1 | h1
      · exact wakeConds_woken_mono up s1 t (by rw [e_woken]; exact h1)
      · exact wakeConds_woken_of_reg up s1 c t (by rw [e_regs]; exact h1) hc
    · rcases h.pendingCovered t c hw with h1 | h1
      · left; exact wakeConds_woken_mono up s1 t (by rw [e_woken]; exact h1)
      · right; exact (wakeConds_regs up s1 (c, t)).2 ⟨by rw [e_regs]; exact h1, hc⟩
  · intro t c hr
    obtain ⟨hr1, hr2⟩ := (wakeConds_regs up s1 (c, t)).1 hr
    rw [e_regs] at hr1
    rcases h.regOwned t c hr1 with h1 | h1
    · left; rw [w3, e_wait]; exact h1
    · right; exact ⟨h1.1, (wakeConds_left up s1 t c).2 ⟨by rw [e_left]; exact h1.2, hr2⟩⟩
  · intro t c hr
    obtain ⟨hr1, hr2⟩ := (wakeConds_regs up s1 (c, t)).1 hr
    rw [e_regs] at hr1
    have := h.regFalse t c hr1
    rw [w1, w2, e_dead]
    exact ⟨e_holds c hr2 this.1, this.2⟩
  · intro t c hl
    obtain ⟨hl1, hl2⟩ := (wakeConds_left up s1 t c).1 hl
    rw [e_left] at hl1
    obtain ⟨h1, h2⟩ := h.leftReg t c hl1
    exact ⟨h1, (wakeConds_regs up s1 (c, t)).2 ⟨by rw [e_regs]; exact h2, hl2⟩⟩

theorem inv_dropHandle (s : St) (t : Task) (c : Cond) (h : Inv slot s) : Inv slot (s.dropHandle t c) := by
  unfold St.dropHandle
  constructor
  · intro t' c' hw
    have hw0 : s.waiting t' = some c' ∧ ¬(t' = t ∧ c' = c) := by
      by_cases hwt : s.waiting t = some c
      · simp only [hwt, if_true] at hw
        by_cases ht : t' = t
        · subst ht; simp [upd] at hw
        · simp only [upd, ht, if_false] at hw
          exact ⟨hw, fun hh => ht hh.1⟩
      · simp only [hwt, if_false] at hw
        refine ⟨hw, ?_⟩
        rintro ⟨h1, h2⟩; subst h1; subst h2; exact hwt hw
    rcases h.pendingCovered t' c' hw0.1 with h1 | h1
    · left; exact h1
    · right
      simp only [List.mem_filter, h1, true_and, bne_iff_ne, ne_eq, Prod.mk.injEq, not_and]
      intro hc ht; exact hw0.2 ⟨ht, hc⟩
  · intro t' c' hr
    simp only [List.mem_filter, bne_iff_ne, ne_eq, Prod.mk.injEq, not_and] at hr
    obtain ⟨hr1, hr2⟩ := hr
    have hne : ¬(t' = t ∧ c' = c) := fun hh => hr2 hh.2 hh.1
    rcases h.regOwned t' c' hr1 with h1 | h1
    · left
      by_cases hwt : s.waiting t = some c
      · simp only [hwt, if_true]
        by_cases ht : t' = t
        · subst ht; rw [hwt] at h1
          exact absurd ⟨rfl, (by simpa using h1.symm)⟩ hne
        · simp [upd, ht, h1]
      · simp only [hwt, if_false]; exact h1
    · right; simp [hne, h1.1, h1.2]
  · intro t' c' hr
    simp only [List.mem_filter] at hr
    exact h.regFalse t' c' hr.1
  · intro t' c' hl
    by_cases htc : t' = t ∧ c' = c
    · simp [htc] at hl
    · simp only [htc, if_false] at hl
      obtain ⟨h1, h2⟩ := h.leftReg t' c' hl
      refine ⟨h1, ?_⟩
      simp only [List.mem_filter, h2, true_and, bne_iff_ne, ne_eq, Prod.mk.injEq, not_and]
      intro hc ht; exact htc ⟨ht, hc⟩

theorem inv_terminate (s : St) (h : Inv slot s) : Inv slot s.terminate := by
  unfold St.terminate
  constructor
  · intro t c hw
    left
    rcases h.pendingCovered t c hw with h1 | h1
    · simp [h1]
    · have : s.regs.any (fun r => r.2 == t) = true := List.any_eq_true.2 ⟨(c, t), h1, by simp⟩
      simp [this]
  · intro t c hr; simp at hr
  · intro t c hr; simp at hr
  · intro t c hl; simp at hl

/-- `SendStream::reset` as found in the source: it notifies, hence it is a driver-like step -/
theorem appSet_eq (s : St) (c : Cond) : s.appSet c = s.drive [c] [] := by
  simp [St.appSet, Gen.c18ResetNotifiesStopped]

/-- `Drop` of a rejected 0-RTT handle as found in the source: the waker-map slot is left alone -/
theorem dropRejected_eq (s : St) (c : Cond) : s.dropRejected c = s := by
  simp [St.dropRejected, Gen.c18RejectedDropKeepsWaker]

theorem inv_step (s : St) (e : Ev) (h : Inv slot s) : Inv slot (step slot s e) := by
  cases e with
  | poll t c consume => exact inv_poll slot s t c consume h
  | drive up down => exact inv_drive slot s up down h
  | dropFut t => exact inv_dropFut slot s t h
  | dropHandle t c => exact inv_dropHandle slot s t c h
  | terminate => exact inv_terminate slot s h
  | appSet c => show Inv slot (s.appSet c); rw [appSet_eq]; exact inv_drive slot s [c] [] h
  | dropRejected c => show Inv slot (s.dropRejected c); rw [dropRejected_eq]; exact h

theorem inv_run (evs : List Ev) : ∀ (s : St), Inv slot s → Inv slot (run slot s evs) := by
  induction evs with
  | nil => intro s h; exact h
  | cons e es ih => intro s h; exact ih _ (inv_step slot s e h)

/-! ### consequences -/

theorem inv_reach (evs : List Ev) : Inv slot (run slot init evs) := inv_run slot evs init (inv_init slot)

theorem woken_of_pending_true (s : St) (h : Inv slot s) (t : Task) (c : Cond)
    (hw : s.waiting t = some c) (hc : s.holds c = true ∨ s.dead = true) : s.woken t = true := by
  rcases h.pendingCovered t c hw with h1 | h1
  · exact h1
  · have := h.regFalse t c h1
    rcases hc with hc | hc
    · rw [this.1] at hc; cases hc
    · rw [this.2] at hc; cases hc

theorem no_lost_wakeup_lem (evs : List Ev) (t : Task) (c : Cond)
    (hw : (run slot init evs).waiting t = some c)
    (hc : (run slot init evs).holds c = true ∨ (run slot init evs).dead = true) :
    (run slot init evs).woken t = true :=
  woken_of_pending_true slot _ (inv_reach slot evs) t c hw hc

theorem poll_ready_of_true (s : St) (t : Task) (c : Cond) (consume : Bool)
    (hw : s.waiting t = some c) (hc : s.holds c = true ∨ s.dead = true) :
    (s.poll slot t c consume).2 = true := by
  unfold St.poll
  simp only [hw, if_true]
  have : (s.dead || s.holds c) = true := by
    rcases hc with hc | hc <;> simp [hc]
  simp [this]

theorem terminate_lem (evs : List Ev) :
    (step slot (run slot init evs) .terminate).regs = [] ∧
    (step slot (run slot init evs) .terminate).dead = true ∧
    ∀ t c, (run slot init evs).waiting t = some c → (step slot (run slot init evs) .terminate).woken t = true := by
  refine ⟨rfl, rfl, ?_⟩
  intro t c hw
  have h := inv_reach slot evs
  show ((run slot init evs).woken t || (run slot init evs).regs.any (fun r => r.2 == t)) = true
  rcases h.pendingCovered t c hw with h1 | h1
  · simp [h1]
  · have : (run slot init evs).regs.any (fun r => r.2 == t) = true := List.any_eq_true.2 ⟨(c, t), h1, by simp⟩
    simp [this]

theorem dropFut_dead (s : St) (t : Task) : (s.dropFut slot t).dead = s.dead := by
  unfold St.dropFut
  cases hw : s.waiting t with
  | none => rfl
  | some c => by_cases hs : slot c = true <;> simp [hs]

theorem dead_step (s : St) (e : Ev) (h : s.dead = true) : (step slot s e).dead = true := by
  cases e with
  | poll t c consume =>
    show (s.poll slot t c consume).1.dead = true
    unfold St.poll
    have hd : (if s.waiting t = some c then s else s.dropFut slot t).dead = true := by
      by_cases hw : s.waiting t = some c
      · simp [hw, h]
      · simp [hw, dropFut_dead, h]
    simp [hd]
  | drive up down =>
    show (s.drive up down).dead = true
    unfold St.drive
    rw [(wakeConds_same up _).2.1]; exact h
  | dropFut t => show (s.dropFut slot t).dead = true; rw [dropFut_dead]; exact h
  | dropHandle t c => exact h
  | terminate => rfl
  | appSet c =>
    show (s.appSet c).dead = true
    rw [appSet_eq]; unfold St.drive
    rw [(wakeConds_same [c] _).2.1]; exact h
  | dropRejected c => show (s.dropRejected c).dead = true; rw [dropRejected_eq]; exact h

theorem dead_run (evs : List Ev) : ∀ s : St, s.dead = true → (run slot s evs).dead = true := by
  induction evs with
  | nil => intro s h; exact h
  | cons e es ih => intro s h; exact ih _ (dead_step slot s e h)

theorem regs_nil_of_dead (s : St) (h : Inv slot s) (hd : s.dead = true) : s.regs = [] := by
  cases hr : s.regs with
  | nil => rfl
  | cons r rs =>
    have hm : (r.1, r.2) ∈ s.regs := by rw [hr]; simp
    have := (h.regFalse r.2 r.1 hm).2
    rw [hd] at this; cases this

theorem after_terminate_lem (evs evs' : List Ev) :
    (run slot (step slot (run slot init evs) .terminate) evs').regs = [] ∧
    ∀ t c consume, ((run slot (step slot (run slot init evs) .terminate) evs').poll slot t c consume).2 = true := by
  have hi : Inv slot (run slot (step slot (run slot init evs) .terminate) evs') :=
    inv_run slot evs' _ (inv_step slot _ _ (inv_reach slot evs))
  have hd : (run slot (step slot (run slot init evs) .terminate) evs').dead = true := dead_run slot evs' _ rfl
  refine ⟨regs_nil_of_dead slot _ hi hd, ?_⟩
  intro t c consume
  unfold St.poll
  have hd' : (if (run slot (step slot (run slot init evs) .terminate) evs').waiting t = some c
      then (run slot (step slot (run slot init evs) .terminate) evs')
      else (run slot (step slot (run slot init evs) .terminate) evs').dropFut slot t).dead = true := by
    by_cases hw : (run slot (step slot (run slot init evs) .terminate) evs').waiting t = some c
    · simp [hw, hd]
    · simp [hw, dropFut_dead, hd]
  simp [hd']

theorem dropFut_lem (evs : List Ev) (t : Task) (c : Cond) (hs : slot c = false) :
    (c, t) ∉ (step slot (run slot init evs) (.dropFut t)).regs := by
  intro hr
  have hi : Inv slot (step slot (run slot init evs) (.dropFut t)) := inv_step slot _ _ (inv_reach slot evs)
  rcases hi.regOwned t c hr with h1 | h1
  · have : (step slot (run slot init evs) (.dropFut t)).waiting t = none := dropFut_waiting_self slot _ t
    rw [this] at h1; cases h1
  · rw [hs] at h1; cases h1.1

theorem dropFut_slot_lem (evs : List Ev) (t : Task) (c : Cond)
    (hr : (c, t) ∈ (step slot (run slot init evs) (.dropFut t)).regs) :
    slot c = true ∧ (step slot (run slot init evs) (.dropFut t)).left t c = true := by
  have hi : Inv slot (step slot (run slot init evs) (.dropFut t)) := inv_step slot _ _ (inv_reach slot evs)
  rcases hi.regOwned t c hr with h1 | h1
  · have : (step slot (run slot init evs) (.dropFut t)).waiting t = none := dropFut_waiting_self slot _ t
    rw [this] at h1; cases h1
  · exact h1

theorem dropHandle_lem (s : St) (t : Task) (c : Cond) :
    (c, t) ∉ (step slot s (.dropHandle t c)).regs ∧ (step slot s (.dropHandle t c)).left t c = false := by
  constructor
  · show (c, t) ∉ (s.dropHandle t c).regs
    simp [St.dropHandle, List.mem_filter]
  · show (s.dropHandle t c).left t c = false
    simp [St.dropHandle]

theorem poll_ready_lem (evs : List Ev) (t : Task) (c : Cond) (consume : Bool)
    (hr : ((run slot init evs).poll slot t c consume).2 = true) :
    (c, t) ∉ ((run slot init evs).poll slot t c consume).1.regs ∧
    ((run slot init evs).poll slot t c consume).1.waiting t = none := by
  have hi0 := inv_reach slot evs
  generalize run slot init evs = s0 at hr hi0 ⊢
  unfold St.poll at hr ⊢
  generalize hs : (if s0.waiting t = some c then s0 else s0.dropFut slot t) = s at hr ⊢
  have hi : Inv slot s := by
    subst hs
    by_cases hw : s0.waiting t = some c
    · simp only [hw, if_true]; exact hi0
    · simp only [hw, if_false]; exact inv_dropFut slot s0 t hi0
  by_cases hc : (s.dead || s.holds c) = true
  · simp only [hc, if_true]
    constructor
    · intro hm
      have hm' : (c, t) ∈ s.regs := hm
      have := hi.regFalse t c hm'
      simp [this.1, this.2] at hc
    · simp [upd]
  · simp [hc] at hr

theorem regs_owned_lem (evs : List Ev) (t : Task) (c : Cond) (hr : (c, t) ∈ (run slot init evs).regs) :
    (run slot init evs).waiting t = some c ∨ (slot c = true ∧ (run slot init evs).left t c = true) :=
  (inv_reach slot evs).regOwned t c hr

theorem regs_false_lem (evs : List Ev) (t : Task) (c : Cond) (hr : (c, t) ∈ (run slot init evs).regs) :
    (run slot init evs).holds c = false ∧ (run slot init evs).dead = false :=
  (inv_reach slot evs).regFalse t c hr

theorem left_lem (evs : List Ev) (t : Task) (c : Cond) (hl : (run slot init evs).left t c = true) :
    slot c = true ∧ (c, t) ∈ (run slot init evs).regs :=
  (inv_reach slot evs).leftReg t c hl

/-- a wake of condition `c` uses up every leftover of `c`: one dropped future, at most one stale wake -/
theorem wake_clears_left (s : St) (c : Cond) (t : Task) :
    (s.wakeCond c).left t c = false ∧ (c, t) ∉ (s.wakeCond c).regs := by
  constructor
  · simp [St.wakeCond]
  · simp [St.wakeCond, List.mem_filter]

/-! ### several waiters on one condition (`notify_waiters` wakes all, one wins, the losers poll again) -/

theorem pending_registered_lem (evs : List Ev) (t : Task) (c : Cond)
    (hw : (run slot init evs).waiting t = some c) :
    (run slot init evs).woken t = true ∨ (c, t) ∈ (run slot init evs).regs :=
  (inv_reach slot evs).pendingCovered t c hw

/-- a poll that returns Pending — in particular the poll of a woken task that finds the condition consumed by
    another task — leaves the task registered for the condition, waiting on it, with the wake flag cleared -/
theorem poll_pending_lem (s : St) (t : Task) (c : Cond) (consume : Bool)
    (hr : (s.poll slot t c consume).2 = false) :
    (c, t) ∈ (s.poll slot t c consume).1.regs ∧ (s.poll slot t c consume).1.waiting t = some c ∧
    (s.poll slot t c consume).1.woken t = false := by
  unfold St.poll at hr ⊢
  generalize (if s.waiting t = some c then s else s.dropFut slot t) = s1 at hr ⊢
  by_cases hc : (s1.dead || s1.holds c) = true
  · simp [hc] at hr
  · simp only [hc, Bool.false_eq_true, if_false]
    refine ⟨(mem_ins s1 c t _).2 (Or.inl rfl), ?_, ?_⟩ <;> simp [upd]

/-- a wake of `c` reaches EVERY task registered for it, however many -/
theorem wake_reaches_all (s : St) (c : Cond) (t : Task) (hr : (c, t) ∈ s.regs) :
    (s.wakeCond c).woken t = true := by
  simp [St.wakeCond, (reg_iff s c t).2 hr]

/-! ### an application call that makes a condition hold (`SendStream::reset` → `stopped`) -/

theorem appSet_lem (evs : List Ev) (t : Task) (c : Cond) (hw : (run slot init evs).waiting t = some c) :
    (step slot (run slot init evs) (.appSet c)).holds c = true ∧
    (step slot (run slot init evs) (.appSet c)).woken t = true ∧
    (c, t) ∉ (step slot (run slot init evs) (.appSet c)).regs := by
  have hi := inv_reach slot evs
  generalize run slot init evs = s at hw hi ⊢
  show (s.appSet c).holds c = true ∧ (s.appSet c).woken t = true ∧ (c, t) ∉ (s.appSet c).regs
  rw [appSet_eq]
  unfold St.drive
  refine ⟨?_, ?_, ?_⟩
  · rw [(wakeConds_same [c] _).1]; simp
  · rcases hi.pendingCovered t c hw with h1 | h1
    · exact wakeConds_woken_mono [c] _ t h1
    · exact wakeConds_woken_of_reg [c] _ c t h1 (by simp)
  · intro hm
    have := ((wakeConds_regs [c] _ (c, t)).1 hm).2
    simp at this

/-! ### endpoint scope: loss of the endpoint driver -/

/-- `lose` with a notified set that covers every registration = wake everybody, nothing stays registered -/
theorem inv_lose (s : St) (ns : List Cond) (h : Inv slot s) (hcov : ∀ r ∈ s.regs, r.1 ∈ ns) :
    Inv slot (s.lose ns) ∧ (s.lose ns).regs = [] := by
  have hnil : (s.lose ns).regs = [] := by
    show (s.wakeConds ns).regs = []
    cases hr : (s.wakeConds ns).regs with
    | nil => rfl
    | cons r rs =>
      have hm : r ∈ (s.wakeConds ns).regs := by rw [hr]; simp
      have := (wakeConds_regs ns s r).1 hm
      exact absurd (hcov r this.1) this.2
  refine ⟨?_, hnil⟩
  obtain ⟨_, _, w3⟩ := wakeConds_same ns s
  constructor
  · intro t c hw
    have hw' : s.waiting t = some c := by
      have : (s.lose ns).waiting = s.waiting := w3
      rw [this] at hw; exact hw
    left
    show (s.wakeConds ns).woken t = true
    rcases h.pendingCovered t c hw' with h1 | h1
    · exact wakeConds_woken_mono ns s t h1
    · exact wakeConds_woken_of_reg ns s c t h1 (hcov (c, t) h1)
  · intro t c hr; rw [hnil] at hr; cases hr
  · intro t c hr; rw [hnil] at hr; cases hr
  · intro t c hl
    have hl' : (s.wakeConds ns).left t c = true := hl
    obtain ⟨h1, h2⟩ := (wakeConds_left ns s t c).1 hl'
    obtain ⟨_, h4⟩ := h.leftReg t c h1
    exact absurd (hcov (c, t) h4) h2

theorem dropFut_regs_sub (s : St) (t : Task) (r : Cond × Task) (hr : r ∈ (s.dropFut slot t).regs) : r ∈ s.regs := by
  unfold St.dropFut at hr
  cases hw : s.waiting t with
  | none => simpa [hw] using hr
  | some c =>
    simp only [hw] at hr
    by_cases hs : slot c = true
    · simpa [hs] using hr
    · simp only [hs, Bool.false_eq_true, if_false, List.mem_filter] at hr
      exact hr.1

theorem poll_regs_sub (s : St) (t : Task) (c : Cond) (consume : Bool) (r : Cond × Task)
    (hr : r ∈ (s.poll slot t c consume).1.regs) : r = (c, t) ∨ r ∈ s.regs := by
  unfold St.poll at hr
  have hsub : ∀ r, r ∈ (if s.waiting t = some c then s else s.dropFut slot t).regs → r ∈ s.regs := by
    intro r hr
    by_cases hw : s.waiting t = some c
    · simpa [hw] using hr
    · simp only [hw, if_false] at hr; exact dropFut_regs_sub slot s t r hr
  generalize (if s.waiting t = some c then s else s.dropFut slot t) = s1 at hr hsub
  by_cases hc : (s1.dead || s1.holds c) = true
  · simp only [hc, if_true] at hr
    right; exact hsub r hr
  · simp only [hc, Bool.false_eq_true, if_false] at hr
    rcases (mem_ins s1 c t r).1 hr with h1 | h1
    · left; exact h1
    · right; exact hsub r h1

/-- every registration of the endpoint scope is on `incoming` or `idle` -/
def EpRegs (s : St) : Prop := ∀ r ∈ s.regs, r.1 = EpCond.incoming.code ∨ r.1 = EpCond.idle.code

theorem epDriverDropNotifies_eq : epDriverDropNotifies = [EpCond.incoming.code, EpCond.idle.code] := by
  simp [epDriverDropNotifies, Gen.c18EndpointDriverDropNotifiesIncoming, Gen.c18EndpointDriverDropNotifiesIdle]

theorem ep_cov (s : St) (h : EpRegs s) : ∀ r ∈ s.regs, r.1 ∈ epDriverDropNotifies := by
  intro r hr
  rw [epDriverDropNotifies_eq]
  rcases h r hr with h1 | h1 <;> simp [h1]

theorem ep_inv_step (s : St) (e : EpEv) (h : Inv noSlot s) (hr : EpRegs s) :
    Inv noSlot (epStep s e) ∧ EpRegs (epStep s e) := by
  cases e with
  | poll t c consume =>
    refine ⟨inv_poll noSlot s t c.code consume h, ?_⟩
    intro r hm
    rcases poll_regs_sub noSlot s t c.code consume r hm with h1 | h1
    · subst h1; cases c <;> simp [EpCond.code]
    · exact hr r h1
  | drive up down =>
    refine ⟨inv_drive noSlot s _ _ h, ?_⟩
    intro r hm
    have hm' : r ∈ (s.drive (up.map EpCond.code) (down.map EpCond.code)).regs := hm
    unfold St.drive at hm'
    exact hr r ((wakeConds_regs _ _ r).1 hm').1
  | dropFut t =>
    refine ⟨inv_dropFut noSlot s t h, ?_⟩
    intro r hm
    exact hr r (dropFut_regs_sub noSlot s t r hm)
  | driverLost =>
    obtain ⟨h1, h2⟩ := inv_lose noSlot s epDriverDropNotifies h (ep_cov s hr)
    refine ⟨h1, ?_⟩
    intro r hm
    have hm' : r ∈ (s.lose epDriverDropNotifies).regs := hm
    rw [h2] at hm'; cases hm'

theorem ep_inv_run (evs : List EpEv) : ∀ s : St, Inv noSlot s → EpRegs s →
    Inv noSlot (epRun s evs) ∧ EpRegs (epRun s evs) := by
  induction evs with
  | nil => intro s h hr; exact ⟨h, hr⟩
  | cons e es ih => intro s h hr; obtain ⟨h1, h2⟩ := ep_inv_step s e h hr; exact ih _ h1 h2

theorem ep_reach (evs : List EpEv) : Inv noSlot (epRun init evs) ∧ EpRegs (epRun init evs) :=
  ep_inv_run evs init (inv_init noSlot) (by intro r hr; simp [init] at hr)

theorem ep_no_lost_wakeup_lem (evs : List EpEv) (t : Task) (c : Cond)
    (hw : (epRun init evs).waiting t = some c)
    (hc : (epRun init evs).holds c = true ∨ (epRun init evs).dead = true) :
    (epRun init evs).woken t = true :=
  woken_of_pending_true noSlot _ (ep_reach evs).1 t c hw hc

theorem ep_driver_lost_lem (evs : List EpEv) :
    (epStep (epRun init evs) .driverLost).regs = [] ∧
    (epStep (epRun init evs) .driverLost).dead = true ∧
    ∀ t c, (epRun init evs).waiting t = some c → (epStep (epRun init evs) .driverLost).woken t = true := by
  obtain ⟨hi, hr⟩ := ep_reach evs
  obtain ⟨h1, h2⟩ := inv_lose noSlot _ epDriverDropNotifies hi (ep_cov _ hr)
  refine ⟨h2, rfl, ?_⟩
  intro t c hw
  have hw' : (epStep (epRun init evs) .driverLost).waiting t = some c := by
    show ((epRun init evs).lose epDriverDropNotifies).waiting t = some c
    have : ((epRun init evs).lose epDriverDropNotifies).waiting = (epRun init evs).waiting :=
      (wakeConds_same epDriverDropNotifies (epRun init evs)).2.2
    rw [this]; exact hw
  rcases h1.pendingCovered t c hw' with h3 | h3
  · exact h3
  · rw [h2] at h3; cases h3

end QM.Wake
