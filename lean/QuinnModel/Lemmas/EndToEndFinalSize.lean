import QuinnModel.Lemmas.EndToEndRecv
/-
The final size of a receive half over ALL frame sequences (any peer, honest or not): once known it never
changes, the high-water mark never passes it and never decreases. (`Recv::ingest`, `Recv::reset`, `Recv::stop`
of the streams model; frames answered with a connection error leave the half alone.)
-/
namespace QM.E2E
open QM QM.Streams

inductive RecvOp where
  | stream (off len : Nat) (fin : Bool) (received maxData : Nat)
  | reset (code finalSize received maxData : Nat)
  | stop

/-- one frame or call; an error or a panic leaves the half as it was -/
def rstep (r : Recv) : RecvOp → Recv
  | .stream off len fin received maxData =>
    match r.ingest off len fin received maxData with
    | some (.ok (_, _, r')) => r'
    | _ => r
  | .reset code fs received maxData =>
    match r.reset code fs received maxData with
    | some (.ok (_, r')) => r'
    | _ => r
  | .stop =>
    match r.stop with
    | some (some (_, _, r')) => r'
    | _ => r

/-- the final size bounds the high-water mark -/
def FinLe (r : Recv) : Prop := ∀ fo, r.finalOffset = some fo → r.end_ ≤ fo

theorem rstep_final (r : Recv) (op : RecvOp) (hle : FinLe r) :
    (∀ fo, r.finalOffset = some fo → (rstep r op).finalOffset = some fo) ∧ r.end_ ≤ (rstep r op).end_ ∧
    FinLe (rstep r op) := by
  cases op with
  | stream off len fin received maxData =>
    simp only [rstep]
    split
    · rename_i nb cl r' hing
      have hstate := ingest_state hing
      have hfo := ingest_finalOffset hing
      rcases ingest_cases hing with ⟨_, he⟩ | ⟨_, _, he⟩ | ⟨_, _, _, he⟩ | ⟨_, hnc, _, _, r'', he, e1, _, _, _, _⟩
      · cases he
      · cases he
      · cases he
      · simp only [Except.ok.injEq, Prod.mk.injEq] at he
        obtain ⟨_, _, rfl⟩ := he
        have hmax : r'.end_ = max r.end_ (off + len) := e1
        refine ⟨?_, by omega, ?_⟩
        · intro fo hf
          rcases hstate with h1 | ⟨sz, h1, h2, hfin⟩
          · simp only [Recv.finalOffset, h1] at hf ⊢; exact hf
          · have hsz : sz = some fo := by simpa [Recv.finalOffset, h1] using hf
            have : off + len = fo := by
              apply Classical.byContradiction
              intro hne
              exact hnc (Or.inl ⟨fo, hf, Or.inr ⟨hfin, hne⟩⟩)
            simp [Recv.finalOffset, h2, this]
        · intro fo hf
          rcases hfo fo hf with ⟨rfl, hfin⟩ | hold
          · have : ¬ (off + len < r.end_) := fun hlt => hnc (Or.inr ⟨hfin, hlt⟩)
            omega
          · have h1 := hle fo hold
            have : ¬ (off + len > fo) := fun hgt => hnc (Or.inl ⟨fo, hold, Or.inl hgt⟩)
            omega
    · exact ⟨fun fo h => h, Nat.le_refl _, hle⟩
  | reset code fs received maxData =>
    simp only [rstep]
    split
    · rename_i b r' hres
      rcases reset_cases hres with ⟨_, _, _, he⟩ | ⟨_, _, he⟩ | ⟨_, _, he⟩ | ⟨hse, _, _, hr⟩
      · cases he
      · cases he
      · cases he
      · rcases hr with ⟨_, _, _, he⟩ | ⟨sz, hsz, he⟩
        · simp only [Except.ok.injEq, Prod.mk.injEq] at he
          obtain ⟨_, rfl⟩ := he
          exact ⟨fun fo h => h, Nat.le_refl _, hle⟩
        · simp only [Except.ok.injEq, Prod.mk.injEq] at he
          obtain ⟨_, rfl⟩ := he
          have hkey : (∀ fo, r.finalOffset = some fo → fo = fs) ∧ r.end_ ≤ fs := by
            unfold Recv.resetSizeErr at hse
            split at hse
            · rename_i fo hfo
              split at hse
              · cases hse
              · rename_i hne
                simp only [ne_eq, Decidable.not_not] at hne
                have := hle fo hfo
                exact ⟨fun fo' h' => by rw [hfo] at h'; simp only [Option.some.injEq] at h'; omega, by omega⟩
            · rename_i hfo
              split at hse
              · cases hse
              · exact ⟨fun fo' h' => (by rw [hfo] at h'; cases h'), by omega⟩
          refine ⟨?_, Nat.le_refl _, ?_⟩
          · intro fo hf
            have := hkey.1 fo hf
            simp [Recv.finalOffset, this]
          · intro fo hf
            simp only [Recv.finalOffset, Option.some.injEq] at hf
            subst hf
            exact hkey.2
    · exact ⟨fun fo h => h, Nat.le_refl _, hle⟩
  | stop =>
    simp only [rstep]
    split
    · rename_i cr ss r' hs
      obtain ⟨p1, p2⟩ := stop_spec hs
      have hf : r'.finalOffset = r.finalOffset := by simp only [Recv.finalOffset, p1]
      exact ⟨fun fo h => by rw [hf]; exact h, by omega, fun fo h => by rw [p2]; exact hle fo (hf ▸ h)⟩
    · exact ⟨fun fo h => h, Nat.le_refl _, hle⟩

theorem rrun_final : ∀ (ops : List RecvOp) (r : Recv), FinLe r →
    (∀ fo, r.finalOffset = some fo → (ops.foldl rstep r).finalOffset = some fo) ∧
    r.end_ ≤ (ops.foldl rstep r).end_ ∧ FinLe (ops.foldl rstep r) := by
  intro ops
  induction ops with
  | nil => intro r h; exact ⟨fun fo h => h, Nat.le_refl _, h⟩
  | cons op ops ih =>
    intro r h
    obtain ⟨a1, a2, a3⟩ := rstep_final r op h
    obtain ⟨b1, b2, b3⟩ := ih (rstep r op) a3
    simp only [List.foldl_cons]
    exact ⟨fun fo hf => b1 fo (a1 fo hf), Nat.le_trans a2 b2, b3⟩

theorem finLe_new (w : Nat) : FinLe (Recv.new w) := by
  intro fo h; simp [Recv.new, Recv.finalOffset] at h

end QM.E2E
