import QuinnModel.Lemmas.EndToEndRecv
/-
C01 end to end: the invariant holds in every reachable state; the property clauses as consequences.
-/
namespace QM.E2E
open QM QM.RangeSet
open QM.Assembler (stream delivered)

set_option pp.structureInstances false

theorem step_inv {g : Nat → Nat} {s s' : St} {ev : Ev} (i : Inv g s) (h : step s ev = some s')
    (hp : Pre g s'.sys.w) : Inv g s' := by
  cases ev with
  | write d limit => exact inv_write i h hp
  | finish => exact inv_finish i h
  | reset code => exact inv_reset i h
  | maxStreamData v => exact inv_maxStreamData i h
  | transmit n => exact inv_transmit i h
  | transmitReset => exact inv_transmitReset i h
  | ack a e fin => exact inv_ack i h
  | lose a e fin => exact inv_lose i h
  | ackReset => exact inv_ackReset i h
  | stopSending => exact inv_stopSending i h
  | deliver f r m al tm => exact inv_deliver i h
  | read max ordered obs => exact inv_read i h
  | openRead ordered => exact inv_openRead i h
  | stop code => exact inv_stop i h

/-- the written stream only ever grows by appending -/
theorem step_w {s s' : St} {ev : Ev} (h : step s ev = some s') : ∃ d, s'.sys.w = s.sys.w ++ d := by
  have triv : ∀ x : St, x.sys.w = s.sys.w → ∃ d, x.sys.w = s.sys.w ++ d := fun x hx => ⟨[], by simp [hx]⟩
  cases ev <;> simp only [step] at h
  case write d limit =>
    unfold write at h
    repeat' (split at h)
    all_goals first
      | (cases h; done)
      | (cases h; exact triv _ rfl)
      | (have hs := ‹SendBuffer.step s.sys _ = some _›; cases h; exact ⟨_, (sys_write hs).1⟩)
  case ack a e fin =>
    unfold ack at h
    repeat' (split at h)
    all_goals first
      | (cases h; done)
      | (cases h; exact triv _ rfl)
      | (have hs := ‹SendBuffer.step s.sys _ = some _›; cases h; exact triv _ (sys_ack hs).1)
  case lose a e fin =>
    unfold lose at h
    repeat' (split at h)
    all_goals first
      | (cases h; done)
      | (cases h; exact triv _ rfl)
      | (have hs := ‹SendBuffer.step s.sys _ = some _›; cases h; exact triv _ (sys_lose hs).1)
  case finish => unfold finish at h; repeat' (split at h)
                 all_goals first | (cases h; done) | (cases h; exact triv _ rfl)
  case reset => unfold reset at h; repeat' (split at h)
                all_goals first | (cases h; done) | (cases h; exact triv _ rfl)
  case maxStreamData => unfold maxStreamData at h; repeat' (split at h)
                        all_goals first | (cases h; done) | (cases h; exact triv _ rfl)
  case transmit => unfold transmit at h; repeat' (split at h)
                   all_goals first | (cases h; done) | (cases h; exact triv _ rfl)
  case transmitReset => unfold transmitReset at h; repeat' (split at h)
                        all_goals first | (cases h; done) | (cases h; exact triv _ rfl)
  case ackReset => unfold ackReset at h; repeat' (split at h)
                   all_goals first | (cases h; done) | (cases h; exact triv _ rfl)
  case stopSending => unfold stopSending at h; repeat' (split at h)
                      all_goals first | (cases h; done) | (cases h; exact triv _ rfl)
  case deliver => unfold deliver at h; repeat' (split at h)
                  all_goals first | (cases h; done) | (cases h; exact triv _ rfl)
  case read => unfold read at h; repeat' (split at h)
               all_goals first | (cases h; done) | (cases h; exact triv _ rfl)
  case openRead => unfold openRead at h; repeat' (split at h)
                   all_goals first | (cases h; done) | (cases h; exact triv _ rfl)
  case stop => unfold stop at h; repeat' (split at h)
               all_goals first | (cases h; done) | (cases h; exact triv _ rfl)

theorem run_w : ∀ (evs : List Ev) (s s' : St), run s evs = some s' → ∃ d, s'.sys.w = s.sys.w ++ d := by
  intro evs
  induction evs with
  | nil => intro s s' h; simp only [run, Option.some.injEq] at h; subst h; exact ⟨[], by simp⟩
  | cons ev evs ih =>
    intro s s' h
    simp only [run] at h
    split at h
    · rename_i s1 hs
      obtain ⟨d1, h1⟩ := step_w hs
      obtain ⟨d2, h2⟩ := ih s1 s' h
      exact ⟨d1 ++ d2, by rw [h2, h1, List.append_assoc]⟩
    · cases h

theorem run_inv {g : Nat → Nat} : ∀ (evs : List Ev) (s s' : St), Inv g s → run s evs = some s' →
    Pre g s'.sys.w → Inv g s' := by
  intro evs
  induction evs with
  | nil => intro s s' i h _; simp only [run, Option.some.injEq] at h; subst h; exact i
  | cons ev evs ih =>
    intro s s' i h hp
    simp only [run] at h
    split at h
    · rename_i s1 hs
      obtain ⟨d, hd⟩ := run_w evs s1 s' h
      have hp1 : Pre g s1.sys.w := by rw [hd] at hp; exact hp.of_append
      exact ih s1 s' (step_inv i hs hp1) h hp
    · cases h

/-- the invariant holds in every reachable state, for the ground stream made of the bytes written so far -/
theorem reach_inv {maxData window : Nat} {evs : List Ev} {s : St}
    (h : run (St.init maxData window) evs = some s) : Inv (ground s.sys.w) s :=
  run_inv evs _ _ (inv_init _ _ _) h (pre_ground _)

/-! ### the property clauses in a state that satisfies the invariant -/

theorem chunk_written {g : Nat → Nat} {s : St} (i : Inv g s) (c : Bool × Nat × Bytes) (hc : c ∈ s.asm.chunks) :
    c.2.2 = (s.sys.w.drop c.2.1).take c.2.2.length ∧ (c.2.2 ≠ [] → c.2.1 + c.2.2.length ≤ s.sys.w.length) := by
  have hcon := i.R.asmO.content c hc
  by_cases he : c.2.2 = []
  · exact ⟨by rw [he]; simp, fun h => absurd he h⟩
  · have hpos : 0 < c.2.2.length := List.length_pos_iff.mpr he
    have hr : Assembler.rangeOf c ∈ delivered s.asm := List.mem_map_of_mem hc
    have h1 := i.R.asmB.delB _ hr (by simp only [Assembler.rangeOf]; omega)
    have h2 := i.R.aend
    have h3 := i.R.rv_end
    have hle : c.2.1 + c.2.2.length ≤ s.sys.w.length := by simp only [Assembler.rangeOf] at h1; omega
    exact ⟨by rw [← i.S.wg.sub _ _ hle]; exact hcon, fun _ => hle⟩

theorem out_prefix {g : Nat → Nat} {s : St} (i : Inv g s) : s.asm.out <+: s.sys.w := by
  have h1 := i.R.asmO.out_eq
  have h2 : s.asm.out.length ≤ s.sys.w.length := Nat.le_trans i.R.out_le i.R.rv_end
  have h3 := i.S.wg.sub 0 s.asm.out.length (by omega)
  rw [h3, List.drop_zero] at h1
  rw [h1]
  exact List.take_prefix _ _

theorem eos_all {g : Nat → Nat} {s : St} (i : Inv g s) (he : s.eos = true) :
    s.finishedAt = some s.sys.w.length ∧ (∀ x, x < s.sys.w.length → mem x (delivered s.asm)) ∧
    (s.asm.a.unordered = false → s.asm.out = s.sys.w) := by
  obtain ⟨n, h1, h2⟩ := i.R.eos_ok he
  have hn := (i.S.fin_at n h1).1
  subst hn
  refine ⟨h1, h2, ?_⟩
  intro hu
  have hp := out_prefix i
  have hlen : s.sys.w.length ≤ s.asm.out.length := by
    rw [i.R.asmO.out_len hu]
    apply Nat.le_of_not_lt
    intro hlt
    have := i.R.asmX.ord hu _ (h2 _ hlt)
    omega
  obtain ⟨t, ht⟩ := hp
  have : t = [] := by
    have := congrArg List.length ht
    rw [List.length_append] at this
    exact List.length_eq_zero_iff.mp (by omega)
  rw [this, List.append_nil] at ht
  exact ht

theorem frames_ok {g : Nat → Nat} {s : St} (i : Inv g s) (f : Frame) (hf : f ∈ s.net) :
    match f with
    | .stream off bytes fin =>
      bytes = (s.sys.w.drop off).take bytes.length ∧ off + bytes.length ≤ s.sys.w.length ∧
      (fin = true → s.finishedAt = some s.sys.w.length ∧ off + bytes.length = s.sys.w.length)
    | .reset code fs => s.appReset = some code ∧ fs = s.sys.w.length := by
  cases f with
  | stream off bytes fin =>
    obtain ⟨b1, b2, b3⟩ := i.S.netS off bytes fin hf
    refine ⟨by rw [← i.S.wg.sub _ _ b2]; exact b1, b2, ?_⟩
    intro hfin
    have h1 := b3 hfin
    have h2 := (i.S.fin_at _ h1).1
    exact ⟨by rw [h1, h2], h2⟩
  | reset code fs => exact i.S.netR code fs hf

theorem forgotten_none {g : Nat → Nat} {s : St} (i : Inv g s) :
    (∀ x, x < s.sys.w.length →
      (SendBuffer.acked s.sys.sb x ∨ mem x s.sys.sb.retransmits ∨ mem x s.sys.F ∨ s.sys.sb.unsent ≤ x) ∧
      (SendBuffer.acked s.sys.sb x → ∃ off bytes fin, Frame.stream off bytes fin ∈ s.got ∧
        off ≤ x ∧ x < off + bytes.length) ∧
      (mem x s.sys.sb.retransmits ∨ s.sys.sb.unsent ≤ x → s.half.isPending = true)) ∧
    (s.live = true → s.half.state = .dataSent false →
      (s.half.finPending = true ∧ s.half.isPending = true) ∨ ∃ t ∈ s.T, t.2.2 = true) := by
  refine ⟨?_, ?_⟩
  · intro x hx
    have hx' : x < s.sys.sb.offset := by rw [← i.S.sb.wlen]; exact hx
    refine ⟨(SendBuffer.partition s.sys i.S.sb x hx').1, ?_, ?_⟩
    · intro ha
      obtain ⟨r, hr, h1, h2⟩ := (i.S.sb.ackedIff x).mp ha
      obtain ⟨b, fin, hb, hl⟩ := i.G.ackd_got r hr
      exact ⟨r.1, b, fin, hb, h1, by omega⟩
    · intro hq
      simp only [Streams.Send.isPending, i.S.pend, proj, Streams.SendBuf.hasUnsentData, Bool.or_eq_true,
        bne_iff_ne, ne_eq, Bool.not_eq_true', List.isEmpty_eq_false_iff]
      rcases hq with ⟨p, hp, _⟩ | hq
      · left; right; intro he; rw [he] at hp; cases hp
      · left; left; omega
  · intro hl hst
    rcases i.S.finLive hl hst with h | h
    · left; exact ⟨h, by simp [Streams.Send.isPending, h]⟩
    · exact Or.inr h

/-- the honest sender's frames never meet a final-size conflict at the receiver -/
theorem no_final_size_conflict {g : Nat → Nat} {s : St} (i : Inv g s) (f : Frame) (hf : f ∈ s.net) :
    match f with
    | .stream off bytes fin => ¬ s.rv.finalSizeConflict (off + bytes.length) fin
    | .reset _ fs => s.rv.resetSizeErr fs = none := by
  have hfinal : ∀ fo, s.rv.finalOffset = some fo → fo = s.sys.w.length := by
    intro fo hfo
    unfold Streams.Recv.finalOffset at hfo
    split at hfo
    · rename_i sz hst
      subst hfo
      exact (i.S.fin_at _ (i.R.rv_size _ hst)).1
    · rename_i sz c hst
      simp only [Option.some.injEq] at hfo
      subst hfo
      exact (i.R.rv_reset _ _ hst).2
  cases f with
  | stream off bytes fin =>
    obtain ⟨b1, b2, b3⟩ := i.S.netS off bytes fin hf
    have hre := i.R.rv_end
    simp only
    intro hc
    have hfe : fin = true → off + bytes.length = s.sys.w.length := fun h => (i.S.fin_at _ (b3 h)).1
    rcases hc with ⟨fo, hfo, h⟩ | ⟨hfin, hlt⟩
    · have := hfinal fo hfo
      rcases h with h | ⟨hfin, hne⟩
      · omega
      · have := hfe hfin; omega
    · have := hfe hfin; omega
  | reset code fs =>
    obtain ⟨b1, b2⟩ := i.S.netR code fs hf
    have hre := i.R.rv_end
    simp only
    unfold Streams.Recv.resetSizeErr
    split
    · rename_i fo hfo
      have := hfinal fo hfo
      rw [if_neg (by simp only [ne_eq, Decidable.not_not]; omega)]
    · rw [if_neg (by omega)]

end QM.E2E
