import QuinnModel.Conn.Lifecycle
namespace QM.Life

def Ev.isPacket : Ev → Bool
  | .pktErr .. | .peerClose .. | .peerCloseEarly .. | .closeFrameWhileClosed | .authed .. => true
  | _ => false

/-- well-driven history: once the connection is drained the endpoint has forgotten it, so no packet event
    reaches it any more (timeouts, polls and application calls may still happen) -/
def WD : L → List Ev → Prop
  | _, [] => True
  | l, e :: rest => (l.st = .drained → e.isPacket = false) ∧ WD (step l e) rest

/-- structural invariant of the lifecycle bookkeeping -/
structure Inv (l : L) : Prop where
  drainedTimers : l.st = .drained → l.closeTimer = none ∧ l.idleTimer = none
  closedNoIdle : l.st.isClosed = true → l.idleTimer = none
  drainedCount : l.drainedEv = if l.st = .drained then 1 else 0
  closingHasTimer : (l.st = .closed ∨ l.st = .draining) → l.closeTimer.isSome = true
  openNoCloseTimer : l.st.isClosed = false → l.closeTimer = none

theorem init_inv : Inv init := by
  refine ⟨?_, ?_, ?_, ?_, ?_⟩ <;> simp [init, St.isClosed]

theorem fireIdle_inv (l : L) (now : Nat) (h : Inv l) : Inv (fireIdle l now) := by
  obtain ⟨st, err, cf, ct, it, lost, dr, lc⟩ := l
  obtain ⟨h1, h2, h3, h4, h5⟩ := h
  cases it with
  | none => exact ⟨h1, h2, h3, h4, h5⟩
  | some t =>
    by_cases ht : t ≤ now
    · cases st <;> simp [fireIdle, ht, St.isClosed, stopTimers] at * <;>
        (refine ⟨?_, ?_, ?_, ?_, ?_⟩ <;> simp_all [St.isClosed])
    · simp only [fireIdle, ht, if_false]; exact ⟨h1, h2, h3, h4, h5⟩

theorem fireClose_inv (l : L) (now : Nat) (h : Inv l) : Inv (fireClose l now) := by
  obtain ⟨st, err, cf, ct, it, lost, dr, lc⟩ := l
  obtain ⟨h1, h2, h3, h4, h5⟩ := h
  cases ct with
  | none => exact ⟨h1, h2, h3, h4, h5⟩
  | some t =>
    by_cases ht : t ≤ now
    · cases st <;> simp [fireClose, ht, St.isClosed] at * <;>
        (refine ⟨?_, ?_, ?_, ?_, ?_⟩ <;> simp_all [St.isClosed])
    · simp only [fireClose, ht, if_false]; exact ⟨h1, h2, h3, h4, h5⟩

set_option maxRecDepth 4000 in
theorem step_inv (l : L) (e : Ev) (h : Inv l) (hd : l.st = .drained → e.isPacket = false) : Inv (step l e) := by
  obtain ⟨st, err, cf, ct, it, lost, dr, lc⟩ := l
  obtain ⟨h1, h2, h3, h4, h5⟩ := h
  cases e with
  | close now pto3 =>
    cases st <;> simp [step, St.isClosed, stopTimers] at * <;>
      (refine ⟨?_, ?_, ?_, ?_, ?_⟩ <;> simp_all [St.isClosed])
  | pktErr e now pto3 sp =>
    cases st <;> cases e <;> cases sp <;>
      simp [step, St.isClosed, stopTimers, afterPacket, Ev.isPacket] at * <;>
      (refine ⟨?_, ?_, ?_, ?_, ?_⟩ <;> simp_all [St.isClosed])
  | peerClose now pto3 =>
    cases st <;> simp [step, St.isClosed, stopTimers, afterPacket, Ev.isPacket] at * <;>
      (refine ⟨?_, ?_, ?_, ?_, ?_⟩ <;> simp_all [St.isClosed])  | peerCloseEarly now pto3 =>
    cases st <;> simp [step, St.isClosed, stopTimers, afterPacket, Ev.isPacket] at * <;>
      (refine ⟨?_, ?_, ?_, ?_, ?_⟩ <;> simp_all [St.isClosed])
  | closeFrameWhileClosed =>
    cases st <;> simp [step, St.isClosed, stopTimers, afterPacket, Ev.isPacket] at * <;>
      (refine ⟨?_, ?_, ?_, ?_, ?_⟩ <;> simp_all [St.isClosed])
  | established =>
    cases st <;> simp [step, St.isClosed] at * <;>
      (refine ⟨?_, ?_, ?_, ?_, ?_⟩ <;> simp_all [St.isClosed])
  | authed now idle =>
    cases st <;> simp [step, St.isClosed, Ev.isPacket] at * <;>
      (refine ⟨?_, ?_, ?_, ?_, ?_⟩ <;> simp_all [St.isClosed])
  | timeout now =>
    simp only [step]
    exact fireClose_inv _ now (fireIdle_inv _ now ⟨h1, h2, h3, h4, h5⟩)
  | poll =>
    cases st <;> cases err <;> simp [step, St.isClosed] at * <;>
      (refine ⟨?_, ?_, ?_, ?_, ?_⟩ <;> simp_all [St.isClosed])
  | pollTransmit =>
    cases st <;> cases cf <;> simp [step, St.isClosed] at * <;>
      (refine ⟨?_, ?_, ?_, ?_, ?_⟩ <;> simp_all [St.isClosed])

theorem run_inv (evs : List Ev) : ∀ l, Inv l → WD l evs → Inv (run l evs) := by
  induction evs with
  | nil => intro l h _; exact h
  | cons e rest ih => intro l h hw; exact ih _ (step_inv l e h hw.1) hw.2

/-! ### exactly-once and deadline consequences -/

theorem drained_count_le_one (evs : List Ev) (hw : WD init evs) : (run init evs).drainedEv ≤ 1 := by
  have h := (run_inv evs init init_inv hw).drainedCount
  rw [h]; split <;> omega

theorem drained_iff_notified (evs : List Ev) (hw : WD init evs) :
    (run init evs).st = .drained ↔ (run init evs).drainedEv = 1 := by
  have h := (run_inv evs init init_inv hw).drainedCount
  constructor
  · intro hd; rw [h]; simp [hd]
  · intro h1; rw [h] at h1; by_cases hd : (run init evs).st = .drained
    · exact hd
    · simp [hd] at h1

/-- closing state with the close timer at deadline `d`, or already drained -/
def Closing (d : Nat) (l : L) : Prop :=
  l.st = .drained ∨ ((l.st = .closed ∨ l.st = .draining) ∧ l.closeTimer = some d)

theorem step_closing (d : Nat) (l : L) (e : Ev) (hi : Inv l) (hd : l.st = .drained → e.isPacket = false)
    (h : Closing d l) : Closing d (step l e) := by
  obtain ⟨st, err, cf, ct, it, lost, dr, lc⟩ := l
  obtain ⟨h1, h2, h3, h4, h5⟩ := hi
  unfold Closing at *
  cases e with
  | close now pto3 => cases st <;> simp_all [step, St.isClosed, stopTimers]
  | pktErr e now pto3 sp =>
    cases st <;> cases e <;> cases sp <;> simp_all [step, St.isClosed, stopTimers, afterPacket, Ev.isPacket]
  | peerClose now pto3 => cases st <;> simp_all [step, St.isClosed, stopTimers, afterPacket, Ev.isPacket]  | peerCloseEarly now pto3 => cases st <;> simp_all [step, St.isClosed, stopTimers, afterPacket, Ev.isPacket]
  | closeFrameWhileClosed => cases st <;> simp_all [step, St.isClosed, stopTimers, afterPacket, Ev.isPacket]
  | established => cases st <;> simp_all [step, St.isClosed]
  | authed now idle => cases st <;> simp_all [step, St.isClosed, Ev.isPacket]
  | timeout now =>
    cases st <;> simp_all [step, St.isClosed, fireIdle, fireClose] <;> (try split) <;> simp_all
  | poll => cases st <;> cases err <;> simp_all [step, St.isClosed]
  | pollTransmit => cases st <;> cases cf <;> simp_all [step, St.isClosed]

theorem run_closing (d : Nat) (evs : List Ev) : ∀ l, Inv l → WD l evs → Closing d l → Closing d (run l evs) := by
  induction evs with
  | nil => intro l _ _ h; exact h
  | cons e rest ih =>
    intro l hi hw h
    exact ih _ (step_inv l e hi hw.1) hw.2 (step_closing d l e hi hw.1 h)

/-- servicing the timers at or after the deadline drains a closing connection -/
theorem timeout_drains (d now : Nat) (l : L) (hi : Inv l) (h : Closing d l) (hn : d ≤ now) :
    (step l (.timeout now)).st = .drained := by
  obtain ⟨st, err, cf, ct, it, lost, dr, lc⟩ := l
  obtain ⟨h1, h2, h3, h4, h5⟩ := hi
  unfold Closing at h
  cases st <;> simp_all [step, St.isClosed, fireIdle, fireClose]

theorem drained_step (l : L) (e : Ev) (hi : Inv l) (hd : l.st = .drained) (hp : e.isPacket = false) :
    (step l e).st = .drained := by
  obtain ⟨st, err, cf, ct, it, lost, dr, lc⟩ := l
  obtain ⟨g1, g2, g3, g4, g5⟩ := hi
  simp at hd; subst hd
  have ⟨gc, gi⟩ := g1 rfl
  simp at gc gi; subst gc; subst gi
  cases e <;> simp_all [step, St.isClosed, fireIdle, fireClose, Ev.isPacket]
  all_goals (first | (cases err <;> simp) | (cases cf <;> simp) | skip)

/-- a drained connection stays drained (given the endpoint no longer routes packets to it) -/
theorem drained_absorbing (evs : List Ev) : ∀ l, Inv l → WD l evs → l.st = .drained → (run l evs).st = .drained := by
  induction evs with
  | nil => intro l _ _ hd; exact hd
  | cons e rest ih =>
    intro l hi hw hd
    have hs := drained_step l e hi hd (hw.1 hd)
    exact ih (step l e) (step_inv l e hi hw.1) hw.2 hs

/-! ### ConnectionLost at most once: the guarded variant and the counterexample -/

/-- the step function with packet errors ignored once the connection is closed (what "report the reason
    exactly once" needs) -/
def stepG (l : L) (e : Ev) : L :=
  match e with
  | .pktErr .. => if l.st.isClosed then l else step l e
  | _ => step l e

def runG (l : L) (evs : List Ev) : L := evs.foldl stepG l

/-- no packet error is processed while the connection is already closed -/
def NoLateErr : L → List Ev → Prop
  | _, [] => True
  | l, e :: rest => (match e with | .pktErr .. => l.st.isClosed = false | _ => True) ∧ NoLateErr (step l e) rest

theorem run_eq_runG (evs : List Ev) : ∀ l, NoLateErr l evs → run l evs = runG l evs := by
  induction evs with
  | nil => intro l _; rfl
  | cons e rest ih =>
    intro l h
    have hs : stepG l e = step l e := by
      cases e <;> simp [stepG]
      rename_i e now pto3 sp
      have := h.1; simp at this; simp [this]
    simp only [run, runG, List.foldl_cons, hs]
    exact ih (step l e) h.2

def b2n (b : Bool) : Nat := if b then 1 else 0

/-- reports made + report pending ≤ 1, and nothing at all before the connection is closed -/
structure LostInv (l : L) : Prop where
  atMostOne : l.lost + b2n l.error ≤ 1
  openClean : l.st.isClosed = false → l.lost = 0 ∧ l.error = false
  closedNoIdle : l.st.isClosed = true → l.idleTimer = none
  openNoClose : l.st.isClosed = false → l.closeTimer = none

theorem fireIdle_lost (l : L) (now : Nat) (h : LostInv l) : LostInv (fireIdle l now) := by
  obtain ⟨st, err, cf, ct, it, lost, dr, lc⟩ := l
  obtain ⟨h1, h2, h3, h4⟩ := h
  cases it with
  | none => exact ⟨h1, h2, h3, h4⟩
  | some t =>
    by_cases ht : t ≤ now
    · cases st <;> simp_all [fireIdle, St.isClosed, stopTimers, b2n] <;>
        (refine ⟨?_, ?_, ?_, ?_⟩ <;> simp_all [St.isClosed, b2n])
    · simp only [fireIdle, ht, if_false]; exact ⟨h1, h2, h3, h4⟩

theorem fireClose_lost (l : L) (now : Nat) (h : LostInv l) : LostInv (fireClose l now) := by
  obtain ⟨st, err, cf, ct, it, lost, dr, lc⟩ := l
  obtain ⟨h1, h2, h3, h4⟩ := h
  cases ct with
  | none => exact ⟨h1, h2, h3, h4⟩
  | some t =>
    by_cases ht : t ≤ now
    · cases st <;> simp_all [fireClose, St.isClosed, b2n] <;>
        (refine ⟨?_, ?_, ?_, ?_⟩ <;> simp_all [St.isClosed, b2n])
    · simp only [fireClose, ht, if_false]; exact ⟨h1, h2, h3, h4⟩

theorem stepG_lost (l : L) (e : Ev) (h : LostInv l) : LostInv (stepG l e) := by
  obtain ⟨st, err, cf, ct, it, lost, dr, lc⟩ := l
  obtain ⟨h1, h2, h3, h4⟩ := h
  cases e with
  | close now pto3 => cases st <;> simp_all [stepG, step, St.isClosed, stopTimers, b2n] <;> (refine ⟨?_, ?_, ?_, ?_⟩ <;> simp_all [St.isClosed, b2n])
  | pktErr e now pto3 sp =>
    cases st <;> cases e <;> cases sp <;> simp_all [stepG, step, St.isClosed, stopTimers, afterPacket, b2n] <;>
      (refine ⟨?_, ?_, ?_, ?_⟩ <;> simp_all [St.isClosed, b2n])
  | peerClose now pto3 =>
    cases st <;> simp_all [stepG, step, St.isClosed, stopTimers, afterPacket, b2n] <;>
      (refine ⟨?_, ?_, ?_, ?_⟩ <;> simp_all [St.isClosed, b2n])  | peerCloseEarly now pto3 =>
    cases st <;> simp_all [stepG, step, St.isClosed, stopTimers, afterPacket, b2n] <;>
      (refine ⟨?_, ?_, ?_, ?_⟩ <;> simp_all [St.isClosed, b2n])
  | closeFrameWhileClosed =>
    cases st <;> simp_all [stepG, step, St.isClosed, stopTimers, afterPacket, b2n] <;>
      (refine ⟨?_, ?_, ?_, ?_⟩ <;> simp_all [St.isClosed, b2n])
  | established => cases st <;> simp_all [stepG, step, St.isClosed] <;> (refine ⟨?_, ?_, ?_, ?_⟩ <;> simp_all [St.isClosed, b2n])
  | authed now idle => cases st <;> simp_all [stepG, step, St.isClosed] <;> (refine ⟨?_, ?_, ?_, ?_⟩ <;> simp_all [St.isClosed, b2n])
  | timeout now =>
    simp only [stepG, step]
    exact fireClose_lost _ now (fireIdle_lost _ now ⟨h1, h2, h3, h4⟩)
  | poll =>
    cases st <;> cases err <;> simp_all [stepG, step, St.isClosed, b2n] <;>
      (refine ⟨?_, ?_, ?_, ?_⟩ <;> simp_all [St.isClosed, b2n]) <;> omega
  | pollTransmit =>
    cases st <;> cases cf <;> simp_all [stepG, step, St.isClosed, b2n] <;> (refine ⟨?_, ?_, ?_, ?_⟩ <;> simp_all [St.isClosed, b2n])

theorem runG_lost (evs : List Ev) : ∀ l, LostInv l → LostInv (runG l evs) := by
  induction evs with
  | nil => intro l h; exact h
  | cons e rest ih => intro l h; exact ih _ (stepG_lost l e h)

theorem init_lost : LostInv init := by
  refine ⟨?_, ?_, ?_, ?_⟩ <;> simp [init, b2n, St.isClosed]

/-- after a local close of an open connection nothing is ever reported (guarded model) -/
structure Silent (l : L) : Prop where
  closed : l.st.isClosed = true
  quiet : l.lost = 0 ∧ l.error = false
  noIdle : l.idleTimer = none

theorem stepG_silent (l : L) (e : Ev) (h : Silent l) : Silent (stepG l e) := by
  obtain ⟨st, err, cf, ct, it, lost, dr, lc⟩ := l
  obtain ⟨h1, h2, h3⟩ := h
  cases e with
  | close now pto3 => cases st <;> simp_all [stepG, step, St.isClosed] <;> (refine ⟨?_, ?_, ?_⟩ <;> simp_all [St.isClosed])
  | pktErr e now pto3 sp => cases st <;> simp_all [stepG, St.isClosed] <;> (refine ⟨?_, ?_, ?_⟩ <;> simp_all [St.isClosed])
  | peerClose now pto3 => cases st <;> simp_all [stepG, step, St.isClosed] <;> (refine ⟨?_, ?_, ?_⟩ <;> simp_all [St.isClosed])  | peerCloseEarly now pto3 => cases st <;> simp_all [stepG, step, St.isClosed] <;> (refine ⟨?_, ?_, ?_⟩ <;> simp_all [St.isClosed])
  | closeFrameWhileClosed =>
    cases st <;> simp_all [stepG, step, St.isClosed, afterPacket] <;> (refine ⟨?_, ?_, ?_⟩ <;> simp_all [St.isClosed])
  | established => cases st <;> simp_all [stepG, step, St.isClosed] <;> (refine ⟨?_, ?_, ?_⟩ <;> simp_all [St.isClosed])
  | authed now idle => cases st <;> simp_all [stepG, step, St.isClosed] <;> (refine ⟨?_, ?_, ?_⟩ <;> simp_all [St.isClosed])
  | timeout now =>
    cases st <;> cases ct <;> simp_all [stepG, step, St.isClosed, fireIdle, fireClose] <;>
      (try split) <;> (refine ⟨?_, ?_, ?_⟩ <;> simp_all [St.isClosed])
  | poll => cases st <;> simp_all [stepG, step, St.isClosed] <;> (refine ⟨?_, ?_, ?_⟩ <;> simp_all [St.isClosed])
  | pollTransmit => cases st <;> cases cf <;> simp_all [stepG, step, St.isClosed] <;> (refine ⟨?_, ?_, ?_⟩ <;> simp_all [St.isClosed])

theorem runG_silent (evs : List Ev) : ∀ l, Silent l → Silent (runG l evs) := by
  induction evs with
  | nil => intro l h; exact h
  | cons e rest ih => intro l h; exact ih _ (stepG_silent l e h)

theorem close_silent_start (l : L) (now pto3 : Nat) (hl : LostInv l) (ho : l.st.isClosed = false) :
    Silent (step l (.close now pto3)) := by
  obtain ⟨st, err, cf, ct, it, lost, dr, lc⟩ := l
  obtain ⟨h1, h2, h3, h4⟩ := hl
  cases st <;> simp_all [step, St.isClosed, stopTimers] <;> (refine ⟨?_, ?_, ?_⟩ <;> simp_all [St.isClosed])

/-- the closing packet is not held back by congestion control or pacing -/
theorem close_sends (queued : Bool) (lp : Nat) (cc pacing : Bool) (hfix : Gen.closeClearsAckEliciting = true) :
    sendsDatagram true queued lp false cc pacing = true := by
  simp [sendsDatagram, hfix]

end QM.Life
