import QuinnModel.Lemmas.TokenPayload
/- The validation decision `IncomingToken::from_header` under ideal AEAD. -/
namespace QM.Token
open QM

theorem Addr.wire_valid {a : Addr} (h : a.Valid) : a.wire.Valid := by
  unfold Addr.Valid at *; simpa using h

theorem Payload.wire_valid {p : Payload} (h : p.Valid) : p.wire.Valid := by
  cases p with
  | retry a c i => exact ⟨Addr.wire_valid h.1, h.2⟩
  | validation ip i => exact h

/-! ### `Token::decode` under ideal AEAD -/

section Decode
variable (A : Aead) (key : Nat) (S : Nat → Bytes → Prop) (hA : Ideal A key S)
  (hS : ∀ n pt, S n pt → WF pt)
include hA hS

/-- whatever `decode` gets the AEAD to open is, byte for byte, a string sealed under `key` -/
theorem decode_opened (token : Bytes) (hT : WF token) (data : Bytes)
    (hl : ¬ token.length < Gen.tokenNonceBytes)
    (ho : A.openWith key (leVal (token.drop (token.length - Gen.tokenNonceBytes)))
      (token.take (token.length - Gen.tokenNonceBytes)) = some data) :
    ∃ n, n < 2 ^ 128 ∧ n = leVal (token.drop (token.length - Gen.tokenNonceBytes)) ∧ S n data ∧ WF data ∧
      token = A.sealWith key n data ++ leBytes Gen.tokenNonceBytes n := by
  unfold Gen.tokenNonceBytes at *
  have ⟨hs, hseal⟩ := hA.open_only _ _ _ ho
  have hdl : (token.drop (token.length - 16)).length = 16 := by rw [List.length_drop]; omega
  have hlt := leVal_lt _ (WF_drop (token.length - 16) hT)
  rw [hdl] at hlt
  have hcanon := leBytes_leVal _ (WF_drop (token.length - 16) hT)
  rw [hdl] at hcanon
  refine ⟨_, by simpa using hlt, rfl, hs, hS _ _ hs, ?_⟩
  rw [hcanon, ← hseal, List.take_append_drop]

omit hS in
/-- token round trip: what `encode` produced decodes to the nonce and the wire form of the payload -/
theorem decode_encode (n : Nat) (p : Payload) (hn : n < 2 ^ 128) (hv : p.Valid) (hs : S n (encodePayload p)) :
    decode A key (encode A key n p) = .ok (n, p.wire) := by
  unfold decode encode
  have hnl : (leBytes Gen.tokenNonceBytes n).length = Gen.tokenNonceBytes := leBytes_length _ _
  have hl : ¬ (A.sealWith key n (encodePayload p) ++ leBytes Gen.tokenNonceBytes n).length < Gen.tokenNonceBytes := by
    rw [List.length_append, hnl]; omega
  have hstart : (A.sealWith key n (encodePayload p) ++ leBytes Gen.tokenNonceBytes n).length - Gen.tokenNonceBytes
      = (A.sealWith key n (encodePayload p)).length := by
    rw [List.length_append, hnl]; omega
  have hval : leVal (leBytes Gen.tokenNonceBytes n) = n := by
    rw [leVal_leBytes]; unfold Gen.tokenNonceBytes; exact Nat.mod_eq_of_lt (by simpa using hn)
  simp only [hl, if_false, hstart, List.take_left, List.drop_left, hval, hA.open_seal n _ hs,
    decodePayload_encodePayload p hv]

/-- what decodes was produced by `encode` under this key from a well-formed payload -/
theorem decode_sound (token : Bytes) (hT : WF token) (n : Nat) (p : Payload)
    (h : decode A key token = .ok (n, p)) :
    n < 2 ^ 128 ∧ p.Valid ∧ p.wire = p ∧ S n (encodePayload p) ∧ token = encode A key n p := by
  unfold decode at h
  by_cases hl : token.length < Gen.tokenNonceBytes
  · simp [hl] at h
  · simp only [hl, if_false] at h
    cases ho : A.openWith key (leVal (token.drop (token.length - Gen.tokenNonceBytes)))
        (token.take (token.length - Gen.tokenNonceBytes)) with
    | none => simp [ho] at h
    | some data =>
      obtain ⟨m, hm, hmn, hs, hw, htok⟩ := decode_opened A key S hA hS token hT data hl ho
      simp only [ho] at h
      cases hd : decodePayload data with
      | panic => simp [hd] at h
      | none => simp [hd] at h
      | ok q =>
        simp only [hd, Res.ok.injEq, Prod.mk.injEq] at h
        obtain ⟨hn, rfl⟩ := h
        have ⟨hdata, hv, hwire⟩ := decodePayload_sound data hw q hd
        subst hdata
        rw [← hn, ← hmn]
        exact ⟨hm, hv, hwire, hs, htok⟩

/-- a string that is not byte-for-byte one sealed under `key` does not decode -/
theorem decode_none_of_forged (token : Bytes) (hT : WF token)
    (hf : ∀ n pt, S n pt → token ≠ A.sealWith key n pt ++ leBytes Gen.tokenNonceBytes n) :
    decode A key token = .none := by
  unfold decode
  by_cases hl : token.length < Gen.tokenNonceBytes
  · simp [hl]
  · simp only [hl, if_false]
    cases ho : A.openWith key (leVal (token.drop (token.length - Gen.tokenNonceBytes)))
        (token.take (token.length - Gen.tokenNonceBytes)) with
    | none => rfl
    | some data =>
      obtain ⟨m, _, _, hs, _, htok⟩ := decode_opened A key S hA hS token hT data hl ho
      exact absurd htok (hf m data hs)

end Decode

/-! ### `from_header` -/

/-- `issued + lifetime` is a representable `SystemTime` and is not before `now` -/
def Fresh (issuedSecs lifetime now : Nat) : Prop :=
  issuedSecs * SysTime.nsPerSec + lifetime < SysTime.limit ∧ ¬ issuedSecs * SysTime.nsPerSec + lifetime < now

/-- what `from_header` requires of the content of a genuine token -/
def Accepts {σ : Type} (cfg : Cfg) (log : σ → Nat → Nat → Nat → Option (σ × Bool)) (ls : σ) (remote : Addr)
    (now nonce : Nat) : Payload → Prop
  | .retry a _ i => a.wire = remote ∧ Fresh i cfg.retryLifetime now
  | .validation ip i => ip = remote.ip ∧ Fresh i cfg.validationLifetime now ∧
      ∃ ls', log ls nonce (i * SysTime.nsPerSec) cfg.validationLifetime = some (ls', true)

section FromHeader
variable {σ : Type} (A : Aead) (cfg : Cfg) (log : σ → Nat → Nat → Nat → Option (σ × Bool)) (ls : σ)
  (token dcid : Bytes) (remote : Addr) (now : Nat)

theorem fromHeader_none (hd : decode A cfg.key token = .none) :
    fromHeader A cfg log ls token dcid remote now = (ls, .ok (unvalidated dcid)) := by
  unfold fromHeader
  split
  · rfl
  · rw [hd]

theorem token_nonempty_of_decode_ok {x : Nat × Payload} (hd : decode A cfg.key token = .ok x) :
    token.isEmpty = false := by
  cases token with
  | nil => simp [decode, Gen.tokenNonceBytes] at hd
  | cons _ _ => rfl

/-- the decision, given what the token decodes to -/
theorem validated_of_decode (n : Nat) (p : Payload) (hd : decode A cfg.key token = .ok (n, p)) (hw : p.wire = p) :
    (∃ ls' inc, fromHeader A cfg log ls token dcid remote now = (ls', .ok inc) ∧ inc.validated = true)
      ↔ Accepts cfg log ls remote now n p := by
  have hne := token_nonempty_of_decode_ok A cfg token hd
  unfold fromHeader
  simp only [hne, Bool.false_eq_true, if_false, hd]
  cases p with
  | retry a c i =>
    have hwa : a.wire = a := by simpa [Payload.wire] using hw
    simp only [Accepts, Fresh, hwa]
    by_cases hm : a = remote
    · simp only [hm, ne_eq, not_true_eq_false, if_false, true_and]
      by_cases hr : i * SysTime.nsPerSec + cfg.retryLifetime < SysTime.limit
      · simp only [SysTime.add_some _ _ hr, hr, true_and, Gen.tokenRetryExpired]
        by_cases he : i * SysTime.nsPerSec + cfg.retryLifetime < now
        · simp [he]
        · simp only [he, decide_false, Bool.false_eq_true, if_false, not_false_eq_true, iff_true]
          exact ⟨ls, _, rfl, rfl⟩
      · simp [SysTime.add_none _ _ hr, hr]
    · simp [hm]
  | validation ip i =>
    simp only [Accepts, Fresh]
    by_cases hm : ip = remote.ip
    · simp only [hm, ne_eq, not_true_eq_false, if_false, true_and]
      by_cases hr : i * SysTime.nsPerSec + cfg.validationLifetime < SysTime.limit
      · simp only [SysTime.add_some _ _ hr, hr, true_and, Gen.tokenValidationExpired]
        by_cases he : i * SysTime.nsPerSec + cfg.validationLifetime < now
        · simp [he, unvalidated]
        · simp only [he, decide_false, Bool.false_eq_true, if_false, not_false_eq_true, true_and]
          cases hlog : log ls n (i * SysTime.nsPerSec) cfg.validationLifetime with
          | none => simp
          | some r =>
            obtain ⟨ls1, acc⟩ := r
            cases acc with
            | false => simp [unvalidated]
            | true =>
              simp only [if_true, Option.some.injEq, Prod.mk.injEq, and_true, exists_eq', iff_true]
              exact ⟨ls1, _, ⟨rfl, rfl⟩, rfl⟩
      · simp [SysTime.add_none _ _ hr, hr]
    · simp [hm, unvalidated]


theorem fromHeader_panic (hd : decode A cfg.key token = .panic) :
    fromHeader A cfg log ls token dcid remote now = (ls, .panic) ∨
      fromHeader A cfg log ls token dcid remote now = (ls, .ok (unvalidated dcid)) := by
  unfold fromHeader
  split
  · exact Or.inr rfl
  · rw [hd]; exact Or.inl rfl

theorem accepts_wire (n : Nat) (p : Payload) :
    Accepts cfg log ls remote now n p.wire ↔ Accepts cfg log ls remote now n p := by
  cases p <;> simp [Payload.wire, Accepts]

/-- a genuine Retry token is answered with INVALID_TOKEN exactly when it is moved or stale -/
theorem invalid_of_decode (n : Nat) (p : Payload) (hd : decode A cfg.key token = .ok (n, p)) (hw : p.wire = p)
    (hnow : now < SysTime.limit) :
    (∃ ls', fromHeader A cfg log ls token dcid remote now = (ls', .invalidRetry))
      ↔ ∃ a c i, p = .retry a c i ∧ (a.wire ≠ remote ∨ i * SysTime.nsPerSec + cfg.retryLifetime < now) := by
  have hne := token_nonempty_of_decode_ok A cfg token hd
  unfold fromHeader
  simp only [hne, Bool.false_eq_true, if_false, hd]
  cases p with
  | retry a c i =>
    have hwa : a.wire = a := by simpa [Payload.wire] using hw
    constructor
    · rintro ⟨ls', h⟩
      refine ⟨a, c, i, rfl, ?_⟩
      rw [hwa]
      by_cases hm : a = remote
      · right
        simp only [hm, ne_eq, not_true_eq_false, if_false] at h
        by_cases hr : i * SysTime.nsPerSec + cfg.retryLifetime < SysTime.limit
        · simp only [SysTime.add_some _ _ hr, Gen.tokenRetryExpired] at h
          by_cases he : i * SysTime.nsPerSec + cfg.retryLifetime < now
          · exact he
          · simp [he] at h
        · simp [SysTime.add_none _ _ hr] at h
      · left; exact hm
    · rintro ⟨a', c', i', heq, hcond⟩
      obtain ⟨rfl, rfl, rfl⟩ := Payload.retry.inj heq
      rw [hwa] at hcond
      by_cases hm : a = remote
      · have he : i * SysTime.nsPerSec + cfg.retryLifetime < now := by
          rcases hcond with h1 | h2
          · exact absurd hm h1
          · exact h2
        have hr : i * SysTime.nsPerSec + cfg.retryLifetime < SysTime.limit := by omega
        exact ⟨ls, by simp [hm, SysTime.add_some _ _ hr, Gen.tokenRetryExpired, he]⟩
      · exact ⟨ls, by simp [hm]⟩
  | validation ip i =>
    simp only [reduceCtorEq, false_and, exists_false, iff_false, not_exists]
    intro ls'
    split
    · simp
    · split
      · simp
      · split
        · simp
        · split
          · simp
          · split <;> simp

end FromHeader


/-! ### the C14 statements about `from_header` -/

section Main
variable {σ : Type} (A : Aead) (S : Nat → Bytes → Prop) (cfg : Cfg) (hA : Ideal A cfg.key S)
  (hS : ∀ n pt, S n pt → WF pt)
  (log : σ → Nat → Nat → Nat → Option (σ × Bool)) (ls : σ)
  (token dcid : Bytes) (remote : Addr) (now : Nat) (hT : WF token)
include hA hS hT

theorem token_validates_iff :
    (∃ ls' inc, fromHeader A cfg log ls token dcid remote now = (ls', .ok inc) ∧ inc.validated = true) ↔
      ∃ n p, n < 2 ^ 128 ∧ p.Valid ∧ S n (encodePayload p) ∧ token = encode A cfg.key n p ∧
        Accepts cfg log ls remote now n p := by
  constructor
  · rintro ⟨ls', inc, h, hv⟩
    cases hd : decode A cfg.key token with
    | panic =>
      rcases fromHeader_panic A cfg log ls token dcid remote now hd with h1 | h1
      · rw [h1] at h; simp at h
      · rw [h1] at h
        simp only [Prod.mk.injEq, Decision.ok.injEq] at h
        rw [← h.2] at hv; simp [unvalidated] at hv
    | none =>
      rw [fromHeader_none A cfg log ls token dcid remote now hd] at h
      simp only [Prod.mk.injEq, Decision.ok.injEq] at h
      rw [← h.2] at hv; simp [unvalidated] at hv
    | ok x =>
      obtain ⟨n, p⟩ := x
      obtain ⟨hn, hval, hwire, hs, htok⟩ := decode_sound A cfg.key S hA hS token hT n p hd
      exact ⟨n, p, hn, hval, hs, htok,
        (validated_of_decode A cfg log ls token dcid remote now n p hd hwire).mp ⟨ls', inc, h, hv⟩⟩
  · rintro ⟨n, p, hn, hval, hs, rfl, hacc⟩
    have hd := decode_encode A cfg.key S hA n p hn hval hs
    exact (validated_of_decode A cfg log ls _ dcid remote now n p.wire hd (Payload.wire_wire p)).mpr
      ((accepts_wire cfg log ls remote now n p).mpr hacc)

theorem altered_token_is_absent
    (hf : ∀ n pt, S n pt → token ≠ A.sealWith cfg.key n pt ++ leBytes Gen.tokenNonceBytes n) :
    fromHeader A cfg log ls token dcid remote now = (ls, .ok (unvalidated dcid)) :=
  fromHeader_none A cfg log ls token dcid remote now (decode_none_of_forged A cfg.key S hA hS token hT hf)

theorem bad_retry_iff (hnow : now < SysTime.limit) :
    (∃ ls', fromHeader A cfg log ls token dcid remote now = (ls', .invalidRetry)) ↔
      ∃ n a c i, n < 2 ^ 128 ∧ (Payload.retry a c i).Valid ∧ S n (encodePayload (.retry a c i)) ∧
        token = encode A cfg.key n (.retry a c i) ∧
        (a.wire ≠ remote ∨ i * SysTime.nsPerSec + cfg.retryLifetime < now) := by
  constructor
  · rintro ⟨ls', h⟩
    cases hd : decode A cfg.key token with
    | panic =>
      rcases fromHeader_panic A cfg log ls token dcid remote now hd with h1 | h1 <;>
        (rw [h1] at h; simp at h)
    | none =>
      rw [fromHeader_none A cfg log ls token dcid remote now hd] at h; simp at h
    | ok x =>
      obtain ⟨n, p⟩ := x
      obtain ⟨hn, hval, hwire, hs, htok⟩ := decode_sound A cfg.key S hA hS token hT n p hd
      obtain ⟨a, c, i, rfl, hc⟩ :=
        (invalid_of_decode A cfg log ls token dcid remote now n p hd hwire hnow).mp ⟨ls', h⟩
      exact ⟨n, a, c, i, hn, hval, hs, htok, hc⟩
  · rintro ⟨n, a, c, i, hn, hval, hs, rfl, hc⟩
    have hd := decode_encode A cfg.key S hA n (.retry a c i) hn hval hs
    refine (invalid_of_decode A cfg log ls _ dcid remote now n _ hd (Payload.wire_wire _) hnow).mpr
      ⟨a.wire, c, i, rfl, ?_⟩
    simpa using hc

/-- a token sealed under another key whose sealed strings never coincide with ours is absent -/
theorem foreign_key_token_is_absent (k' n : Nat) (p : Payload)
    (hsep : ∀ m pt, A.sealWith cfg.key m pt ≠ A.sealWith k' n (encodePayload p))
    (htok : token = encode A k' n p) :
    fromHeader A cfg log ls token dcid remote now = (ls, .ok (unvalidated dcid)) := by
  apply altered_token_is_absent A S cfg hA hS log ls token dcid remote now hT
  intro m pt _ heq
  rw [htok] at heq
  unfold encode at heq
  have := (List.append_inj' heq (by rw [leBytes_length, leBytes_length])).1
  exact hsep m pt this.symm

end Main

/-- O1: `SocketAddr` equality includes flowinfo / scope id, which the token does not carry: from a
    remote address with a non-zero scope id (or flowinfo) no Retry token can validate -/
theorem retry_never_accepted_from_scoped {σ : Type} (cfg : Cfg) (log : σ → Nat → Nat → Nat → Option (σ × Bool))
    (ls : σ) (remote : Addr) (now n : Nat) (a : Addr) (c : Bytes) (i : Nat) (hr : remote.wire ≠ remote) :
    ¬ Accepts cfg log ls remote now n (.retry a c i) := by
  rintro ⟨h, _⟩
  apply hr
  rw [← h]; simp

end QM.Token
