import QuinnModel.Lemmas.StreamsC06Ops
import QuinnModel.Lemmas.StreamsC05Facts
/-
C06 — the receiver invariant and the credit balance hold in every reachable state.
-/
namespace QM.Streams
set_option pp.structureInstances false

/-- operations that act on the receiving side's accounting -/
def Op.isRecvOp : Op → Bool
  | .stream .. | .rst .. | .read .. | .stop .. | .recvReset _ | .recvWindow _ | .ctrl => true
  | _ => false

/-- every other operation leaves the receiver view unchanged -/
theorem rvw_step {s s' : State} {o : Op} {out : Out} (h : step s o = some (s', out))
    (hc : o.isRecvOp = false) (hr : o.isRestart = false) : s'.rvw = s.rvw := by
  cases o <;> simp [Op.isRecvOp, Op.isRestart] at hc hr
  case params p => unstep h; rw [← h.1]; rfl
  case conn c => unstep h; rw [← h.1]; rfl
  case open_ d => unstep h; obtain ⟨s1, r, h1, h2, _⟩ := h; rw [← h2]; exact rvw_open h1
  case accept d => unstep h; rw [← h.1]; exact rvw_accept s d
  case write id n => unstep h; obtain ⟨s1, r, h1, h2, _⟩ := h; rw [← h2]; exact rvw_write h1
  case finish id => unstep h; rw [← h.1]; exact rvw_finish (r := (s.finish id).2) rfl
  case reset id code => unstep h; obtain ⟨s1, b, h1, h2, _⟩ := h; rw [← h2]; exact rvw_reset h1
  case stopped id => unstep h; rw [← h.1]
  case prio id p => unstep h; rw [← h.1]; exact rvw_setPriority (b := (s.setPriority id p).2) rfl
  case stopSending id code => unstep h; rw [← h.1]; exact rvw_receivedStopSending s id code
  case maxData n => unstep h; rw [← h.1]; rfl
  case maxStreamData id n =>
    unstep h; obtain ⟨s1, e, h1, h2, _⟩ := h; rw [← h2]; exact rvw_receivedMaxStreamData h1
  case maxStreams d n => unstep h; rw [← h.1]; exact rvw_receivedMaxStreams s d n
  case ack id a e fin => unstep h; obtain ⟨s1, h1, h2, _⟩ := h; rw [← h2]; exact rvw_receivedAckOf h1
  case lost id a e fin => unstep h; obtain ⟨s1, h1, h2, _⟩ := h; rw [← h2]; exact rvw_retransmit h1
  case rstAck id => unstep h; obtain ⟨s1, h1, h2, _⟩ := h; rw [← h2]; exact rvw_resetAcked h1
  case poll => unstep h; obtain ⟨s1, e, h1, h2, _⟩ := h; rw [← h2]; exact rvw_poll h1
  case transmit mb fair =>
    unstep h; obtain ⟨s1, l, fs, h1, h2, _⟩ := h; rw [← h2]; exact rvw_writeStreamFrames _ _ _ h1
  case canSend => unstep h; rw [← h.1]
  case canFlow id => unstep h; rw [← h.1]
  case queueMaxStreamId =>
    unstep h; obtain ⟨s1, b, h1, h2, _⟩ := h; rw [← h2]; exact rvw_queueMaxStreamId h1
  case pendMaxData => unstep h; rw [← h.1]; rfl
  case pendMaxStreamData id => unstep h; rw [← h.1]; rfl
  case pendMaxStreamId d => unstep h; rw [← h.1]; rfl
  case sendWindow n => unstep h; rw [← h.1]; rfl
  case maxConcurrent d n =>
    unstep h; obtain ⟨s1, h1, h2, _⟩ := h; rw [← h2]; exact rvw_setMaxConcurrent h1
  case rtx0 => unstep h; obtain ⟨s1, h1, h2, _⟩ := h; rw [← h2]; exact rvw_retransmitAllFor0rtt h1
  case view => unstep h; rw [← h.1]

theorem discarded_other (s : State) (o : Op) (out : Out) (hc : o.isRecvOp = false) : discarded s o out = 0 := by
  cases o <;> simp [Op.isRecvOp] at hc <;> rfl

/-- reachable states with the receiver-side ghosts: `C` = stream bytes consumed or discarded so far,
    `W` = largest connection receive window configured so far, `U` = saturating arithmetic never took
    effect -/
inductive ReachR (c : Config) : State → Nat → Nat → Prop → Prop
  | init {s0 : State} : State.new c = some s0 → ReachR c s0 0 c.receiveWindow True
  | step {s s' : State} {C W : Nat} {U : Prop} {o : Op} {out : Out} :
      ReachR c s C W U → o.isRestart = false → step s o = some (s', out) →
      ReachR c s' (C + discarded s o out)
        (Nat.max W (match o with | .recvWindow n => n | _ => 0)) (U ∧ Unsat s')

theorem new_rvw {c : Config} {s0 : State} (h : State.new c = some s0) :
    s0.rvw = ⟨⟨0, c.receiveWindow, c.receiveWindow, 0, c.streamReceiveWindow⟩, fun _ => none⟩ := by
  unfold State.new at h
  osplit h
  have f1 := rvw_insertRemoteRange _ ‹State.insertRemoteRange _ Dir.bi _ _ _ = some _›
  have f2 := rvw_insertRemoteRange _ h
  rw [f2, f1]
  rfl

/-- **the receiver invariant holds in every reachable state, and so does the credit balance as long
    as no saturating addition took effect** -/
theorem reachR_inv {c : Config} {s : State} {C W : Nat} {U : Prop} (r : ReachR c s C W U)
    (hc : c.receiveWindow < 2 ^ 62) : RInv s ∧ (U → Bal s C) := by
  induction r with
  | init h0 =>
    have hv := new_rvw h0
    constructor
    · unfold RInv; rw [hv]
      exact ⟨by simp only; omega, Nat.zero_le _, fun id r hr => by simp at hr⟩
    · intro _
      have hcore : _ := congrArg RView.core hv
      simp only [State.rvw, State.rcore, RCore.mk.injEq] at hcore
      unfold Bal; omega
  | step r hr hs ih =>
    rename_i s s' C W U o out
    obtain ⟨i, b⟩ := ih
    by_cases hro : o.isRecvOp = true
    · cases o <;> simp [Op.isRecvOp] at hro
      case stream id off len fin =>
        unstep hs; obtain ⟨s1, res, h1, rfl, rfl⟩ := hs
        obtain ⟨i', b'⟩ := received_step h1 i
        exact ⟨i', fun u => b' C (b u.1) u.2⟩
      case rst id code fo =>
        unstep hs; obtain ⟨s1, res, h1, rfl, rfl⟩ := hs
        obtain ⟨i', b'⟩ := receivedReset_step h1 i
        exact ⟨i', fun u => b' C (b u.1) u.2⟩
      case read id budget =>
        unstep hs; obtain ⟨s1, res, h1, rfl, rfl⟩ := hs
        obtain ⟨i', b'⟩ := read_step h1 i
        refine ⟨i', fun u => ?_⟩
        have := b' C (b u.1) u.2
        cases res <;> exact this
      case stop id code =>
        unstep hs; obtain ⟨s1, ok, h1, rfl, rfl⟩ := hs
        obtain ⟨i', b'⟩ := stop_step h1 i
        exact ⟨i', fun u => b' C (b u.1) u.2⟩
      case recvReset id =>
        unstep hs; obtain ⟨s1, res, h1, rfl, rfl⟩ := hs
        obtain ⟨i', b'⟩ := recvReceivedReset_step h1 i
        refine ⟨i', fun u => ?_⟩
        have := b' C (b u.1)
        cases res <;> exact this
      case recvWindow n =>
        unstep hs; obtain ⟨rfl, rfl⟩ := hs
        obtain ⟨i', b'⟩ := setReceiveWindow_step s n i
        exact ⟨i', fun u => by simpa [discarded] using b' C (b u.1) u.2⟩
      case ctrl =>
        unstep hs; obtain ⟨s1, fs, h1, rfl, rfl⟩ := hs
        obtain ⟨i', hc'⟩ := writeControlFrames_step h1 i
        refine ⟨i', fun u => ?_⟩
        simp only [State.rcore, RCore.mk.injEq] at hc'
        have := b u.1
        simp only [discarded, Nat.add_zero]
        unfold Bal at *; omega
    · have hro' : o.isRecvOp = false := by simpa using hro
      have hv := rvw_step hs hro' hr
      rw [discarded_other s o out hro', Nat.add_zero]
      exact ⟨RInv.of_rvw hv i, fun u => Bal.of_rvw hv (b u.1)⟩

/-- configured window plus unpaid shrink debt never exceeds the largest window configured so far
    (an expansion first cancels unpaid debt) -/
theorem reachR_window {c : Config} {s : State} {C W : Nat} {U : Prop} (r : ReachR c s C W U) :
    s.receiveWindow + s.receiveWindowShrinkDebt ≤ W := by
  induction r with
  | init h0 =>
    have hcore := congrArg RView.core (new_rvw h0)
    simp only [State.rvw, State.rcore, RCore.mk.injEq] at hcore
    omega
  | step r hr hs ih =>
    rename_i s s' C W U o out
    have hmono : ∀ {x : State}, WDV s.wdv x.wdv → ∀ n, x.receiveWindow + x.receiveWindowShrinkDebt ≤ Nat.max W n := by
      intro x hx n
      have h1 : x.receiveWindow = s.receiveWindow := hx.1
      have h2 : x.receiveWindowShrinkDebt ≤ s.receiveWindowShrinkDebt := hx.2
      simp only [natMax_eq]; omega
    by_cases hro : o.isRecvOp = true
    · cases o <;> simp [Op.isRecvOp] at hro
      case stream id off len fin =>
        unstep hs; obtain ⟨s1, res, h1, rfl, _⟩ := hs; exact hmono (wdv_received h1) _
      case rst id code fo =>
        unstep hs; obtain ⟨s1, res, h1, rfl, _⟩ := hs; exact hmono (wdv_receivedReset h1) _
      case read id budget =>
        unstep hs; obtain ⟨s1, res, h1, rfl, _⟩ := hs; exact hmono (wdv_read h1) _
      case stop id code =>
        unstep hs; obtain ⟨s1, ok, h1, rfl, _⟩ := hs; exact hmono (wdv_stop h1) _
      case recvReset id =>
        unstep hs; obtain ⟨s1, res, h1, rfl, _⟩ := hs; exact hmono (wdv_recvReceivedReset h1) _
      case recvWindow n =>
        unstep hs; obtain ⟨rfl, _⟩ := hs
        exact setReceiveWindow_wd s n W ih
      case ctrl =>
        unstep hs; obtain ⟨s1, fs, h1, rfl, _⟩ := hs
        have hc : s1.rcore = s.rcore := by
          -- the flush touches neither the window nor the debt (no invariant needed for that)
          unfold State.writeControlFrames at h1
          dsimp only at h1
          split at h1
          · contradiction
          · rename_i s3 msd hm
            simp only [Option.some.injEq, Prod.mk.injEq] at h1
            rw [← h1.1]
            have e1 : ∀ (x : State) (d : Dir), (x.ctrlMaxStreams d).1.rcore = x.rcore := by
              intro x d; unfold State.ctrlMaxStreams; split <;> rfl
            have e2 : ∀ (x : State) (d : Dir), (x.ctrlStreamsBlocked d).1.rcore = x.rcore := by
              intro x d; unfold State.ctrlStreamsBlocked State.ctrlMoveBlocked
              dsimp only; split <;> split <;> rfl
            have e3 : ∀ (l : List Nat) (x x' : State) (acc fs : List CtrlFrame),
                x.ctrlMsd l acc = some (x', fs) → x'.rcore = x.rcore := by
              intro l
              induction l with
              | nil => intro x x' acc fs hh; simp [State.ctrlMsd] at hh; rw [← hh.1]
              | cons id rest ihl =>
                intro x x' acc fs hh
                unfold State.ctrlMsd at hh
                osplit hh
                all_goals first
                  | exact ihl _ _ _ _ hh
                  | via ihl _ _ _ _ hh
            rw [e2, e2, e1, e1, e3 _ _ _ _ _ hm]
            unfold State.ctrlMaxData; split <;> rfl
        exact hmono (WDV.of_eq (wdv_of_rcore hc)) _
    · have hro' : o.isRecvOp = false := by simpa using hro
      have hv := rvw_step hs hro' hr
      exact hmono (WDV.of_eq (wdv_of_rvw hv)) _

end QM.Streams
