import QuinnModel.Lemmas.StreamsBasic
/-
Sender-view lemmas: the helpers of the stream-layer model that belong to the receiving side, to
stream-count bookkeeping and to event/queue handling do not change the sender view `vw` at all.
-/
namespace QM.Streams
set_option pp.structureInstances false

theorem cv_mapInsertIf {c : Bool} {m m' : Map (Option Send)} {id : Nat}
    (h : mapInsertIf c m id = some m') (k : Nat) :
    (match m'.find? k with | some (some x) => some x.credit | _ => none) =
    (match m.find? k with | some (some x) => some x.credit | _ => none) := by
  unfold mapInsertIf at h
  split at h
  · rw [Map.find?_insertNew _ _ _ _ _ h]
    by_cases hk : id = k
    · subst hk; simp only [↓reduceIte]; rw [Map.insertNew_absent _ _ _ _ h]
    · simp only [hk, ↓reduceIte]
  · simp only [Option.some.injEq] at h; subst h; rfl

theorem vw_insert {s s' : State} {r : Bool} {id : Nat} (h : s.insert r id = some s') : s'.vw = s.vw := by
  unfold State.insert at h
  osplit h
  subst h
  have hs := ‹mapInsertIf _ s.send _ = some _›
  simp only [State.vw, State.core, SView.mk.injEq, true_and]
  funext k
  simp only [State.cv]
  exact cv_mapInsertIf hs k

theorem vw_insertRemoteRange (n : Nat) : ∀ {s s' : State} {d : Dir} {st i : Nat},
    s.insertRemoteRange d st n i = some s' → s'.vw = s.vw := by
  induction n with
  | zero => intro s s' d st i h; simp [State.insertRemoteRange] at h; subst h; rfl
  | succ n ih =>
    intro s s' d st i h
    unfold State.insertRemoteRange at h
    split at h
    · simp at h
    · rename_i s1 h1
      exact (ih h).trans (vw_insert h1)

theorem vw_ensureRemoteStreams {s s' : State} {d : Dir} (h : s.ensureRemoteStreams d = some s') :
    s'.vw = s.vw := by
  unfold State.ensureRemoteStreams at h
  osplit h
  subst h
  have f := vw_insertRemoteRange _ ‹State.insertRemoteRange _ _ _ _ _ = some _›
  exact f

theorem vw_onStreamFrame (s : State) (b : Bool) (id : Nat) : (s.onStreamFrame b id).vw = s.vw := by
  apply vw_of_eq <;> grind [State.onStreamFrame, State.core]

theorem vw_addReadCredits {s s' : State} {c : Nat} {t : Bool}
    (h : s.addReadCredits c = some (s', t)) : s'.vw = s.vw := by
  have hs : s' = s.applyCredits c := by
    unfold State.addReadCredits at h
    dsimp only at h
    split at h
    · simp only [Option.some.injEq, Prod.mk.injEq] at h; exact h.1.symm
    · split at h
      · contradiction
      · simp only [Option.some.injEq, Prod.mk.injEq] at h; exact h.1.symm
  rw [hs]; unfold State.applyCredits; split <;> rfl

theorem vw_creditAndQueue {s s' : State} {c : Nat} {t : Bool}
    (h : s.creditAndQueue c = some (s', t)) : s'.vw = s.vw := by
  unfold State.creditAndQueue at h
  osplit h
  all_goals
    obtain ⟨rfl, rfl⟩ := h
    have f := vw_addReadCredits ‹State.addReadCredits _ _ = some _›
    exact f

theorem vw_freeRemote {s s' : State} {id : Nat} {hf : Half} (h : s.freeRemote id hf = some s') :
    s'.vw = s.vw := by
  unfold State.freeRemote at h
  osplit h
  all_goals first
    | (subst h; rfl)
    | via vw_ensureRemoteStreams h

theorem vw_streamFreed {s s' : State} {id : Nat} {hf : Half} (h : s.streamFreed id hf = some s') :
    s'.vw = s.vw := by
  unfold State.streamFreed at h
  osplit h
  all_goals
    subst h
    have f := vw_freeRemote ‹State.freeRemote _ _ _ = some _›
    exact f

theorem vw_streamRecvFreed {s s' : State} {id : Nat} (h : s.streamRecvFreed id = some s') :
    s'.vw = s.vw := vw_streamFreed h

theorem vw_freeRecvIf {s s' : State} {c : Bool} {id : Nat} (h : s.freeRecvIf c id = some s') :
    s'.vw = s.vw := by
  unfold State.freeRecvIf at h
  osplit h
  all_goals first
    | (subst h; rfl)
    | via vw_streamRecvFreed h

theorem vw_freeIf {s s' : State} {c : Bool} {id : Nat} (h : s.freeIf c id = some s') :
    s'.vw = s.vw := by
  unfold State.freeIf at h
  osplit h
  all_goals first
    | (subst h; rfl)
    | via vw_streamRecvFreed h

theorem vw_getOrInsertRecv {s s' : State} {id : Nat} {r : Recv}
    (h : s.getOrInsertRecv id = some (r, s')) : s'.vw = s.vw := by
  unfold State.getOrInsertRecv at h
  osplit h
  all_goals
    rw [← h.2]
    try rfl

theorem vw_queueMaxStreamId {s s' : State} {b : Bool} (h : s.queueMaxStreamId = some (s', b)) :
    s'.vw = s.vw := by
  unfold State.queueMaxStreamId at h
  osplit h
  all_goals
    rw [← h.1]
    try rfl

theorem vw_queueMaxIf {s s' : State} {c : Bool} (h : s.queueMaxIf c = some s') : s'.vw = s.vw := by
  rcases queueMaxIf_cases h with rfl | ⟨b, hq⟩
  · rfl
  · exact vw_queueMaxStreamId hq

/-! ### changes of the send map -/

/-- replacing a sending half by one with the same offset and limit -/
theorem vw_putSend {s : State} {id : Nat} {x x' : Send} (hx : s.send.find? id = some (some x))
    (hc : x'.credit = x.credit) : (s.putSend id x').vw = s.vw := by
  simp only [State.vw, State.core, State.putSend, SView.mk.injEq, true_and]
  funext k
  simp only [State.cv]
  by_cases hk : k = id
  · subst hk; rw [Map.find?_set_self _ _ _ _ hx, hx]; simp [hc]
  · rw [Map.find?_set_ne _ _ _ _ hk]

/-- dropping an entry of the send map -/
theorem frame_erase_send (s : State) (id : Nat) : Frame s { s with send := s.send.erase id } := by
  refine ⟨⟨rfl, ?_⟩⟩
  intro k c hc
  simp only [State.vw, State.cv] at hc ⊢
  by_cases hk : k = id
  · subst hk; simp [Map.find?_erase_self] at hc
  · rw [Map.find?_erase_ne _ _ _ hk] at hc; exact Or.inl hc

/-- `getOrInsertSend` yields the half that is (now) stored under `id` -/
theorem getOrInsertSend_spec {s s' : State} {id : Nat} {x : Send}
    (h : s.getOrInsertSend id = some (x, s')) :
    Frame s s' ∧ s'.send.find? id = some (some x) ∧
      (s.send.find? id = some (some x) ∨ (s.send.find? id = some none ∧ x = Send.new (s.maxSendData id))) := by
  unfold State.getOrInsertSend at h
  osplit h
  · obtain ⟨rfl, rfl⟩ := h
    have hy := ‹Map.find? s.send id = some (some _)›
    exact ⟨Frame.refl _, hy, Or.inl hy⟩
  · obtain ⟨rfl, rfl⟩ := h
    have hy := ‹Map.find? s.send id = some none›
    refine ⟨⟨⟨rfl, ?_⟩⟩, ?_, Or.inr ⟨hy, rfl⟩⟩
    · intro k c hk
      simp only [State.vw, State.cv] at hk ⊢
      by_cases hkk : k = id
      · subst hkk
        rw [Map.find?_set_self _ _ _ _ hy] at hk
        simp only [Option.some.injEq] at hk; subst hk
        exact Or.inr rfl
      · rw [Map.find?_set_ne _ _ _ _ hkk] at hk
        exact Or.inl hk
    · simp only; exact Map.find?_set_self _ _ _ _ hy

end QM.Streams
