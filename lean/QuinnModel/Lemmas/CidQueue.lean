import QuinnModel.Data.CidQueue
/-
Proofs about the CidQueue model: ring invariant, unreachability of every panic site for syntactically
valid NEW_CONNECTION_ID frames, decision of the error class, monotonicity of `next`, idempotence of duplicates.
-/
namespace QM.CidQueue
open QM

/-! ### generic: first / second element of `filterMap` over `range` -/

theorem head_filterMap_range_none {β : Type} (f : Nat → Option β) (n : Nat)
    (h : ((List.range n).filterMap f).head? = none) : ∀ i, i < n → f i = none := by
  induction n with
  | zero => intro i hi; omega
  | succ n ih =>
    rw [List.range_succ, List.filterMap_append, List.head?_append] at h
    cases hh : ((List.range n).filterMap f).head? with
    | some y => rw [hh] at h; simp at h
    | none =>
      rw [hh] at h
      intro i hi
      by_cases hin : i < n
      · exact ih hh i hin
      · have : i = n := by omega
        subst this
        cases hf : f i with
        | none => rfl
        | some z => simp [hf] at h

theorem head_filterMap_range {β : Type} (f : Nat → Option β) (n : Nat) (x : β)
    (h : ((List.range n).filterMap f).head? = some x) :
    ∃ i, i < n ∧ f i = some x ∧ ∀ j, j < i → f j = none := by
  induction n with
  | zero => simp at h
  | succ n ih =>
    rw [List.range_succ, List.filterMap_append, List.head?_append] at h
    cases hh : ((List.range n).filterMap f).head? with
    | some y =>
      rw [hh] at h
      simp only [Option.some_or, Option.some.injEq] at h
      subst h
      obtain ⟨i, hi, hf, hj⟩ := ih hh
      exact ⟨i, by omega, hf, hj⟩
    | none =>
      rw [hh] at h
      have hn := head_filterMap_range_none f n hh
      cases hf : f n with
      | none => simp [hf] at h
      | some z =>
        simp [hf] at h
        subst h
        exact ⟨n, by omega, hf, fun j hj => hn j hj⟩

theorem get1_filterMap_range {β : Type} (f : Nat → Option β) (n : Nat) (x : β) (h0 : f 0 ≠ none)
    (h : ((List.range n).filterMap f)[1]? = some x) :
    ∃ i, 0 < i ∧ i < n ∧ f i = some x ∧ ∀ j, 0 < j → j < i → f j = none := by
  cases n with
  | zero => simp at h
  | succ m =>
    rw [List.range_succ_eq_map, List.filterMap_cons] at h
    cases hf0 : f 0 with
    | none => exact absurd hf0 h0
    | some y =>
      rw [hf0] at h
      simp only [List.getElem?_cons_succ, List.filterMap_map] at h
      rw [← List.head?_eq_getElem?] at h
      obtain ⟨i, hi, hf, hj⟩ := head_filterMap_range (f ∘ Nat.succ) m x h
      refine ⟨i + 1, by omega, by omega, hf, ?_⟩
      intro j hj0 hji
      have := hj (j - 1) (by omega)
      simp only [Function.comp, Nat.succ_eq_add_one] at this
      rwa [Nat.sub_add_cancel hj0] at this


/-! ### ring buffer access -/

theorem LEN_eq : LEN = 5 := rfl

theorem get_congr (b : Buf) (x y : Nat) (h : x % LEN = y % LEN) : get b x = get b y := by
  unfold get; simp only [h]

theorem get_put (b : Buf) (i j : Nat) (v : Option Entry) :
    get (put b i v) j = if i % LEN = j % LEN then v else get b j := by
  unfold get put
  rw [Vector.getElem_set]

theorem get_put_same (b : Buf) (i j : Nat) (v : Option Entry) (h : i % LEN = j % LEN) :
    get (put b i v) j = v := by rw [get_put, if_pos h]

theorem get_put_ne (b : Buf) (i j : Nat) (v : Option Entry) (h : i % LEN ≠ j % LEN) :
    get (put b i v) j = get b j := by rw [get_put, if_neg h]

theorem buf_ext (a b : Buf) (h : ∀ k, k < LEN → get a k = get b k) : a = b := by
  apply Vector.ext
  intro i hi
  have := h i hi
  unfold get at this
  simpa [Nat.mod_eq_of_lt hi] using this

theorem put_of_get (b : Buf) (x : Nat) (v : Option Entry) (h : get b x = v) : put b x v = b := by
  apply buf_ext
  intro k _
  rw [get_put]
  split
  · rename_i hk; rw [← h]; exact get_congr b x k hk
  · rfl

theorem set_eq_put (b : Buf) (c : Nat) (v : Option Entry) (h : c < LEN) : b.set c v h = put b c v := by
  unfold put
  simp [Nat.mod_eq_of_lt h]

theorem getElem_eq_get (b : Buf) (c : Nat) (h : c < LEN) : b[c] = get b c := by
  unfold get
  simp [Nat.mod_eq_of_lt h]

/-- a slot that is empty stays empty through the discard loop -/
theorem clearLoop_none (c : Nat) : ∀ (n i : Nat) (b : Buf) (j : Nat), get b j = none →
    get (clearLoop b c i n) j = none := by
  intro n
  induction n with
  | zero => intro i b j h; exact h
  | succ n ih =>
    intro i b j h
    unfold clearLoop
    apply ih
    rw [get_put]; split <;> simp [h]

/-- slots outside the discarded positions are untouched -/
theorem clearLoop_other (c : Nat) : ∀ (n i : Nat) (b : Buf) (j : Nat),
    (∀ t, i ≤ t → t < i + n → (c + t) % LEN ≠ j % LEN) → get (clearLoop b c i n) j = get b j := by
  intro n
  induction n with
  | zero => intro i b j _; rfl
  | succ n ih =>
    intro i b j h
    unfold clearLoop
    rw [ih (i + 1) _ j (fun t h1 h2 => h t (by omega) (by omega))]
    exact get_put_ne _ _ _ _ (h i (by omega) (by omega))

/-- discarded positions are empty afterwards -/
theorem clearLoop_cleared (c : Nat) : ∀ (n i : Nat) (b : Buf) (j t : Nat),
    i ≤ t → t < i + n → (c + t) % LEN = j % LEN → get (clearLoop b c i n) j = none := by
  intro n
  induction n with
  | zero => intro i b j t h1 h2; omega
  | succ n ih =>
    intro i b j t h1 h2 h3
    unfold clearLoop
    by_cases hti : t = i
    · subst hti
      exact clearLoop_none c n _ _ j (get_put_same _ _ _ _ h3)
    · exact ih (i + 1) _ j t (by omega) (by omega) h3

/-- every occupied slot after the loop was occupied by the same data before -/
theorem clearLoop_some (c : Nat) : ∀ (n i : Nat) (b : Buf) (j : Nat) (e : Entry),
    get (clearLoop b c i n) j = some e → get b j = some e := by
  intro n
  induction n with
  | zero => intro i b j e h; exact h
  | succ n ih =>
    intro i b j e h
    unfold clearLoop at h
    have := ih (i + 1) _ j e h
    rw [get_put] at this
    split at this
    · simp at this
    · exact this


/-! ### the ring invariant -/

/-- bound on values produced by the varint decoder -/
def B : Nat := 2^62

structure Inv (q : CidQueue) : Prop where
  /-- the cursor addresses the ring -/
  cur : q.cursor < LEN
  /-- the active CID is present (`active()` never unwraps `None`) -/
  act : get q.buffer q.cursor ≠ none
  /-- only the active slot may lack a reset token (the initial CID) -/
  tok : ∀ k e, 0 < k → k < LEN → get q.buffer (q.cursor + k) = some e → e.token ≠ none
  /-- an occupied slot `k` steps after the cursor holds sequence number `offset + k`, which came off the wire -/
  bnd : ∀ k, k < LEN → get q.buffer (q.cursor + k) ≠ none → q.offset + k < B

theorem iter_f_none (b : Buf) (c j : Nat) :
    (get b (c + j)).map (fun e => (j, e)) = none ↔ get b (c + j) = none := by
  cases get b (c + j) <;> simp

theorem iter_f_some (b : Buf) (c j i : Nat) (e : Entry) :
    (get b (c + j)).map (fun e => (j, e)) = some (i, e) ↔ (j = i ∧ get b (c + j) = some e) := by
  cases get b (c + j) <;> simp

theorem new_inv (cid : Bytes) : Inv (new cid) := by
  have hget : ∀ k, get (new cid).buffer k = if k % LEN = 0 then some ⟨cid, none⟩ else none := by
    intro k
    unfold new get
    simp only [Vector.getElem_set, Vector.getElem_replicate]
    split <;> rename_i h
    · rw [if_pos h.symm]
    · rw [if_neg (fun h' => h h'.symm)]
  have hc : (new cid).cursor = 0 := rfl
  have ho : (new cid).offset = 0 := rfl
  refine ⟨by rw [hc]; exact LEN_pos, ?_, ?_, ?_⟩
  · rw [hc, hget]; simp
  · intro k e h0 hk h
    rw [hc, hget] at h
    have : ¬ ((0 + k) % LEN = 0) := by simp only [LEN_eq] at *; omega
    rw [if_neg this] at h; simp at h
  · intro k hk h
    rw [hc, hget] at h
    rw [ho]
    by_cases h0 : (0 + k) % LEN = 0
    · simp only [LEN_eq, B] at *; omega
    · rw [if_neg h0] at h; simp at h

/-- the tail of `insert` (active CID retired): facts about the recorded buffer `b2` suffice -/
theorem insertTail_inv (q : CidQueue) (rpt rc : Nat) (b2 : Buf) (hc : q.cursor < LEN)
    (hrpt : rpt < B) (hoff : q.offset < B) (hrc : rc ≤ rpt)
    (hex : ∃ j, j < LEN ∧ get b2 (q.cursor + rc + j) ≠ none)
    (htok : ∀ x e, get b2 x = some e → e.token ≠ none)
    (hbnd : ∀ s, s < LEN → get b2 (q.cursor + rc + s) ≠ none → rpt + s < B) :
    (insertTail q rpt rc b2).2 ≠ .panic ∧ Inv (insertTail q rpt rc b2).1 ∧
    ∃ i t, i < LEN ∧ (∀ j, j < i → get b2 (q.cursor + rc + j) = none) ∧
      get b2 (q.cursor + rc + i) ≠ none ∧
      insertTail q rpt rc b2 = (⟨b2, ((q.cursor + rc) % LEN + i) % LEN, rpt + i⟩,
        .retired q.offset (Gen.cidqRetiredEnd (rpt + i) q.offset) t) := by
  unfold insertTail
  have h1 : ¬ (q.cursor + rc ≥ U64) := by
    simp only [LEN_eq, U64, B] at *; omega
  simp only [h1, if_false]
  cases hh : (iter b2 ((q.cursor + rc) % LEN)).head? with
  | none =>
    exfalso
    obtain ⟨j, hj, hne⟩ := hex
    have := head_filterMap_range_none _ LEN hh j hj
    rw [iter_f_none] at this
    apply hne
    rw [← this]
    apply get_congr
    simp only [LEN_eq]; omega
  | some p =>
    obtain ⟨i, e⟩ := p
    obtain ⟨i', hi', hf, hfirst⟩ := head_filterMap_range _ LEN (i, e) hh
    rw [iter_f_some] at hf
    obtain ⟨rfl, hget⟩ := hf
    have hcg : ∀ s, get b2 ((q.cursor + rc) % LEN + s) = get b2 (q.cursor + rc + s) := by
      intro s; apply get_congr; simp only [LEN_eq]; omega
    rw [hcg] at hget
    have hfirst' : ∀ j, j < i' → get b2 (q.cursor + rc + j) = none := by
      intro j hj
      have := hfirst j hj
      rw [iter_f_none, hcg] at this
      exact this
    have hb := hbnd i' hi' (by rw [hget]; simp)
    have h2 : ¬ (rpt + i' ≥ U64) := by simp only [U64, B] at *; omega
    have h3 : ¬ (q.offset + LEN ≥ U64) := by simp only [LEN_eq, U64, B] at *; omega
    simp only [h2, h3, if_false]
    have ht := htok _ e hget
    cases hte : e.token with
    | none => exact absurd hte ht
    | some t =>
      simp only
      refine ⟨by simp, ?_, i', t, hi', hfirst', by rw [hget]; simp, rfl⟩
      refine ⟨Nat.mod_lt _ LEN_pos, ?_, ?_, ?_⟩
      · show get b2 (((q.cursor + rc) % LEN + i') % LEN) ≠ none
        rw [get_congr b2 _ (q.cursor + rc + i') (by simp only [LEN_eq]; omega), hget]; simp
      · intro k e' _ _ h
        exact htok _ e' h
      · intro k hk h
        show rpt + i' + k < B
        have hk' : get b2 (((q.cursor + rc) % LEN + i') % LEN + k) = get b2 (q.cursor + rc + (i' + k)) := by
          apply get_congr; simp only [LEN_eq]; omega
        simp only at h
        rw [hk'] at h
        by_cases hs : i' + k < LEN
        · have := hbnd (i' + k) hs h; omega
        · exfalso
          apply h
          rw [get_congr b2 _ (q.cursor + rc + (i' + k - LEN)) (by simp only [LEN_eq] at *; omega)]
          exact hfirst' _ (by simp only [LEN_eq] at *; omega)


theorem exceeds_iff (index rc : Nat) : Gen.cidqExceedsLimit index rc = true ↔ index ≥ LEN + rc := by
  simp [Gen.cidqExceedsLimit, LEN]

theorem clearCount_eq (rc : Nat) : Gen.cidqClearCount rc = Nat.min rc LEN := rfl

/-- facts about the buffer after the discard loop and the recording step, when the active CID is retired -/
theorem insert_b2_facts (q : CidQueue) (hI : Inv q) (seq rpt : Nat) (cid tok : Bytes)
    (h1 : rpt ≤ seq) (h2 : seq < B) (hs : q.offset ≤ seq) (hrc : 0 < rpt - q.offset)
    (hl : seq - q.offset < LEN + (rpt - q.offset)) :
    let b2 := put (clearLoop q.buffer q.cursor 0 (Nat.min (rpt - q.offset) LEN)) (q.cursor + (seq - q.offset))
      (some ⟨cid, some tok⟩)
    (get b2 (q.cursor + (rpt - q.offset) + (seq - q.offset - (rpt - q.offset))) = some ⟨cid, some tok⟩) ∧
    (∀ x e, get b2 x = some e → e.token ≠ none) ∧
    (∀ s, s < LEN → get b2 (q.cursor + (rpt - q.offset) + s) ≠ none → rpt + s < B) := by
  intro b2
  have hc := hI.cur
  refine ⟨?_, ?_, ?_⟩
  · apply get_put_same
    simp only [LEN_eq] at *; omega
  · intro x e h
    rw [get_put] at h
    split at h
    · simp only [Option.some.injEq] at h; subst h; simp
    · have hb := clearLoop_some _ _ _ _ _ _ h
      by_cases hx : x % LEN = q.cursor % LEN
      · have := clearLoop_cleared q.cursor (Nat.min (rpt - q.offset) LEN) 0 q.buffer x 0 (by omega)
          (by simp only [LEN_eq, Nat.min_def]; split <;> omega) (by simp only [LEN_eq] at *; omega)
        rw [this] at h; simp at h
      · have hk : get q.buffer x = get q.buffer (q.cursor + (x % LEN + LEN - q.cursor) % LEN) := by
          apply get_congr; simp only [LEN_eq] at *; omega
        rw [hk] at hb
        exact hI.tok _ e (by simp only [LEN_eq] at *; omega) (Nat.mod_lt _ LEN_pos) hb
  · intro s hsl h
    rw [get_put] at h
    split at h
    · rename_i heq
      simp only [LEN_eq, B] at *; omega
    · rename_i hne
      cases hg : get (clearLoop q.buffer q.cursor 0 (Nat.min (rpt - q.offset) LEN)) (q.cursor + (rpt - q.offset) + s) with
      | none => exact absurd hg h
      | some e =>
        have hb := clearLoop_some _ _ _ _ _ _ hg
        have hnc : ¬ ((rpt - q.offset + s) % LEN < Nat.min (rpt - q.offset) LEN) := by
          intro hlt
          have := clearLoop_cleared q.cursor (Nat.min (rpt - q.offset) LEN) 0 q.buffer
            (q.cursor + (rpt - q.offset) + s) ((rpt - q.offset + s) % LEN) (by omega) (by omega)
            (by simp only [LEN_eq]; omega)
          rw [this] at hg; simp at hg
        have hk : rpt - q.offset + s < LEN := by
          simp only [LEN_eq, Nat.min_def] at *; split at hnc <;> omega
        have := hI.bnd (rpt - q.offset + s) hk (by
          rw [get_congr q.buffer _ (q.cursor + (rpt - q.offset) + s) (by simp only [LEN_eq]; omega), hb]; simp)
        simp only [B] at *; omega

/-- `insert` of a syntactically valid NEW_CONNECTION_ID never panics and keeps the invariant -/
theorem insert_inv (q : CidQueue) (hI : Inv q) (seq rpt : Nat) (cid tok : Bytes)
    (h1 : rpt ≤ seq) (h2 : seq < B) :
    (insert q seq rpt cid tok).2 ≠ .panic ∧ Inv (insert q seq rpt cid tok).1 := by
  unfold insert
  by_cases hs : seq < q.offset
  · simp only [hs, if_true]; exact ⟨by simp, hI⟩
  · simp only [hs, if_false]
    have hov1 : ¬ (LEN + (rpt - q.offset) ≥ U64) := by simp only [LEN_eq, U64, B] at *; omega
    simp only [hov1, if_false]
    by_cases hl : Gen.cidqExceedsLimit (seq - q.offset) (rpt - q.offset) = true
    · simp only [hl, if_true]; exact ⟨by simp, hI⟩
    · simp only [hl]
      rw [exceeds_iff] at hl
      have hc := hI.cur
      have hov2 : ¬ (q.cursor + (seq - q.offset) ≥ U64) := by simp only [LEN_eq, U64, B] at *; omega
      simp only [hov2, if_false, Bool.false_eq_true]
      by_cases hrc : rpt - q.offset = 0
      · simp only [hrc, if_true]
        refine ⟨by simp, ?_⟩
        rw [clearCount_eq]
        have hm : Nat.min 0 LEN = 0 := by simp
        rw [hm]
        simp only [clearLoop]
        have hidx : seq - q.offset < LEN := by omega
        refine ⟨hc, ?_, ?_, ?_⟩
        · show get (put q.buffer _ _) q.cursor ≠ none
          rw [get_put]; split
          · simp
          · exact hI.act
        · intro k e hk0 hk h
          simp only at h
          rw [get_put] at h
          split at h
          · simp only [Option.some.injEq] at h; subst h; simp
          · exact hI.tok k e hk0 hk h
        · intro k hk h
          simp only at h ⊢
          rw [get_put] at h
          split at h
          · simp only [LEN_eq, B] at *; omega
          · exact hI.bnd k hk h
      · simp only [hrc, if_false]
        rw [clearCount_eq]
        obtain ⟨f1, f2, f3⟩ := insert_b2_facts q hI seq rpt cid tok h1 h2 (by omega) (by omega) (by omega)
        have hoff : q.offset < B := by
          have := hI.bnd 0 LEN_pos (by simpa using hI.act); omega
        have := insertTail_inv q rpt (rpt - q.offset) _ hc (by simp only [B] at *; omega) hoff (by omega)
          ⟨seq - q.offset - (rpt - q.offset), by omega, by rw [f1]; simp⟩ f2 f3
        exact ⟨this.1, this.2.1⟩


/-- `next` never panics, keeps the invariant, and strictly advances the active sequence number -/
theorem next_inv (q : CidQueue) (hI : Inv q) :
    (next q).2 ≠ .panic ∧ Inv (next q).1 ∧
    (∀ t a b, (next q).2 = .ok t a b → a = q.offset ∧ b = (next q).1.offset ∧ a < b ∧ b < a + LEN) ∧
    ((next q).2 = .none → (next q).1 = q) := by
  unfold next
  cases hh : (iter q.buffer q.cursor)[1]? with
  | none => exact ⟨by simp, hI, by simp, by simp⟩
  | some p =>
    obtain ⟨i, e⟩ := p
    have hc := hI.cur
    have h0 : (get q.buffer (q.cursor + 0)).map (fun e => (0, e)) ≠ none := by
      rw [Ne, iter_f_none]; exact hI.act
    obtain ⟨i', hi0, hi, hf, hfirst⟩ := get1_filterMap_range _ LEN (i, e) h0 hh
    rw [iter_f_some] at hf
    obtain ⟨rfl, hget⟩ := hf
    have hfirst' : ∀ j, 0 < j → j < i' → get q.buffer (q.cursor + j) = none := by
      intro j hj0 hj
      have := hfirst j hj0 hj
      rwa [iter_f_none] at this
    have hb := hI.bnd i' hi (by rw [hget]; simp)
    have hov : ¬ (q.offset + i' ≥ U64) := by simp only [U64, B] at *; omega
    have ht := hI.tok i' e hi0 hi hget
    simp only [hc, dite_true, hov, if_false]
    cases hte : e.token with
    | none => exact absurd hte ht
    | some t =>
      simp only
      refine ⟨by simp, ?_, ?_, by simp⟩
      · rw [set_eq_put]
        refine ⟨Nat.mod_lt _ LEN_pos, ?_, ?_, ?_⟩
        · show get (put q.buffer q.cursor none) ((q.cursor + i') % LEN) ≠ none
          rw [get_put_ne _ _ _ _ (by simp only [LEN_eq] at *; omega),
            get_congr _ _ (q.cursor + i') (by simp only [LEN_eq]; omega), hget]
          simp
        · intro k e' hk0 hk h
          simp only at h
          rw [get_put] at h
          split at h
          · simp at h
          · rw [get_congr _ _ (q.cursor + (i' + k)) (by simp only [LEN_eq]; omega)] at h
            by_cases hs : i' + k < LEN
            · exact hI.tok (i' + k) e' (by omega) hs h
            · rename_i hne
              exfalso
              have hz : 0 < i' + k - LEN := by simp only [LEN_eq] at *; omega
              have := hfirst' (i' + k - LEN) hz (by simp only [LEN_eq] at *; omega)
              rw [get_congr _ _ (q.cursor + (i' + k - LEN)) (by simp only [LEN_eq] at *; omega), this] at h
              simp at h
        · intro k hk h
          simp only at h ⊢
          rw [get_put] at h
          split at h
          · simp at h
          · rw [get_congr _ _ (q.cursor + (i' + k)) (by simp only [LEN_eq]; omega)] at h
            by_cases hs : i' + k < LEN
            · have := hI.bnd (i' + k) hs h; omega
            · rename_i hne
              exfalso
              have hz : 0 < i' + k - LEN := by simp only [LEN_eq] at *; omega
              have := hfirst' (i' + k - LEN) hz (by simp only [LEN_eq] at *; omega)
              rw [get_congr _ _ (q.cursor + (i' + k - LEN)) (by simp only [LEN_eq] at *; omega), this] at h
              simp at h
      · intro t' a b h
        simp only [NextOut.ok.injEq] at h
        obtain ⟨_, rfl, rfl⟩ := h
        refine ⟨rfl, rfl, by omega, by omega⟩

/-- `active()` never panics -/
theorem active_some (q : CidQueue) (hI : Inv q) : ∃ c, active q = some c := by
  unfold active
  simp only [hI.cur, dite_true]
  have hc := hI.cur
  have := hI.act
  rw [← getElem_eq_get _ _ hc] at this
  cases h : q.buffer[q.cursor] with
  | none => exact absurd h this
  | some e => exact ⟨e.cid, rfl⟩

/-- `update_initial_cid` while the initial CID is still active (what `debug_assert_eq!(self.offset, 0)` demands) -/
theorem updateInitialCid_inv (q : CidQueue) (hI : Inv q) (cid : Bytes) (h0 : q.offset = 0) :
    ∃ q', updateInitialCid q cid = some q' ∧ Inv q' ∧ q'.offset = 0 := by
  unfold updateInitialCid
  have hc := hI.cur
  simp only [ne_eq, h0, not_true_eq_false, if_false, hc, dite_true]
  refine ⟨_, rfl, ?_, rfl⟩
  rw [set_eq_put]
  refine ⟨hI.cur, ?_, ?_, ?_⟩
  · show get (put q.buffer q.cursor _) q.cursor ≠ none
    rw [get_put_same _ _ _ _ rfl]; simp
  · intro k e hk0 hk h
    simp only at h
    rw [get_put_ne _ _ _ _ (by have := hI.cur; simp only [LEN_eq] at *; omega)] at h
    exact hI.tok k e hk0 hk h
  · intro k hk h
    simp only at h ⊢
    rw [get_put] at h
    split at h
    · have := hI.cur; simp only [LEN_eq, B] at *; omega
    · have := hI.bnd k hk h; omega


/-! ### decision of the error class, offsets, duplicates -/

theorem insertTail_out (q : CidQueue) (rpt rc : Nat) (b2 : Buf) :
    (insertTail q rpt rc b2).2 = .panic ∨ ∃ a b t, (insertTail q rpt rc b2).2 = .retired a b t := by
  unfold insertTail
  split
  · left; rfl
  · simp only
    split
    · left; rfl
    · split
      · left; rfl
      · split
        · left; rfl
        · split
          · left; rfl
          · right; exact ⟨_, _, _, rfl⟩

/-- `InsertError::Retired` exactly when the sequence number is below the active one -/
theorem insert_retired_iff (q : CidQueue) (seq rpt : Nat) (cid tok : Bytes) :
    (insert q seq rpt cid tok).2 = .errRetired ↔ seq < q.offset := by
  unfold insert
  by_cases hs : seq < q.offset
  · simp [hs]
  · simp only [hs, if_false, iff_false]
    split
    · simp
    · split
      · simp
      · split
        · simp
        · split
          · simp
          · rcases insertTail_out q rpt (rpt - q.offset) (put (clearLoop q.buffer q.cursor 0
              (Gen.cidqClearCount (rpt - q.offset))) (q.cursor + (seq - q.offset)) (some ⟨cid, some tok⟩)) with h | ⟨a, b, t, h⟩
            · rw [h]; simp
            · rw [h]; simp

/-- `InsertError::ExceedsLimit` exactly when the sequence number is `LEN + retired_count` or more past the active one -/
theorem insert_limit_iff (q : CidQueue) (seq rpt : Nat) (cid tok : Bytes) (hr : rpt < B) :
    (insert q seq rpt cid tok).2 = .errLimit ↔
      (q.offset ≤ seq ∧ seq - q.offset ≥ LEN + (rpt - q.offset)) := by
  unfold insert
  by_cases hs : seq < q.offset
  · simp only [hs, if_true]
    constructor
    · intro h; simp at h
    · intro h; omega
  · simp only [hs, if_false]
    have hov1 : ¬ (LEN + (rpt - q.offset) ≥ U64) := by simp only [LEN_eq, U64, B] at *; omega
    simp only [hov1, if_false]
    by_cases hl : Gen.cidqExceedsLimit (seq - q.offset) (rpt - q.offset) = true
    · simp only [hl, if_true, true_iff]
      rw [exceeds_iff] at hl
      exact ⟨by omega, hl⟩
    · simp only [hl, Bool.false_eq_true, if_false]
      rw [exceeds_iff] at hl
      constructor
      · intro h
        exfalso
        revert h
        split
        · simp
        · split
          · simp
          · rcases insertTail_out q rpt (rpt - q.offset) (put (clearLoop q.buffer q.cursor 0
              (Gen.cidqClearCount (rpt - q.offset))) (q.cursor + (seq - q.offset)) (some ⟨cid, some tok⟩)) with h | ⟨a, b, t, h⟩
            · rw [h]; simp
            · rw [h]; simp
      · intro h; omega

/-- full description of a successful `insert` of a valid frame: either nothing is retired and only the
    slot of `seq` is written, or the window moves to the first known CID at or after `retire_prior_to` -/
theorem insert_ok_shape (q : CidQueue) (hI : Inv q) (seq rpt : Nat) (cid tok : Bytes)
    (h1 : rpt ≤ seq) (h2 : seq < B) (hs : q.offset ≤ seq) (hl : seq - q.offset < LEN + (rpt - q.offset)) :
    (rpt ≤ q.offset ∧ insert q seq rpt cid tok =
        ({ q with buffer := put q.buffer (q.cursor + (seq - q.offset)) (some ⟨cid, some tok⟩) }, .none)) ∨
    (q.offset < rpt ∧ ∃ i t b2, rpt + i ≤ seq ∧ i < LEN ∧
        get b2 (q.cursor + (seq - q.offset)) = some ⟨cid, some tok⟩ ∧
        insert q seq rpt cid tok = (⟨b2, ((q.cursor + (rpt - q.offset)) % LEN + i) % LEN, rpt + i⟩,
          .retired q.offset (Gen.cidqRetiredEnd (rpt + i) q.offset) t)) := by
  unfold insert
  have hs' : ¬ seq < q.offset := by omega
  have hov1 : ¬ (LEN + (rpt - q.offset) ≥ U64) := by simp only [LEN_eq, U64, B] at *; omega
  have hl' : ¬ Gen.cidqExceedsLimit (seq - q.offset) (rpt - q.offset) = true := by rw [exceeds_iff]; omega
  have hc := hI.cur
  have hov2 : ¬ (q.cursor + (seq - q.offset) ≥ U64) := by simp only [LEN_eq, U64, B] at *; omega
  simp only [hs', hov1, hl', hov2, if_false, Bool.false_eq_true]
  by_cases hrc : rpt - q.offset = 0
  · left
    refine ⟨by omega, ?_⟩
    simp only [hrc, if_true, clearCount_eq]
    have hm : Nat.min 0 LEN = 0 := by simp
    rw [hm]; rfl
  · right
    refine ⟨by omega, ?_⟩
    simp only [hrc, if_false, clearCount_eq]
    obtain ⟨f1, f2, f3⟩ := insert_b2_facts q hI seq rpt cid tok h1 h2 hs (by omega) hl
    have hoff : q.offset < B := by
      have := hI.bnd 0 LEN_pos (by simpa using hI.act); omega
    obtain ⟨_, _, i, t, hi, hfirst, _, heq⟩ := insertTail_inv q rpt (rpt - q.offset) _ hc (by simp only [B] at *; omega) hoff (by omega)
      ⟨seq - q.offset - (rpt - q.offset), by omega, by rw [f1]; simp⟩ f2 f3
    refine ⟨i, t, _, ?_, hi, ?_, heq⟩
    · by_cases hlt : seq - q.offset - (rpt - q.offset) < i
      · have := hfirst _ hlt; rw [f1] at this; simp at this
      · omega
    · exact (get_congr _ _ _ (by simp only [LEN_eq]; omega)).trans f1

/-- the active sequence number never decreases through `insert` -/
theorem insert_offset_mono (q : CidQueue) (hI : Inv q) (seq rpt : Nat) (cid tok : Bytes)
    (h1 : rpt ≤ seq) (h2 : seq < B) : q.offset ≤ (insert q seq rpt cid tok).1.offset := by
  by_cases hs : seq < q.offset
  · unfold insert; simp [hs]
  · by_cases hl : seq - q.offset < LEN + (rpt - q.offset)
    · rcases insert_ok_shape q hI seq rpt cid tok h1 h2 (by omega) hl with ⟨_, h⟩ | ⟨hlt, i, t, b2, _, _, _, h⟩
      · rw [h]; exact Nat.le_refl _
      · rw [h]; show q.offset ≤ rpt + i; omega
    · unfold insert
      have hl' : Gen.cidqExceedsLimit (seq - q.offset) (rpt - q.offset) = true := by rw [exceeds_iff]; omega
      simp only [hs, if_false, hl', if_true]
      split <;> exact Nat.le_refl _

/-- an exact duplicate of an accepted NEW_CONNECTION_ID frame changes nothing and is accepted again -/
theorem insert_idempotent (q : CidQueue) (hI : Inv q) (seq rpt : Nat) (cid tok : Bytes)
    (h1 : rpt ≤ seq) (h2 : seq < B) (hs : q.offset ≤ seq) (hl : seq - q.offset < LEN + (rpt - q.offset)) :
    insert (insert q seq rpt cid tok).1 seq rpt cid tok = ((insert q seq rpt cid tok).1, .none) := by
  have hI' := (insert_inv q hI seq rpt cid tok h1 h2).2
  rcases insert_ok_shape q hI seq rpt cid tok h1 h2 hs hl with ⟨hr, h⟩ | ⟨hlt, i, t, b2, hle, hi, hg, h⟩
  · rw [h] at hI' ⊢
    have hidx : seq - q.offset < LEN := by omega
    rcases insert_ok_shape _ hI' seq rpt cid tok h1 h2 hs (by show seq - q.offset < _; omega) with ⟨_, h'⟩ | ⟨hlt, _⟩
    · rw [h']
      simp only
      rw [put_of_get]
      exact get_put_same _ _ _ _ rfl
    · exact absurd hlt (by show ¬ q.offset < rpt; omega)
  · rw [h] at hI' ⊢
    rcases insert_ok_shape _ hI' seq rpt cid tok h1 h2 (by show rpt + i ≤ seq; exact hle)
        (by show seq - (rpt + i) < LEN + (rpt - (rpt + i)); omega) with ⟨_, h'⟩ | ⟨hlt', _⟩
    · rw [h']
      simp only
      rw [put_of_get]
      refine (get_congr _ _ _ ?_).trans hg
      have := hI.cur
      simp only [LEN_eq] at *; omega
    · exact absurd hlt' (by show ¬ rpt + i < rpt; omega)


/-! ### arbitrary sequences of operations on the queue -/

inductive Op where
  | insert (seq rpt : Nat) (cid tok : Bytes)
  | next
deriving Repr

/-- what `frame::Iter` guarantees for a decoded NEW_CONNECTION_ID: varints, `retire_prior_to ≤ sequence` -/
def Op.valid : Op → Prop
  | .insert seq rpt _ _ => rpt ≤ seq ∧ seq < B
  | .next => True

/-- one operation; `none` = the Rust panics -/
def step (q : CidQueue) : Op → Option CidQueue
  | .insert seq rpt cid tok =>
    match insert q seq rpt cid tok with
    | (_, .panic) => none
    | (q', _) => some q'
  | .next =>
    match next q with
    | (_, .panic) => none
    | (q', _) => some q'

def run : CidQueue → List Op → Option CidQueue
  | q, [] => some q
  | q, op :: ops => match step q op with
    | none => none
    | some q' => run q' ops

theorem step_inv (q : CidQueue) (hI : Inv q) (op : Op) (hv : op.valid) :
    ∃ q', step q op = some q' ∧ Inv q' ∧ q.offset ≤ q'.offset := by
  cases op with
  | insert seq rpt cid tok =>
    obtain ⟨h1, h2⟩ := hv
    have ⟨hp, hi⟩ := insert_inv q hI seq rpt cid tok h1 h2
    have hm := insert_offset_mono q hI seq rpt cid tok h1 h2
    cases hr : insert q seq rpt cid tok with
    | mk q' out =>
      rw [hr] at hp hi hm
      cases out <;> first | exact absurd rfl hp | exact ⟨q', by simp only [step, hr], hi, hm⟩
  | next =>
    have ⟨hp, hi, hmono, _⟩ := next_inv q hI
    cases hr : next q with
    | mk q' out =>
      rw [hr] at hp hi hmono
      cases out with
      | panic => exact absurd rfl hp
      | none =>
        have := (next_inv q hI).2.2.2
        rw [hr] at this
        have h := this rfl
        simp only at h
        exact ⟨q', by simp only [step, hr], hi, by rw [h]; exact Nat.le_refl _⟩
      | ok t a b =>
        obtain ⟨ha, hb, hlt, _⟩ := hmono t a b rfl
        simp only at hb
        exact ⟨q', by simp only [step, hr], hi, by omega⟩

/-- over ALL sequences of valid inserts and `next`s: no panic, invariant kept, active sequence number monotone -/
theorem run_inv (ops : List Op) : ∀ (q : CidQueue), Inv q → (∀ op ∈ ops, op.valid) →
    ∃ q', run q ops = some q' ∧ Inv q' ∧ q.offset ≤ q'.offset := by
  induction ops with
  | nil => intro q hI _; exact ⟨q, rfl, hI, Nat.le_refl _⟩
  | cons op ops ih =>
    intro q hI hv
    obtain ⟨q1, h1, hI1, hm1⟩ := step_inv q hI op (hv op (by simp))
    obtain ⟨q2, h2, hI2, hm2⟩ := ih q1 hI1 (fun o ho => hv o (by simp [ho]))
    refine ⟨q2, ?_, hI2, by omega⟩
    simp only [run, h1, h2]

/-- number of occupied ring slots -/
def occupied (q : CidQueue) : Nat := (q.buffer.toList.filter Option.isSome).length

theorem occupied_le (q : CidQueue) : occupied q ≤ LEN := by
  unfold occupied
  have := List.length_filter_le Option.isSome q.buffer.toList
  simpa using this

/-! ### the NEW_CONNECTION_ID arm of `process_payload` -/

/-- the handler never panics on a decoded frame (any varints) and keeps the ring invariant -/
theorem onNewConnectionId_inv (s : Handler) (hI : Inv s.q) (seq rpt : Nat) (cid tok : Bytes)
    (h2 : seq < B) :
    (onNewConnectionId s seq rpt cid tok).2 ≠ .panic ∧ Inv (onNewConnectionId s seq rpt cid tok).1.q := by
  unfold onNewConnectionId
  obtain ⟨a, ha⟩ := active_some s.q hI
  rw [ha]
  simp only
  split
  · exact ⟨by simp, hI⟩
  · split
    · exact ⟨by simp, hI⟩
    · rename_i hr
      have h1 : rpt ≤ seq := by omega
      have ⟨hp, hi⟩ := insert_inv s.q hI seq rpt cid tok h1 h2
      split
      · rename_i heq; rw [heq] at hp; exact absurd rfl hp
      · rename_i q' heq; rw [heq] at hi; exact ⟨by simp, hi⟩
      · rename_i q' heq; rw [heq] at hi; split <;> exact ⟨by simp, hi⟩
      · rename_i q' start stop t heq
        rw [heq] at hi
        simp only at hi
        split
        · exact ⟨by simp, hi⟩
        · split
          · have ⟨np, ni, _, _⟩ := next_inv q' hi
            split
            · rename_i hn; rw [hn] at np; exact absurd rfl np
            · rename_i hn; rw [hn] at ni; exact ⟨by simp, ni⟩
            · rename_i hn; rw [hn] at ni; exact ⟨by simp, ni⟩
          · exact ⟨by simp, hi⟩
      · rename_i q' heq
        rw [heq] at hi
        simp only at hi
        split
        · have ⟨np, ni, _, _⟩ := next_inv q' hi
          split
          · rename_i hn; rw [hn] at np; exact absurd rfl np
          · rename_i hn; rw [hn] at ni; exact ⟨by simp, ni⟩
          · rename_i hn; rw [hn] at ni; exact ⟨by simp, ni⟩
        · exact ⟨by simp, hi⟩


def MAXP : Nat := Gen.maxPendingRetiredCids

theorem tooMany_iff (p a b : Nat) : Gen.ncidTooManyRetired p a b = true ↔ p + (b - a) > MAXP := by
  unfold Gen.ncidTooManyRetired
  rw [decide_eq_true_iff]
  simp only [MAXP, Gen.maxPendingRetiredCids, Gen.cidQueueLen, Nat.min_def]
  split <;> omega

theorem retiredFull_iff (p : Nat) : Gen.ncidRetiredArmFull p = true ↔ p + 1 > MAXP := by
  unfold Gen.ncidRetiredArmFull
  rw [decide_eq_true_iff]
  simp only [MAXP, Gen.maxPendingRetiredCids, Gen.cidQueueLen, Nat.min_def]
  split <;> omega

/-- the transport error (or acceptance) the handler answers with, as a function of the frame and the state -/
def ncidSpec (s : Handler) (a : Bytes) (seq rpt : Nat) (cid tok : Bytes) : FrameOut :=
  if a.isEmpty then .err Gen.codeProtocolViolation 0
  else if rpt > seq then .err Gen.codeProtocolViolation 1
  else if seq < s.q.offset then
    (if s.pending.length + 1 > MAXP then .err Gen.codeConnectionIdLimitError 4 else .discarded)
  else if seq - s.q.offset ≥ LEN + (rpt - s.q.offset) then .err Gen.codeConnectionIdLimitError 3
  else match (insert s.q seq rpt cid tok).2 with
    | .retired start stop _ =>
      if s.pending.length + (stop - start) > MAXP then .err Gen.codeConnectionIdLimitError 2 else .ok
    | _ => .ok

theorem next_out_cases (q : CidQueue) (hI : Inv q) :
    (∃ q', next q = (q', .none)) ∨ (∃ q' t a b, next q = (q', .ok t a b)) := by
  have hp := (next_inv q hI).1
  cases h : next q with
  | mk q' out =>
    rw [h] at hp
    cases out with
    | none => left; exact ⟨q', rfl⟩
    | ok t a b => right; exact ⟨q', t, a, b, rfl⟩
    | panic => exact absurd rfl hp

theorem onNewConnectionId_decision (s : Handler) (hI : Inv s.q) (seq rpt : Nat) (cid tok : Bytes)
    (h2 : seq < B) (a : Bytes) (ha : active s.q = some a) :
    (onNewConnectionId s seq rpt cid tok).2 = ncidSpec s a seq rpt cid tok := by
  unfold onNewConnectionId ncidSpec
  rw [ha]
  simp only
  by_cases he : a.isEmpty = true
  · simp only [he, if_true]; rfl
  · simp only [he, Bool.false_eq_true, if_false]
    by_cases hr : rpt > seq
    · simp only [hr, if_true]; rfl
    · simp only [hr, if_false]
      have hri := insert_retired_iff s.q seq rpt cid tok
      have hli := insert_limit_iff s.q seq rpt cid tok (by omega : rpt < B)
      have ⟨hp, hi⟩ := insert_inv s.q hI seq rpt cid tok (by omega) h2
      cases hins : insert s.q seq rpt cid tok with
      | mk q' out =>
        rw [hins] at hri hli hp hi
        simp only at hri hli hp hi
        cases out with
        | panic => exact absurd rfl hp
        | errRetired =>
          have := hri.mp rfl
          simp only [this, if_true]
          by_cases hf : Gen.ncidRetiredArmFull s.pending.length = true
          · simp only [hf, if_true]
            rw [retiredFull_iff] at hf
            simp only [hf, if_true]
            rfl
          · simp only [hf, Bool.false_eq_true, if_false]
            rw [retiredFull_iff] at hf
            simp only [hf, if_false]
        | errLimit =>
          have := hli.mp rfl
          have h1 : ¬ seq < s.q.offset := by omega
          simp only [h1, if_false, this.2, if_true]
          rfl
        | none =>
          have h1 : ¬ seq < s.q.offset := fun h => by have := hri.mpr h; simp at this
          have h3 : ¬ (seq - s.q.offset ≥ LEN + (rpt - s.q.offset)) := fun h => by
            have := hli.mpr ⟨by omega, h⟩; simp at this
          simp only [h1, h3, if_false]
          split
          · rcases next_out_cases q' hi with ⟨q'', hn⟩ | ⟨q'', t, x, y, hn⟩ <;> rw [hn]
          · rfl
        | retired start stop t =>
          have h1 : ¬ seq < s.q.offset := fun h => by have := hri.mpr h; simp at this
          have h3 : ¬ (seq - s.q.offset ≥ LEN + (rpt - s.q.offset)) := fun h => by
            have := hli.mpr ⟨by omega, h⟩; simp at this
          simp only [h1, h3, if_false]
          by_cases htm : Gen.ncidTooManyRetired s.pending.length start stop = true
          · simp only [htm, if_true]
            rw [tooMany_iff] at htm
            simp only [htm, if_true]
            rfl
          · simp only [htm, Bool.false_eq_true, if_false]
            rw [tooMany_iff] at htm
            simp only [htm, if_false]
            split
            · rcases next_out_cases q' hi with ⟨q'', hn⟩ | ⟨q'', t, x, y, hn⟩ <;> rw [hn]
            · rfl


/-! ### size of `pending.retire_cids` -/

/-- bound on the queue of RETIRE_CONNECTION_ID frames: MAX_PENDING_RETIRED_CIDS while the initial CID is active, and
    LEN - 1 more once a server has switched off it (`update_rem_cid`, at most once) -/
def J (s : Handler) : Prop :=
  (s.q.offset = 0 → s.pending.length ≤ MAXP) ∧ s.pending.length ≤ MAXP + (LEN - 1)

theorem insert_none_offset (q : CidQueue) (seq rpt : Nat) (cid tok : Bytes) (q' : CidQueue)
    (h : insert q seq rpt cid tok = (q', .none)) : q'.offset = q.offset := by
  unfold insert at h
  split at h
  · simp at h
  · simp only at h
    split at h
    · simp at h
    · split at h
      · simp at h
      · split at h
        · simp at h
        · split at h
          · simp only [Prod.mk.injEq, and_true] at h; rw [← h]
          · rcases insertTail_out q rpt (rpt - q.offset) (put (clearLoop q.buffer q.cursor 0
              (Gen.cidqClearCount (rpt - q.offset))) (q.cursor + (seq - q.offset)) (some ⟨cid, some tok⟩)) with h' | ⟨a, b, t, h'⟩
            · rw [h] at h'; simp at h'
            · rw [h] at h'; simp at h'

theorem insert_err_state (q : CidQueue) (seq rpt : Nat) (cid tok : Bytes) (q' : CidQueue)
    (h : insert q seq rpt cid tok = (q', .errRetired)) : q' = q := by
  have hs := (insert_retired_iff q seq rpt cid tok).mp (by rw [h])
  unfold insert at h
  simp only [hs, if_true, Prod.mk.injEq, and_true] at h
  exact h.symm

theorem insert_retired_offset (q : CidQueue) (hI : Inv q) (seq rpt : Nat) (cid tok : Bytes)
    (h1 : rpt ≤ seq) (h2 : seq < B) (q' : CidQueue) (a b : Nat) (t : Bytes)
    (h : insert q seq rpt cid tok = (q', .retired a b t)) : q.offset < q'.offset := by
  have hs : ¬ seq < q.offset := fun hh => by
    have := (insert_retired_iff q seq rpt cid tok).mpr hh; rw [h] at this; simp at this
  have hl : ¬ (seq - q.offset ≥ LEN + (rpt - q.offset)) := fun hh => by
    have := (insert_limit_iff q seq rpt cid tok (by omega)).mpr ⟨by omega, hh⟩; rw [h] at this; simp at this
  rcases insert_ok_shape q hI seq rpt cid tok h1 h2 (by omega) (by omega) with ⟨_, h'⟩ | ⟨hlt, i, t', b2, _, _, _, h'⟩
  · rw [h] at h'; simp at h'
  · rw [h] at h'
    simp only [Prod.mk.injEq] at h'
    rw [h'.1]; show q.offset < rpt + i; omega

/-- effect of the optional `update_rem_cid` at the end of the arm on the bound -/
theorem J_after_next (s : Handler) (hI : Inv s.q) (h0 : s.pending.length ≤ MAXP) :
    ∀ q'' out, next s.q = (q'', out) → s.q.offset = 0 →
      J { s with q := q'', pending := s.pending ++ (match out with | .ok _ a b => List.range' a (b - a) | _ => []) } := by
  intro q'' out hn hz0
  have ⟨_, _, hmono, hnone⟩ := next_inv s.q hI
  rw [hn] at hmono hnone
  cases out with
  | panic => exact ⟨fun _ => by simpa using h0, by simp only [List.append_nil]; omega⟩
  | none =>
    have := hnone rfl
    simp only at this
    subst this
    exact ⟨fun _ => by simpa using h0, by simp only [List.append_nil]; omega⟩
  | ok t a b =>
    obtain ⟨ha, hb, hlt, hlt2⟩ := hmono t a b rfl
    simp only at hb
    refine ⟨fun h => ?_, ?_⟩
    · simp only at h; omega
    · simp only [List.length_append, List.length_range']
      simp only [LEN_eq] at *; omega

/-- the NEW_CONNECTION_ID arm keeps the queue of pending RETIRE_CONNECTION_ID frames within its bound, whatever the frame -/
theorem onNewConnectionId_J (s : Handler) (hI : Inv s.q) (seq rpt : Nat) (cid tok : Bytes)
    (h2 : seq < B) (hJ : J s) : J (onNewConnectionId s seq rpt cid tok).1 := by
  unfold onNewConnectionId
  obtain ⟨a, ha⟩ := active_some s.q hI
  rw [ha]
  simp only
  split
  · exact hJ
  · split
    · exact hJ
    · rename_i hr
      have h1 : rpt ≤ seq := by omega
      have ⟨hp, hi⟩ := insert_inv s.q hI seq rpt cid tok h1 h2
      split
      · exact hJ
      · -- errLimit: queue untouched by construction of `insert`
        rename_i q' heq
        have hq : q' = s.q := by
          have hl := (insert_limit_iff s.q seq rpt cid tok (by omega)).mp (by rw [heq])
          unfold insert at heq
          have hs : ¬ seq < s.q.offset := by omega
          have hov1 : ¬ (LEN + (rpt - s.q.offset) ≥ U64) := by simp only [LEN_eq, U64, B] at *; omega
          have hl' : Gen.cidqExceedsLimit (seq - s.q.offset) (rpt - s.q.offset) = true := by rw [exceeds_iff]; exact hl.2
          simp only [hs, hov1, hl', if_true, if_false, Prod.mk.injEq, and_true] at heq
          exact heq.symm
        subst hq
        exact hJ
      · -- errRetired: the bounded push
        rename_i q' heq
        have hq := insert_err_state _ _ _ _ _ _ heq
        subst hq
        split
        · exact hJ
        · rename_i hf
          have hle : s.pending.length + 1 ≤ MAXP := by
            have : ¬ (s.pending.length + 1 > MAXP) := fun h => hf ((retiredFull_iff _).mpr h)
            omega
          refine ⟨fun _ => ?_, ?_⟩
          · simp only [List.length_append, List.length_singleton]; exact hle
          · simp only [List.length_append, List.length_singleton]; omega
      · rename_i q' start stop t heq
        rw [heq] at hi
        simp only at hi
        have hgt := insert_retired_offset s.q hI seq rpt cid tok h1 h2 q' start stop t heq
        split
        · refine ⟨fun h => ?_, hJ.2⟩
          simp only at h; omega
        · rename_i htm
          have hle : s.pending.length + (stop - start) ≤ MAXP := by
            have : ¬ (s.pending.length + (stop - start) > MAXP) := fun h => htm ((tooMany_iff _ _ _).mpr h)
            omega
          split
          · rename_i hsrv
            have hz : q'.offset = 0 := by
              simp only [activeSeq, Bool.and_eq_true, beq_iff_eq] at hsrv; exact hsrv.2
            have hJ' := J_after_next { s with q := q', pending := s.pending ++ List.range' start (stop - start) } hi
              (by simp only [List.length_append, List.length_range']; omega)
            split
            · exact hJ
            · rename_i q'' t' x y hn
              exact hJ' q'' _ hn hz
            · rename_i q'' hn
              have := hJ' q'' _ hn hz
              simpa using this
          · refine ⟨fun _ => ?_, ?_⟩
            · simp only [List.length_append, List.length_range']; omega
            · simp only [List.length_append, List.length_range']; omega
      · rename_i q' heq
        rw [heq] at hi
        simp only at hi
        have hoff := insert_none_offset _ _ _ _ _ _ heq
        obtain ⟨j1, j2⟩ := hJ
        split
        · rename_i hsrv
          have hz : q'.offset = 0 := by
            simp only [activeSeq, Bool.and_eq_true, beq_iff_eq] at hsrv; exact hsrv.2
          have hJ' := J_after_next { s with q := q' } hi (j1 (by rw [← hoff]; exact hz))
          split
          · exact ⟨j1, j2⟩
          · rename_i q'' t' x y hn
            exact hJ' q'' _ hn hz
          · rename_i q'' hn
            have := hJ' q'' _ hn hz
            simpa using this
        · exact ⟨fun h => j1 (by rw [← hoff]; exact h), j2⟩

/-! ### arbitrary sequences of NEW_CONNECTION_ID frames and packet transmissions at the handler -/

inductive HOp where
  | frame (seq rpt : Nat) (cid tok : Bytes)
  | sent (k : Nat)
deriving Repr

/-- decoded frame fields are varints -/
def HOp.valid : HOp → Prop
  | .frame seq _ _ _ => seq < B
  | .sent _ => True

/-- runs the handler over received frames and packet transmissions; `none` = panic. A rejected frame closes the
    connection in reality; the run continues (the state then only shrinks or stays), which makes the theorem stronger -/
def hrun : Handler → List HOp → Option Handler
  | s, [] => some s
  | s, .frame seq rpt cid tok :: ops =>
    match onNewConnectionId s seq rpt cid tok with
    | (_, .panic) => none
    | (s', _) => hrun s' ops
  | s, .sent k :: ops => hrun (sent s k) ops

theorem hrun_inv (ops : List HOp) : ∀ (s : Handler), Inv s.q → J s → (∀ op ∈ ops, op.valid) →
    ∃ s', hrun s ops = some s' ∧ Inv s'.q ∧ J s' := by
  induction ops with
  | nil => intro s hI hJ _; exact ⟨s, rfl, hI, hJ⟩
  | cons op ops ih =>
    intro s hI hJ hv
    have hv' : ∀ o ∈ ops, o.valid := fun o ho => hv o (by simp [ho])
    cases op with
    | frame seq rpt cid tok =>
      have h2 : seq < B := hv (.frame seq rpt cid tok) (by simp)
      have ⟨hp, hi⟩ := onNewConnectionId_inv s hI seq rpt cid tok h2
      have hj := onNewConnectionId_J s hI seq rpt cid tok h2 hJ
      cases hr : onNewConnectionId s seq rpt cid tok with
      | mk s' out =>
        rw [hr] at hp hi hj
        simp only at hp hi hj
        obtain ⟨s2, h, hI2, hJ2⟩ := ih s' hi hj hv'
        refine ⟨s2, ?_, hI2, hJ2⟩
        simp only [hrun, hr]
        cases out <;> first | exact absurd rfl hp | exact h
    | sent k =>
      have hJ' : J (sent s k) := by
        obtain ⟨j1, j2⟩ := hJ
        refine ⟨fun h => ?_, ?_⟩
        · have := j1 h; simp only [sent, List.length_take]; omega
        · simp only [sent, List.length_take]; omega
      obtain ⟨s2, h, hI2, hJ2⟩ := ih (sent s k) hI hJ' hv'
      exact ⟨s2, by simp only [hrun, h], hI2, hJ2⟩

/-- the former witness of unbounded growth (retire CID 0, then repeat a NEW_CONNECTION_ID for sequence 0): it is now cut
    off with CONNECTION_ID_LIMIT_ERROR when the queue is full -/
def retireCidsFlood (n : Nat) : List HOp :=
  .frame 1 1 [2] (List.replicate 16 0) :: List.replicate n (.frame 0 0 [3] (List.replicate 16 0))

def floodInit : Handler := ⟨new [1], [], false⟩

theorem retireCidsFlood_valid (n : Nat) : ∀ op ∈ retireCidsFlood n, op.valid := by
  intro op hop
  simp only [retireCidsFlood, List.mem_cons, List.mem_replicate] at hop
  rcases hop with rfl | ⟨_, rfl⟩ <;> simp [HOp.valid, B]

end QM.CidQueue
