import QuinnModel.Async.DriverWake
/-
Proofs about the driver-wake protocol (C18): the table read from the source covers the proto contract, and with
a covering table no interleaving leaves frames behind a sleeping, unarmed driver.
-/
namespace QM.DriverWake

/-- a wake table covers the contract: whenever the call may have queued frames, the wake is made -/
def Covers (W : Op → Bool → Bool → Bool → Bool) : Prop :=
  ∀ op r u1 u2, mayQueue op r = true → W op r u1 u2 = true

theorem wakes_covers : Covers wakes := by
  intro op r u1 u2 h
  -- 21 entry points x 8 valuations: each goal is closed by evaluation, or its hypothesis is `false = true`
  cases op <;> cases r <;> cases u1 <;> cases u2 <;> first | rfl | exact absurd h (by decide)

theorem safe_step (W : Op → Bool → Bool → Bool → Bool) (hW : Covers W) (s : St) (e : Ev) (hs : Safe s) :
    Safe (step W s e) := by
  cases e with
  | app op r u1 u2 queued =>
    unfold Safe step
    simp only
    by_cases hw : W op r u1 u2 = true
    · simp [hw]
    · simp only [hw]
      intro hd hp
      -- no wake: the contract says nothing was queued
      have hq : (queued && mayQueue op r) = false := by
        cases hm : mayQueue op r
        · simp
        · exact absurd (hW op r u1 u2 hm) hw
      simp only [hq, Bool.or_false] at hp
      exact hs hd hp
  | driverPoll out =>
    unfold Safe step
    cases hd : s.drv with
    | asleep =>
      simp only [hd]
      intro _ hp
      exact hs hd hp
    | runnable => cases out <;> simp
  | ext =>
    unfold Safe step
    simp

theorem safe_run (W : Op → Bool → Bool → Bool → Bool) (hW : Covers W) :
    ∀ (evs : List Ev) (s : St), Safe s → Safe (run W s evs) := by
  intro evs
  induction evs with
  | nil => intro s h; simpa [run] using h
  | cons e es ih => intro s h; exact ih _ (safe_step W hW s e h)

theorem safe_init : Safe init := by
  unfold Safe init
  simp

theorem app_leaves_runnable (W : Op → Bool → Bool → Bool → Bool) (hW : Covers W) (s : St) (op : Op)
    (r u1 u2 queued : Bool) (hq : mayQueue op r = true) :
    (step W s (.app op r u1 u2 queued)).drv = .runnable := by
  simp [step, hW op r u1 u2 hq]

theorem not_safe_guarded : ¬ Safe (run wakesGuardedRead init guardedReadTrace) := by
  unfold Safe
  decide

theorem sites_count : sitesIn 0 = Gen.c18dwSitesRecv ∧ sitesIn 1 = Gen.c18dwSitesSend ∧
    sitesIn 2 = Gen.c18dwSitesConn ∧ Gen.c18dwDriverLoopShape = 1 := by
  decide

end QM.DriverWake
