import QuinnModel.Lemmas.StreamsFrameOps
/-
Receiver view: the connection-level receive accounting and every instantiated receiving half.
Sender-side operations and bookkeeping helpers leave it unchanged.
-/
namespace QM.Streams
set_option pp.structureInstances false

structure RCore where
  dataRecvd : Nat
  localMaxData : Nat
  receiveWindow : Nat
  debt : Nat
  srw : Nat
deriving DecidableEq

def State.rcore (s : State) : RCore :=
  ⟨s.dataRecvd, s.localMaxData, s.receiveWindow, s.receiveWindowShrinkDebt, s.streamReceiveWindow⟩

/-- the instantiated receiving half stored under `id`, if any -/
def State.rv (s : State) (id : Nat) : Option Recv :=
  match s.recv.find? id with
  | some (some r) => some r
  | _ => none

structure RView where
  core : RCore
  rv : Nat → Option Recv

def State.rvw (s : State) : RView := ⟨s.rcore, s.rv⟩

theorem rvw_of_eq {s s' : State} (hc : s'.rcore = s.rcore) (hr : s'.recv = s.recv) : s'.rvw = s.rvw := by
  have : s'.rv = s.rv := by funext k; simp only [State.rv, hr]
  simp only [State.rvw, hc, this]

theorem rv_mapInsertIf {c : Bool} {m m' : Map (Option Recv)} {id : Nat}
    (h : mapInsertIf c m id = some m') (k : Nat) :
    (match m'.find? k with | some (some x) => some x | _ => none) =
    (match m.find? k with | some (some x) => some x | _ => none) := by
  unfold mapInsertIf at h
  split at h
  · rw [Map.find?_insertNew _ _ _ _ _ h]
    by_cases hk : id = k
    · subst hk; simp only [↓reduceIte]; rw [Map.insertNew_absent _ _ _ _ h]
    · simp only [hk, ↓reduceIte]
  · simp only [Option.some.injEq] at h; subst h; rfl

theorem rvw_insert {s s' : State} {r : Bool} {id : Nat} (h : s.insert r id = some s') : s'.rvw = s.rvw := by
  unfold State.insert at h
  osplit h
  subst h
  have hs := ‹mapInsertIf _ s.recv _ = some _›
  simp only [State.rvw, State.rcore, RView.mk.injEq, true_and]
  funext k
  simp only [State.rv]
  exact rv_mapInsertIf hs k

theorem rvw_insertRemoteRange (n : Nat) : ∀ {s s' : State} {d : Dir} {st i : Nat},
    s.insertRemoteRange d st n i = some s' → s'.rvw = s.rvw := by
  induction n with
  | zero => intro s s' d st i h; simp [State.insertRemoteRange] at h; subst h; rfl
  | succ n ih =>
    intro s s' d st i h
    unfold State.insertRemoteRange at h
    split at h
    · simp at h
    · rename_i s1 h1
      exact (ih h).trans (rvw_insert h1)

theorem rvw_ensureRemoteStreams {s s' : State} {d : Dir} (h : s.ensureRemoteStreams d = some s') :
    s'.rvw = s.rvw := by
  unfold State.ensureRemoteStreams at h
  osplit h
  subst h
  via rvw_insertRemoteRange _ ‹State.insertRemoteRange _ _ _ _ _ = some _›

theorem rvw_onStreamFrame (s : State) (b : Bool) (id : Nat) : (s.onStreamFrame b id).rvw = s.rvw := by
  apply rvw_of_eq <;> grind [State.onStreamFrame, State.rcore]

theorem rvw_freeRemote {s s' : State} {id : Nat} {hf : Half} (h : s.freeRemote id hf = some s') :
    s'.rvw = s.rvw := by
  unfold State.freeRemote at h
  osplit h
  all_goals first
    | (subst h; rfl)
    | via rvw_ensureRemoteStreams h

theorem rvw_streamFreed {s s' : State} {id : Nat} {hf : Half} (h : s.streamFreed id hf = some s') :
    s'.rvw = s.rvw := by
  unfold State.streamFreed at h
  osplit h
  all_goals
    subst h
    via rvw_freeRemote ‹State.freeRemote _ _ _ = some _›

theorem rvw_getOrInsertSend {s s' : State} {id : Nat} {x : Send}
    (h : s.getOrInsertSend id = some (x, s')) : s'.rvw = s.rvw := by
  unfold State.getOrInsertSend at h
  osplit h
  all_goals
    rw [← h.2]
    try rfl

theorem rvw_queueMaxStreamId {s s' : State} {b : Bool} (h : s.queueMaxStreamId = some (s', b)) :
    s'.rvw = s.rvw := by
  unfold State.queueMaxStreamId at h
  osplit h
  all_goals
    rw [← h.1]
    try rfl

theorem rvw_queueMaxIf {s s' : State} {c : Bool} (h : s.queueMaxIf c = some s') : s'.rvw = s.rvw := by
  rcases queueMaxIf_cases h with rfl | ⟨b, hq⟩
  · rfl
  · exact rvw_queueMaxStreamId hq

/-! ### sender-side operations -/

theorem rvw_write {s s' : State} {id n : Nat} {r : Except WriteErr Nat} (h : s.write id n = some (s', r)) :
    s'.rvw = s.rvw := by
  unfold State.write at h
  osplit h
  all_goals
    obtain ⟨rfl, _⟩ := h
    first
      | rfl
      | (have hg := rvw_getOrInsertSend ‹State.getOrInsertSend _ _ = some _›; exact hg)

theorem rvw_finish {s s' : State} {id : Nat} {r : Except WriteErr Unit} (h : s.finish id = (s', r)) :
    s'.rvw = s.rvw := by
  unfold State.finish at h
  osplit h
  all_goals
    obtain ⟨rfl, _⟩ := h
    first
      | rfl
      | (have hg := rvw_getOrInsertSend ‹State.getOrInsertSend _ _ = some _›; exact hg)

theorem rvw_reset {s s' : State} {id code : Nat} {b : Bool} (h : s.reset id code = some (s', b)) :
    s'.rvw = s.rvw := by
  unfold State.reset at h
  osplit h
  all_goals
    obtain ⟨rfl, _⟩ := h
    first
      | rfl
      | (have hg := rvw_getOrInsertSend ‹State.getOrInsertSend _ _ = some _›; exact hg)

theorem rvw_setPriority {s s' : State} {id : Nat} {p : Int} {b : Bool} (h : s.setPriority id p = (s', b)) :
    s'.rvw = s.rvw := by
  unfold State.setPriority at h
  osplit h
  all_goals
    obtain ⟨rfl, _⟩ := h
    first
      | rfl
      | (have hg := rvw_getOrInsertSend ‹State.getOrInsertSend _ _ = some _›; exact hg)

theorem rvw_receivedStopSending (s : State) (id code : Nat) : (s.receivedStopSending id code).rvw = s.rvw := by
  unfold State.receivedStopSending
  split
  · rfl
  · rename_i x s1 h1
    have hg := rvw_getOrInsertSend h1
    cases hsr : x.stopReason with
    | none =>
      simp only [Send.tryStop, hsr, ↓reduceIte]
      exact (rvw_onStreamFrame _ _ _).trans hg
    | some c =>
      simp only [Send.tryStop, hsr, Bool.false_eq_true, ↓reduceIte]
      exact hg

theorem rvw_resetAcked {s s' : State} {id : Nat} (h : s.resetAcked id = some s') : s'.rvw = s.rvw := by
  unfold State.resetAcked at h
  osplit h
  all_goals first
    | (subst h; rfl)
    | via rvw_streamFreed h

theorem rvw_receivedAckOf {s s' : State} {id a e : Nat} {fin : Bool}
    (h : s.receivedAckOf id a e fin = some s') : s'.rvw = s.rvw := by
  unfold State.receivedAckOf at h
  osplit h
  all_goals first
    | (subst h; rfl)
    | (have f := rvw_streamFreed ‹State.streamFreed _ _ _ = some _›
       subst h; exact f)

theorem rvw_retransmit {s s' : State} {id a e : Nat} {fin : Bool}
    (h : s.retransmit id a e fin = some s') : s'.rvw = s.rvw := by
  unfold State.retransmit at h
  osplit h
  all_goals (subst h; rfl)

theorem rvw_rtx0Loop (dir : Dir) : ∀ (n : Nat) {s s' : State} {i : Nat},
    s.rtx0Loop dir n i = some s' → s'.rvw = s.rvw := by
  intro n
  induction n with
  | zero => intro s s' i h; simp [State.rtx0Loop] at h; subst h; rfl
  | succ n ih =>
    intro s s' i h
    unfold State.rtx0Loop at h
    osplit h
    all_goals first
      | exact ih h
      | via ih h

theorem rvw_retransmitAllFor0rtt {s s' : State} (h : s.retransmitAllFor0rtt = some s') : s'.rvw = s.rvw := by
  unfold State.retransmitAllFor0rtt at h
  osplit h
  exact (rvw_rtx0Loop _ _ h).trans (rvw_rtx0Loop _ _ ‹State.rtx0Loop _ _ _ _ = some _›)

theorem rvw_pollBlocked : ∀ (fuel : Nat) {s s' : State} {e : Option Event},
    s.pollBlocked fuel = some (s', e) → s'.rvw = s.rvw := by
  intro fuel
  induction fuel with
  | zero => intro s s' e h; simp [State.pollBlocked] at h; rw [← h.1]
  | succ n ih =>
    intro s s' e h
    unfold State.pollBlocked at h
    osplit h
    all_goals first
      | (obtain ⟨rfl, _⟩ := h; rfl)
      | via ih h

theorem rvw_poll {s s' : State} {e : Option Event} (h : s.poll = some (s', e)) : s'.rvw = s.rvw := by
  unfold State.poll at h
  osplit h
  all_goals first
    | (obtain ⟨rfl, _⟩ := h; rfl)
    | (have hp := ‹State.pollBlockedIf _ _ = some _›
       unfold State.pollBlockedIf at hp
       osplit hp
       all_goals first
        | (obtain ⟨rfl, _⟩ := h; via rvw_pollBlocked _ hp)
        | (obtain ⟨rfl, _⟩ := h; obtain ⟨rfl, _⟩ := hp; rfl))

theorem rvw_writeStreamFrames (maxBuf : Nat) (fair : Bool) : ∀ (fuel : Nat) {s s' : State}
    {bl bl' : Nat} {acc fs : List SentFrame},
    s.writeStreamFrames maxBuf fair fuel bl acc = some (s', bl', fs) → s'.rvw = s.rvw := by
  intro fuel
  induction fuel with
  | zero => intro s s' bl bl' acc fs h; simp [State.writeStreamFrames] at h; rw [← h.1]
  | succ n ih =>
    intro s s' bl bl' acc fs h
    unfold State.writeStreamFrames at h
    osplit h
    all_goals first
      | (obtain ⟨rfl, _⟩ := h; rfl)
      | via ih h

theorem rvw_open {s s' : State} {d : Dir} {r : Option Nat} (h : s.open_ d = some (s', r)) :
    s'.rvw = s.rvw := by
  unfold State.open_ at h
  osplit h
  all_goals first
    | (obtain ⟨rfl, _⟩ := h; rfl)
    | (have f := rvw_insert ‹State.insert _ _ _ = some _›
       obtain ⟨rfl, _⟩ := h; exact f)

theorem rvw_accept (s : State) (d : Dir) : (s.accept d).1.rvw = s.rvw := by
  unfold State.accept
  split
  · rfl
  · dsimp only; split <;> rfl

theorem rvw_afterUnblock (s : State) (b : Bool) (id : Nat) (x' : Send) (wl : Nat) :
    (s.afterUnblock b id x' wl).rvw = s.rvw := by
  unfold State.afterUnblock
  split
  · split
    · rfl
    · split <;> rfl
  · rfl

theorem rvw_receivedMaxStreamData {s s' : State} {id n : Nat} {e : Option TErr}
    (h : s.receivedMaxStreamData id n = some (s', e)) : s'.rvw = s.rvw := by
  unfold State.receivedMaxStreamData at h
  osplit h
  all_goals first
    | (obtain ⟨rfl, _⟩ := h; rfl)
    | (obtain ⟨rfl, _⟩ := h; exact rvw_onStreamFrame _ _ _)
    | (have hg := rvw_getOrInsertSend ‹State.getOrInsertSend _ _ = some _›
       obtain ⟨rfl, _⟩ := h
       exact (rvw_onStreamFrame _ _ _).trans ((rvw_afterUnblock _ _ _ _ _).trans hg))

theorem rvw_receivedMaxStreams (s : State) (d : Dir) (n : Nat) : (s.receivedMaxStreams d n).1.rvw = s.rvw := by
  unfold State.receivedMaxStreams
  split
  · rfl
  · split <;> rfl

theorem rvw_setParams (s : State) (p : Params) : (s.setParams p).rvw = s.rvw := rfl

theorem rvw_setMaxConcurrent {s s' : State} {d : Dir} {n : Nat} (h : s.setMaxConcurrent d n = some s') :
    s'.rvw = s.rvw := by
  unfold State.setMaxConcurrent at h
  via rvw_ensureRemoteStreams h

end QM.Streams
