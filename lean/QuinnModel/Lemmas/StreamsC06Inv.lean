import QuinnModel.Lemmas.StreamsRecvFrame
import QuinnModel.Lemmas.StreamsC06
/-
C06 — receiver accounting invariants and their preservation.
-/
namespace QM.Streams
set_option pp.structureInstances false

/-- per-stream receive bounds: high-water mark ≤ advertised limit ≤ consumed + window; what is
    buffered lies between the read offset and the high-water mark -/
structure RecvOk (srw : Nat) (r : Recv) : Prop where
  end_le : r.end_ ≤ r.sentMaxStreamData
  sent_le : r.sentMaxStreamData ≤ r.assembler.bytesRead + srw
  read_le : r.assembler.bytesRead ≤ r.end_
  buf_le : ∀ a b, (a, b) ∈ r.assembler.buf → b ≤ r.end_
  /-- once the final size is known nothing was received beyond it -/
  fin_le : ∀ fo, r.finalOffset = some fo → r.end_ ≤ fo

/-- receiver invariant on the receiver view -/
structure RInvV (v : RView) : Prop where
  lmd_u64 : v.core.localMaxData < 2 ^ 64
  recvd_le : v.core.dataRecvd ≤ v.core.localMaxData
  streams : ∀ id r, v.rv id = some r → RecvOk v.core.srw r

def RInv (s : State) : Prop := RInvV s.rvw

/-- credit balance: everything advertised beyond the configured window (plus not yet applied
    shrinks) was issued for `C` consumed or discarded bytes -/
def Bal (s : State) (C : Nat) : Prop :=
  s.localMaxData = s.receiveWindow + s.receiveWindowShrinkDebt + C

/-- no saturating arithmetic took effect -/
def Unsat (s : State) : Prop :=
  s.localMaxData < 2 ^ 64 - 1 ∧ s.receiveWindowShrinkDebt < 2 ^ 64 - 1

theorem RInv.of_rvw {s s' : State} (h : s'.rvw = s.rvw) (i : RInv s) : RInv s' := by
  unfold RInv; rw [h]; exact i

theorem Bal.of_rvw {s s' : State} {C : Nat} (h : s'.rvw = s.rvw) (b : Bal s C) : Bal s' C := by
  have hc : s'.rcore = s.rcore := congrArg RView.core h
  simp only [State.rcore, RCore.mk.injEq] at hc
  unfold Bal at *; omega

theorem Unsat.of_rvw {s s' : State} (h : s'.rvw = s.rvw) (u : Unsat s') : Unsat s := by
  have hc : s'.rcore = s.rcore := congrArg RView.core h
  simp only [State.rcore, RCore.mk.injEq] at hc
  unfold Unsat at *; omega

theorem recvOk_new (srw : Nat) : RecvOk srw (Recv.new srw) :=
  ⟨Nat.zero_le _, by simp [Recv.new], Nat.le_refl _, by intro a b h; simp [Recv.new] at h,
   by intro fo h; simp [Recv.new, Recv.finalOffset] at h⟩

/-! ### range-set facts for the assembler -/

theorem insertNE_ends (M : Nat) : ∀ (rs : RangeSet) (a b : Nat), b ≤ M → (∀ x y, (x, y) ∈ rs → y ≤ M) →
    ∀ x y, (x, y) ∈ RangeSet.insertNE rs a b → y ≤ M := by
  intro rs
  induction rs with
  | nil => intro a b hb _ x y hm; simp [RangeSet.insertNE] at hm; omega
  | cons hd tl ih =>
    intro a b hb hall x y hm
    obtain ⟨s, e⟩ := hd
    unfold RangeSet.insertNE at hm
    have he : e ≤ M := hall s e (List.mem_cons_self ..)
    have htl : ∀ x y, (x, y) ∈ tl → y ≤ M := fun x y h => hall x y (List.mem_cons_of_mem _ h)
    split at hm
    · rcases List.mem_cons.mp hm with h1 | h1
      · simp only [Prod.mk.injEq] at h1; omega
      · exact ih a b hb htl x y h1
    · split at hm
      · rcases List.mem_cons.mp hm with h1 | h1
        · simp only [Prod.mk.injEq] at h1; omega
        · exact hall x y h1
      · exact ih _ _ (by simp only [natMax_eq]; omega) htl x y hm

theorem insert_ends (M : Nat) (rs : RangeSet) (a b : Nat) (hb : b ≤ M) (hall : ∀ x y, (x, y) ∈ rs → y ≤ M) :
    ∀ x y, (x, y) ∈ RangeSet.insert rs a b → y ≤ M := by
  unfold RangeSet.insert
  split
  · exact insertNE_ends M rs a b hb hall
  · exact hall

theorem available_le (a : Asm) (M : Nat) (hall : ∀ x y, (x, y) ∈ a.buf → y ≤ M) (hr : a.bytesRead ≤ M) :
    a.bytesRead + a.available ≤ M := by
  unfold Asm.available
  split
  · rename_i s e rest hb
    split
    · rename_i hs
      have := hall s e (by rw [hb]; exact List.mem_cons_self ..)
      omega
    · omega
  · omega

theorem consume_ok (a : Asm) (k M : Nat) (hk : k ≤ a.available) (hall : ∀ x y, (x, y) ∈ a.buf → y ≤ M) :
    (a.consume k).bytesRead = a.bytesRead + k ∧ ∀ x y, (x, y) ∈ (a.consume k).buf → y ≤ M := by
  unfold Asm.consume
  split
  · rename_i s e rest hb
    split
    · rename_i hk0; subst hk0; exact ⟨rfl, hall⟩
    · split
      · refine ⟨rfl, ?_⟩
        intro x y hm
        rcases List.mem_cons.mp hm with h1 | h1
        · simp only [Prod.mk.injEq] at h1
          have := hall s e (by rw [hb]; exact List.mem_cons_self ..); omega
        · exact hall x y (by rw [hb]; exact List.mem_cons_of_mem _ h1)
      · exact ⟨rfl, fun x y hm => hall x y (by rw [hb]; exact List.mem_cons_of_mem _ hm)⟩
  · rename_i hb
    unfold Asm.available at hk
    simp only [hb] at hk
    have : k = 0 := by omega
    subst this; exact ⟨rfl, hall⟩


/-! ### the instantiated-receive-half view under map updates -/

theorem rv_putRecv {s : State} {id : Nat} {r : Recv} {w : Option Recv} (hx : s.recv.find? id = some w) (k : Nat) :
    (s.putRecv id r).rv k = if k = id then some r else s.rv k := by
  simp only [State.rv, State.putRecv]
  by_cases hk : k = id
  · subst hk; rw [Map.find?_set_self _ _ _ _ hx]; simp
  · rw [Map.find?_set_ne _ _ _ _ hk]; simp [hk]

theorem rv_erase (s : State) (id k : Nat) :
    ({ s with recv := s.recv.erase id } : State).rv k = if k = id then none else s.rv k := by
  simp only [State.rv]
  by_cases hk : k = id
  · subst hk; rw [Map.find?_erase_self]; simp
  · rw [Map.find?_erase_ne _ _ _ hk]; simp [hk]

theorem rv_cons (s : State) (id k : Nat) (r : Recv) :
    ({ s with recv := (id, some r) :: s.recv } : State).rv k = if k = id then some r else s.rv k := by
  simp only [State.rv, Map.find?_cons]
  by_cases hk : id = k
  · subst hk; simp
  · have : ¬ k = id := fun h => hk h.symm
    simp [hk, this]

theorem getOrInsertRecv_spec {s s1 : State} {id : Nat} {rs : Recv}
    (h : s.getOrInsertRecv id = some (rs, s1)) :
    s1.rcore = s.rcore ∧ (∃ w, s1.recv.find? id = some w) ∧ (∀ k, s1.rv k = if k = id then some rs else s.rv k) ∧
    (s.rv id = some rs ∨ (s.recv.find? id = some none ∧ rs = Recv.new s.streamReceiveWindow)) := by
  unfold State.getOrInsertRecv at h
  osplit h
  · obtain ⟨rfl, rfl⟩ := h
    have hy := ‹Map.find? s.recv id = some (some _)›
    refine ⟨rfl, ⟨_, hy⟩, ?_, Or.inl (by simp only [State.rv, hy])⟩
    intro k
    by_cases hk : k = id
    · subst hk; simp only [State.rv, hy, ↓reduceIte]
    · simp only [hk, ↓reduceIte]
  · obtain ⟨rfl, rfl⟩ := h
    have hy := ‹Map.find? s.recv id = some none›
    refine ⟨rfl, ⟨_, Map.find?_set_self _ _ _ _ hy⟩, ?_, Or.inr ⟨hy, rfl⟩⟩
    intro k
    have := rv_putRecv (r := Recv.new s.streamReceiveWindow) hy k
    simp only [State.putRecv] at this
    exact this

theorem applyCredits_spec (s : State) (c : Nat) :
    (s.applyCredits c).recv = s.recv ∧ (s.applyCredits c).dataRecvd = s.dataRecvd ∧
    (s.applyCredits c).receiveWindow = s.receiveWindow ∧
    (s.applyCredits c).streamReceiveWindow = s.streamReceiveWindow ∧
    (s.localMaxData < 2 ^ 64 → s.localMaxData ≤ (s.applyCredits c).localMaxData ∧
      (s.applyCredits c).localMaxData < 2 ^ 64) ∧
    (Unsat (s.applyCredits c) → (s.applyCredits c).localMaxData + s.receiveWindowShrinkDebt =
        s.localMaxData + (s.applyCredits c).receiveWindowShrinkDebt + c) ∧
    (s.applyCredits c).receiveWindowShrinkDebt ≤ s.receiveWindowShrinkDebt := by
  unfold State.applyCredits
  split
  · rename_i hgt
    refine ⟨rfl, rfl, rfl, rfl, ?_, ?_, Nat.zero_le _⟩
    · intro hl; simp only [satAdd, natMin_eq]; omega
    · intro u
      simp only [Unsat, satAdd, natMin_eq] at u ⊢
      omega
  · rename_i hle
    refine ⟨rfl, rfl, rfl, rfl, fun hl => ⟨Nat.le_refl _, hl⟩, ?_, Nat.sub_le _ _⟩
    intro _
    simp only
    omega

/-- `add_read_credits`: what it does to the receive accounting -/
theorem addReadCredits_spec {s s' : State} {c : Nat} {t : Bool} (h : s.addReadCredits c = some (s', t)) :
    s'.recv = s.recv ∧ s'.dataRecvd = s.dataRecvd ∧ s'.receiveWindow = s.receiveWindow ∧
    s'.streamReceiveWindow = s.streamReceiveWindow ∧
    (s.localMaxData < 2 ^ 64 → s.localMaxData ≤ s'.localMaxData ∧ s'.localMaxData < 2 ^ 64) ∧
    (Unsat s' → s'.localMaxData + s.receiveWindowShrinkDebt = s.localMaxData + s'.receiveWindowShrinkDebt + c) ∧
    s'.receiveWindowShrinkDebt ≤ s.receiveWindowShrinkDebt := by
  have hs : s' = s.applyCredits c := by
    unfold State.addReadCredits at h
    dsimp only at h
    split at h
    · simp only [Option.some.injEq, Prod.mk.injEq] at h; exact h.1.symm
    · split at h
      · contradiction
      · simp only [Option.some.injEq, Prod.mk.injEq] at h; exact h.1.symm
  rw [hs]; exact applyCredits_spec s c

theorem creditAndQueue_spec {s s' : State} {c : Nat} {t : Bool} (h : s.creditAndQueue c = some (s', t)) :
    s'.recv = s.recv ∧ s'.dataRecvd = s.dataRecvd ∧ s'.receiveWindow = s.receiveWindow ∧
    s'.streamReceiveWindow = s.streamReceiveWindow ∧
    (s.localMaxData < 2 ^ 64 → s.localMaxData ≤ s'.localMaxData ∧ s'.localMaxData < 2 ^ 64) ∧
    (Unsat s' → s'.localMaxData + s.receiveWindowShrinkDebt = s.localMaxData + s'.receiveWindowShrinkDebt + c) ∧
    s'.receiveWindowShrinkDebt ≤ s.receiveWindowShrinkDebt := by
  unfold State.creditAndQueue at h
  osplit h
  all_goals
    have ha := addReadCredits_spec ‹State.addReadCredits _ _ = some _›
    obtain ⟨rfl, _⟩ := h
    exact ha

theorem RInv.step {s s' : State} (i : RInv s)
    (hsrw : s'.streamReceiveWindow = s.streamReceiveWindow)
    (hl : s'.localMaxData < 2 ^ 64) (hr : s'.dataRecvd ≤ s'.localMaxData)
    (hrv : ∀ k r, s'.rv k = some r → s.rv k = some r ∨ RecvOk s.streamReceiveWindow r) : RInv s' := by
  refine ⟨hl, hr, ?_⟩
  intro k r hk
  simp only [State.rvw, State.rcore] at hk ⊢
  rw [hsrw]
  rcases hrv k r hk with h | h
  · exact i.streams k r h
  · exact h

/-- the final size after an accepted STREAM frame: the frame's end if it carried the FIN, else the
    one known before -/
theorem ingest_finalOffset {r r' : Recv} {offset len received maxData nb : Nat} {fin cl : Bool}
    (h : r.ingest offset len fin received maxData = some (.ok (nb, cl, r'))) (fo : Nat)
    (hf : r'.finalOffset = some fo) : (fo = offset + len ∧ fin = true) ∨ r.finalOffset = some fo := by
  unfold Recv.ingest Recv.ingestTail at h
  osplit h
  all_goals
    obtain ⟨_, _, rfl⟩ := h
    simp only [Recv.finalOffset] at hf ⊢
    first
      | exact Or.inr hf
      | (have hst := ‹r.state = _›; rw [hst]; exact Or.inr hf)
      | (simp only [Option.some.injEq] at hf; exact Or.inl ⟨hf.symm, by simp_all⟩)

/-- an accepted STREAM frame keeps the per-stream bounds -/
theorem ingest_ok_recvOk {srw : Nat} {r r' : Recv} {offset len received maxData nb : Nat} {fin cl : Bool}
    (ok : RecvOk srw r) (h : r.ingest offset len fin received maxData = some (.ok (nb, cl, r'))) :
    RecvOk srw r' ∧ nb = offset + len - r.end_ ∧ received + nb ≤ maxData ∧ r'.stopped = r.stopped ∧
    cl = (fin && r.stopped) := by
  have hfo := ingest_finalOffset h
  rcases ingest_cases h with ⟨_, he⟩ | ⟨_, _, he⟩ | ⟨_, _, _, he⟩ | ⟨_, hnc, h3, h4, r'', he, e1, e2, e3, e4, e5⟩
  · contradiction
  · contradiction
  · contradiction
  · simp only [Except.ok.injEq, Prod.mk.injEq] at he
    obtain ⟨rfl, rfl, rfl⟩ := he
    refine ⟨⟨?_, ?_, ?_, ?_, ?_⟩, rfl, h4, e3, rfl⟩
    rotate_right
    · -- the final size bounds the high-water mark
      intro fo hf
      rw [e1]; simp only [natMax_eq]
      rcases hfo fo hf with ⟨rfl, hfin⟩ | hold
      · have : ¬ (offset + len < r.end_) := fun hlt => hnc (Or.inr ⟨hfin, hlt⟩)
        omega
      · have h1 := ok.fin_le fo hold
        have : ¬ (offset + len > fo) := fun hgt => hnc (Or.inl ⟨fo, hold, Or.inl hgt⟩)
        omega
    · rw [e1, e2]; simp only [natMax_eq]; have := ok.end_le; omega
    · rw [e2, e4]; exact ok.sent_le
    · rw [e4, e1]; simp only [natMax_eq]; have := ok.read_le; omega
    · intro a b hab
      rw [e5] at hab
      rw [e1]
      have hold : ∀ x y, (x, y) ∈ r.assembler.buf → y ≤ Nat.max r.end_ (offset + len) := by
        intro x y hxy; have := ok.buf_le x y hxy; simp only [natMax_eq]; omega
      split at hab
      · exact insert_ends _ _ _ _ (by simp only [natMax_eq]; omega) hold a b hab
      · exact hold a b hab

end QM.Streams
