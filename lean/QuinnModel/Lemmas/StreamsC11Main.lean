import QuinnModel.Lemmas.StreamsEvents
import QuinnModel.Lemmas.StreamsC17
/-
C11 — events: which operation can queue a Finished / Stopped event and under which condition;
release of the remote stream count; terminal reads.
-/
namespace QM.Streams
set_option pp.structureInstances false

/-- how one operation changes the queue of Finished / Stopped events -/
theorem events_step {s s' : State} {o : Op} {out : Out} (h : step s o = some (s', out)) (hr : o.isRestart = false) :
    s'.fsw = s.fsw ∨
    (o = .poll ∧ ∃ ev, s.fsw = ev :: s'.fsw) ∨
    (∃ id a e fin, o = .ack id a e fin ∧ s'.fsw = s.fsw ++ [.finished id] ∧ s'.cv id = none ∧
      ∃ x x', s.send.find? id = some (some x) ∧ x.ack a e fin = some (x', true)) ∨
    (∃ id code, o = .stopSending id code ∧ s'.fsw = s.fsw ++ [.stopped id code] ∧
      expectedStopped (absSend s id) = some none ∧ expectedStopped (absSend s' id) = some (some code)) := by
  cases o <;> simp [Op.isRestart] at hr
  case params p => unstep h; rw [← h.1]; exact Or.inl rfl
  case conn c => unstep h; rw [← h.1]; exact Or.inl rfl
  case open_ d => unstep h; obtain ⟨s1, r, h1, h2, _⟩ := h; rw [← h2]; exact Or.inl (fsw_open h1)
  case accept d => unstep h; rw [← h.1]; exact Or.inl (fsw_accept s d)
  case write id n => unstep h; obtain ⟨s1, r, h1, h2, _⟩ := h; rw [← h2]; exact Or.inl (fsw_write h1)
  case finish id => unstep h; rw [← h.1]; exact Or.inl (fsw_finish (r := (s.finish id).2) rfl)
  case reset id code => unstep h; obtain ⟨s1, b, h1, h2, _⟩ := h; rw [← h2]; exact Or.inl (fsw_reset h1)
  case stopped id => unstep h; rw [← h.1]; exact Or.inl rfl
  case prio id p => unstep h; rw [← h.1]; exact Or.inl (fsw_setPriority (b := (s.setPriority id p).2) rfl)
  case stream id off len fin =>
    unstep h; obtain ⟨s1, r, h1, h2, _⟩ := h; rw [← h2]; exact Or.inl (fsw_received h1)
  case rst id code fo =>
    unstep h; obtain ⟨s1, r, h1, h2, _⟩ := h; rw [← h2]; exact Or.inl (fsw_receivedReset h1)
  case stopSending id code =>
    unstep h; rw [← h.1]
    rcases fsw_receivedStopSending s id code with hh | ⟨h1, _, h3, h4⟩
    · exact Or.inl hh
    · exact Or.inr (Or.inr (Or.inr ⟨id, code, rfl, h1, h3, h4⟩))
  case maxData n => unstep h; rw [← h.1]; exact Or.inl rfl
  case maxStreamData id n =>
    unstep h; obtain ⟨s1, e, h1, h2, _⟩ := h; rw [← h2]; exact Or.inl (fsw_receivedMaxStreamData h1)
  case maxStreams d n => unstep h; rw [← h.1]; exact Or.inl (fsw_receivedMaxStreams s d n)
  case ack id a e fin =>
    unstep h; obtain ⟨s1, h1, h2, _⟩ := h; rw [← h2]
    rcases fsw_receivedAckOf h1 with hh | ⟨h3, h4, h5⟩
    · exact Or.inl hh
    · exact Or.inr (Or.inr (Or.inl ⟨id, a, e, fin, rfl, h3, h4, h5⟩))
  case lost id a e fin => unstep h; obtain ⟨s1, h1, h2, _⟩ := h; rw [← h2]; exact Or.inl (fsw_retransmit h1)
  case rstAck id => unstep h; obtain ⟨s1, h1, h2, _⟩ := h; rw [← h2]; exact Or.inl (fsw_resetAcked h1)
  case read id b => unstep h; obtain ⟨s1, r, h1, h2, _⟩ := h; rw [← h2]; exact Or.inl (fsw_read h1)
  case stop id code => unstep h; obtain ⟨s1, b, h1, h2, _⟩ := h; rw [← h2]; exact Or.inl (fsw_stop h1)
  case recvReset id =>
    unstep h; obtain ⟨s1, r, h1, h2, _⟩ := h; rw [← h2]; exact Or.inl (fsw_recvReceivedReset h1)
  case poll =>
    unstep h; obtain ⟨s1, e, h1, h2, _⟩ := h; rw [← h2]
    rcases fsw_poll h1 with hh | hh
    · exact Or.inl hh
    · exact Or.inr (Or.inl ⟨rfl, hh⟩)
  case transmit mb fair =>
    unstep h; obtain ⟨s1, l, fs, h1, h2, _⟩ := h; rw [← h2]; exact Or.inl (fsw_writeStreamFrames _ _ _ h1)
  case canSend => unstep h; rw [← h.1]; exact Or.inl rfl
  case canFlow id => unstep h; rw [← h.1]; exact Or.inl rfl
  case ctrl => unstep h; obtain ⟨s1, fs, h1, h2, _⟩ := h; rw [← h2]; exact Or.inl (fsw_writeControlFrames h1)
  case queueMaxStreamId =>
    unstep h; obtain ⟨s1, b, h1, h2, _⟩ := h; rw [← h2]; exact Or.inl (fsw_queueMaxStreamId h1)
  case pendMaxData => unstep h; rw [← h.1]; exact Or.inl rfl
  case pendMaxStreamData id => unstep h; rw [← h.1]; exact Or.inl rfl
  case pendMaxStreamId d => unstep h; rw [← h.1]; exact Or.inl rfl
  case sendWindow n => unstep h; rw [← h.1]; exact Or.inl rfl
  case recvWindow n => unstep h; rw [← h.1]; exact Or.inl (fsw_setReceiveWindow s n)
  case maxConcurrent d n =>
    unstep h; obtain ⟨s1, h1, h2, _⟩ := h; rw [← h2]; exact Or.inl (fsw_setMaxConcurrent h1)
  case rtx0 => unstep h; obtain ⟨s1, h1, h2, _⟩ := h; rw [← h2]; exact Or.inl (fsw_retransmitAllFor0rtt h1)
  case view => unstep h; rw [← h.1]; exact Or.inl rfl

/-! ### release of the remote stream count -/

theorem ensureRemoteStreams_count {s s' : State} {d : Dir} (h : s.ensureRemoteStreams d = some s') :
    s'.allocatedRemoteCount.get d = Nat.max (s.allocatedRemoteCount.get d) (s.maxConcurrentRemoteCount.get d) ∧
    s'.maxRemote.get d = s.maxRemote.get d +
      (s.maxConcurrentRemoteCount.get d - s.allocatedRemoteCount.get d) := by
  unfold State.ensureRemoteStreams at h
  osplit h
  have e := insertRemoteRange_only_maps _ ‹State.insertRemoteRange _ _ _ _ _ = some _›
  rename_i s1 _
  have e1 : s1.allocatedRemoteCount = s.allocatedRemoteCount := by rw [e]
  have e2 : s1.maxRemote = s.maxRemote := by rw [e]
  rw [← h]
  simp only [Two.get_set, ↓reduceIte, e1, e2, natMax_eq]
  constructor
  · omega
  · trivial

/-- `stream_freed`: the count of permitted-and-not-closed remote streams is decremented exactly for a
    remotely initiated stream whose other half is gone too (or that has one half), and is then topped
    up to the configured concurrency -/
theorem freeRemote_count {s s' : State} {id : Nat} {half : Half} (h : s.freeRemote id half = some s') :
    (sidInitiator id ≠ s.side ∧ s.fullyFree id half = true ∧ 1 ≤ s.allocatedRemoteCount.get (sidDir id) ∧
      s'.allocatedRemoteCount.get (sidDir id) =
        Nat.max (s.allocatedRemoteCount.get (sidDir id) - 1) (s.maxConcurrentRemoteCount.get (sidDir id))) ∨
    (¬ (sidInitiator id ≠ s.side ∧ s.fullyFree id half = true) ∧ s' = s) := by
  unfold State.freeRemote at h
  by_cases hr : sidInitiator id ≠ s.side
  · rw [if_pos hr] at h
    by_cases hff : s.fullyFree id half = true
    · rw [if_pos hff] at h
      left
      split at h
      · contradiction
      · rename_i c hc
        have hc' : 1 ≤ s.allocatedRemoteCount.get (sidDir id) ∧ c = s.allocatedRemoteCount.get (sidDir id) - 1 := by
          unfold subU at hc; split at hc
          · simp only [Option.some.injEq] at hc; omega
          · contradiction
        have := (ensureRemoteStreams_count h).1
        simp only [Two.get_set, ↓reduceIte] at this
        exact ⟨hr, hff, hc'.1, by rw [this, hc'.2]⟩
    · rw [if_neg hff] at h
      simp only [Option.some.injEq] at h
      exact Or.inr ⟨fun hh => hff hh.2, h.symm⟩
  · rw [if_neg hr] at h
    simp only [Option.some.injEq] at h
    exact Or.inr ⟨fun hh => hr hh.1, h.symm⟩

/-! ### terminal reads -/

/-- reading on a stream that is not (or no longer) in the receive map, or that was stopped -/
theorem read_closed {s : State} {id budget : Nat} (h : s.recv.find? id = none) :
    s.read id budget = some (s, .closedStream) := by
  unfold State.read State.getOrInsertRecv; simp [h]

/-- a read that ends with end-of-stream or with the reset code frees the receiving half -/
theorem read_terminal {s s' : State} {id budget k : Nat} {e : ReadEnd} {t : Bool}
    (h : s.read id budget = some (s', .ok k e t)) (ht : e = .fin ∨ ∃ c, e = .reset c) : s'.rv id = none := by
  unfold State.read at h
  split at h
  · simp at h
  · rename_i rs s1 hg
    split at h
    · simp at h
    · dsimp only at h
      split at h
      · contradiction
      · rename_i end_ freed hre
        split at h
        · contradiction
        · rename_i s3 hfree
          split at h
          · contradiction
          · rename_i s4 t0 hq
            split at h
            · contradiction
            · rename_i s5 t01 hfin
              split at h
              · contradiction
              · rename_i s6 t2 harc
                simp only [Option.some.injEq, Prod.mk.injEq, ReadRes.ok.injEq] at h
                obtain ⟨rfl, _, rfl, _⟩ := h
                -- a terminal result means the half was freed
                have hfreed : freed = true := by
                  unfold Recv.readEnd at hre
                  split at hre
                  · simp only [Option.some.injEq, Prod.mk.injEq] at hre
                    rcases ht with hh | ⟨c, hh⟩ <;> (rw [← hre.1] at hh; contradiction)
                  · split at hre
                    · split at hre
                      · simp only [Option.some.injEq, Prod.mk.injEq] at hre; exact hre.2.symm
                      · contradiction
                    · split at hre
                      · simp only [Option.some.injEq, Prod.mk.injEq] at hre; exact hre.2.symm
                      · simp only [Option.some.injEq, Prod.mk.injEq] at hre
                        rcases ht with hh | ⟨c, hh⟩ <;> (rw [← hre.1] at hh; contradiction)
                have f3 := rvw_freeIf hfree
                have f4 := rvw_queueMaxStreamId hq
                obtain ⟨_, hrv5⟩ := finalizeReadable_rv hfin
                obtain ⟨q1, _⟩ := addReadCredits_spec harc
                have e6 : ({ s6 with rtx := { s6.rtx with maxData := s6.rtx.maxData || t2 } } : State).rv id = s5.rv id := by
                  simp only [State.rv, q1]
                rw [e6, hrv5 id]
                simp only [hfreed, Bool.true_eq_false, false_and, ↓reduceIte]
                have e4 : s4.rv id = ({ s1 with recv := s1.recv.erase id } : State).rv id :=
                  congrFun (congrArg RView.rv (f4.trans f3)) id
                rw [e4, rv_erase]; simp

/-! ### the receiving half -/

/-- abstract state of a receiving half -/
inductive RecvHalf
  /-- not (or no longer) in the receive map -/
  | gone
  /-- receiving; `sizeKnown` once the FIN arrived -/
  | open_ (sizeKnown : Bool)
  /-- RESET_STREAM arrived, the application has not seen it yet -/
  | resetRecvd (code : Nat)
  /-- stopped by the application, kept only for flow-control accounting -/
  | stopped
deriving DecidableEq, Repr

def RecvHalf.ofRecv (r : Recv) : RecvHalf :=
  if r.stopped then .stopped
  else match r.state with
    | .recv sz => .open_ sz.isSome
    | .resetRecvd _ c => .resetRecvd c

def absRecv (s : State) (id : Nat) : RecvHalf :=
  match s.recv.find? id with
  | none => .gone
  | some none => .open_ false
  | some (some r) => RecvHalf.ofRecv r

theorem absRecv_getOrInsert {s s1 : State} {id : Nat} {rs : Recv} (h : s.getOrInsertRecv id = some (rs, s1)) :
    absRecv s id = RecvHalf.ofRecv rs := by
  obtain ⟨_, _, _, hor⟩ := getOrInsertRecv_spec h
  unfold absRecv
  rcases hor with hh | ⟨hh, hx⟩
  · rw [rv_eq_some.mp hh]
  · rw [hh, hx]; rfl

theorem absRecv_gone_iff {s : State} {id : Nat} : s.getOrInsertRecv id = none ↔ absRecv s id = .gone := by
  unfold State.getOrInsertRecv absRecv
  cases hf : s.recv.find? id with
  | none => simp
  | some v =>
    cases v with
    | none => simp
    | some r =>
      simp only [reduceCtorEq, false_iff]
      unfold RecvHalf.ofRecv
      split
      · simp
      · cases r.state <;> simp

/-- `read` follows the table: a closed or stopped half reports `ClosedStream`; a reset half yields no
    data and then the reset code; an open half never reports a reset -/
theorem read_table {s s' : State} {id budget : Nat} {res : ReadRes} (h : s.read id budget = some (s', res)) :
    match absRecv s id with
    | .gone | .stopped => res = .closedStream
    | .open_ _ => ∃ k e t, res = .ok k e t ∧ ∀ c, e ≠ .reset c
    | .resetRecvd c => ∃ k e t, res = .ok k e t ∧ (e = .more ∨ (k = 0 ∧ e = .reset c)) := by
  unfold State.read at h
  split at h
  · rename_i hg
    rw [absRecv_gone_iff.mp hg]
    simp only [Option.some.injEq, Prod.mk.injEq] at h; exact h.2.symm
  · rename_i rs s1 hg
    rw [absRecv_getOrInsert hg]
    split at h
    · rename_i hst
      simp only [Option.some.injEq, Prod.mk.injEq] at h
      unfold RecvHalf.ofRecv; rw [hst]; exact h.2.symm
    · rename_i hns
      have hns' : rs.stopped = false := by simpa using hns
      dsimp only at h
      split at h
      · contradiction
      · rename_i end_ freed hre
        have hres : ∃ t, res = .ok (Nat.min budget rs.assembler.available) end_ t := by
          split at h
          · contradiction
          · split at h
            · contradiction
            · split at h
              · contradiction
              · split at h
                · contradiction
                · simp only [Option.some.injEq, Prod.mk.injEq] at h; exact ⟨_, h.2.symm⟩
        obtain ⟨t, rfl⟩ := hres
        unfold RecvHalf.ofRecv; rw [hns']
        simp only [Bool.false_eq_true, ↓reduceIte]
        unfold Recv.readEnd at hre
        cases hst : rs.state with
        | recv sz =>
          simp only [hst] at hre ⊢
          refine ⟨_, _, _, rfl, ?_⟩
          intro c hc
          split at hre
          · simp only [Option.some.injEq, Prod.mk.injEq] at hre; rw [← hre.1] at hc; contradiction
          · split at hre <;> (simp only [Option.some.injEq, Prod.mk.injEq] at hre; rw [← hre.1] at hc; contradiction)
        | resetRecvd sz c =>
          simp only [hst] at hre ⊢
          split at hre
          · simp only [Option.some.injEq, Prod.mk.injEq] at hre
            exact ⟨_, _, _, rfl, Or.inl hre.1.symm⟩
          · split at hre
            · rename_i hk0
              simp only [Option.some.injEq, Prod.mk.injEq] at hre
              exact ⟨_, _, _, rfl, Or.inr ⟨hk0, hre.1.symm⟩⟩
            · contradiction

/-- `stop` succeeds exactly on a half that is present and not yet stopped -/
theorem stop_table {s s' : State} {id code : Nat} {b : Bool} (h : s.stop id code = some (s', b)) :
    b = (match absRecv s id with
      | .gone | .stopped => false
      | _ => true) := by
  unfold State.stop at h
  split at h
  · rename_i hg
    rw [absRecv_gone_iff.mp hg]
    simp only [Option.some.injEq, Prod.mk.injEq] at h; exact h.2.symm
  · rename_i rs s1 hg
    rw [absRecv_getOrInsert hg]
    have hstop : (rs.stop = some none ∧ rs.stopped = true) ∨ (∃ v, rs.stop = some (some v) ∧ rs.stopped = false) ∨
        rs.stop = none := by
      unfold Recv.stop
      by_cases hst : rs.stopped = true
      · simp [hst]
      · have hst' : rs.stopped = false := by simpa using hst
        simp only [hst', Bool.false_eq_true, ↓reduceIte]
        cases (if Gen.stopCreditsOnlyReceiving && !rs.isReceiving then some 0
          else subU rs.end_ rs.assembler.bytesRead) <;> simp
    rcases hstop with ⟨hs, hst⟩ | ⟨v, hs, hst⟩ | hs
    · simp only [hs, Option.some.injEq, Prod.mk.injEq] at h
      unfold RecvHalf.ofRecv; rw [hst]; exact h.2.symm
    · obtain ⟨credits, stopSending, rs'⟩ := v
      simp only [hs] at h
      have hb : b = true := by
        split at h
        · contradiction
        · split at h
          · contradiction
          · split at h
            · contradiction
            · simp only [Option.some.injEq, Prod.mk.injEq] at h; exact h.2.symm
      rw [hb]
      unfold RecvHalf.ofRecv; rw [hst]
      simp only [Bool.false_eq_true, ↓reduceIte]
      cases rs.state <;> rfl
    · simp [hs] at h

/-- `RecvStream::received_reset` follows the table; once it has reported the code the half is gone -/
theorem recvReceivedReset_table {s s' : State} {id : Nat} {r : Option (Option Nat)}
    (h : s.recvReceivedReset id = some (s', r)) :
    r = (match absRecv s id with
      | .gone | .stopped => none
      | .open_ _ => some none
      | .resetRecvd c => some (some c)) ∧
    (∀ c, r = some (some c) → s'.rv id = none) := by
  unfold State.recvReceivedReset at h
  unfold absRecv
  split at h
  · rename_i hf
    simp only [Option.some.injEq, Prod.mk.injEq] at h
    simp only [hf]; exact ⟨h.2.symm, fun c hc => by rw [← h.2] at hc; contradiction⟩
  · rename_i hf
    simp only [Option.some.injEq, Prod.mk.injEq] at h
    simp only [hf]; exact ⟨h.2.symm, fun c hc => by rw [← h.2] at hc; simp at hc⟩
  · rename_i rs hf
    simp only [hf]
    unfold RecvHalf.ofRecv
    split at h
    · rename_i hst
      simp only [Option.some.injEq, Prod.mk.injEq] at h
      simp only [hst, ↓reduceIte]; exact ⟨h.2.symm, fun c hc => by rw [← h.2] at hc; contradiction⟩
    · rename_i hst
      have hst' : rs.stopped = false := by simpa using hst
      simp only [hst', Bool.false_eq_true, ↓reduceIte]
      split at h
      · rename_i hrc
        simp only [Option.some.injEq, Prod.mk.injEq] at h
        constructor
        · rw [← h.2]; unfold Recv.resetCode at hrc; cases hs : rs.state <;> simp_all
        · intro c hc; rw [← h.2] at hc; simp at hc
      · rename_i code hrc
        split at h
        · contradiction
        · rename_i s1 hfr
          split at h
          · contradiction
          · rename_i s2 b hq
            simp only [Option.some.injEq, Prod.mk.injEq] at h
            constructor
            · rw [← h.2]; unfold Recv.resetCode at hrc; cases hs : rs.state <;> simp_all
            · intro c _
              rw [← h.1]
              have f := (rvw_queueMaxStreamId hq).trans (rvw_streamRecvFreed hfr)
              have := congrFun (congrArg RView.rv f) id
              simp only [State.rvw] at this
              rw [this, rv_erase]; simp

end QM.Streams
