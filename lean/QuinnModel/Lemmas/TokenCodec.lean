import QuinnModel.Endpoint.Token
/- Byte-level facts for the token payload coding: round trip and canonicity. -/
namespace QM.SysTime

theorem add_some (t d : Nat) (h : t + d < limit) : add t d = some (t + d) := by
  unfold add; rw [if_pos h]

theorem add_none (t d : Nat) (h : ¬ t + d < limit) : add t d = none := by
  unfold add; rw [if_neg h]

end QM.SysTime

namespace QM.Token
open QM

/-- every element is a byte -/
def WF (bs : Bytes) : Prop := ∀ b ∈ bs, b < 256

theorem WF_take {l : Bytes} (n : Nat) (h : WF l) : WF (l.take n) := fun b hb => h b (List.mem_of_mem_take hb)
theorem WF_drop {l : Bytes} (n : Nat) (h : WF l) : WF (l.drop n) := fun b hb => h b (List.mem_of_mem_drop hb)
theorem WF_tail {b : Nat} {l : Bytes} (h : WF (b :: l)) : WF l := fun x hx => h x (List.mem_cons_of_mem _ hx)
theorem WF_head {b : Nat} {l : Bytes} (h : WF (b :: l)) : b < 256 := h b List.mem_cons_self

/-! ### big endian -/

theorem foldl_acc (l : Bytes) : ∀ acc, l.foldl (fun a b => a * 256 + b) acc
    = acc * 256 ^ l.length + l.foldl (fun a b => a * 256 + b) 0 := by
  induction l with
  | nil => intro acc; simp
  | cons x xs ih =>
    intro acc
    simp only [List.foldl_cons, List.length_cons]
    rw [ih (acc * 256 + x), ih (0 * 256 + x), Nat.pow_succ]
    simp only [Nat.zero_mul, Nat.zero_add, Nat.add_mul, Nat.mul_assoc, Nat.mul_comm 256]
    omega

theorem beVal_cons (x : Nat) (l : Bytes) : beVal (x :: l) = x * 256 ^ l.length + beVal l := by
  unfold beVal
  simp only [List.foldl_cons]
  rw [foldl_acc l (0 * 256 + x)]
  simp

theorem beVal_lt (l : Bytes) (h : WF l) : beVal l < 256 ^ l.length := by
  induction l with
  | nil => simp [beVal]
  | cons x xs ih =>
    rw [beVal_cons]
    have hx : x < 256 := WF_head h
    have := ih (WF_tail h)
    simp only [List.length_cons, Nat.pow_succ]
    have h2 : x * 256 ^ xs.length ≤ 255 * 256 ^ xs.length := Nat.mul_le_mul_right _ (by omega)
    omega

theorem beBytes_length (n x : Nat) : (beBytes n x).length = n := by
  induction n with
  | zero => rfl
  | succ k ih => simp [beBytes, ih]

theorem beVal_beBytes (n x : Nat) : beVal (beBytes n x) = x % 256 ^ n := by
  suffices h : ∀ acc, (beBytes n x).foldl (fun a b => a * 256 + b) acc = acc * 256 ^ n + x % 256 ^ n by
    have := h 0; simpa [beVal] using this
  induction n with
  | zero => intro acc; simp [beBytes, Nat.mod_one]
  | succ k ih =>
    intro acc
    simp only [beBytes, List.foldl_cons, ih]
    have h1 : x % 256 ^ (k+1) = (x / 256^k % 256) * 256^k + x % 256^k := by
      rw [Nat.pow_succ, Nat.mod_mul, Nat.mul_comm (256^k)]
      omega
    rw [h1, Nat.pow_succ]
    rw [Nat.add_mul, Nat.mul_assoc, Nat.mul_comm 256 (256^k)]
    omega

theorem beBytes_add_mul (n : Nat) : ∀ (y k : Nat), beBytes n (y + k * 256 ^ n) = beBytes n y := by
  induction n with
  | zero => intro y k; rfl
  | succ m ih =>
    intro y k
    simp only [beBytes]
    have hp : 0 < 256 ^ m := Nat.pow_pos (by omega)
    have e : k * 256 ^ (m + 1) = (k * 256) * 256 ^ m := by rw [Nat.pow_succ, Nat.mul_assoc, Nat.mul_comm (256 ^ m)]
    rw [e, ih y (k * 256), Nat.add_mul_div_right _ _ hp, Nat.add_mul_mod_self_right]

/-- canonicity: a byte string is the big-endian form of its value -/
theorem beBytes_beVal (bs : Bytes) (h : WF bs) : beBytes bs.length (beVal bs) = bs := by
  induction bs with
  | nil => rfl
  | cons b r ih =>
    have hb := WF_head h
    have hr := beVal_lt r (WF_tail h)
    have hp : 0 < 256 ^ r.length := Nat.pow_pos (by omega)
    rw [beVal_cons, List.length_cons]
    simp only [beBytes]
    rw [Nat.add_comm (b * 256 ^ r.length), beBytes_add_mul, ih (WF_tail h),
      Nat.add_mul_div_right _ _ hp, Nat.div_eq_of_lt hr, Nat.zero_add, Nat.mod_eq_of_lt hb]

/-! ### little endian (the nonce) -/

theorem leBytes_length (n : Nat) : ∀ x, (leBytes n x).length = n := by
  induction n with
  | zero => intro x; rfl
  | succ k ih => intro x; simp [leBytes, ih]

theorem leVal_leBytes (n : Nat) : ∀ x, leVal (leBytes n x) = x % 256 ^ n := by
  induction n with
  | zero => intro x; simp [leBytes, leVal, Nat.mod_one]
  | succ k ih =>
    intro x
    simp only [leBytes, leVal, ih]
    rw [Nat.pow_succ, Nat.mul_comm (256 ^ k), Nat.mod_mul]

theorem leVal_lt (bs : Bytes) (h : WF bs) : leVal bs < 256 ^ bs.length := by
  induction bs with
  | nil => simp [leVal]
  | cons b r ih =>
    have hb := WF_head h
    have := ih (WF_tail h)
    simp only [leVal, List.length_cons, Nat.pow_succ]
    omega

theorem leBytes_leVal (bs : Bytes) (h : WF bs) : leBytes bs.length (leVal bs) = bs := by
  induction bs with
  | nil => rfl
  | cons b r ih =>
    have hb := WF_head h
    simp only [List.length_cons, leBytes, leVal]
    have h1 : (b + 256 * leVal r) % 256 = b := by omega
    have h2 : (b + 256 * leVal r) / 256 = leVal r := by omega
    rw [h1, h2, ih (WF_tail h)]

end QM.Token
