import QuinnModel.Lemmas.StreamsC11Main
import QuinnModel.Lemmas.StreamsRemoteLimit
/-
C11, whole histories — the *half view* of a state and how the helpers of the model change it.

`hv s` = side, `next`, `max_remote`, `allocated_remote_count`, the abstract state of every sending half
(`absSend`: gone / ready / dataSent / resetSent + stop reason) and the presence of every receiving half.
A helper either leaves the view alone (`s'.hv = s.hv`) or *grows* it (`Grow`): stream ids that were not
allocated before become allocated and get fresh halves, the number of released slots
(`max_remote - allocated_remote_count`) stays the same.  The only places where a half disappears are
the `erase` + `stream_freed` sites, characterised by `Freed`.
-/
namespace QM.Streams
set_option pp.structureInstances false

structure HV where
  side : Side
  next : Two Nat
  maxRemote : Two Nat
  alloc : Two Nat
  sh : Nat → SendHalf
  rp : Nat → Bool

def State.hv (s : State) : HV :=
  ⟨s.side, s.next, s.maxRemote, s.allocatedRemoteCount, absSend s, fun id => s.recv.contains id⟩

/-- the stream id has been allocated: opened locally, or permitted to the peer -/
def HV.allocd (v : HV) (id : Nat) : Prop :=
  if sidInitiator id = v.side then sidIndex id < v.next.get (sidDir id)
  else sidIndex id < v.maxRemote.get (sidDir id)

theorem Map.contains_set {α} (m : Map α) (k k' : Nat) (v : α) : (m.set k v).contains k' = m.contains k' := by
  unfold Map.contains; rw [Map.find?_set]
  by_cases h : k' = k
  · subst h; simp only [↓reduceIte]; unfold Map.contains; cases m.find? k' <;> simp
  · simp [h]

theorem hv_of_eq {s s' : State} (h1 : s'.side = s.side) (h2 : s'.next = s.next)
    (h3 : s'.maxRemote = s.maxRemote) (h4 : s'.allocatedRemoteCount = s.allocatedRemoteCount)
    (h5 : s'.send = s.send) (h6 : s'.recv = s.recv) : s'.hv = s.hv := by
  have e : absSend s' = absSend s := by funext id; simp only [absSend, h5]
  simp only [State.hv, h1, h2, h3, h4, h6, e]

/-- replacing an instantiated sending half by one of the same class and stop reason -/
theorem hv_upd {s s' : State} {id : Nat} {x x' : Send} (hx : s.send.find? id = some (some x))
    (h5 : s'.send = s.send.set id (some x'))
    (hc : SendHalf.ofSend x' = SendHalf.ofSend x)
    (h1 : s'.side = s.side) (h2 : s'.next = s.next) (h3 : s'.maxRemote = s.maxRemote)
    (h4 : s'.allocatedRemoteCount = s.allocatedRemoteCount)
    (h6 : s'.recv = s.recv) : s'.hv = s.hv := by
  have e : absSend s' = absSend s := by
    funext k
    unfold absSend
    rw [h5]
    by_cases hk : k = id
    · subst hk; rw [Map.find?_set_self _ _ _ _ hx, hx]; exact hc
    · rw [Map.find?_set_ne _ _ _ _ hk]
  simp only [State.hv, h1, h2, h3, h4, h6, e]

/-- replacing a receiving half -/
theorem hv_updR {s s' : State} {id : Nat} {r : Option Recv}
    (h1 : s'.side = s.side) (h2 : s'.next = s.next) (h3 : s'.maxRemote = s.maxRemote)
    (h4 : s'.allocatedRemoteCount = s.allocatedRemoteCount)
    (h5 : s'.send = s.send) (h6 : s'.recv = s.recv.set id r) : s'.hv = s.hv := by
  have e : absSend s' = absSend s := by funext id; simp only [absSend, h5]
  have e2 : (fun k => s'.recv.contains k) = fun k => s.recv.contains k := by
    funext k; rw [h6, Map.contains_set]
  simp only [State.hv, h1, h2, h3, h4, e, e2]

theorem hv_getOrInsertSend {s s' : State} {id : Nat} {x : Send}
    (h : s.getOrInsertSend id = some (x, s')) : s'.hv = s.hv := by
  have e : absSend s' = absSend s := by
    funext k
    unfold State.getOrInsertSend at h
    osplit h
    · rw [← h.2]
    · obtain ⟨rfl, rfl⟩ := h
      have hy := ‹Map.find? s.send id = some none›
      unfold absSend
      by_cases hk : k = id
      · subst hk; simp only [Map.find?_set_self _ _ _ _ hy, hy]; rfl
      · simp only [Map.find?_set_ne _ _ _ _ hk]
  have e2 : s' = { s with send := s'.send } := by
    unfold State.getOrInsertSend at h
    osplit h
    all_goals rw [← h.2]
  rw [e2] at e ⊢
  simp only [State.hv, e]

theorem hv_getOrInsertRecv {s s' : State} {id : Nat} {r : Recv}
    (h : s.getOrInsertRecv id = some (r, s')) : s'.hv = s.hv := by
  unfold State.getOrInsertRecv at h
  osplit h
  · rw [← h.2]
  · obtain ⟨rfl, rfl⟩ := h
    exact hv_updR rfl rfl rfl rfl rfl rfl

/-! ### growth -/

/-- ids that were not allocated become allocated and get fresh halves; `rel d` slots of direction `d`
    were released; nothing else changes, except possibly the sending half of `xs` and the receiving
    half of `xr` -/
structure Grow (xs xr : Option Nat) (rel : Dir → Nat) (v v' : HV) : Prop where
  side : v'.side = v.side
  next : ∀ d, v.next.get d ≤ v'.next.get d
  maxR : ∀ d, v.maxRemote.get d ≤ v'.maxRemote.get d
  cnt : ∀ d, v'.maxRemote.get d + v.alloc.get d = v.maxRemote.get d + v'.alloc.get d + rel d
  sh : ∀ id, xs ≠ some id →
    v'.sh id = v.sh id ∨ (v.sh id = .gone ∧ ¬ v.allocd id ∧ v'.allocd id ∧ v'.sh id = .ready none ∧
      (sidDir id = .bi ∨ sidInitiator id = v.side))
  rp : ∀ id, xr ≠ some id →
    v'.rp id = v.rp id ∨ (v.rp id = false ∧ ¬ v.allocd id ∧ v'.allocd id ∧ v'.rp id = true)

def rel0 : Dir → Nat := fun _ => 0
def rel1 (d0 : Dir) : Dir → Nat := fun d => if d = d0 then 1 else 0

theorem Grow.refl (v : HV) : Grow none none rel0 v v :=
  ⟨rfl, fun _ => Nat.le_refl _, fun _ => Nat.le_refl _, fun _ => rfl, fun _ _ => Or.inl rfl,
   fun _ _ => Or.inl rfl⟩

theorem Grow.of_eq {v v' : HV} (h : v' = v) : Grow none none rel0 v v' := h ▸ Grow.refl v

theorem Grow.allocd {xs xr rel} {v v' : HV} (g : Grow xs xr rel v v') {id : Nat} (h : v.allocd id) :
    v'.allocd id := by
  unfold HV.allocd at h ⊢
  rw [g.side]
  split
  · rw [if_pos ‹_›] at h; exact Nat.lt_of_lt_of_le h (g.next _)
  · rw [if_neg ‹_›] at h; exact Nat.lt_of_lt_of_le h (g.maxR _)

/-- weaken: more exceptions -/
theorem Grow.weaken {xs xr xs' xr' rel} {v v' : HV} (g : Grow xs xr rel v v')
    (h1 : xs = none ∨ xs = xs') (h2 : xr = none ∨ xr = xr') : Grow xs' xr' rel v v' := by
  refine ⟨g.side, g.next, g.maxR, g.cnt, fun id hx => g.sh id ?_, fun id hx => g.rp id ?_⟩
  · rcases h1 with h | h
    · rw [h]; exact fun hh => by cases hh
    · rw [h]; exact hx
  · rcases h2 with h | h
    · rw [h]; exact fun hh => by cases hh
    · rw [h]; exact hx

theorem Grow.trans {xs xr r1 r2 r3} {a b c : HV} (h1 : Grow xs xr r1 a b) (h2 : Grow xs xr r2 b c)
    (hr : ∀ d, r3 d = r1 d + r2 d) : Grow xs xr r3 a c := by
  refine ⟨h2.side.trans h1.side, fun d => Nat.le_trans (h1.next d) (h2.next d),
    fun d => Nat.le_trans (h1.maxR d) (h2.maxR d), fun d => ?_, fun id hx => ?_, fun id hx => ?_⟩
  · have := h1.cnt d; have := h2.cnt d; have := hr d; omega
  · rcases h2.sh id hx with e2 | ⟨g2, n2, a2, r2, u2⟩
    · rcases h1.sh id hx with e1 | ⟨g1, n1, a1, r1, u1⟩
      · exact Or.inl (e2.trans e1)
      · exact Or.inr ⟨g1, n1, h2.allocd a1, e2.trans r1, u1⟩
    · rcases h1.sh id hx with e1 | ⟨g1, n1, a1, r1, u1⟩
      · exact Or.inr ⟨e1 ▸ g2, fun h => n2 (h1.allocd h), a2, r2, h1.side ▸ u2⟩
      · rw [r1] at g2; contradiction
  · rcases h2.rp id hx with e2 | ⟨g2, n2, a2, r2⟩
    · rcases h1.rp id hx with e1 | ⟨g1, n1, a1, r1⟩
      · exact Or.inl (e2.trans e1)
      · exact Or.inr ⟨g1, n1, h2.allocd a1, e2.trans r1⟩
    · rcases h1.rp id hx with e1 | ⟨g1, n1, a1, r1⟩
      · exact Or.inr ⟨e1 ▸ g2, fun h => n2 (h1.allocd h), a2, r2⟩
      · rw [r1] at g2; contradiction

/-- `G s s'`: the helper grew the view -/
def G (s s' : State) : Prop := Grow none none rel0 s.hv s'.hv

theorem G.refl (s : State) : G s s := Grow.refl _
theorem G.of_hv {s s' : State} (h : s'.hv = s.hv) : G s s' := Grow.of_eq h
theorem G.trans {a b c : State} (h1 : G a b) (h2 : G b c) : G a c := Grow.trans h1 h2 (fun _ => rfl)
/-- compose in the order the fsw lemmas are composed: later step first -/
theorem G.after {a b c : State} (h2 : G b c) (h1 : G a b) : G a c := G.trans h1 h2

/-! ### the stream-id allocation helpers -/

theorem contains_mapInsertIf {α} {c : Bool} {m m' : Map (Option α)} {id : Nat}
    (h : mapInsertIf c m id = some m') (k : Nat) :
    m'.find? k = m.find? k ∨ (k = id ∧ m.find? k = none ∧ m'.find? k = some none ∧ c = true) := by
  unfold mapInsertIf at h
  split at h
  · have ha := Map.insertNew_absent _ _ _ _ h
    have hf := Map.find?_insertNew _ _ _ k _ h
    by_cases hk : id = k
    · subst hk; rw [if_pos rfl] at hf; exact Or.inr ⟨rfl, ha, hf, ‹_›⟩
    · rw [if_neg hk] at hf; exact Or.inl hf
  · simp only [Option.some.injEq] at h; subst h; exact Or.inl rfl

/-- `insert` adds fresh halves for `id` only -/
theorem insert_halves {s s' : State} {r : Bool} {id : Nat} (h : s.insert r id = some s') (k : Nat) :
    (absSend s' k = absSend s k ∨ (k = id ∧ absSend s k = .gone ∧ absSend s' k = .ready none ∧
      (sidDir id == .bi || !r) = true)) ∧
    (s'.recv.contains k = s.recv.contains k ∨
      (k = id ∧ s.recv.contains k = false ∧ s'.recv.contains k = true)) := by
  unfold State.insert at h
  osplit h
  subst h
  have hs := ‹mapInsertIf _ s.send _ = some _›
  have hr := ‹mapInsertIf _ s.recv _ = some _›
  constructor
  · rcases contains_mapInsertIf hs k with e | ⟨e1, e2, e3, e4⟩
    · left; simp only [absSend, e]
    · right; simp only [absSend, e2, e3]; exact ⟨e1, trivial, trivial, e4⟩
  · rcases contains_mapInsertIf hr k with e | ⟨e1, e2, e3, _⟩
    · left; simp only [Map.contains, e]
    · right; simp only [Map.contains, e2, e3]; exact ⟨e1, rfl, rfl⟩

/-- `insertRemoteRange d st n i` adds fresh halves for `sidNew side.not d (st + j)`, `i ≤ j < i + n`, only -/
theorem insertRemoteRange_halves (n : Nat) : ∀ {s s' : State} {d : Dir} {st i : Nat},
    s.insertRemoteRange d st n i = some s' → ∀ k,
    (absSend s' k = absSend s k ∨
      ((∃ j, i ≤ j ∧ j < i + n ∧ k = sidNew s.side.not d (st + j)) ∧ absSend s k = .gone ∧
        absSend s' k = .ready none ∧ d = .bi)) ∧
    (s'.recv.contains k = s.recv.contains k ∨
      ((∃ j, i ≤ j ∧ j < i + n ∧ k = sidNew s.side.not d (st + j)) ∧ s.recv.contains k = false ∧
        s'.recv.contains k = true)) := by
  induction n with
  | zero => intro s s' d st i h k; simp [State.insertRemoteRange] at h; subst h; exact ⟨Or.inl rfl, Or.inl rfl⟩
  | succ n ih =>
    intro s s' d st i h k
    unfold State.insertRemoteRange at h
    split at h
    · simp at h
    · rename_i s1 h1
      have hside : s1.side = s.side := by rw [insert_only_maps h1]
      obtain ⟨a1, a2⟩ := insert_halves h1 k
      obtain ⟨b1, b2⟩ := ih h k
      rw [hside] at b1 b2
      constructor
      · rcases b1 with e | ⟨⟨j, hj1, hj2, hj3⟩, g, r, u⟩
        · rcases a1 with e1 | ⟨e1, g1, r1, u1⟩
          · exact Or.inl (e.trans e1)
          · refine Or.inr ⟨⟨i, Nat.le_refl _, by omega, e1⟩, g1, e.trans r1, ?_⟩
            simpa [sidDir_sidNew] using u1
        · rcases a1 with e1 | ⟨e1, g1, r1, _⟩
          · exact Or.inr ⟨⟨j, by omega, by omega, hj3⟩, e1 ▸ g, r, u⟩
          · rw [r1] at g; contradiction
      · rcases b2 with e | ⟨⟨j, hj1, hj2, hj3⟩, g, r⟩
        · rcases a2 with e1 | ⟨e1, g1, r1⟩
          · exact Or.inl (e.trans e1)
          · exact Or.inr ⟨⟨i, Nat.le_refl _, by omega, e1⟩, g1, e.trans r1⟩
        · rcases a2 with e1 | ⟨e1, g1, r1⟩
          · exact Or.inr ⟨⟨j, by omega, by omega, hj3⟩, e1 ▸ g, r⟩
          · rw [r1] at g; contradiction

theorem g_ensureRemoteStreams {s s' : State} {d : Dir} (h : s.ensureRemoteStreams d = some s') : G s s' := by
  unfold State.ensureRemoteStreams at h
  osplit h
  rename_i s1 h1
  have e := insertRemoteRange_only_maps _ h1
  have hh := insertRemoteRange_halves _ h1
  subst h
  have es : s1.side = s.side := by rw [e]
  have en : s1.next = s.next := by rw [e]
  have em : s1.maxRemote = s.maxRemote := by rw [e]
  have ea : s1.allocatedRemoteCount = s.allocatedRemoteCount := by rw [e]
  -- the new ids lie between the old and the new limit
  have fresh : ∀ k, (∃ j, 0 ≤ j ∧ j < 0 + (s.maxConcurrentRemoteCount.get d - s.allocatedRemoteCount.get d) ∧
      k = sidNew s.side.not d (s.maxRemote.get d + j)) →
      ¬ s.hv.allocd k ∧ HV.allocd ⟨s.side, s.next, s1.maxRemote.set d (s1.maxRemote.get d +
        (s.maxConcurrentRemoteCount.get d - s.allocatedRemoteCount.get d)), s.allocatedRemoteCount,
        absSend s, fun _ => false⟩ k := by
    rintro k ⟨j, _, hj, rfl⟩
    have hne : sidInitiator (sidNew s.side.not d (s.maxRemote.get d + j)) ≠ s.side := by
      rw [sidInitiator_sidNew]; cases s.side <;> simp [Side.not]
    simp only [HV.allocd, State.hv, hne, ↓reduceIte, sidDir_sidNew, sidIndex_sidNew, Two.get_set, em, ea]
    omega
  refine ⟨es, fun d' => by simp only [State.hv, en]; exact Nat.le_refl _, fun d' => ?_, fun d' => ?_,
    fun k _ => ?_, fun k _ => ?_⟩
  · simp only [State.hv, Two.get_set, em]
    split
    · subst_vars; omega
    · exact Nat.le_refl _
  · simp only [State.hv, Two.get_set, em, ea, rel0]
    split
    · subst_vars; omega
    · rfl
  · rcases (hh k).1 with e1 | ⟨hj, g1, r1, u1⟩
    · exact Or.inl e1
    · obtain ⟨f1, f2⟩ := fresh k hj
      refine Or.inr ⟨g1, f1, ?_, r1, ?_⟩
      · simpa only [HV.allocd, State.hv, es, en] using f2
      · obtain ⟨j, _, _, rfl⟩ := hj
        left; rw [sidDir_sidNew]; exact u1
  · rcases (hh k).2 with e1 | ⟨hj, g1, r1⟩
    · exact Or.inl e1
    · obtain ⟨f1, f2⟩ := fresh k hj
      refine Or.inr ⟨g1, f1, ?_, r1⟩
      simpa only [HV.allocd, State.hv, es, en] using f2

theorem g_freeRemote {s s' : State} {id : Nat} {hf : Half} (h : s.freeRemote id hf = some s') :
    (sidInitiator id ≠ s.side ∧ s.fullyFree id hf = true ∧ Grow none none (rel1 (sidDir id)) s.hv s'.hv) ∨
    (¬ (sidInitiator id ≠ s.side ∧ s.fullyFree id hf = true) ∧ s' = s) := by
  unfold State.freeRemote at h
  by_cases hr : sidInitiator id ≠ s.side
  · rw [if_pos hr] at h
    by_cases hff : s.fullyFree id hf = true
    · rw [if_pos hff] at h
      left
      split at h
      · contradiction
      · rename_i c hc
        have hc' : 1 ≤ s.allocatedRemoteCount.get (sidDir id) ∧ c = s.allocatedRemoteCount.get (sidDir id) - 1 := by
          unfold subU at hc; split at hc
          · simp only [Option.some.injEq] at hc; omega
          · contradiction
        have g := g_ensureRemoteStreams h
        refine ⟨hr, hff, g.side, g.next, g.maxR, fun d => ?_, g.sh, g.rp⟩
        have := g.cnt d
        simp only [State.hv, Two.get_set, rel0, rel1] at this ⊢
        split at this
        · subst_vars; simp only [↓reduceIte]; omega
        · rename_i hne
          have : ¬ d = sidDir id := fun hh => hne hh.symm
          simp only [this, ↓reduceIte]; omega
    · rw [if_neg hff] at h
      simp only [Option.some.injEq] at h
      exact Or.inr ⟨fun hh => hff hh.2, h.symm⟩
  · rw [if_neg hr] at h
    simp only [Option.some.injEq] at h
    exact Or.inr ⟨fun hh => hr hh.1, h.symm⟩

theorem g_streamFreed {s s' : State} {id : Nat} {hf : Half} (h : s.streamFreed id hf = some s') :
    (sidInitiator id ≠ s.side ∧ s.fullyFree id hf = true ∧ Grow none none (rel1 (sidDir id)) s.hv s'.hv) ∨
    (¬ (sidInitiator id ≠ s.side ∧ s.fullyFree id hf = true) ∧ s'.hv = s.hv) := by
  unfold State.streamFreed at h
  osplit h
  all_goals
    subst h
    rcases g_freeRemote ‹State.freeRemote _ _ _ = some _› with ⟨a, b, c⟩ | ⟨a, b⟩
    · exact Or.inl ⟨a, b, c⟩
    · subst b; exact Or.inr ⟨a, rfl⟩

/-! ### helpers that leave the view alone -/

macro "gtriv" : tactic =>
  `(tactic| first | rfl | exact hv_of_eq rfl rfl rfl rfl rfl rfl)

theorem hv_onStreamFrame (s : State) (b : Bool) (id : Nat) : (s.onStreamFrame b id).hv = s.hv := by
  unfold State.onStreamFrame
  split
  · split <;> rfl
  · dsimp only
    split
    · rfl
    · split <;> rfl

theorem hv_applyCredits (s : State) (c : Nat) : (s.applyCredits c).hv = s.hv := by
  unfold State.applyCredits; split <;> rfl

theorem hv_addReadCredits {s s' : State} {c : Nat} {t : Bool}
    (h : s.addReadCredits c = some (s', t)) : s'.hv = s.hv := by
  have hs : s' = s.applyCredits c := by
    unfold State.addReadCredits at h
    dsimp only at h
    split at h
    · simp only [Option.some.injEq, Prod.mk.injEq] at h; exact h.1.symm
    · split at h
      · contradiction
      · simp only [Option.some.injEq, Prod.mk.injEq] at h; exact h.1.symm
  rw [hs]; exact hv_applyCredits s c

theorem hv_creditAndQueue {s s' : State} {c : Nat} {t : Bool}
    (h : s.creditAndQueue c = some (s', t)) : s'.hv = s.hv := by
  unfold State.creditAndQueue at h
  osplit h
  all_goals
    obtain ⟨rfl, rfl⟩ := h
    have f := hv_addReadCredits ‹State.addReadCredits _ _ = some _›
    exact f

theorem hv_queueMaxStreamId {s s' : State} {b : Bool} (h : s.queueMaxStreamId = some (s', b)) :
    s'.hv = s.hv := by
  unfold State.queueMaxStreamId at h
  osplit h
  all_goals
    rw [← h.1]
    try rfl

theorem hv_queueMaxIf {s s' : State} {c : Bool} (h : s.queueMaxIf c = some s') : s'.hv = s.hv := by
  rcases queueMaxIf_cases h with rfl | ⟨b, hq⟩
  · rfl
  · exact hv_queueMaxStreamId hq

theorem hv_queueStopSending (s : State) (c : Bool) (id code : Nat) :
    (s.queueStopSending c id code).hv = s.hv := by
  unfold State.queueStopSending; split <;> rfl

/-- `hvput hx`: the state on the left differs from the one on the right by storing, under the key of
    `hx`, a half of the same class and stop reason -/
macro "hvput " hx:term : tactic =>
  `(tactic| (have hx' := $hx; exact hv_upd hx' rfl rfl rfl rfl rfl rfl rfl))

theorem Send.write_half {x x' : Send} {n l k : Nat} (h : x.write n l = some (.ok (k, x'))) :
    SendHalf.ofSend x' = SendHalf.ofSend x := by
  unfold Send.write at h
  osplit h
  obtain ⟨_, rfl⟩ := h
  rfl

theorem hv_write {s s' : State} {id n : Nat} {r : Except WriteErr Nat} (h : s.write id n = some (s', r)) :
    s'.hv = s.hv := by
  unfold State.write at h
  osplit h
  all_goals
    obtain ⟨rfl, _⟩ := h
    first
      | rfl
      | (have hg := hv_getOrInsertSend ‹State.getOrInsertSend _ _ = some _›
         obtain ⟨_, hx1, _⟩ := getOrInsertSend_spec ‹State.getOrInsertSend _ _ = some _›
         first
          | exact hg
          | (refine Eq.trans ?_ hg; hvput hx1)
          | (have hw := Send.write_half ‹Send.write _ _ _ = some _›
             refine Eq.trans ?_ hg
             exact hv_upd hx1 rfl hw rfl rfl rfl rfl rfl))

theorem hv_setPriority {s s' : State} {id : Nat} {p : Int} {b : Bool} (h : s.setPriority id p = (s', b)) :
    s'.hv = s.hv := by
  unfold State.setPriority at h
  osplit h
  all_goals
    obtain ⟨rfl, _⟩ := h
    first
      | rfl
      | (have hg := hv_getOrInsertSend ‹State.getOrInsertSend _ _ = some _›
         obtain ⟨_, hx1, _⟩ := getOrInsertSend_spec ‹State.getOrInsertSend _ _ = some _›
         refine Eq.trans ?_ hg
         hvput hx1)

theorem hv_retransmit {s s' : State} {id a e : Nat} {fin : Bool}
    (h : s.retransmit id a e fin = some s') : s'.hv = s.hv := by
  unfold State.retransmit at h
  osplit h
  all_goals first
    | (subst h; rfl)
    | (subst h
       hvput ‹Map.find? s.send id = some (some _)›)

theorem hv_rtx0Loop (dir : Dir) : ∀ (n : Nat) {s s' : State} {i : Nat},
    s.rtx0Loop dir n i = some s' → s'.hv = s.hv := by
  intro n
  induction n with
  | zero => intro s s' i h; simp [State.rtx0Loop] at h; subst h; rfl
  | succ n ih =>
    intro s s' i h
    unfold State.rtx0Loop at h
    osplit h
    all_goals first
      | exact ih h
      | (refine (ih h).trans ?_
         hvput ‹Map.find? s.send _ = some (some _)›)

theorem hv_retransmitAllFor0rtt {s s' : State} (h : s.retransmitAllFor0rtt = some s') : s'.hv = s.hv := by
  unfold State.retransmitAllFor0rtt at h
  osplit h
  exact (hv_rtx0Loop _ _ h).trans (hv_rtx0Loop _ _ ‹State.rtx0Loop _ _ _ _ = some _›)

theorem hv_pollBlocked : ∀ (fuel : Nat) {s s' : State} {e : Option Event},
    s.pollBlocked fuel = some (s', e) → s'.hv = s.hv := by
  intro fuel
  induction fuel with
  | zero => intro s s' e h; simp [State.pollBlocked] at h; rw [← h.1]
  | succ n ih =>
    intro s s' e h
    unfold State.pollBlocked at h
    osplit h
    all_goals first
      | (obtain ⟨rfl, _⟩ := h; rfl)
      | (obtain ⟨rfl, _⟩ := h
         have hx : ({ s with connectionBlocked := s.connectionBlocked.dropLast } : State).send.find? _ =
           some (some _) := ‹Map.find? _ _ = some (some _)›
         exact hv_upd hx rfl rfl rfl rfl rfl rfl rfl)
      | exact ih h
      | via ih h
      | (refine (ih h).trans ?_
         have hx : ({ s with connectionBlocked := s.connectionBlocked.dropLast } : State).send.find? _ =
           some (some _) := ‹Map.find? _ _ = some (some _)›
         exact hv_upd hx rfl rfl rfl rfl rfl rfl rfl)

theorem hv_poll {s s' : State} {e : Option Event} (h : s.poll = some (s', e)) : s'.hv = s.hv := by
  unfold State.poll at h
  osplit h
  all_goals first
    | (obtain ⟨rfl, _⟩ := h; rfl)
    | (have hp := ‹State.pollBlockedIf _ _ = some _›
       have hpb : ∀ c s1 e1, s.pollBlockedIf c = some (s1, e1) → s1.hv = s.hv := by
         intro c s1 e1 hh
         unfold State.pollBlockedIf at hh
         split at hh
         · exact hv_pollBlocked _ hh
         · simp only [Option.some.injEq, Prod.mk.injEq] at hh; rw [← hh.1]
       have h1 := hpb _ _ _ hp
       obtain ⟨rfl, _⟩ := h
       exact h1)

theorem hv_writeStreamFrames (maxBuf : Nat) (fair : Bool) : ∀ (fuel : Nat) {s s' : State}
    {bl bl' : Nat} {acc fs : List SentFrame},
    s.writeStreamFrames maxBuf fair fuel bl acc = some (s', bl', fs) → s'.hv = s.hv := by
  intro fuel
  induction fuel with
  | zero => intro s s' bl bl' acc fs h; simp [State.writeStreamFrames] at h; rw [← h.1]
  | succ n ih =>
    intro s s' bl bl' acc fs h
    unfold State.writeStreamFrames at h
    osplit h
    all_goals first
      | (obtain ⟨rfl, _⟩ := h; rfl)
      | exact ih h
      | via ih h
      | (refine (ih h).trans ?_
         have hx := ‹Map.find? _ _ = some (some _)›
         exact hv_upd (s := { s with pending := _ }) hx rfl rfl rfl rfl rfl rfl rfl)

theorem hv_accept (s : State) (d : Dir) : (s.accept d).1.hv = s.hv := by
  unfold State.accept
  split
  · rfl
  · dsimp only; split <;> rfl

theorem hv_afterUnblock {s : State} {id : Nat} {x : Send} (hx : s.send.find? id = some (some x))
    (b : Bool) (wl : Nat) : (s.afterUnblock b id x wl).hv = s.hv := by
  unfold State.afterUnblock
  split
  · split
    · rfl
    · split
      · exact hv_upd hx rfl rfl rfl rfl rfl rfl rfl
      · rfl
  · rfl

theorem Send.increaseMaxData_half (x : Send) (n : Nat) :
    SendHalf.ofSend (x.increaseMaxData n).1 = SendHalf.ofSend x := by
  unfold Send.increaseMaxData; split <;> rfl

theorem hv_receivedMaxStreamData {s s' : State} {id n : Nat} {e : Option TErr}
    (h : s.receivedMaxStreamData id n = some (s', e)) : s'.hv = s.hv := by
  unfold State.receivedMaxStreamData at h
  osplit h
  all_goals first
    | (obtain ⟨rfl, _⟩ := h; rfl)
    | (obtain ⟨rfl, _⟩ := h; exact hv_onStreamFrame _ _ _)
    | (have hg := hv_getOrInsertSend ‹State.getOrInsertSend _ _ = some _›
       obtain ⟨_, hx1, _⟩ := getOrInsertSend_spec ‹State.getOrInsertSend _ _ = some _›
       obtain ⟨rfl, _⟩ := h
       refine (hv_onStreamFrame _ _ _).trans (Eq.trans ?_ hg)
       have h2 := hv_upd (s' := State.putSend _ id (Send.increaseMaxData _ n).1) hx1 rfl
         (Send.increaseMaxData_half _ n) rfl rfl rfl rfl rfl
       exact (hv_afterUnblock (find_putSend_self hx1) _ _).trans h2)

theorem hv_receivedMaxStreams (s : State) (d : Dir) (n : Nat) : (s.receivedMaxStreams d n).1.hv = s.hv := by
  unfold State.receivedMaxStreams
  split
  · rfl
  · split <;> rfl

/-- `absSend` as a function of the send map -/
def absM (m : Map (Option Send)) (k : Nat) : SendHalf :=
  match m.find? k with
  | none => .gone
  | some none => .ready none
  | some (some x) => SendHalf.ofSend x

theorem absM_setParamsLoop (side : Side) (v : Nat) : ∀ (n i : Nat) (m : Map (Option Send)) (k : Nat),
    absM (setParamsLoop side v m n i) k = absM m k := by
  intro n
  induction n with
  | zero => intro i m k; rfl
  | succ n ih =>
    intro i m k
    unfold setParamsLoop
    dsimp only
    rw [ih]
    cases hf : m.find? (sidNew side.not .bi i) with
    | none => rfl
    | some o =>
      cases o with
      | none => rfl
      | some snd =>
        dsimp only
        unfold absM
        by_cases hk : k = sidNew side.not .bi i
        · subst hk; rw [Map.find?_set_self _ _ _ _ hf, hf]; rfl
        · rw [Map.find?_set_ne _ _ _ _ hk]

theorem hv_setParams (s : State) (p : Params) : (s.setParams p).hv = s.hv := by
  have e : absSend (s.setParams p) = absSend s := by
    funext k
    exact absM_setParamsLoop _ _ _ _ _ k
  show HV.mk _ _ _ _ _ _ = HV.mk _ _ _ _ _ _
  rw [e]; rfl

theorem g_setMaxConcurrent {s s' : State} {d : Dir} {n : Nat} (h : s.setMaxConcurrent d n = some s') :
    G s s' := by
  unfold State.setMaxConcurrent at h
  via g_ensureRemoteStreams h

theorem hv_setReceiveWindow (s : State) (n : Nat) : (s.setReceiveWindow n).1.hv = s.hv := by
  unfold State.setReceiveWindow
  split <;> rfl

theorem hv_ctrlMsd : ∀ (l : List Nat) {s s' : State} {acc fs : List CtrlFrame},
    s.ctrlMsd l acc = some (s', fs) → s'.hv = s.hv := by
  intro l
  induction l with
  | nil => intro s s' acc fs h; simp [State.ctrlMsd] at h; rw [← h.1]
  | cons id rest ih =>
    intro s s' acc fs h
    unfold State.ctrlMsd at h
    osplit h
    all_goals first
      | exact ih h
      | exact (ih h).trans (hv_updR rfl rfl rfl rfl rfl rfl)

theorem hv_ctrlMaxData (s : State) : s.ctrlMaxData.1.hv = s.hv := by
  unfold State.ctrlMaxData; split <;> rfl

theorem hv_ctrlMaxStreams (s : State) (d : Dir) : (s.ctrlMaxStreams d).1.hv = s.hv := by
  unfold State.ctrlMaxStreams; split <;> rfl

theorem hv_ctrlMoveBlocked (s : State) (d : Dir) : (s.ctrlMoveBlocked d).hv = s.hv := by
  unfold State.ctrlMoveBlocked; split <;> rfl

theorem hv_ctrlStreamsBlocked (s : State) (d : Dir) : (s.ctrlStreamsBlocked d).1.hv = s.hv := by
  unfold State.ctrlStreamsBlocked
  dsimp only
  split
  · exact hv_ctrlMoveBlocked s d
  · exact hv_ctrlMoveBlocked s d

theorem hv_writeControlFrames {s s' : State} {fs : List CtrlFrame}
    (h : s.writeControlFrames = some (s', fs)) : s'.hv = s.hv := by
  unfold State.writeControlFrames at h
  dsimp only at h
  split at h
  · contradiction
  · simp only [Option.some.injEq, Prod.mk.injEq] at h
    rw [← h.1]
    have f := hv_ctrlMsd _ ‹State.ctrlMsd _ _ _ = some _›
    refine (hv_ctrlStreamsBlocked _ _).trans ((hv_ctrlStreamsBlocked _ _).trans
      ((hv_ctrlMaxStreams _ _).trans ((hv_ctrlMaxStreams _ _).trans (f.trans ?_))))
    exact hv_ctrlMaxData _

end QM.Streams
