import QuinnModel.Wire.VarInt
namespace QM.VarInt
open QM

theorem decode_encode (x : Nat) (r : Bytes) (h : x < 2^62) :
    ∃ e, encode x = some e ∧ decode (e ++ r) = some (x, r) := by
  unfold encode
  simp only [Gen.varintT1, Gen.varintT2, Gen.varintT4, Gen.varintT8, Gen.varintSizeT1, Gen.varintSizeT2, Gen.varintSizeT4, Gen.varintSizeT8, Gen.varintTag2, Gen.varintTag4, Gen.varintTag8]
  by_cases h1 : x < 2^6
  · simp only [h1, if_true]
    refine ⟨_, rfl, ?_⟩
    simp only [beBytes, decode, List.cons_append, List.nil_append]
    have : x / 256 ^ 0 % 256 / 64 = 0 := by simp; omega
    simp only [this, if_true]
    congr 2
    simp; omega
  · by_cases h2 : x < 2^14
    · simp only [h1, h2, if_true, if_false]
      refine ⟨_, rfl, ?_⟩
      simp only [beBytes, decode, List.cons_append, List.nil_append]
      have t : (16384 + x) / 256 ^ 1 % 256 / 64 = 1 := by simp; omega
      simp [t, beVal]
      omega
    · by_cases h4 : x < 2^30
      · simp only [h1, h2, h4, if_true, if_false]
        refine ⟨_, rfl, ?_⟩
        simp only [beBytes, decode, List.cons_append, List.nil_append]
        have t : (2147483648 + x) / 256 ^ 3 % 256 / 64 = 2 := by simp; omega
        simp [t, beVal]
        omega
      · simp only [h1, h2, h4, h, if_true, if_false]
        refine ⟨_, rfl, ?_⟩
        simp only [beBytes, decode, List.cons_append, List.nil_append]
        have t : (13835058055282163712 + x) / 256 ^ 7 % 256 / 64 = 3 := by simp; omega
        simp [t, beVal]
        omega

/-- every element is a byte -/
def WF (bs : Bytes) : Prop := ∀ b ∈ bs, b < 256

theorem foldl_acc (l : Bytes) : ∀ acc, l.foldl (fun a b => a * 256 + b) acc
    = acc * 256 ^ l.length + l.foldl (fun a b => a * 256 + b) 0 := by
  induction l with
  | nil => intro acc; simp
  | cons x xs ih =>
    intro acc
    simp only [List.foldl_cons, List.length_cons]
    rw [ih (acc * 256 + x), ih (0 * 256 + x), Nat.pow_succ]
    simp only [Nat.zero_mul, Nat.zero_add, Nat.add_mul, Nat.mul_assoc, Nat.mul_comm 256]
    omega

theorem beVal_cons (x : Nat) (l : Bytes) : beVal (x :: l) = x * 256 ^ l.length + beVal l := by
  unfold beVal
  simp only [List.foldl_cons]
  rw [foldl_acc l (0 * 256 + x)]
  simp

theorem beVal_lt (l : Bytes) (h : WF l) : beVal l < 256 ^ l.length := by
  induction l with
  | nil => simp [beVal]
  | cons x xs ih =>
    rw [beVal_cons]
    have hx : x < 256 := h x (by simp)
    have := ih (fun b hb => h b (by simp [hb]))
    simp only [List.length_cons, Nat.pow_succ]
    have h2 : x * 256 ^ xs.length ≤ 255 * 256 ^ xs.length := Nat.mul_le_mul_right _ (by omega)
    omega

theorem WF_take (l : Bytes) (n : Nat) (h : WF l) : WF (l.take n) :=
  fun b hb => h b (List.mem_of_mem_take hb)

/-- decoding arbitrary bytes: the value is < 2^62, at least one byte is consumed, and the remainder
    is a suffix of the input (never reads past the buffer) -/
theorem decode_sound (bs : Bytes) (h : WF bs) (v : Nat) (r : Bytes) (hd : decode bs = some (v, r)) :
    v < 2^62 ∧ r.length < bs.length ∧ ∃ pre, bs = pre ++ r := by
  unfold decode at hd
  match bs, h, hd with
  | b0 :: rest, h, hd =>
    have hb0 : b0 < 256 := h b0 (by simp)
    have hrest : WF rest := fun b hb => h b (by simp [hb])
    simp only at hd
    split at hd
    · simp only [Option.some.injEq, Prod.mk.injEq] at hd
      obtain ⟨rfl, rfl⟩ := hd
      exact ⟨by omega, by simp, [b0], by simp⟩
    · split at hd
      · split at hd
        · simp at hd
        · simp only [Option.some.injEq, Prod.mk.injEq] at hd
          obtain ⟨rfl, rfl⟩ := hd
          refine ⟨?_, by simp; omega, b0 :: rest.take 1, by rw [List.cons_append, List.take_append_drop]⟩
          rw [beVal_cons]
          have := beVal_lt (rest.take 1) (WF_take _ _ hrest)
          have hl : (rest.take 1).length = 1 := by simp; omega
          rw [hl] at this ⊢
          omega
      · split at hd
        · split at hd
          · simp at hd
          · simp only [Option.some.injEq, Prod.mk.injEq] at hd
            obtain ⟨rfl, rfl⟩ := hd
            refine ⟨?_, by simp; omega, b0 :: rest.take 3, by rw [List.cons_append, List.take_append_drop]⟩
            rw [beVal_cons]
            have := beVal_lt (rest.take 3) (WF_take _ _ hrest)
            have hl : (rest.take 3).length = 3 := by simp; omega
            rw [hl] at this ⊢
            omega
        · split at hd
          · simp at hd
          · simp only [Option.some.injEq, Prod.mk.injEq] at hd
            obtain ⟨rfl, rfl⟩ := hd
            refine ⟨?_, by simp; omega, b0 :: rest.take 7, by rw [List.cons_append, List.take_append_drop]⟩
            rw [beVal_cons]
            have := beVal_lt (rest.take 7) (WF_take _ _ hrest)
            have hl : (rest.take 7).length = 7 := by simp; omega
            rw [hl] at this ⊢
            omega

/-- `size` agrees with the length of the encoding -/
theorem size_eq_encode_length (x : Nat) (h : x < 2^62) :
    ∃ e s, encode x = some e ∧ size x = some s ∧ e.length = s := by
  unfold encode size
  simp only [Gen.varintT1, Gen.varintT2, Gen.varintT4, Gen.varintT8, Gen.varintSizeT1, Gen.varintSizeT2, Gen.varintSizeT4, Gen.varintSizeT8, Gen.varintTag2, Gen.varintTag4, Gen.varintTag8]
  by_cases h1 : x < 2^6
  · simp [h1, beBytes]
  · by_cases h2 : x < 2^14
    · simp [h1, h2, beBytes]
    · by_cases h4 : x < 2^30
      · simp [h1, h2, h4, beBytes]
      · simp [h1, h2, h4, h, beBytes]

end QM.VarInt
