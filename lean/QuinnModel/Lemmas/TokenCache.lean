import QuinnModel.Endpoint.TokenCache
/- `TokenMemoryCache`: never panics, stays within its bounds, hands every stored token out at most once. -/
namespace QM.TokenCache

variable {α : Type}

/-- all tokens currently stored -/
def allToks (l : List (Entry α)) : List α := l.flatMap (·.tokens)

@[simp] theorem allToks_nil : allToks ([] : List (Entry α)) = [] := rfl
@[simp] theorem allToks_cons (e : Entry α) (l : List (Entry α)) : allToks (e :: l) = e.tokens ++ allToks l := by
  simp [allToks]

/-- tokens stored by a history -/
def inserted : List (Op α) → List α
  | [] => []
  | .insert _ t :: ops => t :: inserted ops
  | .take _ :: ops => inserted ops

structure Inv (s : State α) : Prop where
  nodup : (s.lru.map (·.name)).Nodup
  nonempty : ∀ e ∈ s.lru, e.tokens ≠ []
  bounded : ∀ e ∈ s.lru, e.tokens.length ≤ s.maxTokens
  names : s.lru.length ≤ s.maxNames

theorem init_inv (a b : Nat) : Inv (init a b : State α) := by
  refine ⟨?_, ?_, ?_, ?_⟩ <;> simp [init]

/-! ### `extract` -/

theorem extract_some (n : String) : ∀ (l : List (Entry α)) (e : Entry α) (r : List (Entry α)),
    extract n l = some (e, r) → l.Perm (e :: r) ∧ e.name = n := by
  intro l
  induction l with
  | nil => intro e r h; simp [extract] at h
  | cons x xs ih =>
    intro e r h
    unfold extract at h
    by_cases hx : x.name = n
    · simp only [hx, if_true, Option.some.injEq, Prod.mk.injEq] at h
      obtain ⟨rfl, rfl⟩ := h
      exact ⟨List.Perm.refl _, hx⟩
    · simp only [hx, if_false] at h
      cases hrec : extract n xs with
      | none => simp [hrec] at h
      | some p =>
        obtain ⟨y, r'⟩ := p
        simp only [hrec, Option.some.injEq, Prod.mk.injEq] at h
        obtain ⟨rfl, rfl⟩ := h
        have ⟨hp, hn⟩ := ih y r' hrec
        exact ⟨(List.Perm.cons x hp).trans (List.Perm.swap y x r'), hn⟩

theorem extract_none (n : String) : ∀ (l : List (Entry α)), extract n l = none → ∀ x ∈ l, x.name ≠ n := by
  intro l
  induction l with
  | nil => intro _ x hx; simp at hx
  | cons y ys ih =>
    intro h x hx
    unfold extract at h
    by_cases hy : y.name = n
    · simp [hy] at h
    · simp only [hy, if_false] at h
      cases hrec : extract n ys with
      | none =>
        rcases List.mem_cons.mp hx with rfl | hx
        · exact hy
        · exact ih hrec x hx
      | some p => simp [hrec] at h

/-! ### counting tokens -/

section Count
variable [DecidableEq α]

theorem count_allToks_perm {l₁ l₂ : List (Entry α)} (h : l₁.Perm l₂) (a : α) :
    (allToks l₁).count a = (allToks l₂).count a :=
  (List.Perm.flatMap_right _ h).count_eq a

theorem count_allToks_dropLast (a : α) : ∀ (l : List (Entry α)),
    (allToks l.dropLast).count a ≤ (allToks l).count a := by
  intro l
  induction l with
  | nil => simp
  | cons x xs ih =>
    cases xs with
    | nil => simp
    | cons y ys =>
      rw [List.dropLast_cons_cons, allToks_cons, allToks_cons, List.count_append, List.count_append]
      have := ih
      rw [allToks_cons, List.count_append] at this
      omega

end Count

/-! ### `store` -/

theorem mem_dropLast {β : Type} {x : β} {l : List β} (h : x ∈ l.dropLast) : x ∈ l :=
  (List.dropLast_sublist l).mem h

theorem store_ok [DecidableEq α] (s : State α) (h : Inv s) (n : String) (t : α) :
    ∃ s', store s n t = some s' ∧ Inv s' ∧ s'.maxNames = s.maxNames ∧ s'.maxTokens = s.maxTokens ∧
      ∀ a, (allToks s'.lru).count a ≤ (allToks s.lru).count a + [t].count a := by
  unfold store
  by_cases hN : s.maxNames = 0
  · rw [if_pos hN]
    exact ⟨s, rfl, h, rfl, rfl, fun a => by omega⟩
  · by_cases hT : s.maxTokens = 0
    · rw [if_neg hN, if_pos hT]
      exact ⟨s, rfl, h, rfl, rfl, fun a => by omega⟩
    · rw [if_neg hN, if_neg hT]
      cases hex : extract n s.lru with
      | some p =>
        obtain ⟨e, rest⟩ := p
        have ⟨hp, hname⟩ := extract_some n s.lru e rest hex
        have hnd : ((e :: rest).map (·.name)).Nodup := (List.Perm.nodup_iff (hp.map _)).mp h.nodup
        have hmem : ∀ x, x ∈ e :: rest → x ∈ s.lru := fun x hx => (hp.mem_iff).mpr hx
        have hlen : (e :: rest).length = s.lru.length := hp.length_eq.symm
        have hne := h.nonempty e (hmem e List.mem_cons_self)
        have hb := h.bounded e (hmem e List.mem_cons_self)
        dsimp only
        by_cases hfull : Gen.tokenCacheQueueFull e.tokens.length s.maxTokens = true
        · have hge : e.tokens.length ≥ s.maxTokens := by
            simpa [Gen.tokenCacheQueueFull] using hfull
          have heq : e.tokens.length = s.maxTokens := by omega
          rw [if_pos hfull, if_neg (fun hne' => hne' heq)]
          cases htk : e.tokens with
          | nil => exact absurd htk hne
          | cons t0 tl =>
            refine ⟨_, rfl, ⟨?_, ?_, ?_, ?_⟩, rfl, rfl, ?_⟩
            · simpa [hname] using hnd
            · intro x hx
              rcases List.mem_cons.mp hx with rfl | hx
              · simp
              · exact h.nonempty x (hmem x (List.mem_cons_of_mem _ hx))
            · intro x hx
              rcases List.mem_cons.mp hx with rfl | hx
              · simp only [List.length_append, List.length_cons, List.length_nil]
                rw [htk] at heq; simp only [List.length_cons] at heq; omega
              · exact h.bounded x (hmem x (List.mem_cons_of_mem _ hx))
            · simp only [List.length_cons] at hlen ⊢
              have := h.names; omega
            · intro a
              rw [count_allToks_perm hp a]
              simp only [allToks_cons, List.count_append, htk, List.count_cons]
              split <;> omega
        · have hlt : e.tokens.length < s.maxTokens := by
            simpa [Gen.tokenCacheQueueFull] using hfull
          simp only [hfull, Bool.false_eq_true, if_false]
          refine ⟨_, rfl, ⟨?_, ?_, ?_, ?_⟩, rfl, rfl, ?_⟩
          · simpa [hname] using hnd
          · intro x hx
            rcases List.mem_cons.mp hx with rfl | hx
            · simp
            · exact h.nonempty x (hmem x (List.mem_cons_of_mem _ hx))
          · intro x hx
            rcases List.mem_cons.mp hx with rfl | hx
            · simp only [List.length_append, List.length_cons, List.length_nil]; omega
            · exact h.bounded x (hmem x (List.mem_cons_of_mem _ hx))
          · simp only [List.length_cons] at hlen ⊢
            have := h.names; omega
          · intro a
            rw [count_allToks_perm hp a]
            simp only [allToks_cons, List.count_append]
            omega
      | none =>
        have hfreshname := extract_none n s.lru hex
        dsimp only
        by_cases hfull : Gen.tokenCacheNamesFull s.lru.length s.maxNames = true
        · have hge : s.lru.length ≥ s.maxNames := by
            simpa [Gen.tokenCacheNamesFull] using hfull
          simp only [hfull, if_true]
          cases hl : s.lru.getLast? with
          | none =>
            have : s.lru = [] := List.getLast?_eq_none_iff.mp hl
            rw [this] at hge; simp at hge; omega
          | some last =>
            dsimp only
            refine ⟨_, rfl, ⟨?_, ?_, ?_, ?_⟩, rfl, rfl, ?_⟩
            · simp only [List.map_cons, List.nodup_cons]
              constructor
              · intro hm
                obtain ⟨x, hx, hxn⟩ := List.mem_map.mp hm
                exact hfreshname x (mem_dropLast hx) hxn
              · exact List.Nodup.sublist ((List.dropLast_sublist _).map _) h.nodup
            · intro x hx
              rcases List.mem_cons.mp hx with rfl | hx
              · simp
              · exact h.nonempty x (mem_dropLast hx)
            · intro x hx
              rcases List.mem_cons.mp hx with rfl | hx
              · simp only [List.length_cons, List.length_nil]; omega
              · exact h.bounded x (mem_dropLast hx)
            · simp only [List.length_cons, List.length_dropLast]
              have := h.names
              have : s.lru.length ≠ 0 := by
                intro h0
                have : s.lru = [] := List.eq_nil_of_length_eq_zero h0
                rw [this] at hl; simp at hl
              omega
            · intro a
              simp only [allToks_cons, List.count_append]
              have := count_allToks_dropLast a s.lru
              omega
        · have hlt : s.lru.length < s.maxNames := by
            simpa [Gen.tokenCacheNamesFull] using hfull
          simp only [hfull, Bool.false_eq_true, if_false]
          refine ⟨_, rfl, ⟨?_, ?_, ?_, ?_⟩, rfl, rfl, ?_⟩
          · simp only [List.map_cons, List.nodup_cons]
            constructor
            · intro hm
              obtain ⟨x, hx, hxn⟩ := List.mem_map.mp hm
              exact hfreshname x hx hxn
            · exact h.nodup
          · intro x hx
            rcases List.mem_cons.mp hx with rfl | hx
            · simp
            · exact h.nonempty x hx
          · intro x hx
            rcases List.mem_cons.mp hx with rfl | hx
            · simp only [List.length_cons, List.length_nil]; omega
            · exact h.bounded x hx
          · simp only [List.length_cons]; omega
          · intro a
            simp only [allToks_cons, List.count_append]
            omega

/-! ### `take` -/

theorem take_ok [DecidableEq α] (s : State α) (h : Inv s) (n : String) :
    ∃ s' o, take s n = some (s', o) ∧ Inv s' ∧ s'.maxNames = s.maxNames ∧ s'.maxTokens = s.maxTokens ∧
      ∀ a, (allToks s'.lru).count a + (o.toList).count a = (allToks s.lru).count a := by
  unfold take
  cases hex : extract n s.lru with
  | none => exact ⟨s, none, rfl, h, rfl, rfl, fun a => by simp⟩
  | some p =>
    obtain ⟨e, rest⟩ := p
    have ⟨hp, hname⟩ := extract_some n s.lru e rest hex
    have hnd : ((e :: rest).map (·.name)).Nodup := (List.Perm.nodup_iff (hp.map _)).mp h.nodup
    have hmem : ∀ x, x ∈ e :: rest → x ∈ s.lru := fun x hx => (hp.mem_iff).mpr hx
    have hlen : (e :: rest).length = s.lru.length := hp.length_eq.symm
    have hne := h.nonempty e (hmem e List.mem_cons_self)
    have hb := h.bounded e (hmem e List.mem_cons_self)
    dsimp only
    cases htk : e.tokens with
    | nil => exact absurd htk hne
    | cons t tl =>
      dsimp only
      by_cases hemp : tl.isEmpty = true
      · simp only [hemp, if_true]
        have htl : tl = [] := List.isEmpty_iff.mp hemp
        refine ⟨_, _, rfl, ⟨?_, ?_, ?_, ?_⟩, rfl, rfl, ?_⟩
        · exact (List.nodup_cons.mp hnd).2
        · intro x hx; exact h.nonempty x (hmem x (List.mem_cons_of_mem _ hx))
        · intro x hx; exact h.bounded x (hmem x (List.mem_cons_of_mem _ hx))
        · simp only [List.length_cons] at hlen
          have := h.names; dsimp only; omega
        · intro a
          rw [count_allToks_perm hp a]
          simp only [allToks_cons, List.count_append, htk, htl, Option.toList_some, List.count_cons,
            List.count_nil]
          omega
      · simp only [hemp, Bool.false_eq_true, if_false]
        have htl : tl ≠ [] := fun h0 => hemp (List.isEmpty_iff.mpr h0)
        refine ⟨_, _, rfl, ⟨?_, ?_, ?_, ?_⟩, rfl, rfl, ?_⟩
        · simpa [hname] using hnd
        · intro x hx
          rcases List.mem_cons.mp hx with rfl | hx
          · exact htl
          · exact h.nonempty x (hmem x (List.mem_cons_of_mem _ hx))
        · intro x hx
          rcases List.mem_cons.mp hx with rfl | hx
          · rw [htk] at hb; simp only [List.length_cons] at hb; dsimp only; omega
          · exact h.bounded x (hmem x (List.mem_cons_of_mem _ hx))
        · simp only [List.length_cons] at hlen ⊢
          have := h.names; omega
        · intro a
          rw [count_allToks_perm hp a]
          simp only [allToks_cons, List.count_append, htk, Option.toList_some, List.count_cons,
            List.count_nil]
          omega


/-! ### least-recently-used order

Ghost instrumentation: a clock that ticks with every operation and, per server name, the time of its
last *use* (a `store` under that name, or a `take` that found it).  The model's list is always ordered
by last use, most recent first; hence the entry `store` evicts (the last one) is the least recently used. -/

theorem extract_sublist (n : String) : ∀ (l : List (Entry α)) (e : Entry α) (r : List (Entry α)),
    extract n l = some (e, r) → r.Sublist l := by
  intro l
  induction l with
  | nil => intro e r h; simp [extract] at h
  | cons x xs ih =>
    intro e r h
    unfold extract at h
    by_cases hx : x.name = n
    · simp only [hx, if_true, Option.some.injEq, Prod.mk.injEq] at h
      obtain ⟨rfl, rfl⟩ := h
      exact List.sublist_cons_self _ _
    · simp only [hx, if_false] at h
      cases hrec : extract n xs with
      | none => simp [hrec] at h
      | some p =>
        obtain ⟨y, r'⟩ := p
        simp only [hrec, Option.some.injEq, Prod.mk.injEq] at h
        obtain ⟨rfl, rfl⟩ := h
        exact (ih y r' hrec).cons_cons x

/-- the list is ordered by decreasing time of last use, and no use lies in the future -/
def Ordered (l : List (Entry α)) (stamp : String → Nat) (clock : Nat) : Prop :=
  (l.map (fun e => stamp e.name)).Pairwise (· > ·) ∧ ∀ e ∈ l, stamp e.name ≤ clock

/-- last-use times after an operation that uses `n` at time `clock + 1` -/
def use (stamp : String → Nat) (n : String) (clock : Nat) : String → Nat :=
  fun m => if m = n then clock + 1 else stamp m

theorem use_other {stamp : String → Nat} {n : String} {clock : Nat} {l : List (Entry α)}
    (hn : ∀ x ∈ l, x.name ≠ n) : l.map (fun e => use stamp n clock e.name) = l.map (fun e => stamp e.name) := by
  apply List.map_congr_left
  intro x hx
  simp [use, hn x hx]

theorem ordered_front {stamp : String → Nat} {clock : Nat} {l r : List (Entry α)} (n : String) (toks : List α)
    (h : Ordered l stamp clock) (hsub : r.Sublist l) (hn : ∀ x ∈ r, x.name ≠ n) :
    Ordered (⟨n, toks⟩ :: r) (use stamp n clock) (clock + 1) := by
  obtain ⟨hp, hc⟩ := h
  constructor
  · rw [List.map_cons, List.pairwise_cons]
    constructor
    · intro v hv
      obtain ⟨x, hx, rfl⟩ := List.mem_map.mp hv
      have := hc x (hsub.mem hx)
      simp only [use, hn x hx, if_false, if_true]
      omega
    · rw [use_other hn]
      exact hp.sublist (hsub.map _)
  · intro e he
    rcases List.mem_cons.mp he with rfl | he
    · simp [use]
    · have := hc e (hsub.mem he)
      simp only [use, hn e he, if_false]; omega

theorem ordered_sub {stamp : String → Nat} {clock : Nat} {l r : List (Entry α)}
    (h : Ordered l stamp clock) (hsub : r.Sublist l) : Ordered r stamp (clock + 1) := by
  obtain ⟨hp, hc⟩ := h
  exact ⟨hp.sublist (hsub.map _), fun e he => by have := hc e (hsub.mem he); omega⟩

/-- `store` keeps the list ordered by last use when the stored-under name counts as used now -/
theorem store_ordered (s s' : State α) (h : Inv s) (n : String) (t : α) (stamp : String → Nat) (clock : Nat)
    (ho : Ordered s.lru stamp clock) (hs : store s n t = some s') :
    Ordered s'.lru (if s.maxNames = 0 ∨ s.maxTokens = 0 then stamp else use stamp n clock) (clock + 1) := by
  unfold store at hs
  by_cases hN : s.maxNames = 0
  · rw [if_pos hN] at hs; obtain rfl := Option.some.inj hs
    simp only [hN, true_or, if_true]; exact ordered_sub ho (List.Sublist.refl _)
  · by_cases hT : s.maxTokens = 0
    · rw [if_neg hN, if_pos hT] at hs; obtain rfl := Option.some.inj hs
      simp only [hT, or_true, if_true]; exact ordered_sub ho (List.Sublist.refl _)
    · rw [if_neg hN, if_neg hT] at hs
      simp only [hN, hT, or_self, if_false]
      cases hex : extract n s.lru with
      | some p =>
        obtain ⟨e, rest⟩ := p
        have ⟨hp, hname⟩ := extract_some n s.lru e rest hex
        have hsub := extract_sublist n s.lru e rest hex
        have hnd : ((e :: rest).map (·.name)).Nodup := (List.Perm.nodup_iff (hp.map _)).mp h.nodup
        have hfresh : ∀ x ∈ rest, x.name ≠ n := by
          intro x hx hxn
          have := (List.nodup_cons.mp hnd).1
          exact this (List.mem_map.mpr ⟨x, hx, by show x.name = e.name; rw [hxn, hname]⟩)
        simp only [hex] at hs
        split at hs
        · split at hs
          · exact absurd hs (by simp)
          · split at hs
            · exact absurd hs (by simp)
            · obtain rfl := Option.some.inj hs
              exact ordered_front n _ ho hsub hfresh
        · obtain rfl := Option.some.inj hs
          exact ordered_front n _ ho hsub hfresh
      | none =>
        have hfresh := extract_none n s.lru hex
        simp only [hex] at hs
        split at hs
        · split at hs
          · exact absurd hs (by simp)
          · obtain rfl := Option.some.inj hs
            exact ordered_front n _ ho (List.dropLast_sublist _) (fun x hx => hfresh x (mem_dropLast hx))
        · obtain rfl := Option.some.inj hs
          exact ordered_front n _ ho (List.Sublist.refl _) hfresh

/-- `take` keeps the list ordered by last use when a found name counts as used now -/
theorem take_ordered (s s' : State α) (h : Inv s) (n : String) (o : Option α) (stamp : String → Nat) (clock : Nat)
    (ho : Ordered s.lru stamp clock) (hs : take s n = some (s', o)) :
    Ordered s'.lru (if o.isSome then use stamp n clock else stamp) (clock + 1) := by
  unfold take at hs
  cases hex : extract n s.lru with
  | none =>
    simp only [hex, Option.some.injEq, Prod.mk.injEq] at hs
    obtain ⟨rfl, rfl⟩ := hs
    exact ordered_sub ho (List.Sublist.refl _)
  | some p =>
    obtain ⟨e, rest⟩ := p
    have ⟨hp, hname⟩ := extract_some n s.lru e rest hex
    have hsub := extract_sublist n s.lru e rest hex
    have hnd : ((e :: rest).map (·.name)).Nodup := (List.Perm.nodup_iff (hp.map _)).mp h.nodup
    have hfresh : ∀ x ∈ rest, x.name ≠ n := by
      intro x hx hxn
      have := (List.nodup_cons.mp hnd).1
      exact this (List.mem_map.mpr ⟨x, hx, by show x.name = e.name; rw [hxn, hname]⟩)
    simp only [hex] at hs
    split at hs
    · exact absurd hs (by simp)
    · split at hs
      · simp only [Option.some.injEq, Prod.mk.injEq] at hs
        obtain ⟨rfl, rfl⟩ := hs
        simp only [Option.isSome_some, if_true]
        -- the entry is gone; the others keep their (unchanged) stamps
        obtain ⟨hp', hc'⟩ := ordered_sub ho hsub
        refine ⟨?_, ?_⟩
        · rw [use_other hfresh]; exact hp'
        · intro x hx
          have := hc' x hx
          simp only [use, hfresh x hx, if_false]; exact this
      · simp only [Option.some.injEq, Prod.mk.injEq] at hs
        obtain ⟨rfl, rfl⟩ := hs
        simp only [Option.isSome_some, if_true]
        exact ordered_front n _ ho hsub hfresh

/-- the entry `store` evicts is the last of a list ordered by last use: it is the least recently used -/
theorem last_is_lru {stamp : String → Nat} {clock : Nat} (l : List (Entry α)) (last : Entry α)
    (ho : Ordered l stamp clock) (hl : l.getLast? = some last) : ∀ e ∈ l, stamp last.name ≤ stamp e.name := by
  induction l with
  | nil => simp at hl
  | cons x xs ih =>
    intro e he
    obtain ⟨hp, hc⟩ := ho
    rw [List.map_cons, List.pairwise_cons] at hp
    cases xs with
    | nil =>
      simp only [List.getLast?_singleton, Option.some.injEq] at hl
      subst hl
      rcases List.mem_cons.mp he with rfl | he
      · exact Nat.le_refl _
      · simp at he
    | cons y ys =>
      have hl' : (y :: ys).getLast? = some last := by simpa [List.getLast?_cons_cons] using hl
      have hlast_mem : last ∈ y :: ys := List.mem_of_getLast? hl'
      rcases List.mem_cons.mp he with rfl | he
      · have := hp.1 _ (List.mem_map.mpr ⟨last, hlast_mem, rfl⟩)
        omega
      · exact ih ⟨hp.2, fun z hz => hc z (List.mem_cons_of_mem _ hz)⟩ hl' e he


/-- ghost-instrumented run: final state, last-use time per name, clock; `none` = panic -/
def runG (s : State α) (stamp : String → Nat) (clock : Nat) : List (Op α) → Option (State α × (String → Nat) × Nat)
  | [] => some (s, stamp, clock)
  | .insert n t :: ops => match store s n t with
    | none => none
    | some s' => runG s' (if s.maxNames = 0 ∨ s.maxTokens = 0 then stamp else use stamp n clock) (clock + 1) ops
  | .take n :: ops => match take s n with
    | none => none
    | some (s', o) => runG s' (if o.isSome then use stamp n clock else stamp) (clock + 1) ops

theorem runG_ordered [DecidableEq α] (ops : List (Op α)) : ∀ (s : State α) (stamp : String → Nat) (clock : Nat),
    Inv s → Ordered s.lru stamp clock →
    ∃ s' stamp' clock', runG s stamp clock ops = some (s', stamp', clock') ∧ Inv s' ∧ Ordered s'.lru stamp' clock' := by
  induction ops with
  | nil => intro s stamp clock h ho; exact ⟨s, stamp, clock, rfl, h, ho⟩
  | cons op ops ih =>
    intro s stamp clock h ho
    cases op with
    | insert n t =>
      obtain ⟨s1, h1, hi1, _, _, _⟩ := store_ok s h n t
      have ho1 := store_ordered s s1 h n t stamp clock ho h1
      obtain ⟨s2, st2, c2, h2, hi2, ho2⟩ := ih s1 _ _ hi1 ho1
      exact ⟨s2, st2, c2, by simp only [runG, h1, h2], hi2, ho2⟩
    | take n =>
      obtain ⟨s1, o, h1, hi1, _, _, _⟩ := take_ok s h n
      have ho1 := take_ordered s s1 h n o stamp clock ho h1
      obtain ⟨s2, st2, c2, h2, hi2, ho2⟩ := ih s1 _ _ hi1 ho1
      exact ⟨s2, st2, c2, by simp only [runG, h1, h2], hi2, ho2⟩

/-- storing under a new name when the name bound is reached drops exactly the last entry -/
theorem store_evicts_last (s : State α) (n : String) (t : α) (last : Entry α)
    (hN : s.maxNames ≠ 0) (hT : s.maxTokens ≠ 0) (hnew : extract n s.lru = none)
    (hfull : Gen.tokenCacheNamesFull s.lru.length s.maxNames = true) (hl : s.lru.getLast? = some last) :
    store s n t = some { s with lru := ⟨n, [t]⟩ :: s.lru.dropLast } := by
  unfold store
  rw [if_neg hN, if_neg hT]
  simp only [hnew, hfull, if_true, hl]

/-! ### histories -/

/-- Conservation over any history: no panic, bounds kept, and for every token value the number of
    times it is handed out plus the number of copies still stored never exceeds what was stored. -/
theorem run_conserve [DecidableEq α] (ops : List (Op α)) : ∀ (s : State α), Inv s →
    ∃ s' out, run s ops = some (s', out) ∧ Inv s' ∧ s'.maxNames = s.maxNames ∧ s'.maxTokens = s.maxTokens ∧
      ∀ a, out.count a + (allToks s'.lru).count a ≤ (allToks s.lru).count a + (inserted ops).count a := by
  induction ops with
  | nil => intro s h; exact ⟨s, [], rfl, h, rfl, rfl, fun a => by simp [inserted]⟩
  | cons op ops ih =>
    intro s h
    cases op with
    | insert n t =>
      obtain ⟨s1, h1, hi1, hN1, hT1, hc1⟩ := store_ok s h n t
      obtain ⟨s2, out, h2, hi2, hN2, hT2, hc2⟩ := ih s1 hi1
      refine ⟨s2, out, ?_, hi2, by omega, by omega, ?_⟩
      · simp only [run, h1, h2]
      · intro a
        have := hc1 a; have := hc2 a
        simp only [inserted, List.count_cons, List.count_nil] at *
        omega
    | take n =>
      obtain ⟨s1, o, h1, hi1, hN1, hT1, hc1⟩ := take_ok s h n
      obtain ⟨s2, out, h2, hi2, hN2, hT2, hc2⟩ := ih s1 hi1
      cases o with
      | none =>
        refine ⟨s2, out, ?_, hi2, by omega, by omega, ?_⟩
        · simp only [run, h1, h2]
        · intro a
          have := hc1 a; have := hc2 a
          simp only [inserted, Option.toList_none, List.count_nil] at *; omega
      | some t =>
        refine ⟨s2, t :: out, ?_, hi2, by omega, by omega, ?_⟩
        · simp only [run, h1, h2]
        · intro a
          have := hc1 a; have := hc2 a
          simp only [inserted, Option.toList_some, List.count_cons, List.count_nil] at *
          omega

end QM.TokenCache
