import QuinnModel.Lemmas.StreamsC06Facts
/-
C11 — stream operations follow the stream state machine: abstract half states, the result tables,
and the events.
-/
namespace QM.Streams
set_option pp.structureInstances false

/-! ### the sending half -/

/-- abstract state of a sending half -/
inductive SendHalf
  /-- not (or no longer) in the send map: never opened, or finished and fully acknowledged, or reset
      and the reset acknowledged -/
  | gone
  /-- open for writing (`stop` = STOP_SENDING code received, if any) -/
  | ready (stop : Option Nat)
  /-- finished by the application, waiting for acknowledgements -/
  | dataSent (stop : Option Nat)
  /-- reset by the application, waiting for the acknowledgement of the reset -/
  | resetSent (stop : Option Nat)
deriving DecidableEq, Repr

def SendHalf.ofSend (x : Send) : SendHalf :=
  match x.state with
  | .ready => .ready x.stopReason
  | .dataSent _ => .dataSent x.stopReason
  | .resetSent => .resetSent x.stopReason

/-- a permitted but untouched stream (`None` in the map) behaves as a fresh `Ready` half -/
def absSend (s : State) (id : Nat) : SendHalf :=
  match s.send.find? id with
  | none => .gone
  | some none => .ready none
  | some (some x) => SendHalf.ofSend x

/-- `finish`: result and next state of the half -/
def expectedFinish : SendHalf → Except WriteErr Unit × SendHalf
  | .gone => (.error .closedStream, .gone)
  | .ready (some c) => (.error (.stopped c), .ready (some c))
  | .ready none => (.ok (), .dataSent none)
  | .dataSent (some c) => (.error (.stopped c), .dataSent (some c))
  | .dataSent none => (.error .closedStream, .dataSent none)
  | .resetSent (some c) => (.error (.stopped c), .resetSent (some c))
  | .resetSent none => (.error .closedStream, .resetSent none)

/-- `reset`: success flag and next state -/
def expectedReset : SendHalf → Bool × SendHalf
  | .gone => (false, .gone)
  | .ready c => (true, .resetSent c)
  | .dataSent c => (true, .resetSent c)
  | .resetSent c => (false, .resetSent c)

/-- `stopped`: `none` = ClosedStream -/
def expectedStopped : SendHalf → Option (Option Nat)
  | .gone => none
  | .ready c | .dataSent c | .resetSent c => some c

/-- `write` of `n` bytes on an open connection, written from the PROPERTY TEXT (C11: "write ... succeed
    only while the sending half is open and unstopped, report the peer's STOP_SENDING code once stopped,
    and report a closed stream after finish, reset or full acknowledgement"): the result is a function
    of the abstract state of the half alone, except for the accepted amount, for which `room` = what
    connection-level credit, send window and stream credit allow right now -/
def expectedWrite (room n : Nat) : SendHalf → Except WriteErr Nat
  | .ready none => if room = 0 then .error .blocked else .ok (Nat.min n room)
  | .ready (some c) => .error (.stopped c)
  | .gone | .dataSent _ | .resetSent _ => .error .closedStream

theorem absSend_getOrInsert {s s1 : State} {id : Nat} {x : Send} (h : s.getOrInsertSend id = some (x, s1)) :
    absSend s id = SendHalf.ofSend x := by
  obtain ⟨_, _, hor⟩ := getOrInsertSend_spec h
  unfold absSend
  rcases hor with hh | ⟨hh, hx⟩
  · rw [hh]
  · rw [hh, hx]; rfl

theorem absSend_gone_iff {s : State} {id : Nat} : s.getOrInsertSend id = none ↔ absSend s id = .gone := by
  unfold State.getOrInsertSend absSend
  cases hf : s.send.find? id with
  | none => simp
  | some v =>
    cases v with
    | none => simp
    | some x => simp [SendHalf.ofSend]; cases x.state <;> simp

theorem absSend_putSend {s : State} {id : Nat} {x x' : Send} (hx : s.send.find? id = some (some x)) :
    absSend (s.putSend id x') id = SendHalf.ofSend x' := by
  unfold absSend; rw [find_putSend_self hx]

/-- `finish` follows the table -/
theorem finish_table (s : State) (id : Nat) :
    (s.finish id).2 = (expectedFinish (absSend s id)).1 ∧
    absSend (s.finish id).1 id = (expectedFinish (absSend s id)).2 := by
  unfold State.finish
  split
  · rename_i hg
    have := absSend_gone_iff.mp hg
    exact ⟨by rw [this]; rfl, by rw [this]; rfl⟩
  · rename_i x s1 hg
    obtain ⟨_, hx1, _⟩ := getOrInsertSend_spec hg
    rw [absSend_getOrInsert hg]
    have habs1 : absSend s1 id = SendHalf.ofSend x := by unfold absSend; rw [hx1]
    dsimp only
    unfold Send.finish
    cases hsr : x.stopReason with
    | some c =>
      simp only
      refine ⟨?_, ?_⟩
      · unfold SendHalf.ofSend; rw [hsr]; cases x.state <;> rfl
      · rw [habs1]; unfold SendHalf.ofSend; rw [hsr]; cases x.state <;> rfl
    | none =>
      simp only
      cases hst : x.state with
      | ready =>
        simp only [↓reduceIte]
        refine ⟨by simp [SendHalf.ofSend, hsr, hst, expectedFinish], ?_⟩
        have : absSend (s1.putSend id { x with state := .dataSent false, finPending := true }) id =
            .dataSent none := by rw [absSend_putSend hx1]; simp [SendHalf.ofSend, hsr]
        split
        · simpa [SendHalf.ofSend, hsr, hst, expectedFinish, absSend, State.putSend] using this
        · simpa [SendHalf.ofSend, hsr, hst, expectedFinish] using this
      | dataSent fa =>
        simp only [reduceCtorEq, ↓reduceIte]
        exact ⟨by simp [SendHalf.ofSend, hsr, hst, expectedFinish],
               by rw [habs1]; simp [SendHalf.ofSend, hsr, hst, expectedFinish]⟩
      | resetSent =>
        simp only [reduceCtorEq, ↓reduceIte]
        exact ⟨by simp [SendHalf.ofSend, hsr, hst, expectedFinish],
               by rw [habs1]; simp [SendHalf.ofSend, hsr, hst, expectedFinish]⟩

/-- `reset` follows the table (`none` = the send-window accounting would underflow: a panic) -/
theorem reset_table {s s' : State} {id code : Nat} {b : Bool} (h : s.reset id code = some (s', b)) :
    b = (expectedReset (absSend s id)).1 ∧ absSend s' id = (expectedReset (absSend s id)).2 := by
  unfold State.reset at h
  split at h
  · rename_i hg
    simp only [Option.some.injEq, Prod.mk.injEq] at h
    have := absSend_gone_iff.mp hg
    obtain ⟨rfl, rfl⟩ := h
    exact ⟨by rw [this]; rfl, by rw [this]; rfl⟩
  · rename_i x s1 hg
    obtain ⟨_, hx1, _⟩ := getOrInsertSend_spec hg
    rw [absSend_getOrInsert hg]
    have habs1 : absSend s1 id = SendHalf.ofSend x := by unfold absSend; rw [hx1]
    split at h
    · rename_i hrs
      simp only [Option.some.injEq, Prod.mk.injEq] at h
      obtain ⟨rfl, rfl⟩ := h
      exact ⟨by simp [SendHalf.ofSend, hrs, expectedReset], by rw [habs1]; simp [SendHalf.ofSend, hrs, expectedReset]⟩
    · rename_i hnr
      split at h
      · contradiction
      · split at h
        · contradiction
        · simp only [Option.some.injEq, Prod.mk.injEq] at h
          obtain ⟨rfl, rfl⟩ := h
          have : absSend (s1.putSend id x.reset) id = SendHalf.ofSend x.reset := absSend_putSend hx1
          have e : ∀ (u : Nat) (r : Rtx), absSend ({ (s1.putSend id x.reset) with unackedData := u, rtx := r }) id =
              absSend (s1.putSend id x.reset) id := fun _ _ => rfl
          rw [e, this]
          cases hst : x.state with
          | ready => simp [SendHalf.ofSend, Send.reset, hst, expectedReset]
          | dataSent fa => simp [SendHalf.ofSend, Send.reset, hst, expectedReset]
          | resetSent => exact absurd hst hnr

/-- `stopped` follows the table -/
theorem stopped_table (s : State) (id : Nat) : s.stopped id = expectedStopped (absSend s id) := by
  unfold State.stopped absSend
  cases hf : s.send.find? id with
  | none => rfl
  | some v =>
    cases v with
    | none => rfl
    | some x => simp only [SendHalf.ofSend]; cases x.state <;> rfl

/-- the stream credit `write` sees -/
def streamCredit (s : State) (id : Nat) : Nat :=
  match s.send.find? id with
  | some (some x) => x.maxData - x.pending.offset
  | _ => s.maxSendData id

/-- on a closing connection every write is `Blocked` and nothing changes (outside the C11 table: the
    property speaks about stream halves of a live connection) -/
theorem write_conn_closed {s s' : State} {id n : Nat} {r : Except WriteErr Nat} (h : s.write id n = some (s', r))
    (hc : s.connClosed = true) : r = .error .blocked ∧ s' = s := by
  unfold State.write at h
  simp only [hc, ↓reduceIte, Option.some.injEq, Prod.mk.injEq] at h
  exact ⟨h.2.symm, h.1.symm⟩

/-- `write` follows the table -/
theorem write_table {s s' : State} {id n : Nat} {r : Except WriteErr Nat} (h : s.write id n = some (s', r))
    (hc' : s.connClosed = false) :
    r = expectedWrite (Nat.min (Gen.writeLimit s.maxData s.dataSent s.sendWindow s.unackedData) (streamCredit s id))
          n (absSend s id) := by
  cases hg : s.getOrInsertSend id with
  | none =>
    have habs := absSend_gone_iff.mp hg
    have : r = .error .closedStream := by
      unfold State.write at h
      simp only [hc', Bool.false_eq_true, ↓reduceIte, hg] at h
      split at h
      · contradiction
      · simp only [Option.some.injEq, Prod.mk.injEq] at h; exact h.2.symm
    rw [this, habs]; rfl
  | some v =>
    obtain ⟨x, s1⟩ := v
    have habs := absSend_getOrInsert hg
    obtain ⟨_, _, hor⟩ := getOrInsertSend_spec hg
    have hcr : streamCredit s id = x.maxData - x.pending.offset := by
      unfold streamCredit
      rcases hor with hh | ⟨hh, hx⟩
      · rw [hh]
      · rw [hh, hx]; simp [Send.new]
    rw [habs, hcr]
    -- a half that is not writable is `dataSent` or `resetSent` in the abstraction
    have hclosed : x.isWritable = false →
        expectedWrite (Nat.min (Gen.writeLimit s.maxData s.dataSent s.sendWindow s.unackedData)
          (x.maxData - x.pending.offset)) n (SendHalf.ofSend x) = .error .closedStream := by
      intro hnw
      have : x.state ≠ .ready := by simpa [Send.isWritable] using hnw
      unfold SendHalf.ofSend
      cases hst : x.state with
      | ready => exact absurd hst this
      | dataSent fa => rfl
      | resetSent => rfl
    cases r with
    | ok k =>
      obtain ⟨x', s0, hg', _, _, hw, hsr, _, hl, hb, hk, _⟩ := write_ok h
      rw [hg] at hg'
      simp only [Option.some.injEq, Prod.mk.injEq] at hg'
      obtain ⟨rfl, rfl⟩ := hg'
      have hst : x.state = .ready := by simpa [Send.isWritable] using hw
      have hr0 : ¬ Nat.min (Gen.writeLimit s.maxData s.dataSent s.sendWindow s.unackedData)
          (x.maxData - x.pending.offset) = 0 := by simp only [natMin_eq]; omega
      simp [expectedWrite, SendHalf.ofSend, hst, hsr, hr0, hk]
    | error e =>
      rcases write_err_cases h hg hc' with ⟨h0, rfl, hsf, hcf⟩ | ⟨hl0, hx⟩ | ⟨c, hsf, rfl⟩ | ⟨hcf, rfl⟩
      · -- no connection-level room: the half is writable (else the closed test fired) and unstopped
        have hw : x.isWritable = true := by
          cases hh : x.isWritable
          · rw [closedFirst_iff.mpr hh] at hcf; contradiction
          · rfl
        have hst : x.state = .ready := by simpa [Send.isWritable] using hw
        have hsr : x.stopReason = none := by
          rcases stoppedFirst_none.mp hsf with hnw | hsr
          · rw [hw] at hnw; contradiction
          · exact hsr
        simp [expectedWrite, SendHalf.ofSend, hst, hsr, h0, natMin_eq]
      · rcases Send.write_err hx with ⟨hnw, rfl⟩ | ⟨hw, c, hsr, rfl⟩ | ⟨hw, hsr, hb, rfl⟩
        · exact (hclosed hnw).symm
        · have hst : x.state = .ready := by simpa [Send.isWritable] using hw
          simp [expectedWrite, SendHalf.ofSend, hst, hsr]
        · have hst : x.state = .ready := by simpa [Send.isWritable] using hw
          simp [expectedWrite, SendHalf.ofSend, hst, hsr, hb, natMin_eq]
      · obtain ⟨hw, hsr⟩ := stoppedFirst_some.mp hsf
        have hst : x.state = .ready := by simpa [Send.isWritable] using hw
        simp [expectedWrite, SendHalf.ofSend, hst, hsr]
      · exact (hclosed (closedFirst_iff.mp hcf)).symm

end QM.Streams
