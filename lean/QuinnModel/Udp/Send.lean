import QuinnModel.Udp.Layout
/-
Decision table of the Linux send path (quinn-udp/src/unix.rs `fn send` + `send_unsegmented`): which
`sendmsg` calls are made for one `Transmit`, with which control messages, how the answers of the kernel
(accepted / EINTR / EAGAIN / EIO|EINVAL / other errno) change `UdpSocketState{max_gso_segments,
sendmsg_einval}`, what is put on the wire and what is returned.

The kernel is an INPUT: a function from (the message as `prepare_msg` built it, the ordinal of the
`sendmsg` call) to an answer.  The GSO contract (an accepted message with UDP_SEGMENT = s is put on the
wire as consecutive datagrams of s bytes, the last possibly shorter) is the same assumption as
`wireDatagrams` (validated on loopback sockets by the harness).

`sendOld` is the decision table of the code before the repair of the GSO fallback (kept as the witness of
`Props.C19.old_send_counterexample`).  The shape of the repaired code is pinned by the T1 anchor
`Gen.sendGsoFallbackShapeChecked`.
-/
namespace QM.Udp

/-- answers of `libc::sendmsg` as `fn send` classifies them -/
inductive Answer where
  | ok          -- n ≥ 0
  | intr        -- ErrorKind::Interrupted: retried
  | wouldBlock  -- ErrorKind::WouldBlock: returned to the caller
  | refused     -- raw_os_error EIO or EINVAL (the two are treated identically)
  | other       -- any other errno (EMSGSIZE, ENETUNREACH, ...): returned to the caller
deriving Repr, DecidableEq

/-- what `send` returns when it is not `Ok(())` -/
inductive SendErr where
  | wouldBlock | refused | other
  | spin        -- fuel of the EINTR loop exhausted (the real loop keeps retrying)
deriving Repr, DecidableEq

/-- the parts of `Transmit` the decision depends on -/
structure Tx where
  v4 : Bool            -- destination IPv4 or IPv4-mapped (IP_TOS rather than IPV6_TCLASS)
  seg : Option Nat     -- `segment_size`
  len : Nat            -- `contents.len()`
deriving Repr, DecidableEq

/-- `UdpSocketState` fallback state -/
structure SockSt where
  maxGso : Nat
  einval : Bool        -- `sendmsg_einval`: IP_TOS omitted on IPv4 from now on
deriving Repr, DecidableEq

/-- one message as `prepare_msg` built it -/
structure Msg where
  segs : Option Nat    -- UDP_SEGMENT attached
  tos : Bool           -- the ECN codepoint is attached (IP_TOS / IPV6_TCLASS)
  len : Nat
deriving Repr, DecidableEq

abbrev Kernel := Msg → Nat → Answer

/-- outcome of one `send` call -/
structure Run where
  st : SockSt
  calls : Nat            -- ordinal of the next `sendmsg` call
  wire : List Nat        -- lengths of the datagrams the kernel accepted, in order
  ecnOk : Bool           -- every accepted message carried the ECN codepoint
  ret : Option SendErr   -- none = Ok(())
deriving Repr, DecidableEq

/-- `prepare_msg(transmit, .., sendmsg_einval)` -/
def prepare (t : Tx) (einval : Bool) : Msg :=
  ⟨effectiveSegmentSize t.seg t.len, !(t.v4 && einval), t.len⟩

/-- lengths of consecutive chunks of `seg` bytes of `len` bytes, the last possibly shorter
    (`contents.chunks(seg)`; also the GSO contract). Fuel = len. -/
def chunkLens (seg : Nat) : Nat → Nat → List Nat
  | 0, _ => []
  | fuel + 1, len =>
    if len = 0 then []
    else Nat.min seg len :: chunkLens seg fuel (len - Nat.min seg len)

/-- the datagrams a transmit DESCRIBES (doc of `Transmit::segment_size`) -/
def described (t : Tx) : List Nat :=
  match t.seg with
  | none => [t.len]
  | some s => chunkLens s t.len t.len

/-- what the kernel puts on the wire for an accepted message (GSO contract) -/
def wireOf (m : Msg) : List Nat :=
  match m.segs with
  | none => [m.len]
  | some s => chunkLens s m.len m.len

/-- "Prevent new transmits from being scheduled using GSO" -/
def haltGso (st : SockSt) : SockSt := if st.maxGso > 1 then { st with maxGso := 1 } else st

/-- `fn send` on a transmit without a segment size (one chunk of `send_unsegmented`) -/
def sendPlain (k : Kernel) (v4 : Bool) (len : Nat) : Nat → SockSt → Nat → Run
  | 0, st, calls => ⟨st, calls, [], true, some .spin⟩
  | fuel + 1, st, calls =>
    let msg : Msg := ⟨none, !(v4 && st.einval), len⟩
    match k msg calls with
    | .ok => ⟨st, calls + 1, [len], msg.tos, none⟩
    | .intr => sendPlain k v4 len fuel st (calls + 1)
    | .wouldBlock => ⟨st, calls + 1, [], true, some .wouldBlock⟩
    | .refused =>
      let st1 := haltGso st
      if !st1.einval then sendPlain k v4 len fuel { st1 with einval := true } (calls + 1)
      else ⟨st1, calls + 1, [], true, some .refused⟩
    | .other => ⟨st, calls + 1, [], true, some .other⟩

/-- `send_unsegmented`: `for contents in transmit.contents.chunks(segment_size) { send(..)?; }` -/
def sendChunks (k : Kernel) (v4 : Bool) (fuel : Nat) : SockSt → Nat → List Nat → Run
  | st, calls, [] => ⟨st, calls, [], true, none⟩
  | st, calls, c :: rest =>
    let r := sendPlain k v4 c fuel st calls
    match r.ret with
    | some _ => r
    | none =>
      let r2 := sendChunks k v4 fuel r.st r.calls rest
      ⟨r2.st, r2.calls, r.wire ++ r2.wire, r.ecnOk && r2.ecnOk, r2.ret⟩

/-- `fn send` (Linux), repaired: a refused segmentation-offloaded batch is re-sent datagram by datagram
    and does not switch the socket to the `sendmsg_einval` mode -/
def send (k : Kernel) (t : Tx) : Nat → SockSt → Nat → Run
  | 0, st, calls => ⟨st, calls, [], true, some .spin⟩
  | fuel + 1, st, calls =>
    let msg := prepare t st.einval
    match k msg calls with
    | .ok => ⟨st, calls + 1, wireOf msg, msg.tos, none⟩
    | .intr => send k t fuel st (calls + 1)
    | .wouldBlock => ⟨st, calls + 1, [], true, some .wouldBlock⟩
    | .refused =>
      let st1 := haltGso st
      match msg.segs with
      | some s => sendChunks k t.v4 fuel st1 (calls + 1) (chunkLens s t.len t.len)
      | none =>
        if !st1.einval then send k t fuel { st1 with einval := true } (calls + 1)
        else ⟨st1, calls + 1, [], true, some .refused⟩
    | .other => ⟨st, calls + 1, [], true, some .other⟩

/-- `fn send` before the repair: the retry after EIO|EINVAL re-prepares the SAME batch (UDP_SEGMENT still
    attached, only IP_TOS dropped) and sets `sendmsg_einval` for good -/
def sendOld (k : Kernel) (t : Tx) : Nat → SockSt → Nat → Run
  | 0, st, calls => ⟨st, calls, [], true, some .spin⟩
  | fuel + 1, st, calls =>
    let msg := prepare t st.einval
    match k msg calls with
    | .ok => ⟨st, calls + 1, wireOf msg, msg.tos, none⟩
    | .intr => sendOld k t fuel st (calls + 1)
    | .wouldBlock => ⟨st, calls + 1, [], true, some .wouldBlock⟩
    | .refused =>
      let st1 := haltGso st
      if !st1.einval then sendOld k t fuel { st1 with einval := true } (calls + 1)
      else ⟨st1, calls + 1, [], true, some .refused⟩
    | .other => ⟨st, calls + 1, [], true, some .other⟩

/-- `UdpSocketState::send`: "only ever returns errors of kind WouldBlock; all other errors are logged and
    converted to Ok" -/
def publicOk (r : Run) : Bool := r.ret != some .wouldBlock

/-- a kernel path without segmentation offload: every message carrying UDP_SEGMENT is answered EIO|EINVAL,
    every plain message is accepted -/
def refusesGso (k : Kernel) : Prop :=
  (∀ m n, m.segs.isSome = true → k m n = .refused) ∧ (∀ m n, m.segs = none → k m n = .ok)

def gsoRefusingKernel : Kernel := fun m _ => if m.segs.isSome then .refused else .ok

/-- well-formed transmit: non-empty contents, positive segment size (`chunks(0)` panics; quinn never
    builds either) -/
def Tx.valid (t : Tx) : Prop := 0 < t.len ∧ ∀ s, t.seg = some s → 0 < s

end QM.Udp
