import QuinnModel.Gen.Udp
/-
Model of the arithmetic of the UDP layer (quinn-udp/src/lib.rs `Transmit::effective_segment_size`,
quinn-udp/src/unix.rs `prepare_msg` control-message layout, quinn/src/endpoint.rs stride split loop)
and of the kernel contract for segmentation offload (GSO splits at the segment size; GRO coalesces
equal-size runs and reports the stride).  The kernel contract is an ASSUMPTION (validated on loopback
sockets by the harness), not something proved about the kernel.
-/
namespace QM.Udp

/-- the loop of `poll_socket`: `while !data.is_empty() { data.split_to(stride.min(data.len())) }`.
    Fuel = data length (each round removes at least one byte when stride > 0). -/
def splitByStride {α : Type} (stride : Nat) : Nat → List α → List (List α)
  | 0, _ => []
  | fuel + 1, data =>
    if data.isEmpty then []
    else
      let n := Nat.min stride data.length
      data.take n :: splitByStride stride fuel (data.drop n)

/-- `Transmit::effective_segment_size` -/
def effectiveSegmentSize (segmentSize : Option Nat) (len : Nat) : Option Nat :=
  match segmentSize with
  | none => none
  | some s => if s ≥ len then none else some s

/-- kernel GSO contract: a send with segment size `seg` puts `contents` on the wire as consecutive
    datagrams of `seg` bytes, the last one possibly shorter; without a segment size, one datagram -/
def wireDatagrams {α : Type} (contents : List α) (eff : Option Nat) : List (List α) :=
  match eff with
  | none => [contents]
  | some seg => splitByStride seg contents.length contents

/-- `CMSG_SPACE(n)` on 64-bit Linux: aligned header (16) + payload aligned to 8 -/
def cmsgSpace (n : Nat) : Nat := Gen.cmsgHdrSize + (n + 7) / 8 * 8

/-- options of one send, as `prepare_msg` encodes them on Linux -/
structure SendOpts where
  v4 : Bool            -- destination is IPv4 or IPv4-mapped
  einval : Bool        -- sendmsg_einval fallback active (IP_TOS omitted)
  gso : Bool           -- effective segment size present (UDP_SEGMENT u16)
  srcIp : Option Bool  -- explicit source: some true = v4 (in_pktinfo 12), some false = v6 (in6_pktinfo 20)
deriving Repr, DecidableEq

def controlLen (o : SendOpts) : Nat :=
  (if o.v4 then (if o.einval then 0 else cmsgSpace Gen.sizeofCInt) else cmsgSpace Gen.sizeofCInt)
  + (if o.gso then cmsgSpace 2 else 0)
  + (match o.srcIp with | none => 0 | some true => cmsgSpace Gen.sizeofInPktinfo | some false => cmsgSpace Gen.sizeofIn6Pktinfo)

def allOpts : List SendOpts :=
  [true, false].flatMap fun v4 => [true, false].flatMap fun e => [true, false].flatMap fun g =>
    [none, some true, some false].map fun s => ⟨v4, e, g, s⟩

/-- control messages the kernel may attach to one received (possibly GRO-coalesced) message, given the
    options `UdpSocketState::new` enables on Linux -/
structure RecvOpts where
  v4 : Bool        -- IP_TOS (1 byte) + IP_PKTINFO (12)  vs  IPV6_TCLASS (c_int) + IPV6_PKTINFO (20)
  gro : Bool       -- UDP_GRO (c_int)
  timestamp : Bool -- SCM_TIMESTAMPNS (timespec, 16)
deriving Repr, DecidableEq

def recvControlLen (o : RecvOpts) : Nat :=
  (if o.v4 then cmsgSpace 1 + cmsgSpace Gen.sizeofInPktinfo else cmsgSpace Gen.sizeofCInt + cmsgSpace Gen.sizeofIn6Pktinfo)
  + (if o.gro then cmsgSpace Gen.sizeofCInt else 0)
  + (if o.timestamp then cmsgSpace Gen.sizeofTimespec else 0)

def allRecvOpts : List RecvOpts :=
  [true, false].flatMap fun v4 => [true, false].flatMap fun g => [true, false].map fun t => ⟨v4, g, t⟩

end QM.Udp
