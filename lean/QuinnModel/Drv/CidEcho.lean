import QuinnModel.Endpoint.CidEcho
import QuinnModel.Gen.C14
/- Line-protocol front end of component `cidecho` (hook: quinn-proto/src/connection/verif/cidecho.rs). -/
namespace QM.Drv
open QM QM.CidEcho

namespace CidEchoDrv

/-- the driven client connection of the bookkeeping ops (none before `connect`) -/
structure St where
  conn : Option Client := none

def cid (s : String) : Option Cid :=
  match parseHex s with
  | some b => if b.length ≤ Gen.maxCidSize then some b else none
  | none => none

def optCid (s : String) : Option (Option Cid) :=
  if s == "none" then some none else (cid s).map some

def showOpt : Option Cid → String
  | none => "none"
  | some c => toHex c

def num (s : String) : Option Nat :=
  if s.isEmpty ∨ !s.all Char.isDigit then none else s.toNat?

def echoTP (a b c : String) : Option EchoTP :=
  match optCid a, optCid b, optCid c with
  | some x, some y, some z => some { initialSrc := x, originalDst := y, retrySrc := z }
  | _, _, _ => none

def verdict (side : Side) (c : Cids) (tp : EchoTP) : String :=
  if accept side c tp then "ok" else "err " ++ Gen.cidEchoErrName

def showState (s : Client) : String :=
  s!"st dst={toHex s.initialDst} orig={toHex s.origRem} hs={toHex s.remHandshake} retry={showOpt s.retrySrc} active={toHex s.active} set={if s.remCidSet then 1 else 0} authed={s.authed} pings={s.processed}"

def side? : String → Option Side
  | "c" => some .client
  | "s" => some .server
  | _ => none

def good? : String → Option Bool
  | "good" => some true
  | "bad" => some false
  | _ => none

def event (st : St) (e : Event) : St × String :=
  match st.conn with
  | none => (st, "bad-op")
  | some c => let c' := c.step e; ({ conn := some c' }, showState c')

end CidEchoDrv

open CidEchoDrv in
def cidecho (st : CidEchoDrv.St) : List String → CidEchoDrv.St × String
  | ["check", sd, origRem, initialDst, retrySrc, a, b, c] =>
    match side? sd, cid origRem, cid initialDst, optCid retrySrc, echoTP a b c with
    | some side, some o, some d, some r, some tp =>
      (st, verdict side { origRem := o, initialDst := d, retrySrc := r } tp)
    | _, _, _, _, _ => (st, "bad-op")
  | ["connect", d] =>
    match cid d with
    | some d => let c := Client.connect d; ({ conn := some c }, showState c)
    | none => (st, "bad-op")
  | ["retry", scid, tag, toklen] =>
    match cid scid, good? tag, num toklen with
    | some scid, some tagOk, some n => if n ≤ 64 then event st (.retry scid tagOk n) else (st, "bad-op")
    | _, _, _ => (st, "bad-op")
  | ["initial", scid, keys] =>
    match cid scid, good? keys with
    | some scid, some true => event st (.serverInitial scid)
    | some _, some false => event st .unauthenticated
    | _, _ => (st, "bad-op")
  | ["hs", scid] =>
    match cid scid with
    | some scid => event st (.laterServerPacket scid)
    | none => (st, "bad-op")
  | ["echo", a, b, c] =>
    match echoTP a b c, st.conn with
    | some tp, some cl => (st, verdict .client cl.cids tp)
    | _, _ => (st, "bad-op")
  | _ => (st, "bad-op")

end QM.Drv
