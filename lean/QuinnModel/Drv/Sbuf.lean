import QuinnModel.Data.SendBuffer
/- Line-protocol front end for `SendBuffer` (component `sbuf`); see quinn-proto/src/connection/verif/sbuf.rs. -/
namespace QM.Drv
open QM QM.RangeSet

/-- byte of the ground stream at absolute offset `o` -/
def ground (o : Nat) : Nat := (o * 7 + 3) % 251

/-- `n` ground bytes starting at offset `a` -/
def groundBytes (a n : Nat) : Bytes := (List.range n).map (fun i => ground (a + i))

def rangesStr (s : RS) : String :=
  if s.isEmpty then "-" else ",".intercalate (s.map (fun p => s!"{p.1}..{p.2}"))

def natsStr (l : List Nat) : String :=
  if l.isEmpty then "-" else ",".intercalate (l.map toString)

def u64? (s : String) : Option Nat :=
  match s.toNat? with
  | some n => if n < 2^64 then some n else none
  | none => none

def sbufState (s : SendBuffer.SendBuffer) : String :=
  let h := s.segs.foldl (fun h seg => seg.foldl (fun h b => (h * 31 + b) % 4294967296) h) 0
  s!"| o={s.offset} ul={s.unackedLen} us={s.unsent} a={rangesStr s.acks} r={rangesStr s.retransmits} s={natsStr (s.segs.map List.length)} h={h}"

def sbuf (s : SendBuffer.SendBuffer) : List String → SendBuffer.SendBuffer × String
  | ["write", n] => match u64? n with
    | some n => if n > 65536 then (s, "bad-op") else
      match SendBuffer.write s (groundBytes s.offset n) with
      | some s' => (s', s!"ok {sbufState s'}")
      | none => (s, "panic")
    | none => (s, "bad-op")
  | ["poll", m] => match u64? m with
    | some m => match SendBuffer.pollTransmit s m with
      | some (s', (a, b), enc) => (s', s!"ok {a} {b} {boolStr enc} {sbufState s'}")
      | none => (s, "panic")
    | none => (s, "bad-op")
  | ["get", a, b] => match u64? a, u64? b with
    | some a, some b => match SendBuffer.get s a b with
      | some bs => (s, s!"ok {toHex bs}")
      | none => (s, "panic")
    | _, _ => (s, "bad-op")
  | ["ack", a, b] => match u64? a, u64? b with
    | some a, some b => match SendBuffer.ack s a b with
      | some s' => (s', s!"ok {sbufState s'}")
      | none => (s, "panic")
    | _, _ => (s, "bad-op")
  | ["retransmit", a, b] => match u64? a, u64? b with
    | some a, some b => match SendBuffer.retransmit s a b with
      | some s' => (s', s!"ok {sbufState s'}")
      | none => (s, "panic")
    | _, _ => (s, "bad-op")
  | ["zrtt"] => match SendBuffer.retransmitAllFor0rtt s with
    | some s' => (s', s!"ok {sbufState s'}")
    | none => (s, "panic")
  | ["q"] => (s, s!"ok {boolStr (SendBuffer.isFullyAcked s)} {boolStr (SendBuffer.hasUnsentData s)} {s.offset}")
  | ["unacked"] => match SendBuffer.unacked s with
    | some n => (s, s!"ok {n}")
    | none => (s, "panic")
  | _ => (s, "bad-op")

end QM.Drv
