import QuinnModel.Conn.KeyUpdate
/- line protocol of the `keyupd` component (quinn-proto/src/connection/verif/keyupd.rs) -/
namespace QM.Drv
open QM QM.KeyUpdate

namespace KeyUpd

def optNat : Option Nat → String
  | some n => toString n
  | none => "-"

def bit (b : Bool) : String := if b then "1" else "0"

def view (s : State) (r : String) : String :=
  let prev := match s.prev with
    | some pv => s!"{pv.gen}:{optNat (pv.endPacket.map Prod.fst)}:{bit pv.unacked}"
    | none => "-"
  let st := match s.life with
    | .est => "est" | .closed => "closed" | .drained => "drained"
  let err := match s.err with
    | some .keyUpdateError => "KEY_UPDATE_ERROR"
    | some .protocolViolation => "PROTOCOL_VIOLATION"
    | some .aeadLimitReached => "AEAD_LIMIT_REACHED"
    | none => "-"
  s!"{r} | ph={bit s.phase} cur={optNat s.cur} prev={prev} next={optNat s.next} swk={s.swk} npn={s.nextPn} la={optNat s.largestAcked} rx={s.rxPacket} authed={s.authed} fail={s.fail} dd={s.dedup.next}:{s.dedup.window} kd={optNat s.kd} st={st} err={err}"

def parseBit : String → Option Bool
  | "0" => some false
  | "1" => some true
  | _ => none

def parseSeal (w : String) : Option (Option Nat) :=
  if w = "forged" then some none
  else match w.toNat? with
    | some g => if g < 2^32 then some (some g) else none
    | none => none

def rx (s : State) (pn b g : String) (rsv : Bool) : State × String :=
  match pn.toNat?, parseBit b, parseSeal g with
  | some pn, some b, some sg =>
    if pn ≥ 2^30 then (s, "bad-op") else
    match handlePacket s ⟨pn, b, sg, rsv⟩ with
    | (_, .panic) => (s, "panic")
    | (s', .res o p) => (s', view s' s!"o:{bit o} p:{bit p}")
  | _, _, _ => (s, "bad-op")

end KeyUpd

open KeyUpd in
def keyupd (s : State) : List String → State × String
  | ["env", pto, limit, phase] =>
    match pto.toNat?, limit.toNat?, phase.toNat? with
    | some pto, some limit, some phase =>
      if pto ≥ 2^64 ∨ limit ≥ 2^64 ∨ phase ≥ 2^64 then (s, "bad-op") else
      let mine := s.pto
      let myPhase := s.confLimit - Gen.keyUpdateMargin
      if mine = pto ∧ limit = s.limit ∧ phase = myPhase then (s, view s "ok")
      else (s, view s s!"err env {mine} {s.limit} {myPhase}")
    | _, _, _ => (s, "bad-op")
  | ["rx", pn, b, g] => rx s pn b g false
  | ["rx", pn, b, g, "rsv"] => rx s pn b g true
  | ["ackd", pn] =>
    match pn.toNat? with
    | some pn => match ackd s pn with
      | some s' => (s', view s' "ok")
      | none => (s, "bad-op")
    | none => (s, "bad-op")
  | ["update"] =>
    match forceKeyUpdate s with
    | some s' => (s', view s' "ok")
    | none => (s, "panic")
  | ["send"] =>
    if s.life ≠ .est then (s, view s "closed") else
    match send s with
    | some (s', ph, g) => (s', view s' s!"sent {bit ph} {g}")
    | none => (s, "panic")
  | ["tick", us] =>
    match us.toNat? with
    | some us => if us > 1000000000 then (s, "bad-op") else
      let s' := { s with now := s.now + us }
      (s', view s' "ok")
    | none => (s, "bad-op")
  | ["timeout"] => let s' := timeout s; (s', view s' "ok")
  | ["view"] => (s, view s "ok")
  | _ => (s, "bad-op")

end QM.Drv
