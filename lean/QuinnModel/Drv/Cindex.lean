import QuinnModel.Endpoint.Index
/- Line-protocol front end for the endpoint routing tables (component `cindex`). -/
namespace QM.Drv
open QM QM.Index

structure CState where
  st : State := Index.init 8 false
  poisoned : Bool := false

namespace Cx

def pad4 (n : Nat) : String :=
  let s := toString n
  String.ofList (List.replicate (4 - s.length) '0') ++ s

def sortStrs (l : List String) : List String := l.mergeSort (fun a b => !decide (b < a))

def sorted (l : List String) : String := String.intercalate "," (sortStrs l)

def addrStr (a : Addr) : String := s!"{a.ip}:{a.port}"

def tupleStr (t : FourTuple) : String :=
  match t.localIp with
  | none => s!"{addrStr t.remote}/-"
  | some ip => s!"{addrStr t.remote}/{ip}"

def routeStr : Option RouteTo → String
  | none => "none"
  | some (.incoming i) => s!"incoming {i}"
  | some (.connection ch) => s!"conn {ch}"

def distinct {α : Type} [DecidableEq α] : List α → List α
  | [] => []
  | a :: r => if a ∈ r then distinct r else a :: distinct r

def sortSeq (l : List (Nat × Cid)) : List (Nat × Cid) := l.mergeSort (fun a b => decide (a.1 ≤ b.1))

def metaStr (h : Nat) (m : Meta) : String :=
  let tok := match m.resetToken with
    | none => "-"
    | some (r, t) => s!"{addrStr r}/{toHex t}"
  let loc := String.intercalate " " ((sortSeq m.locCids).map (fun e => s!"{e.1}:{toHex e.2}"))
  let side := match m.side with | .server => "S" | .client => "C"
  s!"{pad4 h}:init={toHex m.initCid} issued={m.cidsIssued} side={side} addr={tupleStr m.addresses} tok={tok} loc=[{loc}]"

def dump (s : State) : List String :=
  let ix := s.index
  [ "I{" ++ sorted (ix.idsInitial.map (fun e => s!"{toHex e.1}=" ++ (match e.2 with
        | .incoming i => s!"i{i}" | .connection c => s!"c{c}"))) ++ "}",
    "C{" ++ sorted (ix.ids.map (fun e => s!"{toHex e.1}={e.2}")) ++ "}",
    "R{" ++ sorted (ix.inRemotes.map (fun e => s!"{tupleStr e.1}={e.2}")) ++ "}",
    "O{" ++ sorted (ix.outRemotes.map (fun e => s!"{addrStr e.1}={e.2}")) ++ "}",
    s!"T{(distinct (ix.tokens.map (·.1.1))).length}" ++ "{"
      ++ sorted (ix.tokens.map (fun e => s!"{addrStr e.1.1}/{toHex e.1.2}={e.2}")) ++ "}",
    "M{" ++ sorted (s.conns.toList.map (fun e => metaStr e.1 e.2)) ++ "}",
    s!"slab={s.conns.len}/{s.conns.vacantKey}",
    "P{" ++ String.intercalate "," (sortStrs (s.incoming.toList.map (fun e => pad4 e.1))) ++ "}/"
      ++ toString s.incoming.vacantKey ]

def fnv (lines : List String) : UInt64 :=
  lines.foldl (fun h l =>
    let h := l.toUTF8.foldl (fun h b => (h ^^^ b.toUInt64) * 0x100000001b3) h
    (h ^^^ 10) * 0x100000001b3) 0xcbf29ce484222325

def hex16 (x : UInt64) : String :=
  String.ofList ((List.range 16).map (fun i => hexDigit ((x.toNat >>> (4 * (15 - i))) % 16)))

def summary (s : State) : String :=
  let ix := s.index
  s!"i={ix.idsInitial.length} c={ix.ids.length} r={ix.inRemotes.length} o={ix.outRemotes.length} " ++
  s!"t={ix.tokens.length}/{(distinct (ix.tokens.map (·.1.1))).length} n={s.conns.len} p={s.incoming.len} " ++
  s!"h={hex16 (fnv (dump s))}"

def parseNum (x : String) : Option Nat :=
  match x.toNat? with
  | some n => if n < 2^64 then some n else none
  | none => none

def parseAddr (x : String) : Option Addr :=
  match x.splitOn ":" with
  | [a, p] => match a.toNat?, p.toNat? with
    | some a, some p => if a < 2^32 ∧ p < 2^16 then some ⟨a, p⟩ else none
    | _, _ => none
  | _ => none

def parseLocal (x : String) : Option (Option Nat) :=
  if x == "-" then some none else
  match x.toNat? with
  | some a => if a < 2^32 then some (some a) else none
  | none => none

def parseCid (x : String) : Option Cid :=
  match parseHex x with
  | some b => if b.length ≤ Gen.cidxMaxCidSize then some b else none
  | none => none

def parseCandList (cidLen : Nat) : List String → Option (List Cid)
  | [] => some []
  | x :: r => match parseCid x, parseCandList cidLen r with
    | some c, some cs => if c.length ≠ cidLen ∨ c.isEmpty then none else some (c :: cs)
    | _, _ => none

def parseCands (cidLen : Nat) (x : String) : Option (List Cid) :=
  if x == "_" then some [] else parseCandList cidLen (x.splitOn ",")

def parseBool (x : String) : Option Bool :=
  if x == "1" then some true else if x == "0" then some false else none

def idsStr : Option (List (Nat × Cid)) → String
  | none => "none"
  | some [] => "ids -"
  | some l => "ids " ++ String.intercalate "," (l.map (fun e => s!"{e.1}:{toHex e.2}"))

/-- result of a request: `none` = bad-op, `some none` = panic, `some (some (state, text, withSummary))` -/
def run (s : State) : List String → Option (Option (State × String × Bool))
  | ["connect", remote, ini, tls, cands] =>
    match parseAddr remote, parseCid ini, parseBool tls, parseCands s.cidLen cands with
    | some remote, some ini, some tls, some cands =>
      some (match connect s remote ini tls cands with
        | none => none
        | some (s', r) => some (s', (match r with
            | .ok ch => s!"ok {ch}"
            | .cidsExhausted => "err CidsExhausted"
            | .invalidRemoteAddress => "err InvalidRemoteAddress"
            | .invalidServerName => "err InvalidServerName"), true))
    | _, _, _, _ => none
  | ["first", remote, loc, dcid, data] =>
    match parseAddr remote, parseLocal loc, parseCid dcid, parseHex data with
    | some remote, some loc, some dcid, some data =>
      some (match firstPacket s ⟨remote, loc⟩ dcid data with
        | none => none
        | some (s', r) => some (s', (match r with
            | .routed r => s!"routed {routeStr (some r)}"
            | .new idx => s!"new {idx}"), true))
    | _, _, _, _ => none
  | ["accept", idx, mode, cands] =>
    let mode : Option AcceptMode := match mode with
      | "ok" => some .ok | "stale" => some .stale | "auth" => some .auth | "badpacket" => some .badPacket
      | _ => none
    match parseNum idx, mode, parseCands s.cidLen cands with
    | some idx, some mode, some cands =>
      if (s.incoming.get idx).isNone then none else
      some (match accept s idx mode cands with
        | none => none
        | some (s', r) => some (s', (match r with
            | .ok ch => s!"ok {ch}"
            | .timedOut => "err TimedOut"
            | .cidsExhausted => "err CidsExhausted"
            | .authFailed => "err auth"
            | .firstPacketFailed => "err first-packet"), true))
    | _, _, _ => none
  | ["refuse", idx, cands] =>
    match parseNum idx, parseCands s.cidLen cands with
    | some idx, some cands =>
      if (s.incoming.get idx).isNone then none else
      some (match refuse s idx cands with
        | none => none
        | some s' => some (s', "ok", true))
    | _, _ => none
  | [cmd, idx] =>
    if cmd == "ignore" then
      match parseNum idx with
      | some idx =>
        if (s.incoming.get idx).isNone then none else
        some (match cleanUpIncoming s idx with
          | none => none
          | some s' => some (s', "ok", true))
      | none => none
    else if cmd == "drained" then
      match parseNum idx with
      | some ch => some (match handleEvent s ch [] .drained with
          | none => none
          | some (s', r) => some (s', idsStr r, true))
      | none => none
    else none
  | ["issue", ch, n, cands] =>
    match parseNum ch, parseNum n, parseCands s.cidLen cands with
    | some ch, some n, some cands =>
      if n > 64 then none else
      some (match handleEvent s ch cands (.needIdentifiers n) with
        | none => none
        | some (s', r) => some (s', idsStr r, true))
    | _, _, _ => none
  | ["retire", ch, seq, allow, cands] =>
    match parseNum ch, parseNum seq, parseBool allow, parseCands s.cidLen cands with
    | some ch, some seq, some allow, some cands =>
      some (match handleEvent s ch cands (.retireConnectionId seq allow) with
        | none => none
        | some (s', r) => some (s', idsStr r, true))
    | _, _, _, _ => none
  | ["token", ch, remote, tok] =>
    match parseNum ch, parseAddr remote, parseHex tok with
    | some ch, some remote, some tok =>
      if tok.length ≠ Gen.cidxResetTokenSize then none else
      some (match handleEvent s ch [] (.resetToken remote tok) with
        | none => none
        | some (s', r) => some (s', idsStr r, true))
    | _, _, _ => none
  | ["route", kind, remote, loc, dcid, data] =>
    let k : Option Bool := match kind with
      | "initial" => some true | "zrtt" => some true | "long" => some false | "short" => some false
      | _ => none
    match k, parseAddr remote, parseLocal loc, parseCid dcid, parseHex data with
    | some k, some remote, some loc, some dcid, some data =>
      some (some (s, (match route s ⟨remote, loc⟩ ⟨k, dcid, data⟩ with
        | some (.connection ch) => s!"conn {ch} handle={ch}"
        | r => routeStr r), false))
    | _, _, _, _, _ => none
  | _ => none

end Cx

def cindex (c : CState) : List String → CState × String
  | ["new", len, pref] =>
    match len.toNat?, pref.toNat? with
    | some len, some pref =>
      if len ≥ 2^64 ∨ pref ≥ 2^64 ∨ len > Gen.cidxMaxCidSize ∨ pref > 1 then (c, "bad-op") else
      let s := Index.init len (pref == 1)
      ({ st := s, poisoned := false }, s!"ok {Cx.summary s}")
    | _, _ => (c, "bad-op")
  | ["dump"] => if c.poisoned then (c, "poisoned") else (c, "dump " ++ String.intercalate " " (Cx.dump c.st))
  | w =>
    if c.poisoned then (c, "poisoned") else
    match Cx.run c.st w with
    | none => (c, "bad-op")
    | some none => ({ c with poisoned := true }, "panic")
    | some (some (s', txt, withSummary)) =>
      ({ c with st := s' }, if withSummary then s!"{txt} | {Cx.summary s'}" else txt)

end QM.Drv
