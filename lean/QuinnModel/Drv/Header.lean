import QuinnModel.Wire.Header
import QuinnModel.Drv.Tparams
/- Line-protocol front end for connection ids (long form) and plaintext headers (verif/header.rs). -/
namespace QM.Drv
open QM QM.Wire QM.Wire.Header

def pPn (len v : String) : Option (Nat × Nat) :=
  match pU64 len, pU64 v with
  | some l, some v => if 1 ≤ l ∧ l ≤ 4 ∧ v < 256 ^ l then some (l, v) else none
  | _, _ => none

def pU32 (s : String) : Option Nat :=
  match pU64 s with
  | some v => if v < 2^32 then some v else none
  | none => none

def parseHeader : List String → Option Header
  | ["initial", v, d, s, t, l, n] => do
    let d ← pCid d; let s ← pCid s; let t ← parseHex t; let n ← pPn l n; let v ← pU32 v
    pure (.initial d s t n v)
  | ["handshake", v, d, s, l, n] => do
    let d ← pCid d; let s ← pCid s; let n ← pPn l n; let v ← pU32 v
    pure (.long .handshake d s n v)
  | ["zerortt", v, d, s, l, n] => do
    let d ← pCid d; let s ← pCid s; let n ← pPn l n; let v ← pU32 v
    pure (.long .zeroRtt d s n v)
  | ["retry", v, d, s] => do
    let d ← pCid d; let s ← pCid s; let v ← pU32 v
    pure (.retry d s v)
  | ["short", spin, kp, d, l, n] => do
    let spin ← pFlag spin; let kp ← pFlag kp; let d ← pCid d; let n ← pPn l n
    pure (.short spin kp d n)
  | ["vn", r, d, s] => do
    let r ← pU64 r; let d ← pCid d; let s ← pCid s
    if r < 256 then pure (.versionNegotiate r d s) else none
  | _ => none

def ltStr : LongType → String
  | .handshake => "handshake"
  | .zeroRtt => "zerortt"

def renderPHeader : PHeader → String
  | .initial d s ts tl len v => s!"initial {v} {toHex d} {toHex s} {ts} {tl} {len}"
  | .long ty d s len v => s!"{ltStr ty} {v} {toHex d} {toHex s} {len}"
  | .retry d s v => s!"retry {v} {toHex d} {toHex s}"
  | .short spin d => s!"short {rFlag spin} {toHex d}"
  | .versionNegotiate r d s => s!"vn {r} {toHex d} {toHex s}"

def hdrErrStr : HdrErr → String
  | .unexpectedEnd => "err invalid unexpected_end_of_packet"
  | .fixedBitUnset => "err invalid fixed_bit_unset"
  | .malformedCid => "err invalid malformed_cid"
  | .tokenOutOfBounds => "err invalid token_out_of_bounds"
  | .packetTooSmall => "err invalid packet_too_small"
  | .tooShortForLength => "err invalid packet_too_short_to_contain_payload_length"
  | .unsupportedVersion s d v => s!"err version {v} {toHex s} {toHex d}"
  | .panic => "panic"

def pVersions (s : String) : Option (List Nat) :=
  if s == "-" then some [] else (s.splitOn ",").mapM pU32

def header : List String → String
  | ["cidenc", h] => match pCid h with
    | some c => match Cid.encodeLong c (some []) with
      | some e => s!"ok {toHex e}"
      | none => "panic"
    | none => "bad-op"
  | ["ciddec", h] => match parseHex h with
    | some bs => match Cid.decodeLong (ε := Option Unit) none (some ()) bs with
      | .ok (c, r) => s!"ok {toHex c} {bs.length - r.length}"
      | .error none => "none"
      | .error (some _) => "panic"
    | none => "bad-op"
  | "enc" :: w => match parseHeader w with
    | some h => match encode h with
      | some pe =>
        let pn := match pe.pn with
          | none => "-"
          | some (l, wl) => s!"{l}:{rFlag wl}"
        s!"ok {toHex pe.bytes} {pe.bytes.length} {pn}"
      | none => "panic"
    | none => "bad-op"
  | "pkt" :: payload :: w => match parseHex payload, parseHeader w with
    | some payload, some h => match packet h payload with
      | some b => s!"ok {toHex b}"
      | none => "panic"
    | _, _ => "bad-op"
  | ["dec", cidlen, grease, versions, h] =>
    match pU64 cidlen, pFlag grease, pVersions versions, parseHex h with
    | some cidlen, some grease, some vs, some bs =>
      if cidlen > Gen.wireMaxCidSize then "bad-op" else
      match partialDecodeNew bs cidlen vs grease with
      | .ok pd =>
        let rest := match pd.rest with
          | none => "-"
          | some r => toString r.length
        s!"ok {renderPHeader pd.header} pos={pd.pos} len={pd.packet.length} rest={rest}"
      | .error e => hdrErrStr e
    | _, _, _, _ => "bad-op"
  | _ => "bad-op"

end QM.Drv
