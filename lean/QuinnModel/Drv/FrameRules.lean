import QuinnModel.Conn.FrameRules
import QuinnModel.Util
/- Line-protocol front end of the frame-rules table (trace validation of scenario `frames`, stateless):
     frules <receiver side c|s> <observed ok|error:N> <item>...
     <item> = <1|0|g>/<28 comma separated facts>/<frame hex>
   answer = the outcome the model predicts for the datagram: `ok` or `error N`; where the model admits several
   outcomes (inexact facts, CRYPTO reaching the TLS engine) the observed one is echoed if it is among them,
   otherwise everything admissible is printed (`ok|error a,b` / `error a,b`). -/
namespace QM.Drv
open QM QM.FrameRules

def frNat (s : String) : Option Nat := if s.isEmpty ∨ !s.all Char.isDigit then none else s.toNat?

def frOpt (s : String) : Option (Option Nat) := if s == "-" then some none else (frNat s).map some

def frBool (s : String) : Option Bool := if s == "1" then some true else if s == "0" then some false else none

def frSpace : String → Option Space
  | "0" => some .initial | "1" => some .handshake | "2" => some .data | _ => none

/-- the remote CID ring from its occupancy string (`-` empty, `n` entry without reset token, `t` with) -/
def frRing (occ : List Char) (cidBytes : Bytes) : Option CidQueue.Buf :=
  if occ.length ≠ CidQueue.LEN then none else
  let step := fun (acc : Option (CidQueue.Buf × Nat)) (c : Char) =>
    match acc with
    | none => none
    | some (b, i) =>
      if c == '-' then some (b, i + 1)
      else if c == 'n' then some (CidQueue.put b i (some ⟨cidBytes, none⟩), i + 1)
      else if c == 't' then some (CidQueue.put b i (some ⟨cidBytes, some (List.replicate 16 0)⟩), i + 1)
      else none
  (occ.foldl step (some (Vector.replicate CidQueue.LEN none, 0))).map (·.1)

def frFlags (server : Bool) (w : List String) : Option (Space × ConnFlags) :=
  match w with
  | [sp, nextPn, skipped, cexp, cread, cbuf, rkind, rend, rfinal, rreset, rstopped, rsentmax, skind, nextLocal,
     maxRemote, dataRecvd, localMaxData, srw, remEmpty, qoff, qcur, occ, retireLen, lcidLen, issued, dgwin, afLast, chal] => do
    let sp ← frSpace sp
    let nextPn ← frNat nextPn; let skipped ← frOpt skipped; let cexp ← frNat cexp; let cread ← frNat cread
    let cbuf ← frNat cbuf; let rkind ← frNat rkind; let rend ← frNat rend; let rfinal ← frOpt rfinal
    let rreset ← frBool rreset; let rstopped ← frBool rstopped; let rsentmax ← frNat rsentmax; let skind ← frNat skind
    let nextLocal ← frNat nextLocal; let maxRemote ← frNat maxRemote; let dataRecvd ← frNat dataRecvd
    let localMaxData ← frNat localMaxData; let srw ← frNat srw; let remEmpty ← frBool remEmpty
    let qoff ← frNat qoff; let qcur ← frNat qcur; let retireLen ← frNat retireLen; let lcidLen ← frNat lcidLen
    let issued ← frNat issued; let dgwin ← frOpt dgwin; let afLast ← frOpt afLast; let chal ← frOpt chal
    let ring ← frRing occ.toList (if remEmpty then [] else [0])
    pure (sp, { nextPn := nextPn, skipped := skipped, cryptoExpected := cexp, cryptoRead := cread, cryptoBuf := cbuf,
                recvKind := rkind, recvEnd := rend, recvFinal := rfinal, recvReset := rreset, recvStopped := rstopped,
                recvSentMax := rsentmax, sendKind := skind, nextLocal := nextLocal, maxRemote := maxRemote,
                dataRecvd := dataRecvd, localMaxData := localMaxData, streamRecvWindow := srw,
                cid := ⟨⟨ring, qcur, qoff⟩, List.replicate retireLen 0, server⟩, localCidLen := lcidLen, issued := issued,
                dgramWindow := dgwin, ackFreqLast := afLast, challenge := chal })
  | _ => none

def frItem (server : Bool) (s : String) : Option Item :=
  match s.splitOn "/" with
  | [e, facts, hex] =>
    if e == "g" then some .garbled else do
      let bytes ← parseHex hex
      let (sp, fl) ← frFlags server (facts.splitOn ",")
      if e == "1" then pure (.exact sp fl bytes) else if e == "0" then pure (.inexact sp bytes) else none
  | _ => none

def frCodes (cs : List Nat) : String := ",".intercalate (cs.map toString)

def frObserved (s : String) : Option (Option Nat) :=
  if s == "ok" then some none else
  match s.splitOn ":" with
  | ["error", n] => (frNat n).map some
  | _ => none

def frules : List String → String
  | side :: obs :: items =>
    match (if side == "s" then some true else if side == "c" then some false else none), frObserved obs with
    | some server, some observed =>
      (match items.mapM (frItem server) with
       | none => "bad-op"
       | some its =>
         let (cs, okPossible) := admissible server its
         match observed with
         | none => if okPossible then "ok" else s!"error {frCodes cs}"
         | some n =>
           if cs.contains n then s!"error {n}"
           else if okPossible ∧ cs.isEmpty then "ok"
           else if okPossible then s!"ok|error {frCodes cs}" else s!"error {frCodes cs}")
    | _, _ => "bad-op"
  | _ => "bad-op"

end QM.Drv
