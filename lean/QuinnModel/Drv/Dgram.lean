import QuinnModel.Data.Datagrams
/- Line-protocol front end for component `dgram` (see quinn-proto/src/connection/verif/dgram.rs). -/
namespace QM.Drv
open QM QM.Datagrams

/-- component state: the `DatagramState` and what `Datagrams::{send,max_size}` read from the connection -/
structure DgSt where
  st : Datagrams.State := Datagrams.init
  recvWindow : Option Nat := some 1000
  sendBuffer : Nat := 1000
  mtu : Nat := 1200
  cidLen : Nat := 8
  peerLimit : Option Nat := none

def dgMaxLen : Nat := 70000
def dgFill : Nat := 0xee

def cksum (bs : Bytes) : Nat := bs.foldl (fun h b => (h * 31 + b + 1) % 4294967296) 7

def showDg (d : Bytes) : String := s!"{d.length}:{cksum d}"

def showQueue (q : List Bytes) : String :=
  if q.isEmpty then "-" else ",".intercalate (q.map showDg)

def pattern (len tag : Nat) : Bytes := (List.range len).map (fun i => (tag + i) % 256)

def parseDg (s : String) : Option Bytes :=
  match s.splitOn ":" with
  | [l, t] => match l.toNat?, t.toNat? with
    | some l, some t => if l > dgMaxLen ∨ t > 255 then none else some (pattern l t)
    | _, _ => none
  | _ => none

def parseUsize (s : String) : Option Nat :=
  match s.toNat? with
  | some n => if n < 2^64 then some n else none
  | none => none

def parseOptUsize (s : String) : Option (Option Nat) :=
  if s == "-" then some none else (parseUsize s).map some

def dgSuffix (s : Datagrams.State) : String :=
  s!" | o={s.outgoingTotal}:{showQueue s.outgoing} i={s.recvBuffered}:{showQueue s.incoming} b={if s.sendBlocked then 1 else 0}"

/-- the executor's connection never has 1-RTT keys; its local (handshake) CID has 8 bytes -/
def dgScid : Option Nat := some 8

def DgSt.maxSize (c : DgSt) : Option (Option Nat) := Datagrams.maxSize c.mtu (overhead c.cidLen dgScid) c.peerLimit

def dgram (c : DgSt) : List String → DgSt × String
  | ["cfg", r, s] => match parseOptUsize r, parseUsize s with
    | some r, some s => ({ c with recvWindow := r, sendBuffer := s }, "ok" ++ dgSuffix c.st)
    | _, _ => (c, "bad-op")
  | ["env", mtu, cid, peer] => match mtu.toNat?, cid.toNat? with
    | some mtu, some cid =>
      if mtu ≥ 65536 ∨ cid > 20 then (c, "bad-op") else
      let peer? : Option (Option Nat) :=
        if peer == "-" then some none else match peer.toNat? with
          | some p => if p < 2^62 then some (some p) else none
          | none => none
      match peer? with
      | none => (c, "bad-op")
      | some p => ({ c with mtu := mtu, cidLen := cid, peerLimit := p }, s!"ok {overhead cid dgScid}" ++ dgSuffix c.st)
    | _, _ => (c, "bad-op")
  | ["maxsize"] => match c.maxSize with
    | none => (c, "panic")
    | some none => (c, "none" ++ dgSuffix c.st)
    | some (some x) => (c, s!"ok {x}" ++ dgSuffix c.st)
  | ["send", d, drop] => match parseDg d, (if drop == "0" then some false else if drop == "1" then some true else none) with
    | some d, some drop =>
      let (s', o) := Datagrams.sendApi c.st d drop c.recvWindow.isSome c.maxSize c.sendBuffer
      let r := match o with
        | .sendOk => "ok" ++ dgSuffix s'
        | .sendErr .unsupportedByPeer => "err UnsupportedByPeer" ++ dgSuffix s'
        | .sendErr .disabled => "err Disabled" ++ dgSuffix s'
        | .sendErr .tooLarge => "err TooLarge" ++ dgSuffix s'
        | .sendErr (.blocked b) => s!"err Blocked {showDg b}" ++ dgSuffix s'
        | _ => "panic"
      ({ c with st := s' }, r)
    | _, _ => (c, "bad-op")
  | ["space"] => (c, s!"ok {sendBufferSpace c.st c.sendBuffer}" ++ dgSuffix c.st)
  | ["hasspace", l, s] => match parseUsize l, parseUsize s with
    | some l, some s => (c, boolStr (hasSendBufferSpace c.st l s) ++ dgSuffix c.st)
    | _, _ => (c, "bad-op")
  | ["mkspace", l, s] => match parseUsize l, parseUsize s with
    | some l, some s =>
      let (s', p) := makeSpaceFor c.st l s
      ({ c with st := s' }, if p then "panic" else "ok" ++ dgSuffix s')
    | _, _ => (c, "bad-op")
  | ["rcvd", d, win] => match parseDg d, parseOptUsize win with
    | some d, some win =>
      let (s', o) := received c.st d win
      let r := match o with
        | .rcvOk e => s!"ok {boolStr e}" ++ dgSuffix s'
        | .rcvErr .oversized => "err PROTOCOL_VIOLATION oversized_datagram" ++ dgSuffix s'
        | .rcvErr .unexpected => "err PROTOCOL_VIOLATION unexpected_DATAGRAM_frame" ++ dgSuffix s'
        | .hang => "hang"
        | _ => "panic"
      ({ c with st := s' }, r)
    | _, _ => (c, "bad-op")
  | ["recv"] =>
    let (s', o) := Datagrams.recv c.st
    let r := match o with
      | .recvNone => "none" ++ dgSuffix s'
      | .recvSome d => s!"ok {showDg d}" ++ dgSuffix s'
      | _ => "panic"
    ({ c with st := s' }, r)
  | ["ovs", m] => match parseUsize m with
    | some m =>
      let (s', o) := dropOversized c.st m
      let r := match o with
        | .dropped any => boolStr any ++ dgSuffix s'
        | _ => "panic"
      ({ c with st := s' }, r)
    | none => (c, "bad-op")
  | ["write", bl, max] => match bl.toNat?, parseUsize max with
    | some bl, some max =>
      if bl > dgMaxLen then (c, "bad-op") else
      let buf := List.replicate bl dgFill
      let (s', o) := Datagrams.write c.st buf max
      let r := match o with
        | .wrote true buf' =>
          let hdr := match c.st.outgoing with
            | d :: _ => toHex ((buf'.drop bl).take (buf'.length - bl - d.length))
            | [] => "-"
          s!"true {buf'.length} {hdr} {cksum buf'}" ++ dgSuffix s'
        | .wrote false buf' => s!"false {buf'.length} - {cksum buf'}" ++ dgSuffix s'
        | _ => "panic"
      ({ c with st := s' }, r)
    | _, _ => (c, "bad-op")
  | ["wloop", bl, max] => match bl.toNat?, parseUsize max with
    | some bl, some max =>
      if bl > dgMaxLen then (c, "bad-op") else
      let (s', o) := Datagrams.writeLoop c.st (List.replicate bl dgFill) max
      let r := match o with
        | .loop n buf' u => s!"{n} {buf'.length} {cksum buf'} {boolStr u}" ++ dgSuffix s'
        | _ => "panic"
      ({ c with st := s' }, r)
    | _, _ => (c, "bad-op")
  | ["bhglue"] => match c.maxSize with
    | none => (c, "panic")
    | some max =>
      let (s', o) := blackHoleGlue c.st max
      let r := match o with
        | .glue none => "none" ++ dgSuffix s'
        | .glue (some (d, u)) => s!"ok {boolStr d} {boolStr u}" ++ dgSuffix s'
        | _ => "panic"
      ({ c with st := s' }, r)
  | ["ptx"] => match c.maxSize with
    | none => (c, "panic")
    | some max =>
      let (s', o) := purgeGlue c.st max
      let r := match o with
        | .glue none => "ok 0" ++ dgSuffix s'
        | .glue (some (_, u)) => s!"ok {if u then 1 else 0}" ++ dgSuffix s'
        | _ => "panic"
      ({ c with st := s' }, r)
  | ["poke", which, n] => match parseUsize n with
    | some n =>
      if which == "out" then
        let s' := { c.st with outgoingTotal := n }
        ({ c with st := s' }, "ok" ++ dgSuffix s')
      else if which == "in" ∧ n ≤ c.st.recvBuffered then
        let s' := { c.st with recvBuffered := n }
        ({ c with st := s' }, "ok" ++ dgSuffix s')
      else (c, "bad-op")
    | none => (c, "bad-op")
  | _ => (c, "bad-op")

end QM.Drv
