import QuinnModel.Wire.VarInt
import QuinnModel.Wire.PacketNumber
import QuinnModel.Data.Dedup
/- Line-protocol front ends for the stateless wire codecs and Dedup. -/
namespace QM.Drv
open QM

def varint : List String → String
  | ["enc", x] => match x.toNat? with
    | some x => match VarInt.fromU64 x with
      | none => "err bounds"
      | some v => match VarInt.encode v, VarInt.size v with
        | some e, some s => s!"ok {toHex e} {s}"
        | _, _ => "panic"
    | none => "bad-op"
  | ["dec", h] => match parseHex h with
    | some bs => match VarInt.decode bs with
      | some (v, rest) => s!"ok {v} {bs.length - rest.length}"
      | none => "err end"
    | none => "bad-op"
  | _ => "bad-op"

def pn : List String → String
  | ["new", n, la] => match n.toNat?, la.toNat? with
    | some n, some la => match PacketNumber.new n la with
      | some p => s!"ok {p.1} {toHex (PacketNumber.encode p)}"
      | none => "panic"
    | _, _ => "bad-op"
  | ["expand", h, e] => match parseHex h, e.toNat? with
    | some bs, some e =>
      if bs.length < 1 ∨ bs.length > 4 then "bad-op" else
      match PacketNumber.decode bs.length bs with
      | some (p, _) => match PacketNumber.expand p e with
        | some v => s!"ok {v}"
        | none => "panic"
      | none => "err end"
    | _, _ => "bad-op"
  | _ => "bad-op"

def dedup (d : Dedup.Dedup) : List String → Dedup.Dedup × String
  | ["new"] => (Dedup.init, "ok")
  | ["insert", p] => match p.toNat? with
    | some p => if p ≥ 2^64 - 1 then (d, "bad-op") else
      let (d', dup) := Dedup.insert d p
      (d', s!"{boolStr dup} {d'.next} {d'.window}")
    | none => (d, "bad-op")
  | _ => (d, "bad-op")

end QM.Drv
