import QuinnModel.Data.Assembler
import QuinnModel.Drv.Sbuf
/- Line-protocol front end for `Assembler` (component `asm`); see quinn-proto/src/connection/verif/asm.rs.
   Trailing tokens of `insert`/`read` requests are the implementation's observed choice. -/
namespace QM.Drv
open QM QM.RangeSet QM.Assembler

def parseRange (s : String) : Option (Nat × Nat) :=
  match s.splitOn ".." with
  | [a, b] => match u64? a, u64? b with
    | some a, some b => some (a, b)
    | _, _ => none
  | _ => none

def parseRanges (s : String) : Option RS :=
  if s == "-" then some [] else (s.splitOn ",").mapM parseRange

def asmState (s : Asm) : String :=
  s!"| r={s.bytesRead} e={s.end_} m={if s.unordered then "unord" else "ord"} rc={rangesStr (if s.unordered then s.recvd else [])} c={rangesStr s.cov}"

def parseMode : String → Option Bool
  | "ord" => some true
  | "unord" => some false
  | _ => none

def asmInsert (s : Asm) (off len alloc : String) (obs : Option String) : Asm × String :=
  match u64? off, u64? len, u64? alloc with
  | some off, some len, some alloc =>
    if len > 65536 then (s, "bad-op") else
    match (match obs with
      | none => some false | some "ok" => some false | some "panic" => some false
      | some "toomany" => some true | _ => none) with
    | none => (s, "bad-op")
    | some tm =>
      match Assembler.insert s off (groundBytes off len) alloc tm with
      | (s', .ok) => (s', s!"ok {asmState s'}")
      | (s', .tooMany) => (s', s!"err TooManyChunks {asmState s'}")
      | (_, .panic) => (s, "panic")
      | (_, .invalid) => (s, "invalid-choice")
  | _, _, _ => (s, "bad-op")

def asmRead (s : Asm) (max m : String) (obs : Option Obs) : Asm × String :=
  match u64? max, parseMode m with
  | some max, some ordered =>
    match Assembler.ensureOrdering s ordered with
    | (s1, false) => (s1, s!"err IllegalOrderedRead {asmState s1}")
    | (s1, true) =>
      match obs with
      | none => (s1, "invalid-choice")       -- the implementation reported an error or a panic
      | some o =>
        match Assembler.read s1 max ordered o with
        | (s2, .none) => (s2, s!"none {asmState s2}")
        | (s2, .chunk off bytes) => (s2, s!"ok {off} {bytes.length} {toHex bytes} {asmState s2}")
        | (_, .invalid) => (s1, "invalid-choice")
  | _, _ => (s, "bad-op")

def asm (s : Asm) : List String → Asm × String
  | ["insert", off, len, alloc] => asmInsert s off len alloc none
  | ["insert", off, len, alloc, obs] => asmInsert s off len alloc (some obs)
  | ["read", max, m, "none"] => asmRead s max m (some .none)
  | ["read", max, m, "err"] => asmRead s max m none
  | ["read", max, m, "panic"] => asmRead s max m none
  | ["read", max, m, off, len] => match u64? off, u64? len with
    | some off, some len => asmRead s max m (some (.chunk off len))
    | _, _ => (s, "bad-op")
  | ["ensure", m] => match parseMode m with
    | some ordered => match Assembler.ensureOrdering s ordered with
      | (s', true) => (s', s!"ok {asmState s'}")
      | (s', false) => (s', s!"err IllegalOrderedRead {asmState s'}")
    | none => (s, "bad-op")
  | ["clear"] => (Assembler.clear s, s!"ok {asmState (Assembler.clear s)}")
  | ["q"] => (s, s!"ok {s.bytesRead}")
  | _ => (s, "bad-op")

end QM.Drv
