import QuinnModel.Data.PendingAcks
/- Line-protocol front end of component `pendingacks` (prints exactly what connection/verif/pendingacks.rs prints). -/
namespace QM.Drv
open QM QM.PendingAcks

structure PendingAcksSt where
  s : State := init
  set : RangeSet := []
deriving Repr

def rsStr (l : RangeSet) : String := "[" ++ ",".intercalate (l.map (fun r => s!"{r.1}-{r.2}")) ++ "]"

def pendingAcksState (s : State) : String :=
  let l := match s.largestPacket with | none => "none" | some (pn, t) => s!"{pn}@{t}"
  s!"{rsStr s.ranges} largest={l}"

def u64B (x : String) : Option Nat := match x.toNat? with
  | some n => if n < 2^64 then some n else none
  | none => none

def pendingacks (a : PendingAcksSt) : List String → PendingAcksSt × String
  | ["new"] => ({}, s!"ok {pendingAcksState init}")
  | ["insert", packet, now] => match u64B packet, u64B now with
    | some p, some n => if n ≥ 2^62 then (a, "bad-op") else
      match insertOne a.s p n with
      | some s => ({ a with s := s }, s!"ok {pendingAcksState s}")
      | none => (a, "panic")
    | _, _ => (a, "bad-op")
  | ["sub", max] => match u64B max with
    | some m => match subtractBelow a.s m with
      | some s => ({ a with s := s }, s!"ok {pendingAcksState s}")
      | none => (a, "panic")
    | none => (a, "bad-op")
  | ["rs_insert", s, e] => match u64B s, u64B e with
    | some s, some e => let (l, b) := rsInsert a.set (s, e); ({ a with set := l }, s!"{boolStr b} {rsStr l}")
    | _, _ => (a, "bad-op")
  | ["rs_remove", s, e] => match u64B s, u64B e with
    | some s, some e => let (l, b) := rsRemove a.set (s, e); ({ a with set := l }, s!"{boolStr b} {rsStr l}")
    | _, _ => (a, "bad-op")
  | ["rs_pop"] => match rsPopMin a.set with
    | (l, none) => ({ a with set := l }, s!"none {rsStr l}")
    | (l, some r) => ({ a with set := l }, s!"ok {r.1}-{r.2} {rsStr l}")
  | _ => (a, "bad-op")

end QM.Drv
