import QuinnModel.Wire.Frame
import QuinnModel.Util
/- Line-protocol front end for the frame model (must print exactly what verif/frame.rs prints). -/
namespace QM.Drv
open QM QM.Wire QM.Wire.Frame

/-- a `u64` in decimal (the Rust executor parses `u64`; anything else is `bad-op`) -/
def pU64 (s : String) : Option Nat :=
  if s.isEmpty ∨ !s.all Char.isDigit then none else
  match s.toNat? with
  | some n => if n < 2^64 then some n else none
  | none => none

def pDir : String → Option Bool
  | "bi" => some false
  | "uni" => some true
  | _ => none

def pPair (s : String) : Option (Nat × Nat) :=
  match s.splitOn ":" with
  | [a, b] => match pU64 a, pU64 b with
    | some a, some b => some (a, b)
    | _, _ => none
  | _ => none

def pBlocks (s : String) : Option (List (Nat × Nat)) :=
  if s == "-" then some [] else (s.splitOn ",").mapM pPair

def pEcn (s : String) : Option (Option (Nat × Nat × Nat)) :=
  if s == "-" then some none else
  match s.splitOn ":" with
  | [a, b, c] => match pU64 a, pU64 b, pU64 c with
    | some a, some b, some c => some (some (a, b, c))
    | _, _, _ => none
  | _ => none

/-- textual frame → model frame (`none` = bad-op) -/
def parseFrame : List String → Option Frame
  | ["padding"] => some .padding
  | ["ping"] => some .ping
  | ["immediate_ack"] => some .immediateAck
  | ["handshake_done"] => some .handshakeDone
  | ["ack", l, d, f, bl, ecn] => do
    let l ← pU64 l; let d ← pU64 d; let f ← pU64 f; let bl ← pBlocks bl; let ecn ← pEcn ecn
    pure (.ack l d f bl ecn)
  | ["reset_stream", id, c, fo] => do
    let id ← pU64 id; let c ← pU64 c; let fo ← pU64 fo
    pure (.resetStream id c fo)
  | ["stop_sending", id, c] => do
    let id ← pU64 id; let c ← pU64 c
    pure (.stopSending id c)
  | ["crypto", off, d] => do
    let off ← pU64 off; let d ← parseHex d
    pure (.crypto off d)
  | ["new_token", t] => do
    let t ← parseHex t
    pure (.newToken t)
  | ["stream", id, off, fin, d] => do
    let id ← pU64 id; let off ← pU64 off
    let fin ← (if fin == "0" then some false else if fin == "1" then some true else none)
    let d ← parseHex d
    pure (.stream id off fin d)
  | ["max_data", v] => do let v ← pU64 v; pure (.maxData v)
  | ["max_stream_data", id, off] => do let id ← pU64 id; let off ← pU64 off; pure (.maxStreamData id off)
  | ["max_streams", d, c] => do let d ← pDir d; let c ← pU64 c; pure (.maxStreams d c)
  | ["data_blocked", off] => do let off ← pU64 off; pure (.dataBlocked off)
  | ["stream_data_blocked", id, off] => do
    let id ← pU64 id; let off ← pU64 off; pure (.streamDataBlocked id off)
  | ["streams_blocked", d, c] => do let d ← pDir d; let c ← pU64 c; pure (.streamsBlocked d c)
  | ["new_cid", seq, retire, cid, tok] => do
    let seq ← pU64 seq; let retire ← pU64 retire; let cid ← parseHex cid; let tok ← parseHex tok
    if cid.length > Gen.wireMaxCidSize ∨ tok.length ≠ Gen.wireResetTokenSize then none else
    pure (.newConnectionId seq retire cid tok)
  | ["retire_cid", seq] => do let seq ← pU64 seq; pure (.retireConnectionId seq)
  | ["path_challenge", t] => do let t ← pU64 t; pure (.pathChallenge t)
  | ["path_response", t] => do let t ← pU64 t; pure (.pathResponse t)
  | ["close_conn", c, ty, reason] => do
    let c ← pU64 c
    let ty ← (if ty == "-" then some none else (pU64 ty).map some)
    let reason ← parseHex reason
    pure (.closeConn c ty reason)
  | ["close_app", c, reason] => do
    let c ← pU64 c; let reason ← parseHex reason
    pure (.closeApp c reason)
  | ["datagram", d] => do let d ← parseHex d; pure (.datagram d)
  | ["ack_frequency", s, t, d, r] => do
    let s ← pU64 s; let t ← pU64 t; let d ← pU64 d; let r ← pU64 r
    pure (.ackFrequency s t d r)
  | _ => none

/-- fields the Rust holds as `VarInt` / `TransportErrorCode`: building the frame value already fails
    (`err bounds`) when one of them is ≥ 2^62 -/
def varIntFieldsOk : Frame → Bool
  | .resetStream _ c fo => c < 2^62 ∧ fo < 2^62
  | .stopSending _ c => c < 2^62
  | .maxData v => v < 2^62
  | .closeConn c _ _ => c < 2^62
  | .closeApp c _ => c < 2^62
  | .ackFrequency s t d r => s < 2^62 ∧ t < 2^62 ∧ d < 2^62 ∧ r < 2^62
  | _ => true

/-- the ACK blocks denote ranges of `u64` packet numbers (what the executor needs to build the
    `ArrayRangeSet` given to `Ack::encode`) -/
def ackChainB : Nat → List (Nat × Nat) → Bool
  | _, [] => true
  | smallest, (gap, block) :: rest =>
    if gap + 2 + block ≤ smallest then ackChainB (smallest - (gap + 2) - block) rest else false

def illFormed : Frame → Bool
  | .ack largest _ first blocks _ =>
    !(largest + 1 < 2^64 ∧ first ≤ largest ∧ ackChainB (largest - first) blocks)
  | _ => false

/-- order of the executor's checks: fields are converted left to right, so the first offending
    field decides between `bad-op` (unparsable), `err bounds` and `err illformed`; parse errors of later
    fields are only seen when the earlier ones converted.  The generator never mixes the two kinds of
    defect in one request, and `parseFrame` has already rejected every unparsable field. -/
def encodeReq (withLen : Bool) (maxLen : Nat) (w : List String) : String :=
  match parseFrame w with
  | none => "bad-op"
  | some f =>
    if !varIntFieldsOk f then "err bounds"
    else if illFormed f then "err illformed"
    else match encodeWith withLen maxLen f with
      | some e => s!"ok {toHex e}"
      | none => "panic"

def dirStr (uni : Bool) : String := if uni then "uni" else "bi"

def renderBlocks (bl : List (Nat × Nat)) : String :=
  if bl.isEmpty then "-" else ",".intercalate (bl.map fun (g, l) => s!"{g}:{l}")

def renderFrame : Frame → String
  | .padding => "padding"
  | .ping => "ping"
  | .immediateAck => "immediate_ack"
  | .handshakeDone => "handshake_done"
  | .ack l d f bl ecn =>
    let e := match ecn with
      | none => "-"
      | some (a, b, c) => s!"{a}:{b}:{c}"
    s!"ack {l} {d} {f} {renderBlocks bl} {e}"
  | .resetStream id c fo => s!"reset_stream {id} {c} {fo}"
  | .stopSending id c => s!"stop_sending {id} {c}"
  | .crypto off d => s!"crypto {off} {toHex d}"
  | .newToken t => s!"new_token {toHex t}"
  | .stream id off fin d => s!"stream {id} {off} {if fin then 1 else 0} {toHex d}"
  | .maxData v => s!"max_data {v}"
  | .maxStreamData id off => s!"max_stream_data {id} {off}"
  | .maxStreams d c => s!"max_streams {dirStr d} {c}"
  | .dataBlocked off => s!"data_blocked {off}"
  | .streamDataBlocked id off => s!"stream_data_blocked {id} {off}"
  | .streamsBlocked d c => s!"streams_blocked {dirStr d} {c}"
  | .newConnectionId s r cid tok => s!"new_cid {s} {r} {toHex cid} {toHex tok}"
  | .retireConnectionId s => s!"retire_cid {s}"
  | .pathChallenge t => s!"path_challenge {t}"
  | .pathResponse t => s!"path_response {t}"
  | .closeConn c ty reason =>
    let t := match ty with
      | none => "-"
      | some x => toString x
    s!"close_conn {c} {t} {toHex reason}"
  | .closeApp c reason => s!"close_app {c} {toHex reason}"
  | .datagram d => s!"datagram {toHex d}"
  | .ackFrequency s t d r => s!"ack_frequency {s} {t} {d} {r}"

def errKind : FrameErr → String
  | .unexpectedEnd => "end"
  | .invalidFrameId => "id"
  | .malformed => "malformed"
  | .panic => "PANIC"

/-- `Iter::next` once: result line and the remaining bytes (empty after an error: the Rust clears) -/
def nextLine (lastTy : Option Nat) (bs : Bytes) : String × Bytes × Bool × Option Nat :=
  match VarInt.decode bs with
  | none =>
    -- `last_ty` still holds the type of the previous frame
    let t := match lastTy with
      | none => "-"
      | some t => toString t
    (s!"err end {t}", [], false, lastTy)
  | some (ty, rest) =>
    match decodeBody ty rest with
    | .ok (f, r) => (renderFrame f, r, true, some ty)
    | .error .panic => ("panic", [], false, some ty)
    | .error e => (s!"err {errKind e} {ty}", [], false, some ty)

def iterLines : Nat → Option Nat → Bytes → Nat × List String
  | 0, _, _ => (0, [])
  | fuel + 1, lastTy, bs =>
    if bs.isEmpty then (0, []) else
    let (line, rest, ok, lt) := nextLine lastTy bs
    let (n, ls) := iterLines fuel lt rest
    (if ok then n + 1 else n, line :: ls)

def frame : List String → String
  | "enc" :: w => encodeReq true usizeMax w
  | "enclast" :: w => encodeReq false usizeMax w
  | "encclose" :: m :: w => match pU64 m with
    | some m => encodeReq true m w
    | none => "bad-op"
  | ["dec", h] => match parseHex h with
    | none => "bad-op"
    | some bs =>
      if bs.isEmpty then "err empty" else
      let (line, rest, ok, _) := nextLine none bs
      if ok then s!"ok {bs.length - rest.length} {line}" else line
  | ["iter", h] => match parseHex h with
    | none => "bad-op"
    | some bs =>
      if bs.isEmpty then "err empty" else
      let (n, ls) := iterLines bs.length none bs
      if ls.any (· == "panic") then "panic" else
      ls.foldl (fun acc l => acc ++ " ; " ++ l) s!"ok {n}"
  | _ => "bad-op"

end QM.Drv
