import QuinnModel.Wire.Ack
/- Line-protocol front end of component `ackscan` (prints exactly what connection/verif/ackscan.rs prints). -/
namespace QM.Drv
open QM QM.Ack

def iterErrStr : IterErr → String
  | .unexpectedEnd => "unexpected-end"
  | .malformed => "malformed"

def ackRangesStr (l : List (Nat × Nat)) : String :=
  if l.isEmpty then "-" else ",".intercalate (l.map (fun r => s!"{r.1}-{r.2}"))

def u64Arg (x : String) : Option Nat := match x.toNat? with
  | some n => if n < 2^64 then some n else none
  | none => none

def ackParseRange (x : String) : Option (Nat × Nat) :=
  match x.splitOn "-" with
  | [s, e] => match u64Arg s, u64Arg e with
    | some s, some e => some (s, e)
    | _, _ => none
  | _ => none

/-- ascending, non-empty, non-adjacent half-open ranges (what an `ArrayRangeSet` holds) or none -/
def parseRangeSet (x : String) : Option (List (Nat × Nat)) :=
  if x == "-" then some [] else
  let rec go (prevEnd : Option Nat) : List String → Option (List (Nat × Nat))
    | [] => some []
    | r :: t => match ackParseRange r with
      | none => none
      | some (s, e) =>
        if s ≥ e then none else
        if (match prevEnd with | some p => decide (p ≥ s) | none => false) then none else
        match go (some e) t with
        | some l => some ((s, e) :: l)
        | none => none
  go none (x.splitOn ",")

def parseEcn (x : String) : Option (Option (Nat × Nat × Nat)) :=
  if x == "none" then some none else
  match x.splitOn "," with
  | [a, b, c] => match u64Arg a, u64Arg b, u64Arg c with
    | some a, some b, some c => some (some (a, b, c))
    | _, _, _ => none
  | _ => none

def ackscan : List String → String
  | ["scan", largest, n, h] => match u64Arg largest, u64Arg n, parseHex h with
    | some largest, some n, some b => match scanAckBlocks b largest n with
      | .ok k => s!"ok {k}"
      | .error e => s!"err {iterErrStr e}"
    | _, _, _ => "bad-op"
  | ["iter", largest, h] => match u64Arg largest, parseHex h with
    | some largest, some b => match iterAll (b.length + 1) largest b with
      | some l => s!"ok {ackRangesStr l}"
      | none => "panic"
    | _, _ => "bad-op"
  | ["dec", h] => match parseHex h with
    | some (ty :: rest) =>
      if ty ≠ Gen.frameTypeAck ∧ ty ≠ Gen.frameTypeAckEcn then "bad-op" else
      match decodeAck (ty :: rest) with
      | none => "bad-op"
      | some (.error e) => s!"err {iterErrStr e}"
      | some (.ok (f, remaining)) =>
        let ecn := match f.ecn with | none => "none" | some (a, b, c) => s!"{a},{b},{c}"
        match f.ranges with
        | some l => s!"ok {f.largest} {f.delay} {ecn} {ackRangesStr l} {remaining.length}"
        | none => "panic"
    | _ => "bad-op"
  | ["enc", delay, ecn, rs] => match u64Arg delay, parseEcn ecn, parseRangeSet rs with
    | some delay, some ecn, some rs =>
      if rs.length > 256 then "bad-op" else
      match Ack.encode delay rs ecn with
      | some b => s!"ok {toHex b}"
      | none => "panic"
    | _, _, _ => "bad-op"
  | _ => "bad-op"

end QM.Drv
