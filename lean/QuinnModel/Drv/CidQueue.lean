import QuinnModel.Data.CidQueue
/- Line-protocol front end of component `cidq` (must print exactly what connection/verif/cidq.rs prints). -/
namespace QM.Drv
open QM QM.CidQueue

def cidqSlot : Option Entry → String
  | none => "_"
  | some e => toHex e.cid ++ ":" ++ (match e.token with | none => "none" | some t => toHex t)

def cidqState (q : CidQueue) : String :=
  s!"{q.cursor} {q.offset}" ++ String.join (q.buffer.toList.map (fun e => " " ++ cidqSlot e))

def cidqPending (p : List Nat) : String :=
  "[" ++ ",".intercalate (p.map toString) ++ "]"

def errName (code : Nat) : String :=
  if code = Gen.codeProtocolViolation then "PROTOCOL_VIOLATION"
  else if code = Gen.codeConnectionIdLimitError then "CONNECTION_ID_LIMIT_ERROR"
  else if code = Gen.codeFrameEncodingError then "FRAME_ENCODING_ERROR"
  else s!"code{code}"

def maxCidSize : Nat := 20
def resetTokenSize : Nat := 16

def cidqArgs (seq rpt c t : String) : Option (Nat × Nat × Bytes × Bytes) :=
  match seq.toNat?, rpt.toNat?, parseHex c, parseHex t with
  | some seq, some rpt, some c, some t =>
    if seq < 2^64 ∧ rpt < 2^64 ∧ c.length ≤ maxCidSize ∧ t.length = resetTokenSize then some (seq, rpt, c, t) else none
  | _, _, _, _ => none

def cidq (s : Handler) : List String → Handler × String
  | ["new", c] => match parseHex c with
    | some c => if c.length ≤ maxCidSize then
        let q := CidQueue.new c
        ({ s with q := q, pending := [] }, s!"ok {cidqState q}")
      else (s, "bad-op")
    | none => (s, "bad-op")
  | ["side", "0"] => ({ s with server := false }, "ok")
  | ["side", "1"] => ({ s with server := true }, "ok")
  | ["insert", seq, rpt, c, t] => match cidqArgs seq rpt c t with
    | some (seq, rpt, c, t) =>
      match CidQueue.insert s.q seq rpt c t with
      | (_, .panic) => (s, "panic")
      | (q, .none) => ({ s with q := q }, s!"ok none {cidqState q}")
      | (q, .retired a b tok) => ({ s with q := q }, s!"ok {a} {b} {toHex tok} {cidqState q}")
      | (q, .errRetired) => ({ s with q := q }, s!"err retired {cidqState q}")
      | (q, .errLimit) => ({ s with q := q }, s!"err limit {cidqState q}")
    | none => (s, "bad-op")
  | ["next"] => match CidQueue.next s.q with
    | (_, .panic) => (s, "panic")
    | (q, .none) => ({ s with q := q }, s!"none {cidqState q}")
    | (q, .ok tok a b) => ({ s with q := q }, s!"ok {toHex tok} {a} {b} {cidqState q}")
  | ["active"] => match CidQueue.active s.q with
    | some c => (s, s!"ok {toHex c} {CidQueue.activeSeq s.q}")
    | none => (s, "panic")
  | ["upd", c] => match parseHex c with
    | some c => if c.length ≤ maxCidSize then
        match CidQueue.updateInitialCid s.q c with
        | some q => ({ s with q := q }, s!"ok {cidqState q}")
        | none => (s, "panic")
      else (s, "bad-op")
    | none => (s, "bad-op")
  | ["frame", seq, rpt, c, t] => match cidqArgs seq rpt c t with
    | some (seq, rpt, c, t) =>
      match onNewConnectionId s seq rpt c t with
      | (_, .panic) => (s, "panic")
      | (s', .ok) => (s', s!"ok {cidqPending s'.pending} {cidqState s'.q}")
      | (s', .discarded) => (s', s!"ok discarded {cidqPending s'.pending} {cidqState s'.q}")
      | (s', .err code site) =>
        let why := if site = 0 then "cids-not-in-use" else if site = 1 then "retiring-unissued"
          else if site = 2 ∨ site = 4 then s!"too-many-retired {cidqPending s'.pending} {cidqState s'.q}"
          else s!"limit {cidqPending s'.pending} {cidqState s'.q}"
        (s', s!"err {errName code} {why}")
    | none => (s, "bad-op")
  | ["sent", k] => match k.toNat? with
    | some k => if k > 64 then (s, "bad-op") else
      let s' := CidQueue.sent s k
      (s', s!"ok {cidqPending s'.pending}")
    | none => (s, "bad-op")
  | _ => (s, "bad-op")

def cidqInit : Handler := ⟨CidQueue.new [0], [], false⟩

end QM.Drv
