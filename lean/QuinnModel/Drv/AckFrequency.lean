import QuinnModel.Conn.AckFrequency
import QuinnModel.Drv.CidQueue
/- Line-protocol front end of component `ackfreq` (prints exactly what connection/verif/ackfreq.rs prints). -/
namespace QM.Drv
open QM QM.AckFrequency

structure AckFreqSt where
  s : State
  e : Env
deriving Repr

/-- `TransportParameters::default().max_ack_delay` = 25 ms; `PendingAcks::new` thresholds (1, 1) -/
def ackfreqInit : AckFreqSt := ⟨AckFrequency.new 25000000, ⟨none, none, (1, 1)⟩⟩

def optNat : Option Nat → String
  | none => "none"
  | some n => toString n

def ackfreqState (a : AckFreqSt) : String :=
  let inf := match a.s.inFlight with | none => "none" | some (pn, d) => s!"{pn}:{d}"
  s!"inflight={inf} next={a.s.nextSeq} peer_mad={a.s.peerMaxAckDelay} last={optNat a.s.lastFrame} mad={a.s.maxAckDelay} thr={a.e.thresholds.1},{a.e.thresholds.2}"

def dmax : Nat := 2^62

def durArg (x : String) : Option Nat := match x.toNat? with
  | some n => if n < dmax then some n else none
  | none => none

/-- "none" or a value accepted by `p` -/
def optArg (p : String → Option Nat) (x : String) : Option (Option Nat) :=
  if x == "none" then some none else (p x).map some

def ackfreq (a : AckFreqSt) : List String → AckFreqSt × String
  | ["new", d] => match durArg d with
    | some d => let a' : AckFreqSt := ⟨AckFrequency.new d, ⟨none, none, (1, 1)⟩⟩; (a', s!"ok {ackfreqState a'}")
    | none => (a, "bad-op")
  | ["peer", maxMs, minUs] => match durArg maxMs, optArg durArg minUs with
    | some maxMs, some minUs =>
      match setPeerParams a.s a.e maxMs minUs with
      | none => (a, "err TRANSPORT_PARAMETER_ERROR")
      | some (s, e) => let a' : AckFreqSt := ⟨s, e⟩; (a', s!"ok {ackfreqState a'}")
    | _, _ => (a, "bad-op")
  | ["cfg", d] => match optArg durArg d with
    | some d => ({ a with e := { a.e with cfgMaxAckDelay := d } }, "ok")
    | none => (a, "bad-op")
  | ["cand", rtt] => match durArg rtt with
    | some rtt => match candidateMaxAckDelay a.s rtt a.e.cfgMaxAckDelay a.e.peerMinAckDelay with
      | some d => (a, s!"ok {d}")
      | none => (a, "panic")
    | none => (a, "bad-op")
  | ["should", rtt] => match durArg rtt with
    | some rtt => match shouldSendAckFrequency rttErrorExceeds a.s rtt a.e.cfgMaxAckDelay a.e.peerMinAckDelay with
      | some b => (a, boolStr b)
      | none => (a, "panic")
    | none => (a, "bad-op")
  | ["nextseq"] => match nextSequenceNumber a.s with
    | some (s, v) => let a' := { a with s := s }; (a', s!"ok {v} {ackfreqState a'}")
    | none => (a, "panic")
  | ["sent", pn, d] => match pn.toNat?, durArg d with
    | some pn, some d => if pn ≥ 2^64 then (a, "bad-op") else
      let a' := { a with s := ackFrequencySent a.s pn d }; (a', s!"ok {ackfreqState a'}")
    | _, _ => (a, "bad-op")
  | ["acked", pn] => match pn.toNat? with
    | some pn => if pn ≥ 2^64 then (a, "bad-op") else
      let a' := { a with s := onAcked a.s pn }; (a', s!"ok {ackfreqState a'}")
    | none => (a, "bad-op")
  | ["pto"] => (a, s!"ok {maxAckDelayForPto a.s}")
  | ["recv", seq, aet, req, reord] => match durArg seq, durArg aet, durArg req, durArg reord with
    | some seq, some aet, some req, some reord =>
      match ackFrequencyReceived a.s a.e.thresholds seq aet req reord with
      | (s, thr, .ok b) => let a' : AckFreqSt := ⟨s, { a.e with thresholds := thr }⟩; (a', s!"ok {boolStr b} {ackfreqState a'}")
      | (s, thr, .err code) => let a' : AckFreqSt := ⟨s, { a.e with thresholds := thr }⟩; (a', s!"err {errName code} {ackfreqState a'}")
    | _, _, _, _ => (a, "bad-op")
  | _ => (a, "bad-op")

end QM.Drv
