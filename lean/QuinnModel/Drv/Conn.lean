import QuinnModel.Conn.Amplification
import QuinnModel.Conn.Lifecycle
import QuinnModel.Conn.Timers
import QuinnModel.Conn.Path
import QuinnModel.Conn.LossTimer
import QuinnModel.Util
/- Trace-validation front ends for the Connection-level skeleton models (stateless: each request
   carries the observed before-state; the model prints the after-state it predicts). -/
namespace QM.Drv
open QM

def connB01 (b : Bool) : String := if b then "1" else "0"

def connNatList (ws : List String) : Option (List Nat) := ws.mapM String.toNat?

def ampVerdict (validated hs pr : Bool) : String :=
  match Amp.rxVerdict validated hs pr with
  | some true => "1"
  | some false => "0"
  | none => "V"

def amp : List String → String
  | ["new", tok] =>
    -- a connection is born validated exactly when its first Initial carried a token the endpoint issued
    match tok.toNat? with
    | some tok =>
      let p := if tok == 1 then Amp.step ⟨false, 0, 0⟩ .tokenValidated else ⟨false, 0, 0⟩
      s!"{connB01 p.validated} {p.sent}"
    | none => "bad-op"
  | ["rx", len, mig, vb, sb, rb, hs, pr] =>
    match len.toNat?, mig.toNat?, vb.toNat?, sb.toNat?, rb.toNat?, hs.toNat?, pr.toNat? with
    | some len, some mig, some vb, some sb, some rb, some hs, some pr =>
      let p : Amp.Path := ⟨vb == 1, sb, rb⟩
      let p' := if mig == 1 then Amp.step p (.migrate len) else Amp.step p (.recv len)
      -- validation is PREDICTED from the harness-derived causes
      let v := if mig == 1 then "0" else ampVerdict (vb == 1) (hs == 1) (pr == 1)
      s!"{v} {p'.sent} {p'.recvd}"
    | _, _, _, _, _, _, _ => "bad-op"
  | ["foreign", len, _mig, vb, sb, rb, hs, pr] =>
    match len.toNat?, vb.toNat?, sb.toNat?, rb.toNat?, hs.toNat?, pr.toNat? with
    | some len, some vb, some sb, some rb, some hs, some pr =>
      let p' := Amp.step ⟨vb == 1, sb, rb⟩ (.foreign len)
      let v := ampVerdict (vb == 1) (hs == 1) (pr == 1)
      s!"{v} {p'.sent} {p'.recvd}"
    | _, _, _, _, _, _ => "bad-op"
  | "tx" :: seg :: vb :: sb :: rb :: n :: sizes =>
    match seg.toNat?, vb.toNat?, sb.toNat?, rb.toNat?, n.toNat?, connNatList sizes with
    | some seg, some vb, some sb, some rb, some n, some sizes =>
      if sizes.length ≠ n then "bad-op" else
      let p : Amp.Path := ⟨vb == 1, sb, rb⟩
      let em := Amp.emit p seg 0 sizes
      let p' := Amp.step p (.poll seg sizes)
      s!"{connB01 p'.validated} {p'.sent} {p'.recvd} {em.length}"
    | _, _, _, _, _, _ => "bad-op"
  | _ => "bad-op"

def connOptNat (s : String) : Option (Option Nat) :=
  if s == "-" then some none else (s.toNat?).map some

def connLifeParse : List String → Option Life.L
  | [st, err, cf, ct, it] =>
    match st.toNat?, err.toNat?, cf.toNat?, connOptNat ct, connOptNat it with
    | some st, some err, some cf, some ct, some it =>
      let st := match st with
        | 0 => Life.St.handshake | 1 => Life.St.established | 2 => Life.St.closed
        | 3 => Life.St.draining | _ => Life.St.drained
      some ⟨st, err == 1, cf == 1, ct, it, 0, 0, false⟩
    | _, _, _, _, _ => none
  | _ => none

def connLifeShow (l : Life.L) : String :=
  let st := match l.st with
    | .handshake => 0 | .established => 1 | .closed => 2 | .draining => 3 | .drained => 4
  let o := fun (x : Option Nat) => match x with | some n => toString n | none => "-"
  s!"{st} {connB01 l.error} {connB01 l.closeFlag} {o l.closeTimer} {o l.idleTimer}"

/-- `life <event …> <before-state>` prints the after-state predicted by `Life.step` -/
def life : List String → String
  | "close" :: now :: pto3 :: st =>
    match now.toNat?, pto3.toNat?, connLifeParse st with
    | some now, some pto3, some l => connLifeShow (Life.step l (.close now pto3))
    | _, _, _ => "bad-op"
  | "timeout" :: now :: st =>
    match now.toNat?, connLifeParse st with
    | some now, some l => connLifeShow (Life.step l (.timeout now))
    | _, _ => "bad-op"
  | "peerclose" :: now :: pto3 :: st =>
    match now.toNat?, pto3.toNat?, connLifeParse st with
    | some now, some pto3, some l => connLifeShow (Life.step l (.peerClose now pto3))
    | _, _, _ => "bad-op"
  | "peercloseearly" :: now :: pto3 :: st =>
    match now.toNat?, pto3.toNat?, connLifeParse st with
    | some now, some pto3, some l => connLifeShow (Life.step l (.peerCloseEarly now pto3))
    | _, _, _ => "bad-op"
  | "pkterr" :: kind :: now :: pto3 :: same :: st =>
    match now.toNat?, pto3.toNat?, same.toNat?, connLifeParse st with
    | some now, some pto3, some same, some l =>
      let k := if kind == "drained" then Life.PktErr.toDrained else if kind == "closed" then Life.PktErr.toClosed else Life.PktErr.toDraining
      connLifeShow (Life.step l (.pktErr k now pto3 (same == 1)))
    | _, _, _, _ => "bad-op"
  | "closeframe" :: st =>
    match connLifeParse st with
    | some l => connLifeShow (Life.step l .closeFrameWhileClosed)
    | none => "bad-op"
  | "authed" :: now :: idle :: st =>
    match now.toNat?, idle.toNat?, connLifeParse st with
    | some now, some idle, some l => connLifeShow (Life.step l (.authed now idle))
    | _, _, _ => "bad-op"
  | _ => "bad-op"

/-- `timers next <now> <t0> … <t8>` prints `next_timeout` and the indices that are expired at `now` -/
def timers : List String → String
  | "next" :: now :: tbl =>
    match now.toNat?, tbl.mapM connOptNat with
    | some now, some t =>
      if t.length ≠ Gen.timerCount then "bad-op" else
      let o := fun (x : Option Nat) => match x with | some n => toString n | none => "-"
      let ex := (Timers.expired t now).map toString
      s!"{o (Timers.nextTimeout t)} [{",".intercalate ex}]"
    | _, _ => "bad-op"
  | _ => "bad-op"

/-- path state encoding: `<addr> <validated> <challengeSome> <pending> <prev: - | addr:v:ch:pd> <timer: - | t> <mayMigrate>` -/
def pathParse : List String → Option PathM.S
  | [a, v, c, pd, prev, timer, mm] =>
    let mkP := fun (a v c pd : Nat) (tok : Nat) => (⟨a, v == 1, if c == 1 then some tok else none, pd == 1⟩ : PathM.P)
    match a.toNat?, v.toNat?, c.toNat?, pd.toNat?, connOptNat timer, mm.toNat? with
    | some a, some v, some c, some pd, some timer, some mm =>
      let prev? : Option (Option PathM.P) :=
        if prev == "-" then some none else
        match (prev.splitOn ":").mapM String.toNat? with
        | some [pa, pv, pc, ppd] => some (some (mkP pa pv pc ppd 2))
        | _ => none
      match prev? with
      | some pr => some ⟨mkP a v c pd 1, pr, timer, mm == 1⟩
      | none => none
    | _, _, _, _, _, _ => none
  | _ => none

def pathShow (s : PathM.S) : String :=
  let sp := fun (p : PathM.P) (sep : String) => s!"{p.addr}{sep}{connB01 p.validated}{sep}{connB01 p.challenge.isSome}{sep}{connB01 p.pending}"
  let pr := match s.prev with | some p => sp p ":" | none => "-"
  let o := fun (x : Option Nat) => match x with | some n => toString n | none => "-"
  s!"{sp s.path " "} {pr} {o s.timer} {connB01 s.mayMigrate}"

/-- `pathm <event …> <before-state>`: prints the after-state predicted by `PathM.step`.
    Tokens are abstract: the current path's challenge is token 1, the previous path's token 2; a response is
    `match` (echoes the current challenge) or `nomatch`. -/
def pathm : List String → String
  | "pkt" :: src :: trig :: now :: ptoNew :: ptoOld :: st =>
    match src.toNat?, trig.toNat?, now.toNat?, ptoNew.toNat?, ptoOld.toNat?, pathParse st with
    | some src, some trig, some now, some ptoNew, some ptoOld, some s => pathShow (PathM.step s (.pkt src (trig == 1) now ptoNew ptoOld 1 2))
    | _, _, _, _, _, _ => "bad-op"
  | "response" :: src :: m :: st =>
    match src.toNat?, pathParse st with
    | some src, some s => pathShow (PathM.step s (.response src (if m == "match" then 1 else 99)))
    | _, _ => "bad-op"
  | "timeout" :: now :: st =>
    match now.toNat?, pathParse st with
    | some now, some s => pathShow (PathM.step s (.timeout now))
    | _, _ => "bad-op"
  | _ => "bad-op"

/-- `lossd <closed> <handshaking> <ampBlocked> <ackElicitingInFlight> <peerCompleted> <hif0> <la0> <hif1> <la1> <hif2> <la2>`
    (flags 0/1; `la` = time_of_last_ack_eliciting_packet is set): prints whether the model requires the
    loss-detection timer to be armed (no loss_time pending): `1` = must be armed -/
def lossd : List String → String
  | [c, h, a, ae, pc, h0, l0, h1, l1, h2, l2] =>
    match [c, h, a, ae, pc, h0, l0, h1, l1, h2, l2].mapM String.toNat? with
    | some [c, h, a, ae, pc, h0, l0, h1, l1, h2, l2] =>
      let sp := fun (hf la : Nat) => (⟨hf == 1, if la == 1 then some 0 else none, none⟩ : LossTimer.SpaceL)
      let s : LossTimer.S := ⟨c == 1, h == 1, a == 1, ae, pc == 1, 0, 1, 0, false, sp h0 l0, sp h1 l1, sp h2 l2⟩
      connB01 (LossTimer.setTimer s 0 none).isSome
    | _ => "bad-op"
  | _ => "bad-op"

end QM.Drv
