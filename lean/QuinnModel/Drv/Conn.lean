import QuinnModel.Conn.Amplification
import QuinnModel.Util
/- Trace-validation front ends for the Connection-level skeleton models (stateless: each request
   carries the observed before-state; the model prints the after-state it predicts). -/
namespace QM.Drv
open QM

def b01 (b : Bool) : String := if b then "1" else "0"

def natList (ws : List String) : Option (List Nat) := ws.mapM String.toNat?

def amp : List String → String
  | ["rx", len, mig, vb, sb, rb] =>
    match len.toNat?, mig.toNat?, vb.toNat?, sb.toNat?, rb.toNat? with
    | some len, some mig, some vb, some sb, some rb =>
      let p : Amp.Path := ⟨vb == 1, sb, rb⟩
      let p' := if mig == 1 then Amp.step p (.migrate len) else Amp.step p (.recv len)
      -- validation is an observed event (handshake packet / token / PATH_RESPONSE processed)
      let v := if mig == 1 then "0" else if vb == 1 then "1" else "V"
      s!"{v} {p'.sent} {p'.recvd}"
    | _, _, _, _, _ => "bad-op"
  | ["foreign", len, _mig, vb, sb, rb] =>
    match len.toNat?, vb.toNat?, sb.toNat?, rb.toNat? with
    | some len, some vb, some sb, some rb =>
      let p' := Amp.step ⟨vb == 1, sb, rb⟩ (.foreign len)
      let v := if vb == 1 then "1" else "V"
      s!"{v} {p'.sent} {p'.recvd}"
    | _, _, _, _ => "bad-op"
  | "tx" :: seg :: vb :: sb :: rb :: n :: sizes =>
    match seg.toNat?, vb.toNat?, sb.toNat?, rb.toNat?, n.toNat?, natList sizes with
    | some seg, some vb, some sb, some rb, some n, some sizes =>
      if sizes.length ≠ n then "bad-op" else
      let p : Amp.Path := ⟨vb == 1, sb, rb⟩
      let em := Amp.emit p seg 0 sizes
      let p' := Amp.step p (.poll seg sizes)
      s!"{b01 p'.validated} {p'.sent} {p'.recvd} {em.length}"
    | _, _, _, _, _, _ => "bad-op"
  | _ => "bad-op"

end QM.Drv
