import QuinnModel.Wire.TransportParams
import QuinnModel.Drv.Frame
/- Line-protocol front end for the transport-parameter model (prints exactly what verif/tparams.rs prints). -/
namespace QM.Drv
open QM QM.Wire QM.Wire.TP

/-- a `VarInt` in decimal -/
def pVar (s : String) : Option Nat :=
  match pU64 s with
  | some n => if n < 2^62 then some n else none
  | none => none

def pFlag : String → Option Bool
  | "0" => some false
  | "1" => some true
  | _ => none

def pOpt {α} (f : String → Option α) (s : String) : Option (Option α) :=
  if s == "none" then some none else (f s).map some

def pCid (s : String) : Option Bytes :=
  match parseHex s with
  | some b => if b.length > Gen.wireMaxCidSize then none else some b
  | none => none

def pToken (s : String) : Option Bytes :=
  match parseHex s with
  | some b => if b.length = Gen.wireResetTokenSize then some b else none
  | none => none

def pAddr (n : Nat) (s : String) : Option (Bytes × Nat) :=
  match s.splitOn "/" with
  | [ip, port] =>
    match parseHex ip, pU64 port with
    | some ip, some port => if ip.length = n ∧ port < 65536 then some (ip, port) else none
    | _, _ => none
  | _ => none

def pPreferred (s : String) : Option PreferredAddress :=
  match s.splitOn "," with
  | [v4, v6, c, t] =>
    match pOpt (pAddr 4) v4, pOpt (pAddr 16) v6, pCid c, pToken t with
    | some v4, some v6, some c, some t => some { v4 := v4, v6 := v6, cid := c, token := t }
    | _, _, _, _ => none
  | _ => none

def parseTP : List String → Option TP
  | [a0, a1, a2, a3, a4, a5, a6, a7, a8, a9, a10, dam, mdfs, iscid, gqb, mad, odcid, rscid, srt, pa] => do
    let a0 ← pVar a0; let a1 ← pVar a1; let a2 ← pVar a2; let a3 ← pVar a3; let a4 ← pVar a4
    let a5 ← pVar a5; let a6 ← pVar a6; let a7 ← pVar a7; let a8 ← pVar a8; let a9 ← pVar a9
    let a10 ← pVar a10
    let dam ← pFlag dam
    let mdfs ← pOpt pVar mdfs
    let iscid ← pOpt pCid iscid
    let gqb ← pFlag gqb
    let mad ← pOpt pVar mad
    let odcid ← pOpt pCid odcid
    let rscid ← pOpt pCid rscid
    let srt ← pOpt pToken srt
    let pa ← pOpt pPreferred pa
    pure {
      maxIdleTimeout := a0, maxUdpPayloadSize := a1, initialMaxData := a2,
      initialMaxStreamDataBidiLocal := a3, initialMaxStreamDataBidiRemote := a4,
      initialMaxStreamDataUni := a5, initialMaxStreamsBidi := a6, initialMaxStreamsUni := a7,
      ackDelayExponent := a8, maxAckDelay := a9, activeConnectionIdLimit := a10,
      disableActiveMigration := dam, maxDatagramFrameSize := mdfs, initialSrcCid := iscid,
      greaseQuicBit := gqb, minAckDelay := mad, originalDstCid := odcid, retrySrcCid := rscid,
      statelessResetToken := srt, preferredAddress := pa }
  | _ => none

def pOrder (s : String) : Option (List Nat) :=
  if s == "-" then some canonicalOrder else
  match (s.splitOn ",").mapM (fun x => match pU64 x with
      | some n => if n < 256 then some n else none
      | none => none) with
  | some l => if l.length = Gen.tpSupportedLen then some l else none
  | none => none

def pGrease (s : String) : Option (Option (Nat × Bytes)) :=
  if s == "-" then some none else
  match s.splitOn ":" with
  | [id, payload] =>
    match pVar id, parseHex payload with
    | some id, some payload => if payload.length > Gen.tpReservedMaxPayload then none else some (some (id, payload))
    | _, _ => none
  | _ => none

def rOpt {α} (f : α → String) : Option α → String
  | none => "none"
  | some x => f x

def rFlag (b : Bool) : String := if b then "1" else "0"

def rAddr (a : Bytes × Nat) : String := s!"{toHex a.1}/{a.2}"

def renderTP (p : TP) : String :=
  let pa := rOpt (fun (x : PreferredAddress) =>
    s!"{rOpt rAddr x.v4},{rOpt rAddr x.v6},{toHex x.cid},{toHex x.token}") p.preferredAddress
  " ".intercalate [
    toString p.maxIdleTimeout, toString p.maxUdpPayloadSize, toString p.initialMaxData,
    toString p.initialMaxStreamDataBidiLocal, toString p.initialMaxStreamDataBidiRemote,
    toString p.initialMaxStreamDataUni, toString p.initialMaxStreamsBidi, toString p.initialMaxStreamsUni,
    toString p.ackDelayExponent, toString p.maxAckDelay, toString p.activeConnectionIdLimit,
    rFlag p.disableActiveMigration, rOpt toString p.maxDatagramFrameSize, rOpt toHex p.initialSrcCid,
    rFlag p.greaseQuicBit, rOpt toString p.minAckDelay, rOpt toHex p.originalDstCid,
    rOpt toHex p.retrySrcCid, rOpt toHex p.statelessResetToken, pa]

def tparams : List String → String
  | "write" :: order :: grease :: fields =>
    match parseTP fields, pOrder order, pGrease grease with
    | some p, some order, some grease =>
      match write p grease order with
      | some e => s!"ok {toHex e}"
      | none => "panic"
    | _, _, _ => "bad-op"
  | ["read", side, h] =>
    match (if side == "client" then some false else if side == "server" then some true else none), parseHex h with
    | some isServer, some bs =>
      match read isServer bs with
      | .ok p => s!"ok {renderTP p}"
      | .error .malformed => "err malformed"
      | .error .illegalValue => "err illegal"
      | .error .panic => "panic"
      | .error .outOfFuel => "out-of-fuel"
    | _, _ => "bad-op"
  | _ => "bad-op"

end QM.Drv
