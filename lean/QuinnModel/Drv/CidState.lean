import QuinnModel.Conn.CidState
import QuinnModel.Drv.CidQueue
/- Line-protocol front end of component `cidstate` (prints exactly what connection/verif/cidstate.rs prints). -/
namespace QM.Drv
open QM QM.CidState

def natList (l : List Nat) : String := "[" ++ ",".intercalate (l.map toString) ++ "]"

def cidStateStr (s : State) : String :=
  let ts := ",".intercalate (s.retireTimestamp.map (fun t => s!"{t.sequence}@{t.timestamp}"))
  s!"issued={s.issued} prev={s.prevRetireSeq} retire={s.retireSeq} active={natList (s.activeSeq.mergeSort (· ≤ ·))} ts=[{ts}]"

def tmax : Nat := 2^62

def parseSeqs (s : String) : Option (List Nat) :=
  if s == "-" then some [] else
  (s.splitOn ",").foldr (fun x acc => match x.toNat?, acc with
    | some n, some l => if n ≤ 100000 then some (n :: l) else none
    | _, _ => none) (some [])

def cidstateInit : State := ⟨[], 1, [0], 0, 0, 8, none⟩

def cidstate (s : State) : List String → State × String
  | ["new", cidLen, lifetime, now, issued] =>
    match cidLen.toNat?, now.toNat?, issued.toNat? with
    | some cidLen, some now, some issued =>
      let lt : Option (Option Nat) := if lifetime == "none" then some none else
        match lifetime.toNat? with
        | some l => if l < tmax then some (some l) else none
        | none => none
      match lt with
      | none => (s, "bad-op")
      | some lt =>
        if cidLen > 20 ∨ now ≥ tmax ∨ issued > 64 then (s, "bad-op") else
        match CidState.new cidLen lt now issued with
        | some s' => (s', s!"ok {cidStateStr s'}")
        | none => (s, "panic")
    | _, _, _ => (s, "bad-op")
  | ["retire", seq, limit] =>
    match seq.toNat?, limit.toNat? with
    | some seq, some limit =>
      if seq ≥ 2^64 ∨ limit ≥ 2^64 then (s, "bad-op") else
      match onCidRetirement s seq limit with
      | (s', .ok b) => (s', s!"ok {boolStr b} {cidStateStr s'}")
      | (s', .err code site) =>
        let why := if site = 0 then "not-in-use" else "unissued"
        (s', s!"err {errName code} {why} {cidStateStr s'}")
    | _, _ => (s, "bad-op")
  | ["timeout"] =>
    match onCidTimeout s with
    | some (s', b) => (s', s!"{boolStr b} {cidStateStr s'}")
    | none => (s, "panic")
  | ["newcids", now, seqs] =>
    match now.toNat?, parseSeqs seqs with
    | some now, some ids =>
      if now ≥ tmax ∨ ids.length > 64 then (s, "bad-op") else
      match newCids s ids now with
      | some s' => (s', s!"ok {cidStateStr s'}")
      | none => (s, "panic")
    | _, _ => (s, "bad-op")
  | ["next_timeout"] =>
    match nextTimeout s with
    | none => (s, "none")
    | some t => (s, s!"ok {t}")
  | ["rpt"] => (s, s!"ok {retirePriorTo s}")
  | _ => (s, "bad-op")

end QM.Drv
