import QuinnModel.Streams.State
/- Line-protocol front end for the `streams` component: prints exactly what
   quinn-proto/src/connection/verif/streams.rs prints. -/
namespace QM.Drv
open QM QM.Streams

namespace StreamsFmt

def b01 (b : Bool) : String := if b then "1" else "0"
def two (t : Two Nat) : String := s!"{t.bi},{t.uni}"
def twob (t : Two Bool) : String := s!"{b01 t.bi},{b01 t.uni}"
def commas (l : List String) : String := ",".intercalate l
def ranges (r : RangeSet) : String := "[" ++ commas (r.map fun (a, b) => s!"{a}-{b}") ++ "]"

def ev : Event → String
  | .opened d => s!"O.{d.toNat}"
  | .readable id => s!"R.{id}"
  | .writable id => s!"W.{id}"
  | .finished id => s!"F.{id}"
  | .stopped id c => s!"S.{id}.{c}"
  | .available d => s!"A.{d.toNat}"

def sendStr (id : Nat) (x : Send) : String :=
  let st := match x.state with
    | .ready => "R"
    | .dataSent false => "D0"
    | .dataSent true => "D1"
    | .resetSent => "X"
  let sr := match x.stopReason with
    | none => "-"
    | some c => toString c
  s!" S{id}[st={st} md={x.maxData} off={x.pending.offset} ul={x.pending.unackedLen} us={x.pending.unsent} ak={ranges x.pending.acks} rt={ranges x.pending.retransmits} fp={b01 x.finPending} cb={b01 x.connectionBlocked} sr={sr} pr={x.priority}]"

def recvStr (id : Nat) (r : Recv) : String :=
  let st := match r.state with
    | .recv none => "r:-"
    | .recv (some n) => s!"r:{n}"
    | .resetRecvd n c => s!"x:{n}:{c}"
  s!" R{id}[st={st} sm={r.sentMaxStreamData} end={r.end_} br={r.assembler.bytesRead} sp={b01 r.stopped} buf={ranges r.assembler.buf}]"

def insertSorted : List Nat → Nat → List Nat := sortedInsert

def keys (s : State) : List Nat :=
  (s.send.map (·.1) ++ s.recv.map (·.1)).foldl insertSorted []

def streamsStr (s : State) : String :=
  String.join ((keys s).map fun id =>
    (match s.send.find? id with
     | some (some x) => sendStr id x
     | _ => "") ++
    (match s.recv.find? id with
     | some (some r) => recvStr id r
     | _ => ""))

def view (s : State) : String :=
  let pq := (match s.pending.next with
      | some p => [s!"n{p.id}/{p.priority}"]
      | none => []) ++
    (pqSorted s.pending.streams.length s.pending.streams).map fun p => s!"{p.id}/{p.priority}/{p.rc}"
  let r := s.rtx
  s!"ds={s.dataSent} md={s.maxData} ua={s.unackedData} sw={s.sendWindow} lmd={s.localMaxData} smd={s.sentMaxData} dr={s.dataRecvd} rw={s.receiveWindow} srw={s.streamReceiveWindow} debt={s.receiveWindowShrinkDebt} nx={two s.next} mx={two s.max} mr={two s.maxRemote} smr={two s.sentMaxRemote} arc={two s.allocatedRemoteCount} mcr={two s.maxConcurrentRemoteCount} fca={b01 s.flowControlAdjusted} nr={two s.nextRemote} nrr={two s.nextReportedRemote} op={twob s.opened} ss={s.sendStreams} sb={twob s.streamsBlocked}" ++
  s!" cb=[{commas (s.connectionBlocked.map toString)}] ev=[{commas (s.events.map ev)}] pq=[{commas pq}] rc={s.pending.rc} ns={s.send.length} nv={s.recv.length}" ++
  streamsStr s ++
  s!" | md={b01 r.maxData} msi={twob r.maxStreamId} sbl={twob r.streamsBlocked} rst=[{commas (r.resetStream.map fun (i, c) => s!"{i}.{c}")}] stop=[{commas (r.stopSending.map fun (i, c) => s!"{i}.{c}")}] msd=[{commas (r.maxStreamData.map toString)}] closed={b01 s.connClosed}"

def terr (e : TErr) : String :=
  let (code, reason) : String × String := match e with
    | .flowControl r => ("FLOW_CONTROL_ERROR", r)
    | .finalSize r => ("FINAL_SIZE_ERROR", r)
    | .streamLimit => ("STREAM_LIMIT_ERROR", "")
    | .streamState r => ("STREAM_STATE_ERROR", r)
    | .frameEncoding r => ("FRAME_ENCODING_ERROR", r)
  if reason.isEmpty then s!"err {code}" else s!"err {code} {reason.replace " " "_"}"

def out : Out → String
  | .ok => "ok"
  | .okNat n => s!"ok {n}"
  | .okOpt none => "ok -"
  | .okOpt (some n) => s!"ok {n}"
  | .okFlag b => s!"ok {b01 b}"
  | .none_ => "none"
  | .bool b => boolStr b
  | .errWrite .blocked => "err Blocked"
  | .errWrite (.stopped c) => s!"err Stopped {c}"
  | .errWrite .closedStream => "err ClosedStream"
  | .errClosed => "err ClosedStream"
  | .errT e => terr e
  | .event (.opened d) => s!"Opened {d.toNat}"
  | .event (.readable id) => s!"Readable {id}"
  | .event (.writable id) => s!"Writable {id}"
  | .event (.finished id) => s!"Finished {id}"
  | .event (.stopped id c) => s!"Stopped {id} {c}"
  | .event (.available d) => s!"Available {d.toNat}"
  | .read k e t =>
    let es := match e with
      | .more => "more"
      | .blocked => "blocked"
      | .fin => "fin"
      | .reset c => s!"reset:{c}"
    s!"ok {k} {es} {b01 t}"
  | .xmit len fs => s!"ok {len}" ++ String.join (fs.map fun f => s!" {f.id}:{f.start}:{f.end_}:{b01 f.fin}")
  | .ctrl fs => "ok" ++ String.join (fs.map fun
      | .resetStream id c fo => s!" RST.{id}.{c}.{fo}"
      | .stopSending id c => s!" STOP.{id}.{c}"
      | .maxData v => s!" MD.{v}"
      | .maxStreamData id v => s!" MSD.{id}.{v}"
      | .maxStreams d v => s!" MS.{d.toNat}.{v}"
      | .streamsBlocked d v => s!" SB.{d.toNat}.{v}")

end StreamsFmt

namespace StreamsParse

/-- a `VarInt` argument: `< 2^62` -/
def vi (s : String) : Option Nat := match s.toNat? with
  | some n => if n < 2 ^ 62 then some n else none
  | none => none

def u64 (s : String) : Option Nat := match s.toNat? with
  | some n => if n < 2 ^ 64 then some n else none
  | none => none

def dir : String → Option Dir
  | "bi" => some .bi
  | "uni" => some .uni
  | _ => none

def flag : String → Option Bool
  | "0" => some false
  | "1" => some true
  | _ => none

def i32 (s : String) : Option Int := match s.toInt? with
  | some n => if -2147483648 ≤ n ∧ n ≤ 2147483647 then some n else none
  | none => none

def maxRemote : Nat := 1024
def maxLen : Nat := 2 ^ 17

def le? (bound : Nat) (n : Option Nat) : Option Nat := match n with
  | some n => if n ≤ bound then some n else none
  | none => none

def op : List String → Option Op
  | ["new", side, mru, mrb, sw, rw, srw] =>
    match (match side with | "c" => some Side.client | "s" => some Side.server | _ => none),
          le? maxRemote (vi mru), le? maxRemote (vi mrb), u64 sw, vi rw, vi srw with
    | some side, some mru, some mrb, some sw, some rw, some srw =>
      some (.new ⟨side, mru, mrb, sw, rw, srw⟩)
    | _, _, _, _, _, _ => none
  | ["params", uni, bl, br, msb, msu, md] =>
    match vi uni, vi bl, vi br, vi msb, vi msu, vi md with
    | some uni, some bl, some br, some msb, some msu, some md => some (.params ⟨uni, bl, br, msb, msu, md⟩)
    | _, _, _, _, _, _ => none
  | ["conn", "open"] => some (.conn false)
  | ["conn", "closed"] => some (.conn true)
  | ["open", d] => (dir d).map .open_
  | ["accept", d] => (dir d).map .accept
  | ["write", id, n] => match vi id, le? maxLen (u64 n) with
    | some id, some n => some (.write id n)
    | _, _ => none
  | ["finish", id] => (vi id).map .finish
  | ["reset", id, c] => match vi id, vi c with
    | some id, some c => some (.reset id c)
    | _, _ => none
  | ["stopped", id] => (vi id).map .stopped
  | ["prio", id, p] => match vi id, i32 p with
    | some id, some p => some (.prio id p)
    | _, _ => none
  | ["stream", id, off, len, fin] => match vi id, vi off, le? maxLen (u64 len), flag fin with
    | some id, some off, some len, some fin => some (.stream id off len fin)
    | _, _, _, _ => none
  | ["rst", id, c, fo] => match vi id, vi c, vi fo with
    | some id, some c, some fo => some (.rst id c fo)
    | _, _, _ => none
  | ["stopsend", id, c] => match vi id, vi c with
    | some id, some c => some (.stopSending id c)
    | _, _ => none
  | ["maxdata", n] => (vi n).map .maxData
  | ["maxsd", id, n] => match vi id, vi n with
    | some id, some n => some (.maxStreamData id n)
    | _, _ => none
  | ["maxstreams", d, n] => match dir d, vi n with
    | some d, some n => some (.maxStreams d n)
    | _, _ => none
  | ["ack", id, a, e, fin] => match vi id, vi a, vi e, flag fin with
    | some id, some a, some e, some fin => if a ≤ e then some (.ack id a e fin) else none
    | _, _, _, _ => none
  | ["lost", id, a, e, fin] => match vi id, vi a, vi e, flag fin with
    | some id, some a, some e, some fin => if a ≤ e then some (.lost id a e fin) else none
    | _, _, _, _ => none
  | ["rstack", id] => (vi id).map .rstAck
  | ["read", id, b] => match vi id, u64 b with
    | some id, some b => some (.read id b)
    | _, _ => none
  | ["stop", id, c] => match vi id, vi c with
    | some id, some c => some (.stop id c)
    | _, _ => none
  | ["rreset", id] => (vi id).map .recvReset
  | ["poll"] => some .poll
  | ["transmit", mx, fair] => match le? (2 ^ 20) (u64 mx), flag fair with
    | some mx, some fair => some (.transmit mx fair)
    | _, _ => none
  | ["cansend"] => some .canSend
  | ["canflow", id] => (vi id).map .canFlow
  | ["ctrl"] => some .ctrl
  | ["qmsi"] => some .queueMaxStreamId
  | ["pend", "md"] => some .pendMaxData
  | ["pend", "msd", id] => (vi id).map .pendMaxStreamData
  | ["pend", "msi", d] => (dir d).map .pendMaxStreamId
  | ["sendwin", n] => (u64 n).map .sendWindow
  | ["recvwin", n] => (vi n).map .recvWindow
  | ["maxconc", d, n] => match dir d, le? maxRemote (vi n) with
    | some d, some n => some (.maxConcurrent d n)
    | _, _ => none
  | ["rejected"] => some .rejected
  | ["rtx0"] => some .rtx0
  | ["view"] => some .view
  | _ => none

end StreamsParse

def streams (s : State) (w : List String) : State × String :=
  match StreamsParse.op w with
  | none => (s, "bad-op")
  | some o => match step s o with
    | none => (s, "panic")
    | some (s', r) => (s', s!"{StreamsFmt.out r} | {StreamsFmt.view s'}")

end QM.Drv
