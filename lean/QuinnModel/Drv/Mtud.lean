import QuinnModel.Recovery.Mtud
/- Line-protocol front end for component `mtud` (see quinn-proto/src/connection/verif/mtud.rs). -/
namespace QM.Drv
open QM QM.Mtud

/-- the executor starts from `MtuDiscovery::new(1200, 1200, None, MtuDiscoveryConfig::default())` -/
def mtudInit : Mtud.State := Mtud.withState 1200 1200 (some (Enabled.new Config.default))

theorem mtudInit_eq : Mtud.new 1200 1200 none Config.default = some mtudInit := by decide

def mtudTimeBound : Nat := 2^60

def parseU16 (s : String) : Option Nat :=
  match s.toNat? with
  | some n => if n < 65536 then some n else none
  | none => none

def parseU64 (s : String) : Option Nat :=
  match s.toNat? with
  | some n => if n < 2^64 then some n else none
  | none => none

def parseTime (s : String) : Option Nat :=
  match s.toNat? with
  | some n => if n < mtudTimeBound then some n else none
  | none => none

def showOptNat : Option Nat → String
  | none => "-"
  | some n => toString n

def showMtud (s : Mtud.State) : String :=
  let en := match s.state with
    | none => " ph=- pm=- cfg=-"
    | some e =>
      let ph := match e.phase with
        | .initial => " ph=I"
        | .searching x => s!" ph=S:{x.lowerBound},{x.upperBound},{x.minimumChange},{x.lastProbedMtu},{showOptNat x.inFlightProbe},{x.lostProbeCount}"
        | .complete t => s!" ph=C:{t}"
      ph ++ s!" pm={e.peerMax} cfg={e.config.interval},{e.config.upperBound},{e.config.minimumChange},{e.config.blackHoleCooldown}"
  let d := s.det
  let bursts := if d.bursts.isEmpty then "-" else ",".intercalate (d.bursts.map toString)
  let cur := match d.current with
    | none => "-"
    | some c => s!"{c.latest}:{c.smallest}"
  s!"mtu={s.currentMtu}" ++ en ++ s!" bh={bursts};{cur};{d.largestPostLoss};{d.ackedMtu};{d.minMtu}"

def mtudResp (r : State × Out) : State × String :=
  let body := match r.2 with
    | .unit => some "ok"
    | .bool b => some (boolStr b)
    | .probe none => some "none"
    | .probe (some p) => some s!"probe {p}"
    | .panic => none
  match body with
  | none => (r.1, "panic")
  | some b => (r.1, b ++ " | " ++ showMtud r.1)

def mtud (s : Mtud.State) : List String → Mtud.State × String
  | ["new", i, m, p, iv, ub, mc, cd] =>
    match parseU16 i, parseU16 m, parseTime iv, parseU16 ub, parseU16 mc, parseTime cd with
    | some i, some m, some iv, some ub, some mc, some cd =>
      let p? : Option (Option Nat) := if p == "-" then some none else (parseU16 p).map some
      match p? with
      | none => (s, "bad-op")
      | some p => match Mtud.new i m p (Config.make iv ub mc cd) with
        | none => (s, "panic")
        | some s' => mtudResp (s', .unit)
    | _, _, _, _, _, _ => (s, "bad-op")
  | ["disabled", i, m] => match parseU16 i, parseU16 m with
    | some i, some m => mtudResp (Mtud.disabled i m, .unit)
    | _, _ => (s, "bad-op")
  | ["reset", c, m] => match parseU16 c, parseU16 m with
    | some c, some m => mtudResp (step s (.reset c m))
    | _, _ => (s, "bad-op")
  | ["poll", now, pn] => match parseTime now, parseU64 pn with
    | some now, some pn => mtudResp (step s (.poll now pn))
    | _, _ => (s, "bad-op")
  | ["peer", v] => match parseU16 v with
    | some v => mtudResp (step s (.peerMax v))
    | none => (s, "bad-op")
  | ["acked", sp, pn, len] => match parseU64 pn, parseU16 len with
    | some pn, some len =>
      if sp == "0" ∨ sp == "1" then mtudResp (step s (.acked false pn len))
      else if sp == "2" then mtudResp (step s (.acked true pn len))
      else (s, "bad-op")
    | _, _ => (s, "bad-op")
  | ["ploss"] => mtudResp (step s .probeLost)
  | ["nploss", pn, len] => match parseU64 pn, parseU16 len with
    | some pn, some len => mtudResp (step s (.nonProbeLost pn len))
    | _, _ => (s, "bad-op")
  | ["bhd", now] => match parseTime now with
    | some now => mtudResp (step s (.blackHole now))
    | none => (s, "bad-op")
  | ["inflight"] => match inFlightMtuProbe s with
    | none => (s, "none | " ++ showMtud s)
    | some p => (s, s!"some {p} | " ++ showMtud s)
  | _ => (s, "bad-op")

end QM.Drv
