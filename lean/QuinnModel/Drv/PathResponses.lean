import QuinnModel.Conn.PathResponses
/- Line-protocol front end of component `pathresp` (prints exactly what connection/verif/pathresp.rs prints). -/
namespace QM.Drv
open QM QM.PathResponses

def pathrespState (s : State) : String :=
  "[" ++ ",".intercalate (s.map (fun x => s!"{x.packet}:{x.token}:{x.remote}")) ++ "]"

def u64A (x : String) : Option Nat := match x.toNat? with
  | some n => if n < 2^64 then some n else none
  | none => none

def addrA (x : String) : Option Nat := match x.toNat? with
  | some n => if n < 65536 then some n else none
  | none => none

def pathresp (s : State) : List String → State × String
  | ["new"] => ([], s!"ok {pathrespState []}")
  | ["push", packet, token, remote] => match u64A packet, u64A token, addrA remote with
    | some p, some t, some r => let s' := push s p t r; (s', s!"ok {pathrespState s'}")
    | _, _, _ => (s, "bad-op")
  | ["pop_off", remote] => match addrA remote with
    | some r => match popOffPath s r with
      | (s', none) => (s', s!"none {pathrespState s'}")
      | (s', some (t, a)) => (s', s!"ok {t} {a} {pathrespState s'}")
    | none => (s, "bad-op")
  | ["pop_on", remote] => match addrA remote with
    | some r => match popOnPath s r with
      | (s', none) => (s', s!"none {pathrespState s'}")
      | (s', some t) => (s', s!"ok {t} {pathrespState s'}")
    | none => (s, "bad-op")
  | ["empty"] => (s, boolStr (isEmpty s))
  | _ => (s, "bad-op")

end QM.Drv
