import QuinnModel.Recovery.InFlight
import QuinnModel.Recovery.Controllers
/- Line-protocol front ends for the C12 components: `sentpk` (SentPackets / PacketSpace / InFlight) and
   `cc` (NewReno, Cubic, BBR through the Controller trait). -/
namespace QM.Drv
open QM QM.SentPackets QM.InFlight

namespace SentpkD

def maxSpan : Nat := 4096
def maxBurst : Nat := 1500
def maxPn : Nat := 2^62

def c12u64? (s : String) : Option Nat :=
  match s.toNat? with
  | some n => if n < 2^64 then some n else none
  | none => none

def c12pn? (s : String) : Option Nat :=
  match c12u64? s with
  | some n => if n < maxPn then some n else none
  | none => none

def u16? (s : String) : Option Nat :=
  match c12u64? s with
  | some n => if n < 2^16 then some n else none
  | none => none

def space? : String → Option Sp
  | "0" => some .initial
  | "1" => some .handshake
  | "2" => some .data
  | _ => none

def flag? : String → Option Bool
  | "0" => some false
  | "1" => some true
  | _ => none

def bound? (s : String) : Option Bound :=
  if s == "u" then some .unb else
  match s.toList with
  | 'i' :: r => (c12u64? (String.ofList r)).map .incl
  | 'e' :: r => (c12u64? (String.ofList r)).map .excl
  | _ => none

def pkt (p : Pkt) : String := s!"{p.tag}:{p.size}:{if p.ae then 1 else 0}:{p.gen}"

def list (xs : List String) : String := if xs.isEmpty then "-" else ",".intercalate xs

def ring (r : Ring) : String := s!"o={r.offset} n={r.slots.length} f={r.inFlight}"

def acct (st : State) (i : Sp) : String :=
  let sp := st.space i
  s!"b={st.inFlight.bytes} a={st.inFlight.ae} t={sp.tail} l={sp.largestAe} {ring sp.ring}"

def tooFar (r : Ring) (c12pn : Nat) : Bool :=
  !r.slots.isEmpty && decide (c12pn ≥ r.offset) && decide (c12pn - r.offset > maxSpan)

def setRing (st : State) (i : Sp) (r : Ring) : State := st.setSpace i { st.space i with ring := r }

end SentpkD

open SentpkD in
def sentpk (st : State) : List String → State × String
  | ["rinsert", sp, p, size, ae, g] =>
    match space? sp, c12pn? p, u16? size, flag? ae, c12u64? g with
    | some i, some p, some size, some ae, some g =>
      let r := (st.space i).ring
      if tooFar r p then (st, "bad-op") else
      match insert r p ⟨p, size, ae, g⟩ with
      | (r', .panic) => (setRing st i r', "panic")
      | (r', .ok _) => (setRing st i r', s!"ok {ring r'}")
    | _, _, _, _, _ => (st, "bad-op")
  | ["rremove", sp, p] =>
    match space? sp, c12pn? p with
    | some i, some p =>
      match remove (st.space i).ring p with
      | (r', .panic) => (setRing st i r', "panic")
      | (r', .ok (some v)) => (setRing st i r', s!"some {pkt v} {ring r'}")
      | (r', .ok none) => (setRing st i r', s!"none {ring r'}")
    | _, _ => (st, "bad-op")
  | ["get", sp, p] =>
    match space? sp, c12pn? p with
    | some i, some p =>
      match get (st.space i).ring p with
      | some v => (st, s!"some {pkt v}")
      | none => (st, "none")
    | _, _ => (st, "bad-op")
  | ["range", sp, lo, hi] =>
    match space? sp, bound? lo, bound? hi with
    | some i, some lo, some hi =>
      match range (st.space i).ring lo hi with
      | .panic => (st, "panic")
      | .ok xs => (st, s!"ok {list (xs.map fun (n, v) => s!"{n}={pkt v}")}")
    | _, _, _ => (st, "bad-op")
  | ["hif", sp] =>
    match space? sp with
    | some i => (st, boolStr (hasInFlight (st.space i).ring))
    | none => (st, "bad-op")
  | ["values", sp] =>
    match space? sp with
    | some i => (st, s!"ok {list ((values (st.space i).ring).map pkt)}")
    | none => (st, "bad-op")
  | ["dump", sp] =>
    match space? sp with
    | some i =>
      let r := (st.space i).ring
      (st, s!"ok {ring r} {list (r.slots.map fun | some v => pkt v | none => "_")}")
    | none => (st, "bad-op")
  | ["sent", sp, p, size, ae, g] =>
    match space? sp, c12pn? p, u16? size, flag? ae, c12u64? g with
    | some i, some p, some size, some ae, some g =>
      if tooFar (st.space i).ring p then (st, "bad-op") else
      match st.sent i p ⟨p, size, ae, g⟩ with
      | (st', .panic) => (st', "panic")
      | (st', .ok fg) => (st', s!"ok fg={list (fg.toList.map pkt)} {acct st' i}")
    | _, _, _, _, _ => (st, "bad-op")
  | op :: sp :: pns =>
    if op = "ack" ∨ op = "lost" then
      match space? sp, pns.mapM c12pn? with
      | some i, some ps =>
        if ps.isEmpty ∨ ps.length > 64 then (st, "bad-op") else
        match st.resolveMany i ps with
        | (st', .panic) => (st', "panic")
        | (st', .ok xs) =>
          (st', s!"ok {list (xs.map fun | some (v, b) => s!"{pkt v}:{if b then 1 else 0}" | none => "_")} {acct st' i}")
      | _, _ => (st, "bad-op")
    else if op = "discard" ∧ pns.isEmpty then
      match space? sp with
      | some i =>
        match st.discard i with
        | (st', .panic) => (st', "panic")
        | (st', .ok vs) => (st', s!"ok {list (vs.map pkt)} {acct st' i}")
      | none => (st, "bad-op")
    else if op = "burst" then
      match pns with
      | [start, n, size, g] =>
        match space? sp, c12pn? start, c12u64? n, u16? size, c12u64? g with
        | some i, some start, some n, some size, some g =>
          if n = 0 ∨ n > maxBurst ∨ tooFar (st.space i).ring (start + n - 1) then (st, "bad-op") else
          match st.burst i size g n start (0, 0, 0) with
          | (st', .panic) => (st', "panic")
          | (st', .ok (k, b, t)) => (st', s!"ok {k} {b} {t} {acct st' i}")
        | _, _, _, _, _ => (st, "bad-op")
      | _ => (st, "bad-op")
    else (st, "bad-op")
  | _ => (st, "bad-op")


namespace CcD
open QM.Controllers SentpkD

def c12time? (s : String) : Option Nat :=
  match c12u64? s with
  | some n => if n < 2^62 then some n else none
  | none => none

/-- `key=value` tokens after the positional arguments -/
def splitObs (w : List String) : List String × List String :=
  (w.takeWhile (fun t => !t.contains '='), w.dropWhile (fun t => !t.contains '='))

def parseObs : List String → Option (List (String × Nat))
  | [] => some []
  | t :: r =>
    match t.splitOn "=" with
    | [k, v] =>
      match c12u64? v, parseObs r with
      | some v, some rest => some ((k, v) :: rest)
      | _, _ => none
    | _ => none

def look (obs : List (String × Nat)) (k : String) : Option Nat := (obs.find? (·.1 == k)).map (·.2)

def bool? : Nat → Option Bool
  | 0 => some false
  | 1 => some true
  | _ => none

def mode? : Nat → Option Mode
  | 0 => some .startup
  | 1 => some .drain
  | 2 => some .probeBw
  | 3 => some .probeRtt
  | _ => none

def modeN : Mode → Nat
  | .startup => 0 | .drain => 1 | .probeBw => 2 | .probeRtt => 3

def recN : Recovery → Nat
  | .notInRecovery => 0 | .conservation => 1 | .growth => 2

def optN : Option Nat → String
  | some n => toString n
  | none => "-"

def coreStr (c : CubicCore) : String := s!"{c.window}:{c.ssthresh}:{c.cwndInc}:{optN c.rst}"

def state : Ctl → String
  | .reno c => s!"w={c.window} ss={c.ssthresh} rst={c.rst} ba={c.bytesAcked} mtu={c.mtu}"
  | .cubic c =>
    let pre := match c.pre with
      | some p => coreStr p
      | none => "-"
    s!"w={c.st.window} ss={c.st.ssthresh} inc={c.st.cwndInc} rst={optN c.st.rst} mtu={c.mtu} pre={pre}"
  | .bbr c =>
    s!"mode={modeN c.mode} full={if c.full then 1 else 0} rs={recN c.recovery} rw={c.recoveryWindow} cwnd={c.cwnd} min={c.minCwnd} init={c.initCwnd} mtu={c.mtu} lost={c.lostBytes} macked={c.maxAcked} msent={c.maxSent} endrec={c.endRecoveryAt} rend={c.roundEnd} rc={c.roundCount} ab={c.ackedBytes}"

def fin (c : Ctl) : Out → Option Ctl × String
  | .ok => (some c, s!"ok {state c}")
  | .panic => (some c, "panic")
  | .badObs => (some c, "bad-obs")

def ackObs (obs : List (String × Nat)) : Option CubicAckObs :=
  match look obs "lt", look obs "west", look obs "wcubic" with
  | some lt, some we, some wc =>
    match bool? lt with
    | some lt => some ⟨lt, we, wc, look obs "inc"⟩
    | none => none
  | _, _, _ => none

def congObs (obs : List (String × Nat)) : Option CubicCongObs :=
  match look obs "red", look obs "cinc" with
  | some r, some ci => some ⟨r, ci, look obs "red2"⟩
  | _, _ => none

def endObs (obs : List (String × Nat)) : Option BbrEndObs :=
  match look obs "ba", look obs "mode", look obs "full" with
  | some ba, some m, some f =>
    match mode? m, bool? f with
    | some m, some f =>
      let glt := match look obs "glt" with
        | some g => bool? g
        | none => none
      some ⟨ba, m, f, look obs "tw", glt⟩
    | _, _ => none
  | _, _, _ => none

end CcD

open CcD QM.Controllers SentpkD in
/-- `cc`: one congestion controller behind the `Controller` trait -/
def cc (st : Option Ctl) (w : List String) : Option Ctl × String :=
  let (pos, obsT) := splitObs w
  match parseObs obsT with
  | none => (st, "bad-op")
  | some obs =>
  match pos with
  | ["new", kind, mtu] =>
    if !obs.isEmpty then (st, "bad-op") else
    match u16? mtu with
    | none => (st, "bad-op")
    | some mtu =>
      let c : Option Ctl := match kind with
        | "reno" => some (.reno (Reno.new mtu))
        | "cubic" => some (.cubic (Cubic.new mtu))
        | "bbr" => some (.bbr (Bbr.new mtu))
        | _ => none
      match c with
      | some c => (some c, s!"ok {state c}")
      | none => (st, "bad-op")
  | _ =>
  match st with
  | none =>
    -- requests are validated before the controller is looked at
    (st, "bad-op")
  | some ctl =>
  let panicObs := obs == [("panic", 1)]
  match pos with
  | ["sent", now, bytes, c12pn] =>
    match c12time? now, c12u64? bytes, c12u64? c12pn with
    | some _, some _, some c12pn =>
      if panicObs then (st, "panic") else
      match ctl with
      | .bbr c => fin (.bbr (c.onSent c12pn)) .ok
      | c => fin c .ok
    | _, _, _ => (st, "bad-op")
  | ["ack", now, sent, bytes, app, rtt] =>
    match c12time? now, c12time? sent, c12u64? bytes, flag? app, c12time? rtt with
    | some now, some sent, some bytes, some app, some _ =>
      if panicObs then (st, "panic") else
      match ctl with
      | .reno c => let (c', p) := c.onAck sent bytes app; fin (.reno c') (if p then .panic else .ok)
      | .cubic c => let (c', o) := c.onAck now sent bytes app (ackObs obs); fin (.cubic c') o
      | .bbr c => let (c', o) := c.onAck bytes; fin (.bbr c') o
    | _, _, _, _, _ => (st, "bad-op")
  | ["endacks", now, inFlight, app, largest] =>
    let lg : Option (Option Nat) := if largest == "-" then some none else (c12u64? largest).map some
    match c12time? now, c12u64? inFlight, flag? app, lg with
    | some _, some inFlight, some _, some lg =>
      if panicObs then (st, "panic") else
      match ctl with
      | .bbr c =>
        match endObs obs with
        | some o => let (c', out) := c.onEndAcks inFlight lg o; fin (.bbr c') out
        | none => (st, "bad-obs")
      | c => fin c .ok
    | _, _, _, _ => (st, "bad-op")
  | ["cong", now, sent, persistent, ecn, lost] =>
    match c12time? now, c12time? sent, flag? persistent, flag? ecn, c12u64? lost with
    | some now, some sent, some persistent, some ecn, some lost =>
      if panicObs then (st, "panic") else
      match ctl with
      | .reno c => fin (.reno (c.onCongestionEvent now sent persistent)) .ok
      | .cubic c => let (c', o) := c.onCongestionEvent now sent persistent ecn (congObs obs); fin (.cubic c') o
      | .bbr c => let (c', o) := c.onCongestionEvent lost; fin (.bbr c') o
    | _, _, _, _, _ => (st, "bad-op")
  | ["spurious"] =>
    match ctl with
    | .cubic c => fin (.cubic c.onSpurious) .ok
    | c => fin c .ok
  | ["mtu", mtu] =>
    match u16? mtu with
    | some mtu =>
      match ctl with
      | .reno c => fin (.reno (c.onMtuUpdate mtu)) .ok
      | .cubic c => fin (.cubic (c.onMtuUpdate mtu)) .ok
      | .bbr c => fin (.bbr (c.onMtuUpdate mtu)) .ok
    | none => (st, "bad-op")
  | ["window"] =>
    if panicObs then (st, "panic") else
    match ctl with
    | .reno c => (st, s!"ok {c.window}")
    | .cubic c => (st, s!"ok {c.st.window}")
    | .bbr c =>
      match c.window (look obs "tc") with
      | some w => (st, s!"ok {w}")
      | none => (st, "bad-obs")
  | _ => (st, "bad-op")

end QM.Drv
