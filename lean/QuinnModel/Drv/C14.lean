import QuinnModel.Endpoint.Token
import QuinnModel.Endpoint.BloomLog
import QuinnModel.Endpoint.TokenCache
/- Line-protocol front ends for the C14 components: `token`, `bloomlog`, `tokencache`. -/
namespace QM.Drv.C14
open QM

/-- decimal digits only (no sign, no `_`), below 2^128 -/
def num (s : String) : Option Nat :=
  if s.isEmpty ∨ !s.all Char.isDigit then none
  else match s.toNat? with
    | some n => if n < 2^128 then some n else none
    | none => none

/-- a `SystemTime` given in ns since the epoch (representable ones only) -/
def time (s : String) : Option Nat :=
  match num s with
  | some n => if n < SysTime.limit then some n else none
  | none => none

/-- a `Duration` given in ns (seconds fit a u64) -/
def dur (s : String) : Option Nat :=
  match num s with
  | some n => if n / SysTime.nsPerSec < 2^64 then some n else none
  | none => none

def joinWith (sep : String) : List String → String
  | [] => ""
  | [a] => a
  | a :: r => a ++ sep ++ joinWith sep r

/-! ### token -/

def parseIpW : List String → Option Token.Ip
  | ["v4", h] => match parseHex h with
    | some b => if b.length = 4 then some (.v4 b) else none
    | none => none
  | ["v6", h] => match parseHex h with
    | some b => if b.length = 16 then some (.v6 b) else none
    | none => none
  | _ => none

def parseIp (s : String) : Option Token.Ip := parseIpW (s.splitOn "/")

def parseAddr (s : String) : Option Token.Addr :=
  match s.splitOn "/" with
  | ["v4", h, p] => match parseIpW ["v4", h], num p with
    | some (.v4 o), some p => if p < 2^16 then some (.v4 o p) else none
    | _, _ => none
  | ["v6", h, p, f, sc] => match parseIpW ["v6", h], num p, num f, num sc with
    | some (.v6 o), some p, some f, some sc =>
      if p < 2^16 ∧ f < 2^32 ∧ sc < 2^32 then some (.v6 o p f sc) else none
    | _, _, _, _ => none
  | _ => none

def showIp : Token.Ip → String
  | .v4 o => s!"v4/{toHex o}"
  | .v6 o => s!"v6/{toHex o}"

def showAddr : Token.Addr → String
  | .v4 o p => s!"v4/{toHex o}/{p}"
  | .v6 o p f sc => s!"v6/{toHex o}/{p}/{f}/{sc}"

def parseCid (s : String) : Option Bytes :=
  match parseHex s with
  | some b => if b.length ≤ Gen.maxCidSize then some b else none
  | none => none

/-- payload description; returns the payload and the remaining words -/
def parsePayload : List String → Option (Token.Payload × List String)
  | "retry" :: a :: c :: i :: rest => match parseAddr a, parseCid c, time i with
    | some a, some c, some i => some (.retry a c (i / SysTime.nsPerSec), rest)
    | _, _, _ => none
  | "val" :: a :: i :: rest => match parseIp a, time i with
    | some ip, some i => some (.validation ip (i / SysTime.nsPerSec), rest)
    | _, _ => none
  | _ => none

/-- key ids: 0..3 real keys, 4 = the null AEAD -/
def nullKey : Nat := 4
def parseKey : String → Option Nat
  | "0" => some 0 | "1" => some 1 | "2" => some 2 | "3" => some 3 | "n" => some nullKey | _ => none

/-- AES-256-GCM tag length (ring); only the length bookkeeping of `issue` uses it -/
def tagLen : Nat := 16

/-- one observed output of the real `seal` -/
structure Sealed where
  key : Nat
  nonce : Nat
  pt : Bytes
  sealed : Bytes

/-- The ideal AEAD functionality over the seal outputs seen so far: `open` succeeds exactly on a
    recorded output under the same key and nonce.  Key `nullKey` is the concrete null AEAD of the
    executor (tag = 16 zero bytes). -/
def tableAead (tbl : List Sealed) : Token.Aead where
  sealWith k n p :=
    if k = nullKey then p ++ List.replicate tagLen 0
    else match tbl.find? (fun e => e.key == k && e.nonce == n && e.pt == p) with
      | some e => e.sealed
      | none => []
  openWith k n s :=
    if k = nullKey then
      if s.length < tagLen ∨ (s.drop (s.length - tagLen)).any (· != 0) then none
      else some (s.take (s.length - tagLen))
    else match tbl.find? (fun e => e.key == k && e.nonce == n && e.sealed == s) with
      | some e => some e.pt
      | none => none

structure TokSt where
  cfg : Token.Cfg := ⟨0, Gen.retryTokenLifetimeDefaultNs, Gen.validationTokenLifetimeDefaultNs⟩
  /-- 0 = NoneTokenLog, 1 = accept everything, 2 = BloomTokenLog::default() -/
  logKind : Nat := 2
  bloom : BloomLog.State := BloomLog.init Gen.bloomDefaultMaxBytes
  table : List Sealed := []

/-- what the log was asked and what it answered -/
abbrev LogRec := Option (Nat × Nat × Nat × Bool)

def logFn (kind : Nat) : BloomLog.State × LogRec → Nat → Nat → Nat → Option ((BloomLog.State × LogRec) × Bool) :=
  fun (s, _) n i l =>
    let r : Option (BloomLog.State × Bool) :=
      if kind = 0 then some (s, false)
      else if kind = 1 then some (s, true)
      else BloomLog.checkAndInsert s n i l ⟨true, false, false⟩
    match r with
    | none => none
    | some (s', ok) => some ((s', some (n, i, l, ok)), ok)

def showDecoded (sep : String) : Token.Res (Nat × Token.Payload) → String
  | .panic => "panic"
  | .none => "none"
  | .ok (n, .retry a c i) => joinWith sep ["retry", showAddr a, toHex c, toString i, toString n]
  | .ok (n, .validation ip i) => joinWith sep ["val", showIp ip, toString i, toString n]

def token (s : TokSt) : List String → TokSt × String
  | ["cfg", k, rl, vl, log] =>
    let kind : Option Nat := match log with | "none" => some 0 | "all" => some 1 | "bloom" => some 2 | _ => none
    match parseKey k, dur rl, dur vl, kind with
    | some k, some rl, some vl, some kind =>
      ({ s with cfg := ⟨k, rl, vl⟩, logKind := kind, bloom := BloomLog.init Gen.bloomDefaultMaxBytes }, "ok")
    | _, _, _, _ => (s, "bad-op")
  | "issue" :: k :: n :: rest =>
    match parseKey k, num n, parsePayload rest with
    | some k, some n, some (p, [h]) =>
      match parseHex h with
      | none => (s, "bad-op")
      | some claimed =>
        let pt := Token.encodePayload p
        let nb := Token.leBytes Gen.tokenNonceBytes n
        if claimed.length ≠ pt.length + tagLen + Gen.tokenNonceBytes ∨ claimed.drop (claimed.length - Gen.tokenNonceBytes) ≠ nb
            ∨ (k = nullKey ∧ claimed ≠ Token.encode (tableAead []) k n p) then
          (s, "err mint-mismatch")
        else
          let e : Sealed := ⟨k, n, pt, claimed.take (claimed.length - Gen.tokenNonceBytes)⟩
          ({ s with table := if k = nullKey then s.table else e :: s.table }, s!"ok {claimed.length} {toHex pt}")
    | _, _, _ => (s, "bad-op")
  | ["dec", k, h] =>
    match parseKey k, parseHex h with
    | some k, some b => (s, showDecoded " " (Token.decode (tableAead s.table) k b))
    | _, _ => (s, "bad-op")
  | ["present", h, remote, dcid, now] =>
    match parseHex h, parseAddr remote, parseCid dcid, time now with
    | some tok, some remote, some dcid, some now =>
      let A := tableAead s.table
      let ((bl, rec), d) := Token.fromHeader A s.cfg (logFn s.logKind) (s.bloom, none) tok dcid remote now
      match d with
      | .panic => (s, "panic")
      | d =>
        let decision := match d with
          | .invalidRetry => "invalid-retry"
          | .ok t =>
            let rsc := match t.retrySrcCid with | some c => toHex c | none => "none"
            s!"{if t.validated then "validated" else "absent"} rsc={rsc} odcid={toHex t.origDstCid}"
          | .panic => "panic"
        let log := match rec with
          | none => "-"
          | some (n, i, l, ok) => s!"{n},{i},{l},{if ok then "ok" else "reuse"}"
        ({ s with bloom := bl }, s!"{decision} log={log} dec={showDecoded "," (Token.decode A s.cfg.key tok)}")
    | _, _, _, _ => (s, "bad-op")
  | _ => (s, "bad-op")

/-! ### bloomlog -/

def showFilter (f : BloomLog.Filter) : String :=
  if f.bloom then "B" else "S:" ++ joinWith "," ((f.items.mergeSort (fun a b => decide (a ≤ b))).map toString)

def bloomlog (s : BloomLog.State) : List String → BloomLog.State × String
  | ["new", mb, k] =>
    match num mb, num k with
    | some mb, some k => if mb ≤ 2^24 ∧ k < 2^32 then (BloomLog.init mb, "ok") else (s, "bad-op")
    | _, _ => (s, "bad-op")
  | ["check", n, i, l, res, modes] =>
    let c : Option BloomLog.Choice :=
      match res, modes with
      | "ok", "SS" => some ⟨true, false, false⟩ | "ok", "SB" => some ⟨true, false, true⟩
      | "ok", "BS" => some ⟨true, true, false⟩ | "ok", "BB" => some ⟨true, true, true⟩
      | "reuse", "SS" => some ⟨false, false, false⟩ | "reuse", "SB" => some ⟨false, false, true⟩
      | "reuse", "BS" => some ⟨false, true, false⟩ | "reuse", "BB" => some ⟨false, true, true⟩
      | _, _ => none
    match num n, num i, num l, c with
    | some n, some _, some _, some c =>
      match time i, dur l with
      | some i, some l =>
        match BloomLog.checkAndInsert s n i l c with
        | none => (s, "panic")
        | some (s', r) =>
          (s', s!"{if r then "ok" else "reuse"} p1={s'.p1} f1={showFilter s'.f1} f2={showFilter s'.f2}")
      | _, _ => (s, "bad-op")
    | _, _, _, _ => (s, "bad-op")
  | _ => (s, "bad-op")

/-! ### tokencache -/

def validName (s : String) : Bool := !s.isEmpty && s.all (fun c => c.isLower || c.isDigit)

def showCache (s : TokenCache.State Bytes) : String :=
  let lru := if s.lru.isEmpty then "-" else
    joinWith ";" (s.lru.map fun e => e.name ++ ":" ++ joinWith "," (e.tokens.map toHex))
  let names := (s.lru.map (·.name)).mergeSort (fun a b => !(decide (b < a)))
  let keys := if names.isEmpty then "-" else joinWith "," names
  s!"n={s.lru.length} lru={lru} keys={keys} ok=true"

def tokencache (s : TokenCache.State Bytes) : List String → TokenCache.State Bytes × String
  | ["new", a, b] =>
    match num a, num b with
    | some a, some b => if a < 2^32 ∧ b < 2^64 then (TokenCache.init a b, "ok") else (s, "bad-op")
    | _, _ => (s, "bad-op")
  | ["insert", n, h] =>
    if !validName n then (s, "bad-op") else
    match parseHex h with
    | none => (s, "bad-op")
    | some t => match TokenCache.store s n t with
      | none => (s, "panic")
      | some s' => (s', s!"ok {showCache s'}")
  | ["take", n] =>
    if !validName n then (s, "bad-op") else
    match TokenCache.take s n with
    | none => (s, "panic")
    | some (s', some t) => (s', s!"some {toHex t} {showCache s'}")
    | some (s', none) => (s', s!"none {showCache s'}")
  | _ => (s, "bad-op")

end QM.Drv.C14
