import QuinnModel.Udp.Layout
import QuinnModel.Udp.Send
import QuinnModel.Util
/- Line-protocol front end for the UDP layer model (component `udp`). -/
namespace QM.Drv
open QM

def udpOpt (s : String) : Option (Option Nat) := if s == "-" then some none else (s.toNat?).map some

def udp : List String → String
  | ["cmsgspace", n] => match n.toNat? with
    | some n => s!"{Udp.cmsgSpace n} {Gen.cmsgLen}"
    | none => "bad-op"
  | ["ctl", v4, einval, gso, src, seg, len] =>
    match v4.toNat?, einval.toNat?, gso.toNat?, udpOpt seg, len.toNat? with
    | some v4, some e, some _g, some seg, some len =>
      let eff := Udp.effectiveSegmentSize seg len
      let srcIp := if src == "-" then none else if src == "4" then some true else some false
      let o : Udp.SendOpts := ⟨v4 == 1, e == 1, eff.isSome, srcIp⟩
      let effS := match eff with | some x => toString x | none => "-"
      s!"{Udp.controlLen o} {effS}"
    | _, _, _, _, _ => "bad-op"
  | ["eff", seg, len] => match udpOpt seg, len.toNat? with
    | some seg, some len => match Udp.effectiveSegmentSize seg len with
      | some x => toString x
      | none => "-"
    | _, _ => "bad-op"
  | ["wire", seg, len] => match udpOpt seg, len.toNat? with
    | some seg, some len =>
      -- kernel contract: datagram lengths on the wire = lengths after the stride split of what is received
      let ws := Udp.wireDatagrams (List.replicate len ()) (Udp.effectiveSegmentSize seg len)
      ",".intercalate (ws.map fun w => toString w.length)
    | _, _ => "bad-op"
  | ["refused", v4, maxGso, einval, seg, len] =>
    -- one `UdpSocketState::send` on a socket whose kernel path answers EINVAL to every UDP_SEGMENT message
    match v4.toNat?, maxGso.toNat?, einval.toNat?, seg.toNat?, len.toNat? with
    | some v4, some g, some e, some seg, some len =>
      let _ := Gen.sendGsoFallbackShapeChecked
      let r := Udp.send Udp.gsoRefusingKernel ⟨v4 == 1, some seg, len⟩ 8 ⟨g, e == 1⟩ 0
      let lens := if r.wire.isEmpty then "-" else ",".intercalate (r.wire.map toString)
      s!"{if Udp.publicOk r then "ok" else "err"} {lens} {r.st.maxGso} {if r.st.einval then 1 else 0}"
    | _, _, _, _, _ => "bad-op"
  | _ => "bad-op"

end QM.Drv
