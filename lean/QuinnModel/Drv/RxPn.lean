import QuinnModel.Conn.RxPn
/- line protocol of the `rxpn` component (verif/rxpn.rs) -/
namespace QM.Drv
open QM

def rxpn : List String → String
  | ["rx", h, rx] => match parseHex h, rx.toNat? with
    | some bs, some rx =>
      if bs.length < 1 ∨ bs.length > 4 ∨ rx ≥ 2^64 then "bad-op" else
      match PacketNumber.decode bs.length bs with
      | some (p, _) => match RxPn.rxNumber p rx with
        | .accept n => s!"ok {n}"
        | .drop => "drop"
        | .panic => "panic"
      | none => "bad-op"
    | _, _ => "bad-op"
  | _ => "bad-op"

end QM.Drv
