import QuinnModel.Streams.EndToEnd
import QuinnModel.Drv.Asm
/- Line-protocol front end for the RECEIVING side of the end-to-end composition (component `rcv`); see
   quinn-proto/src/connection/verif/rcv.rs. The state is the composed `E2E.St`; a frame is put on the
   model's network and delivered at once (`E2E.deliver`), reads are `E2E.read` / `E2E.openRead`, `E2E.stop`.
   Trailing tokens of `read` requests are the implementation's observed choice. -/
namespace QM.Drv
open QM QM.RangeSet QM.E2E

def rcvRanges (s : RS) : String :=
  "[" ++ ",".intercalate (s.map (fun p => s!"{p.1}-{p.2}")) ++ "]"

def rcvView (s : E2E.St) : String :=
  if !s.rlive then "| 0 -"
  else
    let st := match s.rv.state with
      | .recv none => "r:-"
      | .recv (some n) => s!"r:{n}"
      | .resetRecvd n c => s!"x:{n}:{c}"
    let buf := if s.asm.a.unordered then "unordered" else rcvRanges s.asm.a.cov
    s!"| 2 R2[st={st};sm={s.rv.sentMaxStreamData};end={s.rv.end_};br={s.asm.a.bytesRead};sp={if s.rv.stopped then 1 else 0};buf={buf}]"

def rcvErr (e : Streams.TErr) : String :=
  match e with
  | .flowControl _ => "err FLOW_CONTROL_ERROR"
  | .finalSize _ => "err FINAL_SIZE_ERROR"
  | .streamLimit => "err STREAM_LIMIT_ERROR"
  | .streamState _ => "err STREAM_STATE_ERROR"
  | .frameEncoding _ => "err FRAME_ENCODING_ERROR"

/-- connection-level flow control never interferes: nothing counted, limit 2^62 - 1 -/
def rcvMaxData : Nat := 2^62 - 1

def rcvDeliver (s : E2E.St) (f : Frame) (alloc : Nat) (res : String) : E2E.St × String :=
  match E2E.deliver { s with net := f :: s.net } f 0 rcvMaxData alloc false with
  | some s' => (s', s!"{res} {rcvView s'}")
  | none => (s, "panic")

def rcv (s : E2E.St) : List String → E2E.St × String
  | ["new", srw] => match u64? srw with
    | some srw => if srw < 2^62 then (E2E.St.init 0 srw, s!"ok {rcvView (E2E.St.init 0 srw)}") else (s, "bad-op")
    | none => (s, "bad-op")
  | ["stream", off, len, fin, alloc] =>
    match u64? off, u64? len, (if fin == "0" then some false else if fin == "1" then some true else none), u64? alloc with
    | some off, some len, some fin, some alloc =>
      if len > 65536 ∨ alloc > 2^20 then (s, "bad-op") else
      let res :=
        if !s.rlive || !s.rv.isReceiving then "ok"
        else match s.rv.ingest off len fin 0 rcvMaxData with
          | none => "panic"
          | some (.error e) => rcvErr e
          | some (.ok _) => "ok"
      rcvDeliver s (.stream off (groundBytes off len) fin) alloc res
    | _, _, _, _ => (s, "bad-op")
  | ["reset", code, fo] =>
    match u64? code, u64? fo with
    | some code, some fo =>
      if code ≥ 2^62 ∨ fo ≥ 2^62 then (s, "bad-op") else
      let res :=
        if !s.rlive then "ok"
        else match s.rv.reset code fo 0 rcvMaxData with
          | none => "panic"
          | some (.error e) => rcvErr e
          | some (.ok _) => "ok"
      rcvDeliver s (.reset code fo) 0 res
    | _, _ => (s, "bad-op")
  | "read" :: m :: max :: obs =>
    match parseMode m, u64? max with
    | some ordered, some max =>
      if !s.rlive || s.rv.stopped then (s, s!"err ClosedStream {rcvView s}")
      else if ordered && s.asm.a.unordered then (s, s!"err IllegalOrderedRead {rcvView s}")
      else
        let o : Option Assembler.Obs := match obs with
          | ["none"] => some .none
          | ["chunk", off, len] => (match u64? off, u64? len with
            | some off, some len => some (.chunk off len)
            | _, _ => none)
          | _ => none
        match o with
        | none => (s, "invalid-choice")
        | some o =>
          match E2E.read s max ordered o with
          | none => (s, "invalid-choice")
          | some s' =>
            let res := match o with
              | .chunk _ _ => (match s'.asm.chunks with
                | (_, off, bytes) :: _ => s!"chunk {off} {toHex bytes}"
                | [] => "invalid-choice")
              | .none =>
                if s'.rlive then "blocked"
                else if s'.eos then "fin"
                else match s'.sawReset with
                  | some c => s!"reset {c}"
                  | none => "invalid-choice"
            (s', s!"{res} {rcvView s'}")
    | _, _ => (s, "bad-op")
  | ["open", m] =>
    match parseMode m with
    | some ordered =>
      if !s.rlive || s.rv.stopped then (s, s!"err ClosedStream {rcvView s}")
      else if ordered && s.asm.a.unordered then (s, s!"err IllegalOrderedRead {rcvView s}")
      else match E2E.openRead s ordered with
        | some s' => (s', s!"ok {rcvView s'}")
        | none => (s, "panic")
    | none => (s, "bad-op")
  | ["stop", code] =>
    match u64? code with
    | some code =>
      if code ≥ 2^62 then (s, "bad-op") else
      if !s.rlive || s.rv.stopped then (s, s!"err ClosedStream {rcvView s}")
      else match E2E.stop s code with
        | some s' => (s', s!"ok {rcvView s'}")
        | none => (s, "panic")
    | none => (s, "bad-op")
  | _ => (s, "bad-op")

end QM.Drv
