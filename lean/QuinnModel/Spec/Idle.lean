/-
RFC 9000 10.1 (idle timeout), written from the RFC text only.
"Each endpoint advertises a max_idle_timeout, but the effective value at an endpoint is computed as the minimum of
the two advertised values (or the sole advertised value, if only one endpoint advertises a non-zero value)."
"Idle timeout is disabled when both endpoints omit this transport parameter or specify a value of 0." (18.2)
"To avoid excessively small idle timeout periods, endpoints MUST increase the idle timeout period to be at least
three times the current Probe Timeout (PTO)."
Values are milliseconds (the unit does not matter); `none` = parameter absent.
-/
namespace QM.Spec

/-- an advertised value that takes part in the negotiation: present and non-zero -/
def advertised : Option Nat → Option Nat
  | some 0 => none
  | o => o

/-- the effective idle timeout of a connection (`none` = the connection never times out) -/
def negotiatedIdle (a b : Option Nat) : Option Nat :=
  match advertised a, advertised b with
  | none, none => none
  | some x, none => some x
  | none, some y => some y
  | some x, some y => some (min x y)

/-- how long the connection may stay idle: the negotiated timeout, but at least three probe timeouts -/
def idlePeriod (timeout pto : Nat) : Nat := max timeout (3 * pto)

/-- how long a closed connection lingers before it is drained: three probe timeouts (10.2) -/
def closingPeriod (pto : Nat) : Nat := 3 * pto

end QM.Spec
