import QuinnModel.Util
import QuinnModel.Gen.C09Consts
/-
Model of the endpoint's routing state, quinn-proto/src/endpoint.rs:
`ConnectionIndex` (five tables, `insert_initial_incoming`, `remove_initial`, `insert_initial`,
`insert_conn`, `retire`, `remove`, `get`), `ResetTokenTable`, `ConnectionMeta`, the two `Slab`s
(`connections`, `incoming_buffers`; slab 0.4 free list: the most recently vacated key is reused first),
and the part of `Endpoint` that maintains them: `handle_event`, `send_new_identifiers`, `new_cid`,
`cids_exhausted`, `connect`, `handle` (routing + first Initial), `accept`, `refuse`/`ignore`
(`clean_up_incoming`), `add_connection`.

Conventions: hash maps are association lists (`alookup`/`ainsert`/`aerase` obey the map laws, proved in
Lemmas/Index); `Option` results are `none` exactly where the Rust panics (debug build) or, for `newCid`,
where the explicit CID source runs dry (the real generators never do).  Cryptography, TLS and the
connection state machine are inputs: `tlsOk` (does `start_session` succeed), `AcceptMode` (which exit
`accept` takes).  Connection IDs are an explicit input (`cands`).
-/
namespace QM.Index

abbrev Cid := List Nat
abbrev Token := List Nat

/-- `SocketAddr` (IPv4): address as a 32-bit number, port -/
structure Addr where
  ip : Nat
  port : Nat
deriving DecidableEq, Repr

/-- `FourTuple { remote, local_ip }` -/
structure FourTuple where
  remote : Addr
  localIp : Option Nat
deriving DecidableEq, Repr

inductive Side | client | server
deriving DecidableEq, Repr

/-- `RouteDatagramTo` -/
inductive RouteTo
  | incoming (idx : Nat)
  | connection (ch : Nat)
deriving DecidableEq, Repr

/-! ### hash maps -/

def alookup {κ ν : Type} [DecidableEq κ] (k : κ) : List (κ × ν) → Option ν
  | [] => none
  | (k', v) :: r => if k' = k then some v else alookup k r

def aerase {κ ν : Type} [DecidableEq κ] (k : κ) (l : List (κ × ν)) : List (κ × ν) :=
  l.filter (fun e => !decide (e.1 = k))

/-- `HashMap::insert` (the previous value, if any, is replaced) -/
def ainsert {κ ν : Type} [DecidableEq κ] (k : κ) (v : ν) (l : List (κ × ν)) : List (κ × ν) :=
  (k, v) :: aerase k l

/-! ### slab 0.4 -/

inductive Entry (α : Type)
  | occupied (v : α)
  | vacant (next : Nat)
deriving Repr, DecidableEq

structure Slab (α : Type) where
  entries : List (Entry α)
  next : Nat
deriving Repr, DecidableEq

namespace Slab
variable {α : Type}

def empty : Slab α := ⟨[], 0⟩

/-- `Slab::get` -/
def get (s : Slab α) (k : Nat) : Option α :=
  match s.entries[k]? with
  | some (.occupied v) => some v
  | _ => none

/-- `Slab::vacant_key` -/
def vacantKey (s : Slab α) : Nat := s.next

/-- `Slab::insert_at`; `none` = `unreachable!()` -/
def insertAt (s : Slab α) (key : Nat) (v : α) : Option (Slab α) :=
  if key = s.entries.length then some ⟨s.entries ++ [.occupied v], key + 1⟩
  else match s.entries[key]? with
    | some (.vacant nx) => some ⟨s.entries.set key (.occupied v), nx⟩
    | _ => none

/-- `Slab::insert` -/
def insert (s : Slab α) (v : α) : Option (Nat × Slab α) :=
  match s.insertAt s.next v with
  | some s' => some (s.next, s')
  | none => none

/-- `Slab::try_remove` -/
def tryRemove (s : Slab α) (key : Nat) : Option α × Slab α :=
  match s.entries[key]? with
  | some (.occupied v) => (some v, ⟨s.entries.set key (.vacant s.next), key⟩)
  | _ => (none, s)

/-- `Slab::remove`: panics on an invalid key -/
def remove (s : Slab α) (key : Nat) : Option (α × Slab α) :=
  match s.tryRemove key with
  | (some v, s') => some (v, s')
  | (none, _) => none

/-- `IndexMut`: overwrite an occupied entry (the caller has just read it) -/
def set (s : Slab α) (key : Nat) (v : α) : Slab α :=
  ⟨s.entries.set key (.occupied v), s.next⟩

def len (s : Slab α) : Nat :=
  (s.entries.filter (fun e => match e with | .occupied _ => true | .vacant _ => false)).length

/-- occupied entries with their keys, ascending -/
def toList (s : Slab α) : List (Nat × α) :=
  let rec go : Nat → List (Entry α) → List (Nat × α)
    | _, [] => []
    | i, .occupied v :: r => (i, v) :: go (i + 1) r
    | i, .vacant _ :: r => go (i + 1) r
  go 0 s.entries

end Slab

/-! ### endpoint state -/

/-- `ConnectionMeta` -/
structure Meta where
  initCid : Cid
  cidsIssued : Nat
  locCids : List (Nat × Cid)
  addresses : FourTuple
  side : Side
  resetToken : Option (Addr × Token)
deriving Repr, DecidableEq

/-- `ConnectionIndex`; `tokens` is `ResetTokenTable` flattened to `(remote, token) ↦ handle` -/
structure Index where
  idsInitial : List (Cid × RouteTo) := []
  ids : List (Cid × Nat) := []
  inRemotes : List (FourTuple × Nat) := []
  outRemotes : List (Addr × Nat) := []
  tokens : List ((Addr × Token) × Nat) := []
deriving Repr, DecidableEq

/-- an `Incoming` held by the application (its `IncomingBuffer` sits in `incoming_buffers[idx]`) -/
structure Pending where
  addresses : FourTuple
  dcid : Cid
deriving Repr, DecidableEq

structure State where
  /-- `local_cid_generator.cid_len()` -/
  cidLen : Nat
  /-- `server_config.has_preferred_address()` -/
  prefAddr : Bool
  index : Index := {}
  conns : Slab Meta := Slab.empty
  incoming : Slab Pending := Slab.empty
deriving Repr, DecidableEq

def init (cidLen : Nat) (prefAddr : Bool) : State := { cidLen, prefAddr }

/-! ### `ConnectionIndex` -/

def Index.insertInitialIncoming (ix : Index) (dst : Cid) (key : Nat) : Index :=
  if dst.isEmpty then ix else { ix with idsInitial := ainsert dst (.incoming key) ix.idsInitial }

/-- `none` = `debug_assert!(removed.is_some())` fails -/
def Index.removeInitial (ix : Index) (dst : Cid) : Option Index :=
  if dst.isEmpty then some ix else
  match alookup dst ix.idsInitial with
  | some _ => some { ix with idsInitial := aerase dst ix.idsInitial }
  | none => none

def Index.insertInitial (ix : Index) (dst : Cid) (ch : Nat) : Index :=
  if dst.isEmpty then ix else { ix with idsInitial := ainsert dst (.connection ch) ix.idsInitial }

def Index.insertConn (ix : Index) (addresses : FourTuple) (dst : Cid) (ch : Nat) (side : Side) : Index :=
  if dst.length = 0 then
    match side with
    | .server => { ix with inRemotes := ainsert addresses ch ix.inRemotes }
    | .client => { ix with outRemotes := ainsert addresses.remote ch ix.outRemotes }
  else { ix with ids := ainsert dst ch ix.ids }

def Index.retire (ix : Index) (dst : Cid) : Index := { ix with ids := aerase dst ix.ids }

def eraseAll (cs : List Cid) (l : List (Cid × Nat)) : List (Cid × Nat) :=
  cs.foldl (fun l c => aerase c l) l

/-- `ConnectionIndex::remove`: the tuple / remote entries are dropped only when they still belong to the
    connection being removed (a newer zero-length-CID connection may have claimed the key since) -/
def Index.remove (ix : Index) (ch : Nat) (conn : Meta) : Option Index :=
  match (if conn.side = .server then ix.removeInitial conn.initCid else some ix) with
  | none => none
  | some ix1 =>
    let ix2 := { ix1 with ids := eraseAll (conn.locCids.map (fun (e : Nat × Cid) => e.2)) ix1.ids }
    let ix3 := if alookup conn.addresses ix2.inRemotes = some ch
      then { ix2 with inRemotes := aerase conn.addresses ix2.inRemotes } else ix2
    let ix4 := if alookup conn.addresses.remote ix3.outRemotes = some ch
      then { ix3 with outRemotes := aerase conn.addresses.remote ix3.outRemotes } else ix3
    some (match conn.resetToken with
      | some k => { ix4 with tokens := aerase k ix4.tokens }
      | none => ix4)

/-- what `ConnectionIndex::get` reads from a datagram -/
structure Dgram where
  /-- `is_initial() || is_0rtt()` -/
  initialOr0rtt : Bool
  dstCid : Cid
  /-- `PartialDecode::data()`: the bytes of the first packet -/
  data : Bytes

/-- `ConnectionIndex::get` -/
def Index.get (ix : Index) (addresses : FourTuple) (d : Dgram) : Option RouteTo :=
  match (if !d.dstCid.isEmpty then alookup d.dstCid ix.ids else none) with
  | some ch => some (.connection ch)
  | none =>
  match (if d.initialOr0rtt then alookup d.dstCid ix.idsInitial else none) with
  | some r => some r
  | none =>
  match (if d.dstCid.isEmpty then alookup addresses ix.inRemotes else none) with
  | some ch => some (.connection ch)
  | none =>
  match (if d.dstCid.isEmpty then alookup addresses.remote ix.outRemotes else none) with
  | some ch => some (.connection ch)
  | none =>
  if d.data.length < Gen.cidxResetTokenSize then none
  else match alookup (addresses.remote, d.data.drop (d.data.length - Gen.cidxResetTokenSize)) ix.tokens with
    | some ch => some (.connection ch)
    | none => none

/-! ### `Endpoint` -/

/-- `Endpoint::cids_exhausted` -/
def cidsExhausted (s : State) : Bool :=
  if s.cidLen = 0 ∨ s.cidLen > Gen.cidxExhaustedMaxLen then false
  else
    let bits := s.cidLen * Gen.cidxExhaustedBitsPerByte
    decide (s.index.ids.length > 2 ^ bits - 2 ^ (bits - Gen.cidxExhaustedReserveShift))

/-- `local_cid_generator.generate_cid()` where the result is not registered (`initial_close`: "we don't
    need to worry about CID collisions in initial closes"); `none` = candidates exhausted -/
def genCid (s : State) : List Cid → Option (Cid × List Cid)
  | [] => if s.cidLen = 0 then some ([], []) else none
  | c :: rest => if s.cidLen = 0 then some ([], c :: rest) else some (c, rest)

/-- `Endpoint::new_cid`: the generator's successive outputs are `cands` (a zero-length generator returns
    the empty CID and consumes nothing); `none` = candidates exhausted, or the `debug_assert_eq!` on an
    empty CID from a non-zero-length generator -/
def newCid (s : State) (ch : Nat) : List Cid → Option (Cid × State × List Cid)
  | [] => if s.cidLen = 0 then some ([], s, []) else none
  | c :: rest =>
    if s.cidLen = 0 then some ([], s, c :: rest)
    else if c.isEmpty then none
    else match alookup c s.index.ids with
      | none => some (c, { s with index := { s.index with ids := ainsert c ch s.index.ids } }, rest)
      | some _ => newCid s ch rest

/-- `Endpoint::send_new_identifiers`; returns the `IssuedCid`s (sequence, id) -/
def sendNewIdentifiers (s : State) (ch : Nat) : Nat → List Cid → Option (State × List (Nat × Cid) × List Cid)
  | 0, cands => some (s, [], cands)
  | n + 1, cands =>
    match newCid s ch cands with
    | none => none
    | some (id, s1, c1) =>
      match s1.conns.get ch with
      | none => none                                  -- `self.connections[ch]` panics
      | some m =>
        let seq := m.cidsIssued
        let m' := { m with cidsIssued := m.cidsIssued + 1, locCids := ainsert seq id m.locCids }
        match sendNewIdentifiers { s1 with conns := s1.conns.set ch m' } ch n c1 with
        | none => none
        | some (s2, ids, c2) => some (s2, (seq, id) :: ids, c2)

/-- `Endpoint::add_connection` (the `Connection` object itself is not part of the routing state) -/
def addConnection (s : State) (ch : Nat) (initCid locCid : Cid) (addresses : FourTuple) (side : Side)
    (prefAddrCid : Option Cid) : Option State :=
  let locCids : List (Nat × Cid) := ainsert 0 locCid []
  let (cidsIssued, locCids) := match prefAddrCid with
    | some cid => (2, ainsert 1 cid locCids)
    | none => (1, locCids)
  match s.conns.insert ⟨initCid, cidsIssued, locCids, addresses, side, none⟩ with
  | none => none
  | some (id, conns) =>
    if id ≠ ch then none                               -- debug_assert_eq!(id, ch.0)
    else some { s with conns := conns, index := s.index.insertConn addresses locCid ch side }

inductive EndpointEvent
  | needIdentifiers (n : Nat)
  | resetToken (remote : Addr) (token : Token)
  | retireConnectionId (seq : Nat) (allowMoreCids : Bool)
  | drained

/-- `handle_event`, arm `ResetToken(remote, token)` -/
def evResetToken (s : State) (ch : Nat) (remote : Addr) (token : Token) : Option State :=
  match s.conns.get ch with
  | none => none                                    -- `self.connections[ch]` panics
  | some m =>
    let conns := s.conns.set ch { m with resetToken := some (remote, token) }
    let toks := match m.resetToken with
      | some old => aerase old s.index.tokens
      | none => s.index.tokens
    some { s with conns := conns, index := { s.index with tokens := ainsert (remote, token) ch toks } }

/-- `handle_event`, arm `RetireConnectionId(now, seq, allow_more_cids)` -/
def evRetire (s : State) (ch : Nat) (seq : Nat) (allowMoreCids : Bool) (cands : List Cid) :
    Option (State × Option (List (Nat × Cid))) :=
  match s.conns.get ch with
  | none => none                                    -- `self.connections[ch]` panics
  | some m =>
    match alookup seq m.locCids with
    | none => some (s, none)
    | some cid =>
      let s1 := { s with conns := s.conns.set ch { m with locCids := aerase seq m.locCids },
                         index := s.index.retire cid }
      if allowMoreCids then
        match sendNewIdentifiers s1 ch 1 cands with
        | none => none
        | some (s2, ids, _) => some (s2, some ids)
      else some (s1, none)

/-- `handle_event`, arm `Drained` -/
def evDrained (s : State) (ch : Nat) : Option State :=
  match s.conns.tryRemove ch with
  | (some conn, conns) =>
    match s.index.remove ch conn with
    | none => none
    | some ix => some { s with conns := conns, index := ix }
  | (none, _) => some s                             -- "unknown connection drained"

/-- `Endpoint::handle_event`; the result is the `NewIdentifiers` event, if any -/
def handleEvent (s : State) (ch : Nat) (cands : List Cid) :
    EndpointEvent → Option (State × Option (List (Nat × Cid)))
  | .needIdentifiers n =>
    match sendNewIdentifiers s ch n cands with
    | none => none
    | some (s', ids, _) => some (s', some ids)
  | .resetToken remote token => (evResetToken s ch remote token).map (fun s' => (s', none))
  | .retireConnectionId seq allowMoreCids => evRetire s ch seq allowMoreCids cands
  | .drained => (evDrained s ch).map (fun s' => (s', none))

inductive ConnectResult
  | ok (ch : Nat)
  | cidsExhausted
  | invalidRemoteAddress
  | invalidServerName
deriving DecidableEq, Repr

/-- `Endpoint::connect` (`remote_id` = `initCid` comes from `initial_dst_cid_provider`; `tlsOk` = whether
    `crypto.start_session(..)` succeeds; the supported-version test is a configuration constant) -/
def connect (s : State) (remote : Addr) (initCid : Cid) (tlsOk : Bool) (cands : List Cid) :
    Option (State × ConnectResult) :=
  if cidsExhausted s then some (s, .cidsExhausted)
  else if remote.port = 0 ∨ remote.ip = 0 then some (s, .invalidRemoteAddress)
  else
    let ch := s.conns.vacantKey
    match newCid s ch cands with
    | none => none
    | some (locCid, s1, _) =>
      if !tlsOk then                                     -- `start_session` failed: `index.retire(loc_cid)`
        some ({ s1 with index := s1.index.retire locCid }, .invalidServerName)
      else match addConnection s1 ch initCid locCid ⟨remote, none⟩ .client none with
        | none => none
        | some s2 => some (s2, .ok ch)

inductive FirstResult
  | routed (r : RouteTo)
  | new (idx : Nat)
deriving DecidableEq, Repr

/-- `Endpoint::handle` for a datagram that starts with an Initial packet: route it; only if no table
    claims it does `handle_first_packet` register a new attempt (its size / saturation / version /
    token exits drop the datagram without touching the tables and are not modelled) -/
def firstPacket (s : State) (addresses : FourTuple) (dcid : Cid) (data : Bytes) : Option (State × FirstResult) :=
  match s.index.get addresses ⟨true, dcid, data⟩ with
  | some r => some (s, .routed r)
  | none =>
    match s.incoming.insert ⟨addresses, dcid⟩ with
    | none => none
    | some (idx, inc) =>
      some ({ s with incoming := inc, index := s.index.insertInitialIncoming dcid idx }, .new idx)

/-- which exit `Endpoint::accept` takes (time, AEAD and the connection's reaction to the first packet
    are inputs) -/
inductive AcceptMode | ok | stale | auth | badPacket
deriving DecidableEq, Repr

inductive AcceptResult
  | ok (ch : Nat)
  | timedOut
  | cidsExhausted
  | authFailed
  | firstPacketFailed
deriving DecidableEq, Repr

/-- `Endpoint::accept` -/
def accept (s : State) (idx : Nat) (mode : AcceptMode) (cands : List Cid) : Option (State × AcceptResult) :=
  match s.incoming.remove idx with
  | none => none
  | some (p, inc) =>
    let s0 := { s with incoming := inc }
    let fail (r : AcceptResult) : Option (State × AcceptResult) :=
      match s0.index.removeInitial p.dcid with
      | none => none
      | some ix => some ({ s0 with index := ix }, r)
    if mode = .stale then fail .timedOut
    else if cidsExhausted s0 then
      match genCid s0 cands with                        -- response: `initial_close`
      | none => none
      | some _ => fail .cidsExhausted
    else if mode = .auth then fail .authFailed
    else
      let ch := s0.conns.vacantKey
      match newCid s0 ch cands with
      | none => none
      | some (locCid, s1, c1) =>
        match (if s1.prefAddr then
                 match newCid s1 ch c1 with
                 | none => none
                 | some (cid, s2, c2) => some (some cid, s2, c2)
               else some (none, s1, c1)) with
        | none => none
        | some (pref, s2, c2) =>
          match addConnection s2 ch p.dcid locCid p.addresses .server pref with
          | none => none
          | some s3 =>
            let s4 := { s3 with index := s3.index.insertInitial p.dcid ch }
            if mode = .badPacket then
              match evDrained s4 ch, genCid s4 c2 with             -- `handle_event(ch, Drained)`
              | some s5, some _ => some (s5, .firstPacketFailed)     -- response: `initial_close`
              | _, _ => none
            else some (s4, .ok ch)

/-- `Endpoint::clean_up_incoming` (`refuse`, `ignore`, `retry`) -/
def cleanUpIncoming (s : State) (idx : Nat) : Option State :=
  match s.incoming.get idx with
  | none => none
  | some p =>
    match s.index.removeInitial p.dcid with
    | none => none
    | some ix =>
      match s.incoming.remove idx with
      | none => none
      | some (_, inc) => some { s with index := ix, incoming := inc }

/-- `Endpoint::refuse`: `clean_up_incoming`, then `initial_close` draws a source CID -/
def refuse (s : State) (idx : Nat) (cands : List Cid) : Option State :=
  match cleanUpIncoming s idx with
  | none => none
  | some s' =>
    match genCid s' cands with
    | none => none
    | some _ => some s'

/-! ### histories -/

inductive Op
  | connect (remote : Addr) (initCid : Cid) (tlsOk : Bool) (cands : List Cid)
  | first (addresses : FourTuple) (dcid : Cid) (data : Bytes)
  | accept (idx : Nat) (mode : AcceptMode) (cands : List Cid)
  | cleanUp (idx : Nat)
  | refuse (idx : Nat) (cands : List Cid)
  | event (ch : Nat) (cands : List Cid) (ev : EndpointEvent)

/-- one API call; `none` = the real call panics (or the CID source ran dry) -/
def step (s : State) : Op → Option State
  | .connect r i t c => (connect s r i t c).map (·.1)
  | .first a d b => (firstPacket s a d b).map (·.1)
  | .accept i m c => (accept s i m c).map (·.1)
  | .cleanUp i => cleanUpIncoming s i
  | .refuse i c => refuse s i c
  | .event ch c ev => (handleEvent s ch c ev).map (·.1)

def runFrom (s : State) : List Op → Option State
  | [] => some s
  | op :: ops => match step s op with
    | none => none
    | some s' => runFrom s' ops

def run (cidLen : Nat) (prefAddr : Bool) (ops : List Op) : Option State :=
  runFrom (init cidLen prefAddr) ops

/-- `Endpoint::handle` up to the routing decision, for any datagram -/
def route (s : State) (addresses : FourTuple) (d : Dgram) : Option RouteTo := s.index.get addresses d

end QM.Index
