import QuinnModel.Endpoint.BloomLog
/-
Model of quinn-proto/src/token.rs: token payload coding (`Token::encode` / `Token::decode`) and the
validation decision `IncomingToken::from_header`.

AEAD (`HandshakeTokenKey::aead_from_hkdf(nonce)` then `seal` / `open` with empty AAD) is the parameter
`Aead`: `seal key nonce plaintext` / `open key nonce sealed`.  The model functions use only `open`
and `seal`; the ideal-AEAD laws are the separate structure `Ideal` which theorems take as a hypothesis
(never an axiom).  The driver instantiates `Aead` with the table of seal outputs it has been shown
(the ideal functionality) plus a concrete null AEAD used to exercise the payload decoder.
Time: `SystemTime` = Nat ns since the epoch; token payloads carry whole seconds.
-/
namespace QM.Token
open QM

inductive Ip where
  | v4 (octets : Bytes)      -- 4 octets
  | v6 (octets : Bytes)      -- 16 octets
deriving Repr, DecidableEq

/-- `SocketAddr`: equality of the V6 form includes flowinfo and scope_id, as `PartialEq for SocketAddrV6` -/
inductive Addr where
  | v4 (octets : Bytes) (port : Nat)
  | v6 (octets : Bytes) (port flowinfo scopeId : Nat)
deriving Repr, DecidableEq

def Addr.ip : Addr → Ip
  | .v4 o _ => .v4 o
  | .v6 o _ _ _ => .v6 o

def Addr.port : Addr → Nat
  | .v4 _ p => p
  | .v6 _ p _ _ => p

/-- `SocketAddr::new(ip, port)` -/
def Addr.new : Ip → Nat → Addr
  | .v4 o, p => .v4 o p
  | .v6 o, p => .v6 o p 0 0

/-- `TokenPayload`; `issued` in whole seconds since the epoch (what `encode_unix_secs` keeps) -/
inductive Payload where
  | retry (address : Addr) (origDstCid : Bytes) (issued : Nat)
  | validation (ip : Ip) (issued : Nat)
deriving Repr, DecidableEq

/-- three-valued result of a decoder that may panic -/
inductive Res (α : Type) where
  | panic
  | none
  | ok (a : α)
deriving Repr, DecidableEq

/-! ### payload encoding -/

def encodeIp : Ip → Bytes
  | .v4 o => Gen.tokenIpTagV4 :: o
  | .v6 o => Gen.tokenIpTagV6 :: o

def encodeAddr (a : Addr) : Bytes := encodeIp a.ip ++ beBytes 2 a.port

/-- `ConnectionId::encode_long` -/
def encodeCid (c : Bytes) : Bytes := c.length :: c

/-- `encode_unix_secs` -/
def encodeSecs (secs : Nat) : Bytes := beBytes 8 secs

/-- the plaintext `Token::encode` builds before sealing -/
def encodePayload : Payload → Bytes
  | .retry a c i => Gen.tokenTypeRetry :: (encodeAddr a ++ encodeCid c ++ encodeSecs i)
  | .validation ip i => Gen.tokenTypeValidation :: (encodeIp ip ++ encodeSecs i)

/-! ### payload decoding (each step returns the remaining input) -/

def decodeIp : Bytes → Option (Ip × Bytes)
  | [] => none
  | t :: r =>
    if t = Gen.tokenIpTagV4 then
      if r.length < 4 then none else some (.v4 (r.take 4), r.drop 4)
    else if t = Gen.tokenIpTagV6 then
      if r.length < 16 then none else some (.v6 (r.take 16), r.drop 16)
    else none

def decodeAddr (b : Bytes) : Option (Addr × Bytes) :=
  match decodeIp b with
  | none => none
  | some (ip, r) =>
    if r.length < 2 then none else some (Addr.new ip (beVal (r.take 2)), r.drop 2)

/-- `ConnectionId::decode_long` -/
def decodeCid : Bytes → Option (Bytes × Bytes)
  | [] => none
  | len :: r =>
    if len > Gen.maxCidSize ∨ r.length < len then none else some (r.take len, r.drop len)

/-- `decode_unix_secs`: `UNIX_EPOCH + Duration::from_secs(x)` panics when not representable -/
def decodeSecs (b : Bytes) : Res (Nat × Bytes) :=
  if b.length < 8 then .none
  else
    let x := beVal (b.take 8)
    if x * SysTime.nsPerSec < SysTime.limit then .ok (x, b.drop 8) else .panic

/-- the part of `Token::decode` after the AEAD has opened -/
def decodePayload : Bytes → Res Payload
  | [] => .none
  | ty :: r =>
    if ty = Gen.tokenTypeRetry then
      match decodeAddr r with
      | none => .none
      | some (a, r1) => match decodeCid r1 with
        | none => .none
        | some (c, r2) => match decodeSecs r2 with
          | .panic => .panic
          | .none => .none
          | .ok (i, r3) => if r3.isEmpty then .ok (.retry a c i) else .none
    else if ty = Gen.tokenTypeValidation then
      match decodeIp r with
      | none => .none
      | some (ip, r1) => match decodeSecs r1 with
        | .panic => .panic
        | .none => .none
        | .ok (i, r2) => if r2.isEmpty then .ok (.validation ip i) else .none
    else .none

/-! ### AEAD as a parameter -/

structure Aead where
  sealWith : Nat → Nat → Bytes → Bytes
  openWith : Nat → Nat → Bytes → Option Bytes

/-- Ideal AEAD as seen by the holder of `key`.  `S nonce plaintext` is the set of plaintexts that have
    been sealed under `key` (take `fun _ _ => True` when nothing is known about what was sealed):
    `open` under `key` succeeds exactly on the `seal` outputs of members of `S` (correctness +
    ciphertext integrity).  Hypothesis of the C14 theorems, never an axiom. -/
structure Ideal (A : Aead) (key : Nat) (S : Nat → Bytes → Prop) : Prop where
  open_seal : ∀ n pt, S n pt → A.openWith key n (A.sealWith key n pt) = some pt
  open_only : ∀ n s pt, A.openWith key n s = some pt → S n pt ∧ s = A.sealWith key n pt

/-- little-endian bytes of `x` on `n` bytes -/
def leBytes : Nat → Nat → Bytes
  | 0, _ => []
  | n+1, x => (x % 256) :: leBytes n (x / 256)

def leVal : Bytes → Nat
  | [] => 0
  | b :: r => b + 256 * leVal r

/-- `Token::encode` -/
def encode (A : Aead) (key nonce : Nat) (p : Payload) : Bytes :=
  A.sealWith key nonce (encodePayload p) ++ leBytes Gen.tokenNonceBytes nonce

/-- `Token::decode`: (nonce, payload) -/
def decode (A : Aead) (key : Nat) (raw : Bytes) : Res (Nat × Payload) :=
  if raw.length < Gen.tokenNonceBytes then .none            -- checked_sub
  else
    let start := raw.length - Gen.tokenNonceBytes
    let nonce := leVal (raw.drop start)
    match A.openWith key nonce (raw.take start) with
    | none => .none
    | some data => match decodePayload data with
      | .panic => .panic
      | .none => .none
      | .ok p => .ok (nonce, p)

/-! ### the validation decision -/

structure Cfg where
  key : Nat
  /-- `retry_token_lifetime`, ns -/
  retryLifetime : Nat
  /-- `validation_token.lifetime`, ns -/
  validationLifetime : Nat
deriving Repr

/-- `IncomingToken` -/
structure Incoming where
  retrySrcCid : Option Bytes
  origDstCid : Bytes
  validated : Bool
deriving Repr, DecidableEq

inductive Decision where
  | ok (t : Incoming)
  /-- `Err(InvalidRetryTokenError)`: the endpoint answers with INVALID_TOKEN -/
  | invalidRetry
  | panic
deriving Repr, DecidableEq

def unvalidated (dstCid : Bytes) : Incoming := ⟨none, dstCid, false⟩

/-- `IncomingToken::from_header`.  `log ls nonce issued lifetime` is `TokenLog::check_and_insert`
    (`none` = it panicked, `some (ls', true)` = `Ok(())`). -/
def fromHeader {σ : Type} (A : Aead) (cfg : Cfg) (log : σ → Nat → Nat → Nat → Option (σ × Bool)) (ls : σ)
    (token dstCid : Bytes) (remote : Addr) (now : Nat) : σ × Decision :=
  if token.isEmpty then (ls, .ok (unvalidated dstCid))
  else match decode A cfg.key token with
    | .panic => (ls, .panic)
    | .none => (ls, .ok (unvalidated dstCid))
    | .ok (_, .retry address origDstCid issued) =>
      if address ≠ remote then (ls, .invalidRetry)
      else match SysTime.add (issued * SysTime.nsPerSec) cfg.retryLifetime with
        | none => (ls, .panic)
        | some expires =>
          if Gen.tokenRetryExpired expires now then (ls, .invalidRetry)
          else (ls, .ok ⟨some dstCid, origDstCid, true⟩)
    | .ok (nonce, .validation ip issued) =>
      if ip ≠ remote.ip then (ls, .ok (unvalidated dstCid))
      else match SysTime.add (issued * SysTime.nsPerSec) cfg.validationLifetime with
        | none => (ls, .panic)
        | some expires =>
          if Gen.tokenValidationExpired expires now then (ls, .ok (unvalidated dstCid))
          else match log ls nonce (issued * SysTime.nsPerSec) cfg.validationLifetime with
            | none => (ls, .panic)
            | some (ls', accepted) =>
              if accepted then (ls', .ok ⟨none, dstCid, true⟩)
              else (ls', .ok (unvalidated dstCid))

end QM.Token
