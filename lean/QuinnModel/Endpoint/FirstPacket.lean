import QuinnModel.Gen.Conn
import QuinnModel.Gen.Conn2
/-
Model of what `Endpoint::handle` does with a datagram (quinn-proto/src/endpoint.rs `handle`: partial decode,
Version Negotiation, routing cascade; `handle_first_packet`: the checks a connection-creating Initial passes, in
order). The order of the MIN_INITIAL_SIZE test and the bound on the Version Negotiation reply are GENERATED from
the source (`Gen.firstPacketSizeCheckFirst`, `Gen.vnReplyBounded`); cryptographic and policy checks are inputs.
-/
namespace QM.FirstPacket

inductive Decode where
  | malformed
  /-- long header with a version we do not support; `replyLen` = size of the Version Negotiation packet -/
  | unsupportedVersion (replyLen : Nat)
  /-- supported-version Initial -/
  | initial
  /-- Handshake / 0-RTT / Retry / Version Negotiation -/
  | otherLong
  | short (cidValid cidNonEmpty : Bool)
deriving Repr, DecidableEq

/-- where `ConnectionIndex::get` sends the datagram -/
inductive Route where
  | nowhere
  /-- a pending `Incoming` (not yet accepted): the datagram is buffered if the limits permit -/
  | incoming (room : Bool)
  | connection
deriving Repr, DecidableEq

structure Dg where
  len : Nat
  decode : Decode
  route : Route
deriving Repr, DecidableEq

/-- the part of the endpoint state a first packet can change -/
structure Ep where
  server : Bool
  /-- number of `IncomingBuffer`s (= pending connection attempts registered in the index) -/
  incoming : Nat
  /-- bytes buffered for pending attempts -/
  buffered : Nat
  /-- `cids_exhausted() || incoming_buffers.len() >= max_incoming` -/
  saturated : Bool
deriving Repr, DecidableEq

/-- outcome of the checks that are not modelled further -/
structure Checks where
  cryptoVersionOk : Bool
  earlyValidateOk : Bool
  headerOk : Bool
  tokenOk : Bool
deriving Repr, DecidableEq

inductive Out where
  | nothing
  | versionNegotiation (n : Nat)
  | toConnection
  | buffered
  | newIncoming
  /-- CONNECTION_CLOSE reply (`initial_close`) -/
  | refused
  /-- `stateless_reset` is consulted (see Endpoint/Reset.lean for its size and rate) -/
  | resetAttempt
deriving Repr, DecidableEq

def firstPacket (e : Ep) (d : Dg) (k : Checks) : Ep × Out :=
  if !e.server then (e, .resetAttempt)
  else if Gen.firstPacketSizeCheckFirst && decide (d.len < Gen.libMinInitialSize) then (e, .nothing)
  else if e.saturated then (e, .nothing)
  else if !k.cryptoVersionOk then (e, .nothing)
  else if !k.earlyValidateOk then (e, .refused)
  else if !k.headerOk then (e, .nothing)
  else if !k.tokenOk then (e, .refused)
  else ({ e with incoming := e.incoming + 1 }, .newIncoming)

def handle (e : Ep) (d : Dg) (k : Checks) : Ep × Out :=
  match d.decode with
  | .malformed => (e, .nothing)
  | .unsupportedVersion n =>
    if !e.server then (e, .nothing)
    else if Gen.vnReplyBounded && decide (n > 3 * d.len) then (e, .nothing)
    else (e, .versionNegotiation n)
  | dec =>
    match d.route with
    | .incoming room => if room then ({ e with buffered := e.buffered + d.len }, .buffered) else (e, .nothing)
    | .connection => (e, .toConnection)
    | .nowhere =>
      match dec with
      | .initial => firstPacket e d k
      | .otherLong => (e, .nothing)
      | .short cidValid cidNonEmpty =>
        if !cidValid then (e, .nothing) else if !cidNonEmpty then (e, .nothing) else (e, .resetAttempt)
      | _ => (e, .nothing)

end QM.FirstPacket
