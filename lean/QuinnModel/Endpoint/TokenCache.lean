import QuinnModel.Util
import QuinnModel.Gen.C14
/-
Model of quinn-proto/src/token_memory_cache.rs `TokenMemoryCache` (`State::{store,take}`).

`LruSlab` + `lookup: HashMap<name, slot>` are one list of entries ordered from most to least recently
used (the order `LruSlab::iter` walks); `lookup` is the set of names of that list (the executor prints
both and whether they agree).  `lru.get_mut(slot)` = move that entry to the front, `lru.insert` = push
at the front, `lru.lru()` = last element, `lru.remove` = erase.  Token queues are lists, front first.
The token type is a parameter: the driver instantiates it with bytes, the theorems with anything.
Panics (`unwrap`, `debug_assert!`) are the `none` outcome.
-/
namespace QM.TokenCache

structure Entry (α : Type) where
  name : String
  tokens : List α
deriving Repr

structure State (α : Type) where
  maxNames : Nat
  maxTokens : Nat
  lru : List (Entry α)
deriving Repr

/-- `TokenMemoryCache::new` -/
def init (maxNames maxTokens : Nat) : State α := ⟨maxNames, maxTokens, []⟩

/-- `TokenMemoryCache::default` -/
def default : State α := init Gen.tokenCacheDefaultServerNames Gen.tokenCacheDefaultTokensPerServer

/-- `lookup.get(name)` followed by unlinking the entry from the LRU list -/
def extract (name : String) : List (Entry α) → Option (Entry α × List (Entry α))
  | [] => none
  | e :: es =>
    if e.name = name then some (e, es)
    else match extract name es with
      | some (x, r) => some (x, e :: r)
      | none => none

/-- `State::store`; `none` = panic -/
def store (s : State α) (name : String) (tok : α) : Option (State α) :=
  if s.maxNames = 0 then some s
  else if s.maxTokens = 0 then some s
  else match extract name s.lru with
    | some (e, rest) =>
      -- Occupied: `lru.get_mut` freshens the entry, then the queue is bounded and pushed
      if Gen.tokenCacheQueueFull e.tokens.length s.maxTokens then
        if e.tokens.length ≠ s.maxTokens then none          -- debug_assert!(len == max)
        else match e.tokens with
          | [] => none                                       -- pop_front().unwrap()
          | _ :: tl => some { s with lru := ⟨name, tl ++ [tok]⟩ :: rest }
      else some { s with lru := ⟨name, e.tokens ++ [tok]⟩ :: rest }
    | none =>
      -- Vacant: evict the least recently used entry if the name bound is reached
      if Gen.tokenCacheNamesFull s.lru.length s.maxNames then
        match s.lru.getLast? with
        | none => none                                       -- lru().unwrap()
        | some _ => some { s with lru := ⟨name, [tok]⟩ :: s.lru.dropLast }
      else some { s with lru := ⟨name, [tok]⟩ :: s.lru }

/-- `State::take`; outer `none` = panic -/
def take (s : State α) (name : String) : Option (State α × Option α) :=
  match extract name s.lru with
  | none => some (s, none)
  | some (e, rest) =>
    match e.tokens with
    | [] => none                                             -- pop_front().unwrap()
    | t :: tl =>
      if tl.isEmpty then some ({ s with lru := rest }, some t)
      else some ({ s with lru := ⟨name, tl⟩ :: rest }, some t)

inductive Op (α : Type) where
  | insert (name : String) (tok : α)
  | take (name : String)
deriving Repr

/-- run a history; result: final state and the tokens handed out by `take`, in order; `none` = panic -/
def run (s : State α) : List (Op α) → Option (State α × List α)
  | [] => some (s, [])
  | .insert n t :: ops => match store s n t with
    | none => none
    | some s' => run s' ops
  | .take n :: ops => match take s n with
    | none => none
    | some (s', o) => match run s' ops with
      | none => none
      | some (s'', out) => some (s'', match o with | some t => t :: out | none => out)

end QM.TokenCache
