import QuinnModel.Util
import QuinnModel.Gen.C14
/-
Model of quinn-proto/src/bloom_token_log.rs `BloomTokenLog::check_and_insert`.

Time: `SystemTime` = Nat nanoseconds since the Unix epoch, `Duration` = Nat nanoseconds.
`SystemTime + Duration` panics when the result is not representable (`tv_sec: i64`).
Period / turn-over logic is exact.  A filter is the exact list of fingerprints inserted into it plus a
mode flag; while it is a hash set that list IS the filter; once it is a bloom filter the real filter
answers "present" for every listed fingerprint (no false negatives) and possibly for others: the
implementation's answer for an unlisted fingerprint and its decision to convert (driven by
`HashSet::capacity`) are inputs of the step (`Choice`), validated against what the code guarantees.
-/
namespace QM.SysTime

def nsPerSec : Nat := 1000000000
/-- first instant not representable as a `SystemTime` (seconds are an `i64`) -/
def limit : Nat := 2^63 * nsPerSec

/-- `SystemTime + Duration`; `none` = panic ("overflow when adding duration to instant") -/
def add (t d : Nat) : Option Nat := if t + d < limit then some (t + d) else none

end QM.SysTime

namespace QM.BloomLog

structure Filter where
  bloom : Bool
  items : List Nat
deriving Repr, DecidableEq

/-- `Filter::default()` -/
def Filter.empty : Filter := ⟨false, []⟩

/-- the implementation's observed free choices for one call -/
structure Choice where
  /-- the implementation answered `Ok` (used only for a fingerprint not known to be in a bloom filter) -/
  ok : Bool
  /-- `filter_1` / `filter_2` is a bloom filter after the call (used only for the filter the
      fingerprint was newly inserted into, and only while that is within the byte budget) -/
  bloom1 : Bool
  bloom2 : Bool
deriving Repr

/-- `Filter::check_and_insert`; result `true` = `Ok(())`, `false` = `Err(TokenReuseError)` -/
def Filter.checkAndInsert (f : Filter) (fp budget : Nat) (okObserved bloomAfter : Bool) : Filter × Bool :=
  if f.bloom then
    if fp ∈ f.items then (f, false)
    else (⟨true, fp :: f.items⟩, okObserved)                      -- a false positive is permitted
  else
    if fp ∈ f.items then (f, false)                          -- !hset.insert(fingerprint)
    else
      let items := fp :: f.items
      -- `capacity() * 8 <= filter_max_bytes` with capacity >= len: beyond the budget it must convert
      if Gen.bloomSetWithinBudget (items.length * 8) budget then (⟨bloomAfter, items⟩, true)
      else (⟨true, items⟩, true)

structure State where
  /-- `config.filter_max_bytes` -/
  budget : Nat
  /-- `period_1_start` -/
  p1 : Nat
  f1 : Filter
  f2 : Filter
deriving Repr, DecidableEq

/-- `BloomTokenLog::new(max_bytes, _)` -/
def init (maxBytes : Nat) : State := ⟨maxBytes / Gen.bloomFilterBudgetSplit, 0, Filter.empty, Filter.empty⟩

/-- `nonce as u64` -/
def fingerprint (nonce : Nat) : Nat := nonce % 2 ^ Gen.bloomFingerprintBits

/-- `BloomTokenLog::check_and_insert`; outer `none` = panic; `true` = `Ok(())` -/
def checkAndInsert (s : State) (nonce issued lifetime : Nat) (c : Choice) : Option (State × Bool) :=
  if lifetime = 0 then some (s, false)
  else match SysTime.add issued lifetime with
    | none => none
    | some expiresAt =>
      if expiresAt < s.p1 then some (s, false)               -- duration_since(period_1_start) is Err
      else
        let periodsForward := (expiresAt - s.p1) / lifetime
        let fp := fingerprint nonce
        if periodsForward = 0 then
          let (f, r) := s.f1.checkAndInsert fp s.budget c.ok c.bloom1
          some ({ s with f1 := f }, r)
        else if periodsForward = 1 then
          let (f, r) := s.f2.checkAndInsert fp s.budget c.ok c.bloom2
          some ({ s with f2 := f }, r)
        else if periodsForward < Gen.bloomTurnOverBoth then
          -- turn over filter 1 (`period_1_start + lifetime <= expires_at`, so `+=` cannot overflow)
          let (f, r) := Filter.empty.checkAndInsert fp s.budget c.ok c.bloom2
          some ({ s with f1 := s.f2, f2 := f, p1 := s.p1 + lifetime }, r)
        else
          -- turn over both filters
          let (f, r) := Filter.empty.checkAndInsert fp s.budget c.ok c.bloom1
          some ({ s with f1 := f, f2 := Filter.empty, p1 := expiresAt }, r)

/-- one presentation of a token to the log -/
structure Call where
  nonce : Nat
  issued : Nat
  choice : Choice
deriving Repr

/-- the (fingerprint, issue time) pairs accepted over a history with a fixed lifetime; a panicking call
    ends the history (the mutex is poisoned) -/
def accepted (lifetime : Nat) (s : State) : List Call → List (Nat × Nat)
  | [] => []
  | c :: cs => match checkAndInsert s c.nonce c.issued lifetime c.choice with
    | none => []
    | some (s', true) => (fingerprint c.nonce, c.issued) :: accepted lifetime s' cs
    | some (s', false) => accepted lifetime s' cs

end QM.BloomLog
