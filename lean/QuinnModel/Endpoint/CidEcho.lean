import QuinnModel.Util
import QuinnModel.Gen.CidEcho
/-
C14 (second half) — CID-echo authentication of transport parameters, and the CID bookkeeping that feeds it.

Mirrors, line by line:
* `Connection::handle_peer_params` (connection/mod.rs): `accept` is the negation of the guard, which is the
  GENERATED `Gen.cidEchoReject` (T1 translation of the Rust expression);
* the client bookkeeping: `Connection::new` as called by `Endpoint::connect` (`Client.connect`), and the
  `Header::Retry` / `Header::Initial` / `Header::Long{Handshake}` arms of
  `Connection::process_decrypted_packet` together with the accounting done by `handle_packet` before them
  (`Client.step`); the Retry discard test is the GENERATED `Gen.retryDiscarded`;
* what an honest server puts into the three parameters: `IncomingToken::from_header` +
  `Endpoint::accept` + `TransportParameters::new` (`honestEcho`), and what a server connection remembers
  (`serverCids`), what a client sends (`clientTP`).
A connection ID is a byte string of at most 20 bytes (`Bytes = List Nat`); nothing below depends on the
length or on the byte range, so the theorems hold for all lists.
-/
namespace QM.CidEcho
open QM

abbrev Cid := Bytes

inductive Side where
  | client
  | server
  deriving DecidableEq, Repr

def Side.isClient : Side → Bool
  | .client => true
  | .server => false

/-- the three CIDs of a `Connection` that `handle_peer_params` reads -/
structure Cids where
  /-- `orig_rem_cid`: "Source ConnectionId of the first packet received from the peer" -/
  origRem : Cid
  /-- `initial_dst_cid`: "Destination ConnectionId sent by the client on the first Initial" -/
  initialDst : Cid
  /-- `retry_src_cid`: SCID of the Retry that was followed, if any -/
  retrySrc : Option Cid
  deriving DecidableEq, Repr

/-- the three CID-echo transport parameters as received from the peer -/
structure EchoTP where
  initialSrc : Option Cid
  originalDst : Option Cid
  retrySrc : Option Cid
  deriving DecidableEq, Repr

/-- the guard of `handle_peer_params` (true = TRANSPORT_PARAMETER_ERROR "CID authentication failure") -/
def reject (side : Side) (c : Cids) (tp : EchoTP) : Bool :=
  Gen.cidEchoReject side.isClient c.origRem c.initialDst c.retrySrc tp.initialSrc tp.originalDst tp.retrySrc

/-- `handle_peer_params` returns `Ok(())` (the parameters are installed, the handshake goes on) -/
def accept (side : Side) (c : Cids) (tp : EchoTP) : Bool := !reject side c tp

/-! ### single-field corruptions -/

inductive Field where
  | initialSrc
  | originalDst
  | retrySrc
  deriving DecidableEq, Repr

def EchoTP.get (tp : EchoTP) : Field → Option Cid
  | .initialSrc => tp.initialSrc
  | .originalDst => tp.originalDst
  | .retrySrc => tp.retrySrc

/-- replace one parameter (by another CID, or drop it, or add it) -/
def EchoTP.set (tp : EchoTP) : Field → Option Cid → EchoTP
  | .initialSrc, v => { tp with initialSrc := v }
  | .originalDst, v => { tp with originalDst := v }
  | .retrySrc, v => { tp with retrySrc := v }

/-- which parameters each side authenticates in `handle_peer_params` -/
def checkedBy : Side → Field → Bool
  | _, .initialSrc => true
  | .client, _ => true
  | .server, _ => false

/-! ### client bookkeeping -/

/-- projection of a client `Connection` during the handshake -/
structure Client where
  initialDst : Cid          -- initial_dst_cid
  origRem : Cid             -- orig_rem_cid
  remHandshake : Cid        -- rem_handshake_cid
  retrySrc : Option Cid     -- retry_src_cid
  active : Cid              -- rem_cids.active(): the DCID of the packets the client sends
  remCidSet : Bool          -- state::Handshake::rem_cid_set
  authed : Nat              -- total_authed_packets
  processed : Nat           -- server packets whose payload was processed (not discarded by a SCID test)
  deriving DecidableEq, Repr

/-- `Endpoint::connect` → `Connection::new(init_cid = rem_cid = dcid)`; the first Initial carries DCID `dcid`
    (event "first Initial sent") -/
def Client.connect (dcid : Cid) : Client :=
  { initialDst := dcid, origRem := dcid, remHandshake := dcid, retrySrc := none, active := dcid,
    remCidSet := false, authed := 0, processed := 0 }

inductive Event where
  /-- a Retry packet: its SCID, whether the integrity tag verifies (over the DCID the client uses now),
      length of the token -/
  | retry (scid : Cid) (tagValid : Bool) (tokenLen : Nat)
  /-- a server Initial that authenticates (Initial keys are derivable by anyone who saw the first flight) -/
  | serverInitial (scid : Cid)
  /-- a later server packet: a Handshake packet that authenticates -/
  | laterServerPacket (scid : Cid)
  /-- a packet that fails to authenticate -/
  | unauthenticated
  deriving DecidableEq, Repr

/-- the client acts on this Retry (it is not discarded) -/
def Client.followsRetry (s : Client) (tagValid : Bool) (tokenLen : Nat) : Bool :=
  !Gen.retryDiscarded s.authed (tokenLen + 16) tagValid

def Client.step (s : Client) : Event → Client
  | .retry scid tagValid tokenLen =>
    -- Retry packets are unprotected: not counted by handle_packet; side is client
    if Gen.retryDiscarded s.authed (tokenLen + 16) tagValid then s
    else
      -- on_packet_authenticated; retry_src_cid = Some(rem_cid); update_initial_cid; rem_handshake_cid = rem_cid;
      -- state = Handshake { rem_cid_set: false, .. }
      { s with authed := s.authed + 1, retrySrc := some scid, active := scid, remHandshake := scid,
               remCidSet := false }
  | .serverInitial scid =>
    let s := { s with authed := s.authed + 1 }            -- handle_packet: on_packet_authenticated
    if !s.remCidSet then
      { s with active := scid, remHandshake := scid, origRem := scid, remCidSet := true,
               processed := s.processed + 1 }
    else if scid ≠ s.remHandshake then s                    -- "discarding packet with mismatched remote CID"
    else { s with processed := s.processed + 1 }
  | .laterServerPacket scid =>
    let s := { s with authed := s.authed + 1 }
    if scid ≠ s.remHandshake then s                         -- "discarding packet with mismatched remote CID"
    else { s with processed := s.processed + 1 }
  | .unauthenticated => s

def Client.run (s : Client) (evs : List Event) : Client := evs.foldl Client.step s

/-- what `handle_peer_params` reads of the client -/
def Client.cids (s : Client) : Cids :=
  { origRem := s.origRem, initialDst := s.initialDst, retrySrc := s.retrySrc }

/-! ### the honest peer -/

/-- what an honest server knows when it accepts a connection attempt (`Endpoint::accept`) -/
structure ServerView where
  /-- DCID of the Initial it accepts -/
  dcid : Cid
  /-- SCID of that Initial -/
  clientScid : Cid
  /-- `some od`: that Initial carried a valid Retry token of this server, and `od` is the original DCID
      recorded in the token (`TokenPayload::Retry::orig_dst_cid`) -/
  retryToken : Option Cid
  /-- the SCID it chose (`loc_cid`), used in all its long-header packets -/
  locCid : Cid
  deriving DecidableEq, Repr

/-- `IncomingToken::from_header` + `Endpoint::accept` + `TransportParameters::new` -/
def honestEcho (v : ServerView) : EchoTP :=
  { initialSrc := some v.locCid,
    originalDst := some (match v.retryToken with | some od => od | none => v.dcid),
    retrySrc := match v.retryToken with | some _ => some v.dcid | none => none }

/-- the server connection: `add_connection(init_cid = dst_cid, loc_cid, rem_cid = src_cid)` -/
def serverCids (v : ServerView) : Cids :=
  { origRem := v.clientScid, initialDst := v.dcid, retrySrc := none }

/-- a client's parameters: `TransportParameters::new(.., loc_cid, None, ..)` -/
def clientTP (scid : Cid) : EchoTP :=
  { initialSrc := some scid, originalDst := none, retrySrc := none }

/-- An honest exchange seen from both ends. -/
structure Exchange where
  /-- DCID of the client's first Initial -/
  d0 : Cid
  /-- the client's SCID -/
  c : Cid
  /-- the server answered the first Initial with a Retry: SCID of the Retry and (token length − 1) -/
  retry : Option (Cid × Nat)
  /-- the SCID the server chose for the connection -/
  s : Cid
  /-- whatever reaches the client after the server's first Initial (genuine or injected) -/
  post : List Event
  deriving Repr

/-- the client up to the moment it sends the Initial that the server accepts -/
def Exchange.clientBeforeAccept (x : Exchange) : Client :=
  match x.retry with
  | some (r, n) => (Client.connect x.d0).step (.retry r true (n + 1))
  | none => Client.connect x.d0

/-- everything the client receives -/
def Exchange.clientEvents (x : Exchange) : List Event :=
  (match x.retry with | some (r, n) => [Event.retry r true (n + 1)] | none => []) ++ [.serverInitial x.s] ++ x.post

/-- the server accepts the Initial the client sends after the optional Retry: its DCID is the one the client
    uses then; a Retry token carries the DCID of the Initial the Retry answered (`Endpoint::retry`) -/
def Exchange.serverView (x : Exchange) : ServerView :=
  { dcid := x.clientBeforeAccept.active, clientScid := x.c,
    retryToken := x.retry.map (fun _ => x.d0), locCid := x.s }

end QM.CidEcho
