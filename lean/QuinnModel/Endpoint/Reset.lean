import QuinnModel.Gen.Conn
/-
Model of quinn-proto/src/endpoint.rs `Endpoint::stateless_reset` (size arithmetic and rate limit).
`draw` is the value returned by `rng.random_range(IDEAL_MIN_PADDING_LEN..max_padding_len)`: an
explicit input constrained to that half-open range.
-/
namespace QM.Reset

/-- size of the stateless reset produced for an inciting datagram, or none (ignored) -/
def resetSize (inciting draw : Nat) : Option Nat :=
  if inciting < Gen.resetTokenSize then none
  else if inciting - Gen.resetTokenSize > Gen.resetMinPaddingLen then
    some ((if inciting - Gen.resetTokenSize - 1 ≤ Gen.resetIdealMinPaddingLen
           then inciting - Gen.resetTokenSize - 1 else draw) + Gen.resetTokenSize)
  else none

/-- endpoint state relevant to the rate limit: time of the last reset -/
structure St where
  last : Option Nat
deriving Repr

/-- one unexpected datagram at time `now`: returns new state and the reset size if one is sent -/
def handle (minInterval : Nat) (s : St) (now inciting draw : Nat) : St × Option Nat :=
  match s.last with
  | some l => if l + minInterval > now then (s, none)
              else match resetSize inciting draw with
                   | some n => (⟨some now⟩, some n)
                   | none => (s, none)
  | none => match resetSize inciting draw with
            | some n => (⟨some now⟩, some n)
            | none => (s, none)

/-- times at which resets were sent over a history of (now, inciting, draw) -/
def sentTimes (minInterval : Nat) : St → List (Nat × Nat × Nat) → List Nat
  | _, [] => []
  | s, (now, inc, d) :: rest =>
    match handle minInterval s now inc d with
    | (s', some _) => now :: sentTimes minInterval s' rest
    | (s', none) => sentTimes minInterval s' rest

end QM.Reset
