/-
Shared helpers for the executable models (core Lean only: this file is linked into the native driver).
-/
namespace QM

abbrev Bytes := List Nat   -- each element < 256 (checked where it matters)

def hexDigit (n : Nat) : Char :=
  if n < 10 then Char.ofNat (48 + n) else Char.ofNat (87 + n)

def hexByte (b : Nat) : String :=
  String.ofList [hexDigit (b / 16 % 16), hexDigit (b % 16)]

def toHex (bs : Bytes) : String :=
  if bs.isEmpty then "-" else String.join (bs.map hexByte)

def hexVal (c : Char) : Option Nat :=
  if '0' ≤ c ∧ c ≤ '9' then some (c.toNat - 48)
  else if 'a' ≤ c ∧ c ≤ 'f' then some (c.toNat - 87)
  else none

def parseHexAux : List Char → Option Bytes
  | [] => some []
  | [_] => none
  | a :: b :: rest =>
    match hexVal a, hexVal b, parseHexAux rest with
    | some x, some y, some r => some ((x * 16 + y) :: r)
    | _, _, _ => none

/-- "-" denotes the empty byte string. -/
def parseHex (s : String) : Option Bytes :=
  if s == "-" then some [] else parseHexAux s.toList

/-- big-endian bytes of `x` on exactly `n` bytes (value reduced mod 256^n) -/
def beBytes : Nat → Nat → Bytes
  | 0, _ => []
  | n+1, x => (x / 256 ^ n % 256) :: beBytes n x

def beVal (bs : Bytes) : Nat := bs.foldl (fun acc b => acc * 256 + b) 0

def boolStr (b : Bool) : String := if b then "true" else "false"

def words (line : String) : List String :=
  (line.trimAscii.toString.splitOn " ").filter (· ≠ "")

end QM
