import QuinnModel.Util
import QuinnModel.Gen.Consts
/-
Model of quinn-proto/src/packet.rs `PacketNumber::{new,len,encode,decode,expand}`.
A packet number on the wire is (len ∈ {1,2,3,4}, truncated value).
-/
namespace QM.PacketNumber
open QM

/-- `PacketNumber::new n largest_acked`; `none` = panic (`n - largest_acked` underflow in a checked build,
    or "packet number too large to encode").  The U24 arm keeps 32 bits (`n as u32`), as the code does. -/
def new (n la : Nat) : Option (Nat × Nat) :=
  if n < la then none else
  let range := (n - la) * 2
  if range < 2^Gen.pnNewBits1 then some (1, n % 2^8)
  else if range < 2^Gen.pnNewBits2 then some (2, n % 2^16)
  else if range < 2^Gen.pnNewBits3 then some (3, n % 2^32)
  else if range < 2^Gen.pnNewBits4 then some (4, n % 2^32)
  else none

/-- `PacketNumber::encode`: the low `len` bytes, big endian -/
def encode (p : Nat × Nat) : Bytes := beBytes p.1 p.2

/-- `PacketNumber::decode len` (len ∈ 1..4 is guaranteed by `decode_len`) ; none = UnexpectedEnd -/
def decode (len : Nat) (bs : Bytes) : Option ((Nat × Nat) × Bytes) :=
  if bs.length < len then none else some ((len, beVal (bs.take len)), bs.drop len)

/-- `PacketNumber::decode_len` -/
def decodeLen (tag : Nat) : Nat := 1 + tag % 4

/-- 2^(8·len) for the four lengths -/
def winOf : Nat → Nat
  | 1 => 256
  | 2 => 65536
  | 3 => 16777216
  | _ => 4294967296

/-- body of `PacketNumber::expand` for a window size; `none` = u64 overflow panic in a checked build.
    For a decoded number the truncated value is < win, so `(expected & !mask) | truncated` is a sum. -/
def expandW (win trunc expected : Nat) : Option Nat :=
  let hwin := win / 2
  let candidate := (expected - expected % win) + trunc
  if 18446744073709551616 ≤ expected + hwin then none
  else if hwin ≤ expected ∧ candidate ≤ expected - hwin then
    (if 18446744073709551616 ≤ candidate + win then none else some (candidate + win))
  else if candidate > expected + hwin ∧ candidate > win then some (candidate - win)
  else some candidate

/-- `PacketNumber::expand` -/
def expand (p : Nat × Nat) (expected : Nat) : Option Nat := expandW (winOf p.1) p.2 expected

end QM.PacketNumber
