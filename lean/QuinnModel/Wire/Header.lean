import QuinnModel.Wire.Cid
import QuinnModel.Wire.PacketNumber
/-
Model of quinn-proto/src/packet.rs, plaintext part: `Header::encode`, the length patch of
`PartialEncode::finish` (header protection and packet protection are the identity here: the executor runs
the real `finish` with a no-op `HeaderKey` and no packet key), `ProtectedHeader::decode` and
`PartialDecode::new` with a `FixedLengthConnectionIdParser`.

Bit constants and the long-header type codes are generated from the source (T1).
A packet number is `(len, value)` as in `Wire/PacketNumber.lean`.
-/
namespace QM.Wire.Header
open QM QM.Wire QM.Wire.P

inductive LongType
  | handshake | zeroRtt
deriving DecidableEq, Repr

/-- `packet::Header` -/
inductive Header
  | initial (dst src token : Bytes) (number : Nat × Nat) (version : Nat)
  | long (ty : LongType) (dst src : Bytes) (number : Nat × Nat) (version : Nat)
  | retry (dst src : Bytes) (version : Nat)
  | short (spin keyPhase : Bool) (dst : Bytes) (number : Nat × Nat)
  | versionNegotiate (random : Nat) (dst src : Bytes)
deriving DecidableEq, Repr

/-- `packet::ProtectedHeader` (what `PartialDecode::new` knows before header protection is removed) -/
inductive PHeader
  | initial (dst src : Bytes) (tokenStart tokenLen len version : Nat)
  | long (ty : LongType) (dst src : Bytes) (len version : Nat)
  | retry (dst src : Bytes) (version : Nat)
  | short (spin : Bool) (dst : Bytes)
  | versionNegotiate (random : Nat) (dst src : Bytes)
deriving DecidableEq, Repr

/-- `PacketDecodeError` (+ the model-only `panic`) -/
inductive HdrErr
  | unexpectedEnd | fixedBitUnset | malformedCid | tokenOutOfBounds | packetTooSmall | tooShortForLength
  | unsupportedVersion (src dst : Bytes) (version : Nat)
  | panic
deriving DecidableEq, Repr

/-- `PacketNumber::tag` -/
def pnTag (n : Nat × Nat) : Nat := (n.1 - 1) % 4

/-- `u8::from(LongHeaderType::…)` -/
def longFirst (typeBits : Nat) : Nat := Gen.hdrLongHeaderForm ||| Gen.hdrFixedBit ||| typeBits

def longTypeBits : LongType → Nat
  | .handshake => Gen.hdrTypeEncHandshake
  | .zeroRtt => Gen.hdrTypeEncZeroRtt

/-- `PartialEncode`: `start` is 0 (fresh buffer), `header_len` the length of the bytes -/
structure PartialEncode where
  bytes : Bytes
  pn : Option (Nat × Bool)
deriving DecidableEq, Repr

/-- `Header::encode` into an empty buffer; `none` = an encoder panic (`write_var` of a token length ≥ 2^62) -/
def encode : Header → Option PartialEncode
  | .initial dst src token number version =>
    let buf := wU8 (longFirst Gen.hdrTypeEncInitial ||| pnTag number) (some [])
    let buf := wU32 version buf
    let buf := Cid.encodeLong dst buf
    let buf := Cid.encodeLong src buf
    let buf := wVar token.length buf
    let buf := wBytes token buf
    let buf := wU16 0 buf
    let buf := wBytes (PacketNumber.encode number) buf
    buf.map fun b => { bytes := b, pn := some (number.1, true) }
  | .long ty dst src number version =>
    let buf := wU8 (longFirst (longTypeBits ty) ||| pnTag number) (some [])
    let buf := wU32 version buf
    let buf := Cid.encodeLong dst buf
    let buf := Cid.encodeLong src buf
    let buf := wU16 0 buf
    let buf := wBytes (PacketNumber.encode number) buf
    buf.map fun b => { bytes := b, pn := some (number.1, true) }
  | .retry dst src version =>
    let buf := wU8 (longFirst Gen.hdrTypeEncRetry) (some [])
    let buf := wU32 version buf
    let buf := Cid.encodeLong dst buf
    let buf := Cid.encodeLong src buf
    buf.map fun b => { bytes := b, pn := none }
  | .short spin keyPhase dst number =>
    let first := Gen.hdrFixedBit ||| (if keyPhase then Gen.hdrKeyPhaseBit else 0)
      ||| (if spin then Gen.hdrSpinBit else 0) ||| pnTag number
    let buf := wU8 first (some [])
    let buf := wBytes dst buf
    let buf := wBytes (PacketNumber.encode number) buf
    buf.map fun b => { bytes := b, pn := some (number.1, false) }
  | .versionNegotiate random dst src =>
    let buf := wU8 (128 ||| random) (some [])
    let buf := wU32 0 buf
    let buf := Cid.encodeLong dst buf
    let buf := Cid.encodeLong src buf
    buf.map fun b => { bytes := b, pn := none }

/-- `PartialEncode::finish(buf, header_crypto, None)` with identity header protection of sample size 0:
    patches the 2-byte payload length in front of the packet number.  `buf` = header ++ payload.
    `none` = panic (`assert!(len < 2^14)`, the `debug_assert!` on the sampling range, or slice bounds) -/
def finishPlain (headerLen : Nat) (pn : Option (Nat × Bool)) (buf : Bytes) : Option Bytes :=
  match pn with
  | none => some buf
  | some (pnLen, writeLen) =>
    if headerLen < pnLen then none else
    let pnPos := headerLen - pnLen
    let patched : Option Bytes :=
      if writeLen then
        if buf.length < headerLen then none else
        let len := buf.length - headerLen + pnLen
        if ¬ len < 2 ^ Gen.hdrLenBoundLog then none
        else if pnPos < 2 ∨ buf.length < pnPos then none
        else some (buf.take (pnPos - 2) ++ beBytes 2 ((len % 65536) ||| Gen.hdrLenTag) ++ buf.drop pnPos)
      else some buf
    match patched with
    | none => none
    | some b => if pnPos + 4 ≤ b.length then some b else none

/-- header ++ payload with the length patched: what goes on the wire when protection is the identity -/
def packet (h : Header) (payload : Bytes) : Option Bytes :=
  match encode h with
  | none => none
  | some pe => finishPlain pe.bytes.length pe.pn (pe.bytes ++ payload)

/-! ### decode -/

abbrev U := HdrErr.unexpectedEnd

/-- `LongHeaderType::from_byte`: 0 = Initial, 1 = 0-RTT, 2 = Handshake, 3 = Retry (as generated) -/
def longTypeOf (first : Nat) : Nat := (first &&& Gen.hdrTypeMask) >>> Gen.hdrTypeShift

/-- `ProtectedHeader::decode`; `total` = length of the whole datagram (to turn "remaining" into the
    cursor position for `token_pos`), `localCidLen` = `FixedLengthConnectionIdParser::expected_len` -/
def decodeHeader (total localCidLen : Nat) (supported : List Nat) (grease : Bool) : P HdrErr PHeader := do
  let first ← getU8 U
  if !grease ∧ first &&& Gen.hdrFixedBit = 0 then fail .fixedBitUnset
  else if first &&& Gen.hdrLongHeaderForm = 0 then do
    let spin := first &&& Gen.hdrSpinBit ≠ 0
    let rem ← remaining
    if rem < localCidLen then fail .packetTooSmall else do
      let dst ← takeN .panic localCidLen
      pure (.short spin dst)
  else do
    let version ← getU32 U
    let dst ← Cid.decodeLong .malformedCid .panic
    let src ← Cid.decodeLong .malformedCid .panic
    if version = 0 then pure (.versionNegotiate (first &&& (255 - Gen.hdrLongHeaderForm)) dst src)
    else if ¬ version ∈ supported then fail (.unsupportedVersion src dst version)
    else
      let ty := longTypeOf first
      if ty = Gen.hdrTypeDecInitial then do
        let tokenLen ← getVar U
        let atToken ← remaining   -- `token_start = buf.position()` = total − remaining
        let rem ← remaining
        if tokenLen > rem then fail .tokenOutOfBounds else do
          let _ ← takeN .panic tokenLen
          let len ← getVar U
          pure (.initial dst src (total - atToken) tokenLen len version)
      else if ty = Gen.hdrTypeDecZeroRtt then do
        let len ← getVar U
        pure (.long .zeroRtt dst src len version)
      else if ty = Gen.hdrTypeDecHandshake then do
        let len ← getVar U
        pure (.long .handshake dst src len version)
      else if ty = Gen.hdrTypeDecRetry then pure (.retry dst src version)
      else fail .panic  -- `unreachable!()`

def PHeader.payloadLen : PHeader → Option Nat
  | .initial _ _ _ _ len _ => some len
  | .long _ _ _ len _ => some len
  | _ => none

/-- `plain_header.payload_len().map(|len| (buf.position() + len) as usize).unwrap_or(dgram_len)` -/
def packetLenOf (h : PHeader) (pos dgramLen : Nat) : Nat :=
  match h.payloadLen with
  | some len => pos + len
  | none => dgramLen

/-- result of `PartialDecode::new`: the plain header, the cursor position after it, the bytes of this
    packet, and the trailing data (`None` when there is none) -/
structure PartialDecode where
  header : PHeader
  pos : Nat
  packet : Bytes
  rest : Option Bytes
deriving DecidableEq, Repr

/-- `PartialDecode::new` -/
def partialDecodeNew (bytes : Bytes) (localCidLen : Nat) (supported : List Nat) (grease : Bool) :
    Except HdrErr PartialDecode :=
  match decodeHeader bytes.length localCidLen supported grease bytes with
  | .error e => .error e
  | .ok (h, remBytes) =>
    let pos := bytes.length - remBytes.length
    let dgramLen := bytes.length
    let packetLen := packetLenOf h pos dgramLen
    if dgramLen = packetLen then .ok { header := h, pos := pos, packet := bytes, rest := none }
    else if dgramLen < packetLen then .error .tooShortForLength
    else .ok { header := h, pos := pos, packet := bytes.take packetLen, rest := some (bytes.drop packetLen) }

end QM.Wire.Header
