import QuinnModel.Wire.Parser
import QuinnModel.Gen.Frames
/-
Model of quinn-proto/src/transport_parameters.rs: `TransportParameters::{write, read}`,
`PreferredAddress::{wire_size, write, read}`, `ReservedTransportParameter::write`, `decode_cid`,
`TransportParameterId::{SUPPORTED, try_from}`.

Ids, defaults, the SUPPORTED table and the literals of the semantic validation are generated from the Rust
source on every run (`QuinnModel/Gen/Frames.lean`, T1).

The randomised parts are explicit inputs of `write`: `order` is the `write_order` array (indices into
SUPPORTED; the code shuffles it with the connection's RNG), `grease` is the reserved parameter
(`grease_transport_parameter`: id and payload drawn from the RNG).  Both are `None` on every value returned
by `read`, so they are not fields of the model's `TP`.
-/
namespace QM.Wire
open QM QM.Wire.P

/-- `transport_parameters::Error` plus the model-only outcomes -/
inductive TpErr
  | malformed | illegalValue
  /-- not an `Error`: the reader itself would panic (`copy_to_slice` / `advance` past the end).
      Theorem `tp_read_no_panic`: never produced. -/
  | panic
  /-- not an `Error`: the fuel of the `while r.has_remaining()` loop ran out.
      Theorem `tp_read_total`: never produced. -/
  | outOfFuel
deriving DecidableEq, Repr

/-- `PreferredAddress`; an address is (ip bytes, port) -/
structure PreferredAddress where
  v4 : Option (Bytes × Nat)
  v6 : Option (Bytes × Nat)
  cid : Bytes
  token : Bytes
deriving DecidableEq, Repr

/-- `TransportParameters` as returned by `read` (without `grease_transport_parameter` / `write_order`) -/
structure TP where
  maxIdleTimeout : Nat
  maxUdpPayloadSize : Nat
  initialMaxData : Nat
  initialMaxStreamDataBidiLocal : Nat
  initialMaxStreamDataBidiRemote : Nat
  initialMaxStreamDataUni : Nat
  initialMaxStreamsBidi : Nat
  initialMaxStreamsUni : Nat
  ackDelayExponent : Nat
  maxAckDelay : Nat
  activeConnectionIdLimit : Nat
  disableActiveMigration : Bool
  maxDatagramFrameSize : Option Nat
  initialSrcCid : Option Bytes
  greaseQuicBit : Bool
  minAckDelay : Option Nat
  originalDstCid : Option Bytes
  retrySrcCid : Option Bytes
  statelessResetToken : Option Bytes
  preferredAddress : Option PreferredAddress
deriving DecidableEq, Repr

namespace TP

/-- `TransportParameters::default()` -/
def default : TP where
  maxIdleTimeout := Gen.tpDefaultMaxIdleTimeout
  maxUdpPayloadSize := Gen.tpDefaultMaxUdpPayloadSize
  initialMaxData := Gen.tpDefaultInitialMaxData
  initialMaxStreamDataBidiLocal := Gen.tpDefaultInitialMaxStreamDataBidiLocal
  initialMaxStreamDataBidiRemote := Gen.tpDefaultInitialMaxStreamDataBidiRemote
  initialMaxStreamDataUni := Gen.tpDefaultInitialMaxStreamDataUni
  initialMaxStreamsBidi := Gen.tpDefaultInitialMaxStreamsBidi
  initialMaxStreamsUni := Gen.tpDefaultInitialMaxStreamsUni
  ackDelayExponent := Gen.tpDefaultAckDelayExponent
  maxAckDelay := Gen.tpDefaultMaxAckDelay
  activeConnectionIdLimit := Gen.tpDefaultActiveConnectionIdLimit
  disableActiveMigration := false
  maxDatagramFrameSize := none
  initialSrcCid := none
  greaseQuicBit := false
  minAckDelay := none
  originalDstCid := none
  retrySrcCid := none
  statelessResetToken := none
  preferredAddress := none

/-! ### write -/

/-- an integer parameter: `if self.$name.0 != $default { write_var(id); write(size); write(value) }` -/
def wInt (id v dflt : Nat) (buf : Option Bytes) : Option Bytes :=
  if v ≠ dflt then
    match VarInt.size v with
    | some s => wVar v (wVar s (wVar id buf))
    | none => none
  else buf

/-- an optional varint parameter: `write_var(id); write_var(x.size()); write(x)` -/
def wOptInt (id : Nat) (v : Option Nat) (buf : Option Bytes) : Option Bytes :=
  match v with
  | some x =>
    match VarInt.size x with
    | some s => wVar x (wVar s (wVar id buf))
    | none => none
  | none => buf

/-- an optional connection id: `write_var(id); write_var(cid.len()); put_slice(cid)` -/
def wOptCid (id : Nat) (v : Option Bytes) (buf : Option Bytes) : Option Bytes :=
  match v with
  | some c => wBytes c (wVar c.length (wVar id buf))
  | none => buf

/-- a flag: `write_var(id); write_var(0)` -/
def wFlag (id : Nat) (v : Bool) (buf : Option Bytes) : Option Bytes :=
  if v then wVar 0 (wVar id buf) else buf

def zeros (n : Nat) : Bytes := List.replicate n 0

/-- `PreferredAddress::wire_size` (as `u16`) -/
def paWireSize (x : PreferredAddress) : Nat := (Gen.tpPreferredAddrFixed + x.cid.length) % 65536

/-- `self.address_vN.map_or(IpvNAddr::UNSPECIFIED, |x| *x.ip())` -/
def addrIp (n : Nat) (a : Option (Bytes × Nat)) : Bytes :=
  match a with
  | some x => x.1
  | none => zeros n

/-- `self.address_vN.map_or(0, |x| x.port())` -/
def addrPort (a : Option (Bytes × Nat)) : Nat :=
  match a with
  | some x => x.2
  | none => 0

/-- `PreferredAddress::write` -/
def paWrite (x : PreferredAddress) (buf : Option Bytes) : Option Bytes :=
  let buf := wBytes (addrIp 4 x.v4) buf
  let buf := wU16 (addrPort x.v4) buf
  let buf := wBytes (addrIp 16 x.v6) buf
  let buf := wU16 (addrPort x.v6) buf
  let buf := wU8 x.cid.length buf
  let buf := wBytes x.cid buf
  wBytes x.token buf

/-- one iteration of the `for idx in ids` loop of `write`, for the parameter id `id` -/
def writeOne (p : TP) (grease : Option (Nat × Bytes)) (id : Nat) (buf : Option Bytes) : Option Bytes :=
  if id = Gen.tpIdReservedTransportParameter then
    match grease with
    | some g => wBytes g.2 (wVar g.2.length (wVar g.1 buf))
    | none => buf
  else if id = Gen.tpIdStatelessResetToken then
    match p.statelessResetToken with
    | some x => wBytes x (wVar Gen.tpResetTokenWriteLen (wVar id buf))
    | none => buf
  else if id = Gen.tpIdDisableActiveMigration then wFlag id p.disableActiveMigration buf
  else if id = Gen.tpIdMaxDatagramFrameSize then wOptInt id p.maxDatagramFrameSize buf
  else if id = Gen.tpIdPreferredAddress then
    match p.preferredAddress with
    | some x => paWrite x (wVar (paWireSize x) (wVar id buf))
    | none => buf
  else if id = Gen.tpIdOriginalDestinationConnectionId then wOptCid id p.originalDstCid buf
  else if id = Gen.tpIdInitialSourceConnectionId then wOptCid id p.initialSrcCid buf
  else if id = Gen.tpIdRetrySourceConnectionId then wOptCid id p.retrySrcCid buf
  else if id = Gen.tpIdGreaseQuicBit then wFlag id p.greaseQuicBit buf
  else if id = Gen.tpIdMinAckDelayDraft07 then wOptInt id p.minAckDelay buf
  else if id = Gen.tpIdMaxIdleTimeout then wInt id p.maxIdleTimeout Gen.tpDefaultMaxIdleTimeout buf
  else if id = Gen.tpIdMaxUdpPayloadSize then wInt id p.maxUdpPayloadSize Gen.tpDefaultMaxUdpPayloadSize buf
  else if id = Gen.tpIdInitialMaxData then wInt id p.initialMaxData Gen.tpDefaultInitialMaxData buf
  else if id = Gen.tpIdInitialMaxStreamDataBidiLocal then
    wInt id p.initialMaxStreamDataBidiLocal Gen.tpDefaultInitialMaxStreamDataBidiLocal buf
  else if id = Gen.tpIdInitialMaxStreamDataBidiRemote then
    wInt id p.initialMaxStreamDataBidiRemote Gen.tpDefaultInitialMaxStreamDataBidiRemote buf
  else if id = Gen.tpIdInitialMaxStreamDataUni then
    wInt id p.initialMaxStreamDataUni Gen.tpDefaultInitialMaxStreamDataUni buf
  else if id = Gen.tpIdInitialMaxStreamsBidi then
    wInt id p.initialMaxStreamsBidi Gen.tpDefaultInitialMaxStreamsBidi buf
  else if id = Gen.tpIdInitialMaxStreamsUni then
    wInt id p.initialMaxStreamsUni Gen.tpDefaultInitialMaxStreamsUni buf
  else if id = Gen.tpIdAckDelayExponent then wInt id p.ackDelayExponent Gen.tpDefaultAckDelayExponent buf
  else if id = Gen.tpIdMaxAckDelay then wInt id p.maxAckDelay Gen.tpDefaultMaxAckDelay buf
  else if id = Gen.tpIdActiveConnectionIdLimit then
    wInt id p.activeConnectionIdLimit Gen.tpDefaultActiveConnectionIdLimit buf
  else none  -- `unimplemented!("Missing implementation of write for transport parameter …")`

/-- the `for idx in ids` loop; `none` = panic (index out of bounds of SUPPORTED, or an encoder panic) -/
def writeLoop (p : TP) (grease : Option (Nat × Bytes)) : List Nat → Option Bytes → Option Bytes
  | [], buf => buf
  | idx :: rest, buf =>
    match Gen.tpSupported[idx]? with
    | some id => writeLoop p grease rest (writeOne p grease id buf)
    | none => none

/-- `write_order = None`: `std::array::from_fn(|i| i as u8)` -/
def canonicalOrder : List Nat := List.range Gen.tpSupportedLen

/-- `TransportParameters::write` with the write order and the grease parameter as inputs -/
def write (p : TP) (grease : Option (Nat × Bytes)) (order : List Nat) : Option Bytes :=
  writeLoop p grease order (some [])

/-! ### read -/

abbrev M := TpErr.malformed

/-- state of the `while` loop of `read`: the parameters so far and the `got` flags of `param_state!`
    (as the list of integer-parameter ids already seen) -/
structure RdState where
  p : TP
  got : List Nat
deriving DecidableEq, Repr

/-- `decode_cid` -/
def decodeCid (len : Nat) (cur : Option Bytes) : P TpErr Bytes := do
  let rem ← remaining
  if len > Gen.wireMaxCidSize ∨ cur.isSome ∨ rem < len then fail M else takeN .panic len

/-- `Buf::take(len)`: run `p` on a view limited to `limit` bytes; the underlying cursor advances by
    what `p` consumed -/
def withTake {α} (limit : Nat) (p : P TpErr α) : P TpErr α := fun bs =>
  match p (bs.take limit) with
  | .ok (a, r) => .ok (a, bs.drop ((bs.take limit).length - r.length))
  | .error e => .error e

def isUnspecified (ip : Bytes) : Bool := ip.all (· == 0)

/-- `PreferredAddress::read` -/
def paRead : P TpErr PreferredAddress := do
  let ip4 ← takeN M 4
  let port4 ← getU16 M
  let ip6 ← takeN M 16
  let port6 ← getU16 M
  let cidLen ← getU8 M
  let rem ← remaining
  if rem < cidLen ∨ cidLen > Gen.wireMaxCidSize % 256 then fail M else do
    let cid ← takeN .panic cidLen
    let rem ← remaining
    if rem < 16 then fail M else do
      let token ← takeN .panic Gen.wireResetTokenSize
      let v4 := if isUnspecified ip4 ∧ port4 = 0 then none else some (ip4, port4)
      let v6 := if isUnspecified ip6 ∧ port6 = 0 then none else some (ip6, port6)
      if v4.isNone ∧ v6.isNone then fail .illegalValue else
        pure { v4 := v4, v6 := v6, cid := cid, token := token }

/-- an integer parameter in `read`: `let value = r.get::<VarInt>()?; if len != value.size() || got.$name
    { Malformed }` ; returns the value -/
def rInt (id len : Nat) (got : List Nat) : P TpErr Nat := do
  let value ← getVar M
  if some len ≠ VarInt.size value ∨ id ∈ got then fail M else pure value

/-- the `match id` of the loop body (after `id`, `len` and the `remaining < len` check) -/
def readBody (st : RdState) (id len : Nat) : P TpErr RdState :=
  let p := st.p
  if id = Gen.tpIdOriginalDestinationConnectionId then do
    let c ← decodeCid len p.originalDstCid
    pure { st with p := { p with originalDstCid := some c } }
  else if id = Gen.tpIdStatelessResetToken then
    if len ≠ Gen.tpResetTokenLen ∨ p.statelessResetToken.isSome then fail M else do
      let t ← takeN .panic Gen.wireResetTokenSize
      pure { st with p := { p with statelessResetToken := some t } }
  else if id = Gen.tpIdDisableActiveMigration then
    if len ≠ 0 ∨ p.disableActiveMigration then fail M else
      pure { st with p := { p with disableActiveMigration := true } }
  else if id = Gen.tpIdPreferredAddress then
    if p.preferredAddress.isSome then fail M else do
      let x ← withTake len paRead
      pure { st with p := { p with preferredAddress := some x } }
  else if id = Gen.tpIdInitialSourceConnectionId then do
    let c ← decodeCid len p.initialSrcCid
    pure { st with p := { p with initialSrcCid := some c } }
  else if id = Gen.tpIdRetrySourceConnectionId then do
    let c ← decodeCid len p.retrySrcCid
    pure { st with p := { p with retrySrcCid := some c } }
  else if id = Gen.tpIdMaxDatagramFrameSize then
    if len > Gen.tpMaxDatagramLenMax ∨ p.maxDatagramFrameSize.isSome then fail M else do
      let v ← getVar M
      pure { st with p := { p with maxDatagramFrameSize := some v } }
  else if id = Gen.tpIdGreaseQuicBit then
    if len = 0 then pure { st with p := { p with greaseQuicBit := true } } else fail M
  else if id = Gen.tpIdMinAckDelayDraft07 then do
    let v ← getVar M
    pure { st with p := { p with minAckDelay := some v } }
  else if id = Gen.tpIdMaxIdleTimeout then do
    let v ← rInt id len st.got
    pure { p := { p with maxIdleTimeout := v }, got := id :: st.got }
  else if id = Gen.tpIdMaxUdpPayloadSize then do
    let v ← rInt id len st.got
    pure { p := { p with maxUdpPayloadSize := v }, got := id :: st.got }
  else if id = Gen.tpIdInitialMaxData then do
    let v ← rInt id len st.got
    pure { p := { p with initialMaxData := v }, got := id :: st.got }
  else if id = Gen.tpIdInitialMaxStreamDataBidiLocal then do
    let v ← rInt id len st.got
    pure { p := { p with initialMaxStreamDataBidiLocal := v }, got := id :: st.got }
  else if id = Gen.tpIdInitialMaxStreamDataBidiRemote then do
    let v ← rInt id len st.got
    pure { p := { p with initialMaxStreamDataBidiRemote := v }, got := id :: st.got }
  else if id = Gen.tpIdInitialMaxStreamDataUni then do
    let v ← rInt id len st.got
    pure { p := { p with initialMaxStreamDataUni := v }, got := id :: st.got }
  else if id = Gen.tpIdInitialMaxStreamsBidi then do
    let v ← rInt id len st.got
    pure { p := { p with initialMaxStreamsBidi := v }, got := id :: st.got }
  else if id = Gen.tpIdInitialMaxStreamsUni then do
    let v ← rInt id len st.got
    pure { p := { p with initialMaxStreamsUni := v }, got := id :: st.got }
  else if id = Gen.tpIdAckDelayExponent then do
    let v ← rInt id len st.got
    pure { p := { p with ackDelayExponent := v }, got := id :: st.got }
  else if id = Gen.tpIdMaxAckDelay then do
    let v ← rInt id len st.got
    pure { p := { p with maxAckDelay := v }, got := id :: st.got }
  else if id = Gen.tpIdActiveConnectionIdLimit then do
    let v ← rInt id len st.got
    pure { p := { p with activeConnectionIdLimit := v }, got := id :: st.got }
  else do
    -- unknown ids (`try_from` fails) and the reserved id 0x1b (`_ => r.advance(len)`)
    let _ ← takeN .panic len
    pure st

/-- one iteration of the `while r.has_remaining()` loop -/
def readOne (st : RdState) : P TpErr RdState := do
  let id ← getVar M
  let len ← getVar M
  let rem ← remaining
  if rem < len then fail M else readBody st id len

/-- the `while r.has_remaining()` loop -/
def readLoop : Nat → RdState → Bytes → Except TpErr RdState
  | 0, st, bs => if bs.isEmpty then .ok st else .error .outOfFuel
  | fuel + 1, st, bs =>
    if bs.isEmpty then .ok st else
    match readOne st bs with
    | .error e => .error e
    | .ok (st', rest) => readLoop fuel st' rest

/-- the "Semantic validation" block of `read`; `isServer` = `side.is_server()` (the side that reads) -/
def semanticallyInvalid (isServer : Bool) (p : TP) : Bool :=
  p.ackDelayExponent > Gen.tpMaxAckDelayExponent
  || p.maxAckDelay ≥ 2 ^ Gen.tpMaxAckDelayBoundLog
  || p.activeConnectionIdLimit < Gen.tpMinActiveCidLimit
  || p.maxUdpPayloadSize < Gen.tpMinUdpPayload
  || p.initialMaxStreamsBidi > Gen.tpMaxStreams
  || p.initialMaxStreamsUni > Gen.tpMaxStreams
  || (match p.minAckDelay with
      | some m => m > p.maxAckDelay * Gen.tpMinAckDelayScale
      | none => false)
  || (isServer && (p.originalDstCid.isSome || p.preferredAddress.isSome || p.retrySrcCid.isSome
        || p.statelessResetToken.isSome))
  || (match p.preferredAddress with
      | some x => x.cid.isEmpty
      | none => false)

/-- `TransportParameters::read(side, r)` -/
def read (isServer : Bool) (bs : Bytes) : Except TpErr TP :=
  match readLoop bs.length { p := default, got := [] } bs with
  | .error e => .error e
  | .ok st => if semanticallyInvalid isServer st.p then .error .illegalValue else .ok st.p

/-! ### the domain of the round-trip theorem -/

/-- an address that survives the wire format: right size, and not the all-zero address with port 0
    (which `PreferredAddress::read` turns into "absent") -/
def addrOk (n : Nat) (a : Bytes × Nat) : Prop :=
  a.1.length = n ∧ a.2 < 65536 ∧ ¬ (isUnspecified a.1 = true ∧ a.2 = 0)

def paOk (x : PreferredAddress) : Prop :=
  (∀ a, x.v4 = some a → addrOk 4 a) ∧ (∀ a, x.v6 = some a → addrOk 16 a) ∧
  (x.v4 ≠ none ∨ x.v6 ≠ none) ∧ x.cid.length ≤ 20 ∧ x.token.length = 16

/-- what the Rust types guarantee of a `TransportParameters` value (`VarInt` < 2^62, `ConnectionId` ≤ 20
    bytes, `ResetToken` = 16 bytes, `SocketAddr` shapes) plus acceptance by the semantic validation of the
    reading side -/
structure wellFormed (isServer : Bool) (p : TP) : Prop where
  i0 : p.maxIdleTimeout < 2^62
  i1 : p.maxUdpPayloadSize < 2^62
  i2 : p.initialMaxData < 2^62
  i3 : p.initialMaxStreamDataBidiLocal < 2^62
  i4 : p.initialMaxStreamDataBidiRemote < 2^62
  i5 : p.initialMaxStreamDataUni < 2^62
  i6 : p.initialMaxStreamsBidi < 2^62
  i7 : p.initialMaxStreamsUni < 2^62
  i8 : p.ackDelayExponent < 2^62
  i9 : p.maxAckDelay < 2^62
  i10 : p.activeConnectionIdLimit < 2^62
  mdfs : ∀ x, p.maxDatagramFrameSize = some x → x < 2^62
  mad : ∀ x, p.minAckDelay = some x → x < 2^62
  iscid : ∀ c, p.initialSrcCid = some c → c.length ≤ 20
  odcid : ∀ c, p.originalDstCid = some c → c.length ≤ 20
  rscid : ∀ c, p.retrySrcCid = some c → c.length ≤ 20
  srt : ∀ t, p.statelessResetToken = some t → t.length = 16
  pa : ∀ x, p.preferredAddress = some x → paOk x
  sem : semanticallyInvalid isServer p = false

/-- the reserved parameter as `ReservedTransportParameter::random` draws it: id = 31·N + 27 < 2^62 -/
def greaseOk (g : Option (Nat × Bytes)) : Prop :=
  ∀ x, g = some x → x.1 < 2^62 ∧ x.1 % 31 = 27 ∧ x.2.length < 2^62

end TP
end QM.Wire
