import QuinnModel.Util
import QuinnModel.Gen.Consts
/-
Model of quinn-proto/src/varint.rs  (`VarInt::{from_u64,size}`, `Codec for VarInt`).
The four thresholds come from the generated file (T1).
-/
namespace QM.VarInt
open QM

/-- `VarInt::from_u64`: succeeds iff x < 2^62 -/
def fromU64 (x : Nat) : Option Nat := if x < Gen.varintFromU64Bound then some x else none

/-- `VarInt::size` (none = the `panic!("malformed VarInt")` arm) -/
def size (x : Nat) : Option Nat :=
  if x < Gen.varintSizeT1 then some 1
  else if x < Gen.varintSizeT2 then some 2
  else if x < Gen.varintSizeT4 then some 4
  else if x < Gen.varintSizeT8 then some 8
  else none

/-- `Codec::encode` (none = `unreachable!`) -/
def encode (x : Nat) : Option Bytes :=
  if x < Gen.varintT1 then some (beBytes 1 x)
  else if x < Gen.varintT2 then some (beBytes 2 (Gen.varintTag2 + x))
  else if x < Gen.varintT4 then some (beBytes 4 (Gen.varintTag4 + x))
  else if x < Gen.varintT8 then some (beBytes 8 (Gen.varintTag8 + x))
  else none

/-- `Codec::decode`: value and the remaining bytes, or `none` = `UnexpectedEnd` -/
def decode (bs : Bytes) : Option (Nat × Bytes) :=
  match bs with
  | [] => none
  | b0 :: rest =>
    let tag := b0 / 64
    let first := b0 % 64
    if tag = 0 then some (first, rest)
    else if tag = 1 then
      if rest.length < 1 then none else some (beVal (first :: rest.take 1), rest.drop 1)
    else if tag = 2 then
      if rest.length < 3 then none else some (beVal (first :: rest.take 3), rest.drop 3)
    else
      if rest.length < 7 then none else some (beVal (first :: rest.take 7), rest.drop 7)

end QM.VarInt
