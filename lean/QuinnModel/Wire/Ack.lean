import QuinnModel.Wire.VarInt
import QuinnModel.Gen.C03Consts
/-
Model of the ACK frame code in quinn-proto/src/frame.rs: `scan_ack_blocks`, `AckIter`, the ACK / ACK_ECN arm of
`Iter::try_next`, `Ack::encode`.
Panic sites: `AckIter::next` — `self.data.get_var().unwrap()`, `self.largest -= block + gap + 2`,
`largest - block` (u64 underflow, debug build); `Ack::encode` — `rest.next().unwrap()`, `first.end - 1`,
`prev - block.end - 1`, `write_var` (`VarInt::from_u64(x).unwrap()`).  `scan_ack_blocks` has none (checked_sub).
-/
namespace QM.Ack
open QM

inductive IterErr where
  | unexpectedEnd
  | malformed
deriving DecidableEq, Repr

/-- the `for _ in 0..n` loop of `scan_ack_blocks`; returns the unread rest of the buffer -/
def scanLoop : Nat → Bytes → Nat → Except IterErr Bytes
  | 0, buf, _ => .ok buf
  | n+1, buf, smallest =>
    match VarInt.decode buf with
    | none => .error .unexpectedEnd
    | some (gap, buf1) =>
      if smallest < gap + Gen.ackGapBias then .error .malformed else
      match VarInt.decode buf1 with
      | none => .error .unexpectedEnd
      | some (block, buf2) =>
        if smallest - (gap + Gen.ackGapBias) < block then .error .malformed else
        scanLoop n buf2 (smallest - (gap + Gen.ackGapBias) - block)

/-- `scan_ack_blocks`: number of bytes covered by exactly `n` additional ranges -/
def scanAckBlocks (buf : Bytes) (largest n : Nat) : Except IterErr Nat :=
  match VarInt.decode buf with
  | none => .error .unexpectedEnd
  | some (firstBlock, buf1) =>
    if largest < firstBlock then .error .malformed else
    match scanLoop n buf1 (largest - firstBlock) with
    | .error e => .error e
    | .ok rest => .ok (buf.length - rest.length)

/-- `BufExt::get_var` on a slice that may be too short: on failure `VarInt::decode` has already consumed the
    first byte -/
def getVar (bs : Bytes) : Option Nat × Bytes :=
  match VarInt.decode bs with
  | some (v, rest) => (some v, rest)
  | none => (none, bs.drop 1)

inductive Step where
  | done
  | item (lo hi largest : Nat) (data : Bytes)
  | panic
deriving DecidableEq, Repr

/-- `AckIter::next` on state (largest, data) -/
def iterNext (largest : Nat) (data : Bytes) : Step :=
  if data.isEmpty then .done else
  match VarInt.decode data with
  | none => .panic
  | some (block, d1) =>
    match getVar d1 with
    | (some gap, d2) =>
      if largest < block + gap + Gen.ackGapBias then .panic else
      if largest < block then .panic else
      .item (largest - block) largest (largest - (block + gap + Gen.ackGapBias)) d2
    | (none, d2) =>
      if largest < block then .panic else .item (largest - block) largest largest d2

/-- collecting the iterator (fuel ≥ number of items + 1; `data.length + 1` always suffices); none = panic -/
def iterAll : Nat → Nat → Bytes → Option (List (Nat × Nat))
  | 0, _, _ => some []
  | fuel+1, largest, data =>
    match iterNext largest data with
    | .done => some []
    | .panic => none
    | .item lo hi largest' data' =>
      match iterAll fuel largest' data' with
      | none => none
      | some rest => some ((lo, hi) :: rest)

structure AckFrame where
  largest : Nat
  delay : Nat
  additional : Bytes
  ecn : Option (Nat × Nat × Nat)
deriving DecidableEq, Repr

/-- the `FrameType::ACK | FrameType::ACK_ECN` arm of `Iter::try_next`, given the frame type already read;
    returns the frame and the unread rest -/
def decodeAckBody (ty : Nat) (bs : Bytes) : Except IterErr (AckFrame × Bytes) :=
  match VarInt.decode bs with
  | none => .error .unexpectedEnd
  | some (largest, b1) =>
  match VarInt.decode b1 with
  | none => .error .unexpectedEnd
  | some (delay, b2) =>
  match VarInt.decode b2 with
  | none => .error .unexpectedEnd
  | some (extraBlocks, b3) =>
  match scanAckBlocks b3 largest extraBlocks with
  | .error e => .error e
  | .ok n =>
    let additional := b3.take n
    let b4 := b3.drop n
    if ty ≠ Gen.frameTypeAckEcn then .ok (⟨largest, delay, additional, none⟩, b4) else
    match VarInt.decode b4 with
    | none => .error .unexpectedEnd
    | some (ect0, b5) =>
    match VarInt.decode b5 with
    | none => .error .unexpectedEnd
    | some (ect1, b6) =>
    match VarInt.decode b6 with
    | none => .error .unexpectedEnd
    | some (ce, b7) => .ok (⟨largest, delay, additional, some (ect0, ect1, ce)⟩, b7)

/-- `Iter::try_next` restricted to ACK / ACK_ECN: the frame type is a varint; other types are not modelled here
    (`none`) -/
def decodeAck (bs : Bytes) : Option (Except IterErr (AckFrame × Bytes)) :=
  match VarInt.decode bs with
  | none => some (.error .unexpectedEnd)
  | some (ty, rest) =>
    if ty = Gen.frameTypeAck ∨ ty = Gen.frameTypeAckEcn then some (decodeAckBody ty rest) else none

/-- `Ack::iter().collect()` (none = panic) -/
def AckFrame.ranges (f : AckFrame) : Option (List (Nat × Nat)) :=
  iterAll (f.additional.length + 1) f.largest f.additional

/-- `BufMutExt::write_var` (none = `VarInt::from_u64(x).unwrap()` panics) -/
def writeVar (x : Nat) : Option Bytes :=
  match VarInt.fromU64 x with
  | none => none
  | some v => VarInt.encode v

/-- the `for block in rest` loop of `Ack::encode` over the remaining ranges in descending order -/
def encodeRest : Nat → List (Nat × Nat) → Option Bytes
  | _, [] => some []
  | prev, (s, e) :: t =>
    if e < s then none else
    if prev < e then none else
    if prev - e < 1 then none else
    match writeVar (prev - e - 1) with
    | none => none
    | some g =>
      if e - s < 1 then none else
      match writeVar (e - s - 1), encodeRest s t with
      | some b, some r => some (g ++ b ++ r)
      | _, _ => none

/-- `Ack::encode(delay, ranges, ecn, buf)`; `ranges` = content of the `ArrayRangeSet` (ascending, half-open) -/
def encode (delay : Nat) (ranges : List (Nat × Nat)) (ecn : Option (Nat × Nat × Nat)) : Option Bytes :=
  match ranges.reverse with
  | [] => none
  | (s, e) :: rest =>
    if e < 1 then none else
    if e < s then none else
    if e - s < 1 then none else
    match writeVar (if ecn.isSome then Gen.frameTypeAckEcn else Gen.frameTypeAck), writeVar (e - 1), writeVar delay,
        writeVar (ranges.length - 1), writeVar (e - s - 1), encodeRest s rest with
    | some ty, some l, some d, some n, some f, some r =>
      match ecn with
      | none => some (ty ++ l ++ d ++ n ++ f ++ r)
      | some (a, b, c) =>
        match writeVar a, writeVar b, writeVar c with
        | some a, some b, some c => some (ty ++ l ++ d ++ n ++ f ++ r ++ a ++ b ++ c)
        | _, _, _ => none
    | _, _, _, _, _, _ => none

end QM.Ack
