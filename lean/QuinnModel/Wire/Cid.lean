import QuinnModel.Wire.Parser
import QuinnModel.Gen.Frames
/-
Model of quinn-proto/src/shared.rs `ConnectionId::{encode_long, decode_long}` (long-header form: one length
byte, then the id).  A connection id is its byte string (`ConnectionId` holds at most MAX_CID_SIZE bytes).
-/
namespace QM.Wire.Cid
open QM QM.Wire QM.Wire.P

/-- `ConnectionId::encode_long` -/
def encodeLong (cid : Bytes) (buf : Option Bytes) : Option Bytes :=
  wBytes cid (wU8 cid.length buf)

/-- `ConnectionId::decode_long`: error `e` = `None`; the copy in `from_buf` is unchecked (`panic` of the
    error type = it would read past the end) -/
def decodeLong {ε} (e panic : ε) : P ε Bytes := do
  let len ← getU8 e
  let rem ← remaining
  if len > Gen.wireMaxCidSize ∨ rem < len then fail e else takeN panic len

end QM.Wire.Cid
