import QuinnModel.Wire.Parser
import QuinnModel.Gen.Frames
/-
Model of quinn-proto/src/frame.rs: the frame encoders and `frame::Iter` (`Iter::{new,try_next,next}`,
`take_len`, `take_remaining`, `scan_ack_blocks`).

Frame type codes, STREAM/DATAGRAM type ranges, flag masks and size bounds are generated from the Rust source
on every run (`QuinnModel/Gen/Frames.lean`, T1).

Encoders whose Rust is a method in frame.rs (`Ack::encode`, `ResetStream::encode`, `StopSending::encode`,
`Crypto::encode`, `NewToken::encode`, `StreamMeta::encode` + payload, `NewConnectionId::encode`,
`ConnectionClose::encode`, `ApplicationClose::encode`, `Datagram::encode`, `AckFrequency::encode`) are mirrored
write by write.  The remaining kinds are written inline by `Connection::populate_packet` /
`StreamsState::write_control_frames` as `buf.write(FrameType::X); buf.write_var(..)`; they are mirrored the
same way (DATA_BLOCKED and STREAM_DATA_BLOCKED are never sent by quinn: their encoder is the obvious dual of
the decoder and exists only so that the decoder arm is exercised).
-/
namespace QM.Wire
open QM QM.Wire.P

/-- `frame::IterErr` -/
inductive FrameErr
  | unexpectedEnd | invalidFrameId | malformed
  /-- not an `IterErr`: the decoder itself would panic (`copy_to_slice` past the end).  Theorem
      `decode_no_panic`: never produced. -/
  | panic
deriving DecidableEq, Repr

/-- `frame::Frame` as produced by `Iter`.  ACK: `additional` is kept as the decoded varints
    (first block, then (gap, block) pairs): `scan_ack_blocks` has validated exactly that shape.
    `Dir` is `uni : Bool`.  `StreamId`, `VarInt`, `TransportErrorCode` are their `u64` payload. -/
inductive Frame
  | padding
  | ping
  | ack (largest delay first : Nat) (blocks : List (Nat × Nat)) (ecn : Option (Nat × Nat × Nat))
  | resetStream (id code finalOffset : Nat)
  | stopSending (id code : Nat)
  | crypto (offset : Nat) (data : Bytes)
  | newToken (token : Bytes)
  | stream (id offset : Nat) (fin : Bool) (data : Bytes)
  | maxData (v : Nat)
  | maxStreamData (id offset : Nat)
  | maxStreams (uni : Bool) (count : Nat)
  | dataBlocked (offset : Nat)
  | streamDataBlocked (id offset : Nat)
  | streamsBlocked (uni : Bool) (limit : Nat)
  | newConnectionId (sequence retirePriorTo : Nat) (id : Bytes) (resetToken : Bytes)
  | retireConnectionId (sequence : Nat)
  | pathChallenge (token : Nat)
  | pathResponse (token : Nat)
  | closeConn (code : Nat) (frameType : Option Nat) (reason : Bytes)
  | closeApp (code : Nat) (reason : Bytes)
  | datagram (data : Bytes)
  | ackFrequency (sequence ackElicitingThreshold requestMaxAckDelay reorderingThreshold : Nat)
  | immediateAck
  | handshakeDone
deriving DecidableEq, Repr

namespace Frame

/-! ### encoders (`none` = panic of the encoder) -/

/-- the `for block in rest` loop of `Ack::encode` -/
def wAckBlocks : List (Nat × Nat) → Option Bytes → Option Bytes
  | [], buf => buf
  | (gap, len) :: rest, buf => wAckBlocks rest (wVar len (wVar gap buf))

/-- `EcnCounts::encode` -/
def wEcn (e : Nat × Nat × Nat) (buf : Option Bytes) : Option Bytes :=
  wVar e.2.2 (wVar e.2.1 (wVar e.1 buf))

/-- `VarInt::from_u64(x).unwrap().size()`; `none` = the `unwrap` panics -/
def sizeOf62 (x : Nat) : Option Nat :=
  match VarInt.fromU64 x with
  | some v => VarInt.size v
  | none => none

/-- the `- self.error_code.size()` term of the close budget, present (flag 1) or not (flag 0) as generated
    from the source; `none` = `VarInt::size` on a malformed value (`panic!`) -/
def codeBudget (flag code : Nat) : Option Nat :=
  if flag = 0 then some 0 else VarInt.size code

/-- `max_len - overhead - sizes`: `none` = `usize` subtraction underflow (checked build) -/
def closeBudget (maxLen overhead sizes : Nat) : Option Nat :=
  if maxLen < overhead + sizes then none else some (maxLen - overhead - sizes)

/-- `self.frame_type.map_or(0, |x| x.0)` -/
def ftRaw (ft : Option Nat) : Nat :=
  match ft with
  | some x => x
  | none => 0

/-- type byte of a STREAM frame as computed by `StreamMeta::encode` -/
def streamTy (offset : Nat) (length fin : Bool) : Nat :=
  let ty := Gen.streamTysLo
  let ty := if offset ≠ 0 then ty ||| Gen.streamEncOffBit else ty
  let ty := if length then ty ||| Gen.streamEncLenBit else ty
  if fin then ty ||| Gen.streamEncFinBit else ty

/-- type of a DATAGRAM frame as computed by `Datagram::encode` -/
def datagramTy (length : Bool) : Nat :=
  Gen.datagramTysLo ||| (if length then Gen.datagramEncLenBit else 0)

/-- Encode one frame.  `withLen`: the `length` argument of `StreamMeta::encode` / `Datagram::encode`
    (false only for the last frame of a packet); `maxLen`: the `max_len` argument of `Close::encode`. -/
def encodeWith (withLen : Bool) (maxLen : Nat) : Frame → Option Bytes
  | .padding => wVar Gen.ftPadding (some [])
  | .ping => wVar Gen.ftPing (some [])
  | .ack largest delay first blocks ecn =>
    let buf := wVar (if ecn.isSome then Gen.ftAckEcn else Gen.ftAck) (some [])
    let buf := wVar largest buf
    let buf := wVar delay buf
    let buf := wVar blocks.length buf
    let buf := wVar first buf
    let buf := wAckBlocks blocks buf
    match ecn with
    | some e => wEcn e buf
    | none => buf
  | .resetStream id code fo => wVar fo (wVar code (wVar id (wVar Gen.ftResetStream (some []))))
  | .stopSending id code => wVar code (wVar id (wVar Gen.ftStopSending (some [])))
  | .crypto offset data =>
    wBytes data (wVar data.length (wVar offset (wVar Gen.ftCrypto (some []))))
  | .newToken token => wBytes token (wVar token.length (wVar Gen.ftNewToken (some [])))
  | .stream id offset fin data =>
    let buf := wVar (streamTy offset withLen fin) (some [])
    let buf := wVar id buf
    let buf := if offset ≠ 0 then wVar offset buf else buf
    let buf := if withLen then wVar data.length buf else buf
    wBytes data buf
  | .maxData v => wVar v (wVar Gen.ftMaxData (some []))
  | .maxStreamData id offset => wVar offset (wVar id (wVar Gen.ftMaxStreamData (some [])))
  | .maxStreams uni count =>
    wVar count (wVar (if uni then Gen.ftMaxStreamsUni else Gen.ftMaxStreamsBidi) (some []))
  | .dataBlocked offset => wVar offset (wVar Gen.ftDataBlocked (some []))
  | .streamDataBlocked id offset => wVar offset (wVar id (wVar Gen.ftStreamDataBlocked (some [])))
  | .streamsBlocked uni limit =>
    wVar limit (wVar (if uni then Gen.ftStreamsBlockedUni else Gen.ftStreamsBlockedBidi) (some []))
  | .newConnectionId seq retire id token =>
    wBytes token (wBytes id (wU8 id.length (wVar retire (wVar seq (wVar Gen.ftNewConnectionId (some []))))))
  | .retireConnectionId seq => wVar seq (wVar Gen.ftRetireConnectionId (some []))
  | .pathChallenge t => wU64 t (wVar Gen.ftPathChallenge (some []))
  | .pathResponse t => wU64 t (wVar Gen.ftPathResponse (some []))
  | .closeConn code frameType reason =>
    let buf := wVar Gen.ftConnectionClose (some [])
    let buf := wVar code buf
    let ty := ftRaw frameType
    let buf := wVar ty buf
    match codeBudget Gen.closeConnBudgetsCodeSize code, sizeOf62 ty, sizeOf62 reason.length with
    | some scode, some sty, some slen =>
      match closeBudget maxLen Gen.closeConnOverhead (scode + (sty + slen)) with
      | none => none
      | some budget =>
        let actual := min reason.length budget
        wBytes (reason.take actual) (wVar actual buf)
    | _, _, _ => none
  | .closeApp code reason =>
    let buf := wVar Gen.ftApplicationClose (some [])
    let buf := wVar code buf
    match codeBudget Gen.closeAppBudgetsCodeSize code, sizeOf62 reason.length with
    | some scode, some slen =>
      match closeBudget maxLen Gen.closeAppOverhead (scode + slen) with
      | none => none
      | some budget =>
        let actual := min reason.length budget
        wBytes (reason.take actual) (wVar actual buf)
    | _, _ => none
  | .datagram data =>
    let buf := wVar (datagramTy withLen) (some [])
    let buf := if withLen then wVar data.length buf else buf
    wBytes data buf
  | .ackFrequency s t d r => wVar r (wVar d (wVar t (wVar s (wVar Gen.ftAckFrequency (some [])))))
  | .immediateAck => wVar Gen.ftImmediateAck (some [])
  | .handshakeDone => wVar Gen.ftHandshakeDone (some [])

/-- `usize::MAX`: `Close::encode(out, usize::MAX)` never truncates a reason that fits in memory -/
def usizeMax : Nat := 2^64 - 1

/-- canonical encoding: explicit lengths, no close truncation -/
def encode (f : Frame) : Option Bytes := encodeWith true usizeMax f

/-- encoding as the last frame of a packet: STREAM / DATAGRAM without length -/
def encodeLast (f : Frame) : Option Bytes := encodeWith false usizeMax f

/-! ### decoder -/

abbrev E := FrameErr.unexpectedEnd

/-- `Iter::take_len` -/
def takeLen : P FrameErr Bytes := do
  let len ← getVar E
  takeN E len

/-- `if self.bytes.remaining() < check { return Err(UnexpectedEnd) }` followed by an unchecked
    `copy_to_slice` of `n` bytes (panics in `bytes` when fewer remain) -/
def takeGuarded (check n : Nat) : P FrameErr Bytes := do
  let rem ← remaining
  if rem < check then fail E else takeN .panic n

/-- the `for _ in 0..n` loop of `scan_ack_blocks`; `smallest` as in the Rust.  Returns the pairs read. -/
def scanBlocks : Nat → Nat → P FrameErr (List (Nat × Nat))
  | 0, _ => pure []
  | n + 1, smallest => do
    let gap ← getVar E
    if smallest < gap + 2 then fail .malformed else do
      let block ← getVar E
      if smallest - (gap + 2) < block then fail .malformed else do
        let rest ← scanBlocks n (smallest - (gap + 2) - block)
        pure ((gap, block) :: rest)

/-- `scan_ack_blocks` followed by `split_to(n)` -/
def scanAck (largest n : Nat) : P FrameErr (Nat × List (Nat × Nat)) := do
  let first ← getVar E
  if largest < first then fail .malformed else do
    let blocks ← scanBlocks n (largest - first)
    pure (first, blocks)

/-- `FrameType::stream`: `StreamInfo(self.0 as u8)` when the type is in `STREAM_TYS` -/
def streamInfo (ty : Nat) : Option Nat :=
  if Gen.streamTysLo ≤ ty ∧ ty ≤ Gen.streamTysHi then some (ty % 256) else none

/-- `FrameType::datagram` -/
def datagramInfo (ty : Nat) : Option Nat :=
  if Gen.datagramTysLo ≤ ty ∧ ty ≤ Gen.datagramTysHi then some (ty % 256) else none

/-- body of `Iter::try_next` after the frame type has been read -/
def decodeBody (ty : Nat) : P FrameErr Frame :=
  if ty = Gen.ftPadding then pure .padding
  else if ty = Gen.ftResetStream then do
    let id ← getVar E
    let code ← getVar E
    let fo ← getVar E
    pure (.resetStream id code fo)
  else if ty = Gen.ftConnectionClose then do
    let code ← getVar E
    let x ← getVar E
    let reason ← takeLen
    pure (.closeConn code (if x = 0 then none else some x) reason)
  else if ty = Gen.ftApplicationClose then do
    let code ← getVar E
    let reason ← takeLen
    pure (.closeApp code reason)
  else if ty = Gen.ftMaxData then do
    let v ← getVar E
    pure (.maxData v)
  else if ty = Gen.ftMaxStreamData then do
    let id ← getVar E
    let offset ← getVar E
    pure (.maxStreamData id offset)
  else if ty = Gen.ftMaxStreamsBidi then do
    let count ← getVar E
    pure (.maxStreams false count)
  else if ty = Gen.ftMaxStreamsUni then do
    let count ← getVar E
    pure (.maxStreams true count)
  else if ty = Gen.ftPing then pure .ping
  else if ty = Gen.ftDataBlocked then do
    let offset ← getVar E
    pure (.dataBlocked offset)
  else if ty = Gen.ftStreamDataBlocked then do
    let id ← getVar E
    let offset ← getVar E
    pure (.streamDataBlocked id offset)
  else if ty = Gen.ftStreamsBlockedBidi then do
    let limit ← getVar E
    pure (.streamsBlocked false limit)
  else if ty = Gen.ftStreamsBlockedUni then do
    let limit ← getVar E
    pure (.streamsBlocked true limit)
  else if ty = Gen.ftStopSending then do
    let id ← getVar E
    let code ← getVar E
    pure (.stopSending id code)
  else if ty = Gen.ftRetireConnectionId then do
    let seq ← getVar E
    pure (.retireConnectionId seq)
  else if ty = Gen.ftAck ∨ ty = Gen.ftAckEcn then do
    let largest ← getVar E
    let delay ← getVar E
    let extra ← getVar E
    let fb ← scanAck largest extra
    if ty ≠ Gen.ftAckEcn then pure (.ack largest delay fb.1 fb.2 none) else do
      let ect0 ← getVar E
      let ect1 ← getVar E
      let ce ← getVar E
      pure (.ack largest delay fb.1 fb.2 (some (ect0, ect1, ce)))
  else if ty = Gen.ftPathChallenge then do
    let t ← getU64 E
    pure (.pathChallenge t)
  else if ty = Gen.ftPathResponse then do
    let t ← getU64 E
    pure (.pathResponse t)
  else if ty = Gen.ftNewConnectionId then do
    let seq ← getVar E
    let retire ← getVar E
    if retire > seq then fail .malformed else do
      let length ← getU8 E
      if length > Gen.wireMaxCidSize ∨ length = 0 then fail .malformed else do
        let id ← takeN E length
        let token ← takeGuarded Gen.ncidTokenCheckLen Gen.wireResetTokenSize
        pure (.newConnectionId seq retire id token)
  else if ty = Gen.ftCrypto then do
    let offset ← getVar E
    let data ← takeLen
    pure (.crypto offset data)
  else if ty = Gen.ftNewToken then do
    let token ← takeLen
    pure (.newToken token)
  else if ty = Gen.ftHandshakeDone then pure .handshakeDone
  else if ty = Gen.ftAckFrequency then do
    let s ← getVar E
    let t ← getVar E
    let d ← getVar E
    let r ← getVar E
    pure (.ackFrequency s t d r)
  else if ty = Gen.ftImmediateAck then pure .immediateAck
  else
    match streamInfo ty with
    | some s => do
      let id ← getVar E
      let offset ← if s &&& Gen.streamOffMask ≠ 0 then getVar E else pure 0
      let data ← if s &&& Gen.streamLenMask ≠ 0 then takeLen else takeAll
      pure (.stream id offset (s &&& Gen.streamFinMask ≠ 0) data)
    | none =>
      match datagramInfo ty with
      | some d => do
        let data ← if d &&& Gen.datagramLenMask ≠ 0 then takeLen else takeAll
        pure (.datagram data)
      | none => fail .invalidFrameId

/-- `Iter::try_next` -/
def decodeOne : P FrameErr Frame := do
  let ty ← getVar E
  decodeBody ty

/-- result of running `Iter` to exhaustion (`Iterator::next` until `None`): the frames, then the error
    that ended the iteration, if any.  On an error the Rust clears the buffer, so nothing follows it. -/
structure IterResult where
  frames : List Frame
  err : Option FrameErr
  /-- never true (theorem `iter_fuel_suffices`): the fuel ran out -/
  outOfFuel : Bool := false
deriving Repr

def iterFuel : Nat → Bytes → IterResult
  | 0, bs => { frames := [], err := none, outOfFuel := !bs.isEmpty }
  | fuel + 1, bs =>
    if bs.isEmpty then { frames := [], err := none } else
    match decodeOne bs with
    | .error e => { frames := [], err := some e }
    | .ok (f, rest) =>
      let r := iterFuel fuel rest
      { r with frames := f :: r.frames }

/-- `Iter::new(payload)` (`none` = the PROTOCOL_VIOLATION "packet payload is empty") then iterate -/
def iter (payload : Bytes) : Option IterResult :=
  if payload.isEmpty then none else some (iterFuel payload.length payload)

/-! ### well-formedness (the domain of the round-trip theorem) -/

def V (x : Nat) : Prop := x < 2^62

/-- the `checked_sub` chain of `scan_ack_blocks` succeeds -/
def ackChain : Nat → List (Nat × Nat) → Prop
  | _, [] => True
  | smallest, (gap, block) :: rest =>
    gap < 2^62 ∧ block < 2^62 ∧ gap + 2 + block ≤ smallest ∧ ackChain (smallest - (gap + 2) - block) rest

def wellFormed : Frame → Prop
  | .padding | .ping | .immediateAck | .handshakeDone => True
  | .ack largest delay first blocks ecn =>
    V largest ∧ V delay ∧ V first ∧ first ≤ largest ∧ V blocks.length ∧ ackChain (largest - first) blocks ∧
    (∀ e, ecn = some e → V e.1 ∧ V e.2.1 ∧ V e.2.2)
  | .resetStream id code fo => V id ∧ V code ∧ V fo
  | .stopSending id code => V id ∧ V code
  | .crypto offset data => V offset ∧ V data.length
  | .newToken token => V token.length
  | .stream id offset _ data => V id ∧ V offset ∧ V data.length
  | .maxData v => V v
  | .maxStreamData id offset => V id ∧ V offset
  | .maxStreams _ count => V count
  | .dataBlocked offset => V offset
  | .streamDataBlocked id offset => V id ∧ V offset
  | .streamsBlocked _ limit => V limit
  | .newConnectionId seq retire id token =>
    V seq ∧ retire ≤ seq ∧ 1 ≤ id.length ∧ id.length ≤ 20 ∧ token.length = 16
  | .retireConnectionId seq => V seq
  | .pathChallenge t => t < 2^64
  | .pathResponse t => t < 2^64
  | .closeConn code frameType reason => V code ∧ V reason.length ∧ (∀ x, frameType = some x → V x ∧ x ≠ 0)
  | .closeApp code reason => V code ∧ V reason.length
  | .datagram data => V data.length
  | .ackFrequency s t d r => V s ∧ V t ∧ V d ∧ V r

/-! ### size bounds (`FrameStruct::SIZE_BOUND`, `Crypto::SIZE_BOUND`, `RETIRE_CONNECTION_ID_SIZE_BOUND`) -/

/-- the constant the Rust uses to reserve room for the frame, for the kinds that have one -/
def sizeBound : Frame → Option Nat
  | .closeConn .. => some Gen.sizeBoundConnectionClose
  | .closeApp .. => some Gen.sizeBoundApplicationClose
  | .stream .. => some Gen.sizeBoundStream
  | .resetStream .. => some Gen.sizeBoundResetStream
  | .stopSending .. => some Gen.sizeBoundStopSending
  | .newConnectionId .. => some Gen.sizeBoundNewConnectionId
  | .datagram _ => some Gen.sizeBoundDatagram
  | .crypto .. => some Gen.sizeBoundCrypto
  | .retireConnectionId _ => some Gen.sizeBoundRetireConnectionId
  | _ => none

/-- the variable-length payload the bound does not include -/
def payloadLen : Frame → Nat
  | .stream _ _ _ d => d.length
  | .datagram d => d.length
  | .crypto _ d => d.length
  | .closeConn _ _ r => r.length
  | .closeApp _ r => r.length
  | _ => 0

end Frame
end QM.Wire
