import QuinnModel.Wire.VarInt
/-
Reader / writer primitives shared by the frame, transport-parameter, connection-id and header models.

`P ε α` mirrors code that reads from a `bytes::Buf` cursor and may fail with an error of type `ε`:
a reader maps the remaining bytes to either an error or a value and the bytes that are left.
The primitives mirror quinn-proto/src/coding.rs (`BufExt::{get, get_var}`, `Codec for u8/u16/u64`),
`Buf::{remaining, copy_to_slice, advance}` and `Bytes::split_to`, each WITH the length check the Rust code
performs before it (an unchecked `copy_to_slice`/`split_to`/`advance` past the end panics in `bytes`;
the models only call `takeN` behind the same guard as the code, and `takeN` itself re-checks and reports
the caller's error, so no model function can read past the buffer by construction).

Writers mirror `BufMut` appends; `none` = a panic of the encoder (`VarInt::from_u64(x).unwrap()` on x ≥ 2^62).
-/
namespace QM.Wire
open QM

def P (ε α : Type) : Type := Bytes → Except ε (α × Bytes)

namespace P

@[inline] def pure' {ε α} (a : α) : P ε α := fun bs => .ok (a, bs)

@[inline] def bind' {ε α β} (p : P ε α) (f : α → P ε β) : P ε β := fun bs =>
  match p bs with
  | .ok (a, r) => f a r
  | .error e => .error e

instance {ε} : Monad (P ε) where
  pure := pure'
  bind := bind'

/-- fail with error `e` (Rust: `return Err(e)` / `?`) -/
def fail {ε α} (e : ε) : P ε α := fun _ => .error e

/-- `buf.remaining()` -/
def remaining {ε} : P ε Nat := fun bs => .ok (bs.length, bs)

/-- `buf.get_var()?` -/
def getVar {ε} (e : ε) : P ε Nat := fun bs =>
  match VarInt.decode bs with
  | some (v, r) => .ok (v, r)
  | none => .error e

/-- `buf.get::<u8>()?` -/
def getU8 {ε} (e : ε) : P ε Nat := fun bs =>
  match bs with
  | [] => .error e
  | b :: r => .ok (b, r)

/-- `n` bytes behind the guard `remaining < n → Err(e)` (`split_to`, `copy_to_slice`, `advance`) -/
def takeN {ε} (e : ε) (n : Nat) : P ε Bytes := fun bs =>
  if bs.length < n then .error e else .ok (bs.take n, bs.drop n)

/-- `buf.get::<u16>()?` (big endian) -/
def getU16 {ε} (e : ε) : P ε Nat := fun bs =>
  if bs.length < 2 then .error e else .ok (beVal (bs.take 2), bs.drop 2)

/-- `buf.get::<u32>()?` (big endian) -/
def getU32 {ε} (e : ε) : P ε Nat := fun bs =>
  if bs.length < 4 then .error e else .ok (beVal (bs.take 4), bs.drop 4)

/-- `buf.get::<u64>()?` (big endian) -/
def getU64 {ε} (e : ε) : P ε Nat := fun bs =>
  if bs.length < 8 then .error e else .ok (beVal (bs.take 8), bs.drop 8)

/-- `mem::take(&mut self.bytes)` -/
def takeAll {ε} : P ε Bytes := fun bs => .ok (bs, [])

end P

/-! writers -/

/-- `buf.write_var(x)` / `buf.write(VarInt)`: panics (none) when x ≥ 2^62 -/
def wVar (x : Nat) (buf : Option Bytes) : Option Bytes :=
  match buf, VarInt.encode x with
  | some b, some e => some (b ++ e)
  | _, _ => none

/-- `buf.put_slice(d)` -/
def wBytes (d : Bytes) (buf : Option Bytes) : Option Bytes :=
  match buf with
  | some b => some (b ++ d)
  | none => none

/-- `buf.write::<u8>(x as u8)` -/
def wU8 (x : Nat) (buf : Option Bytes) : Option Bytes := wBytes [x % 256] buf

/-- `buf.write::<u16>(x)` -/
def wU16 (x : Nat) (buf : Option Bytes) : Option Bytes := wBytes (beBytes 2 x) buf

/-- `buf.write::<u32>(x)` -/
def wU32 (x : Nat) (buf : Option Bytes) : Option Bytes := wBytes (beBytes 4 x) buf

/-- `buf.write::<u64>(x)` -/
def wU64 (x : Nat) (buf : Option Bytes) : Option Bytes := wBytes (beBytes 8 x) buf

end QM.Wire
