import QuinnModel.Util
import QuinnModel.Gen.C03Consts
/-
Model of quinn-proto/src/cid_queue.rs `CidQueue` (ring buffer `[Option<CidData>; LEN]`, `cursor`, `offset`)
and of the NEW_CONNECTION_ID arm of `Connection::process_payload` (connection/mod.rs) around it.

Panic sites of the Rust are explicit `panic` outcomes:
  insert: `Self::LEN as u64 + retired_count`, `self.cursor as u64 + index`, `self.cursor as u64 + retired_count`,
          `cid.retire_prior_to + i as u64`, `orig_offset + Self::LEN as u64` (u64 overflow, debug build),
          `.expect("it is impossible to retire a CID without supplying a new one")`,
          `.expect("non-initial CID missing reset token")`
  next:   `self.buffer[self.cursor]` (index), `self.offset += i` (overflow), `cid_data.1.unwrap()`
  active: `self.buffer[self.cursor].unwrap()`
  update_initial_cid: `debug_assert_eq!(self.offset, 0)`, `self.buffer[self.cursor]` (index)
-/
namespace QM.CidQueue
open QM

def LEN : Nat := Gen.cidQueueLen
def U64 : Nat := 2^64

theorem LEN_pos : 0 < LEN := by decide

/-- `CidData = (ConnectionId, Option<ResetToken>)` -/
structure Entry where
  cid : Bytes
  token : Option Bytes
deriving DecidableEq, Repr

/-- `[Option<CidData>; Self::LEN]` -/
abbrev Buf := Vector (Option Entry) LEN

/-- `self.buffer[i % Self::LEN]` -/
def get (b : Buf) (i : Nat) : Option Entry := b[i % LEN]'(Nat.mod_lt _ LEN_pos)

/-- `self.buffer[i % Self::LEN] = v` -/
def put (b : Buf) (i : Nat) (v : Option Entry) : Buf := b.set (i % LEN) v (Nat.mod_lt _ LEN_pos)

structure CidQueue where
  buffer : Buf
  cursor : Nat
  offset : Nat
deriving DecidableEq, Repr

/-- `CidQueue::new` -/
def new (cid : Bytes) : CidQueue :=
  ⟨(Vector.replicate LEN none).set 0 (some ⟨cid, none⟩) LEN_pos, 0, 0⟩

/-- `for i in 0..n { self.buffer[(self.cursor + i) % Self::LEN] = None; }` (started at `i`) -/
def clearLoop (b : Buf) (cursor : Nat) : Nat → Nat → Buf
  | _, 0 => b
  | i, n+1 => clearLoop (put b (cursor + i) none) cursor (i + 1) n

/-- `CidQueue::iter`: (step, data) of the occupied slots in ring order starting at the cursor -/
def iter (b : Buf) (cursor : Nat) : List (Nat × Entry) :=
  (List.range LEN).filterMap (fun step => (get b (cursor + step)).map (fun e => (step, e)))

inductive InsertOut where
  | none
  | retired (start stop : Nat) (token : Bytes)
  | errRetired
  | errLimit
  | panic
deriving DecidableEq, Repr

/-- second half of `CidQueue::insert`: the active CID was retired (`retired_count != 0`) -/
def insertTail (q : CidQueue) (rpt retiredCount : Nat) (b2 : Buf) : CidQueue × InsertOut :=
  if q.cursor + retiredCount ≥ U64 then (q, .panic) else
  let c1 := (q.cursor + retiredCount) % LEN
  match (iter b2 c1).head? with
  | none => (q, .panic)
  | some (i, e) =>
    let c2 := (c1 + i) % LEN
    if rpt + i ≥ U64 then (q, .panic) else
    let off := rpt + i
    if q.offset + LEN ≥ U64 then (q, .panic) else
    match e.token with
    | none => (q, .panic)
    | some t => (⟨b2, c2, off⟩, .retired q.offset (Gen.cidqRetiredEnd off q.offset) t)

/-- `CidQueue::insert` -/
def insert (q : CidQueue) (seq rpt : Nat) (cid tok : Bytes) : CidQueue × InsertOut :=
  if seq < q.offset then (q, .errRetired) else
  let index := seq - q.offset
  let retiredCount := rpt - q.offset
  if LEN + retiredCount ≥ U64 then (q, .panic) else
  if Gen.cidqExceedsLimit index retiredCount then (q, .errLimit) else
  let b1 := clearLoop q.buffer q.cursor 0 (Gen.cidqClearCount retiredCount)
  if q.cursor + index ≥ U64 then (q, .panic) else
  let b2 := put b1 (q.cursor + index) (some ⟨cid, some tok⟩)
  if retiredCount = 0 then ({ q with buffer := b2 }, .none) else
  insertTail q rpt retiredCount b2

inductive NextOut where
  | none
  | ok (token : Bytes) (start stop : Nat)
  | panic
deriving DecidableEq, Repr

/-- `CidQueue::next` -/
def next (q : CidQueue) : CidQueue × NextOut :=
  match (iter q.buffer q.cursor)[1]? with
  | none => (q, .none)
  | some (i, e) =>
    if h : q.cursor < LEN then
      let b := q.buffer.set q.cursor none h
      if q.offset + i ≥ U64 then (q, .panic) else
      match e.token with
      | none => (q, .panic)
      | some t => (⟨b, (q.cursor + i) % LEN, q.offset + i⟩, .ok t q.offset (q.offset + i))
    else (q, .panic)

/-- `CidQueue::active` (none = panic) -/
def active (q : CidQueue) : Option Bytes :=
  if h : q.cursor < LEN then
    match q.buffer[q.cursor] with
    | some e => some e.cid
    | none => none
  else none

/-- `CidQueue::active_seq` -/
def activeSeq (q : CidQueue) : Nat := q.offset

/-- `CidQueue::update_initial_cid` (none = panic: the `debug_assert_eq!` of a debug build) -/
def updateInitialCid (q : CidQueue) (cid : Bytes) : Option CidQueue :=
  if q.offset ≠ 0 then none else
  if h : q.cursor < LEN then some { q with buffer := q.buffer.set q.cursor (some ⟨cid, none⟩) h }
  else none

/-! ### NEW_CONNECTION_ID arm of `Connection::process_payload` -/

structure Handler where
  q : CidQueue
  /-- `spaces[Data].pending.retire_cids` -/
  pending : List Nat
  server : Bool
deriving DecidableEq, Repr

inductive FrameOut where
  | ok
  | discarded
  | err (code : Nat) (site : Nat)
  | panic
deriving DecidableEq, Repr

/-- `Frame::NewConnectionId(frame) => …` -/
def onNewConnectionId (s : Handler) (seq rpt : Nat) (cid tok : Bytes) : Handler × FrameOut :=
  match active s.q with
  | none => (s, .panic)
  | some a =>
  if a.isEmpty then (s, .err Gen.ncidNotInUseCode 0) else
  if rpt > seq then (s, .err Gen.ncidRetireUnissuedCode 1) else
  match insert s.q seq rpt cid tok with
  | (_, .panic) => (s, .panic)
  | (q', .errLimit) => ({ s with q := q' }, .err Gen.ncidExceedsLimitCode 3)
  | (q', .errRetired) =>
    if Gen.ncidRetiredArmFull s.pending.length then ({ s with q := q' }, .err Gen.ncidRetiredArmFullCode 4)
    else ({ s with q := q', pending := s.pending ++ [seq] }, .discarded)
  | (q', .retired start stop _) =>
    if Gen.ncidTooManyRetired s.pending.length start stop then
      ({ s with q := q' }, .err Gen.ncidTooManyRetiredCode 2)
    else
      let s' := { s with q := q', pending := s.pending ++ List.range' start (stop - start) }
      -- `self.rem_cids.active_seq() == 0` cannot hold here unless the queue is inconsistent; mirrored anyway
      if s'.server && activeSeq q' == 0 then
        match next q' with
        | (_, .panic) => (s, .panic)
        | (q'', .ok _ a b) => ({ s' with q := q'', pending := s'.pending ++ List.range' a (b - a) }, .ok)
        | (q'', .none) => ({ s' with q := q'' }, .ok)
      else (s', .ok)
  | (q', .none) =>
    let s' := { s with q := q' }
    if s'.server && activeSeq q' == 0 then
      match next q' with
      | (_, .panic) => (s, .panic)
      | (q'', .ok _ a b) => ({ s' with q := q'', pending := s'.pending ++ List.range' a (b - a) }, .ok)
      | (q'', .none) => ({ s' with q := q'' }, .ok)
    else (s', .ok)

/-- `populate_packet`: `space.pending.retire_cids.pop()` k times -/
def sent (s : Handler) (k : Nat) : Handler := { s with pending := s.pending.take (s.pending.length - k) }

end QM.CidQueue
