import QuinnModel.Util
import QuinnModel.Wire.VarInt
import QuinnModel.Gen.DgramMtud
/-
Model of quinn-proto/src/connection/datagrams.rs (complete): `DatagramState::{received, make_space_for,
has_send_buffer_space, drop_oversized, write, recv}`, `Datagrams::{send, max_size, recv, send_buffer_space}`,
plus `frame::Datagram::{encode,size}` (length = true), and the two pieces of `Connection` glue that clear
`send_blocked` (the DATAGRAM loop of `populate_packet`, the black-hole branch of `detect_lost_packets`, the
head-of-queue purge `drop_unsendable_datagrams` at the top of `poll_transmit`).
What `Datagrams::{send,max_size}` read from the `Connection` are explicit inputs.
Every comparison / arithmetic expression is the generated translation of the Rust text (`Gen.dg*`, T1).
A datagram is its payload (`Bytes`); `usize` is 64 bit.  Panics (checked `usize` arithmetic in a debug
build, `VarInt::from_u64(..).unwrap()`) are explicit outcomes; a non-terminating loop is `hang`.
`recv_buffered` counts what the buffered incoming datagrams are CHARGED (`recv_cost`: length, at least 1).
Not modelled: overflow of `cost + recv_buffered` (needs a 2^64-byte window).
-/
namespace QM.Datagrams
open QM

/-- `DatagramState` (queues: head = front = oldest) -/
structure State where
  recvBuffered : Nat
  incoming : List Bytes
  outgoing : List Bytes
  outgoingTotal : Nat
  sendBlocked : Bool
deriving Repr, DecidableEq

/-- `DatagramState::default()` -/
def init : State := ⟨0, [], [], 0, false⟩

inductive SendErr where
  | unsupportedByPeer | disabled | tooLarge | blocked (d : Bytes)
deriving Repr, DecidableEq

inductive RecvErr where
  | unexpected   -- PROTOCOL_VIOLATION "unexpected DATAGRAM frame"
  | oversized    -- PROTOCOL_VIOLATION "oversized datagram"
deriving Repr, DecidableEq

inductive Out where
  | sendOk
  | sendErr (e : SendErr)
  | rcvOk (wasEmpty : Bool)
  | rcvErr (e : RecvErr)
  | recvNone
  | recvSome (d : Bytes)
  | wrote (written : Bool) (buf : Bytes)
  | loop (frames : Nat) (buf : Bytes) (unblocked : Bool)
  | dropped (any : Bool)
  | glue (r : Option (Bool × Bool))     -- `none`: max_size() = None; (dropped_any, unblocked)
  | panic
  | hang
deriving Repr, DecidableEq

/-! ### frame::Datagram -/

/-- `Datagram::size(true)` (`none` = `VarInt::from_u64(len).unwrap()` panics) -/
def frameSize (d : Bytes) : Option Nat :=
  match VarInt.fromU64 d.length with
  | none => none
  | some v => match VarInt.size v with
    | none => none
    | some vs => some (Gen.dgFrameSize vs d.length)

/-- `Datagram::encode(true, ..)`: type, length, payload -/
def encodeFrame (d : Bytes) : Option Bytes :=
  match VarInt.encode Gen.dgFrameTypeWithLen, VarInt.fromU64 d.length with
  | some ty, some v => match VarInt.encode v with
    | some l => some (ty ++ l ++ d)
    | none => none
  | _, _ => none

/-! ### Datagrams::max_size and its inputs -/

/-- `Connection::predict_1rtt_overhead(None)` with the 16-byte tag guess.  `scid = some l`: no 1-RTT keys yet —
    application data travels in 0-RTT packets, whose long header carries the version, both CID lengths, the
    local handshake CID (`l` bytes) and a two-byte length on top; `none`: 1-RTT keys, short header -/
def overhead (cidLen : Nat) (scid : Option Nat) : Nat :=
  Gen.dgOverhead cidLen Gen.dgPnLenBound Gen.dgTagLenGuess
    (match scid with | none => 0 | some l => Gen.dgLongHeaderExtra l)

/-- `Datagrams::max_size`; outer `none` = a checked `usize` subtraction underflows -/
def maxSize (currentMtu overhead : Nat) (peerLimit : Option Nat) : Option (Option Nat) :=
  if currentMtu < overhead then none
  else if currentMtu - overhead < Gen.dgSizeBound then none
  else
    let budget := Gen.dgMaxSizeBudget currentMtu overhead
    match peerLimit with
    | none => some none
    | some p => some (some (Gen.dgMaxSizeResult (Gen.dgMaxSizeLimit p) budget))

/-- `Datagrams::send_buffer_space` -/
def sendBufferSpace (s : State) (sendBufferSize : Nat) : Nat := Gen.dgSendBufferSpace sendBufferSize s.outgoingTotal

/-! ### DatagramState -/

/-- `DatagramState::has_send_buffer_space` -/
def hasSendBufferSpace (s : State) (len sendBufferSize : Nat) : Bool := Gen.dgHasSpace s.outgoingTotal len sendBufferSize

/-- `DatagramState::recv_cost`: what a buffered incoming datagram is charged against the receive buffer
    (its length, an empty one a byte: every queue entry costs memory) -/
def recvCost (d : Bytes) : Nat := Gen.dgRecvCost d.length

/-- `DatagramState::recv`; on the underflow panic the head has already been popped -/
def recv (s : State) : State × Out :=
  match s.incoming with
  | [] => (s, .recvNone)
  | x :: rest =>
    if s.recvBuffered < recvCost x then ({ s with incoming := rest }, .panic)
    else ({ s with incoming := rest, recvBuffered := s.recvBuffered - recvCost x }, .recvSome x)

inductive LoopOut where
  | done | panic | hang
deriving Repr, DecidableEq

/-- the `while` loop of `received`: `recv()` until the charge fits, leaving (`break`) when the queue is empty.
    Every iteration pops a datagram or leaves, so fuel `incoming.length + 1` always suffices (`hang` = out of
    fuel is unreachable: `Lemmas.evict_never_hangs`, for ANY state). -/
def evict (cost window : Nat) : Nat → State → State × LoopOut
  | 0, s => if Gen.dgMustEvict cost s.recvBuffered window then (s, .hang) else (s, .done)
  | fuel + 1, s =>
    if Gen.dgMustEvict cost s.recvBuffered window then
      match recv s with
      | (s', .panic) => (s', .panic)
      | (s', .recvNone) => (s', .done)
      | (s', _) => evict cost window fuel s'
    else (s, .done)

/-- `DatagramState::received` -/
def received (s : State) (d : Bytes) (window : Option Nat) : State × Out :=
  match window with
  | none => (s, .rcvErr .unexpected)
  | some w =>
    if Gen.dgOversized d.length w then (s, .rcvErr .oversized) else
    let cost := recvCost d
    -- charged more than the whole buffer (an empty datagram, window 0): dropped, `Ok(false)`
    if Gen.dgCostTooBig cost w then (s, .rcvOk false) else
    let wasEmpty := Gen.dgWasEmpty s.recvBuffered
    match evict cost w (s.incoming.length + 1) s with
    | (s', .panic) => (s', .panic)
    | (s', .hang) => (s', .hang)
    | (s', .done) => ({ s' with recvBuffered := s'.recvBuffered + cost, incoming := s'.incoming ++ [d] }, .rcvOk wasEmpty)

/-- `DatagramState::make_space_for` on (queue, total); the flag is the `outgoing_total -= ..` underflow panic
    (the popped datagram is gone, the total untouched) -/
def makeSpace (len sendBufferSize : Nat) : List Bytes → Nat → List Bytes × Nat × Bool
  | [], total => ([], total, false)
  | d :: rest, total =>
    if Gen.dgHasSpace total len sendBufferSize then (d :: rest, total, false)
    else if total < d.length then (rest, total, true)
    else makeSpace len sendBufferSize rest (total - d.length)

def makeSpaceFor (s : State) (len sendBufferSize : Nat) : State × Bool :=
  match makeSpace len sendBufferSize s.outgoing s.outgoingTotal with
  | (q, t, p) => ({ s with outgoing := q, outgoingTotal := t }, p)

/-- `Datagrams::send`; `recvEnabled` = `config.datagram_receive_buffer_size.is_some()`, `max` = the value of
    `self.max_size()` (its panic is handled by the caller of this function) -/
def send (s : State) (d : Bytes) (drop recvEnabled : Bool) (max : Option Nat) (sendBufferSize : Nat) : State × Out :=
  if !recvEnabled then (s, .sendErr .disabled) else
  match max with
  | none => (s, .sendErr .unsupportedByPeer)
  | some max =>
    if Gen.dgTooLarge d.length max sendBufferSize then (s, .sendErr .tooLarge) else
    let r : (State × Bool) ⊕ State :=
      if drop then .inl (makeSpaceFor s d.length sendBufferSize)
      else if !hasSendBufferSpace s d.length sendBufferSize then .inr { s with sendBlocked := true }
      else .inl (s, false)
    match r with
    | .inr s' => (s', .sendErr (.blocked d))
    | .inl (s', true) => (s', .panic)
    | .inl (s', false) =>
      if s'.outgoingTotal + d.length ≥ 2^64 then (s', .panic)
      else ({ s' with outgoingTotal := s'.outgoingTotal + d.length, outgoing := s'.outgoing ++ [d] }, .sendOk)

/-- `Datagrams::send` including the evaluation of `self.max_size()` (`maxR = none`: it panics), which happens
    after the `Disabled` test -/
def sendApi (s : State) (d : Bytes) (drop recvEnabled : Bool) (maxR : Option (Option Nat)) (sendBufferSize : Nat) : State × Out :=
  if !recvEnabled then (s, .sendErr .disabled) else
  match maxR with
  | none => (s, .panic)
  | some max => send s d drop recvEnabled max sendBufferSize

/-- `DatagramState::drop_oversized` on (queue, total): `none` = underflow panic inside `retain` -/
def dropOver (maxPayload : Nat) : List Bytes → Nat → Option (List Bytes × Nat × Bool)
  | [], total => some ([], total, false)
  | d :: rest, total =>
    if Gen.dgKeep d.length maxPayload then
      match dropOver maxPayload rest total with
      | none => none
      | some (q, t, any) => some (d :: q, t, any)
    else if total < d.length then none
    else match dropOver maxPayload rest (total - d.length) with
      | none => none
      | some (q, t, _) => some (q, t, true)

/-- `DatagramState::drop_oversized` (state after a panic: unspecified, the model leaves it unchanged) -/
def dropOversized (s : State) (maxPayload : Nat) : State × Out :=
  match dropOver maxPayload s.outgoing s.outgoingTotal with
  | none => (s, .panic)
  | some (q, t, any) => ({ s with outgoing := q, outgoingTotal := t }, .dropped any)

/-- `DatagramState::drop_oversized_front` on (queue, total): `none` = underflow panic -/
def dropFront (maxPayload : Nat) : List Bytes → Nat → Option (List Bytes × Nat × Bool)
  | [], total => some ([], total, false)
  | d :: rest, total =>
    if Gen.dgFrontFits d.length maxPayload then some (d :: rest, total, false)
    else if total < d.length then none
    else match dropFront maxPayload rest (total - d.length) with
      | none => none
      | some (q, t, _) => some (q, t, true)

/-- `DatagramState::drop_oversized_front` (state after a panic: unspecified, the model leaves it unchanged) -/
def dropOversizedFront (s : State) (maxPayload : Nat) : State × Out :=
  match dropFront maxPayload s.outgoing s.outgoingTotal with
  | none => (s, .panic)
  | some (q, t, any) => ({ s with outgoing := q, outgoingTotal := t }, .dropped any)

/-- `DatagramState::write` -/
def write (s : State) (buf : Bytes) (maxSize : Nat) : State × Out :=
  match s.outgoing with
  | [] => (s, .wrote false buf)
  | d :: rest =>
    match frameSize d, encodeFrame d with
    | some fs, some fr =>
      if Gen.dgNoRoom buf.length fs maxSize then (s, .wrote false buf)
      else if s.outgoingTotal < d.length then ({ s with outgoing := rest }, .panic)
      else ({ s with outgoing := rest, outgoingTotal := s.outgoingTotal - d.length }, .wrote true (buf ++ fr))
    | _, _ => ({ s with outgoing := rest }, .panic)

/-! ### Connection glue that clears `send_blocked` -/

/-- the `while` loop of the DATAGRAM block of `populate_packet` (fuel: one more than the queue length) -/
def writeLoopAux (maxSize : Nat) : Nat → State → Bytes → Nat → State × Bytes × Nat × Bool
  | 0, s, buf, n => (s, buf, n, false)
  | fuel + 1, s, buf, n =>
    if Gen.dgLoopGuard buf.length maxSize then
      match write s buf maxSize with
      | (s', .wrote true buf') => writeLoopAux maxSize fuel s' buf' (n + 1)
      | (s', .wrote false _) => (s', buf, n, false)
      | (s', _) => (s', buf, n, true)
    else (s, buf, n, false)

/-- DATAGRAM block of `Connection::populate_packet` for the Data space -/
def writeLoop (s : State) (buf : Bytes) (maxSize : Nat) : State × Out :=
  match writeLoopAux maxSize (s.outgoing.length + 1) s buf 0 with
  | (s', _, _, true) => (s', .panic)
  | (s', buf', n, false) =>
    if s'.sendBlocked && decide (n > 0) then ({ s' with sendBlocked := false }, .loop n buf' true)
    else (s', .loop n buf' false)

/-- black-hole branch of `Connection::detect_lost_packets`; `max` = the value of `self.datagrams().max_size()` -/
def blackHoleGlue (s : State) (max : Option Nat) : State × Out :=
  match max with
  | none => (s, .glue none)
  | some m =>
    match dropOversized s m with
    | (s', .dropped any) =>
      if any && s'.sendBlocked then ({ s' with sendBlocked := false }, .glue (some (any, true)))
      else (s', .glue (some (any, false)))
    | (s', _) => (s', .panic)

/-- `Connection::drop_unsendable_datagrams`, run at the top of every `poll_transmit` of a connection that is not
    closing; `max` = the value of `self.datagrams().max_size()` -/
def purgeGlue (s : State) (max : Option Nat) : State × Out :=
  match max with
  | none => (s, .glue none)
  | some m =>
    match dropOversizedFront s m with
    | (s', .dropped any) =>
      if any && s'.sendBlocked then ({ s' with sendBlocked := false }, .glue (some (any, true)))
      else (s', .glue (some (any, false)))
    | (s', _) => (s', .panic)

/-! ### Operations (for the property theorems) -/

inductive Op where
  | send (d : Bytes) (drop recvEnabled : Bool) (max : Option Nat) (sendBufferSize : Nat)
  | received (d : Bytes) (window : Option Nat)
  | recv
  | write (buf : Bytes) (maxSize : Nat)
  | writeLoop (buf : Bytes) (maxSize : Nat)
  | dropOversized (maxPayload : Nat)
  | blackHoleGlue (max : Option Nat)
  | purgeGlue (max : Option Nat)
deriving Repr, DecidableEq

def step (s : State) : Op → State × Out
  | .send d drop en max b => send s d drop en max b
  | .received d w => received s d w
  | .recv => recv s
  | .write buf m => write s buf m
  | .writeLoop buf m => writeLoop s buf m
  | .dropOversized m => dropOversized s m
  | .blackHoleGlue m => blackHoleGlue s m
  | .purgeGlue m => purgeGlue s m

end QM.Datagrams
