import QuinnModel.Util
/-
Model of quinn-proto/src/range_set/btree_range_set.rs `RangeSet` (a `BTreeMap<u64, u64>` start ↦ end).
The map is a list of entries sorted by key; `put`/`del` are `BTreeMap::{insert, remove}`.
Loops that walk the map through `succ(x.start)` visit the entries in key order, so they are
structural recursions over the sorted list.
-/
namespace QM.RangeSet

abbrev RS := List (Nat × Nat)

/-- `BTreeMap::insert` -/
def put : RS → Nat → Nat → RS
  | [], k, v => [(k, v)]
  | (a, b) :: t, k, v =>
    if k < a then (k, v) :: (a, b) :: t
    else if k = a then (k, v) :: t
    else (a, b) :: put t k v

/-- `BTreeMap::remove` -/
def del (s : RS) (k : Nat) : RS := s.filter (fun p => p.1 != k)

/-- `RangeSet::pred`: the entry with the greatest key `≤ x` -/
def pred : RS → Nat → Option (Nat × Nat)
  | [], _ => none
  | (a, b) :: t, x =>
    if a ≤ x then (match pred t x with
      | some p => some p
      | none => some (a, b))
    else pred t x

/-- `RangeSet::succ`: the entry with the least key `> x` -/
def succ (s : RS) (x : Nat) : Option (Nat × Nat) := s.find? (fun p => x < p.1)

/-- the `while let Some((next_start, next_end)) = self.succ(x.start)` loop of `insert`
    (`x.start = xs` is fixed, `x.end = xe` grows); returns the map without the absorbed entries
    and the final `x.end` -/
def absorb : RS → Nat → Nat → RS × Nat
  | [], _, xe => ([], xe)
  | (a, b) :: t, xs, xe =>
    if a ≤ xs then ((a, b) :: (absorb t xs xe).1, (absorb t xs xe).2)   -- not a successor of xs
    else if a > xe then ((a, b) :: t, xe)                                -- `break`
    else absorb t xs (max b xe)                                          -- removed, `x.end = max(..)`

/-- `RangeSet::insert(xs..xe)`; the Bool is the return value -/
def insert (s : RS) (xs xe : Nat) : RS × Bool :=
  if xe ≤ xs then (s, false)                       -- `x.is_empty()`
  else
    match pred s xs with
    | some (a, b) =>
      if b ≥ xe then (s, false)                    -- wholly contained
      else if b ≥ xs then                          -- extend overlapping predecessor
        (put (absorb (del s a) a xe).1 a (absorb (del s a) a xe).2, true)
      else (put (absorb s xs xe).1 xs (absorb s xs xe).2, true)
    | none => (put (absorb s xs xe).1 xs (absorb s xs xe).2, true)

def isEmpty (s : RS) : Bool := s.isEmpty

/-- `RangeSet::min` -/
def min (s : RS) : Option Nat := s.head?.map (·.1)

/-- `RangeSet::peek_min` -/
def peekMin (s : RS) : Option (Nat × Nat) := s.head?

/-- `RangeSet::pop_min` -/
def popMin : RS → Option ((Nat × Nat) × RS)
  | [] => none
  | p :: t => some (p, t)

/-- `Replace::next` called until it returns `None` (after the `pred` part was yielded):
    (yielded ranges, remaining map, final `range.end`); `range.start = rs` does not change -/
def drain : RS → Nat → Nat → List (Nat × Nat) × RS × Nat
  | [], _, re => ([], [], re)
  | (a, b) :: t, rs, re =>
    if a ≤ rs then ((drain t rs re).1, (a, b) :: (drain t rs re).2.1, (drain t rs re).2.2)
    else if a > re then ([], (a, b) :: t, re)                       -- `return None`
    else                                                           -- entry removed
      if a = Nat.min re b then ([], t, Nat.max re b)               -- `next_start == replaced_end`: None
      else ((a, Nat.min re b) :: (drain t rs (Nat.max re b)).1,
            (drain t rs (Nat.max re b)).2.1, (drain t rs (Nat.max re b)).2.2)

/-- `RangeSet::replace(rs..re)` consumed by a `for` loop and then dropped: the ranges the loop
    sees (intersection of the old set with the new range, when the set is well formed) and the
    new set. `Drop` runs the iterator once more until `None` and inserts the aggregate range. -/
def replace (s : RS) (rs re : Nat) : List (Nat × Nat) × RS :=
  let start : RS × Nat × Nat × List (Nat × Nat) :=
    match pred s rs with
    | some (ps, pe) =>
      if pe ≥ rs then
        (del s ps, Nat.min rs ps, Nat.max re pe,
          if rs ≠ Nat.min re pe then [(rs, Nat.min re pe)] else [])
      else (s, rs, re, [])
    | none => (s, rs, re, [])
  let d1 := drain start.1 start.2.1 start.2.2.1          -- the consumer's loop
  let d2 := drain d1.2.1 start.2.1 d1.2.2                -- `Drop`: `for _ in &mut *self {}`
  (start.2.2.2 ++ d1.1, put d2.2.1 start.2.1 d2.2.2)

/-- `x ∈ set` -/
def mem (x : Nat) (s : RS) : Prop := ∃ p ∈ s, p.1 ≤ x ∧ x < p.2

/-- total length of the ranges (`iter().map(|x| x.end - x.start).sum()`; `none` = underflow) -/
def total : RS → Option Nat
  | [] => some 0
  | (a, b) :: t => if b < a then none else (total t).map (· + (b - a))

end QM.RangeSet
