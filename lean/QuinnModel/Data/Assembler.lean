import QuinnModel.Util
import QuinnModel.Data.RangeSet
import QuinnModel.Gen.StreamBuf
/-
Model of quinn-proto/src/connection/assembler.rs `Assembler` as a *spec with observed choice*.

The implementation keeps its chunks in a `BinaryHeap`, is free in how it cuts the chunks it returns
and in when it defragments (driven by allocation accounting, which is not modelled). Neither matters
for stream delivery, so the model keeps
  * `data`: every chunk pushed since the last `clear`, trimmed exactly as `insert` trims it
    (read index in ordered mode, `recvd.replace(..)` duplicates in unordered mode); only used to
    look bytes up;
  * `cov`: the set of *live* stream offsets the implementation buffers. In ordered mode offsets below
    the read index are dead (`read` pops such chunks lazily, `defragment` trims them since it starts at
    `bytes_read` in ordered mode) and are not part of the state; in unordered mode every buffered
    offset is live. `insert`, `read`, `clear` and the switch to unordered mode change `cov`
    deterministically (`defragment` preserves the live coverage).
`read` receives the chunk boundaries the implementation chose (`Obs`) and checks they are allowed:
start at the read index (ordered), at most `max_length` long, only buffered offsets; it predicts the
bytes. `invalid` = the observed choice is not allowed by this specification.
-/
namespace QM.Assembler
open QM QM.RangeSet

structure Asm where
  /-- `State::Unordered` -/
  unordered : Bool := false
  /-- `State::Unordered { recvd }` (meaningless while ordered) -/
  recvd : RS := []
  data : List (Nat × Bytes) := []
  cov : RS := []
  bytesRead : Nat := 0
  end_ : Nat := 0
  /-- number of `self.data.push(..)` since the last `clear`: upper bound of `self.data.len()` -/
  pushes : Nat := 0
deriving Repr, DecidableEq

def init : Asm := {}

/-- `self.data.push(Buffer::new(off, bytes, ..))` -/
def push (s : Asm) (off : Nat) (bytes : Bytes) : Asm :=
  { s with data := (off, bytes) :: s.data,
           cov := (RangeSet.insert s.cov off (off + bytes.length)).1,
           pushes := s.pushes + 1 }

/-- the `for duplicate in recvd.replace(..)` loop of `insert` (unordered mode):
    `none` = `split_to`/`advance` out of bounds or `duplicate.end - offset` underflow -/
def dupLoop : List (Nat × Nat) → Asm → Nat → Bytes → Option (Asm × Nat × Bytes)
  | [], s, off, bytes => some (s, off, bytes)
  | (ds, de) :: t, s, off, bytes =>
    if ds > off then
      if ds - off > bytes.length then none
      else if de < ds then none
      else if de - ds > bytes.length - (ds - off) then none
      else dupLoop t (push s off (bytes.take (ds - off))) de ((bytes.drop (ds - off)).drop (de - ds))
    else
      if de < off then none
      else if de - off > bytes.length then none
      else dupLoop t s de (bytes.drop (de - off))

inductive InsertOut where
  | ok | tooMany | panic | invalid
deriving Repr, DecidableEq

/-- tail of `insert`: push what is left; whether defragmentation ran and found too many chunks is
    observed (`obsTooMany`) and only allowed when more than `asmMaxChunks` buffers were pushed -/
def finishInsert (s : Asm) (off : Nat) (bytes : Bytes) (obsTooMany : Bool) : Asm × InsertOut :=
  if bytes.isEmpty then (s, if obsTooMany then .invalid else .ok)
  else
    if s.bytesRead > s.end_ then (push s off bytes, .panic)       -- `self.end - self.bytes_read`
    else if obsTooMany then
      (push s off bytes, if (push s off bytes).pushes > Gen.asmMaxChunks then .tooMany else .invalid)
    else (push s off bytes, .ok)

/-- `insert(offset, bytes, allocation_size)` -/
def insert (s : Asm) (off : Nat) (bytes : Bytes) (alloc : Nat) (obsTooMany : Bool) : Asm × InsertOut :=
  if bytes.length > alloc then (s, .panic)                       -- `debug_assert!`
  else if off + bytes.length ≥ 2^64 then (s, .panic)             -- `offset + bytes.len() as u64`
  else if bytes.isEmpty then                                      -- `if bytes.is_empty() { return Ok(()) }`
    ({ s with end_ := Nat.max s.end_ (off + bytes.length) }, if obsTooMany then .invalid else .ok)
  else
    if s.unordered then
      match dupLoop (RangeSet.replace s.recvd off (off + bytes.length)).1
          { s with end_ := Nat.max s.end_ (off + bytes.length),
                   recvd := (RangeSet.replace s.recvd off (off + bytes.length)).2 } off bytes with
      | none => (s, .panic)
      | some (s1, off1, bytes1) => finishInsert s1 off1 bytes1 obsTooMany
    else if off < s.bytesRead then
      if off + bytes.length ≤ s.bytesRead then
        ({ s with end_ := Nat.max s.end_ (off + bytes.length) }, if obsTooMany then .invalid else .ok)
      else finishInsert { s with end_ := Nat.max s.end_ (off + bytes.length) } s.bytesRead
            (bytes.drop (s.bytesRead - off)) obsTooMany
    else finishInsert { s with end_ := Nat.max s.end_ (off + bytes.length) } off bytes obsTooMany

/-- `s ∩ [r, ∞)` -/
def clipFrom (s : RS) (r : Nat) : RS :=
  s.filterMap (fun p => if p.2 > r then some (Nat.max p.1 r, p.2) else none)

/-- `ensure_ordering(ordered)`; `false` = `Err(IllegalOrderedRead)`.
    Entering unordered mode defragments — in ordered mode `defragment` starts at `bytes_read`, so
    nothing below the read index survives — and records `0..bytes_read` plus every buffered chunk as
    received. -/
def ensureOrdering (s : Asm) (ordered : Bool) : Asm × Bool :=
  if ordered && s.unordered then (s, false)
  else if !ordered && !s.unordered then
    ({ s with unordered := true,
              cov := clipFrom s.cov s.bytesRead,
              recvd := (clipFrom s.cov s.bytesRead).foldl (fun acc p => (RangeSet.insert acc p.1 p.2).1)
                         (RangeSet.insert [] 0 s.bytesRead).1 }, true)
  else (s, true)

/-- what the implementation returned from `read` -/
inductive Obs where
  | none
  | chunk (off len : Nat)
deriving Repr, DecidableEq

inductive ReadOut where
  | none
  | chunk (off : Nat) (bytes : Bytes)
  | invalid
deriving Repr, DecidableEq

/-- byte buffered for stream offset `x` -/
def lookup : List (Nat × Bytes) → Nat → Option Nat
  | [], _ => none
  | (o, b) :: t, x => if o ≤ x ∧ x < o + b.length then b[x - o]? else lookup t x

/-- the buffered bytes at `off .. off+len` -/
def readBytes (d : List (Nat × Bytes)) (off : Nat) : Nat → Option Bytes
  | 0 => some []
  | n + 1 => match lookup d off, readBytes d (off + 1) n with
    | some v, some r => some (v :: r)
    | _, _ => none

/-- `a..b` lies inside one run of `s` (`a ∈ s` when `a = b`) -/
def covers (s : RS) (a b : Nat) : Bool := s.any (fun p => p.1 ≤ a && b ≤ p.2 && a < p.2)

/-- `s \ [a, b)` -/
def removeRange : RS → Nat → Nat → RS
  | [], _, _ => []
  | (p, q) :: t, a, b =>
    if b ≤ a then (p, q) :: t
    else (if p < Nat.min q a then [(p, Nat.min q a)] else [])
      ++ (if Nat.max p b < q then [(Nat.max p b, q)] else [])
      ++ removeRange t a b

/-- `read(max_length, ordered)` with the observed result -/
def read (s : Asm) (max : Nat) (ordered : Bool) (obs : Obs) : Asm × ReadOut :=
  match obs with
  | .none =>
    if ordered then
      -- `chunk.offset > self.bytes_read` for the chunk with the least offset (or no chunk at all)
      if covers s.cov s.bytesRead s.bytesRead then (s, .invalid) else (s, .none)
    else
      if s.cov.isEmpty then (s, .none) else (s, .invalid)
  | .chunk off len =>
    if len > max ∨ (len = 0 ∧ max ≠ 0) ∨ !covers s.cov off (off + len) then (s, .invalid)
    else match readBytes s.data off len with
      | none => (s, .invalid)
      | some bytes =>
        if ordered then
          if off ≠ s.bytesRead then (s, .invalid)
          else
            ({ s with cov := clipFrom s.cov (s.bytesRead + len), bytesRead := s.bytesRead + len },
              .chunk off bytes)
        else
          ({ s with cov := removeRange s.cov off (off + len), bytesRead := s.bytesRead + len },
            .chunk off bytes)

/-- `clear()` -/
def clear (s : Asm) : Asm := { s with data := [], cov := [], pushes := 0 }

end QM.Assembler
