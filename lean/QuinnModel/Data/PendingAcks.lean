import QuinnModel.Util
import QuinnModel.Gen.C03Consts
/-
Model of `range_set/array_range_set.rs::ArrayRangeSet::{insert, insert_one, remove, pop_min}` and of
`connection/spaces.rs::PendingAcks::{insert_one, subtract_below}`.
A range is (start, end), half-open.  `partition_point(p)` is modelled as the length of the longest prefix satisfying
`p` — what the binary search returns on the sorted arrays the set maintains (`Sorted`, proved invariant).
Panic sites: `x + 1` in `insert_one` and `max + 1` in `subtract_below` (u64 overflow, debug build). The slice
indexings `self.0[idx]`, `self.0[idx + 1]` and `self.0.len() - 1` are in range by the loop conditions (the model
works on the split list and has no index to go wrong).
-/
namespace QM.PendingAcks
open QM

abbrev Range := Nat × Nat
abbrev RangeSet := List Range

def U64 : Nat := 2^64

/-- `Range::is_empty` -/
def rangeEmpty (r : Range) : Bool := decide (r.1 ≥ r.2)

/-- the `while idx != self.0.len() - 1` merge loop of `insert`, on the current range and the ranges after it -/
def mergeLoop (cur : Range) : RangeSet → RangeSet
  | [] => [cur]
  | next :: t => if cur.2 ≥ next.1 then mergeLoop (cur.1, Nat.max next.2 cur.2) t else cur :: next :: t

/-- `ArrayRangeSet::insert` -/
def rsInsert (l : RangeSet) (x : Range) : RangeSet × Bool :=
  if rangeEmpty x then (l, false) else
  -- `idx = partition_point(|r| r.end < x.start)`: `pre` = the ranges before `idx`, the match is on those from `idx` on
  let pre := l.takeWhile (fun r => decide (r.2 < x.1))
  match l.dropWhile (fun r => decide (r.2 < x.1)) with
  | [] => (pre ++ [x], true)
  | range :: rest =>
    if x.2 < range.1 then (pre ++ x :: range :: rest, true) else
    let result := decide (range.1 > x.1)
    let range1 : Range := if range.1 > x.1 then (x.1, range.2) else range
    if x.2 ≤ range1.2 then (pre ++ range1 :: rest, result) else
    (pre ++ mergeLoop (range1.1, x.2) rest, true)

/-- the `while idx != self.0.len()` loop of `remove`, on the ranges from `idx` on -/
def removeLoop (x : Range) : RangeSet → RangeSet × Bool
  | [] => ([], false)
  | range :: t =>
    if x.2 ≤ range.1 then (range :: t, false) else
    let left : Range := (range.1, x.1)
    let right : Range := (x.2, range.2)
    let (t', _) := removeLoop x t
    if rangeEmpty left && rangeEmpty right then (t', true)
    else if rangeEmpty left then (right :: t', true)
    else if rangeEmpty right then (left :: t', true)
    else (left :: right :: t', true)

/-- `ArrayRangeSet::remove` -/
def rsRemove (l : RangeSet) (x : Range) : RangeSet × Bool :=
  if rangeEmpty x then (l, false) else
  -- `idx = partition_point(|r| r.end <= x.start)`
  let pre := l.takeWhile (fun r => decide (r.2 ≤ x.1))
  let (post, res) := removeLoop x (l.dropWhile (fun r => decide (r.2 ≤ x.1)))
  (pre ++ post, res)

/-- `ArrayRangeSet::pop_min` -/
def rsPopMin : RangeSet → RangeSet × Option Range
  | [] => ([], none)
  | r :: t => (t, some r)

structure State where
  ranges : RangeSet
  /-- `largest_packet: Option<(u64, Instant)>` -/
  largestPacket : Option (Nat × Nat)
deriving DecidableEq, Repr

def init : State := ⟨[], none⟩

/-- `PendingAcks::insert_one` (none = `x + 1` overflows) -/
def insertOne (s : State) (packet now : Nat) : Option State :=
  if packet + 1 ≥ U64 then none else
  let ranges := (rsInsert s.ranges (packet, packet + 1)).1
  let lp := match s.largestPacket with
    | none => some (packet, now)
    | some (pn, t) => if packet > pn then some (packet, now) else some (pn, t)
  let ranges := if Gen.pendingAcksOverCap ranges.length then (rsPopMin ranges).1 else ranges
  some ⟨ranges, lp⟩

/-- `PendingAcks::subtract_below` (none = `max + 1` overflows) -/
def subtractBelow (s : State) (max : Nat) : Option State :=
  if max + 1 ≥ U64 then none else
  some { s with ranges := (rsRemove s.ranges (0, max + 1)).1 }

end QM.PendingAcks
