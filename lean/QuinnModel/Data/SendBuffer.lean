import QuinnModel.Util
import QuinnModel.Wire.VarInt
import QuinnModel.Data.RangeSet
import QuinnModel.Gen.StreamBuf
/-
Model of quinn-proto/src/connection/send_buffer.rs `SendBuffer` (whole file).
`Option` results: `none` = the Rust panics (debug build: `debug_assert!`, `expect`, checked arithmetic,
slice indexing, `VarInt::size` on a malformed value).
-/
namespace QM.SendBuffer
open QM QM.RangeSet

def U64 : Nat := 2^64

structure SendBuffer where
  /-- `unacked_segments` -/
  segs : List Bytes := []
  unackedLen : Nat := 0
  offset : Nat := 0
  unsent : Nat := 0
  acks : RS := []
  retransmits : RS := []
deriving Repr, DecidableEq

def init : SendBuffer := {}

/-- `write` -/
def write (s : SendBuffer) (d : Bytes) : Option SendBuffer :=
  if s.unackedLen + d.length ≥ U64 ∨ s.offset + d.length ≥ U64 then none
  else some { s with unackedLen := s.unackedLen + d.length, offset := s.offset + d.length,
                     segs := s.segs ++ [d] }

/-- the inner `while to_advance > 0` loop of `ack` (`none` = `expect("Expected buffered data")`) -/
def advance : List Bytes → Nat → Option (List Bytes)
  | [], n => if n = 0 then some [] else none
  | f :: t, n =>
    if n = 0 then some (f :: t)
    else if f.length ≤ n then advance t (n - f.length)      -- `pop_front`
    else some (f.drop n :: t)                               -- `front.advance(to_advance)`

/-- the `while self.acks.min() == Some(self.offset - self.unacked_len)` loop of `ack`:
    (acks, segments, unacked_len) -/
def ackLoop : RS → List Bytes → Nat → Nat → Option (RS × List Bytes × Nat)
  | [], segs, ul, _ => some ([], segs, ul)
  | (a, b) :: t, segs, ul, off =>
    if ul > off then none                                   -- `self.offset - self.unacked_len`
    else if a = off - ul then                               -- `pop_min().unwrap()`
      if b < a then none                                    -- `prefix.end - prefix.start`
      else if b - a > ul then none                          -- `self.unacked_len -= to_advance`
      else match advance segs (b - a) with
        | none => none
        | some segs' => ackLoop t segs' (ul - (b - a)) off
    else some ((a, b) :: t, segs, ul)

/-- `ack(a..b)` -/
def ack (s : SendBuffer) (a b : Nat) : Option SendBuffer :=
  if s.unackedLen > s.offset then none
  else
    let base := s.offset - s.unackedLen
    let acks1 := (RangeSet.insert s.acks (max base a) (max base b)).1
    match ackLoop acks1 s.segs s.unackedLen s.offset with
    | none => none
    | some (acks2, segs2, ul2) => some { s with acks := acks2, segs := segs2, unackedLen := ul2 }

def satAdd (x y : Nat) : Nat := Nat.min (x + y) (U64 - 1)

/-- the shared tail of both branches of `poll_transmit`: space left after the offset (and maybe the
    length) was accounted for, and `encode_length`; `start..limit` is what could be sent -/
def budget (maxLen start limit : Nat) : Option (Nat × Bool) :=
  match (if start ≠ 0 then (VarInt.size start).map (maxLen - ·) else some maxLen) with
  | none => none                                            -- `VarInt::size` panics
  | some m1 =>
    if limit < start then none                              -- `range.end - range.start`
    else if limit - start < m1 then some (m1 - Gen.sbufLenReserve, true) else some (m1, false)

/-- `poll_transmit(max_len)`: new state, the range, `encode_length` -/
def pollTransmit (s : SendBuffer) (maxLen : Nat) : Option (SendBuffer × (Nat × Nat) × Bool) :=
  if maxLen < Gen.sbufMinMaxLen then none                                  -- `debug_assert!(max_len >= 8 + 8)`
  else
    match RangeSet.popMin s.retransmits with
    | some ((a, b), t) =>
      match budget maxLen a b with
      | none => none
      | some (m, enc) =>
        let e := Nat.min b (satAdd m a)
        let rt := if e ≠ b then (RangeSet.insert t e b).1 else t
        some ({ s with retransmits := rt }, (a, e), enc)
    | none =>
      match budget maxLen s.unsent s.offset with
      | none => none
      | some (m, enc) =>
        let e := Nat.min s.offset (satAdd m s.unsent)
        some ({ s with unsent := e }, (s.unsent, e), enc)

/-- the `for segment in self.unacked_segments.iter()` loop of `get` -/
def getLoop : List Bytes → Nat → Nat → Nat → Option Bytes
  | [], _, _, _ => some []
  | seg :: t, so, a, b =>
    if so ≤ a ∧ a < so + seg.length then
      if b < so then none                                   -- `offsets.end - segment_offset`
      else if a - so > Nat.min (b - so) seg.length then none   -- `&segment[start..end.min(len)]`
      else some ((seg.drop (a - so)).take (Nat.min (b - so) seg.length - (a - so)))
    else getLoop t (so + seg.length) a b

/-- `get(a..b)` -/
def get (s : SendBuffer) (a b : Nat) : Option Bytes :=
  if s.unackedLen > s.offset then none else getLoop s.segs (s.offset - s.unackedLen) a b

/-- `retransmit(a..b)` -/
def retransmit (s : SendBuffer) (a b : Nat) : Option SendBuffer :=
  if b > s.unsent then none                                 -- `debug_assert!(range.end <= self.unsent)`
  else some { s with retransmits := (RangeSet.insert s.retransmits a b).1 }

/-- `retransmit_all_for_0rtt` -/
def retransmitAllFor0rtt (s : SendBuffer) : Option SendBuffer :=
  if s.offset ≠ s.unackedLen then none                      -- `debug_assert_eq!`
  else some { s with unsent := 0 }

def isFullyAcked (s : SendBuffer) : Bool := s.unackedLen == 0

def hasUnsentData (s : SendBuffer) : Bool := s.unsent != s.offset || !s.retransmits.isEmpty

/-- `unacked()` -/
def unacked (s : SendBuffer) : Option Nat :=
  match RangeSet.total s.acks with
  | none => none
  | some t => if t > s.unackedLen then none else some (s.unackedLen - t)

end QM.SendBuffer
