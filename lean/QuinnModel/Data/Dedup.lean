import QuinnModel.Util
import QuinnModel.Gen.Consts
/-
Model of quinn-proto/src/connection/spaces.rs `Dedup` (u128 window as a Nat reduced mod 2^128).
-/
namespace QM.Dedup

def W : Nat := 2^128

structure Dedup where
  window : Nat
  next : Nat
deriving Repr, DecidableEq

def init : Dedup := ⟨0, 0⟩

/-- mirrors `Dedup::insert`; returns (state, "might be a duplicate") -/
def insert (d : Dedup) (p : Nat) : Dedup × Bool :=
  if d.next ≤ p then
    let diff := p - d.next
    let w1 := ((d.window <<< 1) % W) ||| 1
    let w2 := if diff < 128 then (w1 <<< diff) % W else 0
    (⟨w2, p + 1⟩, false)
  else
    let dist := d.next - 1 - p      -- highest() - packet
    if dist < Gen.dedupWindowSize then
      if dist = 0 then (d, true)
      else
        let bit := dist - 1
        let dup := d.window.testBit bit
        (⟨d.window ||| (1 <<< bit), d.next⟩, dup)
    else (d, true)

end QM.Dedup
