import QuinnModel.Drv.Wire
import QuinnModel.Drv.Conn
import QuinnModel.Drv.Sbuf
import QuinnModel.Drv.Asm
/-
Native model driver: one request per line on stdin, one canonical response line on stdout.
`case <id>` resets every component state (and is echoed).
-/
open QM

structure St where
  dedup : Dedup.Dedup := Dedup.init
  sbuf : SendBuffer.SendBuffer := {}
  asm : Assembler.Asm := {}

def step (s : St) (line : String) : St × String :=
  match words line with
  | "case" :: _ => ({}, line.trimAscii.toString)
  | "varint" :: r => (s, Drv.varint r)
  | "pn" :: r => (s, Drv.pn r)
  | "amp" :: r => (s, Drv.amp r)
  | "life" :: r => (s, Drv.life r)
  | "timers" :: r => (s, Drv.timers r)
  | "dedup" :: r => let (d, o) := Drv.dedup s.dedup r; ({ s with dedup := d }, o)
  | "sbuf" :: r => let (d, o) := Drv.sbuf s.sbuf r; ({ s with sbuf := d }, o)
  | "asm" :: r => let (d, o) := Drv.asm s.asm r; ({ s with asm := d }, o)
  | _ => (s, "bad-op")

partial def loop (h : IO.FS.Stream) (out : IO.FS.Stream) (s : St) : IO Unit := do
  let line ← h.getLine
  if line.isEmpty then return ()
  let (s', o) := step s line
  out.putStrLn o
  loop h out s'

def main : IO Unit := do
  let out ← IO.getStdout
  loop (← IO.getStdin) out {}
