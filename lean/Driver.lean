import QuinnModel.Drv.Wire
import QuinnModel.Drv.RxPn
import QuinnModel.Drv.Streams
import QuinnModel.Drv.Dgram
import QuinnModel.Drv.Mtud
import QuinnModel.Drv.Cindex
import QuinnModel.Drv.Ack
import QuinnModel.Drv.C12
import QuinnModel.Drv.C14
import QuinnModel.Drv.Header
import QuinnModel.Drv.Tparams
import QuinnModel.Drv.Frame
import QuinnModel.Drv.PendingAcks
import QuinnModel.Drv.PathResponses
import QuinnModel.Drv.AckFrequency
import QuinnModel.Drv.CidState
import QuinnModel.Drv.CidQueue
import QuinnModel.Drv.Conn
import QuinnModel.Drv.Udp
import QuinnModel.Drv.Sbuf
import QuinnModel.Drv.Asm
import QuinnModel.Drv.CidEcho
import QuinnModel.Drv.FrameRules
import QuinnModel.Drv.Rcv
import QuinnModel.Drv.KeyUpdate
/-
Native model driver: one request per line on stdin, one canonical response line on stdout.
`case <id>` resets every component state (and is echoed).
-/
open QM

structure St where
  dedup : Dedup.Dedup := Dedup.init
  streams : Streams.State := Streams.State.initial
  rcv : E2E.St := E2E.St.init 0 0
  dgram : Drv.DgSt := {}
  mtud : Mtud.State := Drv.mtudInit
  cindex : Drv.CState := {}
  cc : Option Controllers.Ctl := none
  sentpk : InFlight.State := {}
  tokencache : TokenCache.State Bytes := TokenCache.default
  bloomlog : BloomLog.State := BloomLog.init 64
  token : Drv.C14.TokSt := {}
  pendingacks : Drv.PendingAcksSt := {}
  pathresp : PathResponses.State := []
  ackfreq : Drv.AckFreqSt := Drv.ackfreqInit
  cidstate : CidState.State := Drv.cidstateInit
  cidq : CidQueue.Handler := Drv.cidqInit
  sbuf : SendBuffer.SendBuffer := {}
  asm : Assembler.Asm := {}
  cidecho : Drv.CidEchoDrv.St := {}
  keyupd : KeyUpdate.State := KeyUpdate.init

def step (s : St) (line : String) : St × String :=
  match words line with
  | "case" :: _ => ({}, line.trimAscii.toString)
  | "varint" :: r => (s, Drv.varint r)
  | "pn" :: r => (s, Drv.pn r)
  | "rxpn" :: r => (s, Drv.rxpn r)
  | "amp" :: r => (s, Drv.amp r)
  | "life" :: r => (s, Drv.life r)
  | "timers" :: r => (s, Drv.timers r)
  | "pathm" :: r => (s, Drv.pathm r)
  | "lossd" :: r => (s, Drv.lossd r)
  | "udp" :: r => (s, Drv.udp r)
  | "dedup" :: r => let (d, o) := Drv.dedup s.dedup r; ({ s with dedup := d }, o)
  | "sbuf" :: r => let (d, o) := Drv.sbuf s.sbuf r; ({ s with sbuf := d }, o)
  | "asm" :: r => let (d, o) := Drv.asm s.asm r; ({ s with asm := d }, o)
  | "cidecho" :: r => let (d, o) := Drv.cidecho s.cidecho r; ({ s with cidecho := d }, o)
  | "keyupd" :: r => let (d, o) := Drv.keyupd s.keyupd r; ({ s with keyupd := d }, o)
  | "cidq" :: r => let (d, o) := Drv.cidq s.cidq r; ({ s with cidq := d }, o)
  | "cidstate" :: r => let (d, o) := Drv.cidstate s.cidstate r; ({ s with cidstate := d }, o)
  | "ackfreq" :: r => let (d, o) := Drv.ackfreq s.ackfreq r; ({ s with ackfreq := d }, o)
  | "ackscan" :: r => (s, Drv.ackscan r)
  | "pathresp" :: r => let (d, o) := Drv.pathresp s.pathresp r; ({ s with pathresp := d }, o)
  | "pendingacks" :: r => let (d, o) := Drv.pendingacks s.pendingacks r; ({ s with pendingacks := d }, o)
  | "frame" :: r => (s, Drv.frame r)
  | "frules" :: r => (s, Drv.frules r)
  | "tparams" :: r => (s, Drv.tparams r)
  | "header" :: r => (s, Drv.header r)
  | "token" :: r => let (d, o) := Drv.C14.token s.token r; ({ s with token := d }, o)
  | "bloomlog" :: r => let (d, o) := Drv.C14.bloomlog s.bloomlog r; ({ s with bloomlog := d }, o)
  | "tokencache" :: r => let (d, o) := Drv.C14.tokencache s.tokencache r; ({ s with tokencache := d }, o)
  | "cc" :: r => let (d, o) := Drv.cc s.cc r; ({ s with cc := d }, o)
  | "sentpk" :: r => let (d, o) := Drv.sentpk s.sentpk r; ({ s with sentpk := d }, o)
  | "cindex" :: r => let (d, o) := Drv.cindex s.cindex r; ({ s with cindex := d }, o)
  | "dgram" :: r => let (d, o) := Drv.dgram s.dgram r; ({ s with dgram := d }, o)
  | "mtud" :: r => let (d, o) := Drv.mtud s.mtud r; ({ s with mtud := d }, o)
  | "streams" :: r => let (d, o) := Drv.streams s.streams r; ({ s with streams := d }, o)
  | "rcv" :: r => let (d, o) := Drv.rcv s.rcv r; ({ s with rcv := d }, o)
  | _ => (s, "bad-op")

partial def loop (h : IO.FS.Stream) (out : IO.FS.Stream) (s : St) : IO Unit := do
  let line ← h.getLine
  if line.isEmpty then return ()
  let (s', o) := step s line
  out.putStrLn o
  loop h out s'

def main : IO Unit := do
  let out ← IO.getStdout
  loop (← IO.getStdin) out {}
