import QuinnModel.Drv.Wire
import QuinnModel.Drv.Conn
/-
Native model driver: one request per line on stdin, one canonical response line on stdout.
`case <id>` resets every component state (and is echoed).
-/
open QM

structure St where
  dedup : Dedup.Dedup := Dedup.init

def step (s : St) (line : String) : St × String :=
  match words line with
  | "case" :: _ => ({}, line.trimAscii.toString)
  | "varint" :: r => (s, Drv.varint r)
  | "pn" :: r => (s, Drv.pn r)
  | "amp" :: r => (s, Drv.amp r)
  | "life" :: r => (s, Drv.life r)
  | "dedup" :: r => let (d, o) := Drv.dedup s.dedup r; ({ s with dedup := d }, o)
  | _ => (s, "bad-op")

partial def loop (h : IO.FS.Stream) (out : IO.FS.Stream) (s : St) : IO Unit := do
  let line ← h.getLine
  if line.isEmpty then return ()
  let (s', o) := step s line
  out.putStrLn o
  loop h out s'

def main : IO Unit := do
  let out ← IO.getStdout
  loop (← IO.getStdin) out {}
