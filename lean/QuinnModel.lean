-- This module serves as the root of the `QuinnModel` library.
-- Import modules here that should be built as part of the library.
import QuinnModel.Basic
