-- root of the library: every property module (lake build QuinnModel checks everything)
import QuinnModel.Props.C01
import QuinnModel.Props.C03
import QuinnModel.Props.C04
import QuinnModel.Props.C07
import QuinnModel.Props.C08
import QuinnModel.Props.C09
import QuinnModel.Props.C10
import QuinnModel.Props.C10_ack
import QuinnModel.Props.C10_frames
import QuinnModel.Props.C10_header
import QuinnModel.Props.C10_tparams
import QuinnModel.Props.C12
import QuinnModel.Props.C13
import QuinnModel.Props.C14
import QuinnModel.Props.C15
import QuinnModel.Props.C16
import QuinnModel.Props.C20
